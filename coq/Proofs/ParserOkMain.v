(* Proofs about Model/Parser.v, part 7: the main pass keeps the second shape invariant (Proofs/ParserOkTree.v).

   [oinv st]  every node filed so far in the group / alternation / concatenation under construction, on the
              group stack and in the pending unit is well formed ([wf]: arities, counts, one-directional loop
              bodies, group numbers in the capture table) and runs in the direction of its level:
              the RightToLeft bit of the parser's current options, which only a lookaround group changes
              (scanOptions never touches it, popOptions restores it).
   Hypotheses on the capture table [tb] the main pass reads: every number it calls a slot and every number it
   returns for a name is a key of [caps]; and, per round, the number of a plain "(" is a key of caps ([Hac],
   discharged in Proofs/ParserOkAgree.v from the agreement of the pre-scan with the main pass). *)
From Coq Require Import ZifyBool.
From Verif Require Import Base.Prelude Gen.ParseLitGen Model.Escape Model.ParseLit Model.GroupMap Model.CharClass
  Model.Parser Proofs.ParseLitProofs Proofs.ParserScan Proofs.ParserTree Proofs.ParserMain Proofs.ParserPre
  Proofs.ParserProofs Proofs.ParserOkTree.

(* ---------------------------------------------------------------- scanDecimal stays below 2^31 *)
Lemma scan_decimal_le p : forall i v r, i <= 2147483647 -> scan_decimal i p = Ok (v, r) -> v <= 2147483647.
Proof.
  induction p as [|c p IH]; intros i v r Hi H; cbn [scan_decimal] in H.
  - inversion H. lia.
  - destruct ((c - 48 <? 0) || (9 <? c - 48)) eqn:E; [inversion H; lia|].
    destruct ((214748364 <? i) || ((i =? 214748364) && (7 <? c - 48))) eqn:E2; [discriminate|].
    eapply IH; [|exact H]. lia.
Qed.

Lemma decimal_range p v r : decimal p = POk (v, r) -> 0 <= v <= 2147483647.
Proof.
  intros H. split; [eapply decimal_nonneg; exact H|].
  unfold decimal, of_res in H. destruct (scan_decimal 0 p) as [[v' r']|c|w|] eqn:E; try discriminate.
  inversion H; subst. eapply scan_decimal_le; [|exact E]. lia.
Qed.

Section OkMain.
Variable caps : Z -> bool.
Variable tb : captab.
Hypothesis Hslot : forall k, ct_slot tb k = true -> caps k = true.
Hypothesis Hname : forall s g, ct_name tb s = Some g -> caps g = true.

Variable is_word_char : Z -> bool.
Variable to_lower : Z -> Z.
Variable simple_fold : Z -> Z.
Variable participates : Z -> bool.
Variable cat_in : Z -> Z -> bool.
Variable cat_name : list Z -> Z.

Local Notation wf := (wf caps).
Local Notation wfl := (wfl caps).
Local Notation pre := (pre caps).
Local Notation unit_ok := (unit_ok caps).

Local Notation char_escape := (char_escape is_word_char).
Local Notation parse_property := (parse_property is_word_char cat_name).
Local Notation cs_scan := (cs_scan is_word_char cat_name).
Local Notation mk_node_ch := (mk_node_ch simple_fold cat_in).
Local Notation mk_node_set := (mk_node_set simple_fold cat_in).
Local Notation char_code := (char_code is_word_char to_lower simple_fold cat_in).
Local Notation name_or_num := (name_or_num is_word_char to_lower simple_fold cat_in).
Local Notation basic_backslash := (basic_backslash is_word_char to_lower simple_fold cat_in).
Local Notation scan_backslash_full := (scan_backslash_full is_word_char to_lower simple_fold cat_in cat_name).
Local Notation class_node := (class_node to_lower simple_fold cat_in).

(* ---------------------------------------------------------------- units *)
Definition bunit (o : Z) (r : pr (bres * list Z)) : Prop :=
  match r with POk (BNode x, _) => unit_ok o x | _ => True end.

Lemma ref_unit o g : caps g = true -> unit_ok o (mk_node_mn T_Ref o g 0).
Proof.
  intros H. split.
  - apply wf_iff. split; [|reflexivity]. unfold knd, gq. cbn. rewrite H. reflexivity.
  - unfold mk_node_mn. rewrite dirb_leaf. cbn. apply eqb_refl_b.
Qed.

Lemma char_code_unit so o p : bunit o (char_code so o p).
Proof.
  unfold Parser.char_code. destruct (char_escape o p) as [[c q]|e q| | |]; cbn [pbind bunit]; auto.
  destruct so; [exact I|].
  destruct (mk_node_ch T_One o (if useI o then to_lower c else c)) as [x| | | |] eqn:E; cbn [pbind bunit]; auto.
  eapply mk_node_ch_unit; [|exact E]. reflexivity.
Qed.

Lemma name_or_num_unit so o k close p0 cur : bunit o (name_or_num so tb o k close p0 cur).
Proof.
  unfold Parser.name_or_num. destruct cur as [|ch cur']; [exact I|].
  destruct (is_digit ch).
  - destruct (decimal (ch :: cur')) as [[capnum r1]|e q| | |]; cbn [pbind bunit]; auto.
    destruct (hd_is r1 close); [|apply char_code_unit].
    destruct (ct_slot tb capnum) eqn:Es; [|exact I]. cbn [bunit]. apply ref_unit. apply Hslot. exact Es.
  - destruct (useE o); [exact I|].
    destruct (scan_word is_word_char (ch :: cur')) as [nm r1].
    destruct (negb (match nm with [] => true | _ => false end) && hd_is r1 close).
    + destruct so; [exact I|].
      destruct (ct_name tb nm) as [g|] eqn:En; [|exact I]. cbn [bunit]. apply ref_unit. eapply Hname. exact En.
    + destruct k; [exact I | apply char_code_unit].
Qed.

Lemma basic_backslash_unit so o p : bunit o (basic_backslash so tb o p).
Proof.
  unfold Parser.basic_backslash. destruct p as [|ch p1]; [exact I|].
  destruct ((ch =? 107) && (negb (useE o) || useU o || ct_named tb)).
  { destruct p1 as [|c2 p2]; [exact I|].
    destruct (negb ((c2 =? 60) || (negb (useE o) && (c2 =? 39)))); [exact I|].
    destruct p2 as [|c3 p3]; [exact I|]. apply name_or_num_unit. }
  destruct (negb (useE o) && ((ch =? 60) || (ch =? 39)) && longer (ch :: p1) 1); [apply name_or_num_unit|].
  destruct ((49 <=? ch) && (ch <=? 57)); [|apply char_code_unit].
  destruct (decimal (ch :: p1)) as [[capnum q]|e q| | |]; cbn [pbind bunit]; auto.
  destruct so; [exact I|].
  destruct (ct_slot tb capnum) eqn:Es; [cbn [bunit]; apply ref_unit; apply Hslot; exact Es|].
  destruct ((capnum <=? 9) && negb (useE o)); [exact I | apply char_code_unit].
Qed.

Lemma set_node_unit o s q : bunit o (pdo x <- mk_node_set T_Set o s ; POk (BNode x, q)).
Proof.
  destruct (mk_node_set T_Set o s) as [x| | | |] eqn:E; cbn [pbind bunit]; auto.
  eapply mk_node_set_unit. exact E.
Qed.

Lemma anchor_unit o ch : unit_ok o (mk_node (type_from_code o ch) o).
Proof.
  unfold mk_node. apply unit_ok_leaf; try reflexivity;
    unfold type_from_code; repeat match goal with |- context [if ?b then _ else _] => destruct b end; reflexivity.
Qed.

Lemma scan_backslash_full_unit so o p : bunit o (scan_backslash_full so tb o p).
Proof.
  unfold Parser.scan_backslash_full. destruct p as [|ch p1]; [exact I|].
  destruct (zmem ch pl_assert_letters).
  { destruct so; [exact I|]. cbn [bunit]. apply anchor_unit. }
  destruct (zmem ch pl_class_letters).
  { destruct so; [exact I|]. apply set_node_unit. }
  destruct ((ch =? 112) || (ch =? 80)); [|apply basic_backslash_unit].
  destruct (useE o && negb (useU o)); [apply basic_backslash_unit|].
  destruct (parse_property o p1) as [[id q]|e q| | |]; cbn [pbind bunit]; auto.
  destruct so; [exact I|]. apply set_node_unit.
Qed.

Lemma class_node_unit o s x : class_node o s = POk x -> unit_ok o x.
Proof.
  unfold Parser.class_node. destruct (useI o && (pp_ci_span_limit <? syn_span o s)); [discriminate|].
  destruct (scan_char_set cat_in simple_fold to_lower pp_orbit_fuel (Opts (useI o) (useE o) (useRE2 o)) s); try discriminate.
  apply mk_node_set_unit.
Qed.

Lemma simple_unit_unit o ch x : simple_unit simple_fold cat_in o ch = POk x -> unit_ok o x.
Proof.
  unfold Parser.simple_unit.
  destruct (ch =? 94).
  { intros E. inversion E; subst. unfold mk_node. apply unit_ok_leaf; try reflexivity; destruct (useM o); reflexivity. }
  destruct (ch =? 36).
  { intros E. inversion E; subst. unfold mk_node.
    apply unit_ok_leaf; try reflexivity; destruct (useM o); try reflexivity; destruct (useRE2 o || useE o); reflexivity. }
  destruct (useS o); [apply mk_node_set_unit|].
  destruct (useE o); [apply mk_node_set_unit|].
  apply mk_node_ch_unit. reflexivity.
Qed.

Lemma python_backref_unit o p x q : python_backref is_word_char tb o p = POk (x, q) -> unit_ok o x.
Proof.
  unfold Parser.python_backref. destruct p as [|ch p']; [discriminate|].
  destruct (useE o); [discriminate|].
  destruct (negb (is_word_char ch)); [discriminate|].
  destruct (scan_word is_word_char (ch :: p')) as [nm q0].
  destruct (negb (is_nil nm) && hd_is q0 41); [|discriminate].
  destruct (ct_name tb nm) as [g|] eqn:En; [|discriminate].
  intros E. inversion E; subst. apply ref_unit. eapply Hname. exact En.
Qed.


(* ---------------------------------------------------------------- the state invariant *)
Definition kidsd (d : bool) (x : rnode) : Prop := wfl (n_kids x) /\ dirl d (n_kids x).

(* the own numbers of a group node are keys of the capture table *)
Definition gnode (g : rnode) : Prop :=
  (n_t g = T_Capture \/ n_t g = T_BackRefCond) -> gq caps (n_t g) (n_m g) (n_n g) = true.

Definition grp_inv (d : bool) (g : rnode) : Prop :=
  wfl (n_kids g) /\ gnode g /\
  match kcls (n_t g) with
  | KUnary => n_kids g = []
  | KBref => dirl d (n_kids g)
  | KEcond => dirl d (tl (n_kids g))
  | _ => False
  end.

Definition lvl (d : bool) (g a c : rnode) : Prop := grp_inv d g /\ kidsd d a /\ kidsd d c.

(* [tG] = the type of the group opened from the top frame; [d] = the direction inside it *)
Fixpoint stack_inv (tG : Z) (d : bool) (stk : list (rnode * rnode * rnode)) (os : list Z) : Prop :=
  match stk, os with
  | [], [] => True
  | (g, a, c) :: stk', o :: os' =>
      (is_look tG = false -> useRTL o = d) /\ lvl (useRTL o) g a c /\ stack_inv (n_t g) (useRTL o) stk' os'
  | _, _ => False
  end.

Definition unit_inv (d : bool) (u : option rnode) : Prop :=
  match u with Some x => pre x /\ dirb d x = true | None => True end.

Record oinv (st : mst) : Prop := mkOI {
  oi_lvl : lvl (useRTL (ms_o st)) (ms_group st) (ms_alt st) (ms_concat st);
  oi_stack : stack_inv (n_t (ms_group st)) (useRTL (ms_o st)) (ms_stack st) (ms_os st);
  oi_unit : unit_inv (useRTL (ms_o st)) (ms_unit st) }.

Local Notation add_child := (add_child cat_in).
Local Notation ACW := (add_child_wf caps is_word_char to_lower simple_fold participates cat_in cat_name).
Local Notation ACO := (add_child_ok is_word_char to_lower simple_fold participates cat_in cat_name).
Local Notation MQW := (make_quantifier_wf caps is_word_char to_lower simple_fold participates cat_in cat_name).
Local Notation MQO := (make_quantifier_ok is_word_char to_lower simple_fold participates cat_in cat_name).
Local Notation add_concatenate := (add_concatenate cat_in).
Local Notation add_concatenate3 := (add_concatenate3 cat_in).
Local Notation add_ones := (add_ones simple_fold cat_in).
Local Notation add_to_concatenate := (add_to_concatenate simple_fold participates cat_in).
Local Notation add_alternate := (add_alternate cat_in).
Local Notation add_group := (add_group cat_in).
Local Notation pop_group := (pop_group cat_in).
Local Notation add_run := (add_run simple_fold participates cat_in).
Local Notation scan_quantifier := (scan_quantifier cat_in).
Local Notation after_unit := (after_unit cat_in).
Local Notation round_open := (round_open is_word_char cat_in).
Local Notation round_close := (round_close cat_in).
Local Notation simple_unit := (simple_unit simple_fold cat_in).
Local Notation scan_round := (scan_round is_word_char to_lower simple_fold participates cat_in cat_name).
Local Notation scan_loop_full := (scan_loop_full is_word_char to_lower simple_fold participates cat_in cat_name).
Local Notation scan_regex := (scan_regex is_word_char to_lower simple_fold participates cat_in cat_name).

(* a reduced child joins the children of a node under construction *)
Lemma add_child_kidsd d parent child p' : kidsd d parent -> good child -> pre child -> dirb d child = true ->
  add_child parent child = Ok p' ->
  kidsd d p' /\ exists r, p' = set_kids parent (n_kids parent ++ [r]) /\ wf r /\ dirb d r = true.
Proof.
  intros [K1 K2] G P D E. destruct (ACW parent child p' G P E) as [r [-> [Wr Dr]]].
  split; [|exists r; auto]. destruct parent as [t o ch m n str st kids]. cbn [set_kids n_kids] in *.
  split; [apply wfl_app; split; [exact K1 | apply wfl_cons; split; [exact Wr | apply wfl_nil]]|].
  apply dirl_app. split; [exact K2 | apply dirl_cons; split; [apply Dr; exact D | apply dirl_nil]].
Qed.

Lemma add_concatenate_o st st' : mbody st -> oinv st -> add_concatenate st = POk st' -> oinv st'.
Proof.
  intros [Bg Ba Bc Bs Bu] [[Lg [La Lc]] Ls Lu] E. unfold Parser.add_concatenate in E.
  destruct (ms_unit st) as [u|] eqn:Eu; [|discriminate]. cbn [unit_inv] in Lu. destruct Lu as [Pu Du].
  destruct (add_child (ms_concat st) u) as [c'| | |] eqn:Ec; cbn [of_res pbind] in E; try discriminate.
  inversion E; subst. destruct (add_child_kidsd _ _ _ _ Lc Bu Pu Du Ec) as [Kc' _].
  constructor; cbn; [split; [exact Lg | split; [exact La | exact Kc']] | exact Ls | exact I].
Qed.

Lemma add_concatenate3_o st lazy mn mx st' : mbody st -> oinv st -> bounds_ok mn mx = true ->
  add_concatenate3 st lazy mn mx = POk st' -> oinv st'.
Proof.
  intros [Bg Ba Bc Bs Bu] [[Lg [La Lc]] Ls Lu] B E. unfold Parser.add_concatenate3 in E.
  destruct (ms_unit st) as [u|] eqn:Eu; [|discriminate]. cbn [unit_inv] in Lu. destruct Lu as [Pu Du].
  destruct (make_quantifier cat_in u lazy mn mx) as [q| | |] eqn:Eq; cbn [of_res pbind] in E; try discriminate.
  destruct (MQW u lazy mn mx q _ Bu Pu Du B Eq) as [Pq Dq].
  destruct (MQO u lazy mn mx Bu ltac:(unfold bounds_ok in B; lia)) as [q' [Eq' Gq]]. rewrite Eq in Eq'. inversion Eq'; subst q'.
  destruct (add_child (ms_concat st) q) as [c'| | |] eqn:Ec; cbn [of_res pbind] in E; try discriminate.
  inversion E; subst. destruct (add_child_kidsd _ _ _ _ Lc Gq Pq (Dq _ Du) Ec) as [Kc' _].
  constructor; cbn; [split; [exact Lg | split; [exact La | exact Kc']] | exact Ls | exact I].
Qed.

Lemma concat_ok_step c x c' : concat_ok c -> good x -> add_child c x = Ok c' -> concat_ok c'.
Proof.
  intros [Kc Tc] G E. destruct (ACO c x Kc G) as [c2 [E2 [K' [_ [T' _]]]]]. rewrite E in E2. inversion E2; subst.
  split; [exact K' | congruence].
Qed.

Lemma add_ones_o o d s : useRTL o = d -> forall c c', concat_ok c -> kidsd d c -> add_ones o c s = POk c' -> kidsd d c'.
Proof.
  intros Hd. induction s as [|ch s IH]; intros c c' Hc Kc E; cbn [Parser.add_ones] in E; [inversion E; subst; exact Kc|].
  destruct (Parser.mk_node_ch simple_fold cat_in T_One o ch) as [x| | | |] eqn:Ex; cbn [pbind] in E; try discriminate.
  destruct (mk_node_ch_unit caps simple_fold cat_in T_One o ch x eq_refl Ex) as [Wx Dx].
  pose proof (mk_node_ch_ok simple_fold cat_in T_One o ch ltac:(reflexivity) ltac:(tnum; lia) ltac:(reflexivity)) as Gx.
  rewrite Ex in Gx.
  destruct (add_child c x) as [c1| | |] eqn:Ec; cbn [of_res pbind] in E; try discriminate.
  destruct (add_child_kidsd d c x c1 Kc Gx (wf_pre _ _ Wx) ltac:(rewrite <- Hd; exact Dx) Ec) as [K1 _].
  eapply IH; [eapply concat_ok_step; eassumption | exact K1 | exact E].
Qed.

Lemma add_to_concatenate_o o d c s c' : useRTL o = d -> concat_ok c -> kidsd d c ->
  add_to_concatenate o c s = POk c' -> kidsd d c'.
Proof.
  intros Hd Hc Kc E. unfold Parser.add_to_concatenate in E.
  destruct s as [|ch [|ch2 s']]; [inversion E; subst; exact Kc | eapply add_ones_o; eassumption |].
  destruct (negb (useI o) || negb (existsb participates (ch :: ch2 :: s'))); [|eapply add_ones_o; eassumption].
  assert (G : good (mk_node_str T_Multi (clear_I o) (ch :: ch2 :: s'))).
  { apply good_eq. split; [|constructor]. unfold shape_ok. repeat split; intros; try discriminate; exfalso; tnum; lia. }
  assert (U : unit_ok o (mk_node_str T_Multi (clear_I o) (ch :: ch2 :: s'))).
  { unfold mk_node_str. apply unit_ok_leaf; try reflexivity. apply useRTL_clear_I. }
  destruct U as [Wx Dx].
  destruct (add_child c (mk_node_str T_Multi (clear_I o) (ch :: ch2 :: s'))) as [c1| | |] eqn:Ec; cbn [of_res] in E; try discriminate.
  injection E as <-.
  destruct (add_child_kidsd d c _ c1 Kc G (wf_pre _ _ Wx) ltac:(rewrite <- Hd; exact Dx) Ec) as [K1 _]. exact K1.
Qed.

Lemma add_run_o st run isq st' : mbody st -> oinv st -> ms_unit st = None -> add_run st run isq = POk st' -> oinv st'.
Proof.
  intros B Ho Hu E. unfold Parser.add_run in E. destruct run as [|r0 run']; [inversion E; subst; exact Ho|].
  destruct Ho as [[Lg [La Lc]] Ls Lu].
  set (run := r0 :: run') in *.
  destruct (add_to_concatenate (ms_o st) (ms_concat st) (if isq then removelast run else run)) as [c| | | |] eqn:Ea;
    cbn [pbind] in E; try discriminate.
  pose proof (add_to_concatenate_o _ _ _ _ _ eq_refl (mb_concat st B) Lc Ea) as Kc.
  destruct isq.
  - destruct (Parser.mk_node_ch simple_fold cat_in T_One (ms_o st) (last run 0)) as [u| | | |] eqn:Ex; cbn [pbind] in E; try discriminate.
    inversion E; subst.
    destruct (mk_node_ch_unit caps simple_fold cat_in T_One (ms_o st) _ u eq_refl Ex) as [Wx Dx].
    constructor; cbn; [split; [exact Lg | split; [exact La | exact Kc]] | exact Ls | split; [apply wf_pre; exact Wx | exact Dx]].
  - inversion E; subst. constructor; cbn; [split; [exact Lg | split; [exact La | exact Kc]] | exact Ls | rewrite Hu; exact I].
Qed.


Lemma cond_t_cases t : is_cond_t t = true -> t = T_ExprCond \/ t = T_BackRefCond.
Proof. unfold is_cond_t. tnum. lia. Qed.

Lemma kcls_not_cond t : is_cond_t t = false -> kcls t <> KBref /\ kcls t <> KEcond.
Proof.
  unfold is_cond_t. intros H. knum.
  repeat match goal with |- context [if ?b then _ else _] => destruct b eqn:? end; split; try discriminate; lia.
Qed.

Lemma set_kids_fields x k : n_t (set_kids x k) = n_t x /\ n_m (set_kids x k) = n_m x /\ n_n (set_kids x k) = n_n x /\ n_kids (set_kids x k) = k.
Proof. destruct x; cbn; auto. Qed.

Lemma gnode_set_kids x k : gnode x -> gnode (set_kids x k).
Proof. unfold gnode. destruct (set_kids_fields x k) as [-> [-> [-> _]]]. auto. Qed.

Local Notation CRG := (concat_rev_good is_word_char to_lower simple_fold participates cat_in cat_name).
Local Notation ALTG := (alt_good is_word_char to_lower simple_fold participates cat_in cat_name).

Lemma fresh_concat_kidsd d o : kidsd d (mk_node T_Concatenate o).
Proof. split; reflexivity. Qed.

(* a branch joins the children of a conditional group *)
Lemma cond_group_add d g r : is_cond_t (n_t g) = true -> grp_inv d g -> wf r -> dirb d r = true ->
  grp_inv d (set_kids g (n_kids g ++ [r])).
Proof.
  intros C [W [N K]] Wr Dr. destruct (set_kids_fields g (n_kids g ++ [r])) as [F1 [_ [_ F4]]].
  split; [rewrite F4; apply wfl_app; split; [exact W | apply wfl_cons; split; [exact Wr | apply wfl_nil]]|].
  split; [apply gnode_set_kids; exact N|]. rewrite F1, F4.
  destruct (cond_t_cases _ C) as [Et | Et]; rewrite Et in *; cbn in K |- *.
  - destruct (n_kids g) as [|k0 r0]; [apply dirl_nil|]. cbn [tl app] in *.
    apply dirl_app. split; [exact K | apply dirl_cons; split; [exact Dr | apply dirl_nil]].
  - apply dirl_app. split; [exact K | apply dirl_cons; split; [exact Dr | apply dirl_nil]].
Qed.

Lemma add_alternate_o st st' : mbody st -> oinv st -> add_alternate st = POk st' -> oinv st'.
Proof.
  intros [Bg Ba Bc Bs Bu] [[Lg [La Lc]] Ls Lu] E. unfold Parser.add_alternate in E.
  pose proof (CRG _ Bc) as Gc.
  destruct (reverse_left_pre caps (ms_concat st) (proj1 Lc) (proj2 Bc)) as [Pc Dc]. specialize (Dc _ (proj2 Lc)).
  destruct (is_cond_t (n_t (ms_group st))) eqn:C.
  - destruct (add_child (ms_group st) (reverse_left (ms_concat st))) as [g'| | |] eqn:Eg; cbn [of_res pbind] in E; try discriminate.
    inversion E; subst. destruct (ACW _ _ _ Gc Pc Eg) as [r [-> [Wr Dr]]].
    constructor; cbn.
    + split; [apply cond_group_add; auto | split; [exact La | apply fresh_concat_kidsd]].
    + destruct (set_kids_fields (ms_group st) (n_kids (ms_group st) ++ [r])) as [-> _]. exact Ls.
    + exact Lu.
  - destruct (add_child (ms_alt st) (reverse_left (ms_concat st))) as [a'| | |] eqn:Ea; cbn [of_res pbind] in E; try discriminate.
    inversion E; subst. destruct (add_child_kidsd _ _ _ _ La Gc Pc Dc Ea) as [Ka' _].
    constructor; cbn; [split; [exact Lg | split; [exact Ka' | apply fresh_concat_kidsd]] | exact Ls | exact Lu].
Qed.

(* addGroup: the closed group becomes the unit *)
Lemma add_group_o st st' : mbody st -> oinv st ->
  (n_t (ms_group st) = T_ExprCond -> n_kids (ms_group st) <> []) ->
  add_group st = POk st' ->
  ms_stack st' = ms_stack st /\ ms_os st' = ms_os st /\ ms_o st' = ms_o st /\
  exists g', ms_unit st' = Some g' /\ n_t g' = n_t (ms_group st) /\ pre g' /\
             (forall d', (is_look (n_t g') = false -> d' = useRTL (ms_o st)) -> dirb d' g' = true).
Proof.
  intros [Bg Ba Bc Bs Bu] [[Lg [La Lc]] Ls Lu] HK E. unfold Parser.add_group in E.
  pose proof (CRG _ Bc) as Gc.
  destruct (reverse_left_pre caps (ms_concat st) (proj1 Lc) (proj2 Bc)) as [Pc Dc]. specialize (Dc _ (proj2 Lc)).
  set (d := useRTL (ms_o st)) in *.
  destruct (is_cond_t (n_t (ms_group st))) eqn:C.
  - destruct (add_child (ms_group st) (reverse_left (ms_concat st))) as [g'| | |] eqn:Eg; cbn [of_res pbind] in E; try discriminate.
    destruct (ACW _ _ _ Gc Pc Eg) as [r [Eg' [Wr Dr]]].
    match type of E with (if ?b then _ else _) = _ => destruct b eqn:EB end; [discriminate|].
    inversion E; subst st'. cbn. repeat split; try reflexivity.
    exists g'. split; [reflexivity|].
    pose proof (cond_group_add d _ r C Lg Wr (Dr _ Dc)) as [W' [N' K']]. rewrite <- Eg' in *.
    destruct (set_kids_fields (ms_group st) (n_kids (ms_group st) ++ [r])) as [F1 [F2 [F3 F4]]]. rewrite <- Eg' in *.
    split; [exact F1|].
    destruct g' as [t o ch m n str sset kids]. cbn [n_t n_kids n_m n_n] in *.
    assert (LEN : kids <> []) by (rewrite F4; intros HH; apply app_eq_nil in HH; destruct HH; discriminate).
    destruct (cond_t_cases _ C) as [Et | Et]; rewrite Et in F1; subst t.
    + split.
      * split; [|exact W']. unfold knd. cbn. unfold zlen in EB.
        assert (L2 : (2 <= length kids)%nat).
        { rewrite F4, app_length. cbn [length]. specialize (HK Et). destruct (n_kids (ms_group st)); [congruence | cbn [length]; lia]. }
        destruct kids as [|k1 [|k2 [|k3 [|k4 l]]]]; try reflexivity; cbn [length] in EB, L2; lia.
      * intros d' Hd'. rewrite (Hd' eq_refl). rewrite dirb_econd. exact K'.
    + split.
      * split; [|exact W']. unfold knd. cbn. unfold zlen in EB.
        destruct kids as [|k1 [|k2 [|k3 l]]]; try congruence; try (apply N'; right; reflexivity). cbn [length] in EB. lia.
      * intros d' Hd'. rewrite (Hd' eq_refl). rewrite dirb_bref. exact K'.
  - destruct (add_child (ms_alt st) (reverse_left (ms_concat st))) as [a'| | |] eqn:Ea; cbn [of_res pbind] in E; try discriminate.
    destruct (add_child_kidsd _ _ _ _ La Gc Pc Dc Ea) as [[Wa' Da'] [r [Ea' _]]].
    assert (Aa : alt_ok a').
    { destruct Ba as [Ka Ta]. destruct (ACO (ms_alt st) _ Ka Gc) as [a2 [E2 [K2 [_ [T2 _]]]]]. rewrite Ea in E2. inversion E2; subst a2.
      split; [exact K2 | congruence]. }
    assert (Pa : pre a').
    { destruct a' as [t o ch m n str sset kids]. destruct Aa as [_ Ta]. cbn [n_t n_kids] in *. subst t. split; [reflexivity | exact Wa']. }
    assert (Dra : dirb d a' = true).
    { destruct a' as [t o ch m n str sset kids]. destruct Aa as [_ Ta]. cbn [n_t n_kids] in *. subst t. rewrite dirb_list_node by auto. exact Da'. }
    destruct (add_child (ms_group st) a') as [g'| | |] eqn:Eg; cbn [of_res pbind] in E; try discriminate.
    destruct (ACW _ _ _ (ALTG _ Aa) Pa Eg) as [r2 [Eg' [Wr2 Dr2]]].
    inversion E; subst st'. cbn. repeat split; try reflexivity.
    exists g'. split; [reflexivity|].
    destruct Lg as [W [N K]]. destruct (kcls_not_cond _ C) as [NB NE].
    destruct (kcls (n_t (ms_group st))) eqn:KG; try contradiction; try congruence.
    rewrite K in Eg'. cbn [app] in Eg'.
    destruct (ms_group st) as [t o ch m n str sset kids] eqn:EG. cbn [set_kids n_t n_m n_n n_kids] in *. subst g'. cbn [n_t].
    split; [reflexivity|]. split.
    + split; [|cbn [n_kids]; apply wfl_cons; split; [exact Wr2 | apply wfl_nil]].
      unfold knd. rewrite KG. destruct (t =? T_Capture) eqn:ET; [|reflexivity]. cbn [negb orb]. apply N. left. apply Z.eqb_eq. exact ET.
    + intros d' Hd'. destruct (is_look t) eqn:LK; [rewrite dirb_eq, LK; reflexivity|].
      rewrite (Hd' eq_refl). rewrite dirb_unary by assumption. apply Dr2. exact Dra.
Qed.


(* ---------------------------------------------------------------- scanGroupOpen *)
Definition gkind (t : Z) : Prop := kcls t = KUnary \/ kcls t = KBref \/ kcls t = KEcond.

Definition gopen_ok (v : gvars) (r : pr (option rnode * gvars * list Z)) : Prop :=
  match r with
  | POk (Some gn, v', _) => n_kids gn = [] /\ gnode gn /\ gkind (n_t gn) /\
                            (is_look (n_t gn) = false -> useRTL (gv_o v') = useRTL (gv_o v))
  | POk (None, v', _) => useRTL (gv_o v') = useRTL (gv_o v)
  | _ => True
  end.

Definition num_ok (k : Z) : Prop := k = -1 \/ caps k = true.

Lemma capture_gnode o m n : num_ok m -> num_ok n -> (negb (m =? -1) || negb (n =? -1)) = true ->
  gnode (mk_node_mn T_Capture o m n).
Proof.
  intros Hm Hn Hc _. unfold mk_node_mn. cbn [n_t n_m n_n]. unfold gq. cbn.
  destruct (n =? -1) eqn:En.
  - destruct Hm as [-> | Hm]; [try rewrite En in Hc; cbn in Hc; discriminate | exact Hm].
  - destruct Hn as [-> | Hn]; [discriminate|]. rewrite Hn. destruct Hm as [-> | Hm]; [reflexivity|]. rewrite Hm. apply orb_true_r.
Qed.

Local Notation group_name := (group_name is_word_char).
Local Notation group_cond := (group_cond is_word_char).
Local Notation group_pyname := (group_pyname is_word_char).
Local Notation group_open := (group_open is_word_char).

Lemma group_name_o mco v close cur : gopen_ok v (group_name tb mco v close cur).
Proof.
  unfold Parser.group_name. destruct cur as [|ch cur']; [exact I|].
  destruct (useE (gv_o v)); [exact I|].
  set (cur := ch :: cur') in *.
  match goal with |- gopen_ok _ (pbind ?a _) =>
    assert (A : match a with POk (capnum, _, _) => num_ok capnum | _ => True end) end.
  { destruct (is_digit ch).
    - destruct (decimal cur) as [[n q]|e q| | |]; cbn [pbind]; auto.
      destruct (hd_is_not q close && hd_is_not q 45); [exact I|].
      assert (NK : num_ok (if mco && negb (n =? 0) then (if ch =? 48 then -1 else match ct_name tb (itoa n) with Some g => g | None => -1 end)
                           else if ct_slot tb n then n else -1)).
      { destruct (mco && negb (n =? 0)).
        - destruct (ch =? 48); [left; reflexivity|].
          destruct (ct_name tb (itoa n)) as [g|] eqn:En; [right; eapply Hname; exact En | left; reflexivity].
        - destruct (ct_slot tb n) eqn:Es; [right; apply Hslot; exact Es | left; reflexivity]. }
      match goal with |- match (if ?b then _ else _) with _ => _ end => destruct b end; [exact I | exact NK].
    - destruct (is_word_char ch).
      + destruct (scan_word is_word_char cur) as [nm q].
        destruct (hd_is_not q close && hd_is_not q 45); [exact I|].
        destruct (ct_name tb nm) as [g|] eqn:En; [right; eapply Hname; exact En | left; reflexivity].
      + destruct (ch =? 45); [left; reflexivity | exact I]. }
  match goal with |- gopen_ok _ (pbind ?a _) => destruct a as [[[capnum proceed] q]|e q| | |] end; cbn [pbind gopen_ok]; auto.
  match goal with |- gopen_ok _ (pbind ?a _) =>
    assert (B : match a with POk (u, _) => num_ok u | _ => True end) end.
  { destruct ((negb (capnum =? -1) || proceed) && hd_is q 45); [|left; reflexivity].
    destruct (tl q) as [|c3 q1']; [exact I|].
    destruct (is_digit c3).
    - destruct (decimal (c3 :: q1')) as [[u q2]|e q2| | |]; cbn [pbind]; auto.
      destruct (ct_slot tb u) eqn:Es; cbn [negb]; [|exact I]. destruct (hd_is_not q2 close); [exact I|]. right. apply Hslot. exact Es.
    - destruct (is_word_char c3); [|exact I].
      destruct (scan_word is_word_char (c3 :: q1')) as [nm q2].
      destruct (ct_name tb nm) as [u|] eqn:En; [|exact I]. destruct (hd_is_not q2 close); [exact I|]. right. eapply Hname. exact En. }
  match goal with |- gopen_ok _ (pbind ?a _) => destruct a as [[uncapnum q3]|e q3| | |] end; cbn [pbind gopen_ok]; auto.
  destruct ((negb (capnum =? -1) || negb (uncapnum =? -1)) && hd_is q3 close) eqn:EC; [|exact I].
  cbn [gopen_ok gv_o]. split; [reflexivity|]. split; [apply capture_gnode; auto; apply andb_prop in EC; tauto|].
  split; [left; reflexivity | auto].
Qed.

Lemma group_cond_o v p1 : gopen_ok v (group_cond tb v p1).
Proof.
  unfold Parser.group_cond.
  match goal with |- gopen_ok _ (pbind ?a _) =>
    assert (A : match a with POk (Some (g, _)) => caps g = true | _ => True end) end.
  { destruct (tl p1) as [|c p2']; [exact I|].
    destruct (is_digit c).
    - destruct (decimal (c :: p2')) as [[n q]|e q| | |]; cbn [pbind]; auto.
      destruct (hd_is q 41); [|exact I]. destruct (ct_slot tb n) eqn:Es; [apply Hslot; exact Es | exact I].
    - destruct (is_word_char c); [|exact I].
      destruct (useE (gv_o v)); [exact I|].
      destruct (scan_word is_word_char (c :: p2')) as [nm q].
      destruct (ct_name tb nm) as [g|] eqn:En; [|exact I]. destruct (hd_is q 41); [eapply Hname; exact En | exact I]. }
  match goal with |- gopen_ok _ (pbind ?a _) => destruct a as [[[g q1]|]|e q| | |] end; cbn [pbind gopen_ok]; auto.
  - split; [reflexivity|]. split; [intros _; unfold mk_node_mn; cbn; exact A|]. split; [right; left; reflexivity | auto].
  - assert (G : gopen_ok v (POk (Some (mk_node T_ExprCond (gv_o v)), mkGV (gv_o v) true (gv_autocap v), p1))).
    { cbn. split; [reflexivity|]. split; [intros [H|H]; discriminate|]. split; [right; right; reflexivity | auto]. }
    repeat match goal with |- context [if ?b then _ else _] => destruct b end; try exact I; exact G.
Qed.

Lemma group_pyname_o mco v p2 : gopen_ok v (group_pyname tb mco v p2).
Proof.
  unfold Parser.group_pyname.
  destruct (negb (longer p2 2)); [exact I|].
  destruct (negb (hd_is p2 60)); [exact I|].
  destruct (is_word_char (nth 1 p2 0)); [|exact I].
  destruct (useE (gv_o v)); [exact I|].
  destruct (scan_word is_word_char (tl p2)) as [nm q].
  destruct (hd_is_not q 62); [exact I|].
  destruct (ct_name tb nm) as [g|] eqn:En.
  - destruct (negb (g =? -1) && hd_is q 62) eqn:EC; [|exact I]. cbn [gopen_ok gv_o].
    split; [reflexivity|]. split; [|split; [left; reflexivity | auto]].
    apply capture_gnode; [right; eapply Hname; exact En | left; reflexivity|]. apply andb_prop in EC. destruct EC as [EC _]. rewrite EC. reflexivity.
  - cbn. exact I.
Qed.

Lemma gopen_ok_reopt v v0 r : gv_o v0 = gv_o v -> gopen_ok v0 r -> gopen_ok v r.
Proof. intros H. unfold gopen_ok. rewrite H. auto. Qed.

Lemma group_open_o mco gt v p :
  ((is_nil p || negb (hd_is p 63) || nth_is 1 p 41) = true -> (useN (gv_o v) || gv_ign v) = false ->
   caps (gv_autocap v) = true) ->
  gopen_ok v (group_open tb mco gt v p).
Proof.
  intros Hac. unfold Parser.group_open.
  destruct (is_nil p || negb (hd_is p 63) || nth_is 1 p 41) eqn:E0.
  { destruct (useN (gv_o v) || gv_ign v) eqn:E1; cbn [gopen_ok gv_o].
    - split; [reflexivity|]. split; [intros [H|H]; discriminate|]. split; [left; reflexivity | auto].
    - split; [reflexivity|]. split; [|split; [left; reflexivity | auto]].
      intros _. unfold mk_node_mn. cbn [n_t n_m n_n]. unfold gq. cbn. exact (Hac eq_refl eq_refl). }
  destruct (tl p) as [|ch p2] eqn:E1; [exact I|].
  assert (SIMPLE : forall t o' q, gkind t -> (is_look t = false -> useRTL o' = useRTL (gv_o v)) -> (t <> T_Capture /\ t <> T_BackRefCond) ->
            gopen_ok v (POk (Some (mk_node t o'), mkGV o' false (gv_autocap v), q))).
  { intros t o' q K L [N1 N2]. unfold gopen_ok, gnode, mk_node. cbn [n_kids n_t n_m n_n gv_o]. split; [reflexivity|]. split; [intros [H|H]; congruence|]. split; [exact K | exact L]. }
  destruct (ch =? 58); [apply SIMPLE; [left; reflexivity | auto | split; discriminate]|].
  destruct (ch =? 61); [apply SIMPLE; [left; reflexivity | discriminate | split; discriminate]|].
  destruct (ch =? 33); [apply SIMPLE; [left; reflexivity | discriminate | split; discriminate]|].
  destruct (ch =? 62); [apply SIMPLE; [left; reflexivity | auto | split; discriminate]|].
  destruct ((ch =? 39) || (ch =? 60)).
  { destruct p2 as [|c2 p3]; [exact I|].
    destruct ((c2 =? 61) || (c2 =? 33)).
    - destruct ((if ch =? 39 then 39 else 62) =? 39); [exact I|].
      apply SIMPLE; destruct (c2 =? 61); try (left; reflexivity); try discriminate; split; discriminate.
    - eapply gopen_ok_reopt; [|apply group_name_o]. reflexivity. }
  destruct (ch =? 40); [eapply gopen_ok_reopt; [|apply group_cond_o]; reflexivity|].
  destruct ((ch =? 80) && useRE2 (gv_o v)); [eapply gopen_ok_reopt; [|apply group_pyname_o]; reflexivity|].
  destruct (if gt =? T_ExprCond then (gv_o v, ch :: p2) else scan_options_text (gv_o v) (ch :: p2)) as [o2 q] eqn:Eo.
  assert (R : useRTL o2 = useRTL (gv_o v)).
  { destruct (gt =? T_ExprCond); [inversion Eo; reflexivity|]. apply inline_options_keep_top_bits in Eo. tauto. }
  destruct q as [|c q1]; [exact I|].
  destruct (c =? 41); [cbn; exact R|].
  destruct (c =? 58); [|exact I]. apply SIMPLE; [left; reflexivity | auto | split; discriminate].
Qed.


(* ---------------------------------------------------------------- quantifiers *)
Lemma brace_counts_range p1 mn mx q : brace_counts p1 = POk (Some (mn, mx, q)) ->
  0 <= mn <= 2147483647 /\ 0 <= mx <= 2147483647.
Proof.
  unfold brace_counts. intros H.
  destruct (decimal p1) as [[mn0 q0]|e q0| | |] eqn:D; cbn [pbind] in H; try discriminate.
  pose proof (decimal_range _ _ _ D) as R0.
  match type of H with pbind ?a _ = _ => destruct a as [[mx0 q2]|e q2| | |] eqn:D2 end; cbn [pbind] in H; try discriminate.
  destruct ((length q0 =? length p1)%nat || negb (hd_is q2 125)); [discriminate|]. inversion H; subst.
  split; [exact R0|].
  destruct ((length q0 <? length p1)%nat && hd_is q0 44).
  - destruct (is_nil (tl q0) || hd_is (tl q0) 125); [inversion D2; subst; unfold pp_inf; lia|].
    exact (decimal_range _ _ _ D2).
  - inversion D2; subst. exact R0.
Qed.

Local Notation AC3 := (add_concatenate3_ok is_word_char to_lower simple_fold participates cat_in cat_name).
Local Notation AC1 := (add_concatenate_ok is_word_char to_lower simple_fold participates cat_in cat_name).

Lemma scan_quantifier_o st p st' q : mbody st -> oinv st -> scan_quantifier st p = POk (st', q) -> oinv st'.
Proof.
  intros B Ho E. unfold Parser.scan_quantifier in E. destruct p as [|ch p1]; [discriminate|].
  destruct (ms_unit st) as [u|] eqn:Eu; [|inversion E; subst; exact Ho].
  match type of E with pbind ?a _ = _ => destruct a as [[[[mn mx] q0]|]|e q0| | |] eqn:EA end; cbn [pbind] in E; try discriminate.
  - assert (R : 0 <= mn <= 2147483647 /\ 0 <= mx <= 2147483647).
    { destruct (ch =? 42); [inversion EA; subst; unfold pp_inf; lia|].
      destruct (ch =? 63); [inversion EA; subst; lia|].
      destruct (ch =? 43); [inversion EA; subst; unfold pp_inf; lia|].
      destruct (ch =? 123); [eapply brace_counts_range; exact EA | discriminate]. }
    destruct (scan_blank_full (ms_o st) q0) as [q1|e q1| | |]; cbn [pbind] in E; try discriminate.
    destruct (if hd_is q1 63 then (true, tl q1) else (false, q1)) as [lazy q2].
    destruct (mx <? mn) eqn:EM; [discriminate|].
    destruct (add_concatenate3 st lazy mn mx) as [st1|e q3| | |] eqn:E3; cbn [pbind] in E; try discriminate.
    inversion E; subst. eapply add_concatenate3_o; [exact B | exact Ho | | exact E3]. unfold bounds_ok, pp_inf. lia.
  - destruct (add_concatenate st) as [st1|e q3| | |] eqn:E1; cbn [pbind] in E; try discriminate.
    inversion E; subst. eapply add_concatenate_o; eassumption.
Qed.

Lemma after_unit_o st p st' q wq : mbody st -> oinv st -> after_unit st p = POk (st', q, wq) -> oinv st'.
Proof.
  intros B Ho E. unfold Parser.after_unit in E.
  destruct (scan_blank_full (ms_o st) p) as [p1|e p1| | |]; cbn [pbind] in E; try discriminate.
  destruct (is_nil p1 || negb (is_true_quantifier p1)).
  - destruct (add_concatenate st) as [st1|e q3| | |] eqn:E1; cbn [pbind] in E; try discriminate.
    inversion E; subst. eapply add_concatenate_o; eassumption.
  - destruct (scan_quantifier st p1) as [[st1 q1]|e q3| | |] eqn:E1; cbn [pbind] in E; try discriminate.
    inversion E; subst. eapply scan_quantifier_o; eassumption.
Qed.

Lemma oinv_set_unit st x : oinv st -> unit_ok (ms_o st) x -> oinv (set_unit st (Some x)).
Proof.
  intros [L S U] [W D]. constructor; cbn; [exact L | exact S | split; [apply wf_pre; exact W | exact D]].
Qed.

Lemma unit_then_o st1 x q st' nxt : mbody st1 -> good x -> oinv st1 -> unit_ok (ms_o st1) x ->
  (pdo r <- after_unit (set_unit st1 (Some x)) q ; let '(st', q', wq) := r in POk (st', Some (q', wq))) = POk (st', nxt) ->
  oinv st'.
Proof.
  intros B G Ho U E.
  destruct (after_unit (set_unit st1 (Some x)) q) as [[[st2 q2] wq]|e q0| | |] eqn:EA; cbn [pbind] in E; try discriminate.
  inversion E; subst. eapply after_unit_o; [|apply oinv_set_unit; eassumption | exact EA].
  apply mbody_set_unit; assumption.
Qed.

(* ---------------------------------------------------------------- "(" and ")" *)
Lemma round_open_o mco st1 p3 st' nxt : minv st1 -> oinv st1 -> ms_unit st1 = None ->
  ((is_nil p3 || negb (hd_is p3 63) || nth_is 1 p3 41) = true -> (useN (ms_o st1) || ms_ign st1) = false ->
   caps (ms_autocap st1) = true) ->
  round_open tb mco st1 p3 = POk (st', nxt) -> oinv st'.
Proof.
  intros [B D] Ho Hu Hac E. unfold Parser.round_open in E.
  destruct (useRE2 (ms_o st1) && negb (ms_ign st1) && hd_is p3 63 && nth_is 1 p3 80 && nth_is 2 p3 61).
  { destruct (python_backref is_word_char tb (ms_o st1) (skipn 3 p3)) as [[x q]|e q| | |] eqn:EP; cbn [pbind] in E; try discriminate.
    pose proof (python_backref_adv is_word_char to_lower simple_fold participates cat_in cat_name tb (ms_o st1) (skipn 3 p3)) as PA.
    rewrite EP in PA. destruct PA as [_ Gx].
    exact (unit_then_o st1 x q st' nxt B Gx Ho (python_backref_unit _ _ _ _ EP) E). }
  pose proof (group_open_o mco (n_t (ms_group st1)) (mkGV (ms_o st1) (ms_ign st1) (ms_autocap st1)) p3 Hac) as GO.
  destruct (Parser.group_open is_word_char tb mco (n_t (ms_group st1)) (mkGV (ms_o st1) (ms_ign st1) (ms_autocap st1)) p3) as [[[g v] q]|e q| | |];
    cbn [pbind] in E; try discriminate.
  destruct Ho as [L S U]. cbn [gopen_ok gv_o] in GO.
  destruct g as [gn|]; inversion E; subst; clear E.
  - destruct GO as [GK [GN [GT GR]]].
    constructor; cbn.
    + split; [|split; split; reflexivity].
      split; [rewrite GK; reflexivity|]. split; [exact GN|]. rewrite GK.
      destruct GT as [-> | [-> | ->]]; [reflexivity | apply dirl_nil | apply dirl_nil].
    + split; [intros LK; symmetry; apply GR; exact LK|]. split; [exact L | exact S].
    + rewrite Hu. exact I.
  - constructor; cbn; rewrite GO; [exact L | exact S | rewrite Hu; exact I].
Qed.

Lemma round_close_o st1 p3 st' nxt : minv st1 -> oinv st1 ->
  (n_t (ms_group st1) = T_ExprCond -> n_kids (ms_group st1) <> []) ->
  round_close st1 p3 = POk (st', nxt) -> oinv st'.
Proof.
  intros [B D] Ho HK E. unfold Parser.round_close in E. destruct (ms_stack st1) as [|[[g a] c] stk] eqn:Es; [discriminate|].
  destruct (add_group st1) as [st2|e q| | |] eqn:E2; cbn [pbind] in E; try discriminate.
  pose proof (add_group_ok is_word_char to_lower simple_fold participates cat_in cat_name st1 B) as AG. rewrite E2 in AG.
  destruct AG as [B2 [_ _]].
  destruct (add_group_o st1 st2 B Ho HK E2) as [S2 [O2 [OO2 [g' [U2 [T2 [P2 D2]]]]]]].
  destruct Ho as [L S U]. rewrite Es in S.
  destruct (ms_os st1) as [|o1 os1] eqn:Eos; [cbn in S; contradiction|]. cbn [stack_inv] in S. destruct S as [LK [[Lg [La Lc]] S']].
  (* popGroup *)
  unfold Parser.pop_group in E. rewrite S2, Es in E.
  assert (DU : dirb (useRTL o1) g' = true) by (apply D2; intros H; rewrite T2 in H; apply LK; exact H).
  assert (Gg' : good g') by (pose proof (mb_unit st2 B2) as GU; rewrite U2 in GU; exact GU).
  assert (FIN : forall st3, ms_stack st3 = stk -> ms_alt st3 = a -> ms_concat st3 = c -> ms_os st3 = o1 :: os1 ->
            grp_inv (useRTL o1) (ms_group st3) -> n_t (ms_group st3) = n_t g ->
            unit_inv (useRTL o1) (ms_unit st3) -> mbody st3 ->
            (pdo st4 <- pop_options st3 ;
             match ms_unit st4 with
             | None => POk (st4, Some (p3, false))
             | Some _ => pdo r <- after_unit st4 p3 ; let '(st', q', wq) := r in POk (st', Some (q', wq))
             end) = POk (st', nxt) -> oinv st').
  { intros st3 F1 F2 F3 F4 F5 F6 F7 B3 E3. unfold pop_options in E3. rewrite F4 in E3. cbn [pbind] in E3.
    set (st4 := mkMS (ms_stack st3) (ms_group st3) (ms_alt st3) (ms_concat st3) (ms_unit st3) o1 os1 (ms_ign st3) (ms_autocap st3)) in *.
    assert (O4 : oinv st4).
    { constructor; cbn; [rewrite F2, F3; split; [exact F5 | split; [exact La | exact Lc]] | rewrite F1, F6; exact S' | exact F7]. }
    assert (B4 : mbody st4) by (destruct B3; constructor; cbn; auto).
    destruct (ms_unit st4) as [u4|] eqn:EU4.
    - destruct (after_unit st4 p3) as [[[st5 q5] wq]|e q0| | |] eqn:EA; cbn [pbind] in E3; try discriminate.
      inversion E3; subst. eapply after_unit_o; eassumption.
    - inversion E3; subst. exact O4. }
  destruct ((n_t g =? T_ExprCond) && match n_kids g with [] => true | _ => false end) eqn:EC.
  - rewrite U2 in E.
    destruct (add_child g g') as [g2| | |] eqn:Eg; cbn [of_res pbind] in E; try discriminate.
    destruct (ACW _ _ _ Gg' P2 Eg) as [r [-> [Wr _]]].
    assert (Kg : n_kids g = []) by (destruct (n_kids g); [reflexivity | rewrite andb_false_r in EC; discriminate]).
    assert (Tg : n_t g = T_ExprCond) by lia.
    pose proof (pop_group_ok is_word_char to_lower simple_fold participates cat_in cat_name st2 B2 ltac:(rewrite S2, Es; discriminate)) as PG.
    unfold Parser.pop_group in PG. rewrite S2, Es, EC, U2, Eg in PG. cbn [of_res pbind] in PG. destruct PG as [B3 _].
    eapply FIN; [| | | | | | | exact B3 | exact E]; cbn; try reflexivity; try (rewrite O2; reflexivity).
    + destruct (set_kids_fields g (n_kids g ++ [r])) as [F1 [_ [_ F4]]].
      destruct Lg as [W [N K]]. split; [rewrite F4, Kg; apply wfl_cons; split; [exact Wr | apply wfl_nil]|].
      split; [apply gnode_set_kids; exact N|]. rewrite F1, F4, Tg, Kg. cbn. apply dirl_nil.
    + destruct (set_kids_fields g (n_kids g ++ [r])) as [F1 _]. exact F1.
  - pose proof (pop_group_ok is_word_char to_lower simple_fold participates cat_in cat_name st2 B2 ltac:(rewrite S2, Es; discriminate)) as PG.
    unfold Parser.pop_group in PG. rewrite S2, Es, EC in PG. destruct PG as [B3 _].
    cbn [pbind] in E. eapply FIN; [| | | | | | | exact B3 | exact E]; cbn; try reflexivity; try (rewrite O2; reflexivity); try exact Lg.
    rewrite U2. split; [exact P2 | exact DU].
Qed.


(* ---------------------------------------------------------------- the condition of an expression conditional *)
(* scanGroupOpen sets ignoreNextParen when it opens "(?(" with an expression condition and leaves the cursor on the
   "(" of the condition; the next round opens that group, popGroup files it as the first child.  So a conditional
   never gets its branches before its condition: NtExprCond has 2..3 children when it is closed. *)
Definition einv (st : mst) : Prop :=
  n_t (ms_group st) = T_ExprCond -> n_kids (ms_group st) = [] -> ms_ign st = true.
Definition ign_ok (st : mst) (p : list Z) : Prop :=
  ms_ign st = true -> hd_is p 40 = true /\ starts_qhash (tl p) = false.

Lemma einv_keep st st' : einv st -> n_t (ms_group st') = n_t (ms_group st) ->
  (n_kids (ms_group st') = [] -> n_kids (ms_group st) = []) -> ms_ign st' = ms_ign st -> einv st'.
Proof. unfold einv. intros H T K I. rewrite T, I. auto. Qed.

Lemma blank_paren x p : hd_is p 40 = true -> starts_qhash (tl p) = false -> blank x BNorm p = POk p.
Proof.
  destruct p as [|c t]; [discriminate|]. cbn [hd_is tl]. intros H Q. assert (c = 40) by lia. subst c.
  cbn [blank]. change (is_space 40) with false. rewrite andb_false_r. cbn [Z.eqb Pos.eqb]. rewrite andb_false_r, Q. reflexivity.
Qed.

Lemma take_run_paren o t : take_run o (40 :: t) = ([], 40 :: t).
Proof.
  cbn [take_run]. assert (S : is_stopper o 40 = true) by (unfold is_stopper; destruct (useX o); reflexivity).
  rewrite S. reflexivity.
Qed.

Lemma add_concatenate_grp st st' : add_concatenate st = POk st' -> ms_group st' = ms_group st /\ ms_ign st' = ms_ign st.
Proof.
  unfold Parser.add_concatenate. destruct (ms_unit st) as [u|]; [|discriminate].
  destruct (add_child (ms_concat st) u); cbn [of_res pbind]; try discriminate. intros H. inversion H; split; reflexivity.
Qed.

Lemma add_concatenate3_grp st lazy mn mx st' : add_concatenate3 st lazy mn mx = POk st' -> ms_group st' = ms_group st /\ ms_ign st' = ms_ign st.
Proof.
  unfold Parser.add_concatenate3. destruct (ms_unit st) as [u|]; [|discriminate].
  destruct (make_quantifier cat_in u lazy mn mx) as [qq| | |]; cbn [of_res pbind]; try discriminate.
  destruct (add_child (ms_concat st) qq); cbn [of_res pbind]; try discriminate. intros H. inversion H; split; reflexivity.
Qed.

Lemma scan_quantifier_grp st p st' q : scan_quantifier st p = POk (st', q) -> ms_group st' = ms_group st /\ ms_ign st' = ms_ign st.
Proof.
  unfold Parser.scan_quantifier. destruct p as [|ch p1]; [discriminate|].
  destruct (ms_unit st) as [u|]; [|intros H; inversion H; split; reflexivity].
  match goal with |- pbind ?a _ = _ -> _ => destruct a as [[[[mn mx] q0]|]|e q0| | |] end; cbn [pbind]; try discriminate.
  - destruct (scan_blank_full (ms_o st) q0) as [q1|e q1| | |]; cbn [pbind]; try discriminate.
    destruct (if hd_is q1 63 then (true, tl q1) else (false, q1)) as [lazy q2].
    destruct (mx <? mn); [discriminate|].
    destruct (add_concatenate3 st lazy mn mx) as [st1|e q3| | |] eqn:E3; cbn [pbind]; try discriminate.
    intros H. inversion H; subst. eapply add_concatenate3_grp. exact E3.
  - destruct (add_concatenate st) as [st1|e q3| | |] eqn:E1; cbn [pbind]; try discriminate.
    intros H. inversion H; subst. eapply add_concatenate_grp. exact E1.
Qed.

Lemma after_unit_grp st p st' q wq : after_unit st p = POk (st', q, wq) -> ms_group st' = ms_group st /\ ms_ign st' = ms_ign st.
Proof.
  unfold Parser.after_unit. destruct (scan_blank_full (ms_o st) p) as [p1|e p1| | |]; cbn [pbind]; try discriminate.
  destruct (is_nil p1 || negb (is_true_quantifier p1)).
  - destruct (add_concatenate st) as [st1|e q3| | |] eqn:E1; cbn [pbind]; try discriminate.
    intros H. inversion H; subst. eapply add_concatenate_grp. exact E1.
  - destruct (scan_quantifier st p1) as [[st1 q1]|e q3| | |] eqn:E1; cbn [pbind]; try discriminate.
    intros H. inversion H; subst. eapply scan_quantifier_grp. exact E1.
Qed.

(* scanGroupOpen: ignoreNextParen is set only in front of the "(" of an expression condition *)
Lemma group_open_x mco gt v p g v' q : Parser.group_open is_word_char tb mco gt v p = POk (g, v', q) ->
  (gv_ign v' = true -> hd_is q 40 = true /\ starts_qhash (tl q) = false) /\
  match g with Some gn => n_t gn = T_ExprCond -> gv_ign v' = true | None => gt <> T_ExprCond end.
Proof.
  unfold Parser.group_open. intros E.
  destruct (is_nil p || negb (hd_is p 63) || nth_is 1 p 41) eqn:E0.
  { destruct (useN (gv_o v) || gv_ign v) eqn:EN; injection E as <- <- <-; cbn [gv_ign]; (split; [|discriminate]).
    - discriminate.
    - intros H. rewrite H, orb_true_r in EN. discriminate. }
  destruct (tl p) as [|ch p2] eqn:E1; [discriminate|].
  assert (N41 : (ch =? 41) = false).
  { destruct p as [|c0 p']; [discriminate|]. cbn [tl] in E1. subst p'. cbn in E0. destruct (ch =? 41); [rewrite orb_true_r in E0; discriminate | reflexivity]. }
  destruct (ch =? 58); [injection E as <- <- <-; cbn; split; discriminate|].
  destruct (ch =? 61); [injection E as <- <- <-; cbn; split; discriminate|].
  destruct (ch =? 33); [injection E as <- <- <-; cbn; split; discriminate|].
  destruct (ch =? 62); [injection E as <- <- <-; cbn; split; discriminate|].
  destruct ((ch =? 39) || (ch =? 60)).
  { destruct p2 as [|c2 p3]; [discriminate|].
    destruct ((c2 =? 61) || (c2 =? 33)).
    - destruct ((if ch =? 39 then 39 else 62) =? 39); [discriminate|]. injection E as <- <- <-. cbn. split; [discriminate | destruct (c2 =? 61); discriminate].
    - unfold Parser.group_name in E. cbn [gv_o gv_ign gv_autocap] in E.
      destruct (useE (gv_o v)); [discriminate|].
      match type of E with pbind ?A _ = _ => destruct A as [[[capnum proceed] q0]|e q0| | |] end; cbn [pbind] in E; try discriminate.
      match type of E with pbind ?A _ = _ => destruct A as [[uncapnum q3]|e q3| | |] end; cbn [pbind] in E; try discriminate.
      match type of E with (if ?c then _ else _) = _ => destruct c end; [|discriminate]. injection E as <- <- <-. cbn. split; discriminate. }
  destruct (ch =? 40) eqn:C40.
  { assert (ch = 40) by lia. subst ch. unfold Parser.group_cond in E. cbn [gv_o gv_ign gv_autocap tl] in E.
    match type of E with pbind ?A _ = _ => destruct A as [[[gn q1]|]|e q1| | |] end; cbn [pbind] in E; try discriminate.
    - injection E as <- <- <-. cbn. split; discriminate.
    - assert (Q : starts_qhash p2 = false).
      { destruct (starts_qhash p2) eqn:Q; [|reflexivity]. exfalso.
        unfold starts_qhash in Q. apply andb_prop in Q. destruct Q as [Q1 Q2].
        destruct p2 as [|c0 [|c1 p4]]; try discriminate. cbn [hd_is nth_is skipn] in Q1, Q2.
        assert (c0 = 63) by lia. assert (c1 = 35) by lia. subst c0 c1. cbn in E. discriminate. }
      repeat match type of E with (if ?c then _ else _) = _ => destruct c end; try discriminate; injection E as <- <- <-; cbn [gv_ign hd_is tl mk_node n_t Z.eqb Pos.eqb];
        (split; [intros _; split; [reflexivity | exact Q] | reflexivity]). }
  destruct ((ch =? 80) && useRE2 (gv_o v)).
  { unfold Parser.group_pyname in E. cbn [gv_o gv_ign gv_autocap] in E.
    destruct (negb (longer p2 2)); [discriminate|]. destruct (negb (hd_is p2 60)); [discriminate|].
    destruct (is_word_char (nth 1 p2 0)); [|discriminate]. destruct (useE (gv_o v)); [discriminate|].
    destruct (scan_word is_word_char (tl p2)) as [nm q0]. destruct (hd_is_not q0 62); [discriminate|].
    match type of E with (if ?c then _ else _) = _ => destruct c end; [|discriminate]. injection E as <- <- <-. cbn. split; discriminate. }
  destruct (gt =? T_ExprCond) eqn:GT.
  - destruct (ch =? 41); [discriminate|]. destruct (ch =? 58); [|discriminate]. injection E as <- <- <-. cbn. split; discriminate.
  - destruct (scan_options_text (gv_o v) (ch :: p2)) as [o2 q0]. destruct q0 as [|c q1]; [discriminate|].
    destruct (c =? 41); [injection E as <- <- <-; cbn; split; [discriminate | lia]|].
    destruct (c =? 58); [|discriminate]. injection E as <- <- <-. cbn. split; discriminate.
Qed.

(* ---------------------------------------------------------------- one round *)
Lemma add_run_fields st run isq st1 : add_run st run isq = POk st1 ->
  ms_o st1 = ms_o st /\ ms_ign st1 = ms_ign st /\ ms_autocap st1 = ms_autocap st /\ ms_os st1 = ms_os st /\ ms_stack st1 = ms_stack st /\
  ms_group st1 = ms_group st.
Proof.
  unfold Parser.add_run. destruct run as [|r0 run']; [intros E; inversion E; subst; auto 10|].
  destruct (add_to_concatenate (ms_o st) (ms_concat st) (if isq then removelast (r0 :: run') else r0 :: run')) as [c| | | |]; cbn [pbind]; try discriminate.
  destruct isq.
  - destruct (Parser.mk_node_ch simple_fold cat_in T_One (ms_o st) (last (r0 :: run') 0)) as [u| | | |]; cbn [pbind]; try discriminate.
    intros E; inversion E; subst; cbn; auto 10.
  - intros E; inversion E; subst; cbn; auto 10.
Qed.

Local Notation ARO := (add_run_ok is_word_char to_lower simple_fold participates cat_in cat_name).

Lemma scan_round_o mco st p wasq st' nxt : minv st -> oinv st -> ms_unit st = None -> einv st -> ign_ok st p ->
  (forall p0 run p1 p3, scan_blank_full (ms_o st) p = POk p0 -> take_run (ms_o st) p0 = (run, p1) ->
       scan_blank_full (ms_o st) p1 = POk (40 :: p3) ->
       (is_nil p3 || negb (hd_is p3 63) || nth_is 1 p3 41) = true -> (useN (ms_o st) || ms_ign st) = false ->
       caps (ms_autocap st) = true) ->
  scan_round tb mco st p wasq = POk (st', nxt) -> oinv st'.
Proof.
  intros Iv Ho Hu He Hi Hac E. unfold Parser.scan_round in E.
  destruct (scan_blank_full (ms_o st) p) as [p0|e q| | |] eqn:E0; cbn [pbind] in E; try discriminate.
  destruct (take_run (ms_o st) p0) as [run p1] eqn:Er.
  destruct (scan_blank_full (ms_o st) p1) as [p2|e q| | |] eqn:E1; cbn [pbind] in E; try discriminate.
  destruct p2 as [|ch p3].
  { destruct (add_run st run false) as [st1| | | |] eqn:Ea; cbn [pbind] in E; try discriminate.
    inversion E; subst. eapply add_run_o; [exact (proj1 Iv) | exact Ho | exact Hu | exact Ea]. }
  destruct (negb (is_special ch)).
  { destruct (add_run st run false) as [st1| | | |] eqn:Ea; cbn [pbind] in E; try discriminate.
    inversion E; subst. eapply add_run_o; [exact (proj1 Iv) | exact Ho | exact Hu | exact Ea]. }
  destruct (add_run st run (is_quantifier ch)) as [st1| | | |] eqn:Ea; cbn [pbind] in E; try discriminate.
  pose proof (add_run_o _ _ _ _ (proj1 Iv) Ho Hu Ea) as O1.
  pose proof (ARO st run (is_quantifier ch) (proj1 Iv) Hu) as A. rewrite Ea in A. destruct A as [A1 [A2 [A3 A4]]].
  assert (I1 : minv st1) by (eapply minv_same; [exact Iv | exact A1 | exact A2]).
  destruct (add_run_fields _ _ _ _ Ea) as [F1 [F2 [F3 _]]].
  assert (NQ : is_quantifier ch = false -> ms_unit st1 = None).
  { intros Hq. destruct (ms_unit st1); [|reflexivity]. destruct (A3 ltac:(discriminate)) as [_ F]. congruence. }
  destruct (ch =? 91) eqn:C1.
  { destruct (Parser.cs_scan is_word_char cat_name (S (length p3)) false (ms_o st) p3) as [[syn q]|e q| | |]; cbn [pbind] in E; try discriminate.
    destruct (class_node (ms_o st) syn) as [x| | | |] eqn:Ex; cbn [pbind] in E; try discriminate.
    pose proof (class_node_ok to_lower simple_fold cat_in (ms_o st) syn) as Gx. rewrite Ex in Gx.
    eapply unit_then_o; [exact A1 | exact Gx | exact O1 | rewrite F1; eapply class_node_unit; exact Ex | exact E]. }
  destruct (ch =? 40) eqn:C2.
  { assert (ch = 40) by lia. subst ch.
    eapply round_open_o; [exact I1 | exact O1 | apply NQ; reflexivity | | exact E].
    rewrite F1, F2, F3. intros H1 H2. eapply Hac; eauto. }
  destruct (ch =? 124) eqn:C3.
  { destruct (add_alternate st1) as [st2|e q| | |] eqn:E2; cbn [pbind] in E; try discriminate.
    inversion E; subst. eapply add_alternate_o; [exact A1 | exact O1 | exact E2]. }
  destruct (ch =? 41) eqn:C4.
  { eapply round_close_o; [exact I1 | exact O1 | | exact E].
    destruct (add_run_fields _ _ _ _ Ea) as [_ [G2 [_ [_ [_ G6]]]]]. rewrite G6. intros HT HK.
    assert (IG : ms_ign st = true) by (apply He; assumption).
    destruct (Hi IG) as [H40 Q]. unfold scan_blank_full in E0, E1.
    rewrite (blank_paren _ p H40 Q) in E0. inversion E0; subst p0.
    destruct p as [|c t]; [discriminate|]. cbn [hd_is] in H40. assert (c = 40) by lia. subst c.
    rewrite take_run_paren in Er. inversion Er; subst.
    rewrite (blank_paren _ (40 :: t) eq_refl Q) in E1. inversion E1; subst. discriminate. }
  destruct (ch =? 92) eqn:C5.
  { pose proof (scan_backslash_full_badv is_word_char to_lower simple_fold participates cat_in cat_name false tb (ms_o st) p3) as SB.
    pose proof (scan_backslash_full_unit false (ms_o st) p3) as SU.
    destruct (Parser.scan_backslash_full is_word_char to_lower simple_fold cat_in cat_name false tb (ms_o st) p3) as [[b q]|e q| | |]; cbn [pbind] in E; try discriminate.
    destruct b as [x|]; [|discriminate]. cbn [badv node_ok bunit] in SB, SU. destruct SB as [_ [Gx _]].
    eapply unit_then_o; [exact A1 | exact Gx | exact O1 | rewrite F1; exact SU | exact E]. }
  destruct ((ch =? 94) || (ch =? 36) || (ch =? 46)) eqn:C6.
  { destruct (simple_unit (ms_o st) ch) as [x| | | |] eqn:Ex; cbn [pbind] in E; try discriminate.
    pose proof (simple_unit_ok is_word_char to_lower simple_fold participates cat_in (ms_o st) ch) as Gx. rewrite Ex in Gx.
    eapply unit_then_o; [exact A1 | exact Gx | exact O1 | rewrite F1; eapply simple_unit_unit; exact Ex | exact E]. }
  destruct ((ch =? 123) || (ch =? 42) || (ch =? 43) || (ch =? 63)) eqn:C7; [|discriminate].
  destruct (ms_unit st1) as [u|] eqn:Eu; [|discriminate].
  destruct (after_unit st1 (ch :: p3)) as [[[st2 q2] wq]|e q0| | |] eqn:EA; cbn [pbind] in E; try discriminate.
  inversion E; subst. eapply after_unit_o; [exact A1 | exact O1 | exact EA].
Qed.

(* the condition discipline through one round *)
Lemma ign_round st p p0 run p1 p2 : ign_ok st p -> ms_ign st = true ->
  scan_blank_full (ms_o st) p = POk p0 -> take_run (ms_o st) p0 = (run, p1) -> scan_blank_full (ms_o st) p1 = POk p2 ->
  exists t, p2 = 40 :: t /\ run = [].
Proof.
  intros Hi IG E0 Er E1. destruct (Hi IG) as [H40 Q]. unfold scan_blank_full in E0, E1.
  rewrite (blank_paren _ p H40 Q) in E0. inversion E0; subst p0.
  destruct p as [|c t]; [discriminate|]. cbn [hd_is] in H40. assert (c = 40) by lia. subst c.
  rewrite take_run_paren in Er. inversion Er; subst.
  rewrite (blank_paren _ (40 :: t) eq_refl Q) in E1. inversion E1; subst. exists t. auto.
Qed.

Lemma unit_then_x st1 x q st' nxt : einv st1 -> ms_ign st1 = false ->
  (pdo r <- after_unit (set_unit st1 (Some x)) q ; let '(st', q', wq) := r in POk (st', Some (q', wq))) = POk (st', nxt) ->
  einv st' /\ match nxt with Some (q0, _) => ign_ok st' q0 | None => ms_ign st' = false end.
Proof.
  intros He Hi E.
  destruct (after_unit (set_unit st1 (Some x)) q) as [[[st2 q2] wq]|e q0| | |] eqn:EA; cbn [pbind] in E; try discriminate.
  inversion E; subst. destruct (after_unit_grp _ _ _ _ _ EA) as [G1 G2]. cbn [set_unit ms_group ms_ign] in G1, G2.
  split; [eapply einv_keep; [exact He | rewrite G1; reflexivity | rewrite G1; auto | exact G2]|].
  intros H. congruence.
Qed.

Lemma round_open_x mco st1 p3 st' nxt : einv st1 ->
  round_open tb mco st1 p3 = POk (st', nxt) ->
  einv st' /\ match nxt with Some (q0, _) => ign_ok st' q0 | None => ms_ign st' = false end.
Proof.
  intros He E. unfold Parser.round_open in E.
  destruct (useRE2 (ms_o st1) && negb (ms_ign st1) && hd_is p3 63 && nth_is 1 p3 80 && nth_is 2 p3 61) eqn:PY.
  { destruct (python_backref is_word_char tb (ms_o st1) (skipn 3 p3)) as [[x q]|e q| | |]; cbn [pbind] in E; try discriminate.
    eapply unit_then_x; [exact He | | exact E].
    destruct (ms_ign st1); [cbn [negb] in PY; rewrite andb_false_r in PY; cbn [andb] in PY; discriminate | reflexivity]. }
  destruct (Parser.group_open is_word_char tb mco (n_t (ms_group st1)) (mkGV (ms_o st1) (ms_ign st1) (ms_autocap st1)) p3) as [[[g v] q]|e q| | |] eqn:EG;
    cbn [pbind] in E; try discriminate.
  destruct (group_open_x _ _ _ _ _ _ _ EG) as [X1 X2].
  destruct g as [gn|]; inversion E; subst; cbn [start_group push_group ms_group ms_ign].
  - split; [intros HT _; exact (X2 HT) | exact X1].
  - split; [intros HT _; contradiction | exact X1].
Qed.

Lemma round_close_x st1 p3 st' nxt : ms_ign st1 = false ->
  round_close st1 p3 = POk (st', nxt) ->
  einv st' /\ match nxt with Some (q0, _) => ign_ok st' q0 | None => ms_ign st' = false end.
Proof.
  intros Hi E. unfold Parser.round_close in E. destruct (ms_stack st1) as [|[[g a] c] stk] eqn:Es; [discriminate|].
  destruct (add_group st1) as [st2|e q| | |] eqn:E2; cbn [pbind] in E; try discriminate.
  assert (F2 : ms_stack st2 = ms_stack st1 /\ ms_ign st2 = ms_ign st1 /\ ms_unit st2 <> None).
  { unfold Parser.add_group in E2. destruct (is_cond_t (n_t (ms_group st1))).
    - destruct (add_child (ms_group st1) (reverse_left (ms_concat st1))) as [g'| | |]; cbn [of_res pbind] in E2; try discriminate.
      match type of E2 with (if ?cc then _ else _) = _ => destruct cc end; [discriminate|]. inversion E2; cbn; repeat split; discriminate.
    - destruct (add_child (ms_alt st1) (reverse_left (ms_concat st1))) as [a'| | |]; cbn [of_res pbind] in E2; try discriminate.
      destruct (add_child (ms_group st1) a') as [g'| | |]; cbn [of_res pbind] in E2; try discriminate. inversion E2; cbn; repeat split; discriminate. }
  destruct F2 as [S2 [I2 U2]].
  unfold Parser.pop_group in E. rewrite S2, Es in E.
  assert (FIN : forall st3, ms_ign st3 = false ->
            (n_t (ms_group st3) = T_ExprCond -> n_kids (ms_group st3) <> []) ->
            (pdo st4 <- pop_options st3 ;
             match ms_unit st4 with
             | None => POk (st4, Some (p3, false))
             | Some _ => pdo r <- after_unit st4 p3 ; let '(st', q', wq) := r in POk (st', Some (q', wq))
             end) = POk (st', nxt) ->
            einv st' /\ match nxt with Some (q0, _) => ign_ok st' q0 | None => ms_ign st' = false end).
  { intros st3 I3 K3 E3. unfold pop_options in E3. destruct (ms_os st3) as [|o1 os1]; [discriminate|]. cbn [pbind] in E3.
    set (st4 := mkMS (ms_stack st3) (ms_group st3) (ms_alt st3) (ms_concat st3) (ms_unit st3) o1 os1 (ms_ign st3) (ms_autocap st3)) in *.
    assert (E4 : einv st4) by (intros HT HN; cbn in HT, HN; exfalso; exact (K3 HT HN)).
    destruct (ms_unit st4) as [u4|] eqn:EU4.
    - destruct (after_unit st4 p3) as [[[st5 q5] wq]|e q0| | |] eqn:EA; cbn [pbind] in E3; try discriminate.
      inversion E3; subst. destruct (after_unit_grp _ _ _ _ _ EA) as [G1 G2]. cbn [st4 ms_group ms_ign] in G1, G2.
      split; [eapply einv_keep; [exact E4 | rewrite G1; reflexivity | rewrite G1; auto | exact G2]|]. intros H. congruence.
    - inversion E3; subst. split; [exact E4|]. intros H. cbn in H. congruence. }
  destruct ((n_t g =? T_ExprCond) && match n_kids g with [] => true | _ => false end) eqn:EC.
  - destruct (ms_unit st2) as [u|]; [|congruence].
    destruct (add_child g u) as [g2| | |] eqn:Eg; cbn [of_res pbind] in E; try discriminate.
    eapply FIN; [| | exact E]; cbn [ms_ign ms_group]; [congruence|].
    intros _. unfold Parser.add_child in Eg. destruct (reduce cat_in u); cbn [bind] in Eg; try discriminate. inversion Eg; subst.
    destruct g; cbn. intros HH. apply app_eq_nil in HH. destruct HH; discriminate.
  - cbn [pbind] in E. eapply FIN; [| | exact E]; cbn [ms_ign ms_group]; [congruence|].
    intros HT HN. rewrite HN in EC. assert (HT' : (n_t g =? T_ExprCond) = true) by (rewrite HT; reflexivity). rewrite HT' in EC. discriminate.
Qed.

Lemma add_alternate_grp st st' : add_alternate st = POk st' ->
  n_t (ms_group st') = n_t (ms_group st) /\ (n_kids (ms_group st') = [] -> n_kids (ms_group st) = []) /\ ms_ign st' = ms_ign st.
Proof.
  unfold Parser.add_alternate. destruct (is_cond_t (n_t (ms_group st))).
  - destruct (add_child (ms_group st) (reverse_left (ms_concat st))) as [g'| | |] eqn:Eg; cbn [of_res pbind]; try discriminate.
    intros H. inversion H; subst. cbn. unfold Parser.add_child in Eg. destruct (reduce cat_in (reverse_left (ms_concat st))); cbn [bind] in Eg; try discriminate.
    inversion Eg; subst. destruct (ms_group st); cbn. repeat split; auto. intros HH. apply app_eq_nil in HH. destruct HH; discriminate.
  - destruct (add_child (ms_alt st) (reverse_left (ms_concat st))) as [a'| | |]; cbn [of_res pbind]; try discriminate.
    intros H. inversion H; subst. cbn. auto.
Qed.

Lemma scan_round_x mco st p wasq st' nxt : ms_unit st = None -> einv st -> ign_ok st p ->
  scan_round tb mco st p wasq = POk (st', nxt) ->
  einv st' /\ match nxt with Some (q0, _) => ign_ok st' q0 | None => ms_ign st' = false end.
Proof.
  intros Hu He Hi E. unfold Parser.scan_round in E.
  destruct (scan_blank_full (ms_o st) p) as [p0|e q| | |] eqn:E0; cbn [pbind] in E; try discriminate.
  destruct (take_run (ms_o st) p0) as [run p1] eqn:Er.
  destruct (scan_blank_full (ms_o st) p1) as [p2|e q| | |] eqn:E1; cbn [pbind] in E; try discriminate.
  assert (RUN : forall isq st1, add_run st run isq = POk st1 -> einv st1 /\ ms_ign st1 = ms_ign st).
  { intros isq st1 Ea. destruct (add_run_fields _ _ _ _ Ea) as [_ [G2 [_ [_ [_ G6]]]]].
    split; [eapply einv_keep; [exact He | rewrite G6; reflexivity | rewrite G6; auto | exact G2] | exact G2]. }
  destruct p2 as [|ch p3].
  { destruct (add_run st run false) as [st1| | | |] eqn:Ea; cbn [pbind] in E; try discriminate. inversion E; subst.
    destruct (RUN _ _ Ea) as [R1 R2]. split; [exact R1|]. rewrite R2.
    destruct (ms_ign st) eqn:IG; [|reflexivity]. destruct (ign_round st p p0 run p1 [] Hi IG E0 Er E1) as [t [HH _]]. discriminate. }
  assert (IG40 : ms_ign st = true -> ch = 40).
  { intros IG. destruct (ign_round st p p0 run p1 (ch :: p3) Hi IG E0 Er E1) as [t [HH _]]. inversion HH. reflexivity. }
  destruct (negb (is_special ch)) eqn:Esp.
  { destruct (add_run st run false) as [st1| | | |] eqn:Ea; cbn [pbind] in E; try discriminate. inversion E; subst.
    destruct (RUN _ _ Ea) as [R1 R2]. split; [exact R1|]. intros H. rewrite R2 in H. rewrite (IG40 H) in Esp. discriminate. }
  destruct (add_run st run (is_quantifier ch)) as [st1| | | |] eqn:Ea; cbn [pbind] in E; try discriminate.
  destruct (RUN _ _ Ea) as [He1 I1].
  assert (NI : (ch =? 40) = false -> ms_ign st1 = false).
  { intros C. rewrite I1. destruct (ms_ign st) eqn:IG; [rewrite (IG40 eq_refl) in C; discriminate | reflexivity]. }
  destruct (ch =? 91) eqn:C1.
  { destruct (Parser.cs_scan is_word_char cat_name (S (length p3)) false (ms_o st) p3) as [[syn q]|e q| | |]; cbn [pbind] in E; try discriminate.
    destruct (class_node (ms_o st) syn) as [x| | | |]; cbn [pbind] in E; try discriminate.
    eapply unit_then_x; [exact He1 | apply NI; lia | exact E]. }
  destruct (ch =? 40) eqn:C2; [eapply round_open_x; [exact He1 | exact E]|].
  destruct (ch =? 124) eqn:C3.
  { destruct (add_alternate st1) as [st2|e q| | |] eqn:E2; cbn [pbind] in E; try discriminate. inversion E; subst.
    destruct (add_alternate_grp _ _ E2) as [G1 [G2 G3]].
    split; [eapply einv_keep; eassumption|]. intros H. rewrite G3, (NI eq_refl) in H. discriminate. }
  destruct (ch =? 41) eqn:C4; [eapply round_close_x; [apply NI; reflexivity | exact E]|].
  destruct (ch =? 92) eqn:C5.
  { destruct (Parser.scan_backslash_full is_word_char to_lower simple_fold cat_in cat_name false tb (ms_o st) p3) as [[b q]|e q| | |]; cbn [pbind] in E; try discriminate.
    destruct b as [x|]; [|discriminate]. eapply unit_then_x; [exact He1 | apply NI; reflexivity | exact E]. }
  destruct ((ch =? 94) || (ch =? 36) || (ch =? 46)) eqn:C6.
  { destruct (simple_unit (ms_o st) ch) as [x| | | |]; cbn [pbind] in E; try discriminate.
    eapply unit_then_x; [exact He1 | apply NI; reflexivity | exact E]. }
  destruct ((ch =? 123) || (ch =? 42) || (ch =? 43) || (ch =? 63)) eqn:C7; [|discriminate].
  destruct (ms_unit st1) as [u|] eqn:Eu; [|discriminate].
  destruct (after_unit st1 (ch :: p3)) as [[[st2 q2] wq]|e q0| | |] eqn:EA; cbn [pbind] in E; try discriminate.
  inversion E; subst. destruct (after_unit_grp _ _ _ _ _ EA) as [G1 G2].
  split; [eapply einv_keep; [exact He1 | rewrite G1; reflexivity | rewrite G1; auto | exact G2]|].
  intros H. rewrite G2, (NI eq_refl) in H. discriminate.
Qed.

(* ---------------------------------------------------------------- the root *)
(* the group at the bottom of the group stack is the node scanRegex started with: Capture 0 *)
Definition gsig (g : rnode) : Z * Z * Z := (n_t g, n_m g, n_n g).
Definition bottom (st : mst) : Z * Z * Z := last (map (fun f => gsig (fst (fst f))) (ms_stack st)) (gsig (ms_group st)).
Definition rinv (st : mst) : Prop := bottom st = (T_Capture, 0, -1).

Lemma last_cons {A} (x : A) l d : last (x :: l) d = last l x.
Proof. revert x d. induction l as [|y l IH]; intros x d; [reflexivity|]. cbn [last]. destruct l; [reflexivity|]. apply IH. Qed.

Lemma rinv_keep st st' : rinv st -> ms_stack st' = ms_stack st -> gsig (ms_group st') = gsig (ms_group st) -> rinv st'.
Proof. unfold rinv, bottom. intros H S G. rewrite S, G. exact H. Qed.

Lemma add_concatenate_stk st st' : add_concatenate st = POk st' -> ms_stack st' = ms_stack st.
Proof.
  unfold Parser.add_concatenate. destruct (ms_unit st) as [u|]; [|discriminate].
  destruct (add_child (ms_concat st) u); cbn [of_res pbind]; try discriminate. intros H. inversion H; reflexivity.
Qed.
Lemma add_concatenate3_stk st lazy mn mx st' : add_concatenate3 st lazy mn mx = POk st' -> ms_stack st' = ms_stack st.
Proof.
  unfold Parser.add_concatenate3. destruct (ms_unit st) as [u|]; [|discriminate].
  destruct (make_quantifier cat_in u lazy mn mx) as [qq| | |]; cbn [of_res pbind]; try discriminate.
  destruct (add_child (ms_concat st) qq); cbn [of_res pbind]; try discriminate. intros H. inversion H; reflexivity.
Qed.
Lemma scan_quantifier_stk st p st' q : scan_quantifier st p = POk (st', q) -> ms_stack st' = ms_stack st.
Proof.
  unfold Parser.scan_quantifier. destruct p as [|ch p1]; [discriminate|].
  destruct (ms_unit st) as [u|]; [|intros H; inversion H; reflexivity].
  match goal with |- pbind ?a _ = _ -> _ => destruct a as [[[[mn mx] q0]|]|e q0| | |] end; cbn [pbind]; try discriminate.
  - destruct (scan_blank_full (ms_o st) q0) as [q1|e q1| | |]; cbn [pbind]; try discriminate.
    destruct (if hd_is q1 63 then (true, tl q1) else (false, q1)) as [lazy q2].
    destruct (mx <? mn); [discriminate|].
    destruct (add_concatenate3 st lazy mn mx) as [st1|e q3| | |] eqn:E3; cbn [pbind]; try discriminate.
    intros H. inversion H; subst. eapply add_concatenate3_stk. exact E3.
  - destruct (add_concatenate st) as [st1|e q3| | |] eqn:E1; cbn [pbind]; try discriminate.
    intros H. inversion H; subst. eapply add_concatenate_stk. exact E1.
Qed.
Lemma after_unit_stk st p st' q wq : after_unit st p = POk (st', q, wq) -> ms_stack st' = ms_stack st.
Proof.
  unfold Parser.after_unit. destruct (scan_blank_full (ms_o st) p) as [p1|e p1| | |]; cbn [pbind]; try discriminate.
  destruct (is_nil p1 || negb (is_true_quantifier p1)).
  - destruct (add_concatenate st) as [st1|e q3| | |] eqn:E1; cbn [pbind]; try discriminate.
    intros H. inversion H; subst. eapply add_concatenate_stk. exact E1.
  - destruct (scan_quantifier st p1) as [[st1 q1]|e q3| | |] eqn:E1; cbn [pbind]; try discriminate.
    intros H. inversion H; subst. eapply scan_quantifier_stk. exact E1.
Qed.

Lemma unit_then_r st1 x q st' nxt : rinv st1 ->
  (pdo r <- after_unit (set_unit st1 (Some x)) q ; let '(st', q', wq) := r in POk (st', Some (q', wq))) = POk (st', nxt) -> rinv st'.
Proof.
  intros Hr E.
  destruct (after_unit (set_unit st1 (Some x)) q) as [[[st2 q2] wq]|e q0| | |] eqn:EA; cbn [pbind] in E; try discriminate.
  inversion E; subst. destruct (after_unit_grp _ _ _ _ _ EA) as [G1 _]. pose proof (after_unit_stk _ _ _ _ _ EA) as G2.
  cbn [set_unit ms_group ms_stack] in G1, G2. eapply rinv_keep; [exact Hr | exact G2 | rewrite G1; reflexivity].
Qed.

Lemma gsig_set_kids g k : gsig (set_kids g k) = gsig g.
Proof. destruct g; reflexivity. Qed.

Lemma scan_round_r mco st p wasq st' nxt : rinv st -> scan_round tb mco st p wasq = POk (st', nxt) -> rinv st'.
Proof.
  intros Hr E. unfold Parser.scan_round in E.
  destruct (scan_blank_full (ms_o st) p) as [p0|e q| | |]; cbn [pbind] in E; try discriminate.
  destruct (take_run (ms_o st) p0) as [run p1].
  destruct (scan_blank_full (ms_o st) p1) as [p2|e q| | |]; cbn [pbind] in E; try discriminate.
  assert (RUN : forall isq st1, add_run st run isq = POk st1 -> rinv st1).
  { intros isq st1 Ea. destruct (add_run_fields _ _ _ _ Ea) as [_ [_ [_ [_ [G5 G6]]]]]. eapply rinv_keep; [exact Hr | exact G5 | rewrite G6; reflexivity]. }
  destruct p2 as [|ch p3].
  { destruct (add_run st run false) as [st1| | | |] eqn:Ea; cbn [pbind] in E; try discriminate. inversion E; subst. eapply RUN; exact Ea. }
  destruct (negb (is_special ch)).
  { destruct (add_run st run false) as [st1| | | |] eqn:Ea; cbn [pbind] in E; try discriminate. inversion E; subst. eapply RUN; exact Ea. }
  destruct (add_run st run (is_quantifier ch)) as [st1| | | |] eqn:Ea; cbn [pbind] in E; try discriminate.
  pose proof (RUN _ _ Ea) as R1.
  destruct (ch =? 91).
  { destruct (Parser.cs_scan is_word_char cat_name (S (length p3)) false (ms_o st) p3) as [[syn q]|e q| | |]; cbn [pbind] in E; try discriminate.
    destruct (class_node (ms_o st) syn) as [x| | | |]; cbn [pbind] in E; try discriminate. eapply unit_then_r; eassumption. }
  destruct (ch =? 40).
  { unfold Parser.round_open in E.
    destruct (useRE2 (ms_o st1) && negb (ms_ign st1) && hd_is p3 63 && nth_is 1 p3 80 && nth_is 2 p3 61).
    { destruct (python_backref is_word_char tb (ms_o st1) (skipn 3 p3)) as [[x q]|e q| | |]; cbn [pbind] in E; try discriminate.
      eapply unit_then_r; eassumption. }
    destruct (Parser.group_open is_word_char tb mco (n_t (ms_group st1)) (mkGV (ms_o st1) (ms_ign st1) (ms_autocap st1)) p3) as [[[g v] q]|e q| | |];
      cbn [pbind] in E; try discriminate.
    destruct g as [gn|]; inversion E; subst; unfold rinv, bottom in *; cbn [start_group push_group ms_stack ms_group map fst] in *.
    - rewrite last_cons. exact R1.
    - exact R1. }
  destruct (ch =? 124).
  { destruct (add_alternate st1) as [st2|e q| | |] eqn:E2; cbn [pbind] in E; try discriminate. inversion E; subst.
    unfold Parser.add_alternate in E2. destruct (is_cond_t (n_t (ms_group st1))).
    - destruct (add_child (ms_group st1) (reverse_left (ms_concat st1))) as [g'| | |] eqn:Eg; cbn [of_res pbind] in E2; try discriminate.
      inversion E2; subst. unfold Parser.add_child in Eg. destruct (reduce cat_in (reverse_left (ms_concat st1))); cbn [bind] in Eg; try discriminate.
      inversion Eg; subst. eapply rinv_keep; [exact R1 | reflexivity | cbn [ms_group]; apply gsig_set_kids].
    - destruct (add_child (ms_alt st1) (reverse_left (ms_concat st1))) as [a'| | |]; cbn [of_res pbind] in E2; try discriminate.
      inversion E2; subst. eapply rinv_keep; [exact R1 | reflexivity | reflexivity]. }
  destruct (ch =? 41).
  { unfold Parser.round_close in E. destruct (ms_stack st1) as [|[[g a] c] stk] eqn:Es; [discriminate|].
    destruct (add_group st1) as [st2|e q| | |] eqn:E2; cbn [pbind] in E; try discriminate.
    assert (S2 : ms_stack st2 = ms_stack st1).
    { unfold Parser.add_group in E2. destruct (is_cond_t (n_t (ms_group st1))).
      - destruct (add_child (ms_group st1) (reverse_left (ms_concat st1))) as [g'| | |]; cbn [of_res pbind] in E2; try discriminate.
        match type of E2 with (if ?cc then _ else _) = _ => destruct cc end; [discriminate|]. inversion E2; reflexivity.
      - destruct (add_child (ms_alt st1) (reverse_left (ms_concat st1))) as [a'| | |]; cbn [of_res pbind] in E2; try discriminate.
        destruct (add_child (ms_group st1) a') as [g'| | |]; cbn [of_res pbind] in E2; try discriminate. inversion E2; reflexivity. }
    unfold Parser.pop_group in E. rewrite S2, Es in E.
    assert (RB : last (map (fun f => gsig (fst (fst f))) stk) (gsig g) = (T_Capture, 0, -1)).
    { unfold rinv, bottom in R1. rewrite Es in R1. cbn [map fst] in R1. rewrite last_cons in R1. exact R1. }
    assert (FIN : forall st3, ms_stack st3 = stk -> gsig (ms_group st3) = gsig g ->
              (pdo st4 <- pop_options st3 ;
               match ms_unit st4 with
               | None => POk (st4, Some (p3, false))
               | Some _ => pdo r <- after_unit st4 p3 ; let '(st', q', wq) := r in POk (st', Some (q', wq))
               end) = POk (st', nxt) -> rinv st').
    { intros st3 F1 F2 E3. unfold pop_options in E3. destruct (ms_os st3) as [|o1 os1]; [discriminate|]. cbn [pbind] in E3.
      set (st4 := mkMS (ms_stack st3) (ms_group st3) (ms_alt st3) (ms_concat st3) (ms_unit st3) o1 os1 (ms_ign st3) (ms_autocap st3)) in *.
      assert (R4 : rinv st4) by (unfold rinv, bottom; cbn [st4 ms_stack ms_group]; rewrite F1, F2; exact RB).
      destruct (ms_unit st4) as [u4|].
      - destruct (after_unit st4 p3) as [[[st5 q5] wq]|e q0| | |] eqn:EA; cbn [pbind] in E3; try discriminate.
        inversion E3; subst. destruct (after_unit_grp _ _ _ _ _ EA) as [G1 _]. pose proof (after_unit_stk _ _ _ _ _ EA) as G2.
        eapply rinv_keep; [exact R4 | exact G2 | rewrite G1; reflexivity].
      - inversion E3; subst. exact R4. }
    destruct ((n_t g =? T_ExprCond) && match n_kids g with [] => true | _ => false end).
    - destruct (ms_unit st2) as [u|]; [|discriminate].
      destruct (add_child g u) as [g2| | |] eqn:Eg; cbn [of_res pbind] in E; try discriminate.
      eapply FIN; [| | exact E]; cbn [ms_stack ms_group]; [reflexivity|].
      unfold Parser.add_child in Eg. destruct (reduce cat_in u); cbn [bind] in Eg; try discriminate. inversion Eg; subst. apply gsig_set_kids.
    - cbn [pbind] in E. eapply FIN; [| | exact E]; reflexivity. }
  destruct (ch =? 92).
  { destruct (Parser.scan_backslash_full is_word_char to_lower simple_fold cat_in cat_name false tb (ms_o st) p3) as [[b q]|e q| | |]; cbn [pbind] in E; try discriminate.
    destruct b as [x|]; [|discriminate]. eapply unit_then_r; eassumption. }
  destruct ((ch =? 94) || (ch =? 36) || (ch =? 46)).
  { destruct (simple_unit (ms_o st) ch) as [x| | | |]; cbn [pbind] in E; try discriminate. eapply unit_then_r; eassumption. }
  destruct ((ch =? 123) || (ch =? 42) || (ch =? 43) || (ch =? 63)); [|discriminate].
  destruct (ms_unit st1) as [u|]; [|discriminate].
  destruct (after_unit st1 (ch :: p3)) as [[[st2 q2] wq]|e q0| | |] eqn:EA; cbn [pbind] in E; try discriminate.
  inversion E; subst. destruct (after_unit_grp _ _ _ _ _ EA) as [G1 _]. pose proof (after_unit_stk _ _ _ _ _ EA) as G2.
  eapply rinv_keep; [exact R1 | exact G2 | rewrite G1; reflexivity].
Qed.

(* the unit addGroup makes has the type and numbers of the group *)
Lemma add_group_unit_sig st st' u : add_group st = POk st' -> ms_unit st' = Some u ->
  gsig u = gsig (ms_group st) /\ n_o u = n_o (ms_group st).
Proof.
  unfold Parser.add_group. intros E Eu. destruct (is_cond_t (n_t (ms_group st))).
  - destruct (add_child (ms_group st) (reverse_left (ms_concat st))) as [g'| | |] eqn:Eg; cbn [of_res pbind] in E; try discriminate.
    match type of E with (if ?cc then _ else _) = _ => destruct cc end; [discriminate|]. inversion E; subst. cbn in Eu. inversion Eu; subst.
    unfold Parser.add_child in Eg. destruct (reduce cat_in (reverse_left (ms_concat st))); cbn [bind] in Eg; try discriminate. inversion Eg; subst.
    destruct (ms_group st); split; reflexivity.
  - destruct (add_child (ms_alt st) (reverse_left (ms_concat st))) as [a'| | |]; cbn [of_res pbind] in E; try discriminate.
    destruct (add_child (ms_group st) a') as [g'| | |] eqn:Eg; cbn [of_res pbind] in E; try discriminate. inversion E; subst. cbn in Eu. inversion Eu; subst.
    unfold Parser.add_child in Eg. destruct (reduce cat_in a'); cbn [bind] in Eg; try discriminate. inversion Eg; subst.
    destruct (ms_group st); split; reflexivity.
Qed.

(* the end of scanRegex: the root group is closed and becomes the tree *)
Lemma scan_end_o st st' u : mbody st -> oinv st -> einv st -> ms_ign st = false ->
  add_group st = POk st' -> ms_unit st' = Some u -> wf u.
Proof.
  intros B Ho He Hi E Eu.
  assert (HK : n_t (ms_group st) = T_ExprCond -> n_kids (ms_group st) <> []).
  { intros HT HN. specialize (He HT HN). congruence. }
  destruct (add_group_o st st' B Ho HK E) as [_ [_ [_ [g' [U' [T' [P' _]]]]]]].
  rewrite Eu in U'. inversion U'; subst g'. apply pre_wf; [|exact P']. rewrite T'.
  destruct Ho as [[[_ [_ K]] _] _ _]. destruct (kcls (n_t (ms_group st))); try contradiction; discriminate.
Qed.

Lemma oinv_init o : caps 0 = true ->
  oinv (mkMS [] (mk_node_mn T_Capture o 0 (-1)) (mk_node T_Alternate o) (mk_node T_Concatenate o) None o [] false 1).
Proof.
  intros Z0. constructor; cbn; [|exact I | exact I].
  split; [|split; split; reflexivity].
  split; [reflexivity|]. split; [|reflexivity]. intros _. cbn. unfold gq. cbn. exact Z0.
Qed.

End OkMain.

(* ---------------------------------------------------------------- the shape alone, for every option word *)
(* with the trivial membership predicate nothing is asked of the capture table: every tree syntax.Parse builds --
   ECMAScript and RE2 included, any oracle -- has the arities, counts and one-directional loop bodies of [wfb] *)
Section Shape.
Variable is_word_char : Z -> bool.
Variable to_lower : Z -> Z.
Variable simple_fold : Z -> Z.
Variable participates : Z -> bool.
Variable cat_in : Z -> Z -> bool.
Variable cat_name : list Z -> Z.

Local Notation scan_loop_full := (scan_loop_full is_word_char to_lower simple_fold participates cat_in cat_name).
Local Notation any := (fun _ : Z => true).

Lemma shape_loop tb mco fuel : forall st p wasq stF, minv st -> oinv any st -> ms_unit st = None -> einv st -> ign_ok st p ->
  scan_loop_full fuel tb mco st p wasq = POk stF -> minv stF /\ oinv any stF /\ einv stF /\ ms_ign stF = false.
Proof.
  induction fuel as [|f IH]; intros st p wasq stF Iv Ho Hu He Hi E; [discriminate|].
  cbn [Parser.scan_loop_full] in E. destruct p as [|c p'].
  { inversion E; subst. split; [exact Iv|]. split; [exact Ho|]. split; [exact He|].
    destruct (ms_ign stF) eqn:IG; [|reflexivity]. destruct (Hi IG) as [H _]. discriminate. }
  destruct (scan_round is_word_char to_lower simple_fold participates cat_in cat_name tb mco st (c :: p') wasq) as [[st' nxt]|e q| | |] eqn:ER;
    cbn [pbind] in E; try discriminate.
  pose proof (scan_round_ok is_word_char to_lower simple_fold participates cat_in cat_name tb mco st (c :: p') wasq Iv Hu ltac:(discriminate)) as RR.
  rewrite ER in RR.
  pose proof (scan_round_o any tb (fun _ _ => eq_refl) (fun _ _ _ => eq_refl) is_word_char to_lower simple_fold participates cat_in cat_name
                mco st (c :: p') wasq st' nxt Iv Ho Hu He Hi (fun _ _ _ _ _ _ _ _ _ => eq_refl) ER) as Ho'.
  destruct (scan_round_x any tb (fun _ _ => eq_refl) (fun _ _ _ => eq_refl) is_word_char to_lower simple_fold participates cat_in cat_name mco st (c :: p') wasq st' nxt Hu He Hi ER) as [He' Hn].
  destruct nxt as [[q wq]|].
  - cbn [round_res] in RR. destruct RR as [R1 [R2 _]]. eapply IH; [exact R1 | exact Ho' | exact R2 | exact He' | exact Hn | exact E].
  - inversion E; subst. cbn [round_res] in RR. auto.
Qed.

Theorem parse_tree_shape o mco_flag p t caps captop :
  parse is_word_char to_lower simple_fold participates cat_in cat_name o mco_flag p = Ok (PR_Tree t caps captop) ->
  wf any t.
Proof.
  intros E. unfold Parser.parse in E.
  destruct (negb pl_bounds_ok); [discriminate|].
  destruct (negb (forallb (fun c => 0 <=? c) p)); [discriminate|].
  set (mco := mco_flag || useE o || useRE2 o) in *.
  destruct (count_captures is_word_char to_lower simple_fold cat_in cat_name mco o p) as [tb|e q| | |]; cbn [pbind] in E; try discriminate.
  destruct (scan_regex is_word_char to_lower simple_fold participates cat_in cat_name (captab_main tb) mco o p) as [t0|e q| | |] eqn:ES;
    cbn [pbind] in E; try discriminate.
  inversion E; subst t0. clear E.
  unfold Parser.scan_regex in ES.
  set (st0 := mkMS [] (mk_node_mn T_Capture o 0 (-1)) (mk_node T_Alternate o) (mk_node T_Concatenate o) None o [] false 1) in *.
  destruct (scan_loop_full (S (length p)) (captab_main tb) mco st0 p false) as [st| | | |] eqn:ELP; cbn [pbind] in ES; try discriminate.
  assert (I0 : minv st0).
  { split; [|reflexivity]. constructor; cbn; auto; (split; [constructor | reflexivity]). }
  assert (E0 : einv st0) by (intros H; discriminate).
  assert (G0 : ign_ok st0 p) by (intros H; discriminate).
  destruct (shape_loop (captab_main tb) mco (S (length p)) st0 p false st I0 (oinv_init any o eq_refl) eq_refl E0 G0 ELP) as [IvF [OF [EF GF]]].
  destruct (ms_stack st); [|discriminate].
  destruct (add_group cat_in st) as [st'| | | |] eqn:EG; cbn [pbind] in ES; try discriminate.
  destruct (ms_unit st') as [u|] eqn:EU; [|discriminate]. inversion ES; subst u.
  exact (scan_end_o any (captab_main tb) (fun _ _ => eq_refl) (fun _ _ _ => eq_refl) is_word_char to_lower simple_fold participates cat_in cat_name
           st st' t (proj1 IvF) OF EF GF EG EU).
Qed.

Lemma root_loop tb mco fuel : forall st p wasq stF, rinv st ->
  scan_loop_full fuel tb mco st p wasq = POk stF -> rinv stF.
Proof.
  induction fuel as [|f IH]; intros st p wasq stF Hr E; [discriminate|].
  cbn [Parser.scan_loop_full] in E. destruct p as [|c p']; [inversion E; subst; exact Hr|].
  destruct (scan_round is_word_char to_lower simple_fold participates cat_in cat_name tb mco st (c :: p') wasq) as [[st' nxt]|e q| | |] eqn:ER;
    cbn [pbind] in E; try discriminate.
  pose proof (scan_round_r tb is_word_char to_lower simple_fold participates cat_in cat_name mco st (c :: p') wasq st' nxt Hr ER) as Hr'.
  destruct nxt as [[q wq]|]; [eapply IH; eassumption | inversion E; subst; exact Hr'].
Qed.

(* the root of every tree is the node scanRegex starts with: Capture 0, not balancing *)
Theorem parse_tree_root o mco_flag p t caps captop :
  parse is_word_char to_lower simple_fold participates cat_in cat_name o mco_flag p = Ok (PR_Tree t caps captop) ->
  n_t t = T_Capture /\ n_m t = 0 /\ n_n t = -1.
Proof.
  intros E. unfold Parser.parse in E.
  destruct (negb pl_bounds_ok); [discriminate|].
  destruct (negb (forallb (fun c => 0 <=? c) p)); [discriminate|].
  set (mco := mco_flag || useE o || useRE2 o) in *.
  destruct (count_captures is_word_char to_lower simple_fold cat_in cat_name mco o p) as [tb|e q| | |]; cbn [pbind] in E; try discriminate.
  destruct (scan_regex is_word_char to_lower simple_fold participates cat_in cat_name (captab_main tb) mco o p) as [t0|e q| | |] eqn:ES;
    cbn [pbind] in E; try discriminate.
  inversion E; subst t0. clear E.
  unfold Parser.scan_regex in ES.
  set (st0 := mkMS [] (mk_node_mn T_Capture o 0 (-1)) (mk_node T_Alternate o) (mk_node T_Concatenate o) None o [] false 1) in *.
  destruct (scan_loop_full (S (length p)) (captab_main tb) mco st0 p false) as [st| | | |] eqn:ELP; cbn [pbind] in ES; try discriminate.
  pose proof (root_loop (captab_main tb) mco (S (length p)) st0 p false st eq_refl ELP) as RF.
  destruct (ms_stack st) eqn:Es; [|discriminate].
  destruct (add_group cat_in st) as [st'| | | |] eqn:EG; cbn [pbind] in ES; try discriminate.
  destruct (ms_unit st') as [u|] eqn:EU; [|discriminate]. inversion ES; subst u.
  destruct (add_group_unit_sig cat_in st st' t EG EU) as [SG _].
  unfold rinv, bottom in RF. rewrite Es in RF. cbn [map last] in RF. rewrite <- SG in RF. unfold gsig in RF. inversion RF. auto.
Qed.

End Shape.
