(* Composition theorems at the interpreter level: no new model, no new induction -- only existing
   theorems chained.

   B  cx_exec_captures_in_bounds     compile_correct2_exec_partial (the interpreter returns Spec.attempt's
      cx_exec_group0_is_match_span   answer) o SpecBoundsProofs (that answer lies inside the text; group 0 is
                                     the match span) o CompileBalDen (what a capture array denotes / what the
                                     three readers of match.go answer)
   C  cx_spec_forward, cx_vm_forward the matcher of a compiled program satisfies IterProofs.forward, so every
      cx_iteration_*, cx_next_*      C07 theorem applies to it
   E  cx_exec_never_crashes          compile_exec_total's trichotomy read as "never Crash" *)
From Verif Require Import Base.Prelude Model.Iter Proofs.IterProofs.
From Verif Require Import Model.Tree Model.Spec Model.VM Model.Writer Model.Analysis
  Proofs.SpecProofs Proofs.SpecBoundsProofs Proofs.AnalysisProofs
  Proofs.CompileBase Proofs.CompileDefs Proofs.CompileProofs
  Proofs.CompileBalDen Proofs.CompileBalBase Proofs.CompileBalDefs Proofs.CompileBal
  Proofs.CompileSafe.
From Coq Require Import ZifyBool.

(* ============================ B: captures of the interpreter stay inside the text ============================ *)

(* the root capture is a slot: 0 < capsize p follows from groups_ok2 *)
Lemma cx_capsize_pos cs o body : groups_ok2 cs (NCapture o 0 (-1) body) -> 0 < cs.
Proof.
  intros H. apply sb_all_here in H. cbn [grp_ok_node2] in H. change (-1 =? -1) with true in H. cbv iota in H. lia.
Qed.

(* when the interpreter returns with group 0 set, Spec.attempt succeeded and the two agree *)
Lemma cx_exec_matched_some :
  forall (e : env) (p : program), 0 <= trackcount p -> tlen e <= INF ->
  forall L fuel vfuel o body t0 r s',
  let root := NCapture o 0 (-1) body in
  codes p = fst (compile cfg0 root) -> strings p = snd (compile cfg0 root) ->
  supported2 root = true -> groups_ok2 (capsize p) root -> 0 <= t0 <= tlen e ->
  Z.of_nat fuel <= INF ->
  Spec.attempt e fuel root t0 = Ok r ->
  exec_at e p L vfuel t0 = Ok s' -> matched0 s' = true ->
  exists q, r = Some q /\ tp s' = pos q /\ caps_rel2 p (caps q) (mcaps s').
Proof.
  intros e p Htc Htl L fuel vfuel o body t0 r s' root Hcodes Hstr Hs Hg Ht0 Hf Hatt Hex Hm.
  destruct (compile_correct2_exec_partial e p Htc Htl L fuel vfuel o body t0 r s'
              Hcodes Hstr Hs Hg Ht0 Hf Hatt Hex) as (_ & _ & Hr).
  destruct r as [q|].
  - destruct Hr as (Hp & Hc & _). exists q. split; [reflexivity|]. split; assumption.
  - destruct Hr as (_ & Hm0). rewrite Hm0 in Hm. discriminate Hm.
Qed.

Theorem cx_exec_captures_in_bounds :
  forall (e : env) (p : program), 0 <= trackcount p -> tlen e <= INF ->
  forall L fuel vfuel o body t0 r s',
  let root := NCapture o 0 (-1) body in
  codes p = fst (compile cfg0 root) -> strings p = snd (compile cfg0 root) ->
  supported2 root = true -> groups_ok2 (capsize p) root -> 0 <= t0 <= tlen e ->
  Z.of_nat fuel <= INF ->
  Spec.attempt e fuel root t0 = Ok r ->
  exec_at e p L vfuel t0 = Ok s' -> matched0 s' = true ->
  0 <= tp s' <= tlen e /\
  forall g, 0 <= g < capsize p ->
    exists ps stk,
      nth (Z.to_nat g) (mcaps s') [] = flat (rev ps) /\ Den ps stk /\
      (forall i len, In (i, len) stk -> 0 <= i /\ 0 <= len /\ i + len <= tlen e) /\
      vm_is_matched g (mcaps s') = Some (match stk with [] => false | _ => true end) /\
      (forall i len rest, stk = (i, len) :: rest ->
         vm_match_index g (mcaps s') = Some i /\ vm_match_length g (mcaps s') = Some len).
Proof.
  intros e p Htc Htl L fuel vfuel o body t0 r s' root Hcodes Hstr Hs Hg Ht0 Hf Hatt Hex Hm.
  destruct (cx_exec_matched_some e p Htc Htl L fuel vfuel o body t0 r s'
              Hcodes Hstr Hs Hg Ht0 Hf Hatt Hex Hm) as (q & -> & Hp & Hc).
  assert (Hok : st_ok e q).
  { eapply sb_attempt_in_bounds; [apply c2_supported_min_ok; exact Hs|exact Ht0|exact Hatt]. }
  split; [rewrite Hp; exact (proj1 Hok)|].
  intros g Hgr. destruct Hc as [Hl Hc0]. destruct (Hc0 g Hgr) as (ps & Ea & Hd).
  exists ps, (cap_get g (caps q)). split; [exact Ea|]. split; [exact Hd|]. split.
  - intros i len Hin. exact (sb_st_ok_capture e q g i len Hok Hin).
  - destruct (bd_caps_rel_reads e p (caps q) (mcaps s') g (conj Hl Hc0) Hgr (proj2 Hok)) as [R1 R2].
    split; [exact R1|]. intros i len rest E. exact (R2 i len rest E).
Qed.

Theorem cx_exec_group0_is_match_span :
  forall (e : env) (p : program), 0 <= trackcount p -> tlen e <= INF ->
  forall L fuel vfuel o body t0 r s',
  let root := NCapture o 0 (-1) body in
  codes p = fst (compile cfg0 root) -> strings p = snd (compile cfg0 root) ->
  supported2 root = true -> groups_ok2 (capsize p) root -> 0 <= t0 <= tlen e ->
  Z.of_nat fuel <= INF ->
  Spec.attempt e fuel root t0 = Ok r ->
  no_group0 body ->
  exec_at e p L vfuel t0 = Ok s' -> matched0 s' = true ->
  0 < capsize p /\
  (exists ps, nth 0 (mcaps s') [] = flat (rev ps) /\
              Den ps [(Z.min t0 (tp s'), Z.abs (tp s' - t0))]) /\
  vm_is_matched 0 (mcaps s') = Some true /\
  vm_match_index 0 (mcaps s') = Some (Z.min t0 (tp s')) /\
  vm_match_length 0 (mcaps s') = Some (Z.abs (tp s' - t0)).
Proof.
  intros e p Htc Htl L fuel vfuel o body t0 r s' root Hcodes Hstr Hs Hg Ht0 Hf Hatt Hn0 Hex Hm.
  destruct (cx_exec_matched_some e p Htc Htl L fuel vfuel o body t0 r s'
              Hcodes Hstr Hs Hg Ht0 Hf Hatt Hex Hm) as (q & -> & Hp & Hc).
  pose proof (cx_capsize_pos (capsize p) o body Hg) as Hcs.
  pose proof (sb_group0_single e fuel o body t0 q Hn0 Hatt) as H0.
  assert (Hg0 : 0 <= 0 < capsize p) by lia.
  split; [exact Hcs|].
  pose proof Hc as [Hl Hc0]. destruct (Hc0 0 Hg0) as (ps & Ea & Hd).
  change (Z.to_nat 0) with 0%nat in Ea. rewrite H0, <- Hp in Hd.
  split; [exists ps; split; [exact Ea|exact Hd]|].
  pose proof (bd_mc_get p (mcaps s') 0 Hl Hg0) as Hget. change (Z.to_nat 0) with 0%nat in Hget.
  split.
  - rewrite (bd_vm_is_matched 0 (mcaps s') _ ltac:(lia) Hget), Ea. rewrite (bd_is_matched ps _ Hd). reflexivity.
  - rewrite (bd_vm_index 0 (mcaps s') _ Hget), (bd_vm_length 0 (mcaps s') _ Hget), Ea.
    destruct (bd_index_length ps _ _ _ Hd) as (H1 & H2 & _). split; assumption.
Qed.

(* non-vacuity: the a^n b^n program of CompileBal.c2_demo (balancing groups (?<2-1>b) and (?<-2>)) on "aabb"
   meets every hypothesis; the interpreter returns with group 0 set, slot 1 carries two captures and two
   markers and denotes the EMPTY stack, slot 2 denotes one live capture *)
Example cx_demo :
  let e := cc_demo_env2 [97;97;98;98] in
  let root := NCapture 0 0 (-1) c2_demo_body in
  let p := c2_demo_prog in
  0 <= trackcount p /\ tlen e <= INF /\
  codes p = fst (compile cfg0 root) /\ strings p = snd (compile cfg0 root) /\
  supported2 root = true /\ groups_ok2 (capsize p) root /\ no_group0 c2_demo_body /\
  Z.of_nat 40 <= INF /\
  (exists q, Spec.attempt e 40 root 0 = Ok (Some q)) /\
  exists s', exec_at e p (-1) 5 0 = Ok s' /\ matched0 s' = true /\ tp s' = 4 /\
             mcaps s' = [[0; 4]; [0; 1; 1; 1; -3; -4; -1; -2]; [2; 0; 1; 2; -3; -4]] /\
             vm_is_matched 1 (mcaps s') = Some false /\
             vm_match_index 2 (mcaps s') = Some 2 /\ vm_match_length 2 (mcaps s') = Some 0.
Proof.
  cbv zeta. split; [vm_compute; congruence|]. split; [vm_compute; congruence|].
  split; [reflexivity|]. split; [reflexivity|]. split; [reflexivity|]. split.
  { cbn. repeat split; try exact I; try (left; reflexivity); try (right; split); cbv; congruence. }
  split.
  { unfold no_group0. cbn. repeat split; try exact I; discriminate. }
  split; [vm_compute; congruence|]. split; [eexists; vm_compute; reflexivity|].
  eexists. split; [vm_compute; reflexivity|]. repeat split.
Qed.

(* ============================ E: one execute() call never faults ============================ *)
Theorem cx_exec_never_crashes :
  forall (e : env) (p : program), 0 <= trackcount p -> track_count (codes p) <= trackcount p -> tlen e <= INF ->
  forall fuel o body t0 r,
  let root := NCapture o 0 (-1) body in
  codes p = fst (compile cfg0 root) -> strings p = snd (compile cfg0 root) ->
  supported2 root = true -> groups_ok2 (capsize p) root -> 0 <= t0 <= tlen e -> Z.of_nat fuel <= INF ->
  Spec.attempt e fuel root t0 = Ok r ->
  forall L vfuel k, exec_at e p L vfuel t0 <> Crash k.
Proof.
  intros e p Htc Htk Htl fuel o body t0 r root Hcodes Hstr Hs Hg Ht0 Hf Hatt L vfuel k.
  destruct (compile_exec_total e p Htc Htk Htl fuel o body t0 r Hcodes Hstr Hs Hg Ht0 Hf Hatt) as [n Hn].
  destruct (Hn L vfuel) as [[[Hx _]|[[_ [s' Hx]]|[_ Hx]]] _]; cbv zeta in Hx; rewrite Hx; discriminate.
Qed.

(* ============================ C: the C07 matcher of a compiled program ============================ *)

(* the same text searched with \G bound to [ts] (Iter's matcher takes textstart as an argument) *)
Definition cx_env_at (e : env) (ts : Z) : env :=
  {| txt := txt e; tstart := ts; ecma := ecma e; endz_strict := endz_strict e; set_in := set_in e;
     lower := lower e; is_word := is_word e; is_eword := is_eword e |}.

Lemma cx_tlen_env_at e ts : tlen (cx_env_at e ts) = tlen e.
Proof. reflexivity. Qed.

(* reference level: one Spec.attempt, read as (group 0 index, group 0 length, textpos) *)
Definition cx_spec_matcher (e : env) (fuel : nat) (root : node) (ts p : Z) : option mt :=
  match Spec.attempt (cx_env_at e ts) fuel root p with
  | Ok (Some s) =>
      match cap_get 0 (caps s) with
      | (i, l) :: _ => Some (MkM i l (pos s) [])
      | [] => None
      end
  | _ => None
  end.

(* interpreter level: one execute() call, read through match.go's readers of slot 0 *)
Definition cx_vm_matcher (e : env) (p : program) (L : Z) (vfuel : nat) (ts t0 : Z) : option mt :=
  match exec_at (cx_env_at e ts) p L vfuel t0 with
  | Ok s' =>
      if matched0 s' then
        match vm_match_index 0 (mcaps s'), vm_match_length 0 (mcaps s') with
        | Some i, Some l => Some (MkM i l (tp s') [])
        | _, _ => None
        end
      else None
  | _ => None
  end.

(* a successful attempt of a direction-rtl tree from p, with group 0 = span p (pos q), is [shaped] *)
Lemma cx_shaped_of_attempt (e : env) (rtl : bool) fuel o body p q g :
  shape_ok rtl (NCapture o 0 (-1) body) = true -> 0 <= p <= tlen e ->
  Spec.attempt e fuel (NCapture o 0 (-1) body) p = Ok (Some q) ->
  shaped rtl (tlen e) p (MkM (Z.min p (pos q)) (Z.abs (pos q - p)) (pos q) g).
Proof.
  intros Hsh Hp Hatt.
  destruct (an_attempt_len_sound e rtl fuel _ p q Hsh Hp Hatt) as (Hq & Hmin & _).
  pose proof (an_min_len_nonneg rtl _ Hsh) as H0.
  unfold shaped. cbn [m_index m_length m_textpos]. destruct rtl; lia.
Qed.

Theorem cx_spec_forward :
  forall (e : env) (rtl : bool) fuel o body,
  let root := NCapture o 0 (-1) body in
  shape_ok rtl root = true -> no_group0 body ->
  forward rtl (tlen e) (cx_spec_matcher e fuel root).
Proof.
  intros e rtl fuel o body root Hsh Hn0 ts p m Hp Hm. unfold cx_spec_matcher in Hm.
  destruct (Spec.attempt (cx_env_at e ts) fuel root p) as [[q|]| | |] eqn:Hatt; try discriminate Hm.
  rewrite (sb_group0_single _ fuel o body p q Hn0 Hatt) in Hm. injection Hm as <-.
  rewrite <- (cx_tlen_env_at e ts). apply (cx_shaped_of_attempt (cx_env_at e ts) rtl fuel o body p q);
    [exact Hsh|rewrite cx_tlen_env_at; exact Hp|exact Hatt].
Qed.

Theorem cx_vm_forward :
  forall (e : env) (p : program) (rtl : bool), 0 <= trackcount p -> tlen e <= INF ->
  forall L vfuel o body,
  let root := NCapture o 0 (-1) body in
  codes p = fst (compile cfg0 root) -> strings p = snd (compile cfg0 root) ->
  supported2 root = true -> groups_ok2 (capsize p) root ->
  shape_ok rtl root = true -> no_group0 body ->
  (forall ts t0, 0 <= t0 <= tlen e ->
     exists fuel r, Z.of_nat fuel <= INF /\ Spec.attempt (cx_env_at e ts) fuel root t0 = Ok r) ->
  forward rtl (tlen e) (cx_vm_matcher e p L vfuel).
Proof.
  intros e p rtl Htc Htl L vfuel o body root Hcodes Hstr Hs Hg Hsh Hn0 Hterm ts t0 m Ht0 Hm.
  unfold cx_vm_matcher in Hm.
  destruct (exec_at (cx_env_at e ts) p L vfuel t0) as [s'| | |] eqn:Hex; try discriminate Hm.
  destruct (matched0 s') eqn:Hm0; [|discriminate Hm].
  destruct (Hterm ts t0 Ht0) as (fuel & r & Hf & Hatt).
  assert (Htl' : tlen (cx_env_at e ts) <= INF) by (rewrite cx_tlen_env_at; exact Htl).
  assert (Ht0' : 0 <= t0 <= tlen (cx_env_at e ts)) by (rewrite cx_tlen_env_at; exact Ht0).
  destruct (cx_exec_matched_some (cx_env_at e ts) p Htc Htl' L fuel vfuel o body t0 r s'
              Hcodes Hstr Hs Hg Ht0' Hf Hatt Hex Hm0) as (q & Hr & Hp & _).
  destruct (cx_exec_group0_is_match_span (cx_env_at e ts) p Htc Htl' L fuel vfuel o body t0 r s'
              Hcodes Hstr Hs Hg Ht0' Hf Hatt Hn0 Hex Hm0) as (_ & _ & _ & Hi & Hl).
  rewrite Hi, Hl in Hm. injection Hm as <-. subst r. rewrite Hp.
  rewrite <- (cx_tlen_env_at e ts).
  exact (cx_shaped_of_attempt (cx_env_at e ts) rtl fuel o body t0 q [] Hsh Ht0' Hatt).
Qed.

(* ---------- the C07 theorems instantiated ---------- *)
Theorem cx_iteration_for_spec_search :
  forall (e : env) (rtl : bool) fuel o body,
  let root := NCapture o 0 (-1) body in
  shape_ok rtl root = true -> no_group0 body ->
  forall start, 0 <= start <= tlen e ->
  exists ms, Iter.iteration rtl (tlen e) (cx_spec_matcher e fuel root)
               (Iter.dflt_fuel (tlen e)) (Iter.dflt_fuel (tlen e)) start = Ok ms /\
             Z.of_nat (length ms) <= tlen e + 1 /\
             Forall (wfm rtl (tlen e)) ms /\
             forall a b, consecutive ms a b -> follows rtl a b.
Proof.
  intros e rtl fuel o body root Hsh Hn0.
  exact (iteration_bound_and_order rtl (tlen e) _ (cx_spec_forward e rtl fuel o body Hsh Hn0)).
Qed.

Theorem cx_next_advances_for_spec_search :
  forall (e : env) (rtl : bool) fuel o body,
  let root := NCapture o 0 (-1) body in
  shape_ok rtl root = true -> no_group0 body ->
  forall m, wfm rtl (tlen e) m ->
  exists r, Iter.find_next_match rtl (tlen e) (cx_spec_matcher e fuel root) (Iter.dflt_fuel (tlen e)) m = Ok r /\
            forall m', r = Some m' -> wfm rtl (tlen e) m' /\ follows rtl m m'.
Proof.
  intros e rtl fuel o body root Hsh Hn0.
  exact (next_advances_stmt rtl (tlen e) _ (cx_spec_forward e rtl fuel o body Hsh Hn0)).
Qed.

Theorem cx_iteration_for_compiled_programs :
  forall (e : env) (p : program) (rtl : bool), 0 <= trackcount p -> tlen e <= INF ->
  forall L vfuel o body,
  let root := NCapture o 0 (-1) body in
  codes p = fst (compile cfg0 root) -> strings p = snd (compile cfg0 root) ->
  supported2 root = true -> groups_ok2 (capsize p) root ->
  shape_ok rtl root = true -> no_group0 body ->
  (forall ts t0, 0 <= t0 <= tlen e ->
     exists fuel r, Z.of_nat fuel <= INF /\ Spec.attempt (cx_env_at e ts) fuel root t0 = Ok r) ->
  forall start, 0 <= start <= tlen e ->
  exists ms, Iter.iteration rtl (tlen e) (cx_vm_matcher e p L vfuel)
               (Iter.dflt_fuel (tlen e)) (Iter.dflt_fuel (tlen e)) start = Ok ms /\
             Z.of_nat (length ms) <= tlen e + 1 /\
             Forall (wfm rtl (tlen e)) ms /\
             forall a b, consecutive ms a b -> follows rtl a b.
Proof.
  intros e p rtl Htc Htl L vfuel o body root Hcodes Hstr Hs Hg Hsh Hn0 Hterm.
  exact (iteration_bound_and_order rtl (tlen e) _
           (cx_vm_forward e p rtl Htc Htl L vfuel o body Hcodes Hstr Hs Hg Hsh Hn0 Hterm)).
Qed.

Theorem cx_next_advances_for_compiled_programs :
  forall (e : env) (p : program) (rtl : bool), 0 <= trackcount p -> tlen e <= INF ->
  forall L vfuel o body,
  let root := NCapture o 0 (-1) body in
  codes p = fst (compile cfg0 root) -> strings p = snd (compile cfg0 root) ->
  supported2 root = true -> groups_ok2 (capsize p) root ->
  shape_ok rtl root = true -> no_group0 body ->
  (forall ts t0, 0 <= t0 <= tlen e ->
     exists fuel r, Z.of_nat fuel <= INF /\ Spec.attempt (cx_env_at e ts) fuel root t0 = Ok r) ->
  forall m, wfm rtl (tlen e) m ->
  exists r, Iter.find_next_match rtl (tlen e) (cx_vm_matcher e p L vfuel) (Iter.dflt_fuel (tlen e)) m = Ok r /\
            forall m', r = Some m' -> wfm rtl (tlen e) m' /\ follows rtl m m'.
Proof.
  intros e p rtl Htc Htl L vfuel o body root Hcodes Hstr Hs Hg Hsh Hn0 Hterm.
  exact (next_advances_stmt rtl (tlen e) _
           (cx_vm_forward e p rtl Htc Htl L vfuel o body Hcodes Hstr Hs Hg Hsh Hn0 Hterm)).
Qed.

(* non-vacuity: the a^n b^n program on "aabb" -- hypotheses of cx_vm_forward that are decidable hold, and
   iterating the interpreter's matcher from 0 yields the single match [0,4) *)
Example cx_iter_demo :
  let e := cc_demo_env2 [97;97;98;98] in
  let root := NCapture 0 0 (-1) c2_demo_body in
  shape_ok false root = true /\ no_group0 c2_demo_body /\
  (forall ts t0, 0 <= t0 <= tlen e ->
     exists fuel r, Z.of_nat fuel <= INF /\ Spec.attempt (cx_env_at e ts) fuel root t0 = Ok r) /\
  Iter.iteration false (tlen e) (cx_vm_matcher e c2_demo_prog (-1) 5)
    (Iter.dflt_fuel (tlen e)) (Iter.dflt_fuel (tlen e)) 0 = Ok [MkM 0 4 4 []] /\
  Iter.iteration false (tlen e) (cx_spec_matcher e 40 root)
    (Iter.dflt_fuel (tlen e)) (Iter.dflt_fuel (tlen e)) 0 = Ok [MkM 0 4 4 []].
Proof.
  cbv zeta. split; [reflexivity|]. split.
  { unfold no_group0. cbn. repeat split; try exact I; discriminate. }
  split.
  { intros ts t0 Ht0. change (tlen (cc_demo_env2 [97; 97; 98; 98])) with 4 in Ht0.
    exists 40%nat.
    assert (Hc : t0 = 0 \/ t0 = 1 \/ t0 = 2 \/ t0 = 3 \/ t0 = 4) by lia.
    destruct Hc as [->|[->|[->|[->| ->]]]]; eexists; (split; [vm_compute; congruence|]); vm_compute; reflexivity. }
  split; vm_compute; reflexivity.
Qed.
