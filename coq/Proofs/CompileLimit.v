(* The stack limit on programs whose unbounded run is known (C13 corollaries of compile_correct).

   Given, for a start position, the unbounded-stack path to the final Stop (compile_correct_top provides it)
   and the path facts [path_ok] of Proofs/CompileTotal.v, the interpreter with its real stacks under ANY limit L
       - returns the same final state as the unlimited interpreter (every field but the allocated track length),
       - or ErrBacktrackingStackLimit (only when 0 <= L),
       - or runs out of interpreter fuel (only when 1000 * vfuel <= the length of the path);
     it never faults, and it never returns a different state.
   lim_exec      : one execute() call (VM.exec_at)
   lim_find      : the whole accelerator-free scan (VM.vm_find), stack capacities carried from attempt to attempt
   The two ingredients: CompileTotal.tot_real_step (the unlimited real interpreter follows the path) and
   VMCapacityProofs.cp_step_sim / cp_step_inv (the limited interpreter follows the unlimited one or reports the
   limit; no push overflows) -- the latter's control-flow hypothesis is discharged from [path_ok]. *)
From Verif Require Import Base.Prelude Model.Tree Model.Spec Model.VM Model.Writer Gen.RunnerGen
  Proofs.VMLimitProofs Proofs.VMLimitSimProofs Proofs.VMCapacityProofs Proofs.VMU Proofs.VMUBridge
  Proofs.CompileTotal.
From Coq Require Import Relations ZifyBool.

Section Lim.
Variable e : env.
Variable p : program.
Hypothesis tc_nonneg : 0 <= trackcount p.
Hypothesis Hw : cp_need (codes p) 0 <= trackcount p * G_ensure_factor.
Variable L : Z.

Lemma lim_HL : lim_le L (-1). Proof. left. lia. Qed.
Lemma lim_m1 : -1 < 0. Proof. lia. Qed.

(* the unbounded attempt from start state [a]: [n] steps to the state that executes Stop *)
Definition attempt_path (a : vm) (n : nat) (sd sd' : vm) : Prop :=
  path_ok e p a /\ ustepsN e p n a sd /\ ustep e p sd = Ok (Done sd').

(* limited state s1 and unlimited state s2, in step, s2 on the path with n steps to go *)
Definition good_pair (n : nat) (sd : vm) (s1 s2 : vm) : Prop :=
  simrel L s1 s2 /\ cp_inv p s1 /\ tinv p s2 /\ path_ok e p (norm s2) /\ ustepsN e p n (norm s2) sd.

Lemma lim_pc s1 s2 : simrel L s1 s2 -> pc s1 = pc s2.
Proof. intros [HE _]. unfold eqv in HE. tauto. Qed.

(* without a limit the two sides are the same machine: the limit error needs 0 <= L *)
Lemma lim_neg_same s1 s2 : L < 0 -> simrel L s1 s2 -> tinv p s2 -> tinv p s1 /\ norm s1 = norm s2.
Proof.
  intros HLn [HE HT] Hi. destruct HT as [HT|HT]; [|lia].
  unfold eqv in HE. destruct HE as (H1 & H2 & H3 & H4 & H5 & H6 & H7 & H8). split.
  - unfold tinv, tfree in *. rewrite H1, H4, H6, HT. exact Hi.
  - unfold norm. rewrite H1, H2, H3, H4, H5, H7, H8. reflexivity.
Qed.

Lemma lim_step_err s1 s2 o : simrel L s1 s2 -> tinv p s2 -> st_good p (norm s2) ->
  ustep e p (norm s2) = Ok o -> (match o with Next _ | Done _ => True | _ => False end) ->
  step e p L s1 = Err E_StackLimit -> 0 <= L.
Proof.
  intros HR Hi Hg Ho Hk E. destruct (Z.lt_ge_cases L 0) as [HLn|HLp]; [exfalso|exact HLp].
  destruct (lim_neg_same s1 s2 HLn HR Hi) as [Hi1 Hn]. rewrite <- Hn in Hg, Ho.
  destruct (tot_real_step e p tc_nonneg Hw L HLn s1 Hi1 Hg) as [G1 G2].
  destruct o as [b|b|c|w]; try contradiction.
  - destruct (G1 b Ho) as (a & Ea & _). congruence.
  - destruct (G2 b Ho) as (a & Ea & _). congruence.
Qed.

Lemma lim_step_next n sd s1 s2 b : good_pair (S n) sd s1 s2 ->
  ustep e p (norm s2) = Ok (Next b) -> ustepsN e p n b sd ->
  (step e p L s1 = Err E_StackLimit /\ 0 <= L) \/
  exists a1 a2, step e p L s1 = Ok (Next a1) /\ step e p (-1) s2 = Ok (Next a2) /\ good_pair n sd a1 a2.
Proof.
  intros (HR & Hc & Hi & Hp & _) Hb Hn.
  pose proof (Hp _ (usteps_refl e p _)) as Hg. pose proof Hg as Hg0.
  destruct (tot_real_step e p tc_nonneg Hw (-1) lim_m1 s2 Hi Hg) as [G _].
  destruct (G b Hb) as (a2 & E2 & Ha2 & Hi2).
  destruct Hg as [[w Hbd] _]. cbn [norm VMU.mk pc] in Hbd. rewrite <- (lim_pc s1 s2 HR) in Hbd.
  pose proof (cp_step_sim e p L (-1) lim_HL s1 s2 w Hbd Hc HR) as S. rewrite E2 in S.
  destruct S as [S|S]; [left; split; [exact S|]; eapply (lim_step_err s1 s2 (Next b)); try eassumption; exact I|]. right.
  destruct (step e p L s1) as [o1| | |] eqn:E1; try contradiction.
  destruct o1 as [a1|a1|c|w0]; cbn [out_rel] in S; try contradiction.
  exists a1, a2. split; [reflexivity|]. split; [exact E2|].
  split; [exact S|]. split.
  { change (cp_out_inv p (Next a1)). eapply cp_step_inv; [exact Hw|exact Hbd|exact Hc|exact E1]. }
  split; [exact Hi2|]. rewrite Ha2. split; [eapply path_ok_step; eassumption|exact Hn].
Qed.

Lemma lim_step_done sd sd' s1 s2 : good_pair 0 sd s1 s2 -> ustep e p sd = Ok (Done sd') ->
  (step e p L s1 = Err E_StackLimit /\ 0 <= L) \/
  exists a1 a2, step e p L s1 = Ok (Done a1) /\ step e p (-1) s2 = Ok (Done a2) /\
                simrel L a1 a2 /\ norm a2 = sd' /\ tinv p a2.
Proof.
  intros (HR & Hc & Hi & Hp & Hn) Hd. inversion Hn; subst.
  pose proof (Hp _ (usteps_refl e p _)) as Hg. pose proof Hg as Hg0.
  destruct (tot_real_step e p tc_nonneg Hw (-1) lim_m1 s2 Hi Hg) as [_ G].
  destruct (G sd' Hd) as (a2 & E2 & Ha2 & Hi2).
  destruct Hg as [[w Hbd] _]. cbn [norm VMU.mk pc] in Hbd. rewrite <- (lim_pc s1 s2 HR) in Hbd.
  pose proof (cp_step_sim e p L (-1) lim_HL s1 s2 w Hbd Hc HR) as S. rewrite E2 in S.
  destruct S as [S|S]; [left; split; [exact S|]; eapply (lim_step_err s1 s2 (Done sd')); try eassumption; exact I|]. right.
  destruct (step e p L s1) as [o1| | |] eqn:E1; try contradiction.
  destruct o1 as [a1|a1|c|w0]; cbn [out_rel] in S; try contradiction.
  exists a1, a2. split; [reflexivity|]. split; [exact E2|]. split; [exact S|]. split; [exact Ha2|exact Hi2].
Qed.

(* outcome of k steps of both machines *)
Definition steps_out (n : nat) (sd sd' : vm) (k : nat) (r1 r2 : res (vm * bool)) : Prop :=
  (r1 = Err E_StackLimit /\ 0 <= L) \/
  (((n < k)%nat -> exists s1' s2', r1 = Ok (s1', true) /\ r2 = Ok (s2', true) /\
                     simrel L s1' s2' /\ norm s2' = sd' /\ tinv p s2') /\
   ((k <= n)%nat -> exists s1' s2', r1 = Ok (s1', false) /\ r2 = Ok (s2', false) /\ good_pair (n - k) sd s1' s2')).

Lemma lim_run_steps : forall n sd sd' s1 s2, good_pair n sd s1 s2 -> ustep e p sd = Ok (Done sd') ->
  forall k, steps_out n sd sd' k (run_steps e p L k s1) (run_steps e p (-1) k s2).
Proof.
  induction n as [|n IH]; intros sd sd' s1 s2 Hgp Hd k.
  - destruct k as [|k].
    + right. split; [lia|]. intros _. exists s1, s2. split; [reflexivity|]. split; [reflexivity|]. exact Hgp.
    + cbn [run_steps]. destruct (lim_step_done sd sd' s1 s2 Hgp Hd) as [[E HL0]|(a1 & a2 & E1 & E2 & HR & Hn & Hi)].
      * left. rewrite E. split; [reflexivity|exact HL0].
      * right. rewrite E1, E2. split; [|lia]. intros _. exists a1, a2. split; [reflexivity|]. split; [reflexivity|]. split; [exact HR|]. split; [exact Hn|exact Hi].
  - destruct k as [|k].
    + right. split; [lia|]. intros _. exists s1, s2. split; [reflexivity|]. split; [reflexivity|]. exact Hgp.
    + cbn [run_steps]. pose proof Hgp as (_ & _ & _ & _ & Hn). inversion Hn as [|n0 a b c Hab Hbc]; subst.
      destruct (lim_step_next n sd s1 s2 b Hgp Hab Hbc) as [[E HL0]|(a1 & a2 & E1 & E2 & Hgp')].
      * left. rewrite E. split; [reflexivity|exact HL0].
      * rewrite E1, E2. destruct (IH sd sd' a1 a2 Hgp' Hd k) as [E|[I1 I2]]; [left; exact E|].
        right. split.
        -- intros Hk. apply I1. lia.
        -- intros Hk. replace (S n - S k)%nat with (n - k)%nat by lia. apply I2. lia.
Qed.

Definition run_out (n : nat) (sd' : vm) (fuel : nat) (r1 r2 : res vm) : Prop :=
  (r1 = Err E_StackLimit /\ 0 <= L) \/
  (((n < 1000 * fuel)%nat -> exists s1' s2', r1 = Ok s1' /\ r2 = Ok s2' /\
                               simrel L s1' s2' /\ norm s2' = sd' /\ tinv p s2') /\
   ((1000 * fuel <= n)%nat -> r1 = Fuel /\ r2 = Fuel)).

Lemma lim_run : forall fuel n sd sd' s1 s2, good_pair n sd s1 s2 -> ustep e p sd = Ok (Done sd') ->
  run_out n sd' fuel (run e p L fuel s1) (run e p (-1) fuel s2).
Proof.
  induction fuel as [|f IH]; intros n sd sd' s1 s2 Hgp Hd.
  - right. split; [lia|]. intros _. split; reflexivity.
  - cbn [run]. destruct (lim_run_steps n sd sd' s1 s2 Hgp Hd 1000) as [[E HL0]|[R1 R2]].
    + left. rewrite E. split; [reflexivity|exact HL0].
    + destruct (Nat.lt_ge_cases n 1000) as [Hlt|Hge].
      * destruct (R1 Hlt) as (a1 & a2 & E1 & E2 & HR & Hn & Hi). rewrite E1, E2. cbn [bind fst snd].
        right. split; [|lia]. intros _. exists a1, a2. split; [reflexivity|]. split; [reflexivity|]. split; [exact HR|]. split; [exact Hn|exact Hi].
      * destruct (R2 Hge) as (a1 & a2 & E1 & E2 & Hgp'). rewrite E1, E2. cbn [bind fst snd].
        destruct (IH (n - 1000)%nat sd sd' a1 a2 Hgp' Hd) as [E|[J1 J2]]; [left; exact E|].
        right. split.
        -- intros Hc. apply J1. lia.
        -- intros Hc. apply J2. lia.
Qed.

(* a fresh attempt at text position t with the stack capacities of the carrier states *)
Definition fresh (c : vm) (t : Z) : vm :=
  {| pc := 0; mode := 0; tp := t; track := []; tcap := tcap c; stack := []; scap := scap c;
     crawl := []; mcaps := repeat [] (Z.to_nat (capsize p)) |}.
Definition a0 (t : Z) : vm := VMU.mk 0 0 t [] [] [] (repeat [] (Z.to_nat (capsize p))).

(* what the unlimited carrier must satisfy *)
Definition carrier_ok (c : vm) : Prop := VMUBridge.need p <= tcap c /\ sinit p <= scap c.

Lemma lim_tinv_carrier s : tinv p s -> carrier_ok s.
Proof. intros (_ & H1 & H2). split; assumption. Qed.

Lemma lim_goto0 c1 c2 t w0 n sd sd' : code_at p 0 = Some w0 ->
  simrel L c1 c2 -> carrier_ok c2 -> attempt_path (a0 t) n sd sd' ->
  (goto p L (fresh c1 t) 0 = Err E_StackLimit /\ 0 <= L) \/
  exists s1 s2, goto p L (fresh c1 t) 0 = Ok s1 /\ goto p (-1) (fresh c2 t) 0 = Ok s2 /\ good_pair n sd s1 s2.
Proof.
  intros H0 HR [Hc1 Hc2] (Hp & Hn & Hd).
  assert (HRf : simrel L (fresh c1 t) (fresh c2 t)).
  { destruct HR as [HE HT]. unfold eqv in HE. unfold simrel, eqv, fresh. vm_cbn. repeat split; tauto. }
  (* the unlimited side: capacities suffice, nothing grows *)
  assert (E2 : goto p (-1) (fresh c2 t) 0 = Ok (set_pc (fresh c2 t) 0 0)).
  { assert (Een : ensure_storage p (-1) (fresh c2 t) = Ok (fresh c2 t)).
    { unfold ensure_storage.
      change (scap (fresh c2 t)) with (scap c2). change (stack (fresh c2 t)) with (@nil Z).
      change (zlen (@nil Z)) with 0.
      unfold VMUBridge.need in Hc1. pose proof (sinit_nonneg p).
      assert (Hs : trackcount p * G_ensure_factor <= scap c2).
      { unfold sinit, G_stacksize_mul, G_stacksize_min, G_ensure_factor in *. lia. }
      replace (scap c2 - 0 <? trackcount p * G_ensure_factor) with false by lia. cbv iota.
      change (tcap (fresh c2 t)) with (tcap c2). change (track (fresh c2 t)) with (@nil Z).
      change (zlen (@nil Z)) with 0.
      replace (tcap c2 - 0 <? trackcount p * G_ensure_factor) with false by lia. reflexivity. }
    unfold goto. change (pc (fresh c2 t)) with 0. change (0 <=? 0) with true. cbv iota.
    rewrite Een. cbn [bind]. rewrite H0. reflexivity. }
  pose proof (sim_goto p L (-1) lim_HL (fresh c1 t) (fresh c2 t) 0 HRf) as S. unfold cont in S. rewrite E2 in S.
  destruct (goto p L (fresh c1 t) 0) as [s1| | |] eqn:E1; cbn [bind] in S.
  - destruct S as [S|S]; [discriminate|]. cbn [out_rel] in S. right.
    exists s1, (set_pc (fresh c2 t) 0 0). split; [reflexivity|]. split; [exact E2|].
    split; [exact S|]. split.
    { eapply cp_inv_goto_back; [exact Hw| |exact E1]. cbn [fresh pc]. lia. }
    split.
    { unfold tinv, tfree. cbn [fresh set_pc pc tcap track scap]. change (zlen (@nil Z)) with 0.
      unfold VMUBridge.need in *. repeat split; lia. }
    change (norm (set_pc (fresh c2 t) 0 0)) with (a0 t). split; assumption.
  - destruct S as [S|S]; [|contradiction]. left. injection S as ->. split; [reflexivity|].
    destruct (Z.lt_ge_cases L 0) as [HLn|HLp]; [exfalso|exact HLp].
    (* no limit: the limited side is the unlimited one *)
    assert (Ht : tcap c1 = tcap c2) by (destruct HR as [_ [HT|HT]]; [exact HT|lia]).
    assert (Hsc : scap c1 = scap c2) by (destruct HR as [HE _]; unfold eqv in HE; tauto).
    revert E1. unfold goto. change (pc (fresh c1 t)) with 0. change (0 <=? 0) with true. cbv iota.
    unfold ensure_storage.
    change (scap (fresh c1 t)) with (scap c1). change (stack (fresh c1 t)) with (@nil Z).
    change (zlen (@nil Z)) with 0.
    unfold VMUBridge.need in Hc1. pose proof (sinit_nonneg p).
    assert (Hs : trackcount p * G_ensure_factor <= scap c2).
    { unfold sinit, G_stacksize_mul, G_stacksize_min, G_ensure_factor in *. lia. }
    replace (scap c1 - 0 <? trackcount p * G_ensure_factor) with false by lia. cbv iota.
    change (tcap (fresh c1 t)) with (tcap c1). change (track (fresh c1 t)) with (@nil Z).
    change (zlen (@nil Z)) with 0.
    replace (tcap c1 - 0 <? trackcount p * G_ensure_factor) with false by lia.
    cbn [bind]. rewrite H0. discriminate.
  - destruct S as [S|S]; [discriminate|contradiction].
  - destruct S as [S|S]; [discriminate|contradiction].
Qed.

(* ---------- one execute() call ---------- *)
Theorem lim_exec t w0 n sd sd' : code_at p 0 = Some w0 -> attempt_path (a0 t) n sd sd' ->
  forall vfuel, run_out n sd' vfuel (exec_at e p L vfuel t) (exec_at e p (-1) vfuel t).
Proof.
  intros H0 Hap vfuel. unfold exec_at.
  assert (HR : simrel L (init_vm p L t) (init_vm p (-1) t)) by (apply sim_init; exact lim_HL).
  assert (Hc : carrier_ok (init_vm p (-1) t)).
  { unfold carrier_ok, VMUBridge.need, sinit, init_vm, G_ensure_factor, G_tracksize_mul, G_tracksize_min. cbn [tcap scap].
    change ((0 <=? -1) && _) with false. cbv iota. split; lia. }
  change (goto p L (init_vm p L t) 0) with (goto p L (fresh (init_vm p L t) t) 0).
  change (goto p (-1) (init_vm p (-1) t) 0) with (goto p (-1) (fresh (init_vm p (-1) t) t) 0).
  destruct (lim_goto0 _ _ t w0 n sd sd' H0 HR Hc Hap) as [[E HL0]|(s1 & s2 & E1 & E2 & Hgp)].
  - left. rewrite E. split; [reflexivity|exact HL0].
  - rewrite E1, E2. cbn [bind]. destruct Hap as (_ & _ & Hd). apply (lim_run vfuel n sd sd' s1 s2 Hgp Hd).
Qed.

(* ---------- the scan ---------- *)
(* every start position of the text has its unbounded attempt path *)
Definition all_paths : Prop := forall t, 0 <= t <= tlen e -> exists n sd sd', attempt_path (a0 t) n sd sd'.

Definition scan_out (r1 r2 : res (option vm)) : Prop :=
  (r1 = Err E_StackLimit /\ 0 <= L) \/
  match r1, r2 with
  | Ok a, Ok b => opt_rel (simrel L) a b
  | Fuel, Fuel => True
  | _, _ => False
  end.

Lemma lim_scan w0 fuel : code_at p 0 = Some w0 -> all_paths ->
  forall n rtl c1 c2 t, simrel L c1 c2 -> carrier_ok c2 -> 0 <= t <= tlen e ->
  scan_out (vm_scan_from e p L fuel n rtl c1 t) (vm_scan_from e p (-1) fuel n rtl c2 t).
Proof.
  intros H0 Hall. induction n as [|n IH]; intros rtl c1 c2 t HR Hc Ht; cbn [vm_scan_from].
  - right. exact I.
  - destruct (Hall t Ht) as (k & sd & sd' & Hap).
    change {| pc := 0; mode := 0; tp := t; track := []; tcap := tcap c1; stack := []; scap := scap c1;
              crawl := []; mcaps := repeat [] (Z.to_nat (capsize p)) |} with (fresh c1 t).
    change {| pc := 0; mode := 0; tp := t; track := []; tcap := tcap c2; stack := []; scap := scap c2;
              crawl := []; mcaps := repeat [] (Z.to_nat (capsize p)) |} with (fresh c2 t).
    destruct (lim_goto0 c1 c2 t w0 k sd sd' H0 HR Hc Hap) as [[E HL0]|(s1 & s2 & E1 & E2 & Hgp)].
    + left. rewrite E. split; [reflexivity|exact HL0].
    + rewrite E1, E2. cbn [bind]. destruct Hap as (_ & _ & Hd).
      destruct (lim_run fuel k sd sd' s1 s2 Hgp Hd) as [[E HL0]|[J1 J2]].
      * left. rewrite E. split; [reflexivity|exact HL0].
      * destruct (Nat.lt_ge_cases k (1000 * fuel)) as [Hlt|Hge].
        -- destruct (J1 Hlt) as (a1 & a2 & Ea1 & Ea2 & HRa & _ & Hia). rewrite Ea1, Ea2. cbn [bind].
           assert (Hm : matched0 a1 = matched0 a2).
           { unfold matched0. destruct HRa as [HE _]. unfold eqv in HE.
             replace (mcaps a2) with (mcaps a1) by tauto. reflexivity. }
           rewrite <- Hm. destruct (matched0 a1).
           ++ right. exact HRa.
           ++ destruct (if rtl then t <=? 0 else tlen e <=? t) eqn:Eend; [right; exact I|].
              apply IH; [exact HRa|apply lim_tinv_carrier; exact Hia|].
              destruct rtl; lia.
        -- destruct (J2 Hge) as [-> ->]. right. exact I.
Qed.

Theorem lim_find w0 fuel rtl start prevlen : code_at p 0 = Some w0 -> all_paths -> 0 <= start <= tlen e ->
  scan_out (vm_find e p L fuel rtl start prevlen) (vm_find e p (-1) fuel rtl start prevlen).
Proof.
  intros H0 Hall Hs. unfold vm_find.
  destruct ((prevlen =? 0) && (start =? (if rtl then 0 else tlen e))) eqn:E; [right; exact I|].
  apply (lim_scan w0 fuel H0 Hall).
  - apply sim_init. exact lim_HL.
  - unfold carrier_ok, VMUBridge.need, sinit, init_vm, G_ensure_factor, G_tracksize_mul, G_tracksize_min. cbn [tcap scap].
    change ((0 <=? -1) && _) with false. cbv iota. split; lia.
  - destruct (prevlen =? 0); cbn [andb] in E; [|exact Hs]. destruct rtl; lia.
Qed.

End Lim.

(* ---------- a decidable monitor for [attempt_path] ----------
   [mon_steps k a] runs the unbounded-stack interpreter from [a] for at most k steps and checks, at every state,
   that the pc is an instruction boundary and the grouping stack is two words below its initial size.  It returns
   the number of steps to the final Stop.  A successful check IS the hypothesis of lim_exec / exec_total, so on a
   concrete program and input the hypothesis can be discharged by computation (and the harness leg c01-frag
   reports how often it holds on real programs). *)
Section Mon.
Variable e : env.
Variable p : program.

Definition bnd_b (c : Z) : bool := existsb (fun co => fst co =? c) (cp_dec (codes p)).
Definition st_good_b (s : vm) : bool := bnd_b (pc s) && (zlen (stack s) + 2 <=? sinit p).

Fixpoint mon_steps (k : nat) (s : vm) : option nat :=
  match k with
  | O => None
  | S k' =>
      if st_good_b s then
        match ustep e p s with
        | Ok (Next s') => match mon_steps k' s' with Some n => Some (S n) | None => None end
        | Ok (Done _) => Some O
        | _ => None
        end
      else None
  end.

Lemma bnd_b_sound c : bnd_b c = true -> bnd p c.
Proof.
  unfold bnd_b, bnd. intros H. apply existsb_exists in H. destruct H as ([c' op] & Hin & E).
  cbn [fst] in E. apply Z.eqb_eq in E. subst c'. exists op. exact Hin.
Qed.

Lemma st_good_b_sound s : st_good_b s = true -> st_good p s.
Proof.
  unfold st_good_b, st_good. intros H. apply andb_prop in H. destruct H as [H1 H2].
  split; [apply bnd_b_sound; exact H1|lia].
Qed.

Lemma mon_sound : forall k a n, mon_steps k a = Some n -> exists sd sd', attempt_path e p a n sd sd'.
Proof.
  induction k as [|k IH]; intros a n H; [discriminate|]. cbn [mon_steps] in H.
  destruct (st_good_b a) eqn:Eg; [|discriminate]. apply st_good_b_sound in Eg.
  destruct (ustep e p a) as [[a'|a'|c|w]| | |] eqn:Eu; try discriminate.
  - destruct (mon_steps k a') as [m|] eqn:Em; [|discriminate]. injection H as <-.
    destruct (IH a' m Em) as (sd & sd' & Hp & Hn & Hd). exists sd, sd'. split; [|split; [|exact Hd]].
    + intros s Hs. apply clos_rt_rt1n in Hs. inversion Hs as [|y z Hay Hyz]; subst; [exact Eg|].
      unfold ustep1 in Hay. rewrite Eu in Hay. injection Hay as <-. apply Hp. apply clos_rt1n_rt. exact Hyz.
    + econstructor; [exact Eu|exact Hn].
  - injection H as <-. exists a, a'. split; [|split; [constructor|exact Eu]].
    intros s Hs. apply clos_rt_rt1n in Hs. inversion Hs as [|y z Hay Hyz]; subst; [exact Eg|].
    unfold ustep1 in Hay. rewrite Eu in Hay. discriminate.
Qed.

End Mon.
