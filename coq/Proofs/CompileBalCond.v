(* [caps_rel2 / leadsg2 / ok_node2] version of Proofs/CompileCond.v for compile_correct2 (balancing captures,
   see Proofs/CompileBal.v): the same lemmas and proofs over the marker-aware capture relation of
   Proofs/CompileBalDen.v.  Lemma names: cc_X -> c2_X. *)
(* compile_correct, stage 4b: the conditionals NBackRefCond (Testref) and NExprCond. *)
From Verif Require Import Base.Prelude Model.Tree Model.Spec Model.VM Model.Writer Gen.RunnerGen
  Proofs.SpecProofs Proofs.SpecBoundsProofs Proofs.MaskProofs
  Proofs.VMU Proofs.VMUOps Proofs.VMUOps2 Proofs.VMUOps6 Proofs.CompileBase Proofs.CompileDefs Proofs.CompileBalDen Proofs.CompileBalBase Proofs.CompileBalDefs
  Proofs.CapFacts Proofs.CompileStage4 Proofs.CompileBalStage4.
From Coq Require Import Relations ZifyBool.

Section CC.
Variable e : env.
Variable p : program.
Hypothesis tc_nonneg : 0 <= trackcount p.

Notation rsteps := (VMUOps2.rsteps e p).
Notation leadsg2 := (CompileBalBase.leadsg2 e p).
Notation has_code := (CompileBase.has_code p).
Notation track_ok := (CompileBase.track_ok p).
Notation caps_rel2 := (CompileBalDen.caps_rel2 p).
Notation code_ex := (CompileDefs.code_ex p).
Notation tbl_ok := (CompileDefs.tbl_ok p).
Notation ok_node2 := (CompileBalDefs.ok_node2 e p).

Definition ok_opt2 (f : nat) (no : option node) : Prop :=
  match no with Some x => ok_node2 f x | None => True end.

(* the "else" part: the optional node [no] placed at [an], entered over a Forejump frame *)
Lemma c2_else f no an pcF tbl cn t2 s res T Sk C M :
  ok_opt2 f no ->
  (match no with Some x => emit cfg0 x an tbl | None => ([], tbl) end) = (cn, t2) ->
  has_code an cn -> tbl_ok t2 ->
  code_ex (an + match no with Some x => csize cfg0 x | None => 0 end) ->
  (match no with Some x => sem e f x s | None => Ok [s] end) = Ok res -> st_ok e s ->
  code_at p pcF = Some Forejump -> track_ok T -> caps_rel2 (caps s) M ->
  leadsg2 (an + match no with Some x => csize cfg0 x | None => 0 end) T Sk Sk C M
         (mkr an 0 (pos s) (pcF :: zlen C :: T) Sk C M) res.
Proof.
  intros Hok En Hcn Htb Hex Hsem Hst HF Hk Hr. pose proof (code_at_nonneg p _ _ HF) as HpF.
  destruct no as [x|].
  - eapply c2_over_forejump with (pcF := pcF) (C' := []) (M' := M); try eassumption; [reflexivity|].
    cbn [app]. apply (Hok s res Hsem Hst an tbl (pcF :: zlen C :: T) Sk C M).
    + rewrite En. exact Hcn.
    + exact Hex.
    + eapply track_ok_cons. rewrite Z.abs_eq by lia. exact HF.
    + exact Hr.
    + rewrite En. exact Htb.
  - injection Hsem as <-. rewrite Z.add_0_r.
    eapply c2_forejump_result with (pcF := pcF) (C' := []) (M' := M); try eassumption; try reflexivity.
    apply rsteps_refl.
Qed.

Lemma c2_backrefcond f o g yes no :
  ok_node2 f yes -> ok_opt2 f no -> 0 <= g < capsize p ->
  ok_node2 (S f) (NBackRefCond o g yes no).
Proof.
  intros Hoky Hokn Hg s res Hsem Hst a tbl T S0 C M Hc Hex Hk Hr Htb.
  cbn [sem] in Hsem.
  cbn [emit csize] in Hc, Hex, Htb |- *.
  unfold map_capnum in Hc. cbn [capmap cfg0] in Hc. replace (g =? -1) with false in Hc by lia.
  pose proof (emit_length cfg0 yes (a + 6) tbl) as Ly.
  pose proof (emit_tbl_ext cfg0 yes (a + 6) tbl) as Exty.
  destruct (emit cfg0 yes (a + 6) tbl) as [cy t1] eqn:Ey. cbn [fst snd] in Ly, Exty. rewrite Ly in Hc, Htb.
  set (ln := a + 6 + csize cfg0 yes + 2) in *.
  assert (Ln : zlen (fst (match no with Some x => emit cfg0 x (ln + 1) t1 | None => ([], t1) end)) =
               match no with Some x => csize cfg0 x | None => 0 end)
    by (destruct no; [apply emit_length|reflexivity]).
  assert (Extn : tbl_ext t1 (snd (match no with Some x => emit cfg0 x (ln + 1) t1 | None => ([], t1) end)))
    by (destruct no; [apply emit_tbl_ext|apply tbl_ext_refl]).
  destruct (match no with Some x => emit cfg0 x (ln + 1) t1 | None => ([], t1) end) as [cn t2] eqn:En.
  cbn [fst snd] in Ln, Extn, Hc, Htb. rewrite Ln in Hc.
  set (sn := match no with Some x => csize cfg0 x | None => 0 end) in *.
  cbn [app] in Hc.
  apply has_code_cons in Hc. destruct Hc as [H0 Hc]. apply has_code_cons in Hc. destruct Hc as [H1 Hc].
  apply has_code_cons in Hc. destruct Hc as [H2 Hc]. apply has_code_cons in Hc. destruct Hc as [H3 Hc].
  apply has_code_cons in Hc. destruct Hc as [H4 Hc]. apply has_code_cons in Hc. destruct Hc as [H5 Hc].
  replace (a + 1 + 1) with (a + 1 + 1) in H2 by lia.
  replace (a + 1 + 1 + 1) with (a + 3) in * by lia.
  replace (a + 3 + 1) with (a + 3 + 1) in H4 by lia.
  replace (a + 3 + 1 + 1) with (a + 5) in * by lia.
  replace (a + 5 + 1) with (a + 6) in * by lia.
  apply has_code_app in Hc. destruct Hc as [Hcy Hc]. rewrite Ly in Hc.
  apply has_code_cons in Hc. destruct Hc as [Hg0 Hc]. apply has_code_cons in Hc. destruct Hc as [Hg1 Hc].
  apply has_code_cons in Hc. destruct Hc as [HF2 Hcn].
  replace (a + 6 + csize cfg0 yes + 1 + 1) with ln in * by (unfold ln; lia).
  set (my := a + 6 + csize cfg0 yes) in *.
  replace (a + (6 + csize cfg0 yes + 2 + 1 + sn)) with (ln + 1 + sn) in * by (unfold ln, my; lia).
  pose proof (code_at_nonneg p _ _ H0) as Ha.
  pose proof Hk as (np' & T3 & HT3 & w3 & Hw3).
  pose proof Hst as [Hp Hcs].
  set (S1 := zlen C :: zlen T + 1 :: S0).
  assert (Hexy : code_ex (a + 6)) by (eapply cc_code_ex_start; [exact Hcy|]; rewrite Ly; exists Goto; exact Hg0).
  destruct Hexy as [wy Hwy].
  assert (Hexn : code_ex (ln + 1)) by (eapply cc_code_ex_start; [exact Hcn|]; rewrite Ln; exact Hex).
  destruct Hexn as [wn Hwn].
  pose proof Hex as [wx Hwx].
  (* prelude: Setjump ; Lazybranch ln *)
  eapply leadsg2_pre.
  { eapply rsteps_trans; [eapply rs_setjump; try exact tc_nonneg; eassumption|].
    eapply rs_lazybranch; try exact tc_nonneg; try eassumption.
    replace (a + 1 + 2) with (a + 3) by lia. exact H3. }
  replace (a + 1 + 2) with (a + 3) by lia. fold S1.
  pose proof (bd_matched p (caps s) M g Hr Hg) as Hm.
  destruct (is_matched g (caps s)) eqn:Em.
  - (* the group is set: Forejump, then the "yes" branch *)
    eapply leadsg2_pre.
    { eapply rsteps_trans; [eapply rs_testref_ok; try exact tc_nonneg; try eassumption|].
      - replace (a + 3 + 2) with (a + 5) by lia. exact H5.
      - replace (a + 3 + 2) with (a + 5) by lia.
        change (a + 1 :: pos s :: a :: T) with ([a + 1; pos s; a] ++ T).
        eapply rs_forejump; try exact tc_nonneg; try eassumption.
        replace (a + 5 + 1) with (a + 6) by lia. exact Hwy. }
    replace (a + 5 + 1) with (a + 6) by lia.
    eapply c2_over_forejump with (pcF := a + 5) (C' := []) (M' := M); try eassumption; [reflexivity|].
    cbn [app].
    eapply leadsg2_exit_map with (m := my).
    { intros t T0 C0 M0. eapply rs_goto; try exact tc_nonneg; eassumption. }
    apply (Hoky s res Hsem Hst (a + 6) tbl (a + 5 :: zlen C :: T) S0 C M).
    + rewrite Ey. exact Hcy.
    + exists Goto. exact Hg0.
    + eapply track_ok_cons. rewrite Z.abs_eq by lia. exact H5.
    + exact Hr.
    + rewrite Ey. cbn [snd]. eapply tbl_ok_ext; eassumption.
  - (* not set: backtrack into the Lazybranch, Forejump at ln, then the "no" branch *)
    eapply leadsg2_pre.
    { eapply rsteps_trans.
      { eapply rs_testref_fail; try exact tc_nonneg; try eassumption. rewrite Z.abs_eq by lia. exact H1. }
      rewrite bkr_pos by lia.
      eapply rsteps_trans; [eapply rs_lazybranch_back; try exact tc_nonneg; eassumption|].
      change (a :: T) with ([a] ++ T).
      eapply rs_forejump; try exact tc_nonneg; eassumption. }
    eapply c2_else with (no := no) (tbl := t1); try eassumption.
Qed.

Lemma c2_exprcond f o c yes no :
  ok_node2 f c -> supported2 c = true -> ok_node2 f yes -> ok_opt2 f no ->
  ok_node2 (S f) (NExprCond o c yes no).
Proof.
  intros Hokc Hsc Hoky Hokn s res Hsem Hst a tbl T S0 C M Hc Hex Hk Hr Htb.
  cbn [sem] in Hsem. apply sp_bind_ok in Hsem. destruct Hsem as (l1 & Hl1 & Hsem).
  apply sp_first_only_ok in Hl1. destruct Hl1 as (l0 & Hl0 & ->).
  cbn [emit csize] in Hc, Hex, Htb |- *.
  pose proof (emit_length cfg0 c (a + 4) tbl) as Lc.
  pose proof (emit_tbl_ext cfg0 c (a + 4) tbl) as Extc.
  destruct (emit cfg0 c (a + 4) tbl) as [cc t1] eqn:Ec. cbn [fst snd] in Lc, Extc. rewrite Lc in Hc, Htb.
  set (ay := a + 4 + csize cfg0 c + 2) in *.
  pose proof (emit_length cfg0 yes ay t1) as Ly.
  pose proof (emit_tbl_ext cfg0 yes ay t1) as Exty.
  destruct (emit cfg0 yes ay t1) as [cy t2] eqn:Ey. cbn [fst snd] in Ly, Exty. rewrite Ly in Hc, Htb.
  set (ln := ay + csize cfg0 yes + 2) in *.
  assert (Ln : zlen (fst (match no with Some x => emit cfg0 x (ln + 2) t2 | None => ([], t2) end)) =
               match no with Some x => csize cfg0 x | None => 0 end)
    by (destruct no; [apply emit_length|reflexivity]).
  assert (Extn : tbl_ext t2 (snd (match no with Some x => emit cfg0 x (ln + 2) t2 | None => ([], t2) end)))
    by (destruct no; [apply emit_tbl_ext|apply tbl_ext_refl]).
  destruct (match no with Some x => emit cfg0 x (ln + 2) t2 | None => ([], t2) end) as [cn t3] eqn:En.
  cbn [fst snd] in Ln, Extn, Hc, Htb. rewrite Ln in Hc.
  set (sn := match no with Some x => csize cfg0 x | None => 0 end) in *.
  cbn [app] in Hc.
  apply has_code_cons in Hc. destruct Hc as [H0 Hc]. apply has_code_cons in Hc. destruct Hc as [H1 Hc].
  apply has_code_cons in Hc. destruct Hc as [H2 Hc]. apply has_code_cons in Hc. destruct Hc as [H3 Hc].
  replace (a + 1 + 1) with (a + 2) in * by lia. replace (a + 2 + 1 + 1) with (a + 4) in * by lia.
  apply has_code_app in Hc. destruct Hc as [Hcc Hc]. rewrite Lc in Hc.
  set (mc := a + 4 + csize cfg0 c) in *.
  apply has_code_cons in Hc. destruct Hc as [HG1 Hc]. apply has_code_cons in Hc. destruct Hc as [HF1 Hc].
  replace (mc + 1 + 1) with ay in * by (unfold ay, mc; lia).
  apply has_code_app in Hc. destruct Hc as [Hcy Hc]. rewrite Ly in Hc.
  set (my := ay + csize cfg0 yes) in *.
  apply has_code_cons in Hc. destruct Hc as [Hg0 Hc]. apply has_code_cons in Hc. destruct Hc as [Hg1 Hc].
  replace (my + 1 + 1) with ln in * by (unfold ln, my; lia).
  apply has_code_cons in Hc. destruct Hc as [HG2 Hc]. apply has_code_cons in Hc. destruct Hc as [HF2 Hcn].
  replace (ln + 1 + 1) with (ln + 2) in * by lia.
  replace (a + (4 + csize cfg0 c + 2 + csize cfg0 yes + 2 + 2 + sn)) with (ln + 2 + sn) in *
    by (unfold ln, my, ay, mc; lia).
  pose proof (code_at_nonneg p _ _ H0) as Ha.
  pose proof Hk as (np' & T3 & HT3 & w3 & Hw3).
  pose proof Hst as [Hp Hcs].
  set (S1 := zlen C :: zlen T + 1 :: S0).
  assert (Hexc : code_ex (a + 4)).
  { eapply cc_code_ex_start; [exact Hcc|]. rewrite Lc. exists Getmark. exact HG1. }
  destruct Hexc as [wc Hwc].
  assert (Hexy : code_ex ay) by (eapply cc_code_ex_start; [exact Hcy|]; rewrite Ly; exists Goto; exact Hg0).
  destruct Hexy as [wy Hwy].
  assert (Hexn : code_ex (ln + 2)) by (eapply cc_code_ex_start; [exact Hcn|]; rewrite Ln; exact Hex).
  destruct Hexn as [wn Hwn].
  pose proof Hex as [wx Hwx].
  set (T1 := a + 2 :: pos s :: a + 1 :: a :: T).
  assert (G : leadsg2 mc T1 (pos s :: S1) (pos s :: S1) C M (mkr (a + 4) 0 (pos s) T1 (pos s :: S1) C M) l0).
  { apply (Hokc s l0 Hl0 Hst (a + 4) tbl T1 (pos s :: S1) C M).
    - rewrite Ec. exact Hcc.
    - exists Getmark. exact HG1.
    - eapply track_ok_cons. rewrite Z.abs_eq by lia. exact H2.
    - exact Hr.
    - rewrite Ec. cbn [snd]. eapply tbl_ok_ext; [exact Exty|]. eapply tbl_ok_ext; eassumption. }
  (* prelude: Setjump ; Setmark ; Lazybranch ln *)
  eapply leadsg2_pre.
  { eapply rsteps_trans; [eapply rs_setjump; try exact tc_nonneg; eassumption|].
    eapply rsteps_trans.
    { eapply rs_setmark; try exact tc_nonneg; try eassumption. replace (a + 1 + 1) with (a + 2) by lia. exact H2. }
    replace (a + 1 + 1) with (a + 2) by lia.
    eapply rs_lazybranch; try exact tc_nonneg; try eassumption.
    replace (a + 2 + 2) with (a + 4) by lia. exact Hwc. }
  replace (a + 2 + 2) with (a + 4) by lia. fold S1. fold T1.
  destruct l0 as [|q l0].
  - (* the condition fails: Lazybranch back, Getmark, Forejump at ln, then "no" *)
    cbn [leadsg2] in G. destruct G as (np & T' & t & HT & Hs). unfold T1 in HT. injection HT as <- <-.
    rewrite bkr_pos in Hs by lia.
    eapply leadsg2_pre.
    { eapply rsteps_trans; [exact Hs|].
      eapply rsteps_trans; [eapply rs_lazybranch_back; try exact tc_nonneg; eassumption|].
      eapply rsteps_trans; [eapply rs_getmark; try exact tc_nonneg; eassumption|].
      change (ln :: pos s :: a + 1 :: a :: T) with ([ln; pos s; a + 1; a] ++ T).
      replace (ln + 2) with (ln + 1 + 1) by lia.
      eapply rs_forejump; try exact tc_nonneg; try eassumption.
      replace (ln + 1 + 1) with (ln + 2) by lia. exact Hwn. }
    replace (ln + 1 + 1) with (ln + 2) by lia.
    eapply c2_else with (no := no) (tbl := t2); try eassumption.
  - (* the condition succeeds with q: Getmark, Forejump, then "yes" with q's captures *)
    cbn [leadsg2] in G. destruct G as (T' & C' & M' & Hcq & Hu & Hkq & Hs & _).
    assert (Hstq : st_ok e q) by (eapply c2_res_ok_in; [exact Hsc|exact Hl0|exact Hst|left; reflexivity]).
    assert (Hstq' : st_ok e (with_pos q (pos s))) by (destruct Hstq as [_ Hq]; split; [exact Hp|exact Hq]).
    eapply leadsg2_pre.
    { eapply rsteps_trans; [exact Hs|].
      eapply rsteps_trans; [eapply rs_getmark; try exact tc_nonneg; eassumption|].
      replace (mc :: pos s :: T' ++ T1) with ((mc :: pos s :: T' ++ [a + 2; pos s; a + 1; a]) ++ T)
        by (unfold T1; cbn [app]; rewrite <- app_assoc; reflexivity).
      eapply rs_forejump; try exact tc_nonneg; try eassumption.
      replace (mc + 1 + 1) with ay by (unfold ay, mc; lia). exact Hwy. }
    replace (mc + 1 + 1) with ay by (unfold ay, mc; lia).
    eapply c2_over_forejump with (pcF := mc + 1) (C' := C') (M' := M'); try eassumption.
    eapply leadsg2_exit_map with (m := my).
    { intros t T0 C0 M0. eapply rs_goto; try exact tc_nonneg; eassumption. }
    pose proof (code_at_nonneg p _ _ HF1) as HpF.
    apply (Hoky (with_pos q (pos s)) res Hsem Hstq' ay t1 (mc + 1 :: zlen C :: T) S0 (C' ++ C) M').
    + rewrite Ey. exact Hcy.
    + exists Goto. exact Hg0.
    + eapply track_ok_cons. rewrite Z.abs_eq by lia. exact HF1.
    + exact Hcq.
    + rewrite Ey. cbn [snd]. eapply tbl_ok_ext; eassumption.
Qed.

End CC.
