(* C03 x C04: the Boyer-Moore branch of findFirstCharDefault end to end on a tree.
   "getPrefix computes the literal (C04: every successful attempt starts with it) => newBmPrefix builds
   sound tables => Scan / IsMatch never skip a successful attempt => the scan loop with this finder
   returns what Spec.find returns".  Left-to-right, case-sensitive prefix (what C04_bm_prefix_sound_partial
   covers); the other direction / the CaseInsensitive flag are covered by Proofs/BMProofs.v relative to
   the prefix fact [bmp_prefix_fact]. *)
From Coq Require Import ZifyBool.
From Verif Require Import Base.Prelude Base.Utf8 Model.Tree Model.Spec Model.Scan Model.Finder Model.Analysis Model.BM
     Proofs.ScanProofs Proofs.ScanBumpProofs Proofs.FinderProofs Proofs.MaskProofs
     Proofs.AnalysisReach Proofs.AnalysisProofs Proofs.AnalysisPrefix Proofs.AnalysisFacts Proofs.FinderCompose
     Proofs.BMProofs.

(* Code.Anchors is 0 or the bit of one findable anchor *)
Definition bmc_ga_shape (t : node) : Prop :=
  match get_anchors_walk t with
  | WSkip => True
  | WDone z => z = 0 \/ exists a, anchor_findable a = true /\ z = anchor_bit a
  end.

Lemma bmc_ga_seq : forall l, Forall bmc_ga_shape l ->
  first_done (map get_anchors_walk l) 0 = 0 \/
  exists a, anchor_findable a = true /\ first_done (map get_anchors_walk l) 0 = anchor_bit a.
Proof.
  induction 1 as [|x l Hx Hl IH]; cbn [map first_done]; [left; reflexivity|].
  unfold bmc_ga_shape in Hx. destruct (get_anchors_walk x) as [z|]; [exact Hx | exact IH].
Qed.

Lemma bmc_ga_all : forall t, bmc_ga_shape t.
Proof.
  induction t using node_ind'; unfold bmc_ga_shape; cbn [get_anchors_walk]; try (left; reflexivity); try exact I.
  - destruct (anchor_findable a) eqn:Ea; [right; exists a; split; [exact Ea | reflexivity] | left; reflexivity].
  - destruct l as [|x l]; [exact I|]. apply bmc_ga_seq. exact H.
  - unfold bmc_ga_shape in IHt. destruct (get_anchors_walk t) as [z|]; [exact IHt | left; reflexivity].
  - unfold bmc_ga_shape in IHt. destruct (get_anchors_walk t) as [z|]; [exact IHt | left; reflexivity].
Qed.

Lemma bmc_get_anchors_cases : forall t,
  get_anchors t = 0 \/ exists a, anchor_findable a = true /\ get_anchors t = anchor_bit a.
Proof.
  intros t. pose proof (bmc_ga_all t) as H. unfold bmc_ga_shape, get_anchors in *.
  destruct (get_anchors_walk t) as [z|]; [exact H | left; reflexivity].
Qed.

Section ComposeBM.
Variable e : env.
Variable fuel : nat.
Variable root : node.
Variable bumpq : Z -> Z.

Local Notation exec := (bp_exec e fuel root bumpq).
Local Notation n := (tlen e).

Hypothesis Hshape : shape_ok false root = true.
Hypothesis Hfuel : forall x, 0 <= x <= n -> exists r, attempt e fuel root x = Ok r.
Hypothesis H3 : sc_H3 st n false exec.

(* the anchor facts findFirstCharDefault relies on, from Code.Anchors alone (C04_anchors_sound) *)
Lemma bmc_anchor_facts :
  let anchors := get_anchors root in
  let succeeds := fun x => fst (exec x) <> None in
  (abit anchors ANCH_BEGINNING = true -> forall x, sc_in_text n x -> succeeds x -> x = 0) /\
  (abit anchors ANCH_START = true -> forall x, sc_in_text n x -> succeeds x -> x = tstart e) /\
  (abit anchors ANCH_ENDZ = true -> forall x, sc_in_text n x -> succeeds x ->
     x = zlen (txt e) \/ (x = zlen (txt e) - 1 /\ nth (Z.to_nat x) (txt e) 0 = 10)) /\
  (abit anchors ANCH_END = true -> forall x, sc_in_text n x -> succeeds x -> x = zlen (txt e)).
Proof.
  cbv zeta. destruct (bmc_get_anchors_cases root) as [Hz|(a & Hfind & Hga)].
  - rewrite Hz. repeat split; intros Hb; discriminate Hb.
  - assert (Hok : forall x, sc_in_text n x -> fst (exec x) <> None -> anchor_ok e a x = true).
    { intros x Hx Hsx. destruct (fc_succeeds_attempt e fuel root bumpq x Hsx) as [s' Hat].
      exact (an_get_anchors_sound e fuel root x s' a Hfind Hga Hat). }
    rewrite Hga. repeat split; intros Hb x Hx Hsx; specialize (Hok x Hx Hsx); unfold sc_in_text, tlen in *.
    + destruct a; try discriminate Hb. cbn [anchor_ok] in Hok. lia.
    + destruct a; try discriminate Hb. cbn [anchor_ok] in Hok. lia.
    + destruct a; try discriminate Hb. cbn [anchor_ok] in Hok. unfold char_at, tlen in *. cbv zeta in Hok.
      destruct (1 <? zlen (txt e) - x) eqn:E1; cbv iota in Hok; [discriminate|].
      destruct (endz_strict e); cbv iota in Hok; [left; lia|].
      destruct ((zlen (txt e) - x =? 1) && negb (nth (Z.to_nat x) (txt e) 0 =? 10)) eqn:E2; [discriminate|].
      lia.
    + destruct a; try discriminate Hb. cbn [anchor_ok] in Hok. unfold tlen in *. lia.
Qed.

(* C04: every successful attempt starts with the literal => the fact the machine needs *)
Lemma bmc_prefix_fact : forall str t,
  bm_prefix root = Some (str, false) -> bm_new (lower e) str false false = Ok (Some t) ->
  bmp_prefix_fact (lower e) t (txt e) st exec.
Proof.
  intros str t Hbm Hnew x Hx Hsx.
  destruct (bmp_new_Some_ok (lower e) str false false t Hnew) as (Hpat & Hrtl & Hci & _).
  destruct (fc_succeeds_attempt e fuel root bumpq x Hsx) as [s' Hat].
  destruct (an_bm_prefix_sound e fuel root x s' str Hbm Hshape Hx Hat) as [rest Hrest]. unfold txt_from in Hrest.
  assert (Hpat' : bm_pattern t = str) by (rewrite Hpat; unfold bm_fold; apply map_id).
  unfold bmp_occ_at. rewrite Hrtl, Hpat'. intros j Hj.
  assert (Hlen : length (skipn (Z.to_nat x) (txt e)) = (length str + length rest)%nat) by (rewrite Hrest, app_length; reflexivity).
  rewrite skipn_length in Hlen. unfold zlen in *.
  split; [lia|]. unfold bmp_tx, bm_fold, bmp_p, bm_gz. rewrite Hci.
  replace (Z.to_nat (x + j)) with (Z.to_nat x + Z.to_nat j)%nat by lia.
  rewrite <- bmp_nth_skipn, Hrest. apply app_nth1. lia.
Qed.

(* Code.BmPrefix != nil, left-to-right: the Boyer-Moore branch (Scan without an anchor bit, IsMatch after the
   anchor jumps with one), whatever FindOptimizations and FcPrefix hold *)
Theorem bmc_mode_bm_sound : forall str t (o : option fdopts) (fc : option fdfc),
  bm_prefix root = Some (str, false) ->
  bm_new (lower e) str false false = Ok (Some t) ->
  (forall x, In x (txt e) -> 0 <= x) ->
  forall start prevlen, 0 <= start <= n ->
  exists r, find e fuel root false start prevlen = Ok r /\
            scan n false (min_len root)
                 (fd_total (fd_find_first_char_default (txt e) (set_in e) (lower e) false (get_anchors root) (tstart e)
                              (Some (bm_is_match_fn (lower e) t (txt e))) (Some (bm_scan_fn (lower e) t (txt e))) o fc))
                 exec start prevlen = Ok r.
Proof.
  intros str t o fc Hbm Hnew Hnn start prevlen Hs.
  destruct (bmp_new_Some_ok (lower e) str false false t Hnew) as (Hpat & Hrtl & Hci & Hok).
  destruct bmc_anchor_facts as (A1 & A2 & A3 & A4).
  pose proof (bmp_finder_default_H1 st (txt e) exec (set_in e) (lower e) (get_anchors root) (tstart e) t o fc) as HH.
  cbv zeta in HH. rewrite Hrtl in HH. unfold tlen in *.
  destruct HH as [F1 F2]; try assumption.
  - intros i Hi. unfold bmp_tx, bm_fold. rewrite Hci. apply Hnn. unfold bm_gz. apply nth_In. unfold zlen in Hi. lia.
  - exact (bmc_prefix_fact str t Hbm Hnew).
  - destruct (sc_scan_finder_sound st (zlen (txt e)) false (min_len root) _ exec F1 F2) with (start := start) (prevlen := prevlen)
      as (r & Hr1 & Hr2).
    + apply fc_min_len_H2. exact Hshape.
    + exact H3.
    + exact Hs.
    + exists r. split; [|exact Hr1].
      rewrite (bp_find_naive_scan e fuel root false bumpq start prevlen Hfuel Hs). exact Hr2.
Qed.

End ComposeBM.
