(* Final statements over [parse] (Model/GroupMap.v), assembled from GMBase / GMLookups / GMPrescan /
   GMAgree / GMRule; Properties/C17.v and C18.v only restate these. *)
From Verif Require Import Base.Prelude Model.GroupMap Proofs.GMBase Proofs.OptionsProofs.
From Verif Require Export Proofs.GMLookups Proofs.GMPrescan Proofs.GMAgree Proofs.GMRule.

(* the mode [parse] derives from its arguments (parser.go:162) *)
Definition mode_ecma (o : Z) : bool := has o opt_e.
Definition mode_mco (mco_flag : bool) (o : Z) : bool := mco_flag || has o opt_e || has o opt_re2.

Lemma mode_ecma_mco : forall f o, mode_ecma o = true -> mode_mco f o = true.
Proof. intros f o H. unfold mode_mco, mode_ecma in *. rewrite H. now destruct f. Qed.

Lemma parse_inv : forall f o ts t mks its,
  parse f o ts = Ok (t, mks, its) ->
  prescan (mode_mco f o) (mode_ecma o) o ts = Ok (t, mks)
  /\ main_pass (mode_mco f o) (mode_ecma o) t o ts = Ok its.
Proof.
  intros f o ts t mks its H. unfold parse in H. cbv zeta in H.
  change (has o opt_e) with (mode_ecma o) in H.
  change (f || mode_ecma o || has o opt_re2) with (mode_mco f o) in H.
  destruct (prescan (mode_mco f o) (mode_ecma o) o ts) as [[t' mks']| | |]; try discriminate. cbn [bind] in H.
  destruct (main_pass (mode_mco f o) (mode_ecma o) t' o ts) as [its'| | |] eqn:E; try discriminate. cbn [bind] in H.
  injection H as <- <- <-. auto.
Qed.

Lemma main_pass_inv : forall mco ecma t o ts its, main_pass mco ecma t o ts = Ok its ->
  exists st, mrun mco ecma t (m_init o) ts = Ok (st, its) /\ m_gstack st = [].
Proof.
  intros mco ecma t o ts its H. unfold main_pass in H.
  destruct (mrun mco ecma t (m_init o) ts) as [[st its']| | |]; try discriminate. cbn [bind] in H.
  destruct (m_gstack st) eqn:E; [|discriminate]. injection H as <-. eauto.
Qed.

(* ---------- C17 on parse ---------- *)

Theorem parse_wf : forall lim f o ts t mks its,
  ts_ok lim (mode_mco f o) (mode_ecma o) ts -> parse f o ts = Ok (t, mks, its) ->
  wf_tree (mode_ecma o) t.
Proof.
  intros lim f o ts t mks its Hok H. destruct (parse_inv _ _ _ _ _ _ H) as [Hp _].
  apply (prescan_wf lim (mode_mco f o) (mode_ecma o) o ts t mks (mode_ecma_mco f o) Hok Hp).
Qed.

Theorem parse_agrees : forall lim f o ts t mks its,
  ts_ok lim (mode_mco f o) (mode_ecma o) ts -> parse f o ts = Ok (t, mks, its) ->
  Forall2 (agrees t) mks its.
Proof.
  intros lim f o ts t mks its Hok H. destruct (parse_inv _ _ _ _ _ _ H) as [Hp Hm].
  destruct (main_pass_inv _ _ _ _ _ _ Hm) as [st [Hr _]].
  apply (prescan_agrees lim (mode_mco f o) (mode_ecma o) o ts t mks st its (mode_ecma_mco f o) Hok Hp Hr).
Qed.

(* ---------- C18 on parse: a leading "(?cs)" ---------- *)

Lemma leading_same_parse : forall mco cs o ts,
  cs <> [] ->
  has (scan_options false cs o) opt_e = has o opt_e ->
  has (scan_options false cs o) opt_re2 = has o opt_re2 ->
  parse mco o (TOptSet cs :: ts) =
  match parse mco (scan_options false cs o) ts with
  | Ok (t, mks, its) => Ok (t, PNone :: mks, INone :: its)
  | Err c => Err c
  | Crash w => Crash w
  | Fuel => Fuel
  end.
Proof.
  intros mco cs o ts Hne He Hr. unfold parse. rewrite He, Hr.
  set (ecma := has o opt_e). set (m := mco || ecma || has o opt_re2). set (o2 := scan_options false cs o).
  assert (Hp : prun m ecma (p_init o) (TOptSet cs :: ts) =
               match prun m ecma (p_init o2) ts with
               | Ok (st, mks) => Ok (st, PNone :: mks) | Err c => Err c | Crash w => Crash w | Fuel => Fuel end).
  { cbn [prun]. unfold pstep at 1. cbn. fold o2. change (mkP (mkO o2 [] false) false c_init) with (p_init o2).
    destruct (prun m ecma (p_init o2) ts) as [[st mks]| | |]; reflexivity. }
  assert (Hm : forall t, mrun m ecma t (m_init o) (TOptSet cs :: ts) =
               match mrun m ecma t (m_init o2) ts with
               | Ok (st, its) => Ok (st, INone :: its) | Err c => Err c | Crash w => Crash w | Fuel => Fuel end).
  { intros t. cbn [mrun]. unfold mstep at 1. destruct cs as [|c0 cs']; [contradiction|]. cbn. fold o2.
    change (mkM (mkO o2 [] false) false [] false 1) with (m_init o2).
    destruct (mrun m ecma t (m_init o2) ts) as [[st its]| | |]; reflexivity. }
  unfold prescan. rewrite Hp.
  destruct (prun m ecma (p_init o2) ts) as [[st mks]| | |]; try reflexivity. cbn [bind].
  destruct (if m then assign_ordered ecma (p_c st) else assign_default (p_c st)) as [t| | |]; try reflexivity. cbn [bind].
  unfold main_pass. rewrite Hm.
  destruct (mrun m ecma t (m_init o2) ts) as [[st' its]| | |]; try reflexivity. cbn [bind].
  destruct (m_gstack st'); reflexivity.
Qed.
