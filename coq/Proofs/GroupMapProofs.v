(* Final statements over [parse] (Model/GroupMap.v), assembled from GMBase / GMLookups / GMPrescan /
   GMAgree / GMRule; Properties/C17.v and C18.v only restate these. *)
From Verif Require Import Base.Prelude Model.GroupMap Proofs.GMBase Proofs.OptionsProofs.
From Verif Require Export Proofs.GMLookups Proofs.GMPrescan Proofs.GMAgree Proofs.GMRule.

(* the mode [parse] derives from its arguments (parser.go:162) *)
Definition mode_ecma (o : Z) : bool := has o opt_e.
Definition mode_mco (mco_flag : bool) (o : Z) : bool := mco_flag || has o opt_e || has o opt_re2.

Lemma mode_ecma_mco : forall f o, mode_ecma o = true -> mode_mco f o = true.
Proof. intros f o H. unfold mode_mco, mode_ecma in *. rewrite H. now destruct f. Qed.

Lemma parse_inv : forall f o ts t mks its,
  parse f o ts = Ok (t, mks, its) ->
  prescan (mode_mco f o) (mode_ecma o) o ts = Ok (t, mks)
  /\ main_pass (mode_mco f o) (mode_ecma o) t o ts = Ok its.
Proof.
  intros f o ts t mks its H. unfold parse in H. cbv zeta in H.
  change (has o opt_e) with (mode_ecma o) in H.
  change (f || mode_ecma o || has o opt_re2) with (mode_mco f o) in H.
  destruct (prescan (mode_mco f o) (mode_ecma o) o ts) as [[t' mks']| | |]; try discriminate. cbn [bind] in H.
  destruct (main_pass (mode_mco f o) (mode_ecma o) t' o ts) as [its'| | |] eqn:E; try discriminate. cbn [bind] in H.
  injection H as <- <- <-. auto.
Qed.

Lemma main_pass_inv : forall mco ecma t o ts its, main_pass mco ecma t o ts = Ok its ->
  exists st, mrun mco ecma t (m_init o) ts = Ok (st, its) /\ m_gstack st = [].
Proof.
  intros mco ecma t o ts its H. unfold main_pass in H.
  destruct (mrun mco ecma t (m_init o) ts) as [[st its']| | |]; try discriminate. cbn [bind] in H.
  destruct (m_gstack st) eqn:E; [|discriminate]. injection H as <-. eauto.
Qed.

(* ---------- C17 on parse ---------- *)

Theorem parse_wf : forall lim f o ts t mks its,
  ts_ok lim (mode_mco f o) (mode_ecma o) ts -> parse f o ts = Ok (t, mks, its) ->
  wf_tree (mode_ecma o) t.
Proof.
  intros lim f o ts t mks its Hok H. destruct (parse_inv _ _ _ _ _ _ H) as [Hp _].
  apply (prescan_wf lim (mode_mco f o) (mode_ecma o) o ts t mks (mode_ecma_mco f o) Hok Hp).
Qed.

(* without the guard *)
Theorem parse_wf_weak : forall lim f o ts t mks its,
  ts_ok_unguarded lim ts -> parse f o ts = Ok (t, mks, its) ->
  wf_weak (mode_ecma o) t.
Proof.
  intros lim f o ts t mks its Hok H. destruct (parse_inv _ _ _ _ _ _ H) as [Hp _].
  apply (prescan_wf_weak lim (mode_mco f o) (mode_ecma o) o ts t mks (mode_ecma_mco f o) Hok Hp).
Qed.

Theorem parse_vals : forall lim f o ts t mks its,
  ts_ok_unguarded lim ts -> parse f o ts = Ok (t, mks, its) -> vals_ok t.
Proof.
  intros lim f o ts t mks its Hok H. destruct (parse_inv _ _ _ _ _ _ H) as [Hp _].
  exact (prescan_vals lim _ _ o ts t mks (mode_ecma_mco f o) Hok Hp).
Qed.

Theorem parse_agrees : forall lim f o ts t mks its,
  ts_ok_unguarded lim ts -> parse f o ts = Ok (t, mks, its) ->
  Forall2 (agrees t) mks its.
Proof.
  intros lim f o ts t mks its Hok H. destruct (parse_inv _ _ _ _ _ _ H) as [Hp Hm].
  destruct (main_pass_inv _ _ _ _ _ _ Hm) as [st [Hr _]].
  apply (prescan_agrees lim (mode_mco f o) (mode_ecma o) o ts t mks st its (mode_ecma_mco f o) Hok Hp Hr).
Qed.

(* ---------- C18 on parse: a leading "(?cs)" ---------- *)

Lemma leading_same_parse : forall mco cs o ts,
  cs <> [] ->
  has (scan_options false cs o) opt_e = has o opt_e ->
  has (scan_options false cs o) opt_re2 = has o opt_re2 ->
  parse mco o (TOptSet cs :: ts) =
  match parse mco (scan_options false cs o) ts with
  | Ok (t, mks, its) => Ok (t, PNone :: mks, INone :: its)
  | Err c => Err c
  | Crash w => Crash w
  | Fuel => Fuel
  end.
Proof.
  intros mco cs o ts Hne He Hr. unfold parse. rewrite He, Hr.
  set (ecma := has o opt_e). set (m := mco || ecma || has o opt_re2). set (o2 := scan_options false cs o).
  assert (Hp : prun m ecma (p_init o) (TOptSet cs :: ts) =
               match prun m ecma (p_init o2) ts with
               | Ok (st, mks) => Ok (st, PNone :: mks) | Err c => Err c | Crash w => Crash w | Fuel => Fuel end).
  { cbn [prun]. unfold pstep at 1. cbn. fold o2. change (mkP (mkO o2 [] false) false c_init) with (p_init o2).
    destruct (prun m ecma (p_init o2) ts) as [[st mks]| | |]; reflexivity. }
  assert (Hm : forall t, mrun m ecma t (m_init o) (TOptSet cs :: ts) =
               match mrun m ecma t (m_init o2) ts with
               | Ok (st, its) => Ok (st, INone :: its) | Err c => Err c | Crash w => Crash w | Fuel => Fuel end).
  { intros t. cbn [mrun]. unfold mstep at 1. destruct cs as [|c0 cs']; [contradiction|]. cbn. fold o2.
    change (mkM (mkO o2 [] false) false [] false 1) with (m_init o2).
    destruct (mrun m ecma t (m_init o2) ts) as [[st its]| | |]; reflexivity. }
  unfold prescan. rewrite Hp.
  destruct (prun m ecma (p_init o2) ts) as [[st mks]| | |]; try reflexivity. cbn [bind].
  destruct (if m then assign_ordered ecma (p_c st) else assign_default (p_c st)) as [t| | |]; try reflexivity. cbn [bind].
  unfold main_pass. rewrite Hm.
  destruct (mrun m ecma t (m_init o2) ts) as [[st' its]| | |]; try reflexivity. cbn [bind].
  destruct (m_gstack st'); reflexivity.
Qed.

(* ---------- C17: the lookups, packaged ---------- *)

(* number -> slot is a monotone bijection from the group numbers onto [0, capsize) *)
Theorem dense_map_bijective : forall t, wf_caps t ->
  let r := compile_maps t in
  (forall k i, group_by_number r k = Some i -> In k (t_caps t) /\ 0 <= i < r_capsize r)
  /\ (forall k, In k (t_caps t) -> exists i, group_by_number r k = Some i)
  /\ (forall i, 0 <= i < r_capsize r -> exists k, In k (t_caps t) /\ group_by_number r k = Some i)
  /\ (forall k1 k2 i1 i2, group_by_number r k1 = Some i1 -> group_by_number r k2 = Some i2 -> k1 < k2 -> i1 < i2)
  /\ get_group_numbers r = Ok (t_caps t).
Proof.
  intros t WF r.
  assert (Hin : forall k i, group_by_number r k = Some i -> In k (t_caps t)).
  { intros k i H. destruct (in_dec Z.eq_dec k (t_caps t)) as [Hi|Hn]; [assumption|].
    unfold r in H. rewrite (group_by_number_absent t WF k Hn) in H. discriminate. }
  split; [|split; [|split; [|split]]].
  - intros k i H. split; [eauto|]. eapply group_by_number_range; eauto.
  - intros k Hk. destruct (In_nth_error _ _ Hk) as [i Hi]. eexists. apply (group_by_number_spec t WF i k Hi).
  - intros i Hi. unfold r in Hi. rewrite (capsize_len t WF) in Hi. unfold zlen in Hi.
    destruct (nth_error (t_caps t) (Z.to_nat i)) as [k|] eqn:E; [|apply nth_error_None in E; lia].
    exists k. split; [eapply nth_error_In; eauto|].
    unfold r. rewrite (group_by_number_spec t WF _ k E). f_equal. lia.
  - intros k1 k2 i1 i2 H1 H2 Hlt.
    destruct (In_nth_error _ _ (Hin _ _ H1)) as [j1 Hj1]. destruct (In_nth_error _ _ (Hin _ _ H2)) as [j2 Hj2].
    unfold r in H1, H2.
    rewrite (group_by_number_spec t WF j1 k1 Hj1) in H1. rewrite (group_by_number_spec t WF j2 k2 Hj2) in H2.
    injection H1 as <-. injection H2 as <-.
    destruct (Nat.lt_ge_cases j1 j2) as [Hj|Hj]; [lia|]. exfalso.
    destruct (Nat.eq_dec j1 j2) as [->|Hne]; [rewrite Hj1 in Hj2; injection Hj2 as ->; lia|].
    pose proof (ssorted_nth_lt (t_caps t) j2 j1 k2 k1 (wc_sorted _ WF) Hj2 Hj1 ltac:(lia)). lia.
  - apply (get_group_numbers_spec t WF).
Qed.

(* all lookups designate the same group *)
Theorem maps_consistent : forall ecma t, wf_tree ecma t ->
  let r := compile_maps t in
  let nums := t_caps t in
  let names := get_group_names r in
  length names = length nums
  /\ (forall i k, nth_error nums i = Some k -> group_name_from_number r k = nth i names [])
  /\ (forall k, In k nums -> let s := group_name_from_number r k in
                              (ecma = true /\ s = []) \/ (s <> [] /\ group_number_from_name r s = k))
  /\ (forall s, In s names -> s <> [] ->
        In (group_number_from_name r s) nums /\ group_name_from_number r (group_number_from_name r s) = s)
  /\ (forall s, group_by_name r s =
                if group_number_from_name r s <? 0 then None else group_by_number r (group_number_from_name r s))
  /\ (forall i k s, nth_error nums i = Some k -> nth_error names i = Some s -> s <> [] ->
        group_by_name r s = Some (Z.of_nat i) /\ group_by_number r k = Some (Z.of_nat i))
  /\ groups_names ecma r = names
  /\ (ecma = false -> forall s, In s names -> s <> []).
Proof.
  intros ecma t WF r nums names.
  pose proof (wf_tree_caps ecma t WF) as WC.
  pose proof (wf_weak_shape ecma t (wf_tree_weak ecma t WF)) as WS.
  split; [apply (names_length ecma t WC WS)|].
  split; [apply (name_from_number_spec ecma t WC WS)|].
  split; [apply (number_name_number ecma t WF)|].
  split; [apply (name_number_name ecma t WF)|].
  split; [apply (group_by_name_spec t)|].
  split; [apply (group_by_name_listed ecma t WF)|].
  split; [apply (groups_names_spec ecma t WC WS)|].
  apply (names_nonempty ecma t WS).
Qed.

(* the part of [maps_consistent] that needs no guard (weak well-formedness): everything except the
   name <-> number round trips and GroupByName of a listed name; of those only this remains: the name
   listed for a group is a name GroupNumberFromName knows, and it leads to a group — to THIS group,
   unless the name is this group's numeral (an unnamed group) which is also the name of another group *)
Theorem maps_consistent_weak : forall ecma t, wf_weak ecma t -> vals_ok t ->
  let r := compile_maps t in
  let nums := t_caps t in
  let names := get_group_names r in
  length names = length nums
  /\ (forall i k, nth_error nums i = Some k -> group_name_from_number r k = nth i names [])
  /\ (forall i k s, nth_error nums i = Some k -> nth_error names i = Some s ->
        (ecma = true /\ s = [])
        \/ (s <> [] /\ In (group_number_from_name r s) nums
                    /\ (group_number_from_name r s = k \/ s = itoa k)))
  /\ (forall s, group_by_name r s =
                if group_number_from_name r s <? 0 then None else group_by_number r (group_number_from_name r s))
  /\ groups_names ecma r = names
  /\ (ecma = false -> forall s, In s names -> s <> []).
Proof.
  intros ecma t WW HV r nums names.
  pose proof (ww_caps _ _ WW) as WC.
  pose proof (wf_weak_shape ecma t WW) as WS.
  split; [apply (names_length ecma t WC WS)|].
  split; [apply (name_from_number_spec ecma t WC WS)|].
  split.
  { intros i k s Hk Hs. unfold names, get_group_names in Hs. unfold group_number_from_name.
    destruct (r_names t) as [Hm Hl]. fold r in Hm, Hl. rewrite Hm. rewrite Hl in Hs.
    pose proof (ww_names _ _ WW) as W. unfold vals_ok in HV.
    destruct (t_caplist t) as [l|] eqn:El; destruct (t_capnames t) as [m|] eqn:Em; try contradiction.
    - destruct W as [F _].
      pose proof (Forall2_nth _ _ _ _ _ _ F Hs Hk) as Hent.
      destruct Hent as [He|[Hne [v [Hv Hor]]]]; [now left|right].
      split; [assumption|]. rewrite Hv. split; [eapply HV; eauto|assumption].
    - right. destruct W as [Hnone _].
      destruct (maps_shape t WC) as [[_ [Hc [Hsz Hz]]]|[Hsome _]]; [|congruence]. fold r in Hc, Hsz.
      assert (Hi : (i < length nums)%nat) by (apply nth_error_Some; congruence).
      unfold nums in *. rewrite Hz in Hk, Hi. rewrite zrange_length in Hi. rewrite zrange_nth in Hk by assumption. injection Hk as <-.
      rewrite nth_error_map in Hs. rewrite Hsz in Hs. rewrite zrange_nth in Hs by assumption. cbn in Hs. injection Hs as <-.
      assert (Hne : itoa (Z.of_nat i) <> []) by (apply itoa_nonempty; lia).
      split; [assumption|].
      assert (Hpd : parse_decimal (r_capsize r) (itoa (Z.of_nat i)) 0 = Z.of_nat i) by (rewrite Hsz; apply parse_decimal_itoa; lia).
      destruct (itoa (Z.of_nat i)) eqn:E; [contradiction|]. rewrite Hpd.
      split; [rewrite Hz; apply zrange_In; lia|now left]. }
  split; [apply (group_by_name_spec t)|].
  split; [apply (groups_names_spec ecma t WC WS)|].
  apply (names_nonempty ecma t WS).
Qed.


(* references: "$n" / "${n}" and "${name}" in a replacement, and the nodes the main pass creates
   for groups, "\n", "\k<name>", "(?(n)..." — all go through the same number -> slot map *)
Theorem refs_use_same_map : forall t, wf_caps t -> vals_ok t ->
  let r := compile_maps t in
  (forall n, dollar_num r n = group_by_number r n)
  /\ (forall s, dollar_name r s = match r_capnames r with Some _ => group_by_name r s | None => None end)
  /\ (forall k i, group_by_number r k = Some i -> map_capnum r k = i).
Proof.
  intros t WF HV r.
  assert (Hnn : forall k, In k (t_caps t) -> 0 <= k) by (apply (caps_nonneg t WF)).
  destruct (r_names t) as [Hrn _]. fold r in Hrn.
  assert (Hnum : forall n, dollar_num r n = group_by_number r n).
  { intros n. unfold dollar_num, is_slot_re, to_slot, group_by_number.
    destruct (maps_shape t WF) as [[_ [Hc [Hs Hz]]]|[_ [Hc Hs]]]; fold r in Hc, Hs; rewrite Hc.
    - rewrite Hs. destruct (0 <=? n) eqn:E1; destruct (n <? t_captop t) eqn:E2; cbn [andb];
        destruct (t_captop t <=? n) eqn:E3; destruct (n <? 0) eqn:E4; cbn [orb]; try reflexivity;
        apply Z.leb_le in E3 || apply Z.leb_gt in E3; apply Z.ltb_lt in E4 || apply Z.ltb_ge in E4;
        apply Z.leb_le in E1 || apply Z.leb_gt in E1; apply Z.ltb_lt in E2 || apply Z.ltb_ge in E2; lia.
    - set (m := combine (t_caps t) (zrange (zlen (t_caps t)))) in *.
      destruct (zget n m) as [v|] eqn:Eg; [|reflexivity].
      assert (Hin : In n (t_caps t)) by (eapply zget_combine_some_in; exact Eg).
      specialize (Hnn n Hin).
      destruct (In_nth_error _ _ Hin) as [i Hi].
      pose proof (group_by_number_spec t WF i n Hi) as Hb. fold r in Hb.
      unfold group_by_number in Hb. rewrite Hc, Eg in Hb.
      destruct ((r_capsize r <=? v) || (v <? 0)) eqn:Ec; [discriminate|].
      destruct m as [|p m']; [discriminate Eg|].
      destruct (0 <=? n) eqn:E1; [|apply Z.leb_gt in E1; lia].
      reflexivity. }
  split; [exact Hnum|]. split.
  - intros s. unfold dollar_name. rewrite Hrn. unfold vals_ok in HV.
    destruct (t_capnames t) as [m|] eqn:Em; [|reflexivity].
    unfold group_by_name, group_number_from_name. rewrite Hrn.
    destruct (aget s m) as [k|] eqn:Eg; [|reflexivity].
    specialize (HV s k Eg). specialize (Hnn k HV).
    destruct (k <? 0) eqn:E; [apply Z.ltb_lt in E; lia|].
    rewrite <- Hnum. unfold dollar_num.
    destruct (In_nth_error _ _ HV) as [i Hi].
    pose proof (group_by_number_spec t WF i k Hi) as Hb. fold r in Hb. rewrite <- Hnum in Hb.
    unfold dollar_num in Hb. destruct (is_slot_re r k); [reflexivity|discriminate Hb].
  - intros k i H. unfold map_capnum.
    assert (Hin : In k (t_caps t)).
    { destruct (in_dec Z.eq_dec k (t_caps t)) as [Hi|Hn]; [assumption|].
      unfold r in H. rewrite (group_by_number_absent t WF k Hn) in H. discriminate. }
    specialize (Hnn k Hin). destruct (k =? -1) eqn:E; [apply Z.eqb_eq in E; lia|].
    unfold group_by_number in H.
    destruct (r_caps r) as [m|].
    + destruct (zget k m) as [v|]; [|discriminate].
      destruct ((r_capsize r <=? v) || (v <? 0)); [discriminate|]. now injection H as ->.
    + destruct ((r_capsize r <=? k) || (k <? 0)); [discriminate|]. now injection H as ->.
Qed.
