(* More per-opcode lemmas for [ustep] (VM.step with unbounded stacks), obtained by symbolic
   evaluation of VM.step, continuing Proofs/VMUOps.v; then the "root-slot" lifting:
   every state of compile_correct is a family of states indexed by the OLDEST word of the
   backtracking stack (the slot UpdateBumpalong overwrites), [rsteps] is reachability between
   such families, and every opcode lemma is restated for families. *)
From Verif Require Import Base.Prelude Model.Tree Model.Spec Model.VM Model.Writer Gen.RunnerGen
  Proofs.VMU Proofs.VMUOps Proofs.VMCapacityProofs.
From Coq Require Import Relations ZifyBool.

Section Ops2.
Variable e : env.
Variable p : program.
Hypothesis tc_nonneg : 0 <= trackcount p.

Notation ustep := (VMU.ustep e p).
Notation mk := VMU.mk.

Ltac start H0 :=
  unfold VMU.ustep, step; cbn [repad VMU.mk pc mode tp track stack crawl mcaps tcap scap]; rewrite H0.
Ltac fin := cbn [bind cont norm VMU.mk repad set_pc set_tp set_track set_stack set_caps set_tcap set_scap pc mode tp track stack crawl mcaps tcap scap app];
            try reflexivity.
Ltac pcs := cbn [repad VMU.mk set_pc set_tp set_track set_stack set_caps pc]; lia.
Ltac adv n H := erewrite (advance_at p _ _ n) by (first [exact H | pcs]).
Ltac opn a H := erewrite (opnd_at p _ _ a) by (first [exact H | pcs]).
Ltac gto H := erewrite goto_ok by (first [exact H | room]).
Ltac tpu := rewrite tpush_ok by room; cbn [bind].
Ltac spu := rewrite spush_ok by room; cbn [bind].
Ltac fail_to H3 := (erewrite brk_ok; [| cbn [repad VMU.mk set_pc set_tp set_track set_stack set_caps track]; reflexivity | exact H3 | room | room]).

Lemma text_at_ok i : 0 <= i < tlen e -> text_at e i = Some (char_at e i).
Proof. intros H. unfold text_at. replace ((0 <=? i) && (i <? tlen e)) with true by lia. reflexivity. Qed.

(* ---------- zero-width tests ---------- *)
Lemma ustep_anchor an pc0 t np T S C M w2 w3 :
  code_at p pc0 = Some (anchor_code an) -> code_at p (pc0 + 1) = Some w2 ->
  code_at p (Z.abs np) = Some w3 -> 0 <= t <= tlen e ->
  ustep (mk pc0 0 t (np :: T) S C M) =
  Ok (Next (if anchor_ok e an t then mk (pc0 + 1) 0 t (np :: T) S C M else bk np t T S C M)).
Proof.
  intros H0 H2 H3 Ht.
  destruct an; start H0; cbn -[brk advance text_at tlen is_boundary].
  - (* Bol *)
    unfold anchor_ok. destruct (0 <? t) eqn:E.
    + rewrite text_at_ok by lia. replace (t <=? 0) with false by lia. cbn [orb].
      destruct (char_at e (t - 1) =? 10); cbn [negb].
      * adv (pc0 + 1) H2. fin.
      * fail_to H3; fin.
    + replace (t <=? 0) with true by lia. cbn [orb]. adv (pc0 + 1) H2. fin.
  - (* Eol *)
    unfold anchor_ok. destruct (0 <? tlen e - t) eqn:E.
    + rewrite text_at_ok by lia. replace (tlen e <=? t) with false by lia. cbn [orb].
      destruct (char_at e t =? 10); cbn [negb].
      * adv (pc0 + 1) H2. fin.
      * fail_to H3; fin.
    + replace (tlen e <=? t) with true by lia. cbn [orb]. adv (pc0 + 1) H2. fin.
  - (* Boundary *)
    unfold anchor_ok, vm_boundary. destruct (is_boundary e (is_word e) t).
    + adv (pc0 + 1) H2. fin.
    + fail_to H3; fin.
  - unfold anchor_ok, vm_boundary. destruct (is_boundary e (is_word e) t); cbn [negb].
    + fail_to H3; fin.
    + adv (pc0 + 1) H2. fin.
  - (* Beginning *)
    unfold anchor_ok. destruct (0 <? t) eqn:E.
    + replace (t <=? 0) with false by lia. fail_to H3; fin.
    + replace (t <=? 0) with true by lia. adv (pc0 + 1) H2. fin.
  - (* Start *)
    unfold anchor_ok. destruct (t =? tstart e); cbn [negb].
    + adv (pc0 + 1) H2. fin.
    + fail_to H3; fin.
  - (* EndZ *)
    unfold anchor_ok. destruct (1 <? tlen e - t) eqn:E1.
    + fail_to H3; fin.
    + destruct (endz_strict e).
      * destruct (0 <? tlen e - t) eqn:E2.
        -- replace (tlen e - t <=? 0) with false by lia. fail_to H3; fin.
        -- replace (tlen e - t <=? 0) with true by lia. adv (pc0 + 1) H2. fin.
      * destruct (tlen e - t =? 1) eqn:E2.
        -- rewrite text_at_ok by lia. cbn [andb]. destruct (char_at e t =? 10); cbn [negb].
           ++ adv (pc0 + 1) H2. fin.
           ++ fail_to H3; fin.
        -- cbn [andb negb]. adv (pc0 + 1) H2. fin.
  - (* End *)
    unfold anchor_ok. destruct (0 <? tlen e - t) eqn:E.
    + replace (tlen e <=? t) with false by lia. fail_to H3; fin.
    + replace (tlen e <=? t) with true by lia. adv (pc0 + 1) H2. fin.
  - unfold anchor_ok, vm_boundary. destruct (is_boundary e (is_eword e) t).
    + adv (pc0 + 1) H2. fin.
    + fail_to H3; fin.
  - unfold anchor_ok, vm_boundary. destruct (is_boundary e (is_eword e) t); cbn [negb].
    + fail_to H3; fin.
    + adv (pc0 + 1) H2. fin.
Qed.

(* ---------- single-character tests: One / Notone / Set, either direction ---------- *)
Lemma rtl_of_char_op k o : rtl_of (char_op k + bits_of o) = is_rtl o.
Proof. unfold rtl_of, bits_of. destruct (is_rtl o), (is_ci o), k; reflexivity. Qed.

Lemma ustep_char_ok k o c pc0 t T S C M w2 :
  code_at p pc0 = Some (char_op k + bits_of o) -> code_at p (pc0 + 1) = Some c ->
  code_at p (pc0 + 2) = Some w2 -> 0 <= t <= tlen e ->
  (0 <? avail e o t) && char_test e k c (next_char e o t) = true ->
  ustep (mk pc0 0 t T S C M) = Ok (Next (mk (pc0 + 2) 0 (t + dir o) T S C M)).
Proof.
  intros H0 H1 H2 Ht Hok.
  set (w := char_op k + bits_of o) in *.
  assert (Hw : Z.land w 63 = char_op k) by (apply cp_land_bits; destruct k; cbv; split; congruence).
  assert (Hr : rtl_of w = is_rtl o) by apply rtl_of_char_op.
  clearbody w. apply andb_prop in Hok. destruct Hok as [Ha Hc].
  unfold avail, next_char in *. unfold dir.
  start H0. rewrite Hw.
  destruct k; cbn -[opnd fwdchars fwdnext brk advance]; opn (pc0 + 1) H1; cbn [bind];
    unfold fwdchars, fwdnext; rewrite Hr; cbn [tp repad VMU.mk];
    destruct (is_rtl o).
  all: try (replace (t <? 1) with false by lia; replace ((1 <=? t) && (t <=? tlen e)) with true by lia).
  all: try (replace (tlen e - t <? 1) with false by lia; replace ((0 <=? t) && (t <? tlen e)) with true by lia).
  all: cbn [char_test] in Hc; rewrite Hc; adv (pc0 + 2) H2; fin.
Qed.

Lemma ustep_char_fail k o c pc0 t np T S C M w3 :
  code_at p pc0 = Some (char_op k + bits_of o) -> code_at p (pc0 + 1) = Some c ->
  code_at p (Z.abs np) = Some w3 -> 0 <= t <= tlen e ->
  (0 <? avail e o t) && char_test e k c (next_char e o t) = false ->
  ustep (mk pc0 0 t (np :: T) S C M) =
  Ok (Next (bk np (if 0 <? avail e o t then t + dir o else t) T S C M)).
Proof.
  intros H0 H1 H3 Ht Hok.
  set (w := char_op k + bits_of o) in *.
  assert (Hw : Z.land w 63 = char_op k) by (apply cp_land_bits; destruct k; cbv; split; congruence).
  assert (Hr : rtl_of w = is_rtl o) by apply rtl_of_char_op.
  clearbody w.
  unfold avail, next_char, dir in *.
  start H0. rewrite Hw.
  destruct k; cbn -[opnd fwdchars fwdnext brk advance]; opn (pc0 + 1) H1; cbn [bind];
    unfold fwdchars, fwdnext; rewrite Hr; cbn [tp repad VMU.mk];
    destruct (is_rtl o).
  all: cbn [char_test] in Hok.
  all: match goal with
       | |- context [ ?x <? 1 ] => destruct (x <? 1) eqn:E1
       end.
  all: try (replace (0 <? t) with false by lia).
  all: try (replace (0 <? tlen e - t) with false by lia).
  all: try (fail_to H3; fin).
  all: try (replace ((1 <=? t) && (t <=? tlen e)) with true by lia).
  all: try (replace ((0 <=? t) && (t <? tlen e)) with true by lia).
  all: try (replace (0 <? t) with true in * by lia).
  all: try (replace (0 <? tlen e - t) with true in * by lia).
  all: cbn [andb] in Hok; rewrite Hok; fail_to H3; fin.
Qed.

(* ---------- plain capture: Capturemark g (-1) ---------- *)
Lemma ustep_capturemark pc0 t x T S C M g arr w2 :
  code_at p pc0 = Some Capturemark -> code_at p (pc0 + 1) = Some g -> code_at p (pc0 + 2) = Some (-1) ->
  code_at p (pc0 + 3) = Some w2 -> znth M g = Some arr ->
  ustep (mk pc0 0 t T (x :: S) C M) =
  Ok (Next (mk (pc0 + 3) 0 t (pc0 :: x :: T) S (g :: C) (mc_set g (arr ++ [Z.min x t; Z.abs (t - x)]) M))).
Proof.
  intros H0 H1 H2 H3 Hg. start H0. change (Z.land Capturemark 63) with 32.
  cbn -[opnd do_capture tpush advance vm_is_matched].
  opn (pc0 + 1) H1. cbn [bind]. opn (pc0 + 2) H2. cbn -[opnd do_capture tpush advance vm_is_matched].
  unfold do_capture, add_match, mc_get. cbn [mcaps set_stack repad VMU.mk tp]. rewrite Hg.
  destruct (t <? x) eqn:E; cbn [bind]; tpu; adv (pc0 + 3) H3; fin.
  - replace (Z.min x t) with t by lia. replace (Z.abs (t - x)) with (x - t) by lia. reflexivity.
  - replace (Z.min x t) with x by lia. replace (Z.abs (t - x)) with (t - x) by lia. reflexivity.
Qed.

Lemma ustep_capturemark_back pc0 t x np T S g C M M1 w3 :
  code_at p pc0 = Some Capturemark -> code_at p (pc0 + 1) = Some g -> code_at p (pc0 + 2) = Some (-1) ->
  code_at p (Z.abs np) = Some w3 -> remove_match g M = Some M1 ->
  ustep (mk pc0 BackBit t (x :: np :: T) S (g :: C) M) = Ok (Next (bk np t T (x :: S) C M1)).
Proof.
  intros H0 H1 H2 H3 Hg. start H0. change (Z.land Capturemark 63) with 32.
  cbn -[opnd uncapture spush brk].
  opn (pc0 + 1) H1. cbn [bind]. opn (pc0 + 2) H2. cbn [bind]. spu.
  unfold uncapture. cbn [crawl mcaps set_stack set_track repad VMU.mk]. rewrite Hg. cbn [bind].
  replace (negb (g =? -1) && negb (-1 =? -1)) with false by (rewrite andb_comm; reflexivity).
  cbn [bind]. fail_to H3; fin.
Qed.

(* ---------- UpdateBumpalong: may overwrite the oldest word of the backtracking stack ---------- *)
Lemma ustep_bump pc0 t T r S C M w2 :
  code_at p pc0 = Some UpdateBumpalong -> code_at p (pc0 + 1) = Some w2 ->
  ustep (mk pc0 0 t (T ++ [r]) S C M) = Ok (Next (mk (pc0 + 1) 0 t (T ++ [if r <? t then t else r]) S C M)).
Proof.
  intros H0 H2. start H0. change (Z.land UpdateBumpalong 63) with 46.
  cbn -[rev advance zlen]. rewrite rev_app_distr. cbn [rev app].
  destruct (_ =? _); destruct (r <? t); try (rewrite rev_involutive); adv (pc0 + 1) H2; fin.
Qed.

End Ops2.

(* ================= the root slot =================
   [mkr ... T ...] is the family of states whose backtracking stack is T followed by one more
   (oldest) word r.  No opcode except UpdateBumpalong looks at that word. *)
Section Root.
Variable e : env.
Variable p : program.
Hypothesis tc_nonneg : 0 <= trackcount p.

Notation mk := VMU.mk.
Notation usteps := (VMU.usteps e p).

Definition mkr (pc0 m t : Z) (T S C : list Z) (M : list (list Z)) : Z -> vm :=
  fun r => mk pc0 m t (T ++ [r]) S C M.
Definition bkr (np t : Z) (T S C : list Z) (M : list (list Z)) : Z -> vm :=
  mkr (Z.abs np) (if np <? 0 then Back2Bit else BackBit) t T S C M.

Definition rsteps (f g : Z -> vm) : Prop := forall r, exists r', usteps (f r) (g r').

Lemma rsteps_refl f : rsteps f f.
Proof. intros r. exists r. apply usteps_refl. Qed.
Lemma rsteps_trans f g h : rsteps f g -> rsteps g h -> rsteps f h.
Proof.
  intros H1 H2 r. destruct (H1 r) as [r1 Hr1]. destruct (H2 r1) as [r2 Hr2]. exists r2.
  eapply usteps_trans; eassumption.
Qed.
Lemma rsteps_one f g : (forall r, VMU.ustep e p (f r) = Ok (Next (g r))) -> rsteps f g.
Proof. intros H r. exists r. apply usteps_one. apply H. Qed.
Lemma rsteps_one_ex f g : (forall r, exists r', VMU.ustep e p (f r) = Ok (Next (g r'))) -> rsteps f g.
Proof. intros H r. destruct (H r) as [r' Hr]. exists r'. apply usteps_one. exact Hr. Qed.
Lemma rsteps_step f g h : rsteps f g -> rsteps g h -> rsteps f h.
Proof. apply rsteps_trans. Qed.

Lemma code_at_nonneg a w : code_at p a = Some w -> 0 <= a.
Proof. unfold code_at, znth. destruct (a <? 0) eqn:E; [discriminate|lia]. Qed.

Lemma bkr_pos a t T S C M : 0 <= a -> bkr a t T S C M = mkr a BackBit t T S C M.
Proof. intros H. unfold bkr. replace (a <? 0) with false by lia. replace (Z.abs a) with a by lia. reflexivity. Qed.
Lemma bkr_neg a t T S C M : 0 < a -> bkr (- a) t T S C M = mkr a Back2Bit t T S C M.
Proof. intros H. unfold bkr. replace (- a <? 0) with true by lia. replace (Z.abs (- a)) with a by lia. reflexivity. Qed.

Ltac lift L := intros; apply rsteps_one; intro r; unfold bkr, mkr; cbn [app]; eapply L; eassumption.

Lemma rs_lazybranch pc0 t T S C M L w2 :
  code_at p pc0 = Some Lazybranch -> code_at p (pc0 + 1) = Some L -> code_at p (pc0 + 2) = Some w2 ->
  rsteps (mkr pc0 0 t T S C M) (mkr (pc0 + 2) 0 t (pc0 :: t :: T) S C M).
Proof. lift ustep_lazybranch. Qed.

Lemma rs_lazybranch_back pc0 t x T S C M L w2 :
  code_at p pc0 = Some Lazybranch -> code_at p (pc0 + 1) = Some L -> code_at p L = Some w2 ->
  rsteps (mkr pc0 BackBit t (x :: T) S C M) (mkr L 0 x T S C M).
Proof. lift ustep_lazybranch_back. Qed.

Lemma rs_goto pc0 t T S C M L w2 :
  code_at p pc0 = Some Goto -> code_at p (pc0 + 1) = Some L -> code_at p L = Some w2 ->
  rsteps (mkr pc0 0 t T S C M) (mkr L 0 t T S C M).
Proof. lift ustep_goto. Qed.

Lemma rs_setmark pc0 t T S C M w2 :
  code_at p pc0 = Some Setmark -> code_at p (pc0 + 1) = Some w2 ->
  rsteps (mkr pc0 0 t T S C M) (mkr (pc0 + 1) 0 t (pc0 :: T) (t :: S) C M).
Proof. lift ustep_setmark. Qed.

Lemma rs_nullmark pc0 t T S C M w2 :
  code_at p pc0 = Some Nullmark -> code_at p (pc0 + 1) = Some w2 ->
  rsteps (mkr pc0 0 t T S C M) (mkr (pc0 + 1) 0 t (pc0 :: T) (-1 :: S) C M).
Proof. lift ustep_nullmark. Qed.

Lemma rs_mark_back pc0 w t np T x S C M w3 :
  code_at p pc0 = Some w -> (w = Setmark \/ w = Nullmark) -> code_at p (Z.abs np) = Some w3 ->
  rsteps (mkr pc0 BackBit t (np :: T) (x :: S) C M) (bkr np t T S C M).
Proof. lift ustep_mark_back. Qed.

Lemma rs_nothing pc0 t np T S C M w3 :
  code_at p pc0 = Some Nothing -> code_at p (Z.abs np) = Some w3 ->
  rsteps (mkr pc0 0 t (np :: T) S C M) (bkr np t T S C M).
Proof. lift ustep_nothing. Qed.

Lemma rs_anchor an pc0 t np T S C M w2 w3 :
  code_at p pc0 = Some (anchor_code an) -> code_at p (pc0 + 1) = Some w2 ->
  code_at p (Z.abs np) = Some w3 -> 0 <= t <= tlen e ->
  rsteps (mkr pc0 0 t (np :: T) S C M)
         (if anchor_ok e an t then mkr (pc0 + 1) 0 t (np :: T) S C M else bkr np t T S C M).
Proof.
  intros. apply rsteps_one. intro r. unfold bkr, mkr. cbn [app].
  erewrite ustep_anchor by eassumption. destruct (anchor_ok e an t); reflexivity.
Qed.

Lemma rs_char_ok k o c pc0 t T S C M w2 :
  code_at p pc0 = Some (char_op k + bits_of o) -> code_at p (pc0 + 1) = Some c ->
  code_at p (pc0 + 2) = Some w2 -> 0 <= t <= tlen e ->
  (0 <? avail e o t) && char_test e k c (next_char e o t) = true ->
  rsteps (mkr pc0 0 t T S C M) (mkr (pc0 + 2) 0 (t + dir o) T S C M).
Proof. lift ustep_char_ok. Qed.

Lemma rs_char_fail k o c pc0 t np T S C M w3 :
  code_at p pc0 = Some (char_op k + bits_of o) -> code_at p (pc0 + 1) = Some c ->
  code_at p (Z.abs np) = Some w3 -> 0 <= t <= tlen e ->
  (0 <? avail e o t) && char_test e k c (next_char e o t) = false ->
  rsteps (mkr pc0 0 t (np :: T) S C M) (bkr np (if 0 <? avail e o t then t + dir o else t) T S C M).
Proof. lift ustep_char_fail. Qed.

Lemma rs_capturemark pc0 t x T S C M g arr w2 :
  code_at p pc0 = Some Capturemark -> code_at p (pc0 + 1) = Some g -> code_at p (pc0 + 2) = Some (-1) ->
  code_at p (pc0 + 3) = Some w2 -> znth M g = Some arr ->
  rsteps (mkr pc0 0 t T (x :: S) C M)
         (mkr (pc0 + 3) 0 t (pc0 :: x :: T) S (g :: C) (mc_set g (arr ++ [Z.min x t; Z.abs (t - x)]) M)).
Proof. lift ustep_capturemark. Qed.

Lemma rs_capturemark_back pc0 t x np T S g C M M1 w3 :
  code_at p pc0 = Some Capturemark -> code_at p (pc0 + 1) = Some g -> code_at p (pc0 + 2) = Some (-1) ->
  code_at p (Z.abs np) = Some w3 -> remove_match g M = Some M1 ->
  rsteps (mkr pc0 BackBit t (x :: np :: T) S (g :: C) M) (bkr np t T (x :: S) C M1).
Proof. lift ustep_capturemark_back. Qed.

Lemma rs_bump pc0 t T S C M w2 :
  code_at p pc0 = Some UpdateBumpalong -> code_at p (pc0 + 1) = Some w2 ->
  rsteps (mkr pc0 0 t T S C M) (mkr (pc0 + 1) 0 t T S C M).
Proof.
  intros H0 H2. apply rsteps_one_ex. intro r. exists (if r <? t then t else r). unfold mkr.
  eapply ustep_bump; eassumption.
Qed.

End Root.
