(* Proofs about Model/Parser.v, part 2: the node constructors and the mandatory reducers never fault
   on the nodes the parser hands them, and keep the shape invariant [good] that makes this so. *)
From Coq Require Import ZifyBool.
From Verif Require Import Base.Prelude Gen.ParseLitGen Model.Escape Model.ParseLit Model.GroupMap Model.CharClass
  Model.Parser Proofs.ParserScan.

(* ---------------------------------------------------------------- [res] values that are not a fault *)
Definition rnc {A} (r : res A) : Prop := match r with Crash _ => False | _ => True end.

Lemma bind_rnc {A B} (r : res A) (f : A -> res B) :
  rnc r -> (forall a, r = Ok a -> rnc (f a)) -> rnc (bind r f).
Proof. destruct r; cbn; auto. Qed.

Section CaseClosure.
Variable cat_in : Z -> Z -> bool.
Variable simple_fold : Z -> Z.
Variable to_lower : Z -> Z.

Lemma fold_orbit_rnc fuel : forall ch cur, rnc (fold_orbit simple_fold fuel ch cur).
Proof.
  induction fuel as [|f IH]; intros ch cur; cbn [fold_orbit]; [exact I|].
  destruct (simple_fold cur =? ch); [exact I|].
  apply bind_rnc; [apply IH | intros; exact I].
Qed.

Lemma equivalences_of_range_rnc fuel n : forall lo, rnc (equivalences_of_range simple_fold fuel lo n).
Proof.
  induction n as [|n IH]; intros lo; cbn [equivalences_of_range]; [exact I|].
  apply bind_rnc; [apply fold_orbit_rnc|]. intros e _.
  apply bind_rnc; [apply IH | intros; exact I].
Qed.

Lemma equivalences_of_ranges_rnc fuel rs : rnc (equivalences_of_ranges simple_fold fuel rs).
Proof.
  induction rs as [|[a b] rs IH]; cbn [equivalences_of_ranges]; [exact I|].
  apply bind_rnc; [apply equivalences_of_range_rnc|]. intros e _.
  apply bind_rnc; [apply IH | intros; exact I].
Qed.

Lemma add_case_equivalences_rnc fuel : forall c, rnc (add_case_equivalences cat_in simple_fold fuel c).
Proof.
  fix IH 1. intros [rs cs sb ng an asc]. cbn [add_case_equivalences].
  apply bind_rnc.
  - destruct sb as [s|]; [|exact I]. apply bind_rnc; [apply IH | intros; exact I].
  - intros sb' _. destruct an; [exact I|].
    apply bind_rnc; [apply equivalences_of_ranges_rnc | intros; exact I].
Qed.

Lemma scan_char_set_rnc fuel o : forall s, rnc (scan_char_set cat_in simple_fold to_lower fuel o s).
Proof.
  fix IH 1. intros [ng items sb]. cbn [scan_char_set].
  apply bind_rnc.
  - destruct sb as [s'|]; [|exact I]. apply bind_rnc; [apply IH | intros; exact I].
  - intros c _. apply bind_rnc; [|intros; exact I].
    destruct (o_ci o); [apply add_case_equivalences_rnc | exact I].
Qed.
End CaseClosure.

(* ---------------------------------------------------------------- the shape invariant *)
Definition unary_t (t : Z) : bool :=
  (t =? T_Capture) || (t =? T_Group) || (t =? T_PosLook) || (t =? T_NegLook) || (t =? T_Atomic) ||
  (t =? T_Loop) || (t =? T_Lazyloop) || (t =? T_ExprCond).

(* what the reducers index without a test: Children[0] of the one-child node kinds and of a conditional,
   Str[0] of a Multi, the Set of a set node *)
Definition shape_ok (t : Z) (str : list Z) (st : option cls) (kids : list rnode) : Prop :=
  (unary_t t = true -> kids <> []) /\ (t = T_Multi -> str <> []) /\ (is_set_family t = true -> st <> None).

Fixpoint good (x : rnode) : Prop :=
  let 'RN t _ _ _ _ str st kids := x in
  shape_ok t str st kids /\
  (fix all (l : list rnode) : Prop := match l with [] => True | k :: r => good k /\ all r end) kids.

Lemma good_all_Forall (l : list rnode) :
  (fix all (l : list rnode) : Prop := match l with [] => True | k :: r => good k /\ all r end) l <-> Forall good l.
Proof.
  induction l as [|k l IH]; [split; auto|].
  split.
  - intros [H1 H2]. constructor; [exact H1 | apply IH; exact H2].
  - intros H. inversion H; subst. split; [assumption | apply IH; assumption].
Qed.

Lemma good_eq t o ch m n str st kids :
  good (RN t o ch m n str st kids) <-> shape_ok t str st kids /\ Forall good kids.
Proof. cbn [good]. rewrite good_all_Forall. tauto. Qed.

Lemma good_kids x : good x -> Forall good (n_kids x).
Proof. destruct x. rewrite good_eq. cbn. tauto. Qed.

(* induction over nodes with the hypothesis on every child *)
Section RnodeInd.
  Variable P : rnode -> Prop.
  Hypothesis H : forall t o ch m n str st kids, Forall P kids -> P (RN t o ch m n str st kids).
  Fixpoint rnode_ind' (x : rnode) : P x :=
    match x with
    | RN t o ch m n str st kids =>
        H t o ch m n str st kids
          ((fix go (l : list rnode) : Forall P l :=
              match l with
              | [] => Forall_nil P
              | k :: r => Forall_cons k (rnode_ind' k) (go r)
              end) kids)
    end.
End RnodeInd.

Ltac tnum := unfold unary_t, is_set_family, is_one_family, is_notone_family, is_setloop_family, is_oneloop_family,
  is_notoneloop_family, is_atomicloop_family, is_cond_t,
  T_Oneloop, T_Notoneloop, T_Setloop, T_Onelazy, T_Notonelazy, T_Setlazy, T_One, T_Notone, T_Set, T_Multi, T_Ref,
  T_Bol, T_Eol, T_Beginning, T_EndZ, T_End, T_Nothing, T_Empty, T_Alternate, T_Concatenate, T_Loop, T_Lazyloop,
  T_Capture, T_Group, T_PosLook, T_NegLook, T_Atomic, T_BackRefCond, T_ExprCond, T_Oneloopatomic, T_Notoneloopatomic,
  T_Setloopatomic, NT_Boundary, NT_Nonboundary, NT_Beginning, NT_Start, NT_EndZ, NT_End, NT_ECMABoundary,
  NT_NonECMABoundary in *.

(* a node whose type asks for nothing *)
Lemma good_leaf t o ch m n str st :
  unary_t t = false -> t <> T_Multi -> is_set_family t = false -> good (RN t o ch m n str st []).
Proof.
  intros H1 H2 H3. apply good_eq. split; [|constructor].
  unfold shape_ok. repeat split; intros; congruence.
Qed.

Lemma good_mk_node t o : unary_t t = false -> t <> T_Multi -> is_set_family t = false -> good (mk_node t o).
Proof. apply good_leaf. Qed.

Lemma good_set_mn x m n : good x -> good (set_mn x m n).
Proof. destruct x. cbn [set_mn]. rewrite !good_eq. tauto. Qed.
Lemma good_set_o x o : good x -> good (set_o x o).
Proof. destruct x. cbn [set_o]. rewrite !good_eq. tauto. Qed.

(* the type of a node may move inside its family *)
Lemma good_retype t' t o ch m n str st kids o' ch' m' n' :
  good (RN t o ch m n str st kids) ->
  (unary_t t' = true -> unary_t t = true) -> (t' = T_Multi -> t = T_Multi) ->
  (is_set_family t' = true -> is_set_family t = true) ->
  good (RN t' o' ch' m' n' str st kids).
Proof.
  rewrite !good_eq. intros [[S1 [S2 S3]] K] H1 H2 H3. split; [|exact K].
  unfold shape_ok. repeat split; auto.
Qed.

Section Tree.
Variable is_word_char : Z -> bool.
Variable to_lower : Z -> Z.
Variable simple_fold : Z -> Z.
Variable participates : Z -> bool.
Variable cat_in : Z -> Z -> bool.
Variable cat_name : list Z -> Z.

Local Notation case_close := (case_close simple_fold cat_in).
Local Notation case_conv := (case_conv simple_fold cat_in).
Local Notation mk_node_ch := (mk_node_ch simple_fold cat_in).
Local Notation mk_node_set := (mk_node_set simple_fold cat_in).

(* ---------------------------------------------------------------- node constructors *)
Lemma case_close_safe c : match case_close c with POk _ | PO => True | _ => False end.
Proof.
  unfold Parser.case_close. destruct (pp_ci_span_limit <? cls_span c); [exact I|].
  pose proof (add_case_equivalences_rnc cat_in simple_fold pp_orbit_fuel c) as H.
  destruct (add_case_equivalences cat_in simple_fold pp_orbit_fuel c); cbn in *; auto.
Qed.

(* nodeWithCaseConversion keeps (or gives) a set to every set node and never makes a one-child kind *)
Definition leaf_like (x : rnode) : Prop :=
  unary_t (n_t x) = false /\ n_t x <> T_Multi /\ n_kids x = [] /\ (is_set_family (n_t x) = true -> n_set x <> None).

Lemma leaf_like_good x : leaf_like x -> good x.
Proof.
  destruct x as [t o ch m n str st kids]. intros [H1 [H2 [H3 H4]]]. cbn [n_t n_kids n_set] in H1, H2, H3, H4. subst kids.
  apply good_eq. split; [|constructor]. unfold shape_ok. repeat split; intros; try congruence. auto.
Qed.

Lemma case_conv_ok x : leaf_like x ->
  match case_conv x with POk y => leaf_like y | PO => True | PE _ _ | PC _ | PF => False end.
Proof.
  destruct x as [t o ch m n str st kids]. intros [H1 [H2 [H3 H4]]]. cbn in H1, H2, H3, H4. subst kids.
  unfold Parser.case_conv.
  destruct (negb (useI o)); [repeat split; auto|].
  destruct (0 <? ch).
  - destruct (negb (simple_fold ch =? ch)); [|repeat split; auto].
    pose proof (case_close_safe (add_char cat_in empty_cls ch)) as S.
    destruct (case_close (add_char cat_in empty_cls ch)); cbn [pbind] in *; try contradiction; auto.
    repeat split; cbn; try discriminate.
    + destruct ((t =? T_Oneloop) || (t =? T_Notoneloop)); [reflexivity|].
      destruct ((t =? T_Onelazy) || (t =? T_Notonelazy)); reflexivity.
    + destruct ((t =? T_Oneloop) || (t =? T_Notoneloop)); [discriminate|].
      destruct ((t =? T_Onelazy) || (t =? T_Notonelazy)); discriminate.
  - destruct st as [s|]; [|repeat split; auto].
    pose proof (case_close_safe s) as S.
    destruct (case_close s); cbn [pbind] in *; try contradiction; auto.
    repeat split; cbn; auto. discriminate.
Qed.

Lemma mk_node_ch_ok t o ch : unary_t t = false -> t <> T_Multi -> is_set_family t = false ->
  match mk_node_ch t o ch with POk y => good y | PO => True | PE _ _ | PC _ | PF => False end.
Proof.
  intros H1 H2 H3. unfold Parser.mk_node_ch.
  assert (L : leaf_like (RN t o ch 0 0 [] None [])) by (repeat split; cbn; auto; congruence).
  pose proof (case_conv_ok (RN t o ch 0 0 [] None []) L) as C.
  destruct (case_conv (RN t o ch 0 0 [] None [])); auto.
  apply leaf_like_good. exact C.
Qed.

Lemma mk_node_set_ok o s :
  match mk_node_set T_Set o s with POk y => good y | PO => True | PE _ _ | PC _ | PF => False end.
Proof.
  unfold Parser.mk_node_set.
  assert (L : leaf_like (RN T_Set o 0 0 0 [] (Some s) [])) by (repeat split; cbn; auto; discriminate).
  pose proof (case_conv_ok (RN T_Set o 0 0 0 [] (Some s) []) L) as C.
  destruct (case_conv (RN T_Set o 0 0 0 [] (Some s) [])); auto.
  apply leaf_like_good. exact C.
Qed.

(* ---------------------------------------------------------------- single reducers *)
Lemma make_rep_good x t m n :
  good x -> (n_t x = T_One \/ n_t x = T_Notone \/ n_t x = T_Set) -> (t = T_Oneloop \/ t = T_Onelazy) ->
  good (make_rep x t m n).
Proof.
  destruct x as [t0 o ch m0 n0 str st kids]. unfold make_rep. cbn [n_t set_t set_mn].
  intros G Ht0 Ht. eapply good_retype; [exact G| | |]; tnum; lia.
Qed.

Lemma repeat_rune_nonempty ch k : 1 <= k -> repeat_rune ch k <> [].
Proof.
  intros H. unfold repeat_rune. destruct (Z.to_nat k) eqn:E; [lia|]. cbn. discriminate.
Qed.

Lemma make_loop_atomic_good x : good x -> good (make_loop_atomic x).
Proof.
  destruct x as [t o ch m n str st kids]. intros G. unfold make_loop_atomic.
  destruct ((t =? T_Oneloop) || (t =? T_Notoneloop) || (t =? T_Setloop)) eqn:E1.
  { eapply good_retype; [exact G| | |]; tnum; lia. }
  destruct ((t =? T_Onelazy) || (t =? T_Notonelazy) || (t =? T_Setlazy)) eqn:E2; [|exact G].
  destruct (m =? 0).
  { apply good_eq in G. destruct G as [_ K]. apply good_eq. split; [|exact K].
    unfold shape_ok. repeat split; tnum; intros; try lia; discriminate. }
  destruct ((t + (T_Oneloopatomic - T_Onelazy) =? T_Oneloopatomic) && (2 <=? m) && (m <=? pp_multi_limit)) eqn:E3.
  { apply good_eq in G. destruct G as [_ K]. apply good_eq. split; [|exact K].
    unfold shape_ok. repeat split; tnum; intros; try lia. apply repeat_rune_nonempty. lia. }
  eapply good_retype; [exact G| | |]; tnum; lia.
Qed.

Lemma reduce_set_node_ok x : good x -> is_set_family (n_t x) = true ->
  exists y, reduce_set_node x = Ok y /\ good y.
Proof.
  destruct x as [t o ch m n str st kids]. cbn [n_t]. intros G Hs. unfold reduce_set_node.
  destruct st as [s|].
  2:{ eexists. split; [reflexivity|]. apply good_eq in G. destruct G as [_ K]. apply good_eq. split; [|exact K].
      unfold shape_ok. repeat split; tnum; intros; try lia; discriminate. }
  destruct (is_singleton s) eqn:E1.
  { unfold is_singleton, single_range in E1. unfold singleton_char.
    destruct (ranges s) as [|[a b] rs]; [rewrite !andb_false_r in E1; discriminate|].
    cbn [bind]. eexists. split; [reflexivity|].
    apply good_eq in G. destruct G as [_ K]. apply good_eq. split; [|exact K].
    unfold shape_ok. repeat split; tnum; intros; try lia; discriminate. }
  destruct (is_singleton_inverse s) eqn:E2.
  { unfold is_singleton_inverse, single_range in E2. unfold singleton_char.
    destruct (ranges s) as [|[a b] rs]; [rewrite !andb_false_r in E2; discriminate|].
    cbn [bind]. eexists. split; [reflexivity|].
    apply good_eq in G. destruct G as [_ K]. apply good_eq. split; [|exact K].
    unfold shape_ok. repeat split; tnum; intros; try lia; discriminate. }
  eexists. split; [reflexivity | exact G].
Qed.

Lemma replace_if_unnecessary_good x :
  Forall good (n_kids x) -> (n_t x = T_Alternate \/ n_t x = T_Concatenate) -> good (replace_if_unnecessary x).
Proof.
  destruct x as [t o ch m n str st kids]. cbn [n_kids n_t]. intros K Ht. unfold replace_if_unnecessary. cbn [n_kids n_t n_o].
  destruct kids as [|k [|k2 r]].
  - apply good_mk_node; destruct (t =? T_Alternate); tnum; lia.
  - inversion K; assumption.
  - apply good_eq. split; [|exact K]. unfold shape_ok. repeat split; tnum; intros; lia.
Qed.

Lemma reduce_group_ok : forall x, good x -> exists y, reduce_group x = Ok y /\ good y.
Proof.
  induction x as [t o ch m n str st kids IH] using rnode_ind'. intros G.
  cbn [reduce_group]. destruct (t =? T_Group) eqn:E; [|eexists; split; [reflexivity | exact G]].
  apply good_eq in G. destruct G as [[S1 _] K].
  destruct kids as [|k r]; [exfalso; apply S1; [tnum; lia | reflexivity]|].
  inversion IH; subst. inversion K; subst. auto.
Qed.

Lemma reduce_lookaround_ok x : good x -> (n_t x = T_PosLook \/ n_t x = T_NegLook) ->
  exists y, reduce_lookaround x = Ok y /\ good y.
Proof.
  destruct x as [t o ch m n str st kids]. cbn [n_t]. intros G Ht. unfold reduce_lookaround.
  pose proof G as G0. apply good_eq in G. destruct G as [[S1 _] K].
  destruct kids as [|k r]; [exfalso; apply S1; [tnum; lia | reflexivity]|].
  destruct (n_t k =? T_Empty); [|eexists; split; [reflexivity | exact G0]].
  eexists. split; [reflexivity|]. apply good_leaf; destruct (t =? T_PosLook); tnum; lia.
Qed.

Lemma reduce_atomic_ok : forall x, good x -> n_t x = T_Atomic -> exists y, reduce_atomic x = Ok y /\ good y.
Proof.
  induction x as [t o ch m n str st kids IH] using rnode_ind'. cbn [n_t]. intros G Ht.
  cbn [reduce_atomic]. pose proof G as G0. apply good_eq in G. destruct G as [[S1 _] K].
  destruct kids as [|k r]; [exfalso; apply S1; [tnum; lia | reflexivity]|].
  inversion IH; subst. inversion K; subst.
  destruct (n_t k =? T_Atomic) eqn:E1; [apply H1; [assumption | lia]|].
  destruct ((n_t k =? T_Empty) || (n_t k =? T_Nothing)); [eauto|].
  destruct (is_atomicloop_family (n_t k)); [eauto|].
  match goal with |- context [if ?b then _ else _] => destruct b end.
  - eexists. split; [reflexivity|]. apply make_loop_atomic_good. assumption.
  - eauto.
Qed.

(* ---------------------------------------------------------------- reduceAlternation *)
Lemma flat_alt_good : forall x, good x -> Forall good (flat_alt x).
Proof.
  induction x as [t o ch m n str st kids IH] using rnode_ind'. intros G. cbn [flat_alt].
  destruct (t =? T_Alternate); [|constructor; [exact G | constructor]].
  apply good_eq in G. destruct G as [_ K].
  induction kids as [|k r IHr]; [constructor|].
  inversion IH; subst. inversion K; subst. apply Forall_app. split; auto.
Qed.

Lemma flatten_alts_good l : Forall good l -> Forall good (flatten_alts l).
Proof.
  unfold flatten_alts. induction l as [|x l IH]; intros H; cbn [flat_map]; [constructor|].
  inversion H; subst. apply Forall_app. split; [apply flat_alt_good; assumption | auto].
Qed.

(* the previous node can take a merge whenever the flag says so *)
Definition sl_inv (s : sl_state) : Prop :=
  Forall good (sl_out s) /\
  (sl_was s = true -> exists prev out', sl_out s = prev :: out' /\
                       (n_t prev = T_One \/ (n_t prev = T_Set /\ n_set prev <> None))).

Local Notation sl_step := (sl_step cat_in).
Local Notation sl_run := (sl_run cat_in).

Lemma sl_step_ok s x : sl_inv s -> good x -> exists s', sl_step s x = Ok s' /\ sl_inv s'.
Proof.
  intros [Ho Hw] G. unfold Parser.sl_step.
  destruct ((n_t x =? T_Set) || (n_t x =? T_One)) eqn:E.
  2:{ destruct (n_t x =? T_Nothing); eexists; (split; [reflexivity|]); [split; assumption|].
      split; [cbn; constructor; assumption | cbn; discriminate]. }
  assert (Gs : n_t x = T_Set -> exists s1, n_set x = Some s1).
  { intros Ht. destruct x as [t o ch m n str st kids]. cbn [n_t n_set] in *. apply good_eq in G. destruct G as [[_ [_ S3]] _].
    destruct st; [eauto|]. exfalso. apply S3; [subst; reflexivity | reflexivity]. }
  (* keep x as a new item *)
  assert (KEEP : forall cannot oa, sl_inv (mkSL (x :: sl_out s) true cannot oa)).
  { intros cannot oa. split; cbn; [constructor; assumption|]. intros _. exists x, (sl_out s). split; [reflexivity|].
    destruct (n_t x =? T_Set) eqn:E2.
    - right. split; [lia|]. destruct (Gs ltac:(lia)) as [s1 Hs]. rewrite Hs. discriminate.
    - left. lia. }
  destruct (sl_was s) eqn:W.
  2:{ (* nothing to merge with *)
      destruct (n_t x =? T_Set) eqn:E2.
      - destruct (Gs ltac:(lia)) as [s1 Hs]. rewrite Hs. cbn [negb orb bind]. eexists. split; [reflexivity | apply KEEP].
      - cbn [negb orb bind]. eexists. split; [reflexivity | apply KEEP]. }
  destruct (Hw eq_refl) as [prev [out' [Eo Hp]]].
  (* the merge (1380-1406) *)
  assert (MERGE : exists s',
            (do pc <- (if n_t prev =? T_One then Ok (add_char cat_in empty_cls (n_ch prev))
                       else match n_set prev with Some c => Ok c | None => Crash 25 end) ;
             do pc' <- (if n_t x =? T_One then Ok (add_char cat_in pc (n_ch x))
                        else match n_set x with Some c => Ok (add_set cat_in pc c) | None => Crash 23 end) ;
             let 'RN _ po pch pm pn pstr _ pk := prev in
             Ok (mkSL (RN T_Set (clear_I po) pch pm pn pstr (Some pc') pk :: out') true (negb (is_mergeable pc')) (sl_opt s)))
            = Ok s' /\ sl_inv s').
  { assert (PC : exists pc, (if n_t prev =? T_One then Ok (add_char cat_in empty_cls (n_ch prev))
                      else match n_set prev with Some c => Ok c | None => Crash 25 end) = Ok pc).
    { destruct Hp as [Hp|[Hp1 Hp2]].
      - rewrite Hp. rewrite Z.eqb_refl. eauto.
      - destruct (n_t prev =? T_One); [eauto|]. destruct (n_set prev); [eauto | congruence]. }
    destruct PC as [pc Hpc]. rewrite Hpc. cbn [bind].
    assert (PC' : exists pc', (if n_t x =? T_One then Ok (add_char cat_in pc (n_ch x))
                       else match n_set x with Some c => Ok (add_set cat_in pc c) | None => Crash 23 end) = Ok pc').
    { destruct (n_t x =? T_One) eqn:E1; [eauto|]. destruct (Gs ltac:(lia)) as [s1 Hs]. rewrite Hs. eauto. }
    destruct PC' as [pc' Hpc']. rewrite Hpc'. cbn [bind].
    destruct prev as [pt po pch pm pn pstr pst pk]. eexists. split; [reflexivity|].
    rewrite Eo in Ho. inversion Ho as [|? ? Hg Hr]; subst.
    split; cbn.
    - constructor; [|assumption].
      apply good_eq in Hg. destruct Hg as [[S1 [S2 S3]] K].
      apply good_eq. split; [|exact K]. cbn in Hp. unfold shape_ok. repeat split; intros.
      + apply S1. tnum. lia.
      + tnum. lia.
      + discriminate.
    - intros _. eexists _, _. split; [reflexivity|]. right. cbn. split; [reflexivity | discriminate]. }
  destruct MERGE as [sm [Hm Im]].
  rewrite Eo. rewrite Eo in KEEP.
  destruct (n_t x =? T_Set) eqn:E2.
  - destruct (Gs ltac:(lia)) as [s1 Hs]. rewrite Hs in Hm |- *. cbn [negb orb].
    destruct (negb (sl_opt s =? li_mask (n_o x)) || sl_cannot s || negb (is_mergeable s1)); cbn [bind].
    + eexists. split; [reflexivity | apply KEEP].
    + exists sm. split; [exact Hm | exact Im].
  - cbn [negb orb].
    destruct (negb (sl_opt s =? li_mask (n_o x)) || sl_cannot s); cbn [bind].
    + eexists. split; [reflexivity | apply KEEP].
    + exists sm. split; [exact Hm | exact Im].
Qed.

Lemma sl_run_ok l : forall s, sl_inv s -> Forall good l -> exists s', sl_run s l = Ok s' /\ sl_inv s'.
Proof.
  induction l as [|x l IH]; intros s Hs Hl; cbn [Parser.sl_run]; [eauto|].
  inversion Hl; subst.
  destruct (sl_step_ok s x Hs) as [s1 [E1 I1]]; [assumption|]. rewrite E1. cbn [bind]. apply IH; assumption.
Qed.

Lemma drop_redundant_good l : forall seen, Forall good l -> Forall good (drop_redundant seen l).
Proof.
  induction l as [|x l IH]; intros seen H; cbn [drop_redundant]; [constructor|].
  inversion H; subst.
  destruct ((n_t x =? T_Nothing) || ((n_t x =? T_Empty) && seen)); [apply IH; assumption|].
  constructor; [assumption | apply IH; assumption].
Qed.

Lemma remove_redundant_good x : Forall good (n_kids x) -> n_t x = T_Alternate -> good (remove_redundant x).
Proof.
  intros K Ht. unfold remove_redundant. apply replace_if_unnecessary_good.
  - destruct x; cbn [set_kids n_kids] in *. apply drop_redundant_good. exact K.
  - destruct x; cbn [set_kids n_t] in *. left. exact Ht.
Qed.

Lemma reduce_alternation_ok x : Forall good (n_kids x) -> n_t x = T_Alternate ->
  exists y, reduce_alternation cat_in x = Ok y /\ good y.
Proof.
  intros K Ht. unfold reduce_alternation.
  destruct (n_kids x) as [|k [|k2 r]] eqn:Ek.
  - eexists. split; [reflexivity|]. apply good_mk_node; tnum; lia.
  - eexists. split; [reflexivity|]. inversion K; assumption.
  - destruct (sl_run_ok (flatten_alts (k :: k2 :: r)) (mkSL [] false false 0)) as [s' [E I]].
    + split; cbn; [constructor | discriminate].
    + apply flatten_alts_good. exact K.
    + rewrite E. cbn [bind]. destruct I as [Io _].
      set (x1 := set_kids x (rev (sl_out s'))).
      assert (K1 : Forall good (n_kids x1)) by (subst x1; destruct x; cbn; apply Forall_rev; exact Io).
      assert (T1 : n_t x1 = T_Alternate) by (subst x1; destruct x; cbn in *; exact Ht).
      pose proof (replace_if_unnecessary_good x1 K1 (or_introl T1)) as G1.
      destruct (n_t (replace_if_unnecessary x1) =? T_Alternate) eqn:E2; [|eauto].
      eexists. split; [reflexivity|]. apply remove_redundant_good; [apply good_kids; exact G1 | lia].
Qed.

(* ---------------------------------------------------------------- reduceConcatenation *)
Lemma skipn_nonempty (s : list Z) (k : Z) : 0 <= k < zlen s -> skipn (Z.to_nat k) s <> [].
Proof.
  unfold zlen. intros H E. apply (f_equal (@length Z)) in E. rewrite skipn_length in E. cbn in E. lia.
Qed.

Lemma count_prefix_le ch s : 0 <= count_prefix ch s <= zlen s.
Proof.
  unfold zlen. induction s as [|c s IH]; cbn [count_prefix length]; [lia|].
  destruct (c =? ch); lia.
Qed.

Lemma cl_combine_ok cur nx : good cur -> good nx ->
  exists r, cl_combine cur nx = Ok r /\
            match r with CL_merged c => good c | CL_keep c nx' => good c /\ good nx' end.
Proof.
  intros Gc Gn. destruct cur as [ct co cch cm cn cstr cset ckids]. destruct nx as [nt no nch nm nn nstr nset nkids].
  unfold cl_combine.
  assert (KEEP : exists r, Ok (CL_keep (RN ct co cch cm cn cstr cset ckids) (RN nt no nch nm nn nstr nset nkids)) = Ok r /\
            match r with CL_merged c => good c | CL_keep c nx' => good c /\ good nx' end) by (eexists; split; [reflexivity | split; assumption]).
  assert (RETY : forall t' m' n', (unary_t t' = true -> unary_t ct = true) -> (t' = T_Multi -> ct = T_Multi) ->
            (is_set_family t' = true -> is_set_family ct = true) -> good (RN t' co cch m' n' cstr cset ckids))
    by (intros; eapply good_retype; eauto).
  destruct (negb (co =? no)); [exact KEEP|].
  match goal with |- context [if ?b then _ else _] => destruct b eqn:EA end.
  { destruct ((0 <? nm) && is_atomicloop_family ct); [exact KEEP|].
    destruct (negb (can_combine cm cn nm nn)); [exact KEEP|].
    eexists. split; [reflexivity|]. apply RETY; auto. }
  match goal with |- context [if ?b then _ else _] => destruct b eqn:EB end.
  { destruct (can_combine cm cn 1 1); [|exact KEEP].
    eexists. split; [reflexivity|]. apply RETY; auto. }
  match goal with |- context [if ?b then _ else _] => destruct b eqn:EC end.
  { destruct nstr as [|c0 nstr'].
    - exfalso. apply good_eq in Gn. destruct Gn as [[_ [S2 _]] _]. apply S2; [tnum; lia | reflexivity].
    - destruct ((cch =? c0) && negb (useRTL co)); [|exact KEEP].
      destruct (can_combine cm cn (count_prefix cch (c0 :: nstr')) (count_prefix cch (c0 :: nstr'))); [|exact KEEP].
      pose proof (count_prefix_le cch (c0 :: nstr')) as CP.
      destruct (zlen (c0 :: nstr') =? count_prefix cch (c0 :: nstr')) eqn:EL.
      + eexists. split; [reflexivity|]. apply RETY; auto.
      + destruct (zlen (c0 :: nstr') - count_prefix cch (c0 :: nstr') =? 1).
        * eexists. split; [reflexivity|]. split; [apply RETY; auto|].
          apply good_eq in Gn. destruct Gn as [_ K]. apply good_eq. split; [|exact K].
          unfold shape_ok. repeat split; tnum; intros; try lia; discriminate.
        * eexists. split; [reflexivity|]. split; [apply RETY; auto|].
          apply good_eq in Gn. destruct Gn as [[S1 [S2 S3]] K]. apply good_eq. split; [|exact K].
          unfold shape_ok. repeat split; auto. intros _. apply skipn_nonempty. lia. }
  match goal with |- context [if ?b then _ else _] => destruct b eqn:ED end.
  { destruct (can_combine 1 1 nm nn); [|exact KEEP].
    eexists. split; [reflexivity|].
    apply good_eq in Gc. destruct Gc as [[S1 [S2 S3]] K]. apply good_eq. split; [|exact K].
    unfold shape_ok. repeat split; intros.
    - exfalso. tnum. lia.
    - exfalso. tnum. lia.
    - apply S3. tnum. lia. }
  match goal with |- context [if ?b then _ else _] => destruct b eqn:EE end.
  { eexists. split; [reflexivity|]. apply make_rep_good; [exact Gc | cbn [n_t]; tnum; lia | left; reflexivity]. }
  exact KEEP.
Qed.

Lemma cl_loop_ok l : forall cur, good cur -> Forall good l -> exists l', cl_loop cur l = Ok l' /\ Forall good l'.
Proof.
  induction l as [|nx l IH]; intros cur Gc Gl; cbn [cl_loop].
  - eexists. split; [reflexivity|]. constructor; [exact Gc | constructor].
  - inversion Gl; subst.
    destruct (cl_combine_ok cur nx Gc) as [r [E R]]; [assumption|]. rewrite E. cbn [bind].
    destruct r as [c|c nx'].
    + apply IH; assumption.
    + destruct R as [R1 R2]. destruct (IH nx' R2) as [t [Et Gt]]; [assumption|]. rewrite Et. cbn [bind].
      eexists. split; [reflexivity|]. constructor; assumption.
Qed.

Lemma flat_concat_good rtl : forall x, good x -> Forall good (flat_concat rtl x).
Proof.
  induction x as [t o ch m n str st kids IH] using rnode_ind'. intros G. cbn [flat_concat].
  destruct ((t =? T_Concatenate) && Bool.eqb (useRTL o) rtl); [|constructor; [exact G | constructor]].
  apply good_eq in G. destruct G as [_ K].
  induction kids as [|k r IHr]; [constructor|].
  inversion IH; subst. inversion K; subst. apply Forall_app. split; auto.
Qed.

Definition st_inv (s : st_state) : Prop :=
  Forall good (st_out s) /\ (st_was s = true -> st_out s <> []).

Lemma st_step_ok s x : st_inv s -> good x -> exists s', st_step s x = Ok s' /\ st_inv s'.
Proof.
  intros [Ho Hw] G. unfold st_step.
  destruct ((n_t x =? T_Multi) || (n_t x =? T_One)) eqn:E.
  2:{ destruct (n_t x =? T_Empty); eexists; (split; [reflexivity|]); [split; assumption|].
      split; cbn; [constructor; assumption | discriminate]. }
  destruct (negb (st_was s) || negb (st_opt s =? li_mask (n_o x))) eqn:E2.
  { eexists. split; [reflexivity|]. split; cbn; [constructor; assumption | discriminate]. }
  assert (W : st_was s = true) by (destruct (st_was s); [reflexivity | discriminate]).
  destruct (st_out s) as [|prev out'] eqn:Eo; [exfalso; apply (Hw W); reflexivity|].
  destruct prev as [pt po pch pm pn pstr pset pk].
  eexists. split; [reflexivity|]. inversion Ho as [|? ? Hg Hr]; subst.
  split; cbn; [|discriminate]. constructor; [|assumption].
  apply good_eq in Hg. destruct Hg as [[S1 [S2 S3]] K]. apply good_eq. split; [|exact K].
  unfold shape_ok. repeat split; intros; try (exfalso; tnum; lia).
  assert (NE : (if n_t x =? T_One then [n_ch x] else n_str x) <> []).
  { destruct (n_t x =? T_One) eqn:E1; [discriminate|].
    destruct x as [t o ch m n str st kids]. cbn [n_t n_str] in *. apply good_eq in G. destruct G as [[_ [G2 _]] _].
    apply G2. tnum. lia. }
  destruct (Z.land (li_mask (n_o x)) PL_RightToLeft =? 0).
  - intros EE. apply app_eq_nil in EE. tauto.
  - intros EE. apply app_eq_nil in EE. tauto.
Qed.

Lemma st_run_ok l : forall s, st_inv s -> Forall good l -> exists s', st_run s l = Ok s' /\ st_inv s'.
Proof.
  induction l as [|x l IH]; intros s Hs Hl; cbn [st_run]; [eauto|].
  inversion Hl; subst.
  destruct (st_step_ok s x Hs) as [s1 [E1 I1]]; [assumption|]. rewrite E1. cbn [bind]. apply IH; assumption.
Qed.

Lemma reduce_concatenation_ok x : Forall good (n_kids x) -> n_t x = T_Concatenate ->
  exists y, reduce_concatenation x = Ok y /\ good y.
Proof.
  intros K Ht. unfold reduce_concatenation.
  destruct (n_kids x) as [|k0 [|k1 r]] eqn:Ek.
  - eexists. split; [reflexivity|]. apply good_mk_node; tnum; lia.
  - eexists. split; [reflexivity|]. inversion K; assumption.
  - destruct (find (fun k => n_t k =? T_Nothing) (k0 :: k1 :: r)) as [kn|] eqn:Ef.
    { eexists. split; [reflexivity|]. apply find_some in Ef. destruct Ef as [Hin _].
      rewrite Forall_forall in K. apply K. exact Hin. }
    inversion K; subst.
    destruct (cl_loop_ok (k1 :: r) k0) as [l1 [E1 G1]]; [assumption | assumption |]. rewrite E1. cbn [bind].
    destruct (st_run_ok (flat_map (flat_concat (useRTL (n_o x))) l1) (mkST [] false 0)) as [s' [E2 [Io _]]].
    + split; cbn; [constructor | discriminate].
    + clear E1. induction l1 as [|a l1 IHl]; cbn [flat_map]; [constructor|].
      inversion G1; subst. apply Forall_app. split; [apply flat_concat_good; assumption | auto].
    + rewrite E2. cbn [bind]. eexists. split; [reflexivity|].
      apply replace_if_unnecessary_good.
      * destruct x; cbn. apply Forall_rev. exact Io.
      * destruct x; cbn in *. right. exact Ht.
Qed.

(* ---------------------------------------------------------------- reduceRep *)
Lemma rep_descend_good t mn mx : forall u um un, good u -> good (rep_descend t mn mx u um un).
Proof.
  induction u as [ut uo uch um0 un0 ustr uset ukids IH] using rnode_ind'. intros um un G.
  cbn [rep_descend].
  assert (H0 : good (RN ut uo uch um un ustr uset ukids)) by (eapply good_retype; [exact G| | |]; auto).
  destruct ukids as [|child r]; [exact H0|].
  match goal with |- context [if negb ?b then _ else _] => destruct b end; cbn [negb]; [|exact H0].
  match goal with |- context [if ?b then _ else _] => destruct b end; [exact H0|].
  inversion IH; subst. apply good_kids in G. cbn in G. inversion G; subst. auto.
Qed.

Lemma reduce_rep_good x : good x -> good (reduce_rep x).
Proof.
  intros G. destruct x as [t o ch m n str st kids]. unfold reduce_rep.
  set (u := rep_descend t m n (RN t o ch m n str st kids) m n).
  assert (Gu : good u) by (apply rep_descend_good; exact G).
  assert (GEN : good (if m =? pp_inf then mk_node T_Nothing o
    else match n_kids u with
         | [c] => if (n_t c =? T_One) || (n_t c =? T_Notone) || (n_t c =? T_Set)
                  then make_rep c (if n_t u =? T_Lazyloop then T_Onelazy else T_Oneloop) (n_m u) (n_n u)
                  else u
         | _ => u
         end)).
  { destruct (m =? pp_inf); [apply good_mk_node; tnum; lia|].
    pose proof (good_kids u Gu) as Ku.
    destruct (n_kids u) as [|c [|c2 r]]; try exact Gu.
    destruct ((n_t c =? T_One) || (n_t c =? T_Notone) || (n_t c =? T_Set)) eqn:E; [|exact Gu].
    inversion Ku; subst. apply make_rep_good; [assumption | lia |].
    destruct (n_t u =? T_Lazyloop); [right | left]; reflexivity. }
  destruct kids as [|k [|k2 r]]; try exact GEN.
  destruct (n_t k =? T_Empty); [|exact GEN].
  apply good_kids in G. cbn in G. inversion G; assumption.
Qed.

(* ---------------------------------------------------------------- reduce, addChild, makeQuantifier *)
Fixpoint height (x : rnode) : nat :=
  let 'RN _ _ _ _ _ _ _ kids := x in
  S ((fix mx (l : list rnode) : nat := match l with [] => O | k :: r => Nat.max (height k) (mx r) end) kids).

Lemma reduce_ok_h : forall h x, (height x <= h)%nat -> good x -> exists y, reduce cat_in x = Ok y /\ good y.
Proof.
  induction h as [|h IH]; intros x Hh G; [destruct x; cbn in Hh; lia|].
  destruct x as [t o ch m n str st kids].
  cbn [reduce].
  set (o1 := if t =? T_Ref then o else clear_I o).
  assert (G1 : good (RN t o1 ch m n str st kids)) by (eapply good_retype; [exact G| | |]; auto).
  pose proof (good_kids _ G1) as K1. cbn [n_kids] in K1.
  destruct (t =? T_Alternate) eqn:E1; [apply reduce_alternation_ok; [exact K1 | cbn; lia]|].
  destruct (t =? T_Atomic) eqn:E2; [apply reduce_atomic_ok; [exact G1 | cbn; lia]|].
  destruct (t =? T_Concatenate) eqn:E3; [apply reduce_concatenation_ok; [exact K1 | cbn; lia]|].
  destruct (t =? T_Group) eqn:E4; [apply reduce_group_ok; exact G1|].
  destruct ((t =? T_Loop) || (t =? T_Lazyloop)) eqn:E5; [eexists; split; [reflexivity | apply reduce_rep_good; exact G1]|].
  destruct ((t =? T_PosLook) || (t =? T_NegLook)) eqn:E6; [apply reduce_lookaround_ok; [exact G1 | cbn; lia]|].
  destruct (is_set_family t) eqn:E7; [apply reduce_set_node_ok; [exact G1 | exact E7]|].
  destruct (t =? T_ExprCond) eqn:E8.
  { destruct kids as [|cond r].
    { exfalso. apply good_eq in G1. destruct G1 as [[S1 _] _]. apply S1; [tnum; lia | reflexivity]. }
    destruct cond as [ct co cch cm cn cstr cst ckids].
    assert (K2 : Forall good (match RN ct co cch cm cn cstr cst ckids :: r with
                              | [_; _] => (RN ct co cch cm cn cstr cst ckids :: r) ++ [mk_node T_Empty o1]
                              | _ => RN ct co cch cm cn cstr cst ckids :: r
                              end)).
    { destruct r as [|b [|c r']]; try exact K1.
      apply Forall_app. split; [exact K1|]. constructor; [apply good_mk_node; tnum; lia | constructor]. }
    destruct ((ct =? T_PosLook) && negb (useRTL co)) eqn:EC.
    - destruct ckids as [|c cr].
      { exfalso. inversion K1 as [|? ? Hc _]; subst. apply good_eq in Hc. destruct Hc as [[C1 _] _].
        apply C1; [tnum; lia | reflexivity]. }
      assert (Gc : good c).
      { inversion K1 as [|? ? Hc _]; subst. apply good_kids in Hc. cbn in Hc. inversion Hc; assumption. }
      destruct (IH c) as [c' [Ec Gc']]; [cbn [height] in Hh |- *; lia | exact Gc |]. rewrite Ec. cbn [bind].
      eexists. split; [reflexivity|]. apply good_eq. split.
      + unfold shape_ok. repeat split; intros; try discriminate; exfalso; tnum; lia.
      + constructor; [exact Gc'|].
        destruct r as [|b [|c2 r']]; cbn [tl app] in *; inversion K2; assumption.
    - eexists. split; [reflexivity|]. apply good_eq. split; [|exact K2].
      unfold shape_ok. repeat split; intros; try (exfalso; tnum; lia).
      destruct r as [|b [|c2 r']]; discriminate. }
  destruct (t =? T_BackRefCond) eqn:E9; [|eauto].
  destruct kids as [|k [|k2 r]]; eauto.
  eexists. split; [reflexivity|]. apply good_eq. split.
  - unfold shape_ok. repeat split; intros; try discriminate; exfalso; tnum; lia.
  - constructor; [inversion K1; assumption|]. constructor; [apply good_mk_node; tnum; lia | constructor].
Qed.

Lemma reduce_ok x : good x -> exists y, reduce cat_in x = Ok y /\ good y.
Proof. apply (reduce_ok_h (height x)). lia. Qed.

Lemma add_child_ok parent child : Forall good (n_kids parent) -> good child ->
  exists p', add_child cat_in parent child = Ok p' /\ Forall good (n_kids p') /\ n_kids p' <> [] /\
             n_t p' = n_t parent /\ n_str p' = n_str parent /\ n_set p' = n_set parent /\
             (length (n_kids p') = S (length (n_kids parent))).
Proof.
  intros K G. unfold add_child. destruct (reduce_ok child G) as [r [E Gr]]. rewrite E. cbn [bind].
  eexists. split; [reflexivity|]. destruct parent as [t o ch m n str st kids]. cbn [set_kids n_kids n_t n_str n_set] in *.
  repeat split.
  - apply Forall_app. split; [exact K | constructor; [exact Gr | constructor]].
  - intros EE. apply app_eq_nil in EE. destruct EE; discriminate.
  - rewrite app_length. cbn. lia.
Qed.

Lemma make_quantifier_ok x lazy mn mx : good x -> 0 <= mn ->
  exists y, make_quantifier cat_in x lazy mn mx = Ok y /\ good y.
Proof.
  intros G Hmn. destruct x as [t o ch m n str st kids]. unfold make_quantifier.
  destruct ((mn =? 0) && (mx =? 0)) eqn:E1; [eexists; split; [reflexivity | apply good_mk_node; tnum; lia]|].
  destruct ((mn =? 1) && (mx =? 1)) eqn:E2; [eauto|].
  destruct ((mn =? mx) && (mx <=? pp_multi_limit) && (t =? T_One)) eqn:E3.
  { eexists. split; [reflexivity|]. apply good_eq in G. destruct G as [_ K]. apply good_eq. split; [|exact K].
    unfold shape_ok. repeat split; intros; try (exfalso; tnum; lia). apply repeat_rune_nonempty. lia. }
  destruct ((t =? T_One) || (t =? T_Notone) || (t =? T_Set)) eqn:E4.
  { eexists. split; [reflexivity|]. apply make_rep_good; [exact G | cbn [n_t]; lia | destruct lazy; [right | left]; reflexivity]. }
  destruct (add_child_ok (mk_node_mn (if lazy then T_Lazyloop else T_Loop) o mn mx) (RN t o ch m n str st kids)) as [p' [E [K [NE [Ht [Hs [Hst _]]]]]]].
  - cbn. constructor.
  - exact G.
  - exists p'. split; [exact E|].
    destruct p' as [pt po pch pm pn pstr pst pk]. cbn [n_kids n_t n_str n_set mk_node_mn] in *. apply good_eq. split; [|exact K].
    unfold shape_ok. repeat split; intros; try assumption.
    + exfalso. destruct lazy; tnum; lia.
    + exfalso. destruct lazy; tnum; lia.
Qed.

Lemma reverse_left_kids_good x : Forall good (n_kids x) -> Forall good (n_kids (reverse_left x)).
Proof.
  intros K. unfold reverse_left. destruct (useRTL (n_o x) && (n_t x =? T_Concatenate)); [|exact K].
  destruct x; cbn in *. apply Forall_rev. exact K.
Qed.

Lemma reverse_left_good x : Forall good (n_kids x) -> n_t x = T_Concatenate -> good (reverse_left x).
Proof.
  intros K Ht. pose proof (reverse_left_kids_good x K) as K'.
  assert (Ht' : n_t (reverse_left x) = T_Concatenate).
  { unfold reverse_left. destruct (useRTL (n_o x) && (n_t x =? T_Concatenate)); [|exact Ht]. destruct x; cbn in *; exact Ht. }
  destruct (reverse_left x) as [t o ch m n str st kids]. cbn [n_kids n_t] in *. apply good_eq. split; [|exact K'].
  unfold shape_ok. repeat split; intros; exfalso; tnum; lia.
Qed.

End Tree.
