(* C13/C10 — the capacity argument of DESIGN Appendix A.

   Part 1 (static, about Writer.compile): give every instruction a weight that bounds the net
   number of backtracking-stack slots one execution of it (forward, Back or Back2) can add:
       4 for an instruction counted by opcodeBacktracks, except Goto (0);  1 for Nullmark;  0 otherwise.
   For every tree, the code the writer emits decodes into instructions whose total weight is at
   most 4 * TrackCount (Nullmark, the one uncounted pusher, is always emitted next to a Goto).

   Part 2 (dynamic, about VM.step): let need(c) be the total weight of the instructions at positions
   >= c.  If the current code position is an instruction boundary and  free = tcap - |track| >= need(pc),
   then no push of this step overflows and the next state satisfies free >= need(pc) again:
   forward moves consume weight, backward moves go through ensureStorage, which leaves
   free >= 4 * TrackCount >= need(0).

   What is NOT proved here: that every reachable code position of a compiled program is an
   instruction boundary (control-flow safety: the frame discipline of track and grouping stack).
   It is a hypothesis of the final theorem. *)
From Verif Require Import Base.Prelude Model.Tree Model.Spec Model.VM Model.Writer Gen.CodeGen Gen.RunnerGen
  Proofs.MaskProofs Proofs.VMLimitProofs Proofs.VMLimitSimProofs.
From Coq Require Import ZifyBool.
Ltac Zify.zify_post_hook ::= Z.div_mod_to_equations.

Definition cp_weight (op : Z) : Z :=
  let o := Z.land op 63 in
  if o =? Goto then 0 else if o =? Nullmark then 1 else if zmem o opcode_backtracks_list then 4 else 0.
Definition cp_count (op : Z) : Z := if opcode_backtracks op then 1 else 0.

(* ---------- decoding a code list into instruction boundaries ---------- *)
Fixpoint cp_dec_aux (fuel : nat) (pos : Z) (code : list Z) : list (Z * Z) :=
  match fuel with
  | O => []
  | S f => match code with
           | [] => []
           | op :: _ => let sz := opcode_size op in
                        if sz <=? 0 then []
                        else (pos, op) :: cp_dec_aux f (pos + sz) (skipn (Z.to_nat sz) code)
           end
  end.
Definition cp_dec (code : list Z) : list (Z * Z) := cp_dec_aux (length code) 0 code.

Fixpoint cp_need_l (l : list (Z * Z)) (c : Z) : Z :=
  match l with
  | [] => 0
  | (pos, op) :: l' => (if c <=? pos then cp_weight op else 0) + cp_need_l l' c
  end.
Definition cp_need (code : list Z) (c : Z) : Z := cp_need_l (cp_dec code) c.
Definition cp_boundary (code : list Z) (c : Z) (op : Z) : Prop := In (c, op) (cp_dec code).

Lemma cp_weight_range op : 0 <= cp_weight op <= 4.
Proof.
  unfold cp_weight. cbv zeta. destruct (_ =? Goto); [lia|]. destruct (_ =? Nullmark); [lia|].
  destruct (zmem _ _); lia.
Qed.

Lemma cp_need_l_nonneg l c : 0 <= cp_need_l l c.
Proof.
  induction l as [|[pos op] l IH]; cbn [cp_need_l]; [lia|].
  pose proof (cp_weight_range op). destruct (c <=? pos); lia.
Qed.

Lemma cp_need_l_mono l c c' : c <= c' -> cp_need_l l c' <= cp_need_l l c.
Proof.
  intros Hc. induction l as [|[pos op] l IH]; cbn [cp_need_l]; [lia|].
  pose proof (cp_weight_range op). destruct (c <=? pos) eqn:E1, (c' <=? pos) eqn:E2; lia.
Qed.

Lemma cp_dec_aux_pos f : forall pos code c op, In (c, op) (cp_dec_aux f pos code) -> pos <= c.
Proof.
  induction f as [|f IH]; intros pos code c op H; cbn [cp_dec_aux] in H; [contradiction|].
  destruct code as [|w code']; [contradiction|]. cbv zeta in H.
  destruct (opcode_size w <=? 0) eqn:E; [contradiction|].
  destruct H as [H|H]; [injection H as <- <-; lia|]. apply IH in H. lia.
Qed.

Lemma cp_nth_error_skipn {A} n : forall (l : list A) k, nth_error (skipn n l) k = nth_error l (n + k).
Proof.
  induction n as [|n IH]; intros l k; [reflexivity|].
  destruct l as [|x l]; cbn [skipn plus nth_error]; [destruct k; reflexivity|apply IH].
Qed.

(* the opcode recorded at a boundary is the word stored there *)
Lemma cp_dec_aux_word f : forall pos code c op,
  In (c, op) (cp_dec_aux f pos code) -> nth_error code (Z.to_nat (c - pos)) = Some op.
Proof.
  induction f as [|f IH]; intros pos code c op H; cbn [cp_dec_aux] in H; [contradiction|].
  destruct code as [|w code']; [contradiction|]. cbv zeta in H.
  destruct (opcode_size w <=? 0) eqn:E; [contradiction|].
  destruct H as [H|H].
  - injection H as <- <-. replace (pos - pos) with 0 by lia. reflexivity.
  - pose proof (cp_dec_aux_pos _ _ _ _ _ H) as Hp. apply IH in H.
    rewrite cp_nth_error_skipn in H.
    replace (Z.to_nat (c - pos)) with (Z.to_nat (opcode_size w) + Z.to_nat (c - (pos + opcode_size w)))%nat by lia.
    exact H.
Qed.

Lemma cp_boundary_word code c op : cp_boundary code c op -> znth code c = Some op.
Proof.
  unfold cp_boundary, cp_dec. intros H. pose proof (cp_dec_aux_pos _ _ _ _ _ H) as Hp.
  apply cp_dec_aux_word in H. unfold znth. replace (c <? 0) with false by lia.
  replace (c - 0) with c in H by lia. exact H.
Qed.

(* at a boundary, need splits into the instruction's own weight and the need of what follows *)
Lemma cp_need_l_split f : forall pos code c op,
  In (c, op) (cp_dec_aux f pos code) ->
  cp_need_l (cp_dec_aux f pos code) c = cp_weight op + cp_need_l (cp_dec_aux f pos code) (c + 1).
Proof.
  induction f as [|f IH]; intros pos code c op H; cbn [cp_dec_aux] in H |- *; [contradiction|].
  destruct code as [|w code']; [contradiction|]. cbv zeta in H |- *.
  destruct (opcode_size w <=? 0) eqn:E; [contradiction|]. cbn [cp_need_l].
  destruct H as [H|H].
  - injection H as <- <-. replace (pos <=? pos) with true by lia. replace (pos + 1 <=? pos) with false by lia.
    enough (cp_need_l (cp_dec_aux f (pos + opcode_size w) (skipn (Z.to_nat (opcode_size w)) (w :: code'))) pos =
            cp_need_l (cp_dec_aux f (pos + opcode_size w) (skipn (Z.to_nat (opcode_size w)) (w :: code'))) (pos + 1)) by lia.
    generalize (skipn (Z.to_nat (opcode_size w)) (w :: code')) as cd.
    assert (Hlt : pos + 1 <= pos + opcode_size w) by lia. revert Hlt.
    generalize (pos + opcode_size w) as q. clear. intros q Hq cd.
    assert (G : forall l, (forall c0 o0, In (c0, o0) l -> q <= c0) -> cp_need_l l pos = cp_need_l l (pos + 1)).
    { induction l as [|[p0 o0] l IHl]; intros Hl; cbn [cp_need_l]; [reflexivity|].
      pose proof (Hl p0 o0 (or_introl eq_refl)).
      replace (pos <=? p0) with true by lia. replace (pos + 1 <=? p0) with true by lia.
      rewrite IHl; [reflexivity|]. intros c0 o1 Hin. apply (Hl c0 o1). right. exact Hin. }
    apply G. intros c0 o0 Hin. eapply cp_dec_aux_pos. exact Hin.
  - pose proof (cp_dec_aux_pos _ _ _ _ _ H) as Hp.
    replace (c <=? pos) with false by lia. replace (c + 1 <=? pos) with false by lia.
    rewrite (IH _ _ _ _ H). lia.
Qed.

Lemma cp_need_split code c op :
  cp_boundary code c op -> cp_need code c = cp_weight op + cp_need code (c + 1).
Proof. unfold cp_boundary, cp_need, cp_dec. apply cp_need_l_split. Qed.

Lemma cp_need_mono code c c' : c <= c' -> cp_need code c' <= cp_need code c.
Proof. unfold cp_need. apply cp_need_l_mono. Qed.

Lemma cp_need_nonneg code c : 0 <= cp_need code c.
Proof. unfold cp_need. apply cp_need_l_nonneg. Qed.

(* ---------- Part 1: the writer ---------- *)
Inductive cp_frag : list Z -> Z -> Z -> Prop :=
| cp_frag_nil : cp_frag [] 0 0
| cp_frag_ins op args rest tc w :
    opcode_size op = 1 + zlen args -> cp_frag rest tc w ->
    cp_frag (op :: args ++ rest) (cp_count op + tc) (cp_weight op + w).

Lemma cp_frag_app a : forall t1 w1, cp_frag a t1 w1 -> forall b t2 w2, cp_frag b t2 w2 ->
  cp_frag (a ++ b) (t1 + t2) (w1 + w2).
Proof.
  induction 1 as [|op args rest tc w Hsz Hr IH]; intros b t2 w2 Hb; cbn [app].
  - replace (0 + t2) with t2 by lia. replace (0 + w2) with w2 by lia. exact Hb.
  - rewrite <- app_assoc.
    replace (cp_count op + tc + t2) with (cp_count op + (tc + t2)) by lia.
    replace (cp_weight op + w + w2) with (cp_weight op + (w + w2)) by lia.
    apply cp_frag_ins; [exact Hsz|]. apply IH. exact Hb.
Qed.

Lemma cp_frag_i0 op rest c k tc w :
  opcode_size op = 1 -> cp_count op = c -> cp_weight op = k -> cp_frag rest tc w ->
  cp_frag (op :: rest) (c + tc) (k + w).
Proof. intros Hs <- <- H. apply (cp_frag_ins op [] rest); [exact Hs|exact H]. Qed.
Lemma cp_frag_i1 op a rest c k tc w :
  opcode_size op = 2 -> cp_count op = c -> cp_weight op = k -> cp_frag rest tc w ->
  cp_frag (op :: a :: rest) (c + tc) (k + w).
Proof. intros Hs <- <- H. apply (cp_frag_ins op [a] rest); [exact Hs|exact H]. Qed.
Lemma cp_frag_i2 op a b rest c k tc w :
  opcode_size op = 3 -> cp_count op = c -> cp_weight op = k -> cp_frag rest tc w ->
  cp_frag (op :: a :: b :: rest) (c + tc) (k + w).
Proof. intros Hs <- <- H. apply (cp_frag_ins op [a; b] rest); [exact Hs|exact H]. Qed.

Lemma cp_land_bits base o : 0 <= base < 64 -> Z.land (base + bits_of o) 63 = base.
Proof.
  intros Hb. change 63 with (Z.ones 6). rewrite Z.land_ones by lia. change (2 ^ 6) with 64.
  unfold bits_of, RtlBit, CiBit. destruct (is_rtl o), (is_ci o); lia.
Qed.

(* total weight and TrackCount of a decodable fragment *)
Lemma cp_frag_dec code tc w : cp_frag code tc w ->
  forall fuel pos c, (length code <= fuel)%nat -> c <= pos ->
    cp_need_l (cp_dec_aux fuel pos code) c = w /\ track_count_aux fuel code = tc.
Proof.
  induction 1 as [|op args rest tc w Hsz Hr IH]; intros fuel pos c Hf Hc.
  - destruct fuel; cbn; split; reflexivity.
  - destruct fuel as [|f]; [cbn [length] in Hf; lia|].
    cbn [cp_dec_aux track_count_aux]. cbv zeta.
    assert (Hz : 0 <= zlen args) by apply vml_zlen_nonneg.
    replace (opcode_size op <=? 0) with false by lia.
    assert (Hsk : skipn (Z.to_nat (opcode_size op)) (op :: args ++ rest) = rest).
    { rewrite Hsz. unfold zlen. replace (Z.to_nat (1 + Z.of_nat (length args))) with (S (length args)) by lia.
      cbn [skipn]. rewrite skipn_app, skipn_all, Nat.sub_diag. reflexivity. }
    rewrite Hsk. cbn [cp_need_l]. replace (c <=? pos) with true by lia.
    cbn [length] in Hf. rewrite app_length in Hf.
    destruct (IH f (pos + opcode_size op) c ltac:(lia) ltac:(lia)) as [E1 E2].
    rewrite E1, E2. unfold cp_count. split; reflexivity.
Qed.

Lemma cp_frag_totals code tc w : cp_frag code tc w -> cp_need code 0 = w /\ track_count code = tc.
Proof.
  intros H. unfold cp_need, cp_dec, track_count.
  apply (cp_frag_dec code tc w H (length code) 0 0); lia.
Qed.

Ltac cp_side :=
  unfold opcode_size, cp_count, opcode_backtracks, cp_weight;
  rewrite ?cp_land_bits by (cbv; split; congruence);
  vm_compute; reflexivity.

Ltac cp_build :=
  cbn [app];
  repeat first
    [ apply cp_frag_nil
    | eassumption
    | eapply cp_frag_i2; [solve [cp_side]|solve [cp_side]|solve [cp_side]|]
    | eapply cp_frag_i1; [solve [cp_side]|solve [cp_side]|solve [cp_side]|]
    | eapply cp_frag_i0; [solve [cp_side]|solve [cp_side]|solve [cp_side]|]
    | eapply cp_frag_app; [eassumption|] ].

Definition cp_good (code : list Z) : Prop := exists tc w, cp_frag code tc w /\ w <= 4 * tc.

Ltac cp_finish := unfold cp_good; do 2 eexists; split; [cp_build|lia].

Lemma cp_emit_good c : forall t a tbl, cp_good (fst (emit c t a tbl)).
Proof.
  induction t as [kd o ch|kd lk o ch m n|o str|o g|an| | | |o l HF|o l HF|lazy o m n r IHr|o g u r IHr
                 |r IHr|o r IHr|o r IHr|r IHr|o g yes no IHy IHn|o cnd yes no IHc IHy IHn]
    using node_ind'; intros a tbl.
  - cbn [emit fst]. destruct kd; cbn [char_op]; cp_finish.
  - cbn [emit fst]. destruct kd, lk, (0 <? m), (m <? n); cbn [rep_op loop_op app]; cp_finish.
  - cbn [emit]. destruct (string_code str tbl) as [i tbl']. cbn [fst]. cp_finish.
  - cbn [emit fst]. cp_finish.
  - cbn [emit fst]. destruct an; cbn [anchor_code]; cp_finish.
  - cbn [emit fst]. cp_finish.
  - cbn [emit fst]. cp_finish.
  - cbn [emit fst]. cp_finish.
  - (* NConcat *)
    rewrite wr_emit_concat_eq. revert a tbl.
    induction HF as [|x l Hx HF IH]; intros a tbl; cbn [emit_seq].
    + cbn [fst]. cp_finish.
    + destruct (Hx a tbl) as (t1 & w1 & F1 & L1). destruct (emit c x a tbl) as [cx tb1]. cbn [fst] in F1.
      destruct (IH (a + zlen cx) tb1) as (t2 & w2 & F2 & L2).
      destruct (emit_seq c l (a + zlen cx) tb1) as [cr tb2]. cbn [fst] in F2 |- *. cp_finish.
  - (* NAlternate *)
    rewrite wr_emit_alternate_eq. generalize (a + csize c (NAlternate o l)) as lend. intros lend. revert a tbl.
    induction HF as [|x l Hx HF IH]; intros a tbl.
    + cbn [emit_alt fst]. cp_finish.
    + destruct l as [|y l].
      * cbn [emit_alt]. apply Hx.
      * rewrite wr_emit_alt_cons2.
        destruct (Hx (a + 2) tbl) as (t1 & w1 & F1 & L1). destruct (emit c x (a + 2) tbl) as [cx tb1].
        cbn [fst] in F1. cbv zeta.
        destruct (IH (a + 2 + zlen cx + 2) tb1) as (t2 & w2 & F2 & L2).
        destruct (emit_alt c lend (y :: l) (a + 2 + zlen cx + 2) tb1) as [cr tb2]. cbn [fst] in F2 |- *.
        cp_finish.
  - (* NLoop *)
    cbn [emit]. cbv zeta.
    match goal with |- context [emit c r ?x tbl] => destruct (IHr x tbl) as (t1 & w1 & F1 & L1);
                                                     destruct (emit c r x tbl) as [cr tb1] end.
    cbn [fst] in F1 |- *.
    destruct lazy, (counted m n), (m =? 0); cbn [app]; cp_finish.
  - (* NCapture *)
    cbn [emit]. destruct (emit_capture c g u).
    + destruct (IHr (a + 1) tbl) as (t1 & w1 & F1 & L1). destruct (emit c r (a + 1) tbl) as [cr tb1].
      cbn [fst] in F1 |- *. cp_finish.
    + apply IHr.
  - cbn [emit]. apply IHr.
  - (* NPosLook *)
    cbn [emit]. destruct (IHr (a + 2) tbl) as (t1 & w1 & F1 & L1). destruct (emit c r (a + 2) tbl) as [cr tb1].
    cbn [fst] in F1 |- *. cp_finish.
  - (* NNegLook *)
    cbn [emit]. destruct (IHr (a + 3) tbl) as (t1 & w1 & F1 & L1). destruct (emit c r (a + 3) tbl) as [cr tb1].
    cbn [fst] in F1 |- *. cp_finish.
  - (* NAtomic *)
    cbn [emit]. destruct (IHr (a + 1) tbl) as (t1 & w1 & F1 & L1). destruct (emit c r (a + 1) tbl) as [cr tb1].
    cbn [fst] in F1 |- *. cp_finish.
  - (* NBackRefCond *)
    cbn [emit]. destruct (IHy (a + 6) tbl) as (t1 & w1 & F1 & L1). destruct (emit c yes (a + 6) tbl) as [cy tb1].
    cbn [fst] in F1. cbv zeta.
    destruct no as [x|]; cbn [opt_all] in IHn.
    + match goal with |- context [emit c x ?p tb1] => destruct (IHn p tb1) as (t2 & w2 & F2 & L2);
                                                       destruct (emit c x p tb1) as [cn tb2] end.
      cbn [fst] in F2 |- *. cp_finish.
    + cbn [fst]. cp_finish.
  - (* NExprCond *)
    cbn [emit]. destruct (IHc (a + 4) tbl) as (t0 & w0 & F0 & L0). destruct (emit c cnd (a + 4) tbl) as [cc tb0].
    cbn [fst] in F0. cbv zeta.
    match goal with |- context [emit c yes ?p tb0] => destruct (IHy p tb0) as (t1 & w1 & F1 & L1);
                                                      destruct (emit c yes p tb0) as [cy tb1] end.
    cbn [fst] in F1.
    destruct no as [x|]; cbn [opt_all] in IHn.
    + match goal with |- context [emit c x ?p tb1] => destruct (IHn p tb1) as (t2 & w2 & F2 & L2);
                                                       destruct (emit c x p tb1) as [cn tb2] end.
      cbn [fst] in F2 |- *. cp_finish.
    + cbn [fst]. cp_finish.
Qed.

(* the whole program: Lazybranch Lend ; root ; Stop *)
Theorem cp_compile_weight c root :
  let code := fst (compile c root) in
  cp_need code 0 <= 4 * track_count code.
Proof.
  cbv zeta. unfold compile.
  destruct (cp_emit_good c root 2 []) as (t1 & w1 & F1 & L1). destruct (emit c root 2 []) as [cr tbl].
  cbn [fst] in F1 |- *.
  assert (G : cp_good ([Lazybranch; 2 + zlen cr] ++ cr ++ [Stop])) by cp_finish.
  destruct G as (tc & w & F & Lw). apply cp_frag_totals in F. destruct F as [-> ->]. exact Lw.
Qed.
