(* C13/C10 — the capacity argument of DESIGN Appendix A.

   Part 1 (static, about Writer.compile): give every instruction a weight that bounds the net
   number of backtracking-stack slots one execution of it (forward, Back or Back2) can add:
       4 for an instruction counted by opcodeBacktracks, except Goto (0);  1 for Nullmark;  0 otherwise.
   For every tree, the code the writer emits decodes into instructions whose total weight is at
   most 4 * TrackCount (Nullmark, the one uncounted pusher, is always emitted next to a Goto).

   Part 2 (dynamic, about VM.step): let need(c) be the total weight of the instructions at positions
   >= c.  If the current code position is an instruction boundary and  free = tcap - |track| >= need(pc),
   then no push of this step overflows and the next state satisfies free >= need(pc) again:
   forward moves consume weight, backward moves go through ensureStorage, which leaves
   free >= 4 * TrackCount >= need(0).

   What is NOT proved here: that every reachable code position of a compiled program is an
   instruction boundary (control-flow safety: the frame discipline of track and grouping stack).
   It is a hypothesis of the final theorem. *)
From Verif Require Import Base.Prelude Model.Tree Model.Spec Model.VM Model.Writer Gen.CodeGen Gen.RunnerGen
  Proofs.MaskProofs Proofs.VMLimitProofs Proofs.VMLimitSimProofs.
From Coq Require Import ZifyBool.
Ltac Zify.zify_post_hook ::= Z.div_mod_to_equations.

Definition cp_weight (op : Z) : Z :=
  let o := Z.land op 63 in
  if o =? Goto then 0 else if o =? Nullmark then 1 else if zmem o opcode_backtracks_list then 4 else 0.
Definition cp_count (op : Z) : Z := if opcode_backtracks op then 1 else 0.

(* ---------- decoding a code list into instruction boundaries ---------- *)
Fixpoint cp_dec_aux (fuel : nat) (pos : Z) (code : list Z) : list (Z * Z) :=
  match fuel with
  | O => []
  | S f => match code with
           | [] => []
           | op :: _ => let sz := opcode_size op in
                        if sz <=? 0 then []
                        else (pos, op) :: cp_dec_aux f (pos + sz) (skipn (Z.to_nat sz) code)
           end
  end.
Definition cp_dec (code : list Z) : list (Z * Z) := cp_dec_aux (length code) 0 code.

Fixpoint cp_need_l (l : list (Z * Z)) (c : Z) : Z :=
  match l with
  | [] => 0
  | (pos, op) :: l' => (if c <=? pos then cp_weight op else 0) + cp_need_l l' c
  end.
Definition cp_need (code : list Z) (c : Z) : Z := cp_need_l (cp_dec code) c.
Definition cp_boundary (code : list Z) (c : Z) (op : Z) : Prop := In (c, op) (cp_dec code).

Lemma cp_weight_range op : 0 <= cp_weight op <= 4.
Proof.
  unfold cp_weight. cbv zeta. destruct (_ =? Goto); [lia|]. destruct (_ =? Nullmark); [lia|].
  destruct (zmem _ _); lia.
Qed.

Lemma cp_need_l_nonneg l c : 0 <= cp_need_l l c.
Proof.
  induction l as [|[pos op] l IH]; cbn [cp_need_l]; [lia|].
  pose proof (cp_weight_range op). destruct (c <=? pos); lia.
Qed.

Lemma cp_need_l_mono l c c' : c <= c' -> cp_need_l l c' <= cp_need_l l c.
Proof.
  intros Hc. induction l as [|[pos op] l IH]; cbn [cp_need_l]; [lia|].
  pose proof (cp_weight_range op). destruct (c <=? pos) eqn:E1, (c' <=? pos) eqn:E2; lia.
Qed.

Lemma cp_dec_aux_pos f : forall pos code c op, In (c, op) (cp_dec_aux f pos code) -> pos <= c.
Proof.
  induction f as [|f IH]; intros pos code c op H; cbn [cp_dec_aux] in H; [contradiction|].
  destruct code as [|w code']; [contradiction|]. cbv zeta in H.
  destruct (opcode_size w <=? 0) eqn:E; [contradiction|].
  destruct H as [H|H]; [injection H as <- <-; lia|]. apply IH in H. lia.
Qed.

Lemma cp_nth_error_skipn {A} n : forall (l : list A) k, nth_error (skipn n l) k = nth_error l (n + k).
Proof.
  induction n as [|n IH]; intros l k; [reflexivity|].
  destruct l as [|x l]; cbn [skipn plus nth_error]; [destruct k; reflexivity|apply IH].
Qed.

(* the opcode recorded at a boundary is the word stored there *)
Lemma cp_dec_aux_word f : forall pos code c op,
  In (c, op) (cp_dec_aux f pos code) -> nth_error code (Z.to_nat (c - pos)) = Some op.
Proof.
  induction f as [|f IH]; intros pos code c op H; cbn [cp_dec_aux] in H; [contradiction|].
  destruct code as [|w code']; [contradiction|]. cbv zeta in H.
  destruct (opcode_size w <=? 0) eqn:E; [contradiction|].
  destruct H as [H|H].
  - injection H as <- <-. replace (pos - pos) with 0 by lia. reflexivity.
  - pose proof (cp_dec_aux_pos _ _ _ _ _ H) as Hp. apply IH in H.
    rewrite cp_nth_error_skipn in H.
    replace (Z.to_nat (c - pos)) with (Z.to_nat (opcode_size w) + Z.to_nat (c - (pos + opcode_size w)))%nat by lia.
    exact H.
Qed.

Lemma cp_boundary_word code c op : cp_boundary code c op -> znth code c = Some op.
Proof.
  unfold cp_boundary, cp_dec. intros H. pose proof (cp_dec_aux_pos _ _ _ _ _ H) as Hp.
  apply cp_dec_aux_word in H. unfold znth. replace (c <? 0) with false by lia.
  replace (c - 0) with c in H by lia. exact H.
Qed.

(* at a boundary, need splits into the instruction's own weight and the need of what follows *)
Lemma cp_need_l_split f : forall pos code c op,
  In (c, op) (cp_dec_aux f pos code) ->
  cp_need_l (cp_dec_aux f pos code) c = cp_weight op + cp_need_l (cp_dec_aux f pos code) (c + 1).
Proof.
  induction f as [|f IH]; intros pos code c op H; cbn [cp_dec_aux] in H |- *; [contradiction|].
  destruct code as [|w code']; [contradiction|]. cbv zeta in H |- *.
  destruct (opcode_size w <=? 0) eqn:E; [contradiction|]. cbn [cp_need_l].
  destruct H as [H|H].
  - injection H as <- <-. replace (pos <=? pos) with true by lia. replace (pos + 1 <=? pos) with false by lia.
    enough (cp_need_l (cp_dec_aux f (pos + opcode_size w) (skipn (Z.to_nat (opcode_size w)) (w :: code'))) pos =
            cp_need_l (cp_dec_aux f (pos + opcode_size w) (skipn (Z.to_nat (opcode_size w)) (w :: code'))) (pos + 1)) by lia.
    generalize (skipn (Z.to_nat (opcode_size w)) (w :: code')) as cd.
    assert (Hlt : pos + 1 <= pos + opcode_size w) by lia. revert Hlt.
    generalize (pos + opcode_size w) as q. clear. intros q Hq cd.
    assert (G : forall l, (forall c0 o0, In (c0, o0) l -> q <= c0) -> cp_need_l l pos = cp_need_l l (pos + 1)).
    { induction l as [|[p0 o0] l IHl]; intros Hl; cbn [cp_need_l]; [reflexivity|].
      pose proof (Hl p0 o0 (or_introl eq_refl)).
      replace (pos <=? p0) with true by lia. replace (pos + 1 <=? p0) with true by lia.
      rewrite IHl; [reflexivity|]. intros c0 o1 Hin. apply (Hl c0 o1). right. exact Hin. }
    apply G. intros c0 o0 Hin. eapply cp_dec_aux_pos. exact Hin.
  - pose proof (cp_dec_aux_pos _ _ _ _ _ H) as Hp.
    replace (c <=? pos) with false by lia. replace (c + 1 <=? pos) with false by lia.
    rewrite (IH _ _ _ _ H). lia.
Qed.

Lemma cp_need_split code c op :
  cp_boundary code c op -> cp_need code c = cp_weight op + cp_need code (c + 1).
Proof. unfold cp_boundary, cp_need, cp_dec. apply cp_need_l_split. Qed.

Lemma cp_need_mono code c c' : c <= c' -> cp_need code c' <= cp_need code c.
Proof. unfold cp_need. apply cp_need_l_mono. Qed.

Lemma cp_need_nonneg code c : 0 <= cp_need code c.
Proof. unfold cp_need. apply cp_need_l_nonneg. Qed.

(* ---------- Part 1: the writer ---------- *)
Inductive cp_frag : list Z -> Z -> Z -> Prop :=
| cp_frag_nil : cp_frag [] 0 0
| cp_frag_ins op args rest tc w :
    opcode_size op = 1 + zlen args -> cp_frag rest tc w ->
    cp_frag (op :: args ++ rest) (cp_count op + tc) (cp_weight op + w).

Lemma cp_frag_app a : forall t1 w1, cp_frag a t1 w1 -> forall b t2 w2, cp_frag b t2 w2 ->
  cp_frag (a ++ b) (t1 + t2) (w1 + w2).
Proof.
  induction 1 as [|op args rest tc w Hsz Hr IH]; intros b t2 w2 Hb; cbn [app].
  - replace (0 + t2) with t2 by lia. replace (0 + w2) with w2 by lia. exact Hb.
  - rewrite <- app_assoc.
    replace (cp_count op + tc + t2) with (cp_count op + (tc + t2)) by lia.
    replace (cp_weight op + w + w2) with (cp_weight op + (w + w2)) by lia.
    apply cp_frag_ins; [exact Hsz|]. apply IH. exact Hb.
Qed.

Lemma cp_frag_i0 op rest c k tc w :
  opcode_size op = 1 -> cp_count op = c -> cp_weight op = k -> cp_frag rest tc w ->
  cp_frag (op :: rest) (c + tc) (k + w).
Proof. intros Hs <- <- H. apply (cp_frag_ins op [] rest); [exact Hs|exact H]. Qed.
Lemma cp_frag_i1 op a rest c k tc w :
  opcode_size op = 2 -> cp_count op = c -> cp_weight op = k -> cp_frag rest tc w ->
  cp_frag (op :: a :: rest) (c + tc) (k + w).
Proof. intros Hs <- <- H. apply (cp_frag_ins op [a] rest); [exact Hs|exact H]. Qed.
Lemma cp_frag_i2 op a b rest c k tc w :
  opcode_size op = 3 -> cp_count op = c -> cp_weight op = k -> cp_frag rest tc w ->
  cp_frag (op :: a :: b :: rest) (c + tc) (k + w).
Proof. intros Hs <- <- H. apply (cp_frag_ins op [a; b] rest); [exact Hs|exact H]. Qed.

Lemma cp_land_bits base o : 0 <= base < 64 -> Z.land (base + bits_of o) 63 = base.
Proof.
  intros Hb. change 63 with (Z.ones 6). rewrite Z.land_ones by lia. change (2 ^ 6) with 64.
  unfold bits_of, RtlBit, CiBit. destruct (is_rtl o), (is_ci o); lia.
Qed.

(* total weight and TrackCount of a decodable fragment *)
Lemma cp_frag_dec code tc w : cp_frag code tc w ->
  forall fuel pos c, (length code <= fuel)%nat -> c <= pos ->
    cp_need_l (cp_dec_aux fuel pos code) c = w /\ track_count_aux fuel code = tc.
Proof.
  induction 1 as [|op args rest tc w Hsz Hr IH]; intros fuel pos c Hf Hc.
  - destruct fuel; cbn; split; reflexivity.
  - destruct fuel as [|f]; [cbn [length] in Hf; lia|].
    cbn [cp_dec_aux track_count_aux]. cbv zeta.
    assert (Hz : 0 <= zlen args) by apply vml_zlen_nonneg.
    replace (opcode_size op <=? 0) with false by lia.
    assert (Hsk : skipn (Z.to_nat (opcode_size op)) (op :: args ++ rest) = rest).
    { rewrite Hsz. unfold zlen. replace (Z.to_nat (1 + Z.of_nat (length args))) with (S (length args)) by lia.
      cbn [skipn]. rewrite skipn_app, skipn_all, Nat.sub_diag. reflexivity. }
    rewrite Hsk. cbn [cp_need_l]. replace (c <=? pos) with true by lia.
    cbn [length] in Hf. rewrite app_length in Hf.
    destruct (IH f (pos + opcode_size op) c ltac:(lia) ltac:(lia)) as [E1 E2].
    rewrite E1, E2. unfold cp_count. split; reflexivity.
Qed.

Lemma cp_frag_totals code tc w : cp_frag code tc w -> cp_need code 0 = w /\ track_count code = tc.
Proof.
  intros H. unfold cp_need, cp_dec, track_count.
  apply (cp_frag_dec code tc w H (length code) 0 0); lia.
Qed.

Ltac cp_side :=
  unfold opcode_size, cp_count, opcode_backtracks, cp_weight;
  rewrite ?cp_land_bits by (cbv; split; congruence);
  vm_compute; reflexivity.

Ltac cp_build :=
  cbn [app];
  repeat first
    [ apply cp_frag_nil
    | eassumption
    | eapply cp_frag_i2; [solve [cp_side]|solve [cp_side]|solve [cp_side]|]
    | eapply cp_frag_i1; [solve [cp_side]|solve [cp_side]|solve [cp_side]|]
    | eapply cp_frag_i0; [solve [cp_side]|solve [cp_side]|solve [cp_side]|]
    | eapply cp_frag_app; [eassumption|] ].

Definition cp_good (code : list Z) : Prop := exists tc w, cp_frag code tc w /\ w <= 4 * tc.

Ltac cp_finish := unfold cp_good; do 2 eexists; split; [cp_build|lia].

Lemma cp_emit_good c : forall t a tbl, cp_good (fst (emit c t a tbl)).
Proof.
  induction t as [kd o ch|kd lk o ch m n|o str|o g|an| | | |o l HF|o l HF|lazy o m n r IHr|o g u r IHr
                 |r IHr|o r IHr|o r IHr|r IHr|o g yes no IHy IHn|o cnd yes no IHc IHy IHn]
    using node_ind'; intros a tbl.
  - cbn [emit fst]. destruct kd; cbn [char_op]; cp_finish.
  - cbn [emit fst]. destruct kd, lk, (0 <? m), (m <? n); cbn [rep_op loop_op app]; cp_finish.
  - cbn [emit]. destruct (string_code str tbl) as [i tbl']. cbn [fst]. cp_finish.
  - cbn [emit fst]. cp_finish.
  - cbn [emit fst]. destruct an; cbn [anchor_code]; cp_finish.
  - cbn [emit fst]. cp_finish.
  - cbn [emit fst]. cp_finish.
  - cbn [emit fst]. cp_finish.
  - (* NConcat *)
    rewrite wr_emit_concat_eq. revert a tbl.
    induction HF as [|x l Hx HF IH]; intros a tbl; cbn [emit_seq].
    + cbn [fst]. cp_finish.
    + destruct (Hx a tbl) as (t1 & w1 & F1 & L1). destruct (emit c x a tbl) as [cx tb1]. cbn [fst] in F1.
      destruct (IH (a + zlen cx) tb1) as (t2 & w2 & F2 & L2).
      destruct (emit_seq c l (a + zlen cx) tb1) as [cr tb2]. cbn [fst] in F2 |- *. cp_finish.
  - (* NAlternate *)
    rewrite wr_emit_alternate_eq. generalize (a + csize c (NAlternate o l)) as lend. intros lend. revert a tbl.
    induction HF as [|x l Hx HF IH]; intros a tbl.
    + cbn [emit_alt fst]. cp_finish.
    + destruct l as [|y l].
      * cbn [emit_alt]. apply Hx.
      * rewrite wr_emit_alt_cons2.
        destruct (Hx (a + 2) tbl) as (t1 & w1 & F1 & L1). destruct (emit c x (a + 2) tbl) as [cx tb1].
        cbn [fst] in F1. cbv zeta.
        destruct (IH (a + 2 + zlen cx + 2) tb1) as (t2 & w2 & F2 & L2).
        destruct (emit_alt c lend (y :: l) (a + 2 + zlen cx + 2) tb1) as [cr tb2]. cbn [fst] in F2 |- *.
        cp_finish.
  - (* NLoop *)
    cbn [emit]. cbv zeta.
    match goal with |- context [emit c r ?x tbl] => destruct (IHr x tbl) as (t1 & w1 & F1 & L1);
                                                     destruct (emit c r x tbl) as [cr tb1] end.
    cbn [fst] in F1 |- *.
    destruct lazy, (counted m n), (m =? 0); cbn [app]; cp_finish.
  - (* NCapture *)
    cbn [emit]. destruct (emit_capture c g u).
    + destruct (IHr (a + 1) tbl) as (t1 & w1 & F1 & L1). destruct (emit c r (a + 1) tbl) as [cr tb1].
      cbn [fst] in F1 |- *. cp_finish.
    + apply IHr.
  - cbn [emit]. apply IHr.
  - (* NPosLook *)
    cbn [emit]. destruct (IHr (a + 2) tbl) as (t1 & w1 & F1 & L1). destruct (emit c r (a + 2) tbl) as [cr tb1].
    cbn [fst] in F1 |- *. cp_finish.
  - (* NNegLook *)
    cbn [emit]. destruct (IHr (a + 3) tbl) as (t1 & w1 & F1 & L1). destruct (emit c r (a + 3) tbl) as [cr tb1].
    cbn [fst] in F1 |- *. cp_finish.
  - (* NAtomic *)
    cbn [emit]. destruct (IHr (a + 1) tbl) as (t1 & w1 & F1 & L1). destruct (emit c r (a + 1) tbl) as [cr tb1].
    cbn [fst] in F1 |- *. cp_finish.
  - (* NBackRefCond *)
    cbn [emit]. destruct (IHy (a + 6) tbl) as (t1 & w1 & F1 & L1). destruct (emit c yes (a + 6) tbl) as [cy tb1].
    cbn [fst] in F1. cbv zeta.
    destruct no as [x|]; cbn [opt_all] in IHn.
    + match goal with |- context [emit c x ?p tb1] => destruct (IHn p tb1) as (t2 & w2 & F2 & L2);
                                                       destruct (emit c x p tb1) as [cn tb2] end.
      cbn [fst] in F2 |- *. cp_finish.
    + cbn [fst]. cp_finish.
  - (* NExprCond *)
    cbn [emit]. destruct (IHc (a + 4) tbl) as (t0 & w0 & F0 & L0). destruct (emit c cnd (a + 4) tbl) as [cc tb0].
    cbn [fst] in F0. cbv zeta.
    match goal with |- context [emit c yes ?p tb0] => destruct (IHy p tb0) as (t1 & w1 & F1 & L1);
                                                      destruct (emit c yes p tb0) as [cy tb1] end.
    cbn [fst] in F1.
    destruct no as [x|]; cbn [opt_all] in IHn.
    + match goal with |- context [emit c x ?p tb1] => destruct (IHn p tb1) as (t2 & w2 & F2 & L2);
                                                       destruct (emit c x p tb1) as [cn tb2] end.
      cbn [fst] in F2 |- *. cp_finish.
    + cbn [fst]. cp_finish.
Qed.

(* the whole program: Lazybranch Lend ; root ; Stop *)
Theorem cp_compile_weight c root :
  let code := fst (compile c root) in
  cp_need code 0 <= 4 * track_count code.
Proof.
  cbv zeta. unfold compile.
  destruct (cp_emit_good c root 2 []) as (t1 & w1 & F1 & L1). destruct (emit c root 2 []) as [cr tbl].
  cbn [fst] in F1 |- *.
  assert (G : cp_good ([Lazybranch; 2 + zlen cr] ++ cr ++ [Stop])) by cp_finish.
  destruct G as (tc & w & F & Lw). apply cp_frag_totals in F. destruct F as [-> ->]. exact Lw.
Qed.

(* ---------- Part 2: the interpreter ---------- *)
Lemma cp_weight_land w : cp_weight w = cp_weight (Z.land w 63).
Proof.
  unfold cp_weight. cbv zeta. rewrite <- Z.land_assoc. change (Z.land 63 63) with 63. reflexivity.
Qed.

Lemma cp_need_le_total code a : cp_need code a <= cp_need code 0.
Proof.
  destruct (0 <=? a) eqn:E0; [apply cp_need_mono; lia|].
  enough (cp_need code a = cp_need code 0) by lia.
  unfold cp_need, cp_dec. generalize (length code) as f. intros f.
  assert (G : forall l, (forall c0 o0, In (c0, o0) l -> 0 <= c0) -> cp_need_l l a = cp_need_l l 0).
  { induction l as [|[p0 o0] l IHl]; intros Hl; cbn [cp_need_l]; [reflexivity|].
    pose proof (Hl p0 o0 (or_introl eq_refl)).
    replace (a <=? p0) with true by lia. replace (0 <=? p0) with true by lia.
    rewrite IHl; [reflexivity|]. intros c0 o1 Hin. apply (Hl c0 o1). right. exact Hin. }
  apply G. intros c0 o0 Hin. eapply cp_dec_aux_pos. exact Hin.
Qed.

Ltac cp_cbv_in H :=
  cbv beta iota zeta delta
      [pc mode tp track tcap stack scap crawl mcaps
       set_pc set_tp set_track set_stack set_caps set_tcap set_scap bind] in H.

Ltac cp_case_in H :=
  match type of H with
  | context [match ?x with _ => _ end] =>
      lazymatch x with
      | context [match _ with _ => _ end] => fail
      | context [bind _ _] => fail
      | _ => destruct x eqn:?
      end
  | context [bind ?x _] =>
      lazymatch x with
      | context [match _ with _ => _ end] => fail
      | context [bind _ _] => fail
      | _ => destruct x eqn:?
      end
  end.

Section Cap.
Variable e : env.
Variable p : program.
Variable L : Z.
(* the static fact: total weight <= 4 * TrackCount (cp_compile_weight for compiled programs) *)
Hypothesis Hw : cp_need (codes p) 0 <= trackcount p * G_ensure_factor.

Definition cp_free (s : vm) : Z := tcap s - zlen (track s).
Definition cp_inv (s : vm) : Prop := cp_need (codes p) (pc s) <= cp_free s.
Definition cp_out_inv (o : outcome) : Prop := match o with Next s => cp_inv s | _ => True end.

Lemma cp_ensure s s' :
  ensure_storage p L s = Ok s' ->
  trackcount p * G_ensure_factor <= cp_free s' /\ pc s' = pc s.
Proof.
  unfold ensure_storage, cp_free. set (need := trackcount p * G_ensure_factor). intros H.
  repeat (vm_cbn_in H; cp_case_in H); vm_cbn_in H; try discriminate; injection H as <-; vm_cbn; lia.
Qed.

Lemma cp_inv_goto s a s' :
  goto p L s a = Ok s' -> cp_need (codes p) (pc s + 1) <= cp_free s -> cp_inv s'.
Proof.
  unfold goto, cp_inv. intros H Hn. destruct (a <=? pc s) eqn:Ea.
  - destruct (ensure_storage p L s) as [s1| | |] eqn:E; cbn [bind] in H; try discriminate.
    apply cp_ensure in E. destruct E as [E1 E2].
    destruct (code_at p a); [|discriminate]. injection H as <-. unfold cp_free in *. vm_cbn.
    pose proof (cp_need_le_total (codes p) a). lia.
  - cbn [bind] in H. destruct (code_at p a); [|discriminate]. injection H as <-. unfold cp_free in *. vm_cbn.
    pose proof (cp_need_mono (codes p) (pc s + 1) a ltac:(lia)). lia.
Qed.

Lemma cp_inv_goto_back s a s' : a <= pc s -> goto p L s a = Ok s' -> cp_inv s'.
Proof.
  unfold goto, cp_inv. intros Ha H. replace (a <=? pc s) with true in H by lia.
  destruct (ensure_storage p L s) as [s1| | |] eqn:E; cbn [bind] in H; try discriminate.
  apply cp_ensure in E. destruct E as [E1 E2].
  destruct (code_at p a); [|discriminate]. injection H as <-. unfold cp_free in *. vm_cbn.
  pose proof (cp_need_le_total (codes p) a). lia.
Qed.

Lemma cp_inv_cont_goto s a o :
  cont (goto p L s a) = Ok o -> cp_need (codes p) (pc s + 1) <= cp_free s -> cp_out_inv o.
Proof.
  unfold cont. intros H Hn. destruct (goto p L s a) as [s1| | |] eqn:E; cbn [bind] in H; try discriminate.
  injection H as <-. cbn [cp_out_inv]. eapply cp_inv_goto; eassumption.
Qed.

Lemma cp_inv_cont_advance s i o :
  cont (advance p s i) = Ok o -> 0 <= i -> cp_need (codes p) (pc s + 1) <= cp_free s -> cp_out_inv o.
Proof.
  unfold cont, advance. intros H Hi Hn. destruct (code_at p (pc s + i + 1)); cbn [bind] in H; [|discriminate].
  injection H as <-. cbn [cp_out_inv]. unfold cp_inv, cp_free in *. vm_cbn.
  pose proof (cp_need_mono (codes p) (pc s + 1) (pc s + i + 1) ltac:(lia)). lia.
Qed.

Lemma cp_inv_brk s o :
  brk p L s = Ok o -> cp_need (codes p) (pc s) <= cp_free s + 1 -> cp_out_inv o.
Proof.
  unfold brk, backtrack. intros H Hn. destruct (track s) as [|np t] eqn:Et; [discriminate|].
  destruct (if np <? 0 then (- np, Back2Bit) else (np, BackBit)) as [newpos m].
  destruct (code_at p newpos); [|discriminate].
  destruct (newpos <? pc s) eqn:En.
  - destruct (ensure_storage p L (set_track s t)) as [s1| | |] eqn:E; cbn [bind] in H; try discriminate.
    apply cp_ensure in E. destruct E as [E1 E2]. injection H as <-. cbn [cp_out_inv]. unfold cp_inv, cp_free in *. vm_cbn.
    pose proof (cp_need_le_total (codes p) newpos). lia.
  - cbn [bind] in H. injection H as <-. cbn [cp_out_inv]. unfold cp_inv, cp_free in *. vm_cbn.
    rewrite Et in Hn. rewrite vml_zlen_cons in Hn.
    pose proof (cp_need_mono (codes p) (pc s) newpos ltac:(lia)). lia.
Qed.

Ltac cp_weigh Hsplit :=
  (* the failed opcode tests are 45 disequalities: useless here and exponential for lia *)
  repeat match goal with
         | H : (Z.land _ _ =? _) = false |- _ => clear H
         | H : (_ || _) = false |- _ =>
             lazymatch type of H with context [Z.land _ _] => clear H end
         end;
  repeat match goal with
         | H : (_ || _) = true |- _ => apply orb_true_iff in H; destruct H as [H|H]
         end;
  try match goal with
      | H : (Z.land ?w 63 =? ?X) = true |- _ =>
          apply Z.eqb_eq in H; rewrite (cp_weight_land w), H in Hsplit;
          let v := eval vm_compute in (cp_weight X) in change (cp_weight X) with v in Hsplit;
          try rewrite H in *; try unfold X in *
      end.

Ltac cp_lens :=
  vml_lens;
  repeat match goal with
         | |- context [zlen (skipn ?k ?l)] =>
             lazymatch goal with
             | _ : zlen (skipn k l) <= zlen l |- _ => fail
             | _ => pose proof (vml_zlen_skipn_le k l)
             end
         | _ : context [zlen (skipn ?k ?l)] |- _ =>
             lazymatch goal with
             | _ : zlen (skipn k l) <= zlen l |- _ => fail
             | _ => pose proof (vml_zlen_skipn_le k l)
             end
         end.

Ltac cp_arith :=
  unfold cp_inv, cp_free in *;
  cbn [pc mode tp track tcap stack scap crawl mcaps
       set_pc set_tp set_track set_stack set_caps set_tcap set_scap] in *;
  cp_lens; lia.

Ltac cp_leaf Hsplit :=
  first
    [ discriminate
    | cp_weigh Hsplit;
      repeat match goal with H : context [Z.land _ _] |- _ => clear H end;
      match goal with
      | H : cont (advance _ _ _) = Ok _ |- _ => eapply cp_inv_cont_advance; [exact H|lia|]
      | H : cont (goto _ _ _ _) = Ok _ |- _ => eapply cp_inv_cont_goto; [exact H|]
      | H : brk _ _ _ = Ok _ |- _ => eapply cp_inv_brk; [exact H|]
      | H : Ok _ = Ok _ |- _ => injection H as <-; exact I
      end;
      cp_arith ].

(* one step keeps  free >= need(pc)  provided the current position is an instruction boundary *)
Lemma cp_step_inv s w o :
  cp_boundary (codes p) (pc s) w -> cp_inv s -> step e p L s = Ok o -> cp_out_inv o.
Proof.
  intros Hb Hinv H.
  pose proof (cp_need_split _ _ _ Hb) as Hsplit.
  pose proof (cp_weight_range w) as Hwr.
  pose proof (cp_need_nonneg (codes p) (pc s + 1)) as Hnn.
  apply cp_boundary_word in Hb.
  destruct s as [pc0 md tp0 tr tc st sc cr mc].
  unfold step in H. unfold code_at in H. vm_cbn_in H. vm_cbn_in Hb. rewrite Hb in H.
  fold (code_at p) in H.
  unfold tpush, spush, opnd, trackto, uncapture, do_capture, do_transfer in H.
  repeat (cp_cbv_in H; rewrite ?uncapture_to_pure in H; cp_cbv_in H; cp_case_in H).
  all: cp_cbv_in H.
  all: try discriminate.
  all: cp_leaf Hsplit.
Qed.

(* ---------- no push overflows: the simulation of VMLimitSimProofs without its Crash C_track case ---------- *)
Variable L' : Z.
Hypothesis HL : lim_le L L'.

Ltac cp_cbv :=
  cbv beta iota zeta delta
      [pc mode tp track tcap stack scap crawl mcaps
       set_pc set_tp set_track set_stack set_caps set_tcap set_scap bind].

Ltac cp_case :=
  match goal with
  | |- context [match ?x with _ => _ end] =>
      lazymatch x with
      | context [match _ with _ => _ end] => fail
      | context [bind _ _] => fail
      | _ => destruct x eqn:?
      end
  | |- context [bind ?x _] =>
      lazymatch x with
      | context [match _ with _ => _ end] => fail
      | context [bind _ _] => fail
      | _ => destruct x eqn:?
      end
  end.

Ltac cp_states HT := unfold simrel, eqv; cp_cbv; repeat split; exact HT.

Ltac cp_sim_leaf HT Hsplit :=
  first
    [ apply res_rel0_crash
    | apply res_rel0_fuel
    | apply res_rel0_err
    | eapply sim_adv; cp_states HT
    | eapply sim_goto; [exact HL|cp_states HT]
    | eapply sim_brk; [exact HL|cp_states HT]
    | apply res_rel0_ok; cbn [out_rel]; cp_states HT
    | exfalso; cp_weigh Hsplit;
      repeat match goal with H : context [Z.land _ _] |- _ => clear H end;
      cp_arith ].

Lemma cp_step_sim s1 s2 w :
  cp_boundary (codes p) (pc s1) w -> cp_inv s1 -> simrel L s1 s2 ->
  res_rel0 (out_rel L) (step e p L s1) (step e p L' s2).
Proof.
  intros Hb Hinv.
  pose proof (cp_need_split _ _ _ Hb) as Hsplit.
  pose proof (cp_weight_range w) as Hwr.
  pose proof (cp_need_nonneg (codes p) (pc s1 + 1)) as Hnn.
  apply cp_boundary_word in Hb.
  destruct s1 as [pc1 md1 tp1 tr1 tc1 st1 sc1 cr1 mc1].
  destruct s2 as [pc2 md2 tp2 tr2 tc2 st2 sc2 cr2 mc2].
  unfold simrel, eqv. vm_cbn. vm_cbn_in Hb.
  intros [(-> & -> & -> & -> & -> & -> & -> & ->) HT].
  unfold step. unfold code_at. vm_cbn. rewrite Hb. fold (code_at p).
  unfold tpush, spush, opnd, trackto, uncapture, do_capture, do_transfer, fwdchars.
  repeat (cp_cbv; rewrite ?uncapture_to_pure; cp_cbv; cp_case).
  all: cp_cbv.
  all: cp_sim_leaf HT Hsplit.
Qed.

End Cap.

(* ---------- lifting to run / scan / find ---------- *)
Section CapRun.
Variable e : env.
Variable p : program.
Variable L L' : Z.
Hypothesis Hw : cp_need (codes p) 0 <= trackcount p * G_ensure_factor.
Hypothesis HL : lim_le L L'.

(* the states the limited interpreter goes through: an attempt starts with goTo(0) from a state
   at code position 0 and proceeds by steps *)
Inductive cp_reach : vm -> Prop :=
| cp_reach_start s0 s : pc s0 = 0 -> goto p L s0 0 = Ok s -> cp_reach s
| cp_reach_step s s' : cp_reach s -> step e p L s = Ok (Next s') -> cp_reach s'.

(* control-flow safety (NOT proved here): every code position the limited run reaches is an
   instruction boundary of the program *)
Hypothesis Hcf : forall s, cp_reach s -> exists w, cp_boundary (codes p) (pc s) w.

Lemma cp_reach_inv s : cp_reach s -> cp_inv p s.
Proof.
  induction 1 as [s0 s H0 Hg|s s' Hr IH Hs].
  - eapply cp_inv_goto_back; [exact Hw| |exact Hg]. lia.
  - destruct (Hcf s Hr) as [w Hb].
    change (cp_out_inv p (Next s')). eapply cp_step_inv; first [exact Hw|exact Hb|exact IH|exact Hs].
Qed.

Definition cp_pair_rel (r1 r2 : vm * bool) : Prop :=
  simrel L (fst r1) (fst r2) /\ snd r1 = snd r2 /\ (snd r1 = false -> cp_reach (fst r1)).

Lemma cp_run_steps_sim k : forall s1 s2,
  cp_reach s1 -> simrel L s1 s2 ->
  res_rel0 cp_pair_rel (run_steps e p L k s1) (run_steps e p L' k s2).
Proof.
  induction k as [|k IH]; intros s1 s2 Hr HR; cbn [run_steps].
  - apply res_rel0_ok. split; [exact HR|split; [reflexivity|intros _; exact Hr]].
  - destruct (Hcf s1 Hr) as [w Hb].
    assert (S : res_rel0 (out_rel L) (step e p L s1) (step e p L' s2)).
    { eapply cp_step_sim; first [exact HL|exact Hb|exact HR|apply cp_reach_inv; exact Hr]. }
    destruct (step e p L s1) as [o1|c1|w1|] eqn:E1.
    + destruct S as [S|S]; [discriminate|].
      destruct (step e p L' s2) as [o2|c2|w2|]; try contradiction.
      destruct o1 as [a|a|c|w0], o2 as [b|b|c'|w']; cbn [out_rel] in S; try contradiction.
      * apply IH; [eapply cp_reach_step; eassumption|exact S].
      * apply res_rel0_ok. split; [exact S|split; [reflexivity|intros D; discriminate D]].
      * subst. apply res_rel0_err.
      * subst. apply res_rel0_crash.
    + destruct S as [S|S]; [injection S as ->; apply res_rel0_limit|].
      destruct (step e p L' s2); try contradiction. subst. apply res_rel0_err.
    + destruct S as [S|S]; [discriminate|].
      destruct (step e p L' s2); try contradiction. subst. apply res_rel0_crash.
    + destruct S as [S|S]; [discriminate|].
      destruct (step e p L' s2); try contradiction. apply res_rel0_fuel.
Qed.

Lemma cp_run_sim fuel : forall s1 s2,
  cp_reach s1 -> simrel L s1 s2 -> res_rel0 (simrel L) (run e p L fuel s1) (run e p L' fuel s2).
Proof.
  induction fuel as [|f IH]; intros s1 s2 Hr HR; cbn [run]; [apply res_rel0_fuel|].
  apply res_rel0_bind with (R := cp_pair_rel); [apply cp_run_steps_sim; assumption|].
  intros [a b1] [b b2] (H1 & H2 & H3). cbn [fst snd] in *. subst b2.
  destruct b1; [apply res_rel0_ok; exact H1|apply IH; [apply H3; reflexivity|exact H1]].
Qed.

(* goTo(0) from related fresh states: related results, and the limited one is a start state *)
Lemma cp_goto0_sim s1 s2 :
  pc s1 = 0 -> simrel L s1 s2 ->
  res_rel0 (fun a b => simrel L a b /\ cp_reach a) (goto p L s1 0) (goto p L' s2 0).
Proof.
  intros H0 HR. pose proof (sim_goto p L L' HL s1 s2 0 HR) as S. unfold cont in S.
  destruct (goto p L s1 0) as [a|c|w|] eqn:E1; cbn [bind] in S.
  - destruct S as [S|S]; [discriminate|].
    destruct (goto p L' s2 0); cbn [bind] in S; try contradiction.
    apply res_rel0_ok. split; [exact S|]. eapply cp_reach_start; eassumption.
  - destruct S as [S|S]; [injection S as ->; apply res_rel0_limit|].
    destruct (goto p L' s2 0); cbn [bind] in S; try contradiction. subst. apply res_rel0_err.
  - destruct S as [S|S]; [discriminate|].
    destruct (goto p L' s2 0); cbn [bind] in S; try contradiction. subst. apply res_rel0_crash.
  - destruct S as [S|S]; [discriminate|].
    destruct (goto p L' s2 0); cbn [bind] in S; try contradiction. apply res_rel0_fuel.
Qed.

Lemma cp_scan_sim fuel n : forall rtl s1 s2 t,
  simrel L s1 s2 ->
  res_rel0 (opt_rel (simrel L)) (vm_scan_from e p L fuel n rtl s1 t) (vm_scan_from e p L' fuel n rtl s2 t).
Proof.
  induction n as [|n IH]; intros rtl s1 s2 t HR; cbn [vm_scan_from].
  - apply res_rel0_ok. exact I.
  - apply res_rel0_bind with (R := fun a b => simrel L a b /\ cp_reach a).
    { apply cp_goto0_sim; [reflexivity|]. destruct HR as [HE HT]. unfold eqv in HE.
      unfold simrel, eqv. vm_cbn. repeat split; try tauto. }
    intros a b [Hab Hra].
    apply res_rel0_bind with (R := simrel L); [apply cp_run_sim; assumption|].
    intros a2 b2 H2.
    assert (Hm : matched0 a2 = matched0 b2).
    { unfold matched0. destruct H2 as [HE _]. unfold eqv in HE.
      replace (mcaps b2) with (mcaps a2) by tauto. reflexivity. }
    rewrite <- Hm. destruct (matched0 a2); [apply res_rel0_ok; exact H2|].
    destruct (if rtl then t <=? 0 else tlen e <=? t); [apply res_rel0_ok; exact I|].
    apply IH. exact H2.
Qed.

Lemma cp_find_sim fuel rtl start prevlen :
  res_rel0 (opt_rel (simrel L)) (vm_find e p L fuel rtl start prevlen) (vm_find e p L' fuel rtl start prevlen).
Proof.
  unfold vm_find.
  destruct ((prevlen =? 0) && (start =? (if rtl then 0 else tlen e))); [apply res_rel0_ok; exact I|].
  apply cp_scan_sim. apply sim_init. exact HL.
Qed.

End CapRun.

(* The statement of C13's first sentence, for a program whose total push weight is at most
   4 * TrackCount (true of every program the writer produces: cp_compile_weight), under the
   control-flow hypothesis: with any limit, the search either is ErrBacktrackingStackLimit or agrees
   with the unlimited search in every outcome.  No push ever runs beyond the allocated stack. *)
Theorem cp_limit_dichotomy e p L fuel rtl start prevlen :
  cp_need (codes p) 0 <= trackcount p * G_ensure_factor ->
  (forall s, cp_reach e p L s -> exists w, cp_boundary (codes p) (pc s) w) ->
  let r1 := vm_find e p L fuel rtl start prevlen in
  let r2 := vm_find e p (-1) fuel rtl start prevlen in
  r1 = Err E_StackLimit \/
  match r1, r2 with
  | Ok a, Ok b => same_result a b
  | Err c, Err c' => c = c'
  | Crash w, Crash w' => w = w'
  | Fuel, Fuel => True
  | _, _ => False
  end.
Proof.
  intros Hw Hcf. cbv zeta.
  assert (HL : lim_le L (-1)) by (left; lia).
  destruct (cp_find_sim e p L (-1) Hw HL Hcf fuel rtl start prevlen) as [H|H]; [left; exact H|].
  right.
  destruct (vm_find e p L fuel rtl start prevlen), (vm_find e p (-1) fuel rtl start prevlen); try exact H.
  eapply opt_rel_weaken. exact H.
Qed.

(* the weight hypothesis holds for every program the writer produces *)
Theorem cp_compiled_weight c root strs cs :
  let code := fst (compile c root) in
  let p := {| codes := code; strings := strs; trackcount := track_count code; capsize := cs |} in
  cp_need (codes p) 0 <= trackcount p * G_ensure_factor.
Proof.
  cbv zeta. cbn [codes trackcount]. pose proof (cp_compile_weight c root) as H. cbv zeta in H.
  unfold G_ensure_factor. lia.
Qed.

(* every state of the limited run has a twin, at the same code position, in the run with the
   more permissive limit: control-flow safety need only be known for the unlimited engine *)
Lemma cp_reach_transfer e p L L' : lim_le L L' ->
  forall s1, cp_reach e p L s1 -> exists s2, cp_reach e p L' s2 /\ simrel L s1 s2.
Proof.
  intros HL. induction 1 as [s0 s H0 Hg|s s' Hr IH Hs].
  - assert (HR : simrel L s0 s0) by (split; [apply eqv_refl|left; reflexivity]).
    pose proof (goto_sim p L L' HL s0 s0 0 HR) as S. rewrite Hg in S.
    apply res_rel_ok_inv in S. destruct S as (b & E & R).
    exists b. split; [eapply cp_reach_start; eassumption|exact R].
  - destruct IH as (s2 & Hr2 & HR).
    pose proof (step_sim e p L L' HL s s2 HR) as S. rewrite Hs in S.
    apply res_rel_ok_inv in S. destruct S as (o2 & E & R).
    destruct o2 as [b|b|c|w]; cbn [out_rel] in R; try contradiction.
    exists b. split; [eapply cp_reach_step; eassumption|exact R].
Qed.

Theorem cp_limit_dichotomy_unl e p L fuel rtl start prevlen :
  cp_need (codes p) 0 <= trackcount p * G_ensure_factor ->
  (forall s, cp_reach e p (-1) s -> exists w, cp_boundary (codes p) (pc s) w) ->
  let r1 := vm_find e p L fuel rtl start prevlen in
  let r2 := vm_find e p (-1) fuel rtl start prevlen in
  r1 = Err E_StackLimit \/
  match r1, r2 with
  | Ok a, Ok b => same_result a b
  | Err c, Err c' => c = c'
  | Crash w, Crash w' => w = w'
  | Fuel, Fuel => True
  | _, _ => False
  end.
Proof.
  intros Hw Hcf. apply cp_limit_dichotomy; [exact Hw|].
  intros s Hr. assert (HL : lim_le L (-1)) by (left; lia).
  destruct (cp_reach_transfer e p L (-1) HL s Hr) as (s2 & Hr2 & [HE _]).
  destruct (Hcf s2 Hr2) as [w Hb]. exists w. unfold eqv in HE. replace (pc s) with (pc s2) by (symmetry; tauto).
  exact Hb.
Qed.
