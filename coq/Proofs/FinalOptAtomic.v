(* C05, proofs part 6: automatic atomic loops (findAndMakeLoopsAtomic / processNode, Model/FinalOpt.fo_fa, fo_pn)
   preserve the first result under every continuation the context allows. *)
From Verif Require Import Base.Prelude Model.Tree Model.Spec Model.Rewrite Model.ParseLit Model.CharClass Model.Parser
  Model.FinalOpt
  Proofs.SpecProofs Proofs.SpecBoundsProofs Proofs.RewriteProofs
  Proofs.FinalOptDen Proofs.FinalOptK Proofs.FinalOptPrune Proofs.FinalOptLink Proofs.FinalOptLeaf Proofs.FinalOptWalk.
From Coq Require Import ZifyBool.

Ltac fam_unfold := unfold fam, is_one_family, is_notone_family, is_set_family, is_oneloop_family, is_notoneloop_family,
  is_setloop_family, T_One, T_Oneloop, T_Onelazy, T_Oneloopatomic, T_Notone, T_Notoneloop, T_Notonelazy, T_Notoneloopatomic,
  T_Set, T_Setloop, T_Setlazy, T_Setloopatomic in *.

Section Atomic.
Variable cat_in : Z -> Z -> bool.
Variables isw isew : Z -> bool.
Variable sid : cls -> Z.
Variable e : env.
Variable sets : list cls.
Hypothesis Henv : env_ok cat_in isw isew sid e sets.
Variable strict : Z.
Hypothesis Hs0 : Z.testbit strict 0 = true.
Hypothesis Hs1 : Z.testbit strict 1 = true.
Hypothesis Hs2 : Z.testbit strict 2 = true.

Notation den := (den e).
Notation sok := (st_ok e).
Notation tr := (tr sid).
Notation PQ := (PQ cat_in e).
Notation sets_in := (sets_in sets).
Notation node_ok := (node_ok sets).
Notation ctx_ok := (ctx_ok sets).
Notation kb := (kb e).
Notation kseq := (kseq e).
Notation KD := (KD e).
Notation KT := (KT e).
Notation HK := (HK e).
Notation CK := (CK sid e).
Notation Dc := (Dc cat_in sid e).
Notation Tc := (Tc sid e).

(* ---- the states at which a loop stopped early *)
Lemma early_PQ L k l c : lk_of (n_t L) = Some (k, l) -> ltr (n_o L) -> 0 <= n_m L ->
  (forall x, char_test e k c x = rtest cat_in L x) ->
  forall s j, sok s -> n_m L <= j < loop_run e k (n_o L) c (n_n L) s ->
    sok (loop_state (n_o L) s j) /\ PQ L (loop_state (n_o L) s j).
Proof.
  intros Hlk Hl Hm Ht s j [Hp Hc] [Hj1 Hj2].
  unfold loop_run in Hj2. cbv zeta in Hj2.
  set (cap := if n_n L =? INF then avail e (n_o L) (pos s) else Z.min (n_n L) (avail e (n_o L) (pos s))) in *.
  pose proof (run_len_bounds e k c (n_o L) (Z.to_nat cap) (pos s)) as Hb.
  assert (Hav : avail e (n_o L) (pos s) = tlen e - pos s) by (apply (ltr_avail e); exact Hl).
  assert (Hcap : Z.of_nat (Z.to_nat cap) <= tlen e - pos s).
  { unfold cap. destruct (n_n L =? INF); lia. }
  unfold loop_state. rewrite (ltr_dir _ Hl).
  pose proof (run_len_char e k c (n_o L) (Z.to_nat cap) (pos s) j ltac:(lia)) as Hj.
  rewrite (ltr_dir _ Hl), (ltr_avail e _ _ Hl), (ltr_next e _ _ Hl) in Hj. apply andb_prop in Hj. destruct Hj as [Hja Hjt].
  split.
  - split; cbn [pos caps with_pos]; [lia | exact Hc].
  - unfold FinalOptLeaf.PQ. cbn [pos with_pos]. split; [lia|]. split; [rewrite <- Ht; replace (pos s + 1 * j) with (pos s + 1 * j) by lia; exact Hjt|].
    intros Hm0. split; [lia|].
    pose proof (run_len_char e k c (n_o L) (Z.to_nat cap) (pos s) (j - 1) ltac:(lia)) as Hj'.
    rewrite (ltr_dir _ Hl), (ltr_next e _ _ Hl) in Hj'. apply andb_prop in Hj'. destruct Hj' as [_ Hj't].
    rewrite <- Ht. replace (pos s + 1 * j - 1) with (pos s + 1 * (j - 1)) by lia. exact Hj't.
Qed.

Lemma hq_cons_nonempty {A} (x : list A) (y : list A) : x <> [] -> hq (x ++ y) x.
Proof. destruct x; [contradiction|reflexivity]. Qed.

(* a greedy loop and its atomic form, under a continuation that is dead where the loop may stop early, or
   that never fails *)
Lemma step_charloop k o c m nn (P : st -> Prop) (K : kont) :
  0 <= m ->
  (forall s j, sok s -> m <= j < loop_run e k o c nn s -> sok (loop_state o s j) /\ P (loop_state o s j)) ->
  (forall s, sok s -> okl e (den (NCharLoop k LAtomic o c m nn) s)) ->
  KD P K \/ KT K ->
  HK K (NCharLoop k LGreedy o c m nn) (NCharLoop k LAtomic o c m nn).
Proof.
  intros Hm Hearly Hok HK s Hs. unfold HKs. rewrite !fd_den_charloop, !sem_charloop_unfold. cbv zeta.
  destruct (loop_run e k o c nn s <? m) eqn:Er; [apply hq_refl|].
  set (r := loop_run e k o c nn s) in *.
  rewrite (count_down_cons r m) by lia. cbn [map flat_map].
  destruct HK as [HD|HT].
  - assert (Hnil : flat_map K (map (loop_state o s) (count_down (r - 1) m)) = []).
    { apply flat_map_all_nil. intros a Ha. apply in_map_iff in Ha. destruct Ha as (j & <- & Hj).
      apply count_down_in in Hj. destruct (Hearly s j Hs ltac:(lia)) as [Hoks HP]. exact (HD _ Hoks HP). }
    rewrite Hnil. apply hq_refl.
  - assert (Hne : K (loop_state o s r) <> []).
    { apply HT. specialize (Hok s Hs). rewrite fd_den_charloop, sem_charloop_unfold in Hok. cbv zeta in Hok.
      fold r in Hok. rewrite Er in Hok. inversion Hok; assumption. }
    unfold hq. destruct (K (loop_state o s r)); [contradiction|reflexivity].
Qed.

(* a lazy loop and the atomic greedy one, under a continuation that is dead where the loop may stop early *)
Lemma step_charloop_lazy k o c m nn (P : st -> Prop) (K : kont) :
  0 <= m ->
  (forall s j, sok s -> m <= j < loop_run e k o c nn s -> sok (loop_state o s j) /\ P (loop_state o s j)) ->
  KD P K ->
  HK K (NCharLoop k LLazy o c m nn) (NCharLoop k LAtomic o c m nn).
Proof.
  intros Hm Hearly HD s Hs. unfold HKs. rewrite !fd_den_charloop, !sem_charloop_unfold. cbv zeta.
  destruct (loop_run e k o c nn s <? m) eqn:Er; [apply hq_refl|].
  set (r := loop_run e k o c nn s) in *.
  rewrite (count_up_snoc m r) by lia. rewrite map_app, flat_map_app. cbn [map].
  assert (Hnil : flat_map K (map (loop_state o s) (count_up m (r - 1))) = []).
  { apply flat_map_all_nil. intros a Ha. apply in_map_iff in Ha. destruct Ha as (j & <- & Hj).
    apply count_up_in in Hj. destruct (Hearly s j Hs ltac:(lia)) as [Hoks HP]. exact (HD _ Hoks HP). }
  rewrite Hnil. apply hq_refl.
Qed.

(* ---- makeLoopAtomic on a raw node *)
Lemma n_t_set_t x t : n_t (set_t x t) = t.
Proof. destruct x; reflexivity. Qed.
Lemma set_t_fields x t : n_o (set_t x t) = n_o x /\ n_ch (set_t x t) = n_ch x /\ n_m (set_t x t) = n_m x /\
  n_n (set_t x t) = n_n x /\ n_str (set_t x t) = n_str x /\ n_set (set_t x t) = n_set x /\ n_kids (set_t x t) = n_kids x.
Proof. destruct x; repeat split; reflexivity. Qed.

Lemma mla_greedy L : fo_is_charloop (n_t L) = true -> make_loop_atomic L = set_t L (n_t L + 40).
Proof. destruct L as [t o ch m n str st kids]. cbn [n_t make_loop_atomic set_t]. unfold fo_is_charloop. intros ->. reflexivity. Qed.
Lemma mla_lazy L : fo_is_charlazy (n_t L) = true ->
  make_loop_atomic (set_t L (n_t L - (T_Onelazy - T_Oneloop))) = set_t L (n_t L + 37).
Proof.
  destruct L as [t o ch m n str st kids]. cbn [n_t make_loop_atomic set_t]. unfold fo_is_charlazy, T_Onelazy, T_Notonelazy, T_Setlazy, T_Oneloop, T_Notoneloop, T_Setloop.
  intros H. replace ((t - (6 - 3) =? 3) || (t - (6 - 3) =? 4) || (t - (6 - 3) =? 5)) with true by lia.
  f_equal. unfold T_Oneloopatomic. lia.
Qed.

Lemma tr_set_t_loop L t' k l' : lk_of t' = Some (k, l') ->
  tr (set_t L t') = NCharLoop k l' (n_o L) (match k with CSet => tr_set sid (n_set L) | _ => n_ch L end) (n_m L) (n_n L).
Proof.
  intros H. rewrite tr_unfold. cbv zeta. rewrite n_t_set_t, H.
  destruct (set_t_fields L t') as (-> & -> & -> & -> & _ & -> & _). reflexivity.
Qed.

Lemma node_ok_set_t_atomic L t' : node_ok L -> fam (n_t L) = true ->
  (n_t L = 3 \/ n_t L = 6) /\ t' = 43 \/ (n_t L = 4 \/ n_t L = 7) /\ t' = 44 \/ (n_t L = 5 \/ n_t L = 8) /\ t' = 45 ->
  node_ok (set_t L t').
Proof.
  intros [Hwf Hs] Hf Ht. pose proof (fam_leaf L Hf Hwf) as Hk.
  destruct L as [t o ch m n str st kids]. cbn [n_t n_kids] in *. subst kids. split.
  - cbn [set_t]. rewrite fo_wf_unfold in Hwf |- *. cbn [n_t n_kids n_set n_m n_n n_str n_o length forallb] in *.
    destruct Ht as [[[-> | ->] ->] | [[[-> | ->] ->] | [[-> | ->] ->]]]; cbn in Hwf |- *; exact Hwf.
  - cbn [set_t]. exact Hs.
Qed.

(* ---- continuations a sub-node of the node in front of [sub] may have *)
Definition Adm (sub : rnode) (c : list frame) (KN : kont) : Prop :=
  forall n, (Dc n c (tr sub) -> KD (PQ n) KN) /\ (Tc c (tr sub) -> KT KN).

Lemma Adm_ext sub c K K' : (forall a, K a = K' a) -> Adm sub c K' -> Adm sub c K.
Proof.
  intros H HA n. destruct (HA n) as [H1 H2]. split; intros H0.
  - intros s Hs Hp. rewrite H. apply H1; assumption.
  - intros s Hs. rewrite H. apply H2; assumption.
Qed.

Lemma Adm_base sub c K0 : CK c K0 -> Adm sub c (kb (tr sub) K0).
Proof. intros HK n. split; intros H; apply H; exact HK. Qed.

Lemma Adm_kcap sub c KN g s0 : sok s0 -> Adm sub c KN -> Adm sub c (kcap g (-1) s0 KN).
Proof.
  intros Hs0' HA n. destruct (HA n) as [H1 H2]. split; intros H0.
  - intros a Ha Hp. unfold kcap. destruct (sok_capture_plain e g s0 a Hs0' Ha) as (b & -> & Hb & Hpb). cbn [flat_map].
    rewrite (H1 H0 b Hb (PQ_pos cat_in e n a b (eq_sym Hpb) Hp)). reflexivity.
  - intros a Ha. unfold kcap. destruct (sok_capture_plain e g s0 a Hs0' Ha) as (b & -> & Hb & Hpb). cbn [flat_map].
    specialize (H2 H0 b Hb). destruct (KN b); [contradiction|discriminate].
Qed.

Lemma HK_ext K K' t t' : (forall a, K a = K' a) -> HK K' t t' -> HK K t t'.
Proof.
  intros H H0 s Hs. specialize (H0 s Hs). unfold HKs in *.
  rewrite (flat_map_ext K K' H (den t s)), (flat_map_ext K K' H (den t' s)). exact H0.
Qed.

Lemma loop_facts L : fam (n_t L) = true -> node_ok L ->
  forall k l, lk_of (n_t L) = Some (k, l) ->
  let c := match k with CSet => tr_set sid (n_set L) | _ => n_ch L end in
  tr L = NCharLoop k l (n_o L) c (n_m L) (n_n L) /\ (forall x, char_test e k c x = rtest cat_in L x) /\ 0 <= n_m L.
Proof.
  intros Hf [Hwf Hs] k l Hlk c. split; [apply tr_charloop; exact Hlk|]. split.
  - destruct (fam_kind cat_in isw isew sid e sets Henv L Hf Hwf Hs) as (k' & c' & Ht & [[Hsing Etr] | [l' [El Etr]]]).
    + exfalso. unfold lk_of in Hlk. destruct Hsing as [E|[E|E]]; rewrite E in Hlk; cbn in Hlk; discriminate.
    + rewrite (tr_charloop sid L k l Hlk) in Etr. injection Etr as <- <- <-. exact Ht.
  - rewrite fo_wf_unfold, Hlk in Hwf. lia.
Qed.

Lemma leaf_step_greedy L : fo_is_charloop (n_t L) = true -> node_ok L -> ltr (n_o L) ->
  forall KN, KD (PQ L) KN \/ KT KN -> HK KN (tr L) (tr (make_loop_atomic L)).
Proof.
  intros Ht Hok Hl KN HKN. rewrite (mla_greedy L Ht).
  assert (Hf : fam (n_t L) = true) by (unfold fo_is_charloop, T_Oneloop, T_Notoneloop, T_Setloop in Ht; fam_unfold; lia).
  assert (Hcases : n_t L = 3 \/ n_t L = 4 \/ n_t L = 5) by (unfold fo_is_charloop, T_Oneloop, T_Notoneloop, T_Setloop in Ht; lia).
  assert (exists k, lk_of (n_t L) = Some (k, LGreedy) /\ lk_of (n_t L + 40) = Some (k, LAtomic)) as (k & Hlk & Hlk').
  { destruct Hcases as [E|[E|E]]; rewrite E; cbn; eexists; split; reflexivity. }
  destruct (loop_facts L Hf Hok k LGreedy Hlk) as (Etr & Htest & Hm).
  rewrite Etr, (tr_set_t_loop L _ k LAtomic Hlk').
  assert (Hok' : node_ok (set_t L (n_t L + 40))).
  { apply node_ok_set_t_atomic; [exact Hok | exact Hf|]. lia. }
  apply (step_charloop k (n_o L) _ (n_m L) (n_n L) (PQ L) KN Hm).
  - intros s j Hs Hj. apply (early_PQ L k LGreedy _ Hlk Hl Hm Htest s j Hs Hj).
  - intros s Hs. rewrite <- (tr_set_t_loop L _ k LAtomic Hlk'). apply (node_ok_okp sid e sets _ Hok' s Hs).
  - exact HKN.
Qed.

(* the same from EVERY state: the states a greedy loop no longer stops at once atomic have a next character that
   passes its test *)
Lemma early_NQ L k l c : lk_of (n_t L) = Some (k, l) -> ltr (n_o L) -> 0 <= n_m L ->
  (forall x, char_test e k c x = rtest cat_in L x) ->
  forall s j, n_m L <= j < loop_run e k (n_o L) c (n_n L) s -> NQ cat_in e L (loop_state (n_o L) s j).
Proof.
  intros Hlk Hl Hm Ht s j [Hj1 Hj2].
  unfold loop_run in Hj2. cbv zeta in Hj2.
  set (cap := if n_n L =? INF then avail e (n_o L) (pos s) else Z.min (n_n L) (avail e (n_o L) (pos s))) in *.
  unfold loop_state. rewrite (ltr_dir _ Hl).
  pose proof (run_len_char e k c (n_o L) (Z.to_nat cap) (pos s) j ltac:(lia)) as Hj.
  rewrite (ltr_dir _ Hl), (ltr_avail e _ _ Hl), (ltr_next e _ _ Hl) in Hj. apply andb_prop in Hj. destruct Hj as [Hja Hjt].
  unfold FinalOptLeaf.NQ. cbn [pos with_pos]. split; [lia|]. rewrite <- Ht. exact Hjt.
Qed.

Lemma mla_hpr L : fo_is_charloop (n_t L) = true -> node_ok L -> ltr (n_o L) ->
  forall s, hpr (NQ cat_in e L) (den (tr L) s) (den (tr (make_loop_atomic L)) s).
Proof.
  intros Ht Hok Hl s. rewrite (mla_greedy L Ht).
  assert (Hf : fam (n_t L) = true) by (unfold fo_is_charloop, T_Oneloop, T_Notoneloop, T_Setloop in Ht; fam_unfold; lia).
  assert (Hcases : n_t L = 3 \/ n_t L = 4 \/ n_t L = 5) by (unfold fo_is_charloop, T_Oneloop, T_Notoneloop, T_Setloop in Ht; lia).
  assert (exists k, lk_of (n_t L) = Some (k, LGreedy) /\ lk_of (n_t L + 40) = Some (k, LAtomic)) as (k & Hlk & Hlk').
  { destruct Hcases as [E|[E|E]]; rewrite E; cbn; eexists; split; reflexivity. }
  destruct (loop_facts L Hf Hok k LGreedy Hlk) as (Etr & Htest & Hm).
  rewrite Etr, (tr_set_t_loop L _ k LAtomic Hlk').
  rewrite !fd_den_charloop, !sem_charloop_unfold. cbv zeta.
  set (c := match k with CSet => tr_set sid (n_set L) | _ => n_ch L end) in *.
  destruct (loop_run e k (n_o L) c (n_n L) s <? n_m L) eqn:Er; [apply hpr_refl|].
  set (r := loop_run e k (n_o L) c (n_n L) s) in *.
  rewrite (count_down_cons r (n_m L)) by lia. cbn [map]. split; [|reflexivity].
  apply drops_keep. rewrite <- (app_nil_r (map _ _)). apply drops_all; [|constructor].
  rewrite Forall_forall. intros a Ha. apply in_map_iff in Ha. destruct Ha as (j & <- & Hj).
  apply count_down_in in Hj. apply (early_NQ L k LGreedy c Hlk Hl Hm Htest). fold r. lia.
Qed.

Lemma leaf_step_lazy L : fo_is_charlazy (n_t L) = true -> node_ok L -> ltr (n_o L) ->
  forall KN, KD (PQ L) KN -> HK KN (tr L) (tr (make_loop_atomic (set_t L (n_t L - (T_Onelazy - T_Oneloop))))).
Proof.
  intros Ht Hok Hl KN HKN. rewrite (mla_lazy L Ht).
  assert (Hf : fam (n_t L) = true) by (unfold fo_is_charlazy, T_Onelazy, T_Notonelazy, T_Setlazy in Ht; fam_unfold; lia).
  assert (Hcases : n_t L = 6 \/ n_t L = 7 \/ n_t L = 8) by (unfold fo_is_charlazy, T_Onelazy, T_Notonelazy, T_Setlazy in Ht; lia).
  assert (exists k, lk_of (n_t L) = Some (k, LLazy) /\ lk_of (n_t L + 37) = Some (k, LAtomic)) as (k & Hlk & Hlk').
  { destruct Hcases as [E|[E|E]]; rewrite E; cbn; eexists; split; reflexivity. }
  destruct (loop_facts L Hf Hok k LLazy Hlk) as (Etr & Htest & Hm).
  rewrite Etr, (tr_set_t_loop L _ k LAtomic Hlk').
  apply (step_charloop_lazy k (n_o L) _ (n_m L) (n_n L) (PQ L) KN Hm).
  - intros s j Hs Hj. apply (early_PQ L k LLazy _ Hlk Hl Hm Htest s j Hs Hj).
  - exact HKN.
Qed.

Lemma node_ok_mla_greedy L : fo_is_charloop (n_t L) = true -> node_ok L -> node_ok (make_loop_atomic L).
Proof.
  intros Ht Hok. rewrite (mla_greedy L Ht). unfold fo_is_charloop, T_Oneloop, T_Notoneloop, T_Setloop in Ht.
  apply node_ok_set_t_atomic; [exact Hok | fam_unfold; lia | lia].
Qed.
Lemma node_ok_mla_lazy L : fo_is_charlazy (n_t L) = true -> node_ok L ->
  node_ok (make_loop_atomic (set_t L (n_t L - (T_Onelazy - T_Oneloop)))).
Proof.
  intros Ht Hok. rewrite (mla_lazy L Ht). unfold fo_is_charlazy, T_Onelazy, T_Notonelazy, T_Setlazy in Ht.
  apply node_ok_set_t_atomic; [exact Hok | fam_unfold; lia | lia].
Qed.

(* fo_cbma = true only for a left-to-right loop *)
Lemma cbma_true_ltr f n sub c iter al seen :
  fo_cbma cat_in isw isew f strict n sub c iter al seen = Ok true -> ltr (n_o n).
Proof.
  destruct f as [|f]; [discriminate|]. rewrite fo_cbma_S. destruct (fo_descend sub c) as [s ctx1].
  destruct (negb (n_o n =? n_o s)); [discriminate|]. destruct (useRTL (n_o n)) eqn:E; [discriminate|]. intros _. exact E.
Qed.

Lemma arity_one t nk : t = 26 \/ t = 27 \/ t = 28 \/ t = 30 \/ t = 31 \/ t = 32 -> fo_arity_ok t nk = true -> nk = 1%nat.
Proof. intros [->|[->|[->|[->|[->| ->]]]]] H; cbn in H; apply Nat.eqb_eq in H; exact H. Qed.
Lemma arity_two nk : fo_arity_ok 33 nk = true -> nk = 2%nat.
Proof. intros H; cbn in H; apply Nat.eqb_eq in H; exact H. Qed.
Lemma arity_three nk : fo_arity_ok 34 nk = true -> nk = 3%nat.
Proof. intros H; cbn in H; apply Nat.eqb_eq in H; exact H. Qed.
Lemma kids_one x : (n_t x = 26 \/ n_t x = 27 \/ n_t x = 28 \/ n_t x = 30 \/ n_t x = 31 \/ n_t x = 32) -> fo_wf x = true ->
  exists k, n_kids x = [k].
Proof.
  intros Ht Hwf. pose proof (arity_one _ _ Ht (fo_wf_arity x Hwf)) as H.
  destruct (n_kids x) as [|k [|? ?]]; try discriminate. exists k. reflexivity.
Qed.
Lemma kids_two x : n_t x = 33 -> fo_wf x = true -> exists a b, n_kids x = [a; b].
Proof.
  intros Ht Hwf. pose proof (fo_wf_arity x Hwf) as H. rewrite Ht in H. apply arity_two in H.
  destruct (n_kids x) as [|a [|b [|? ?]]]; try discriminate. exists a, b. reflexivity.
Qed.
Lemma kids_three x : n_t x = 34 -> fo_wf x = true -> exists a b c, n_kids x = [a; b; c].
Proof.
  intros Ht Hwf. pose proof (fo_wf_arity x Hwf) as H. rewrite Ht in H. apply arity_three in H.
  destruct (n_kids x) as [|a [|b [|c [|? ?]]]]; try discriminate. exists a, b, c. reflexivity.
Qed.

(* ---- processNode *)
Definition pn_leaf (g : rnode -> res rnode) (f : nat) (sub : rnode) (ctx : list frame) (nd : rnode) : res rnode :=
  let t := n_t nd in
  if fo_is_charloop t then
    do b <- fo_cbma cat_in isw isew f strict nd sub ctx true false false ;
    Ok (if b then make_loop_atomic nd else nd)
  else if fo_is_charlazy t then
    do b <- fo_cbma cat_in isw isew f strict nd sub ctx false true false ;
    Ok (if b then make_loop_atomic (set_t nd (t - (T_Onelazy - T_Oneloop))) else nd)
  else if (t =? T_Alternate) || (t =? T_BackRefCond) || (t =? T_ExprCond) then
    let kids := n_kids nd in
    let keep := if t =? T_ExprCond then firstn 1 kids else [] in
    let go := if t =? T_ExprCond then skipn 1 kids else kids in
    do go' <- fo_map_res g go ;
    Ok (set_kids nd (keep ++ go'))
  else Ok nd.

Lemma fo_pn_S f node sub ctx :
  fo_pn cat_in isw isew (S f) strict node sub ctx =
  let t := n_t node in
  let leaf := pn_leaf (fun k => fo_pn cat_in isw isew f strict k sub ctx) f sub ctx in
  if (t =? T_Capture) && Z.testbit strict 1 && negb (n_n node =? -1) then Ok node
  else if (t =? T_Capture) || (t =? T_Concatenate) then
    match rev (n_kids node) with
    | [] => Crash 42
    | lastk :: rpre => do l' <- fo_pn cat_in isw isew f strict lastk sub ctx ; Ok (set_kids node (rev (l' :: rpre)))
    end
  else if t =? T_Loop then
    do r <- fo_loop_last false strict node (fun first lastc =>
              do b <- fo_cbma cat_in isw isew f strict lastc first [] false false false ;
              if b then (do l' <- leaf lastc ; Ok (Some l')) else Ok None) ;
    match r with Some node' => Ok node' | None => Ok node end
  else leaf node.
Proof. reflexivity. Qed.

Lemma set_kids_fields x ks : n_t (set_kids x ks) = n_t x /\ n_o (set_kids x ks) = n_o x /\ n_ch (set_kids x ks) = n_ch x /\
  n_m (set_kids x ks) = n_m x /\ n_n (set_kids x ks) = n_n x /\ n_str (set_kids x ks) = n_str x /\
  n_set (set_kids x ks) = n_set x /\ n_kids (set_kids x ks) = ks.
Proof. destruct x; repeat split; reflexivity. Qed.

Lemma node_ok_set_kids x ks : node_ok x -> length ks = length (n_kids x) -> Forall node_ok ks -> node_ok (set_kids x ks).
Proof.
  intros [Hwf Hs] Hlen Hks. destruct x as [t o ch m n str st kids]. cbn [set_kids n_kids] in *. split.
  - rewrite fo_wf_unfold in Hwf |- *. cbn [n_t n_kids n_set n_m n_n n_str n_o] in *. rewrite Hlen.
    repeat (apply andb_prop in Hwf; destruct Hwf as [Hwf ?]).
    repeat (apply andb_true_intro; split); try assumption.
    apply forallb_forall. intros k Hk. rewrite Forall_forall in Hks. exact (proj1 (Hks k Hk)).
  - cbn [FinalOptLeaf.sets_in] in Hs |- *. destruct Hs as [Hs0' _]. split; [exact Hs0'|].
    clear -Hks. induction Hks as [|k ks [_ Hk] _ IH]; [exact I | split; [exact Hk | exact IH]].
Qed.

Lemma okps_nodes l : Forall node_ok l -> okps e (map tr l).
Proof.
  intros H. apply okps_all. rewrite Forall_forall. intros x Hx. apply in_map_iff in Hx. destruct Hx as (k & <- & Hk).
  rewrite Forall_forall in H. exact (node_ok_okp sid e sets k (H k Hk)).
Qed.

Lemma fo_Forall2_length {A B} (R : A -> B -> Prop) l l' : Forall2 R l l' -> length l = length l'.
Proof. induction 1; cbn; congruence. Qed.

Lemma fo_map_res_Forall2 {A B} (g : A -> res B) l l' : fo_map_res g l = Ok l' -> Forall2 (fun a b => g a = Ok b) l l'.
Proof.
  revert l'. induction l as [|a l IH]; intros l' H; cbn [fo_map_res] in H.
  - injection H as <-. constructor.
  - destruct (g a) as [b| | |] eqn:Ea; cbn [bind] in H; try discriminate.
    destruct (fo_map_res g l) as [r| | |] eqn:Er; cbn [bind] in H; try discriminate.
    injection H as <-. constructor; [exact Ea | apply IH; reflexivity].
Qed.

Lemma alt_kids_HK KN o : forall l l', Forall2 (fun k k' => HK KN (tr k) (tr k')) l l' ->
  forall pre, HK KN (NAlternate o (pre ++ map tr l)) (NAlternate o (pre ++ map tr l')).
Proof.
  induction 1 as [|k k' l l' Hk _ IH]; intros pre; [apply HK_refl|]. cbn [map].
  eapply HK_trans; [apply HK_alt_at; exact Hk|].
  replace (pre ++ tr k' :: map tr l) with ((pre ++ [tr k']) ++ map tr l) by (rewrite <- app_assoc; reflexivity).
  replace (pre ++ tr k' :: map tr l') with ((pre ++ [tr k']) ++ map tr l') by (rewrite <- app_assoc; reflexivity).
  apply IH.
Qed.

Lemma rev_cons_inv {A} (l : list A) x r : rev l = x :: r -> l = rev r ++ [x].
Proof. intros H. rewrite <- (rev_involutive l), H. reflexivity. Qed.

(* ---- FindLastExpressionInLoopForAutoAtomic (853-880): the last child L of the body of a loop, disjoint from the
   body's first child *)
Definition goodK (P : st -> Prop) (K : kont) : Prop := KD P K \/ KT K.

Lemma goodK_ext P K K' : (forall a, K a = K' a) -> goodK P K' -> goodK P K.
Proof.
  intros H [HD|HT]; [left|right].
  - intros s Hs Hp. rewrite H. apply HD; assumption.
  - intros s Hs. rewrite H. apply HT; assumption.
Qed.
Definition pos_only (P : st -> Prop) : Prop := forall a b, pos a = pos b -> P a -> P b.
Lemma pos_only_PQ n : pos_only (PQ n).
Proof. intros a b H. apply (PQ_pos cat_in e n a b H). Qed.

Lemma goodK_kcap P K g s0 : pos_only P -> sok s0 -> goodK P K -> goodK P (kcap g (-1) s0 K).
Proof.
  intros HP Hs0' [HD|HT]; [left|right].
  - intros a Ha Hp. unfold kcap. destruct (sok_capture_plain e g s0 a Hs0' Ha) as (b & -> & Hb & Hpb). cbn [flat_map].
    rewrite (HD b Hb (HP a b (eq_sym Hpb) Hp)). reflexivity.
  - intros a Ha. unfold kcap. destruct (sok_capture_plain e g s0 a Hs0' Ha) as (b & -> & Hb & Hpb). cbn [flat_map].
    specialize (HT b Hb). destruct (K b); [contradiction|discriminate].
Qed.

Lemma body_last_sound (k : rnode -> rnode -> res (option rnode)) :
  forall body body', fo_body_last strict body k = Ok (Some body') -> node_ok body ->
  exists first lastc l', k first lastc = Ok (Some l') /\ node_ok first /\ node_ok lastc /\
    (node_ok l' -> node_ok body') /\
    (forall P, pos_only P -> (forall K, goodK P K -> HK K (tr lastc) (tr l')) -> forall K, goodK P K -> HK K (tr body) (tr body')) /\
    (forall a, den (tr first) a = [] -> den (tr body) a = []) /\
    (forall a, den (tr first) a = [] -> den (tr body') a = []) /\
    (forall P, pos_only P -> (forall s, hpr P (den (tr lastc) s) (den (tr l') s)) -> forall s, hpr P (den (tr body) s) (den (tr body') s)).
Proof.
  induction body as [t o ch m n str st kids IHk] using rnode_ind'. intros body' H Hok.
  cbn [fo_body_last] in H.
  set (body := RN t o ch m n str st kids) in *.
  destruct ((t =? T_Capture) && Z.testbit strict 1 && negb (n =? -1)) eqn:Ebal; [discriminate|].
  rewrite Hs1, andb_true_r in Ebal.
  destruct (t =? T_Capture) eqn:Ecap.
  { destruct kids as [|c cs]; [discriminate|].
    destruct (fo_body_last strict c k) as [r| | |] eqn:Er; cbn [bind] in H; try discriminate.
    destruct r as [c'|]; [|discriminate]. injection H as <-.
    assert (Hcs : cs = []).
    { destruct (kids_one body ltac:(cbn; unfold T_Capture in *; lia) (proj1 Hok)) as [k0 Hk0]. cbn in Hk0. injection Hk0 as _ ->. reflexivity. }
    subst cs. inversion IHk as [|? ? IH0 _]; subst.
    assert (Hc : node_ok c) by (apply (node_ok_kid sets body); [exact Hok | left; reflexivity]).
    destruct (IH0 c' Er Hc) as (first & lastc & l' & Hk & Hf & Hl & Hokb & HHK & Hd & Hd' & Hpr).
    exists first, lastc, l'. split; [exact Hk|]. split; [exact Hf|]. split; [exact Hl|].
    assert (Etr : tr body = NCapture o m n (tr c)) by (apply tr_capture; [unfold body; cbn; unfold T_Capture in *; lia | reflexivity]).
    assert (Etr' : tr (RN t o ch m n str st [c']) = NCapture o m n (tr c')) by (apply tr_capture; [cbn; unfold T_Capture in *; lia | reflexivity]).
    split; [|split; [|split; [|split]]].
    - intros Hl'. apply (node_ok_set_kids body [c'] Hok eq_refl). constructor; [apply Hokb; exact Hl'|constructor].
    - intros P HP Hleaf K HK. rewrite Etr, Etr'. replace n with (-1) by lia. apply HK_capture. intros s Hs.
      apply (HHK P HP Hleaf); [|exact Hs]. apply goodK_kcap; assumption.
    - intros a Ha. rewrite Etr, fd_den_capture, (Hd a Ha). reflexivity.
    - intros a Ha. rewrite Etr', fd_den_capture, (Hd' a Ha). reflexivity.
    - intros P HP Hleaf s. rewrite Etr, Etr', !fd_den_capture. replace n with (-1) by lia.
      apply hpr_flat_map_single; [|apply (Hpr P HP Hleaf)].
      intros a. unfold capture_close. cbn. eexists. split; [reflexivity|]. apply HP. reflexivity. }
  destruct (t =? T_Concatenate) eqn:Econ; [|discriminate].
  destruct kids as [|first krest] eqn:Ekids; [discriminate|].
  destruct (rev (first :: krest)) as [|lastc rpre] eqn:Erev; [discriminate|].
  destruct (k first lastc) as [r| | |] eqn:Ek; cbn [bind] in H; try discriminate.
  destruct r as [l'|]; [|discriminate]. injection H as <-. change (rev (l' :: rpre)) with (rev rpre ++ [l']).
  apply rev_cons_inv in Erev.
  exists first, lastc, l'. split; [exact Ek|].
  assert (Hfirst : node_ok first) by (apply (node_ok_kid sets body); [exact Hok | left; reflexivity]).
  assert (Hlast : node_ok lastc) by (apply (node_ok_kid sets body); [exact Hok | unfold body; cbn [n_kids]; rewrite Erev; apply in_or_app; right; left; reflexivity]).
  assert (Hpre : Forall node_ok (rev rpre)).
  { rewrite Forall_forall. intros x Hx. apply (node_ok_kid sets body); [exact Hok | unfold body; cbn [n_kids]; rewrite Erev; apply in_or_app; left; exact Hx]. }
  split; [exact Hfirst|]. split; [exact Hlast|].
  assert (Etr : tr body = NConcat o (map tr (rev rpre) ++ [tr lastc])).
  { rewrite (tr_concat sid body) by (unfold body; cbn; unfold T_Concatenate in *; lia). unfold body. cbn [n_o n_kids]. rewrite Erev, map_app. reflexivity. }
  assert (Etr' : tr (RN t o ch m n str st (rev rpre ++ [l'])) = NConcat o (map tr (rev rpre) ++ [tr l'])).
  { rewrite (tr_concat sid) by (cbn; unfold T_Concatenate in *; lia). cbn [n_o n_kids]. rewrite map_app. reflexivity. }
  assert (Hfirst_in : forall x, tr (RN t o ch m n str st (x)) = tr (RN t o ch m n str st x)) by reflexivity.
  assert (Hhd : exists tl, rev rpre ++ [lastc] = first :: tl) by (exists krest; symmetry; exact Erev).
  split; [|split; [|split; [|split]]].
  - intros Hl'. apply (node_ok_set_kids body (rev rpre ++ [l']) Hok).
    + unfold body. cbn [n_kids]. rewrite Erev, !app_length. reflexivity.
    + apply Forall_app. split; [exact Hpre | constructor; [exact Hl'|constructor]].
  - intros P HP Hleaf K HK. rewrite Etr, Etr'. apply HK_concat_at; [apply okps_nodes; exact Hpre|].
    apply Hleaf. eapply goodK_ext; [intros a; apply kseq_nil | exact HK].
  - intros a Ha. rewrite (tr_concat sid body) by (unfold body; cbn; unfold T_Concatenate in *; lia).
    unfold body. cbn [n_o n_kids map]. rewrite fd_den_concat. cbn [den_seq]. rewrite Ha. reflexivity.
  - intros a Ha. rewrite (tr_concat sid) by (cbn; unfold T_Concatenate in *; lia). cbn [n_o n_kids].
    destruct Hhd as [tl Htl].
    destruct (rev rpre) as [|p0 pr] eqn:Epr.
    + (* the body is the single loop: then first = lastc *)
      cbn [app] in Htl. injection Htl as <- <-. cbn [app map]. rewrite fd_den_concat. cbn [den_seq].
      exfalso. pose proof (fo_wf_arity body (proj1 Hok)) as Har. unfold body in Har. cbn [n_t n_kids length] in Har.
      cbn [app] in Erev. injection Erev as Ekr. subst krest.
      unfold fo_arity_ok in Har. replace t with 25 in Har by (unfold T_Concatenate in *; lia). cbn in Har. discriminate.
    + cbn [app] in Htl. injection Htl as -> _. cbn [app map]. rewrite fd_den_concat. cbn [den_seq]. rewrite Ha. reflexivity.
  - intros P HP Hleaf s. rewrite Etr, Etr', !fd_den_concat, !fd_den_seq_app. apply hpr_flat_map_same.
    intros a. cbn [den_seq]. rewrite !flat_map_single. apply Hleaf.
Qed.

Lemma wf_loop_bounds x : fo_wf x = true -> n_t x = 26 \/ n_t x = 27 -> 0 <= n_m x <= n_n x.
Proof.
  rewrite fo_wf_unfold. intros H Ht. replace ((n_t x =? 26) || (n_t x =? 27)) with true in H by lia.
  repeat (apply andb_prop in H; destruct H as [H ?]). lia.
Qed.

(* canBeMadeAtomic without allowLazy says true for a greedy loop only *)
Lemma cbma_true_greedy : forall f n sub c iter seen,
  fo_cbma cat_in isw isew f strict n sub c iter false seen = Ok true -> node_ok sub -> ctx_ok c ->
  fo_is_charloop (n_t n) = true.
Proof.
  induction f as [|f IHf]; intros n sub c iter seen H Hsub Hc; [discriminate|].
  rewrite fo_cbma_S in H. destruct (fo_descend sub c) as [s ctx1] eqn:Ed.
  destruct (descend_sound cat_in sid e sets strict Hs0 Hs1 Hs2 n sub c s ctx1 Ed Hsub Hc) as (Hs & Hc1 & _).
  destruct (negb (n_o n =? n_o s)); [discriminate|]. destruct (useRTL (n_o n)); [discriminate|]. cbv zeta in H.
  destruct ((n_t s =? T_Alternate) || (n_t s =? T_ExprCond) && (zlen (n_kids s) =? 3)) eqn:Ealt.
  - assert (exists k ks, n_kids s = k :: ks) as (k & ks & Ek).
    { pose proof (fo_wf_arity s (proj1 Hs)) as Har. destruct (n_kids s) as [|k ks] eqn:Ek; [|exists k, ks; reflexivity]. exfalso.
      unfold fo_arity_ok in Har. destruct (n_t s =? T_Alternate) eqn:Ea.
      - replace (n_t s) with 24 in Har by (unfold T_Alternate in *; lia). cbn in Har. discriminate.
      - replace (n_t s) with 34 in Har by (unfold T_Alternate, T_ExprCond in *; lia). cbn in Har. discriminate. }
    rewrite Ek in H. cbn [fo_branches] in H.
    destruct (fo_cbma cat_in isw isew f strict n k (mkF (n_t s) false true ks :: ctx1) iter false seen) as [b| | |] eqn:Eb; cbn [bind] in H; try discriminate.
    destruct b; [|discriminate].
    apply (IHf _ _ _ _ _ Eb).
    + apply (node_ok_kid sets s); [exact Hs | rewrite Ek; left; reflexivity].
    + constructor; [|exact Hc1]. cbn [f_rights]. rewrite Forall_forall. intros r Hr.
      apply (node_ok_kid sets s); [exact Hs | rewrite Ek; right; exact Hr].
  - destruct (fo_verdict cat_in isw isew n s false) as [v| | |] eqn:Ev; cbn [bind] in H; try discriminate.
    assert (Hv : v <> 0) by (intros ->; cbn in H; discriminate).
    unfold fo_verdict in Ev. rewrite !andb_false_r, !orb_false_r in Ev.
    unfold fo_is_charloop.
    destruct (n_t n =? T_Oneloop); [reflexivity|]. destruct (n_t n =? T_Notoneloop); [reflexivity|].
    destruct (n_t n =? T_Setloop); [reflexivity|]. injection Ev as <-. contradiction.
Qed.

(* what follows an iteration of the loop, at a state where the NEXT iteration (and leaving) start with a dead body *)
Lemma goodK_kiter (P : st -> Prop) (KN : kont) (B' : st -> list st) (limit mark count : Z) :
  0 <= limit -> (forall q, sok q -> P q -> B' q = []) -> (forall a, sok a -> okl e (B' a)) ->
  goodK P KN -> goodK P (kiter KN B' false limit mark count).
Proof.
  intros Hlim Hdead Hok HK.
  assert (Hq0 : forall q, sok q -> P q -> iterD B' false limit q mark count = [q] \/ iterD B' false limit q mark count = []).
  { intros q Hq HPq. rewrite fd_iterD_eq. unfold iter_again. rewrite (Hdead q Hq HPq). cbn [flat_map app].
    destruct ((limit <=? count) || (pos q =? mark) && (0 <=? count)); [left; reflexivity|].
    destruct (0 <=? count); [left|right]; reflexivity. }
  destruct (Z_lt_ge_dec count 0) as [Hneg|Hnn].
  - (* iterations still owed: leaving is not an option, so the continuation is dead there *)
    left. intros q Hq HPq. unfold kiter. rewrite fd_iterD_eq. unfold iter_again. rewrite (Hdead q Hq HPq). cbn [flat_map app].
    replace ((limit <=? count) || (pos q =? mark) && (0 <=? count)) with false by lia.
    replace (0 <=? count) with false by lia. reflexivity.
  - destruct HK as [HD|HT].
    + left. intros q Hq HPq. unfold kiter. destruct (Hq0 q Hq HPq) as [-> | ->]; cbn [flat_map]; [rewrite (HD q Hq HPq)|]; reflexivity.
    + right. intros a Ha. unfold kiter. rewrite fd_iterD_eq.
      destruct ((limit <=? count) || (pos a =? mark) && (0 <=? count)).
      * cbn [flat_map]. specialize (HT a Ha). destruct (KN a); [contradiction|discriminate].
      * replace (0 <=? count) with true by lia. rewrite flat_map_app. cbn [flat_map].
        specialize (HT a Ha). destruct (KN a); [contradiction|]. intros E. apply app_eq_nil in E. destruct E as [_ E]. discriminate.
Qed.

Theorem pn_sound : forall f node sub c node',
  fo_pn cat_in isw isew f strict node sub c = Ok node' ->
  node_ok node -> node_ok sub -> ctx_ok c ->
  node_ok node' /\ forall KN, Adm sub c KN -> HK KN (tr node) (tr node').
Proof.
  induction f as [|f IHf]; intros node sub c node' H Hn Hsub Hc; [discriminate|].
  rewrite fo_pn_S in H. cbv zeta in H.
  destruct ((n_t node =? T_Capture) && Z.testbit strict 1 && negb (n_n node =? -1)) eqn:Ebal.
  { injection H as <-. split; [exact Hn|]. intros KN _. apply HK_refl. }
  rewrite Hs1, andb_true_r in Ebal.
  destruct ((n_t node =? T_Capture) || (n_t node =? T_Concatenate)) eqn:Ecc.
  { destruct (rev (n_kids node)) as [|lastk rpre] eqn:Erev; [discriminate|].
    apply rev_cons_inv in Erev.
    destruct (fo_pn cat_in isw isew f strict lastk sub c) as [l'| | |] eqn:El; cbn [bind] in H; try discriminate.
    injection H as <-.
    assert (Hlast : node_ok lastk) by (apply (node_ok_kid sets node); [exact Hn | rewrite Erev; apply in_or_app; right; left; reflexivity]).
    destruct (IHf lastk sub c l' El Hlast Hsub Hc) as [Hl' HHK].
    assert (Hpre : Forall node_ok (rev rpre)).
    { rewrite Forall_forall. intros k Hk. apply (node_ok_kid sets node); [exact Hn | rewrite Erev; apply in_or_app; left; exact Hk]. }
    cbn [rev]. split.
    - apply node_ok_set_kids; [exact Hn | rewrite Erev, !app_length; reflexivity|].
      apply Forall_app. split; [exact Hpre | constructor; [exact Hl'|constructor]].
    - intros KN HA.
      destruct (set_kids_fields node (rev rpre ++ [l'])) as (Ht' & Ho' & _ & Hm' & Hn' & _ & _ & Hk').
      destruct (n_t node =? T_Concatenate) eqn:Econ.
      + rewrite (tr_concat sid node) by (unfold T_Concatenate in *; lia).
        rewrite (tr_concat sid (set_kids node _)) by (rewrite Ht'; unfold T_Concatenate in *; lia).
        rewrite Ho', Hk', Erev, !map_app. cbn [map].
        apply HK_concat_at; [apply okps_nodes; exact Hpre|].
        apply HHK. eapply Adm_ext; [intros a; apply kseq_nil | exact HA].
      + assert (Ecap : n_t node = T_Capture) by lia.
        assert (Hr : rpre = []).
        { destruct (kids_one node ltac:(unfold T_Capture in Ecap; lia) (proj1 Hn)) as [k0 Hk0]. rewrite Hk0 in Erev.
          destruct rpre as [|r0 rpre]; [reflexivity|]. exfalso. apply (f_equal (@length _)) in Erev.
          cbn [rev] in Erev. rewrite !app_length in Erev. cbn in Erev. lia. }
        subst rpre. cbn [rev app] in *.
        rewrite (tr_capture sid node lastk Ecap Erev).
        rewrite (tr_capture sid (set_kids node [l']) l') by (rewrite ?Ht'; auto).
        rewrite Ho', Hm', Hn'. replace (n_n node) with (-1) by lia.
        apply HK_capture. intros s Hs. apply HHK; [|exact Hs]. apply Adm_kcap; [exact Hs|exact HA]. }
  destruct (n_t node =? T_Loop) eqn:Eloop.
  { assert (Et : n_t node = T_Loop) by lia.
    destruct (kids_one node ltac:(unfold T_Loop in Et; lia) (proj1 Hn)) as [b Eb].
    unfold fo_loop_last in H. rewrite Eb in H.
    set (k0 := fun first lastc : rnode =>
                 do b0 <- fo_cbma cat_in isw isew f strict lastc first [] false false false ;
                 if b0 then (do l' <- pn_leaf (fun k => fo_pn cat_in isw isew f strict k sub c) f sub c lastc ; Ok (Some l')) else Ok None) in *.
    destruct (fo_body_last strict b k0) as [r| | |] eqn:Er; cbn [bind] in H; try discriminate.
    destruct r as [b'|]; [|injection H as <-; split; [exact Hn|intros KN _; apply HK_refl]].
    injection H as <-.
    assert (Hb : node_ok b) by (apply (node_ok_kid sets node); [exact Hn | rewrite Eb; left; reflexivity]).
    (* the leaf and what the two calls of canBeMadeAtomic say *)
    assert (Hk0 : forall first lastc l', k0 first lastc = Ok (Some l') -> node_ok first -> node_ok lastc ->
              node_ok l' /\
              (forall q, sok q -> PQ lastc q -> den (tr first) q = []) /\
              (forall KN, Adm sub c KN -> forall K, goodK (PQ lastc) KN -> goodK (PQ lastc) K -> HK K (tr lastc) (tr l')) /\
              (forall KN, Adm sub c KN -> l' = lastc \/ goodK (PQ lastc) KN)).
    { intros first lastc l' Hk Hf Hl. unfold k0 in Hk.
      destruct (fo_cbma cat_in isw isew f strict lastc first [] false false false) as [b0| | |] eqn:E1; cbn [bind] in Hk; try discriminate.
      destruct b0; [|discriminate].
      destruct (pn_leaf (fun k => fo_pn cat_in isw isew f strict k sub c) f sub c lastc) as [l1| | |] eqn:El; cbn [bind] in Hk; try discriminate.
      injection Hk as <-.
      pose proof (cbma_true_greedy f lastc first [] false false E1 Hf (Forall_nil _)) as Hgl.
      assert (Hfirst : forall q, sok q -> PQ lastc q -> den (tr first) q = []).
      { destruct (cbma_sound cat_in isw isew sid e sets Henv strict Hs0 Hs1 Hs2 f lastc first [] false false false E1 Hl Hf (Forall_nil _))
          as [HD|(Habs & _)]; [|discriminate].
        intros q Hq HPq. pose proof (HD kid (KT_kid e) q Hq HPq) as H0. unfold FinalOptK.kb, kid in H0. rewrite flat_map_single in H0. exact H0. }
      unfold pn_leaf in El. cbv zeta in El. rewrite Hgl in El.
      destruct (fo_cbma cat_in isw isew f strict lastc sub c true false false) as [b2| | |] eqn:E2; cbn [bind] in El; try discriminate.
      injection El as <-. destruct b2.
      - split; [apply node_ok_mla_greedy; assumption|]. split; [exact Hfirst|]. split.
        + intros KN HA K _ HK. apply leaf_step_greedy; [exact Hgl | exact Hl | exact (cbma_true_ltr _ _ _ _ _ _ _ E2) | exact HK].
        + intros KN HA. right.
          destruct (cbma_sound cat_in isw isew sid e sets Henv strict Hs0 Hs1 Hs2 f lastc sub c true false false E2 Hl Hsub Hc)
            as [HD|(_ & _ & HT)]; [left; apply (proj1 (HA lastc)); exact HD | right; apply (proj2 (HA lastc)); exact HT].
      - split; [exact Hl|]. split; [exact Hfirst|]. split; [intros; apply HK_refl | intros; left; reflexivity]. }
    destruct (body_last_sound k0 b b' Er Hb) as (first & lastc & l' & Hk & Hf & Hl & Hokb & HHK & Hd & Hd' & _).
    destruct (Hk0 first lastc l' Hk Hf Hl) as (Hl' & Hfirst & Hleaf & Hgood).
    assert (Hb' : node_ok b') by (apply Hokb; exact Hl').
    destruct (set_kids_fields node [b']) as (Ht' & Ho' & _ & Hm' & Hn' & _ & _ & Hk2).
    split; [apply node_ok_set_kids; [exact Hn | rewrite Eb; reflexivity | constructor; [exact Hb'|constructor]]|].
    intros KN HA.
    rewrite (tr_loop sid node b Et Eb). rewrite (tr_loop sid (set_kids node [b']) b') by (first [exact Hk2 | rewrite Ht'; exact Et]).
    rewrite Ho', Hm', Hn'.
    destruct (Hgood KN HA) as [Esame|HgKN].
    - (* canBeMadeAtomic said no for what follows the loop: the child is left alone *)
      subst l'. apply HK_loop_iter; [apply (node_ok_okp sid e sets); exact Hb|]. intros mark count.
      apply (HHK (fun _ => False) ltac:(intros ? ? ? []) ); [intros; apply HK_refl|].
      left. intros q _ [].
    - apply HK_loop_iter; [apply (node_ok_okp sid e sets); exact Hb|]. intros mark count.
      assert (Hlim : 0 <= loop_limit (n_m node) (n_n node)).
      { pose proof (wf_loop_bounds node (proj1 Hn) ltac:(left; unfold T_Loop in Et; exact Et)) as Hb1. unfold loop_limit. destruct (n_n node =? INF); unfold INF in *; lia. }
      apply (HHK (PQ lastc) (pos_only_PQ lastc)).
      + intros K HK. apply (Hleaf KN HA K HgKN HK).
      + apply goodK_kiter; [exact Hlim| | |exact HgKN].
        * intros q Hq HPq. apply Hd'. apply Hfirst; assumption.
        * apply (node_ok_okp sid e sets). exact Hb'. }
  (* the switch *)
  unfold pn_leaf in H. cbv zeta in H.
  destruct (fo_is_charloop (n_t node)) eqn:Egl.
  { destruct (fo_cbma cat_in isw isew f strict node sub c true false false) as [b| | |] eqn:Eb; cbn [bind] in H; try discriminate.
    injection H as <-. destruct b; [|split; [exact Hn|intros KN _; apply HK_refl]].
    split; [apply node_ok_mla_greedy; assumption|]. intros KN HA.
    apply leaf_step_greedy; [exact Egl | exact Hn | exact (cbma_true_ltr _ _ _ _ _ _ _ Eb)|].
    destruct (cbma_sound cat_in isw isew sid e sets Henv strict Hs0 Hs1 Hs2 f node sub c true false false Eb Hn Hsub Hc)
      as [HD|(_ & _ & HT)]; [left; apply (proj1 (HA node)); exact HD | right; apply (proj2 (HA node)); exact HT]. }
  destruct (fo_is_charlazy (n_t node)) eqn:Elz.
  { destruct (fo_cbma cat_in isw isew f strict node sub c false true false) as [b| | |] eqn:Eb; cbn [bind] in H; try discriminate.
    injection H as <-. destruct b; [|split; [exact Hn|intros KN _; apply HK_refl]].
    split; [apply node_ok_mla_lazy; assumption|]. intros KN HA.
    apply leaf_step_lazy; [exact Elz | exact Hn | exact (cbma_true_ltr _ _ _ _ _ _ _ Eb)|].
    destruct (cbma_sound cat_in isw isew sid e sets Henv strict Hs0 Hs1 Hs2 f node sub c false true false Eb Hn Hsub Hc)
      as [HD|(Habs & _)]; [apply (proj1 (HA node)); exact HD | discriminate]. }
  destruct ((n_t node =? T_Alternate) || (n_t node =? T_BackRefCond) || (n_t node =? T_ExprCond)) eqn:Ealt;
    [|injection H as <-; split; [exact Hn|intros KN _; apply HK_refl]].
  set (go := if n_t node =? T_ExprCond then skipn 1 (n_kids node) else n_kids node) in *.
  set (keep := if n_t node =? T_ExprCond then firstn 1 (n_kids node) else []) in *.
  destruct (fo_map_res (fun k => fo_pn cat_in isw isew f strict k sub c) go) as [go'| | |] eqn:Ego; cbn [bind] in H; try discriminate.
  injection H as <-.
  apply fo_map_res_Forall2 in Ego.
  assert (Hkeepgo : n_kids node = keep ++ go).
  { unfold keep, go. destruct (n_t node =? T_ExprCond); [symmetry; apply firstn_skipn | reflexivity]. }
  assert (Hgo_ok : Forall node_ok go).
  { rewrite Forall_forall. intros k Hk. apply (node_ok_kid sets node); [exact Hn | rewrite Hkeepgo; apply in_or_app; right; exact Hk]. }
  assert (Hkeep_ok : Forall node_ok keep).
  { rewrite Forall_forall. intros k Hk. apply (node_ok_kid sets node); [exact Hn | rewrite Hkeepgo; apply in_or_app; left; exact Hk]. }
  assert (Hall : Forall2 (fun k k' => node_ok k' /\ forall KN, Adm sub c KN -> HK KN (tr k) (tr k')) go go').
  { clear -Ego Hgo_ok IHf Hsub Hc. induction Ego as [|k k' l l' Hk _ IH]; [constructor|].
    inversion Hgo_ok; subst. constructor; [exact (IHf _ _ _ _ Hk ltac:(assumption) Hsub Hc) | apply IH; assumption]. }
  assert (Hlen : length go' = length go) by (symmetry; eapply fo_Forall2_length; exact Ego).
  assert (Hgo'_ok : Forall node_ok go').
  { clear -Hall. induction Hall as [|? ? ? ? [H _] _ IH]; constructor; assumption. }
  destruct (set_kids_fields node (keep ++ go')) as (Ht' & Ho' & _ & Hm' & Hn' & _ & _ & Hk').
  split.
  - apply node_ok_set_kids; [exact Hn | rewrite Hkeepgo, !app_length, Hlen; reflexivity | apply Forall_app; split; assumption].
  - intros KN HA.
    assert (Hall' : Forall2 (fun k k' => HK KN (tr k) (tr k')) go go').
    { clear -Hall HA. induction Hall as [|? ? ? ? [_ H] _ IH]; constructor; [apply H; exact HA | exact IH]. }
    pose proof (fo_wf_arity node (proj1 Hn)) as Har.
    destruct (n_t node =? T_Alternate) eqn:Ea.
    + assert (Hkeep : keep = []) by (unfold keep; replace (n_t node =? T_ExprCond) with false by (unfold T_Alternate, T_ExprCond in *; lia); reflexivity).
      rewrite (tr_alt sid node) by (unfold T_Alternate in *; lia).
      rewrite (tr_alt sid (set_kids node _)) by (rewrite Ht'; unfold T_Alternate in *; lia).
      rewrite Ho', Hk', Hkeepgo, Hkeep. cbn [app]. apply (alt_kids_HK KN (n_o node) go go' Hall' []).
    + destruct (n_t node =? T_BackRefCond) eqn:Eb.
      * assert (Hkeep : keep = []) by (unfold keep; replace (n_t node =? T_ExprCond) with false by (unfold T_BackRefCond, T_ExprCond in *; lia); reflexivity).
        assert (Et : n_t node = T_BackRefCond) by lia.
        rewrite Hkeep in *. cbn [app] in *.
        assert (exists y nn, go = [y; nn]) as (y & nn & Egl2).
        { destruct (kids_two node ltac:(unfold T_BackRefCond in Et; lia) (proj1 Hn)) as (y & nn & Hk2). exists y, nn. rewrite <- Hkeepgo. exact Hk2. }
        rewrite Egl2 in *. inversion Hall' as [|? y' ? l1 Hy Hr]; subst. inversion Hr as [|? nn' ? l2 Hnn Hr2]; subst. inversion Hr2; subst.
        rewrite (tr_backref_cond sid node y nn Et Hkeepgo).
        rewrite (tr_backref_cond sid (set_kids node [y'; nn']) y' nn') by (rewrite ?Ht'; auto).
        rewrite Ho', Hm'. apply HK_backref_cond; [exact Hy | exact Hnn].
      * assert (Et : n_t node = T_ExprCond) by lia.
        assert (exists c0 y nn, n_kids node = [c0; y; nn]) as (c0 & y & nn & Ek3)
          by (apply kids_three; [unfold T_ExprCond in Et; lia | exact (proj1 Hn)]).
        assert (Hkeep : keep = [c0]) by (unfold keep; rewrite Ek3; replace (n_t node =? T_ExprCond) with true by lia; reflexivity).
        assert (Hgo : go = [y; nn]) by (unfold go; rewrite Ek3; replace (n_t node =? T_ExprCond) with true by lia; reflexivity).
        rewrite Hgo in *. inversion Hall' as [|? y' ? l1 Hy Hr]; subst. inversion Hr as [|? nn' ? l2 Hnn Hr2]; subst. inversion Hr2; subst.
        rewrite Hkeep in *. cbn [app] in *.
        rewrite (tr_expr_cond sid node c0 y nn Et Ek3).
        rewrite (tr_expr_cond sid (set_kids node [c0; y'; nn']) c0 y' nn') by (rewrite ?Ht'; auto).
        rewrite Ho'. apply HK_expr_cond; [|apply HK_refl | exact Hy | exact Hnn].
        apply (node_ok_okp sid e sets). inversion Hkeep_ok; assumption.
Qed.

(* ---- findAndMakeLoopsAtomic *)
Definition fa_go (g : rnode -> list frame -> res rnode) (t : Z) (bal : bool) (ctx : list frame) : list rnode -> res (list rnode) :=
  fix go (ks : list rnode) : res (list rnode) :=
    match ks with
    | [] => Ok []
    | k :: ks' => do k' <- g k (mkF t bal false ks' :: ctx) ; do r <- go ks' ; Ok (k' :: r)
    end.
Definition fa_pairs (p : rnode -> rnode -> list frame -> res rnode) (ctx : list frame) : list rnode -> res (list rnode) :=
  fix pairs (ks : list rnode) : res (list rnode) :=
    match ks with
    | a :: ((b :: rest) as tl) =>
        do a' <- p a b (mkF T_Concatenate false false rest :: ctx) ; do r <- pairs tl ; Ok (a' :: r)
    | _ => Ok ks
    end.

Lemma fa_pairs_cc p ctx a b rest :
  fa_pairs p ctx (a :: b :: rest) =
  do a' <- p a b (mkF T_Concatenate false false rest :: ctx) ; do r <- fa_pairs p ctx (b :: rest) ; Ok (a' :: r).
Proof. reflexivity. Qed.
Lemma fa_go_cons g t bal ctx k ks :
  fa_go g t bal ctx (k :: ks) = do k' <- g k (mkF t bal false ks :: ctx) ; do r <- fa_go g t bal ctx ks ; Ok (k' :: r).
Proof. reflexivity. Qed.

Lemma fo_fa_S f x ctx :
  fo_fa cat_in isw isew (S f) strict x ctx =
  if useRTL (n_o x) then Ok x
  else
    let bal := (n_t x =? T_Capture) && negb (n_n x =? -1) in
    do kids1 <- fa_go (fun k c => fo_fa cat_in isw isew f strict k c) (n_t x) bal ctx (n_kids x) ;
    if negb (n_t x =? T_Concatenate) then Ok (set_kids x kids1)
    else do kids2 <- fa_pairs (fun a b c => fo_pn cat_in isw isew f strict a b c) ctx kids1 ; Ok (set_kids x kids2).
Proof. reflexivity. Qed.

Section FaStep.
Variable f : nat.
Hypothesis IHf : forall x c x', fo_fa cat_in isw isew f strict x c = Ok x' -> node_ok x -> ctx_ok c ->
  node_ok x' /\ forall K, CK c K -> HK K (tr x) (tr x').

Fixpoint go_rel (t : Z) (bal : bool) (c : list frame) (ks ks1 : list rnode) : Prop :=
  match ks, ks1 with
  | [], [] => True
  | k :: r, k' :: r' =>
      node_ok k' /\ (forall K, CK (mkF t bal false r :: c) K -> HK K (tr k) (tr k')) /\ go_rel t bal c r r'
  | _, _ => False
  end.

Lemma go_sound t bal c : ctx_ok c -> forall ks ks1, Forall node_ok ks ->
  fa_go (fun k c0 => fo_fa cat_in isw isew f strict k c0) t bal c ks = Ok ks1 -> go_rel t bal c ks ks1.
Proof.
  intros Hc. induction ks as [|k r IH]; intros ks1 Hks H.
  - cbn [fa_go] in H. injection H as <-. exact I.
  - rewrite fa_go_cons in H. inversion Hks as [|? ? Hk Hr]; subst.
    destruct (fo_fa cat_in isw isew f strict k (mkF t bal false r :: c)) as [k'| | |] eqn:Ek; cbn [bind] in H; try discriminate.
    destruct (fa_go (fun k0 c0 => fo_fa cat_in isw isew f strict k0 c0) t bal c r) as [r'| | |] eqn:Er; cbn [bind] in H; try discriminate.
    injection H as <-. cbn [go_rel].
    assert (Hc' : ctx_ok (mkF t bal false r :: c)) by (constructor; [exact Hr|exact Hc]).
    destruct (IHf k _ k' Ek Hk Hc') as [Hk' HHK]. split; [exact Hk'|]. split; [exact HHK|]. apply IH; [exact Hr|reflexivity].
Qed.

Lemma go_rel_ok t bal c : forall ks ks1, go_rel t bal c ks ks1 -> Forall node_ok ks1 /\ length ks1 = length ks.
Proof.
  induction ks as [|k r IH]; intros [|k' r'] H; cbn [go_rel] in H; try contradiction.
  - split; [constructor|reflexivity].
  - destruct H as (Hk' & _ & Hr). destruct (IH r' Hr) as [H1 H2]. split; [constructor; assumption | cbn; congruence].
Qed.

Lemma CK_concat_frame b d rs c K : CK c K -> CK (mkF T_Concatenate b d rs :: c) (kseq (map tr rs) K).
Proof. intros H. cbn [FinalOptWalk.CK f_t]. cbn. exists K. split; [exact H|reflexivity]. Qed.

Lemma concat_go o c : forall ks ks1, go_rel T_Concatenate false c ks ks1 -> forall pre, Forall node_ok pre ->
  forall K, CK c K -> HK K (NConcat o (map tr pre ++ map tr ks)) (NConcat o (map tr pre ++ map tr ks1)).
Proof.
  induction ks as [|k r IH]; intros [|k' r'] H pre Hpre K HK0; cbn [go_rel] in H; try contradiction; [apply HK_refl|].
  destruct H as (Hk' & HHK & Hr). cbn [map].
  eapply HK_trans.
  - apply HK_concat_at; [apply okps_nodes; exact Hpre|]. apply HHK. apply CK_concat_frame. exact HK0.
  - replace (map tr pre ++ tr k' :: map tr r) with (map tr (pre ++ [k']) ++ map tr r) by (rewrite map_app, <- app_assoc; reflexivity).
    replace (map tr pre ++ tr k' :: map tr r') with (map tr (pre ++ [k']) ++ map tr r') by (rewrite map_app, <- app_assoc; reflexivity).
    apply IH; [exact Hr | apply Forall_app; split; [exact Hpre | constructor; [exact Hk'|constructor]] | exact HK0].
Qed.

Lemma alt_go o b c : forall ks ks1, go_rel T_Alternate b c ks ks1 -> forall pre,
  forall K, CK c K -> HK K (NAlternate o (pre ++ map tr ks)) (NAlternate o (pre ++ map tr ks1)).
Proof.
  induction ks as [|k r IH]; intros [|k' r'] H pre K HK0; cbn [go_rel] in H; try contradiction; [apply HK_refl|].
  destruct H as (Hk' & HHK & Hr). cbn [map].
  eapply HK_trans.
  - apply HK_alt_at. apply HHK. apply CK_alt_frame. exact HK0.
  - replace (pre ++ tr k' :: map tr r) with ((pre ++ [tr k']) ++ map tr r) by (rewrite <- app_assoc; reflexivity).
    replace (pre ++ tr k' :: map tr r') with ((pre ++ [tr k']) ++ map tr r') by (rewrite <- app_assoc; reflexivity).
    apply IH; [exact Hr | exact HK0].
Qed.

Lemma pairs_sound o c : ctx_ok c -> forall ks ks2, Forall node_ok ks ->
  fa_pairs (fun a b c0 => fo_pn cat_in isw isew f strict a b c0) c ks = Ok ks2 ->
  Forall node_ok ks2 /\ length ks2 = length ks /\
  forall pre, Forall node_ok pre -> forall K, CK c K ->
    HK K (NConcat o (map tr pre ++ map tr ks)) (NConcat o (map tr pre ++ map tr ks2)).
Proof.
  intros Hc. induction ks as [|a tl IH]; intros ks2 Hks H.
  - cbn [fa_pairs] in H. injection H as <-. split; [constructor|]. split; [reflexivity|]. intros; apply HK_refl.
  - destruct tl as [|b rest].
    + unfold fa_pairs in H. injection H as <-. split; [exact Hks|]. split; [reflexivity|]. intros; apply HK_refl.
    + rewrite fa_pairs_cc in H.
      inversion Hks as [|? ? Ha Htl]; subst. inversion Htl as [|? ? Hb Hrest]; subst.
      destruct (fo_pn cat_in isw isew f strict a b (mkF T_Concatenate false false rest :: c)) as [a'| | |] eqn:Ea; cbn [bind] in H; try discriminate.
      destruct (fa_pairs (fun a0 b0 c0 => fo_pn cat_in isw isew f strict a0 b0 c0) c (b :: rest)) as [r| | |] eqn:Er; cbn [bind] in H; try discriminate.
      injection H as <-.
      assert (Hc' : ctx_ok (mkF T_Concatenate false false rest :: c)) by (constructor; [exact Hrest|exact Hc]).
      destruct (pn_sound f a b _ a' Ea Ha Hb Hc') as [Ha' HHK].
      destruct (IH r Htl eq_refl) as (Hr & Hlen & HIH).
      split; [constructor; assumption|]. split; [cbn [length] in *; lia|].
      intros pre Hpre K HK0.
      change (map tr (a :: b :: rest)) with (tr a :: map tr (b :: rest)). change (map tr (a' :: r)) with (tr a' :: map tr r).
      eapply HK_trans.
      * apply HK_concat_at; [apply okps_nodes; exact Hpre|].
        apply HHK. eapply Adm_ext; [intros s; apply (kseq_cons e (tr b) (map tr rest) K s)|].
        apply Adm_base. apply CK_concat_frame. exact HK0.
      * replace (map tr pre ++ tr a' :: map tr (b :: rest)) with (map tr (pre ++ [a']) ++ map tr (b :: rest)) by (rewrite map_app, <- app_assoc; reflexivity).
        replace (map tr pre ++ tr a' :: map tr r) with (map tr (pre ++ [a']) ++ map tr r) by (rewrite map_app, <- app_assoc; reflexivity).
        apply HIH; [apply Forall_app; split; [exact Hpre | constructor; [exact Ha'|constructor]] | exact HK0].
Qed.

End FaStep.

Lemma CK_opaque_frame t b d rs c K : (t =? T_Concatenate) = false -> (t =? T_Capture) = false -> (t =? T_Alternate) = false ->
  (t =? T_Atomic) = false -> CK (mkF t b d rs :: c) K.
Proof. intros E1 E2 E3 E4. cbn [FinalOptWalk.CK f_t]. rewrite E1, E2, E3, E4. exact I. Qed.

Lemma set_kids_same x : set_kids x (n_kids x) = x.
Proof. destruct x; reflexivity. Qed.

Theorem fa_sound : forall f x c x',
  fo_fa cat_in isw isew f strict x c = Ok x' -> node_ok x -> ctx_ok c ->
  node_ok x' /\ forall K, CK c K -> HK K (tr x) (tr x').
Proof.
  induction f as [|f IHf]; intros x c x' H Hx Hc; [discriminate|].
  rewrite fo_fa_S in H. destruct (useRTL (n_o x)); [injection H as <-; split; [exact Hx|intros; apply HK_refl]|].
  cbv zeta in H.
  set (bal := (n_t x =? T_Capture) && negb (n_n x =? -1)) in *.
  destruct (fa_go (fun k c0 => fo_fa cat_in isw isew f strict k c0) (n_t x) bal c (n_kids x)) as [kids1| | |] eqn:Ego;
    cbn [bind] in H; try discriminate.
  assert (Hkids : Forall node_ok (n_kids x)).
  { rewrite Forall_forall. intros k Hk. exact (node_ok_kid sets x k Hx Hk). }
  pose proof (go_sound f IHf (n_t x) bal c Hc _ _ Hkids Ego) as Hrel.
  destruct (go_rel_ok _ _ _ _ _ Hrel) as [Hk1 Hlen1].
  destruct (negb (n_t x =? T_Concatenate)) eqn:Econ.
  - injection H as <-.
    destruct (set_kids_fields x kids1) as (Ht' & Ho' & _ & Hm' & Hn' & _ & _ & Hk').
    split; [apply node_ok_set_kids; assumption|].
    intros K HK0.
    pose proof (fo_wf_arity x (proj1 Hx)) as Har.
    destruct (n_t x =? T_Alternate) eqn:Ea.
    { rewrite (tr_alt sid x) by (unfold T_Alternate in *; lia).
      rewrite (tr_alt sid (set_kids x kids1)) by (rewrite Ht'; unfold T_Alternate in *; lia).
      rewrite Ho', Hk'. replace (n_t x) with T_Alternate in Hrel by (unfold T_Alternate in *; lia).
      exact (alt_go (n_o x) bal c _ _ Hrel [] K HK0). }
    (* one child *)
    destruct ((n_t x =? 26) || (n_t x =? 27) || (n_t x =? 28) || (n_t x =? 30) || (n_t x =? 31) || (n_t x =? 32)) eqn:E1.
    { destruct (kids_one x ltac:(lia) (proj1 Hx)) as [k Ek]. rewrite Ek in Hrel.
      destruct kids1 as [|k' [|? ?]]; cbn [go_rel] in Hrel; try tauto; try (destruct Hrel as (_ & _ & []); fail).
      destruct Hrel as (Hk'ok & HHK & _).
      assert (Hokp : okp e (tr k)).
      { apply (node_ok_okp sid e sets). apply (node_ok_kid sets x); [exact Hx | rewrite Ek; left; reflexivity]. }
      destruct (n_t x =? 28) eqn:E28.
      { rewrite (tr_capture sid x k) by (unfold T_Capture; auto || lia).
        rewrite (tr_capture sid (set_kids x [k']) k') by (rewrite ?Ht'; unfold T_Capture; auto || lia).
        rewrite Ho', Hm', Hn'. apply HK_capture. intros s Hs. apply HHK; [|exact Hs].
        cbn [FinalOptWalk.CK f_t]. replace (n_t x =? T_Concatenate) with false by (unfold T_Concatenate; lia).
        replace (n_t x =? T_Capture) with true by (unfold T_Capture; lia).
        exists K, (n_m x), (n_n x), s. split; [exact Hs|]. split; [|split; [exact HK0|intros a; reflexivity]].
        cbn [f_bal]. unfold bal, T_Capture. intros Hb. lia. }
      destruct (n_t x =? 32) eqn:E32.
      { rewrite (tr_atomic sid x k) by (unfold T_Atomic; auto || lia).
        rewrite (tr_atomic sid (set_kids x [k']) k') by (rewrite ?Ht'; unfold T_Atomic; auto || lia).
        apply HK_atomic. apply HHK.
        cbn [FinalOptWalk.CK f_t f_desc]. replace (n_t x =? T_Concatenate) with false by (unfold T_Concatenate; lia).
        replace (n_t x =? T_Capture) with false by (unfold T_Capture; lia).
        replace (n_t x =? T_Alternate) with false by (unfold T_Alternate; lia).
        replace (n_t x =? T_Atomic) with true by (unfold T_Atomic; lia). cbn [negb andb]. apply KT_kid. }
      assert (Hopq : forall K1, CK (mkF (n_t x) bal false [] :: c) K1).
      { intros K1. apply CK_opaque_frame; unfold T_Concatenate, T_Capture, T_Alternate, T_Atomic; lia. }
      destruct (n_t x =? 30) eqn:E30.
      { rewrite (tr_poslook sid x k) by (unfold T_PosLook; auto || lia).
        rewrite (tr_poslook sid (set_kids x [k']) k') by (rewrite ?Ht'; unfold T_PosLook; auto || lia).
        rewrite Ho'. apply HK_poslook. apply HHK. apply Hopq. }
      destruct (n_t x =? 31) eqn:E31.
      { rewrite (tr_neglook sid x k) by (unfold T_NegLook; auto || lia).
        rewrite (tr_neglook sid (set_kids x [k']) k') by (rewrite ?Ht'; unfold T_NegLook; auto || lia).
        rewrite Ho'. apply HK_neglook. apply HHK. apply Hopq. }
      destruct (n_t x =? 26) eqn:E26.
      { rewrite (tr_loop sid x k) by (unfold T_Loop; auto || lia).
        rewrite (tr_loop sid (set_kids x [k']) k') by (rewrite ?Ht'; unfold T_Loop; auto || lia).
        rewrite Ho', Hm', Hn'. apply HK_loop; [exact Hokp|]. intros F. apply HHK. apply Hopq. }
      rewrite (tr_lazyloop sid x k) by (unfold T_Lazyloop; auto || lia).
      rewrite (tr_lazyloop sid (set_kids x [k']) k') by (rewrite ?Ht'; unfold T_Lazyloop; auto || lia).
      rewrite Ho', Hm', Hn'. apply HK_loop; [exact Hokp|]. intros F. apply HHK. apply Hopq. }
    destruct (n_t x =? 33) eqn:E33.
    { destruct (kids_two x ltac:(lia) (proj1 Hx)) as (y & nn & Ek). rewrite Ek in Hrel.
      destruct kids1 as [|y' [|nn' [|? ?]]]; cbn [go_rel] in Hrel; try tauto;
        try (destruct Hrel as (_ & _ & []); fail); try (destruct Hrel as (_ & _ & _ & _ & []); fail).
      destruct Hrel as (_ & HHy & _ & HHn & _).
      rewrite (tr_backref_cond sid x y nn) by (unfold T_BackRefCond; auto || lia).
      rewrite (tr_backref_cond sid (set_kids x [y'; nn']) y' nn') by (rewrite ?Ht'; unfold T_BackRefCond; auto || lia).
      rewrite Ho', Hm'.
      apply HK_backref_cond; [apply HHy | apply HHn]; apply CK_opaque_frame; unfold T_Concatenate, T_Capture, T_Alternate, T_Atomic; lia. }
    destruct (n_t x =? 34) eqn:E34.
    { destruct (kids_three x ltac:(lia) (proj1 Hx)) as (c0 & y & nn & Ek). rewrite Ek in Hrel.
      destruct kids1 as [|c0' [|y' [|nn' [|? ?]]]]; cbn [go_rel] in Hrel; try tauto;
        try (destruct Hrel as (_ & _ & []); fail); try (destruct Hrel as (_ & _ & _ & _ & []); fail);
        try (destruct Hrel as (_ & _ & _ & _ & _ & _ & []); fail).
      destruct Hrel as (_ & HHc & _ & HHy & _ & HHn & _).
      rewrite (tr_expr_cond sid x c0 y nn) by (unfold T_ExprCond; auto || lia).
      rewrite (tr_expr_cond sid (set_kids x [c0'; y'; nn']) c0' y' nn') by (rewrite ?Ht'; unfold T_ExprCond; auto || lia).
      rewrite Ho'.
      apply HK_expr_cond.
      - apply (node_ok_okp sid e sets). apply (node_ok_kid sets x); [exact Hx | rewrite Ek; left; reflexivity].
      - apply HHc. apply CK_opaque_frame; unfold T_Concatenate, T_Capture, T_Alternate, T_Atomic; lia.
      - apply HHy. apply CK_opaque_frame; unfold T_Concatenate, T_Capture, T_Alternate, T_Atomic; lia.
      - apply HHn. apply CK_opaque_frame; unfold T_Concatenate, T_Capture, T_Alternate, T_Atomic; lia. }
    (* a leaf *)
    assert (Hk0 : n_kids x = []).
    { unfold fo_arity_ok in Har. destruct (fo_is_leaf_t (n_t x)).
      - destruct (n_kids x); [reflexivity|discriminate].
      - exfalso. rewrite E1, E33, E34 in Har. unfold T_Alternate, T_Concatenate in *. lia. }
    rewrite Hk0 in Hrel. destruct kids1; cbn [go_rel] in Hrel; [|contradiction].
    rewrite <- Hk0, set_kids_same. apply HK_refl.
  - (* a concatenation: then the pairs *)
    destruct (fa_pairs (fun a b c0 => fo_pn cat_in isw isew f strict a b c0) c kids1) as [kids2| | |] eqn:Ep;
      cbn [bind] in H; try discriminate.
    injection H as <-.
    destruct (pairs_sound f (n_o x) c Hc kids1 kids2 Hk1 Ep) as (Hk2 & Hlen2 & HP).
    destruct (set_kids_fields x kids2) as (Ht' & Ho' & _ & _ & _ & _ & _ & Hk').
    split; [apply node_ok_set_kids; [exact Hx | lia | exact Hk2]|].
    intros K HK0.
    rewrite (tr_concat sid x) by (unfold T_Concatenate in *; lia).
    rewrite (tr_concat sid (set_kids x kids2)) by (rewrite Ht'; unfold T_Concatenate in *; lia).
    rewrite Ho', Hk'.
    replace (n_t x) with T_Concatenate in Hrel by (unfold T_Concatenate in *; lia).
    assert (Hbal : bal = false) by (unfold bal, T_Capture, T_Concatenate in *; lia).
    rewrite Hbal in Hrel.
    eapply HK_trans.
    + exact (concat_go (n_o x) c _ _ Hrel [] (Forall_nil _) K HK0).
    + exact (HP [] (Forall_nil _) K HK0).
Qed.

End Atomic.
