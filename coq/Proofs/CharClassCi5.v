(* char_in_denote under IgnoreCase: finished classes.
   scanCharSet folds case first and canonicalizes afterwards (fix dd13520); the finished class - which
   canonicalize may have rewritten into a negated normal form - then goes through addCaseEquivalences
   again: once per enclosing bracket level (the subtraction of a class is expanded with it) and once
   more in the tree pass.  This file shows that a finished class is stable under that:
     fin c      every level of c has well-formed canonical ranges, no bitmap, and (unless it is
                "anything") a range part that is closed under the SimpleFold orbits of the table and
                has no member outside the table unless big members are admitted (B);
     ace_fin    addCaseEquivalences maps fin classes to fin classes and changes no membership on the table;
     canon_level  canonicalize (whatever normal form it picks) preserves the level invariant. *)
From Coq Require Import FMapPositive ZifyBool.
From Verif Require Import Base.Prelude Model.CharClass Model.FoldD
  Proofs.CharClassRanges Proofs.CharClassProofs Proofs.CharClassElab
  Proofs.CharClassFold Proofs.CharClassFoldThm Proofs.CharClassCi Proofs.CharClassCi2 Proofs.CharClassCi3
  Proofs.CharClassCi4.

(* ---------------------------------------------------------------- gaps of a canonical range list *)
Lemma sorted_gap : forall R p r, sorted_from p R -> In r R ->
  p + 1 < fst r /\ fst r <= snd r /\ mem R (snd r + 1) = false /\ mem R (fst r - 1) = false.
Proof.
  induction R as [|[a b] t IH]; intros p r Hs Hr; [destruct Hr|].
  cbn [sorted_from] in Hs. destruct Hs as (S1 & S2 & S3).
  destruct Hr as [<-|Hr]; cbn [fst snd].
  - split; [lia|]. split; [lia|]. rewrite !mem_cons. unfold in_range; cbn [fst snd].
    rewrite (sorted_from_mem_false b t (b + 1) S3) by lia.
    rewrite (sorted_from_mem_false b t (a - 1) S3) by lia. split; lia.
  - destruct (IH b r S3 Hr) as (G1 & G2 & G3 & G4).
    split; [lia|]. split; [lia|]. rewrite !mem_cons, G3, G4. unfold in_range; cbn [fst snd]. split; lia.
Qed.

Lemma canonical_gap R r : canonical_ranges R -> In r R ->
  fst r <= snd r /\ mem R (snd r + 1) = false /\ mem R (fst r - 1) = false.
Proof.
  intros Hc Hr. destruct (canonical_sorted_from R Hc) as [p Hp].
  destruct (sorted_gap R p r Hp Hr) as (_ & G). exact G.
Qed.

(* ---------------------------------------------------------------- what canonicalize does to the range part *)
Section Cases.
  Variable cat_in : Z -> Z -> bool.

  Definition has_top (rs : list (Z * Z)) : Prop := exists w, max_rune - 1 <= w /\ mem rs w = true.
  Definition flipped (rs rs' : list (Z * Z)) : Prop :=
    forall x, valid_rune x -> mem rs' x = negb (mem rs x).
  Definition full (rs' : list (Z * Z)) : Prop := forall x, valid_rune x -> mem rs' x = true.

  Lemma make_anything_full c : full (ranges (make_anything c)).
  Proof.
    intros x Hx. unfold make_anything; cbn [ranges]. unfold mem, in_range; cbn [existsb fst snd].
    unfold valid_rune, max_rune in *. lia.
  Qed.

  Ltac mlia := unfold max_rune in *; lia.

  Lemma nf1_cases c : wf_ranges (ranges c) ->
    normal_form_1 c = c \/
    (neg (normal_form_1 c) = true /\ has_top (ranges c) /\ flipped (ranges c) (ranges (normal_form_1 c))).
  Proof.
    intros Hw. unfold has_top, flipped, valid_rune, normal_form_1, wf_ranges, wf_range in *.
    destruct (negb (neg c) && no_sub c && no_cats c); [|left; reflexivity].
    destruct (ranges c) as [|[a0 b0] [|[a1 b1] [|]]] eqn:Er; try (left; reflexivity).
    - inversion Hw as [|? ? W0 _]; subst. destruct W0 as (W1 & W2 & W3); cbn [fst snd] in *.
      destruct (a0 =? 0) eqn:E0.
      + destruct (b0 =? max_rune - 1) eqn:E1; [|left; reflexivity]. right. split; [reflexivity|]. split.
        * exists (max_rune - 1). split; [mlia|]. unfold mem, in_range; cbn. mlia.
        * intros x Hx. unfold valid_rune in Hx. cbn [ranges set_ranges set_neg]. unfold mem, in_range; cbn. mlia.
      + destruct (a0 =? 1) eqn:E1; [|left; reflexivity].
        destruct (b0 >=? max_rune) eqn:E2; [|left; reflexivity]. right. split; [reflexivity|]. split.
        * exists max_rune. split; [mlia|]. unfold mem, in_range; cbn. mlia.
        * intros x Hx. unfold valid_rune in Hx. cbn [ranges set_ranges set_neg]. unfold mem, in_range; cbn. mlia.
    - inversion Hw as [|? ? W0 Hw']; subst. inversion Hw' as [|? ? W0' _]; subst.
      destruct W0 as (W1 & W2 & W3); destruct W0' as (W4 & W5 & W6); cbn [fst snd] in *.
      destruct ((a0 =? 0) && (b1 >=? max_rune) && (b0 <? a1 - 1)) eqn:E; [|left; reflexivity].
      right. split; [reflexivity|]. split.
      * exists max_rune. split; [mlia|]. unfold mem, in_range; cbn. mlia.
      * intros x Hx. unfold valid_rune in Hx. cbn [ranges set_ranges set_neg]. unfold mem, in_range; cbn. mlia.
  Qed.

  Lemma nf2_cases c : wf_ranges (ranges c) ->
    normal_form_2 c = c \/ (normal_form_2 c = make_anything c /\ has_top (ranges c)).
  Proof.
    intros Hw. unfold has_top, normal_form_2, wf_ranges, wf_range in *.
    destruct (negb (neg c) && no_sub c); [|left; reflexivity].
    destruct (ranges c) as [|[a0 b0] [|]] eqn:Er; try (left; reflexivity).
    inversion Hw as [|? ? W0 _]; subst. destruct W0 as (W1 & W2 & W3); cbn [fst snd] in *.
    destruct ((a0 =? 0) && (b0 >=? max_rune)) eqn:E; [|left; reflexivity].
    right. split; [reflexivity|]. exists max_rune. split; [mlia|]. unfold mem, in_range; cbn. mlia.
  Qed.

  Lemma nf3_cases c : wf_ranges (ranges c) ->
    normal_form_3 cat_in c = c \/
    (has_top (ranges c) /\
     (normal_form_3 cat_in c = make_anything c \/ flipped (ranges c) (ranges (normal_form_3 cat_in c)))).
  Proof.
    intros Hw. unfold has_top, flipped, valid_rune, normal_form_3, wf_ranges, wf_range in *.
    destruct (negb (neg c) && no_sub c && negb (no_cats c)); [|left; reflexivity].
    destruct (ranges c) as [|[a0 b0] [|[a1 b1] [|]]] eqn:Er; try (left; reflexivity).
    inversion Hw as [|? ? W0 Hw']; subst. inversion Hw' as [|? ? W0' _]; subst.
    destruct W0 as (W1 & W2 & W3); destruct W0' as (W4 & W5 & W6); cbn [fst snd] in *.
    destruct ((a0 =? 0) && (b0 + 2 =? a1) && (b1 =? max_rune)) eqn:E; [|left; reflexivity].
    right. split.
    - exists max_rune. split; [mlia|]. unfold mem, in_range; cbn. mlia.
    - destruct (char_in_categories cat_in (cats c) (b0 + 1)); [left; reflexivity|right].
      intros x Hx. unfold valid_rune in Hx. cbn [ranges set_ranges set_neg set_cats]. unfold mem, in_range; cbn. mlia.
  Qed.

  Lemma nf23_neg c : neg c = true -> normal_form_3 cat_in (normal_form_2 c) = c.
  Proof.
    intros Hn. unfold normal_form_2. rewrite Hn. cbn [negb andb]. unfold normal_form_3. rewrite Hn. reflexivity.
  Qed.

  Lemma nf3_anything c : normal_form_3 cat_in (make_anything c) = make_anything c.
  Proof. unfold normal_form_3. cbn [cats make_anything no_cats negb]. rewrite andb_false_r. reflexivity. Qed.

  (* the range part after canonicalize: the same set of code points, or - only when the class reached
     up to the last two code points - its complement or everything *)
  Lemma canonicalize_ranges_cases c : wf_ranges (ranges c) ->
    (forall x, valid_rune x -> mem (ranges (canonicalize cat_in c)) x = mem (ranges c) x) \/
    (has_top (ranges c) /\
     (flipped (ranges c) (ranges (canonicalize cat_in c)) \/ full (ranges (canonicalize cat_in c)))).
  Proof.
    intros Hw. rewrite canonicalize_unfold. destruct (ranges c) as [|r t] eqn:Er; [left; intros; rewrite Er; reflexivity|].
    rewrite <- Er in *.
    set (c0 := set_ranges c (merged (ranges c))).
    assert (M0 : forall x, mem (ranges c0) x = mem (ranges c) x) by (intros x; apply merged_mem; exact Hw).
    assert (W0 : wf_ranges (ranges c0)) by (apply merged_wf; exact Hw).
    assert (Top : has_top (ranges c0) -> has_top (ranges c)).
    { intros [w [H1 H2]]. exists w. split; [exact H1|]. rewrite <- M0. exact H2. }
    destruct (nf1_cases c0 W0) as [E1|(N1 & T1 & F1)].
    - rewrite E1. destruct (nf2_cases c0 W0) as [E2|(E2 & T2)].
      + rewrite E2. destruct (nf3_cases c0 W0) as [E3|(T3 & [E3|F3])].
        * rewrite E3. left. intros x _. apply M0.
        * rewrite E3. right. split; [exact (Top T3)|]. right. apply make_anything_full.
        * right. split; [exact (Top T3)|]. left. intros x Hx. rewrite (F3 x Hx), M0. reflexivity.
      + rewrite E2, nf3_anything. right. split; [exact (Top T2)|]. right. apply make_anything_full.
    - rewrite (nf23_neg _ N1). right. split; [exact (Top T1)|]. left.
      intros x Hx. rewrite (F1 x Hx), M0. reflexivity.
  Qed.

  Lemma canonicalize_anything c : anything c = true -> anything (canonicalize cat_in c) = true.
  Proof.
    intros Ha. rewrite canonicalize_unfold. destruct (ranges c) as [|r t] eqn:Er; [exact Ha|].
    set (c0 := set_ranges c (merged (r :: t))). assert (H0 : anything c0 = true) by exact Ha.
    assert (H1 : anything (normal_form_1 c0) = true).
    { unfold normal_form_1. destruct (negb (neg c0) && no_sub c0 && no_cats c0); [|exact H0].
      destruct (ranges c0) as [|[a0 b0] [|[a1 b1] [|]]]; try exact H0.
      - destruct (a0 =? 0); [destruct (b0 =? max_rune - 1); exact H0|]. destruct (a0 =? 1); [destruct (b0 >=? max_rune)|]; exact H0.
      - destruct ((a0 =? 0) && (b1 >=? max_rune) && (b0 <? a1 - 1)); exact H0. }
    set (c1 := normal_form_1 c0) in *.
    assert (H2 : anything (normal_form_2 c1) = true).
    { unfold normal_form_2. destruct (negb (neg c1) && no_sub c1); [|exact H1].
      destruct (ranges c1) as [|[a0 b0] [|]]; try exact H1. destruct ((a0 =? 0) && (b0 >=? max_rune)); [reflexivity|exact H1]. }
    set (c2 := normal_form_2 c1) in *.
    unfold normal_form_3. destruct (negb (neg c2) && no_sub c2 && negb (no_cats c2)); [|exact H2].
    destruct (ranges c2) as [|[a0 b0] [|[a1 b1] [|]]]; try exact H2.
    destruct ((a0 =? 0) && (b0 + 2 =? a1) && (b1 =? max_rune)); [|exact H2].
    destruct (char_in_categories cat_in (cats c2) (b0 + 1)); [reflexivity|exact H2].
  Qed.
End Cases.

(* ---------------------------------------------------------------- finished classes *)
Section Fin.
  Variable cat_in : Z -> Z -> bool.
  Variable simple_fold to_lower : Z -> Z.
  Hypothesis agree : forall x, In x dom_t -> simple_fold x = fold_t x /\ to_lower x = lower_t x.
  Variable B : Prop.
  Hypothesis Hout : B -> outside_ok simple_fold.

  Notation ace := (add_case_equivalences cat_in simple_fold orbit_fuel).

  (* membership does not distinguish the runes of one orbit of the table *)
  Definition closed_t (rs : list (Z * Z)) : Prop :=
    forall x, In x dom_t -> forall y, In y (orb x) -> mem rs y = mem rs x.
  Definition members_ok (rs : list (Z * Z)) : Prop :=
    forall x, mem rs x = true -> In x dom_t \/ B.

  Definition lvl (rs : list (Z * Z)) (an : bool) (asc : option (Z * Z)) : Prop :=
    wf_ranges rs /\ canonical_ranges rs /\ asc = None /\ (an = true \/ (closed_t rs /\ members_ok rs)).

  Fixpoint fin (c : cls) : Prop :=
    match c with
    | Cls rs _ sb _ an asc => lvl rs an asc /\ match sb with Some s => fin s | None => True end
    end.

  Lemma fin_intro c : lvl (ranges c) (anything c) (ascii c) ->
    match sub c with Some s => fin s | None => True end -> fin c.
  Proof. destruct c; cbn; auto. Qed.

  Lemma fin_canonical c : fin c -> canonical c /\ no_bitmaps c.
  Proof.
    induction c as [rs cs ng an asc | rs cs s ng an asc IH] using cls_induction; cbn;
      intros [(L1 & L2 & L3 & _) Hs]; [auto|]. destruct (IH Hs). auto.
  Qed.

  Lemma has_top_B rs : members_ok rs -> has_top rs -> B.
  Proof.
    intros Hm [w [H1 H2]]. destruct (Hm w H2) as [Hd|HB]; [|exact HB].
    pose proof (dom_bounds w Hd). lia.
  Qed.

  (* canonicalize keeps the level invariant, whichever normal form it picks *)
  Lemma canon_level c :
    wf_ranges (ranges c) -> ascii c = None ->
    (anything c = true \/ (closed_t (ranges c) /\ members_ok (ranges c))) ->
    lvl (ranges (canonicalize cat_in c)) (anything (canonicalize cat_in c)) (ascii (canonicalize cat_in c)).
  Proof.
    intros Hw Ha Hl. destruct (canonicalize_same_set cat_in c Hw) as (S1 & S2 & S3 & S4 & _).
    split; [exact S3|]. split; [exact S4|]. split; [congruence|].
    destruct Hl as [Hl|[Hc Hm]]; [left; apply canonicalize_anything; exact Hl|]. right.
    destruct (canonicalize_ranges_cases cat_in c Hw) as [Same|[Top [Flip|Full]]].
    - split.
      + intros x Hx y Hy. pose proof (dom_valid _ (orb_in_dom x y Hx Hy)) as Vy. pose proof (dom_valid x Hx) as Vx.
        rewrite (Same y Vy), (Same x Vx). apply Hc; assumption.
      + intros x Hx. pose proof (mem_valid _ x S3 Hx) as Vx. rewrite (Same x Vx) in Hx. apply Hm. exact Hx.
    - pose proof (has_top_B _ Hm Top) as HB. split; [|intros x _; right; exact HB].
      intros x Hx y Hy. pose proof (dom_valid _ (orb_in_dom x y Hx Hy)) as Vy. pose proof (dom_valid x Hx) as Vx.
      rewrite (Flip y Vy), (Flip x Vx). f_equal. apply Hc; assumption.
    - pose proof (has_top_B _ Hm Top) as HB. split; [|intros x _; right; exact HB].
      intros x Hx y Hy. pose proof (dom_valid _ (orb_in_dom x y Hx Hy)) as Vy. pose proof (dom_valid x Hx) as Vx.
      rewrite (Full y Vy), (Full x Vx). reflexivity.
  Qed.

  Definition opt_in (sb : option cls) (z : Z) : bool :=
    match sb with Some s => plain_in cat_in s z | None => false end.

  (* one level of addCaseEquivalences on a finished class *)
  Lemma ace_level rs cs sb sb' ng an asc :
    lvl rs an asc ->
    (forall z, In z dom_t -> opt_in sb' z = opt_in sb z) ->
    match sb' with Some s => fin s | None => True end ->
    exists c',
      (if an then Ok (Cls rs cs sb' ng an asc)
       else do e <- equivalences_of_ranges simple_fold orbit_fuel rs ;
            Ok (canonicalize cat_in (Cls (rs ++ e) cs sb' ng an asc))) = Ok c' /\
      fin c' /\ forall z, In z dom_t -> plain_in cat_in c' z = plain_in cat_in (Cls rs cs sb ng an asc) z.
  Proof.
    intros (L1 & L2 & L3 & L4) Hsub Hfin. destruct an.
    - eexists. split; [reflexivity|]. split.
      + cbn [fin]. split; [|exact Hfin]. unfold lvl. auto.
      + intros z Hz. cbn [plain_in]. specialize (Hsub z Hz). unfold opt_in in Hsub. rewrite Hsub. reflexivity.
    - destruct L4 as [L4|[Hc Hm]]; [discriminate|].
      destruct (equivalences_of_ranges_gen cat_in simple_fold to_lower agree rs) as (T & HT & HTs).
      { intros x Hx. apply (ceq_ok cat_in simple_fold to_lower agree B Hout x (mem_valid rs x L1 Hx) (Hm x Hx)). }
      rewrite HT. cbn [bind].
      set (c2 := Cls (rs ++ map (fun x : Z => (x, x)) T) cs sb' ng false asc).
      assert (InT : forall z, In z T -> valid_rune z /\ (In z dom_t \/ B) /\ (In z dom_t -> mem rs z = true)).
      { intros z Hz. apply HTs in Hz. destruct Hz as (x & Hx & Hz).
        destruct (proj2 (ceq_ok cat_in simple_fold to_lower agree B Hout x (mem_valid rs x L1 Hx) (Hm x Hx)) z Hz)
          as [Zv [(Xd & Zd & Zo)|(HB & Xn & Zn)]].
        - split; [exact Zv|]. split; [left; exact Zd|]. intros _.
          rewrite (Hc x Xd z); [exact Hx|]. rewrite orb_unfold. right. rewrite orb_unfold in Zo. exact Zo.
        - split; [exact Zv|]. split; [right; exact HB|]. intros Zd. contradiction. }
      assert (W2 : wf_ranges (ranges c2)).
      { cbn [ranges c2]. apply wf_ranges_app; [exact L1|]. unfold wf_ranges. apply Forall_forall. intros r Hr.
        apply in_map_iff in Hr. destruct Hr as [z [<- Hz]]. destruct (InT z Hz) as [Zv _]. unfold valid_rune in Zv.
        unfold wf_range; cbn [fst snd]. lia. }
      (* on the table the added equivalences are members already *)
      assert (K : forall z, In z dom_t -> mem (ranges c2) z = mem rs z).
      { intros z Hz. cbn [ranges c2]. rewrite mem_app. destruct (mem rs z) eqn:E; [reflexivity|]. cbn [orb].
        apply Bool.not_true_is_false. intros H. apply mem_singles in H. destruct (InT z H) as (_ & _ & Hin).
        rewrite (Hin Hz) in E. discriminate. }
      assert (Hc2 : closed_t (ranges c2)).
      { intros x Hx y Hy. rewrite (K y (orb_in_dom x y Hx Hy)), (K x Hx). apply Hc; assumption. }
      assert (Hm2 : members_ok (ranges c2)).
      { intros x Hx. cbn [ranges c2] in Hx. rewrite mem_app in Hx. apply orb_prop in Hx. destruct Hx as [Hx|Hx].
        - apply Hm. exact Hx.
        - apply mem_singles in Hx. apply (InT x Hx). }
      eexists. split; [reflexivity|].
      destruct (canonicalize_same_set cat_in c2 W2) as (S1 & S2 & S3 & S4 & S5).
      split.
      + apply fin_intro.
        * apply canon_level; [exact W2|exact L3|right; split; assumption].
        * rewrite S1. exact Hfin.
      + intros z Hz. rewrite plain_in_top. rewrite (S5 z (dom_valid z Hz)). unfold sub_in. rewrite S1.
        cbn [sub c2 plain_in]. unfold top_in. cbn [neg cats c2]. rewrite (K z Hz).
        specialize (Hsub z Hz). unfold opt_in in Hsub. rewrite Hsub. reflexivity.
  Qed.

  Theorem ace_fin c : fin c ->
    exists c', ace c = Ok c' /\ fin c' /\ forall z, In z dom_t -> plain_in cat_in c' z = plain_in cat_in c z.
  Proof.
    induction c as [rs cs ng an asc | rs cs s ng an asc IH] using cls_induction; cbn [fin]; intros [Hl Hs].
    - cbn [add_case_equivalences bind]. apply (ace_level rs cs None None ng an asc Hl); [reflexivity|exact I].
    - destruct (IH Hs) as (s' & Hs' & F' & P'). cbn [add_case_equivalences]. rewrite Hs'. cbn [bind].
      apply (ace_level rs cs (Some s) (Some s') ng an asc Hl); [exact P'|exact F'].
  Qed.

End Fin.
