(* char_in_denote under IgnoreCase: assembly over the bracket-expression syntax. *)
From Coq Require Import FMapPositive ZifyBool.
From Verif Require Import Base.Prelude Model.CharClass Model.FoldD
  Proofs.CharClassRanges Proofs.CharClassProofs Proofs.CharClassElab
  Proofs.CharClassFold Proofs.CharClassFoldThm Proofs.CharClassCi Proofs.CharClassCi2 Proofs.CharClassCi3
  Proofs.CharClassCi4.

Section CiDenote.
  Variable cat_in : Z -> Z -> bool.
  Variable simple_fold to_lower : Z -> Z.
  Hypothesis agree : forall x, In x dom_t -> simple_fold x = fold_t x /\ to_lower x = lower_t x.
  Variable o : opts.
  Hypothesis Hci : o_ci o = true.

  Notation den := (denote cat_in simple_fold orbit_fuel).
  Notation litd := (lit_den cat_in simple_fold orbit_fuel o).
  Notation catd := (cat_den cat_in simple_fold orbit_fuel o).
  Notation ace := (add_case_equivalences cat_in simple_fold orbit_fuel).

  (* code-point members allowed under IgnoreCase lie in the good part of the table *)
  Lemma litd_good it x : wf_item it -> ci_item_ok o it -> litd it x = true -> In x good_dom.
  Proof.
    intros Hw Hok H. unfold lit_den in H.
    destruct it as [a b|ng|ng|ng|ng name|ng k]; cbn [item_lit_exp] in H; cbn in Hok.
    - cbn in H. rewrite orb_false_r in H. apply Hok. lia.
    - destruct (o_ecma o || o_re2 o) eqn:E; [|discriminate]. rewrite (Hok eq_refl) in H.
      cbn [existsb] in H. rewrite den_neg_if in H. cbn [denote] in H. rewrite xorb_false_l, orb_false_r in H.
      apply good_ecma_digit. unfold mem, in_range, ecma_digit_ranges; cbn [existsb fst snd]. rewrite orb_false_r. exact H.
    - destruct (o_ecma o) eqn:Ee.
      + cbn [orb] in Hok. rewrite (Hok eq_refl) in H. cbn [existsb] in H.
        rewrite den_neg_if, den_ranges_exp, xorb_false_l, orb_false_r in H. apply good_ecma_space. exact H.
      + cbn [orb] in Hok. destruct (o_re2 o) eqn:Er; [|discriminate]. rewrite (Hok eq_refl) in H. cbn [existsb] in H.
        rewrite den_neg_if, den_ranges_exp, xorb_false_l, orb_false_r in H. apply good_re2_space. exact H.
    - destruct (o_ecma o || o_re2 o) eqn:E; [|discriminate]. rewrite (Hok eq_refl) in H.
      cbn [existsb] in H. rewrite den_neg_if, den_ranges_exp, xorb_false_l, orb_false_r in H. apply good_ecma_word. exact H.
    - discriminate.
    - subst ng. cbn in Hw. cbn [existsb] in H.
      rewrite den_neg_if, den_ranges_exp, xorb_false_l, orb_false_r in H. apply (good_posix k Hw). exact H.
  Qed.

  Lemma canonicalize_anything c : anything c = true -> anything (canonicalize cat_in c) = true.
  Proof.
    intros Ha. rewrite canonicalize_unfold. destruct (ranges c) as [|r t] eqn:Er; [exact Ha|].
    set (c0 := set_ranges c (merged (r :: t))). assert (H0 : anything c0 = true) by exact Ha.
    assert (H1 : anything (normal_form_1 c0) = true).
    { unfold normal_form_1. destruct (negb (neg c0) && no_sub c0 && no_cats c0); [|exact H0].
      destruct (ranges c0) as [|[a0 b0] [|[a1 b1] [|]]]; try exact H0.
      - destruct (a0 =? 0); [destruct (b0 =? max_rune - 1); exact H0|]. destruct (a0 =? 1); [destruct (b0 >=? max_rune)|]; exact H0.
      - destruct ((a0 =? 0) && (b1 >=? max_rune) && (b0 <? a1 - 1)); exact H0. }
    set (c1 := normal_form_1 c0) in *.
    assert (H2 : anything (normal_form_2 c1) = true).
    { unfold normal_form_2. destruct (negb (neg c1) && no_sub c1); [|exact H1].
      destruct (ranges c1) as [|[a0 b0] [|]]; try exact H1. destruct ((a0 =? 0) && (b0 >=? max_rune)); [reflexivity|exact H1]. }
    set (c2 := normal_form_2 c1) in *.
    unfold normal_form_3. destruct (negb (neg c2) && no_sub c2 && negb (no_cats c2)); [|exact H2].
    destruct (ranges c2) as [|[a0 b0] [|[a1 b1] [|]]]; try exact H2.
    destruct ((a0 =? 0) && (b0 + 2 =? a1) && (b1 =? max_rune)); [|exact H2].
    destruct (char_in_categories cat_in (cats c2) (b0 + 1)); [reflexivity|exact H2].
  Qed.

  Lemma fine_init : fine cat_in (Cls [] [] None true false None) (fun _ => false) (fun _ => false).
  Proof. split; [intros _; split; reflexivity|intros H; discriminate]. Qed.

  Definition done (s : csyn) (c' : cls) : Prop :=
    canonical c' /\ no_bitmaps c' /\
    forall z, In z dom_t -> plain_in cat_in c' z = den (sem o s) z.

  Lemma dom_valid z : In z dom_t -> valid_rune z.
  Proof. intros H. pose proof (dom_bounds z H). unfold valid_rune. lia. Qed.

  Theorem scan_ci s : wf_syn s -> ci_syn_ok o s ->
    exists c', ace (scan_char_set cat_in to_lower o s) = Ok c' /\ done s c'.
  Proof.
    induction s as [ng items | ng items s' IH] using csyn_induction; intros Hw Hok;
      cbn in Hw, Hok; destruct Hw as [Hw Hw']; destruct Hok as [Hok Hok'].
    all: assert (Hg : Forall (item_guard o) items) by
        (apply Forall_forall; intros it Hit; apply ci_item_guard; rewrite Forall_forall in Hok; auto).
    all: destruct (items_step cat_in simple_fold orbit_fuel o items _ scan_inv_init Hw Hg) as [Hinv _].
    all: pose proof (fine_items cat_in simple_fold to_lower agree o Hci items _ _ _ scan_inv_init fine_init Hw Hok) as Hf.
    all: cbn [scan_char_set]; rewrite Hci.
    all: set (c0 := fold_left (elab_item cat_in o) items (Cls [] [] None true false None)) in *.
    all: destruct Hinv as (I1 & I2 & I3 & I4 & I5 & I6).
    all: destruct Hf as [F1 F2].
    (* what the items denote, in terms of sem *)
    all: assert (HL : forall x, (false || existsb (fun it => litd it x) items) =
                                den (CUnion (flat_map (item_lit_exp o) items)) x)
        by (intros x; cbn [orb denote]; rewrite existsb_flat_map; reflexivity).
    all: assert (HK : forall x, (false || existsb (fun it => catd it x) items) =
                                existsb (fun e => den e x) (flat_map (item_cat_exp o) items))
        by (intros x; cbn [orb]; rewrite existsb_flat_map; reflexivity).
    - (* no subtraction *)
      set (c00 := set_neg c0 ng).
      assert (Hw0 : wf_ranges (ranges c00)) by exact I4.
      destruct (anything c0) eqn:Ea.
      + (* X and not-X among the categories: the class is "anything" *)
        pose proof (canonicalize_same_set cat_in c00 Hw0) as (S1 & S2 & S3 & S4 & S5).
        pose proof (canonicalize_anything c00 Ea) as Ha1.
        set (c1 := canonicalize cat_in c00) in *.
        assert (Hl : add_lowercase cat_in to_lower c1 = c1) by (unfold add_lowercase; rewrite Ha1; reflexivity).
        rewrite Hl. destruct c1 as [rs cs sb ngc an asc] eqn:Ec1. cbn [sub ascii anything ranges] in *.
        subst an. cbn [sub set_neg c00] in S1. rewrite I2 in S1. subst sb.
        cbn [ascii set_neg c00] in S2. rewrite I3 in S2. subst asc.
        eexists. split; [cbn [add_case_equivalences bind]; reflexivity|].
        split; [cbn; auto|]. split; [cbn; auto|].
        intros z Hz. pose proof (dom_valid z Hz) as Hv.
        rewrite plain_in_top. unfold sub_in; cbn [sub]. rewrite andb_true_r. rewrite S5 by exact Hv.
        rewrite top_in_body. cbn [neg set_neg c00]. change (body cat_in c00 z) with (body cat_in c0 z).
        rewrite (any_inv_body cat_in c0 z I6 Ea Hv).
        rewrite sem_unfold. cbn zeta. rewrite Hci. rewrite den_neg_if. f_equal.
        cbn [denote existsb]. rewrite <- HK. rewrite (F2 eq_refl z). rewrite orb_true_r. reflexivity.
      + destruct (F1 eq_refl) as [G1 G2].
        assert (Hgood : forall x, mem (ranges c00) x = true -> In x good_dom).
        { intros x Hx. change (ranges c00) with (ranges c0) in Hx. rewrite G1 in Hx. cbn [orb] in Hx.
          apply existsb_exists in Hx. destruct Hx as [it [Hit Hx]].
          rewrite Forall_forall in Hw, Hok. apply (litd_good it x (Hw it Hit) (Hok it Hit) Hx). }
        assert (Hb : forall y, mem (ranges c00) y = true -> y < max_rune - 1).
        { intros y Hy. apply (dom_bounds y). exact (proj1 (proj1 (good_dom_In y) (Hgood y Hy))). }
        rewrite (canonicalize_bounded cat_in simple_fold to_lower agree c00 Hw0 Hb).
        set (c1 := set_ranges c00 (merged (ranges c00))).
        assert (M1 : forall x, mem (ranges c1) x = mem (ranges c0) x) by (intros x; cbn [ranges set_ranges c1]; apply merged_mem; exact Hw0).
        destruct (ci_closure_sub cat_in simple_fold to_lower agree c1 None) as (c' & Hc' & N1 & N2 & N3 & N4 & N5 & N6 & N7 & N8).
        { exact Ea. }
        { cbn [ranges set_ranges c1]. apply merged_wf. exact Hw0. }
        { intros x Hx. rewrite M1 in Hx. apply Hgood. exact Hx. }
        { cbn [sub set_ranges c1 set_neg c00]. rewrite I2. reflexivity. }
        exists c'. split; [exact Hc'|].
        split; [apply canonical_intro; [exact N6|rewrite N3; exact I]|].
        split; [apply no_bitmaps_intro; [rewrite N5; cbn [ascii set_ranges c1 set_neg c00]; exact I3|rewrite N3; exact I]|].
        intros z Hz. rewrite plain_in_top. unfold sub_in. rewrite N3. rewrite andb_true_r.
        unfold top_in. rewrite N1, N2. cbn [neg cats set_ranges c1 set_neg c00].
        rewrite (N8 z Hz). rewrite G2.
        rewrite sem_unfold. cbn zeta. rewrite Hci. rewrite den_neg_if. f_equal.
        cbn [denote existsb]. rewrite <- HK. f_equal.
        apply existsb_ext'. intros x. rewrite M1, G1. apply HL.
    - (* with a subtraction *)
      destruct (IH Hw' Hok') as (s'' & Hs'' & D1 & D2 & D3).
      set (sc := scan_char_set cat_in to_lower o s') in *.
      set (c00 := set_neg (add_subtraction c0 sc) ng).
      assert (Hw0 : wf_ranges (ranges c00)) by exact I4.
      destruct (anything c0) eqn:Ea.
      + pose proof (canonicalize_same_set cat_in c00 Hw0) as (S1 & S2 & S3 & S4 & S5).
        pose proof (canonicalize_anything c00 Ea) as Ha1.
        set (c1 := canonicalize cat_in c00) in *.
        assert (Hl : add_lowercase cat_in to_lower c1 = c1) by (unfold add_lowercase; rewrite Ha1; reflexivity).
        rewrite Hl. destruct c1 as [rs cs sb ngc an asc] eqn:Ec1. cbn [sub ascii anything ranges] in *.
        subst an. cbn [sub set_neg c00 add_subtraction set_sub] in S1. subst sb.
        cbn [ascii set_neg c00 add_subtraction set_sub] in S2. rewrite I3 in S2. subst asc.
        eexists. split; [cbn [add_case_equivalences]; rewrite Hs''; cbn [bind]; reflexivity|].
        split; [cbn; auto|]. split; [cbn; auto|].
        intros z Hz. pose proof (dom_valid z Hz) as Hv.
        cbn [plain_in].
        assert (Ht : top_in cat_in (Cls rs cs (Some sc) ngc true None) z = xorb ngc (mem rs z || cats_in cat_in cs z)) by reflexivity.
        rewrite <- Ht. rewrite S5 by exact Hv.
        rewrite top_in_body. cbn [neg set_neg c00].
        change (body cat_in c00 z) with (body cat_in c0 z).
        rewrite (any_inv_body cat_in c0 z I6 Ea Hv).
        rewrite (D3 z Hz).
        rewrite sem_unfold. cbn zeta. rewrite Hci. cbn [denote]. rewrite den_neg_if. f_equal. f_equal.
        cbn [denote existsb]. rewrite <- HK. rewrite (F2 eq_refl z). rewrite orb_true_r. reflexivity.
      + destruct (F1 eq_refl) as [G1 G2].
        assert (Hgood : forall x, mem (ranges c00) x = true -> In x good_dom).
        { intros x Hx. change (ranges c00) with (ranges c0) in Hx. rewrite G1 in Hx. cbn [orb] in Hx.
          apply existsb_exists in Hx. destruct Hx as [it [Hit Hx]].
          rewrite Forall_forall in Hw, Hok. apply (litd_good it x (Hw it Hit) (Hok it Hit) Hx). }
        assert (Hb : forall y, mem (ranges c00) y = true -> y < max_rune - 1).
        { intros y Hy. apply (dom_bounds y). exact (proj1 (proj1 (good_dom_In y) (Hgood y Hy))). }
        rewrite (canonicalize_bounded cat_in simple_fold to_lower agree c00 Hw0 Hb).
        set (c1 := set_ranges c00 (merged (ranges c00))).
        assert (M1 : forall x, mem (ranges c1) x = mem (ranges c0) x) by (intros x; cbn [ranges set_ranges c1]; apply merged_mem; exact Hw0).
        destruct (ci_closure_sub cat_in simple_fold to_lower agree c1 (Some s'')) as (c' & Hc' & N1 & N2 & N3 & N4 & N5 & N6 & N7 & N8).
        { exact Ea. }
        { cbn [ranges set_ranges c1]. apply merged_wf. exact Hw0. }
        { intros x Hx. rewrite M1 in Hx. apply Hgood. exact Hx. }
        { cbn [sub set_ranges c1 set_neg c00 add_subtraction set_sub]. exists s''. split; [exact Hs''|reflexivity]. }
        exists c'. split; [exact Hc'|].
        split; [apply canonical_intro; [exact N6|rewrite N3; exact D1]|].
        split; [apply no_bitmaps_intro; [rewrite N5; cbn [ascii set_ranges c1 set_neg c00 add_subtraction set_sub]; exact I3|rewrite N3; exact D2]|].
        intros z Hz. rewrite plain_in_top. unfold sub_in. rewrite N3. rewrite (D3 z Hz).
        unfold top_in. rewrite N1, N2. cbn [neg cats set_ranges c1 set_neg c00 add_subtraction set_sub].
        rewrite (N8 z Hz). rewrite G2.
        rewrite sem_unfold. cbn zeta. rewrite Hci. cbn [denote]. rewrite den_neg_if. f_equal. f_equal.
        cbn [denote existsb]. rewrite <- HK. f_equal.
        apply existsb_ext'. intros x. rewrite M1, G1. apply HL.
  Qed.

  (* char_in_denote under IgnoreCase, on the runes of the table *)
  Theorem char_in_denote_ci s c z :
    wf_syn s -> ci_syn_ok o s -> In z dom_t ->
    elab cat_in simple_fold to_lower orbit_fuel s o = Ok c ->
    char_in cat_in c z = den (sem o s) z.
  Proof.
    intros Hw Hok Hz He. unfold elab in He. rewrite Hci in He.
    destruct (scan_ci s Hw Hok) as (c' & Hc' & D1 & D2 & D3). rewrite Hc' in He. injection He as <-.
    destruct (lookup_agree cat_in c' D1 (no_bitmaps_ok cat_in c' D2) z) as [_ L]. rewrite L. apply D3. exact Hz.
  Qed.

End CiDenote.

(* all of ASCII and all of pair_dom are admissible members under IgnoreCase; exactly three runes of
   the table are not *)
Lemma bad_points_ok :
  bad_pts = [215; 304; 7838] /\
  forallb (fun x => zmem x good_dom) (ascii_dom ++ pair_dom) = true.
Proof.
  split; [vm_compute; reflexivity|].
  change ((fun g => forallb (fun x => zmem x g) (ascii_dom ++ pair_dom)) good_dom = true).
  vm_compute. reflexivity.
Qed.

Lemma ascii_good x : 0 <= x < 128 -> In x good_dom.
Proof.
  intros H. pose proof (proj2 bad_points_ok) as G. rewrite forallb_forall in G.
  apply zmem_In. apply G. apply in_or_app. left. apply in_ascii_dom. exact H.
Qed.

Lemma pair_good x : In x pair_dom -> In x good_dom.
Proof.
  intros H. pose proof (proj2 bad_points_ok) as G. rewrite forallb_forall in G.
  apply zmem_In. apply G. apply in_or_app. right. exact H.
Qed.
