(* IgnoreCase, general class-level statement (continued): oracle agreement, enumeration of
   equivalences, canonicalize on bounded classes, addLowercase, and the closure theorem. *)
From Coq Require Import FMapPositive ZifyBool.
From Verif Require Import Base.Prelude Model.CharClass Model.FoldD
  Proofs.CharClassRanges Proofs.CharClassProofs Proofs.CharClassFold Proofs.CharClassFoldThm Proofs.CharClassCi.

(* ---------------------------------------------------------------- the four lcTable operations *)
Lemma lor1 x : 0 <= x -> Z.lor x 1 = if Z.even x then x + 1 else x.
Proof. intros H. destruct x as [|p|p]; [reflexivity| |lia]. destruct p; cbn; try reflexivity; lia. Qed.

Lemma land1 x : 0 <= x -> Z.land x 1 = if Z.even x then 0 else 1.
Proof. intros H. destruct x as [|p|p]; [reflexivity| |lia]. destruct p; cbn; reflexivity. Qed.

Lemma op_interval op data mn mx y : 0 <= mn -> mn <= mx ->
  op_apply op data mn <= y <= op_apply op data mx ->
  (mn <= y <= mx) \/ exists x, mn <= x <= mx /\ y = op_apply op data x.
Proof.
  intros H0 Hm Hy. unfold op_apply in *.
  destruct (op =? 0); [right; exists mn; split; lia|].
  destruct (op =? 1); [right; exists (y - data); split; lia|].
  destruct (op =? 2).
  { rewrite !lor1 in Hy by lia. destruct (y <=? mx) eqn:E.
    - left. destruct (Z.even mn); lia.
    - right. exists mx. split; [lia|]. rewrite lor1 by lia. destruct (Z.even mx), (Z.even mn); lia. }
  destruct (op =? 3).
  { rewrite !land1 in Hy by lia. destruct (y <=? mx) eqn:E.
    - left. destruct (Z.even mn); lia.
    - right. exists mx. split; [lia|]. rewrite land1 by lia. destruct (Z.even mx), (Z.even mn); lia. }
  left. lia.
Qed.

Lemma op_monotone op data mn mx : 0 <= mn -> mn <= mx -> op_apply op data mn <= op_apply op data mx.
Proof.
  intros H0 Hm. unfold op_apply.
  destruct (op =? 0); [lia|]. destruct (op =? 1); [lia|].
  destruct (op =? 2); [rewrite !lor1 by lia; destruct (Z.even mn) eqn:E1, (Z.even mx) eqn:E2; try lia|].
  - destruct (mn =? mx) eqn:E; [assert (mn = mx) by lia; subst; congruence|lia].
  - destruct (op =? 3); [|lia]. rewrite !land1 by lia. destruct (Z.even mn) eqn:E1, (Z.even mx) eqn:E2; try lia.
    destruct (mn =? mx) eqn:E; [assert (mn = mx) by lia; subst; congruence|lia].
Qed.

Lemma good_pt_facts x : good_pt x = true ->
  In x dom_t /\ In (lower_t x) (orb x) /\
  forall e, In e lc_table -> entry_covers e x -> In (entry_op e x) (orb x).
Proof.
  unfold good_pt. intros H. apply andb_prop in H. destruct H as [H H3]. apply andb_prop in H. destruct H as [H1 H2].
  split; [apply zmem_In; exact H1|]. split; [apply zmem_In; exact H2|].
  intros [[[lmin lmax] op] data] He Hc. rewrite forallb_forall in H3. specialize (H3 _ He). cbn in H3, Hc.
  apply orb_prop in H3. destruct H3 as [H3|H3]; [lia|]. apply zmem_In. exact H3.
Qed.

Lemma good_dom_In x : In x good_dom <-> In x dom_t /\ good_pt x = true.
Proof. unfold good_dom. apply filter_In. Qed.

Lemma mem_singles L z : mem (map (fun x : Z => (x, x)) L) z = true <-> In z L.
Proof.
  rewrite mem_true_iff. split.
  - intros [r [Hr Hz]]. apply in_map_iff in Hr. destruct Hr as [x [<- Hx]]. cbn in Hz. assert (z = x) by lia. subst. exact Hx.
  - intros H. exists (z, z). split; [apply in_map_iff; exists z; auto|cbn; lia].
Qed.

Section Ci.
  Variable cat_in : Z -> Z -> bool.
  Variable simple_fold to_lower : Z -> Z.
  (* the oracles agree with the generated table on its domain (checked by leg c16-class-0: the table
     IS what the running toolchain computes) *)
  Hypothesis agree : forall x, In x dom_t -> simple_fold x = fold_t x /\ to_lower x = lower_t x.

  Lemma orb_unfold x : orb x = x :: orbit_walk fold_t orbit_fuel x x.
  Proof. reflexivity. Qed.

  Lemma fold_closed x : In x dom_t -> In (fold_t x) dom_t.
  Proof.
    intros Hx. destruct (rel_facts x Hx) as (F1 & _).
    destruct (fold_t x =? x) eqn:E; [assert (fold_t x = x) by lia; congruence|].
    apply (F1 (fold_t x)). rewrite orb_unfold. right.
    change orbit_fuel with (S 7). cbn [orbit_walk]. rewrite E. left. reflexivity.
  Qed.

  Lemma fold_orbit_agree fuel : forall ch cur, In cur dom_t ->
    fold_orbit simple_fold fuel ch cur = fold_orbit fold_t fuel ch cur.
  Proof.
    induction fuel as [|f IH]; intros ch cur Hc; [reflexivity|].
    cbn [fold_orbit]. rewrite (proj1 (agree cur Hc)).
    destruct (fold_t cur =? ch); [reflexivity|]. rewrite IH by (apply fold_closed; exact Hc). reflexivity.
  Qed.

  Lemma orbit_walk_agree fuel : forall ch cur, In cur dom_t ->
    orbit_walk simple_fold fuel ch cur = orbit_walk fold_t fuel ch cur.
  Proof.
    induction fuel as [|f IH]; intros ch cur Hc; [reflexivity|].
    cbn [orbit_walk]. rewrite (proj1 (agree cur Hc)).
    destruct (fold_t cur =? ch); [reflexivity|]. rewrite IH by (apply fold_closed; exact Hc). reflexivity.
  Qed.

  Lemma orbit_agree x : In x dom_t -> orbit simple_fold orbit_fuel x = orb x.
  Proof. intros H. unfold orb, orbit. rewrite orbit_walk_agree by exact H. reflexivity. Qed.

  Lemma case_equivalences_agree x : In x dom_t ->
    exists l, case_equivalences simple_fold orbit_fuel x = Ok l /\ x :: l = orb x.
  Proof.
    intros H. destruct (rel_facts x H) as (_ & (l & Hl & Ho) & _). exists l. split; [|exact Ho].
    unfold case_equivalences in *. rewrite fold_orbit_agree by exact H. exact Hl.
  Qed.

  (* ---------------------------------------------------------------- enumerating the equivalences *)
  Lemma equivalences_of_range_spec : forall n lo,
    (forall x, lo <= x < lo + Z.of_nat n -> In x dom_t) ->
    exists L, equivalences_of_range simple_fold orbit_fuel lo n = Ok (map (fun x : Z => (x, x)) L) /\
              forall z, In z L <-> exists x, lo <= x < lo + Z.of_nat n /\ In z (tl (orb x)).
  Proof.
    induction n as [|n IH]; intros lo Hd.
    - exists []. split; [reflexivity|]. intros z. split; [intros []|intros [x [H _]]; lia].
    - destruct (case_equivalences_agree lo (Hd lo ltac:(lia))) as (l & Hl & Ho).
      destruct (IH (lo + 1) ltac:(intros x Hx; apply Hd; lia)) as (L & HL & HLs).
      exists (l ++ L). split.
      + cbn [equivalences_of_range]. rewrite Hl. cbn [bind]. rewrite HL. cbn [bind]. rewrite map_app. reflexivity.
      + intros z. rewrite in_app_iff. rewrite HLs. split.
        * intros [H|[x [Hx Hz]]].
          -- exists lo. split; [lia|]. rewrite <- Ho. exact H.
          -- exists x. split; [lia|exact Hz].
        * intros [x [Hx Hz]]. destruct (x =? lo) eqn:E.
          -- assert (x = lo) by lia. subst x. left. rewrite <- Ho in Hz. exact Hz.
          -- right. exists x. split; [lia|exact Hz].
  Qed.

  Lemma equivalences_of_ranges_spec : forall rs,
    (forall x, mem rs x = true -> In x dom_t) ->
    exists L, equivalences_of_ranges simple_fold orbit_fuel rs = Ok (map (fun x : Z => (x, x)) L) /\
              forall z, In z L <-> exists x, mem rs x = true /\ In z (tl (orb x)).
  Proof.
    induction rs as [|[a b] t IH]; intros Hd.
    - exists []. split; [reflexivity|]. intros z. split; [intros []|intros [x [H _]]; discriminate].
    - assert (Hr : forall x, a <= x <= b <-> in_range (a, b) x = true) by (intros x; unfold in_range; cbn; lia).
      destruct (equivalences_of_range_spec (Z.to_nat (b - a + 1)) a) as (L1 & H1 & H1s).
      { intros x Hx. apply Hd. rewrite mem_cons. apply orb_true_iff. left. apply Hr. lia. }
      destruct IH as (L2 & H2 & H2s).
      { intros x Hx. apply Hd. rewrite mem_cons. rewrite Hx. apply orb_true_r. }
      exists (L1 ++ L2). split.
      + cbn [equivalences_of_ranges]. rewrite H1. cbn [bind]. rewrite H2. cbn [bind]. rewrite map_app. reflexivity.
      + intros z. rewrite in_app_iff, H1s, H2s. split.
        * intros [[x [Hx Hz]]|[x [Hx Hz]]]; exists x; (split; [|exact Hz]); rewrite mem_cons.
          -- apply orb_true_iff. left. apply Hr. lia.
          -- rewrite Hx. apply orb_true_r.
        * intros [x [Hx Hz]]. rewrite mem_cons in Hx. apply orb_prop in Hx. destruct Hx as [Hx|Hx].
          -- left. exists x. split; [apply Hr in Hx; lia|exact Hz].
          -- right. exists x. split; auto.
  Qed.

  (* ---------------------------------------------------------------- canonicalize on a bounded class *)
  Lemma nf_bounded c : (forall r, In r (ranges c) -> snd r < max_rune - 1) ->
    normal_form_3 cat_in (normal_form_2 (normal_form_1 c)) = c.
  Proof.
    intros Hb.
    assert (E1 : normal_form_1 c = c).
    { unfold normal_form_1. destruct (negb (neg c) && no_sub c && no_cats c); [|reflexivity].
      destruct (ranges c) as [|[a0 b0] [|[a1 b1] [|]]] eqn:Er; try reflexivity.
      - assert (H : snd (a0, b0) < max_rune - 1) by (apply Hb; rewrite ?Er; left; reflexivity). cbn [snd] in H.
        destruct (a0 =? 0); [replace (b0 =? max_rune - 1) with false by lia; reflexivity|].
        destruct (a0 =? 1); [replace (b0 >=? max_rune) with false by lia; reflexivity|reflexivity].
      - assert (H : snd (a1, b1) < max_rune - 1) by (apply Hb; rewrite ?Er; right; left; reflexivity). cbn [snd] in H.
        replace (b1 >=? max_rune) with false by lia. rewrite andb_false_r. reflexivity. }
    rewrite E1.
    assert (E2 : normal_form_2 c = c).
    { unfold normal_form_2. destruct (negb (neg c) && no_sub c); [|reflexivity].
      destruct (ranges c) as [|[a0 b0] [|]] eqn:Er; try reflexivity.
      assert (H : snd (a0, b0) < max_rune - 1) by (apply Hb; rewrite ?Er; left; reflexivity). cbn [snd] in H.
      replace (b0 >=? max_rune) with false by lia. rewrite andb_false_r. reflexivity. }
    rewrite E2.
    unfold normal_form_3. destruct (negb (neg c) && no_sub c && negb (no_cats c)); [|reflexivity].
    destruct (ranges c) as [|[a0 b0] [|[a1 b1] [|]]] eqn:Er; try reflexivity.
    assert (H : snd (a1, b1) < max_rune - 1) by (apply Hb; rewrite ?Er; right; left; reflexivity). cbn [snd] in H.
    replace (b1 =? max_rune) with false by lia. rewrite andb_false_r. reflexivity.
  Qed.

  Lemma canonicalize_bounded c : wf_ranges (ranges c) ->
    (forall y, mem (ranges c) y = true -> y < max_rune - 1) ->
    canonicalize cat_in c = set_ranges c (merged (ranges c)).
  Proof.
    intros Hw Hb. rewrite canonicalize_unfold. destruct (ranges c) as [|r t] eqn:Er.
    - destruct c; cbn in *; subst; reflexivity.
    - rewrite <- Er in *. apply nf_bounded. cbn [ranges set_ranges].
      intros r0 Hr0. pose proof (merged_wf _ Hw) as Hmw. unfold wf_ranges in Hmw. rewrite Forall_forall in Hmw.
      destruct (Hmw r0 Hr0) as (W1 & W2 & W3).
      apply Hb. rewrite <- merged_mem by exact Hw. apply mem_true_iff. exists r0. split; [exact Hr0|lia].
  Qed.

End Ci.
