(* Per-opcode lemmas for the single-character loops: X-rep, X-loop, X-loopatomic, X-lazy
   (X = One, Notone, Set; either direction), by symbolic evaluation of VM.step, in terms of
   Spec.run_len; then their root-slot liftings. *)
From Verif Require Import Base.Prelude Model.Tree Model.Spec Model.VM Model.Writer Gen.RunnerGen
  Proofs.VMU Proofs.VMUOps Proofs.VMUOps2 Proofs.VMCapacityProofs Proofs.CharLoopFacts.
From Coq Require Import Relations ZifyBool.

Section Ops4.
Variable e : env.
Variable p : program.
Hypothesis tc_nonneg : 0 <= trackcount p.

Notation ustep := (VMU.ustep e p).
Notation mk := VMU.mk.

Ltac start H0 :=
  unfold VMU.ustep, step; cbn [repad VMU.mk pc mode tp track stack crawl mcaps tcap scap]; rewrite H0.
Ltac fin := cbn [bind cont norm VMU.mk repad set_pc set_tp set_track set_stack set_caps set_tcap set_scap pc mode tp track stack crawl mcaps tcap scap app];
            try reflexivity.
Ltac pcs := cbn [repad VMU.mk set_pc set_tp set_track set_stack set_caps pc]; lia.
Ltac adv n H := erewrite (advance_at p _ _ n) by (first [exact H | pcs]).
Ltac opn a H := erewrite (opnd_at p _ _ a) by (first [exact H | pcs]).
Ltac gto H := erewrite goto_ok by (first [exact H | room]).
Ltac tpu := rewrite tpush_ok by room; cbn [bind].
Ltac spu := rewrite spush_ok by room; cbn [bind].
Ltac fail_to H3 := (erewrite brk_ok; [| cbn [repad VMU.mk set_pc set_tp set_track set_stack set_caps track]; reflexivity | exact H3 | room | room]).

Lemma rtl_of_rep_op k o : rtl_of (rep_op k + bits_of o) = is_rtl o.
Proof. unfold rtl_of, bits_of. destruct (is_rtl o), (is_ci o), k; reflexivity. Qed.
Lemma rtl_of_loop_op k l o : rtl_of (loop_op k l + bits_of o) = is_rtl o.
Proof. unfold rtl_of, bits_of. destruct (is_rtl o), (is_ci o), k, l; reflexivity. Qed.
Lemma bump_dir w o : rtl_of w = is_rtl o -> bump w = dir o.
Proof. intros H. unfold bump, dir. rewrite H. reflexivity. Qed.
Lemma fwdchars_avail w o s : rtl_of w = is_rtl o -> fwdchars e w s = avail e o (tp s).
Proof. intros H. unfold fwdchars, avail. rewrite H. reflexivity. Qed.

Ltac fix_rep kk cc :=
  match goal with |- context [rep_chars e ?w ?f ?N ?t] =>
    change (rep_chars e w f N t) with (rep_chars e w (char_test e kk cc) N t) end.
Ltac fix_loop kk cc :=
  match goal with |- context [loop_chars e ?w ?f ?N ?t] =>
    change (loop_chars e w f N t) with (loop_chars e w (char_test e kk cc) N t) end.

(* ---------- X-rep c m : exactly m characters ---------- *)
Lemma ustep_rep_ok k o c m pc0 t T S C M w2 :
  code_at p pc0 = Some (rep_op k + bits_of o) -> code_at p (pc0 + 1) = Some c -> code_at p (pc0 + 2) = Some m ->
  code_at p (pc0 + 3) = Some w2 -> 0 <= t <= tlen e -> 0 <= m ->
  (m <=? avail e o t) && (run_len e k c o (Z.to_nat m) t =? m) = true ->
  ustep (mk pc0 0 t T S C M) = Ok (Next (mk (pc0 + 3) 0 (t + dir o * m) T S C M)).
Proof.
  intros H0 H1 H2 H3 Ht Hm Hok.
  set (w := rep_op k + bits_of o) in *.
  assert (Hw : Z.land w 63 = rep_op k) by (apply cp_land_bits; destruct k; cbv; split; congruence).
  assert (Hr : rtl_of w = is_rtl o) by apply rtl_of_rep_op.
  clearbody w. apply andb_prop in Hok. destruct Hok as [Ha Hrl].
  start H0. rewrite Hw.
  destruct k; cbn -[opnd fwdchars rep_chars brk advance Z.to_nat]; opn (pc0 + 1) H1; cbn [bind];
    opn (pc0 + 2) H2; cbn [bind]; rewrite (fwdchars_avail w o) by exact Hr; cbn [tp repad VMU.mk];
    replace (avail e o t <? m) with false by lia;
    [fix_rep COne c | fix_rep CNotone c | fix_rep CSet c];
    rewrite (clf_rep_chars e _ c o w Hr) by lia; rewrite Z2Nat.id by lia; rewrite Hrl;
    adv (pc0 + 3) H3; fin.
Qed.

Lemma ustep_rep_fail k o c m pc0 t np T S C M w3 :
  code_at p pc0 = Some (rep_op k + bits_of o) -> code_at p (pc0 + 1) = Some c -> code_at p (pc0 + 2) = Some m ->
  code_at p (Z.abs np) = Some w3 -> 0 <= t <= tlen e -> 0 <= m ->
  (m <=? avail e o t) && (run_len e k c o (Z.to_nat m) t =? m) = false ->
  ustep (mk pc0 0 t (np :: T) S C M) = Ok (Next (bk np t T S C M)).
Proof.
  intros H0 H1 H2 H3 Ht Hm Hok.
  set (w := rep_op k + bits_of o) in *.
  assert (Hw : Z.land w 63 = rep_op k) by (apply cp_land_bits; destruct k; cbv; split; congruence).
  assert (Hr : rtl_of w = is_rtl o) by apply rtl_of_rep_op.
  clearbody w.
  start H0. rewrite Hw.
  destruct k; cbn -[opnd fwdchars rep_chars brk advance Z.to_nat]; opn (pc0 + 1) H1; cbn [bind];
    opn (pc0 + 2) H2; cbn [bind]; rewrite (fwdchars_avail w o) by exact Hr; cbn [tp repad VMU.mk];
    (destruct (avail e o t <? m) eqn:Ea; [fail_to H3; fin|]);
    replace (m <=? avail e o t) with true in Hok by lia; cbn [andb] in Hok;
    [fix_rep COne c | fix_rep CNotone c | fix_rep CSet c];
    rewrite (clf_rep_chars e _ c o w Hr) by lia; rewrite Z2Nat.id by lia; rewrite Hok;
    fail_to H3; fin.
Qed.

(* ---------- X-loop c c0 (greedy) and X-loopatomic ---------- *)
Lemma ustep_loop_fwd k l o c c0 pc0 t T S C M w2 :
  l <> LLazy ->
  code_at p pc0 = Some (loop_op k l + bits_of o) -> code_at p (pc0 + 1) = Some c -> code_at p (pc0 + 2) = Some c0 ->
  code_at p (pc0 + 3) = Some w2 -> 0 <= t <= tlen e -> 0 <= c0 ->
  let j := run_len e k c o (Z.to_nat (Z.min c0 (avail e o t))) t in
  ustep (mk pc0 0 t T S C M) =
  Ok (Next (mk (pc0 + 3) 0 (t + dir o * j)
               (if (0 <? j) && (match l with LGreedy => true | _ => false end)
                then pc0 :: t + dir o * j - dir o :: j - 1 :: T else T) S C M)).
Proof.
  intros Hl H0 H1 H2 H3 Ht Hc0 j.
  set (w := loop_op k l + bits_of o) in *.
  assert (Hw : Z.land w 63 = loop_op k l) by (apply cp_land_bits; destruct k, l; cbv; split; congruence).
  assert (Hr : rtl_of w = is_rtl o) by apply rtl_of_loop_op.
  clearbody w.
  pose proof (clf_avail_nonneg e o t Ht) as HA.
  pose proof (clf_rl_bounds e k c o (Z.to_nat (Z.min c0 (avail e o t))) t) as Hb. fold j in Hb.
  start H0. rewrite Hw.
  destruct l; [|congruence|];
  destruct k; cbn -[opnd fwdchars loop_chars brk advance tpush Z.to_nat Z.min bump]; opn (pc0 + 1) H1; cbn [bind];
    opn (pc0 + 2) H2; cbn [bind]; rewrite (fwdchars_avail w o) by exact Hr; cbn [tp repad VMU.mk];
    [fix_loop COne c | fix_loop CNotone c | fix_loop CSet c | fix_loop COne c | fix_loop CNotone c | fix_loop CSet c];
    rewrite (clf_loop_chars e _ c o w Hr) by lia; rewrite Z2Nat.id by lia; fold j;
    rewrite (bump_dir w o Hr); rewrite ?andb_false_r, ?andb_true_r.
  all: try (destruct (0 <? j) eqn:Ej;
            [replace (Z.min c0 (avail e o t) - j <? Z.min c0 (avail e o t)) with true by lia
            |replace (Z.min c0 (avail e o t) - j <? Z.min c0 (avail e o t)) with false by lia]).
  all: clearbody j; cbn [bind]; try tpu; adv (pc0 + 3) H3; fin.
  all: unfold norm, set_pc, set_track, set_tp, repad, VMU.mk; cbn [pc mode tp track stack crawl mcaps].
  all: repeat f_equal; lia.
Qed.

Lemma ustep_loop_back k o pc0 t0 t2 t1 T S C M w2 :
  code_at p pc0 = Some (loop_op k LGreedy + bits_of o) -> code_at p (pc0 + 3) = Some w2 ->
  ustep (mk pc0 BackBit t0 (t2 :: t1 :: T) S C M) =
  Ok (Next (mk (pc0 + 3) 0 t2 (if 0 <? t1 then pc0 :: t2 - dir o :: t1 - 1 :: T else T) S C M)).
Proof.
  intros H0 H3.
  set (w := loop_op k LGreedy + bits_of o) in *.
  assert (Hw : Z.land w 63 = loop_op k LGreedy) by (apply cp_land_bits; destruct k; cbv; split; congruence).
  assert (Hr : rtl_of w = is_rtl o) by apply rtl_of_loop_op.
  clearbody w.
  start H0. rewrite Hw.
  destruct k; cbn -[opnd brk advance tpush bump]; rewrite (bump_dir w o Hr);
    destruct (0 <? t1); cbn [bind]; try tpu; adv (pc0 + 3) H3; fin.
Qed.

(* ---------- X-lazy c c0 ---------- *)
Lemma ustep_lazy_fwd k o c c0 pc0 t T S C M w2 :
  code_at p pc0 = Some (loop_op k LLazy + bits_of o) -> code_at p (pc0 + 1) = Some c -> code_at p (pc0 + 2) = Some c0 ->
  code_at p (pc0 + 3) = Some w2 ->
  let N := Z.min c0 (avail e o t) in
  ustep (mk pc0 0 t T S C M) =
  Ok (Next (mk (pc0 + 3) 0 t (if 0 <? N then pc0 :: t :: N - 1 :: T else T) S C M)).
Proof.
  intros H0 H1 H2 H3 N.
  set (w := loop_op k LLazy + bits_of o) in *.
  assert (Hw : Z.land w 63 = loop_op k LLazy) by (apply cp_land_bits; destruct k; cbv; split; congruence).
  assert (Hr : rtl_of w = is_rtl o) by apply rtl_of_loop_op.
  clearbody w.
  start H0. rewrite Hw.
  destruct k; cbn -[opnd fwdchars brk advance tpush Z.min]; opn (pc0 + 2) H2; cbn [bind];
    rewrite (fwdchars_avail w o) by exact Hr; cbn [tp repad VMU.mk]; fold N;
    destruct (0 <? N); cbn [bind]; try tpu; adv (pc0 + 3) H3; fin.
Qed.

Lemma ustep_lazy_back_ok k o c pc0 t0 t2 t1 T S C M w2 :
  code_at p pc0 = Some (loop_op k LLazy + bits_of o) -> code_at p (pc0 + 1) = Some c ->
  code_at p (pc0 + 3) = Some w2 -> 0 <= t2 <= tlen e -> 0 < avail e o t2 ->
  char_test e k c (next_char e o t2) = true ->
  ustep (mk pc0 BackBit t0 (t2 :: t1 :: T) S C M) =
  Ok (Next (mk (pc0 + 3) 0 (t2 + dir o) (if 0 <? t1 then pc0 :: t2 + dir o :: t1 - 1 :: T else T) S C M)).
Proof.
  intros H0 H1 H3 Ht Ha Hc.
  set (w := loop_op k LLazy + bits_of o) in *.
  assert (Hw : Z.land w 63 = loop_op k LLazy) by (apply cp_land_bits; destruct k; cbv; split; congruence).
  assert (Hr : rtl_of w = is_rtl o) by apply rtl_of_loop_op.
  clearbody w.
  start H0. rewrite Hw.
  destruct k; cbn -[opnd fwdnext brk advance tpush bump]; opn (pc0 + 1) H1; cbn [bind];
    rewrite (clf_fwdnext e o w Hr) by assumption; rewrite (bump_dir w o Hr);
    cbn [char_test] in Hc; rewrite Hc;
    destruct (0 <? t1); cbn [bind]; try tpu; adv (pc0 + 3) H3; fin.
Qed.

Lemma ustep_lazy_back_fail k o c pc0 t0 t2 t1 np T S C M w3 :
  code_at p pc0 = Some (loop_op k LLazy + bits_of o) -> code_at p (pc0 + 1) = Some c ->
  code_at p (Z.abs np) = Some w3 -> 0 <= t2 <= tlen e -> 0 < avail e o t2 ->
  char_test e k c (next_char e o t2) = false ->
  ustep (mk pc0 BackBit t0 (t2 :: t1 :: np :: T) S C M) = Ok (Next (bk np (t2 + dir o) T S C M)).
Proof.
  intros H0 H1 H3 Ht Ha Hc.
  set (w := loop_op k LLazy + bits_of o) in *.
  assert (Hw : Z.land w 63 = loop_op k LLazy) by (apply cp_land_bits; destruct k; cbv; split; congruence).
  assert (Hr : rtl_of w = is_rtl o) by apply rtl_of_loop_op.
  clearbody w.
  start H0. rewrite Hw.
  destruct k; cbn -[opnd fwdnext brk advance tpush bump]; opn (pc0 + 1) H1; cbn [bind];
    rewrite (clf_fwdnext e o w Hr) by assumption;
    cbn [char_test] in Hc; rewrite Hc; fail_to H3; fin.
Qed.

End Ops4.

Section Root4.
Variable e : env.
Variable p : program.
Hypothesis tc_nonneg : 0 <= trackcount p.
Notation rsteps := (VMUOps2.rsteps e p).

Ltac lift L := intros; apply rsteps_one; intro r; unfold bkr, mkr; cbn [app]; eapply L; eassumption.

Lemma rs_rep_ok k o c m pc0 t T S C M w2 :
  code_at p pc0 = Some (rep_op k + bits_of o) -> code_at p (pc0 + 1) = Some c -> code_at p (pc0 + 2) = Some m ->
  code_at p (pc0 + 3) = Some w2 -> 0 <= t <= tlen e -> 0 <= m ->
  (m <=? avail e o t) && (run_len e k c o (Z.to_nat m) t =? m) = true ->
  rsteps (mkr pc0 0 t T S C M) (mkr (pc0 + 3) 0 (t + dir o * m) T S C M).
Proof. lift ustep_rep_ok. Qed.

Lemma rs_rep_fail k o c m pc0 t np T S C M w3 :
  code_at p pc0 = Some (rep_op k + bits_of o) -> code_at p (pc0 + 1) = Some c -> code_at p (pc0 + 2) = Some m ->
  code_at p (Z.abs np) = Some w3 -> 0 <= t <= tlen e -> 0 <= m ->
  (m <=? avail e o t) && (run_len e k c o (Z.to_nat m) t =? m) = false ->
  rsteps (mkr pc0 0 t (np :: T) S C M) (bkr np t T S C M).
Proof. lift ustep_rep_fail. Qed.

Lemma rs_loop_fwd k l o c c0 pc0 t T S C M w2 j :
  l <> LLazy ->
  code_at p pc0 = Some (loop_op k l + bits_of o) -> code_at p (pc0 + 1) = Some c -> code_at p (pc0 + 2) = Some c0 ->
  code_at p (pc0 + 3) = Some w2 -> 0 <= t <= tlen e -> 0 <= c0 ->
  j = run_len e k c o (Z.to_nat (Z.min c0 (avail e o t))) t ->
  rsteps (mkr pc0 0 t T S C M)
         (mkr (pc0 + 3) 0 (t + dir o * j)
              (if (0 <? j) && (match l with LGreedy => true | _ => false end)
               then pc0 :: t + dir o * j - dir o :: j - 1 :: T else T) S C M).
Proof.
  intros Hl H0 H1 H2 H3 Ht Hc0 ->. apply rsteps_one. intro r. unfold mkr.
  erewrite ustep_loop_fwd by eassumption. cbv zeta.
  destruct ((0 <? _) && _); reflexivity.
Qed.

Lemma rs_loop_back k o pc0 t0 t2 t1 T S C M w2 :
  code_at p pc0 = Some (loop_op k LGreedy + bits_of o) -> code_at p (pc0 + 3) = Some w2 ->
  rsteps (mkr pc0 BackBit t0 (t2 :: t1 :: T) S C M)
         (mkr (pc0 + 3) 0 t2 (if 0 <? t1 then pc0 :: t2 - dir o :: t1 - 1 :: T else T) S C M).
Proof.
  intros H0 H3. apply rsteps_one. intro r. unfold mkr. cbn [app].
  erewrite ustep_loop_back by eassumption. destruct (0 <? t1); reflexivity.
Qed.

Lemma rs_lazy_fwd k o c c0 pc0 t T S C M w2 N :
  code_at p pc0 = Some (loop_op k LLazy + bits_of o) -> code_at p (pc0 + 1) = Some c -> code_at p (pc0 + 2) = Some c0 ->
  code_at p (pc0 + 3) = Some w2 -> N = Z.min c0 (avail e o t) ->
  rsteps (mkr pc0 0 t T S C M) (mkr (pc0 + 3) 0 t (if 0 <? N then pc0 :: t :: N - 1 :: T else T) S C M).
Proof.
  intros H0 H1 H2 H3 ->. apply rsteps_one. intro r. unfold mkr.
  erewrite ustep_lazy_fwd by eassumption. cbv zeta. destruct (0 <? _); reflexivity.
Qed.

Lemma rs_lazy_back_ok k o c pc0 t0 t2 t1 T S C M w2 :
  code_at p pc0 = Some (loop_op k LLazy + bits_of o) -> code_at p (pc0 + 1) = Some c ->
  code_at p (pc0 + 3) = Some w2 -> 0 <= t2 <= tlen e -> 0 < avail e o t2 ->
  char_test e k c (next_char e o t2) = true ->
  rsteps (mkr pc0 BackBit t0 (t2 :: t1 :: T) S C M)
         (mkr (pc0 + 3) 0 (t2 + dir o) (if 0 <? t1 then pc0 :: t2 + dir o :: t1 - 1 :: T else T) S C M).
Proof.
  intros H0 H1 H3 Ht Ha Hc. apply rsteps_one. intro r. unfold mkr. cbn [app].
  erewrite ustep_lazy_back_ok by eassumption. destruct (0 <? t1); reflexivity.
Qed.

Lemma rs_lazy_back_fail k o c pc0 t0 t2 t1 np T S C M w3 :
  code_at p pc0 = Some (loop_op k LLazy + bits_of o) -> code_at p (pc0 + 1) = Some c ->
  code_at p (Z.abs np) = Some w3 -> 0 <= t2 <= tlen e -> 0 < avail e o t2 ->
  char_test e k c (next_char e o t2) = false ->
  rsteps (mkr pc0 BackBit t0 (t2 :: t1 :: np :: T) S C M) (bkr np (t2 + dir o) T S C M).
Proof. lift ustep_lazy_back_fail. Qed.

End Root4.
