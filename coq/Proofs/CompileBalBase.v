(* compile_correct with balancing captures, framework: the invariant [leadsg2] = CompileBase.leadsg with
   the capture relation [caps_rel2] (arrays may contain balance markers, Proofs/CompileBalDen.v).
   The generic lemmas are those of CompileBase, proof for proof. *)
From Verif Require Import Base.Prelude Model.Tree Model.Spec Model.VM Model.Writer Gen.RunnerGen
  Proofs.SpecProofs Proofs.VMU Proofs.VMUOps Proofs.VMUOps2 Proofs.VMUOps6 Proofs.CompileBase Proofs.CompileBalDen.
From Coq Require Import Relations ZifyBool.

Section CB.
Variable e : env.
Variable p : program.
Hypothesis tc_nonneg : 0 <= trackcount p.

Notation rsteps := (VMUOps2.rsteps e p).
Notation track_ok := (CompileBase.track_ok p).
Notation caps_rel2 := (CompileBalDen.caps_rel2 p).

(* [leadsg2 b T Ss Sf C M0 start res]: running from [start], the results [res] are delivered one
   after the other at code position [b] (forward mode, grouping stack [Ss], some frames T' on top of
   the base track T, captures related to the result and undoable back to M0); backtracking into those
   frames delivers the next result; when the list is exhausted the machine backtracks into the base
   track T with the grouping stack [Sf], the crawl stack [C] and the capture arrays [M0]. *)
Fixpoint leadsg2 (b : Z) (T Ss Sf C : list Z) (M0 : list (list Z)) (start : Z -> vm) (res : list st) : Prop :=
  match res with
  | [] => exists np T' t, T = np :: T' /\ rsteps start (bkr np t T' Sf C M0)
  | q :: rest =>
      exists T' C' M', caps_rel2 (caps q) M' /\ unwind C' M' = Some M0 /\ track_ok (T' ++ T) /\
        rsteps start (mkr b 0 (pos q) (T' ++ T) Ss (C' ++ C) M') /\
        forall np T'' t, T' ++ T = np :: T'' ->
                         leadsg2 b T Ss Sf C M0 (bkr np t T'' Ss (C' ++ C) M') rest
  end.

Lemma leadsg2_pre b T Ss Sf C M0 s s' res :
  rsteps s s' -> leadsg2 b T Ss Sf C M0 s' res -> leadsg2 b T Ss Sf C M0 s res.
Proof.
  destruct res as [|q rest]; cbn [leadsg2]; intros H1 H2.
  - destruct H2 as [np [T' [t [Ht Hs]]]]. exists np, T', t. split; [exact Ht|]. eapply rsteps_trans; eassumption.
  - destruct H2 as (T' & C' & M' & Hc & Hu & Hk & Hs & Hr). exists T', C', M'.
    repeat (split; [assumption|]). split; [|exact Hr]. eapply rsteps_trans; eassumption.
Qed.

(* the empty list does not depend on the exit *)
Lemma leadsg2_nil_any b b' T Ss Ss' Sf C M0 s : leadsg2 b T Ss Sf C M0 s [] -> leadsg2 b' T Ss' Sf C M0 s [].
Proof. intros H. exact H. Qed.

(* results r1 over a deeper base (T1 ++ T) with its own failure data, then r2 from every failure state *)
Lemma leadsg2_app b T1 T Ss Sf1 Sf Cx C M1 M0 s r1 r2 :
  leadsg2 b (T1 ++ T) Ss Sf1 (Cx ++ C) M1 s r1 ->
  unwind Cx M1 = Some M0 ->
  (forall np T' t, T1 ++ T = np :: T' -> leadsg2 b T Ss Sf C M0 (bkr np t T' Sf1 (Cx ++ C) M1) r2) ->
  leadsg2 b T Ss Sf C M0 s (r1 ++ r2).
Proof.
  intros H1 HU H2. revert s H1. induction r1 as [|q r1 IH]; cbn [leadsg2 app]; intros s H1.
  - destruct H1 as [np [T' [t [Ht Hs]]]]. eapply leadsg2_pre; [exact Hs|]. apply H2. exact Ht.
  - destruct H1 as (T' & C' & M' & Hc & Hu & Hk & Hs & Hr).
    exists (T' ++ T1), (C' ++ Cx), M'. split; [exact Hc|].
    split; [eapply unwind_app; eassumption|].
    rewrite <- !app_assoc. split; [exact Hk|]. split; [exact Hs|].
    intros np T'' t Ht. apply IH. apply Hr. exact Ht.
Qed.

(* every result of r1 (delivered at m with grouping stack Ss1) is continued by a fragment that
   delivers f q at b with grouping stack Ss2 and fails back with Ss1 *)
Lemma leadsg2_bindl m b T Ss1 Ss2 Sf C M0 (f : st -> res (list st)) : forall r1 s res,
  leadsg2 m T Ss1 Sf C M0 s r1 ->
  bindl r1 f = Ok res ->
  (forall q rq T' C' M', In q r1 -> f q = Ok rq -> caps_rel2 (caps q) M' -> unwind C' M' = Some M0 ->
     track_ok (T' ++ T) ->
     leadsg2 b (T' ++ T) Ss2 Ss1 (C' ++ C) M' (mkr m 0 (pos q) (T' ++ T) Ss1 (C' ++ C) M') rq) ->
  leadsg2 b T Ss2 Sf C M0 s res.
Proof.
  induction r1 as [|q r1 IH]; intros s res H1 Hb Hf.
  - cbn [bindl] in Hb. injection Hb as <-. exact H1.
  - cbn [bindl] in Hb. apply sp_bind_ok in Hb. destruct Hb as [x [Hx Hb]].
    apply sp_bind_ok in Hb. destruct Hb as [y [Hy Hb]]. injection Hb as <-.
    cbn [leadsg2] in H1. destruct H1 as (T' & C' & M' & Hc & Hu & Hk & Hs & Hr).
    eapply leadsg2_pre; [exact Hs|].
    eapply leadsg2_app with (T1 := T') (Cx := C') (M1 := M') (Sf1 := Ss1).
    + apply Hf; try assumption. left. reflexivity.
    + exact Hu.
    + intros np T'' t Ht. apply IH; [apply Hr; exact Ht|exact Hy|].
      intros q' rq T2 C2 M2 Hin. apply Hf. right. exact Hin.
Qed.

(* the exit of the results can be moved along deterministic forward steps *)
Lemma leadsg2_exit_map m b T Ss Sf C M0 s res :
  (forall t T' C' M', rsteps (mkr m 0 t T' Ss C' M') (mkr b 0 t T' Ss C' M')) ->
  leadsg2 m T Ss Sf C M0 s res -> leadsg2 b T Ss Sf C M0 s res.
Proof.
  intros Hm. revert s. induction res as [|q rest IH]; cbn [leadsg2]; intros s H; [exact H|].
  destruct H as (T' & C' & M' & Hc & Hu & Hk & Hs & Hr). exists T', C', M'.
  repeat (split; [assumption|]). split.
  - eapply rsteps_trans; [exact Hs|apply Hm].
  - intros np T'' t Ht. apply IH. apply Hr. exact Ht.
Qed.

(* constructors *)
Lemma leadsg2_fail b T Ss Sf C M0 s np T' t :
  T = np :: T' -> rsteps s (bkr np t T' Sf C M0) -> leadsg2 b T Ss Sf C M0 s [].
Proof. intros HT H. exists np, T', t. split; assumption. Qed.

(* one result that leaves no frame *)
Lemma leadsg2_leaf b T S C M0 s q :
  track_ok T -> caps_rel2 (caps q) M0 -> rsteps s (mkr b 0 (pos q) T S C M0) -> leadsg2 b T S S C M0 s [q].
Proof.
  intros Hk Hc Hs. exists [], [], M0. cbn [app unwind].
  repeat (split; [first [assumption|reflexivity]|]).
  intros np T'' t Ht. exists np, T'', t. split; [exact Ht|apply rsteps_refl].
Qed.

End CB.
