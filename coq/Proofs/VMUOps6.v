(* Per-opcode lemmas for the cut opcodes Setjump / Forejump / Backjump, Getmark and Testref,
   by symbolic evaluation of VM.step; root-slot liftings.  [trackto] is [skipn] to a recorded
   length; [uncapture_to] undoes the captures recorded on the crawl stack ([unwind]). *)
From Verif Require Import Base.Prelude Model.Tree Model.Spec Model.VM Model.Writer Gen.RunnerGen
  Proofs.VMU Proofs.VMUOps Proofs.VMUOps2.
From Coq Require Import Relations ZifyBool.

(* undoing the captures recorded on a piece of the crawl stack *)
Fixpoint unwind (C : list Z) (M : list (list Z)) : option (list (list Z)) :=
  match C with
  | [] => Some M
  | c :: C' => match remove_match c M with Some M1 => unwind C' M1 | None => None end
  end.

Lemma unwind_app A B M M1 M2 : unwind A M = Some M1 -> unwind B M1 = Some M2 -> unwind (A ++ B) M = Some M2.
Proof.
  revert M. induction A as [|c A IH]; cbn [unwind app]; intros M H1 H2.
  - injection H1 as <-. exact H2.
  - destruct (remove_match c M) as [M'|]; [|discriminate]. apply IH; assumption.
Qed.

Section Ops6.
Variable e : env.
Variable p : program.
Hypothesis tc_nonneg : 0 <= trackcount p.

Notation ustep := (VMU.ustep e p).
Notation mk := VMU.mk.

Ltac start H0 :=
  unfold VMU.ustep, step; cbn [repad VMU.mk pc mode tp track stack crawl mcaps tcap scap]; rewrite H0.
Ltac fin := cbn [bind cont norm VMU.mk repad set_pc set_tp set_track set_stack set_caps set_tcap set_scap pc mode tp track stack crawl mcaps tcap scap app];
            try reflexivity.
Ltac pcs := cbn [repad VMU.mk set_pc set_tp set_track set_stack set_caps pc]; lia.
Ltac adv n H := erewrite (advance_at p _ _ n) by (first [exact H | pcs]).
Ltac opn a H := erewrite (opnd_at p _ _ a) by (first [exact H | pcs]).
Ltac tpu := rewrite tpush_ok by room; cbn [bind].
Ltac spu := rewrite spush_ok by room; cbn [bind].
Ltac fail_to H3 := (erewrite brk_ok; [| cbn [repad VMU.mk set_pc set_tp set_track set_stack set_caps track]; reflexivity | exact H3 | room | room]).

Lemma uncapture_to_unwind C : forall C' fuel s M0,
  crawl s = C' ++ C -> unwind C' (mcaps s) = Some M0 -> (length C' < fuel)%nat ->
  uncapture_to fuel s (zlen C) = Ok (set_caps s C M0).
Proof.
  induction C' as [|c C' IH]; intros fuel s M0 Hc Hu Hf; (destruct fuel as [|fuel]; [lia|]); cbn [uncapture_to].
  - cbn [app] in Hc. rewrite Hc. rewrite Z.eqb_refl. cbn [unwind] in Hu. injection Hu as <-.
    destruct s; cbn in *; subst; reflexivity.
  - rewrite Hc. cbn [app]. rewrite zlen_cons, zlen_app.
    replace (1 + (zlen C' + zlen C) =? zlen C) with false by (pose proof (zlen_nonneg C'); lia).
    unfold uncapture. rewrite Hc. cbn [app]. cbn [unwind] in Hu.
    destruct (remove_match c (mcaps s)) as [M1|]; [|discriminate]. cbn [bind].
    rewrite (IH fuel (set_caps s (C' ++ C) M1) M0); [|reflexivity|exact Hu|cbn [length] in Hf; lia].
    destruct s; reflexivity.
Qed.

Lemma trackto_cut s X1 X2 tr : track s = X1 ++ X2 -> tr = zlen X2 -> trackto s tr = Ok (set_track s X2).
Proof.
  intros Ht ->. unfold trackto. rewrite Ht, zlen_app.
  pose proof (zlen_nonneg X1). pose proof (zlen_nonneg X2).
  replace ((zlen X2 <? 0) || (zlen X1 + zlen X2 <? zlen X2)) with false by lia.
  replace (Z.to_nat (zlen X1 + zlen X2 - zlen X2)) with (length X1) by (unfold zlen; lia).
  rewrite skipn_app, skipn_all, Nat.sub_diag. reflexivity.
Qed.

Lemma ustep_setjump pc0 t T S C M w2 :
  code_at p pc0 = Some Setjump -> code_at p (pc0 + 1) = Some w2 ->
  ustep (mk pc0 0 t T S C M) = Ok (Next (mk (pc0 + 1) 0 t (pc0 :: T) (zlen C :: zlen T :: S) C M)).
Proof.
  intros H0 H2. start H0. change (Z.land Setjump 63) with 34. cbn -[tpush spush advance zlen].
  spu. tpu. adv (pc0 + 1) H2. fin.
Qed.

Lemma ustep_setjump_back pc0 t np T x y S C M w3 :
  code_at p pc0 = Some Setjump -> code_at p (Z.abs np) = Some w3 ->
  ustep (mk pc0 BackBit t (np :: T) (x :: y :: S) C M) = Ok (Next (bk np t T S C M)).
Proof.
  intros H0 H3. start H0. change (Z.land Setjump 63) with 34. cbn -[brk]. fail_to H3; fin.
Qed.

Lemma ustep_forejump pc0 t X1 X2 cr tr S C M w2 :
  code_at p pc0 = Some Forejump -> code_at p (pc0 + 1) = Some w2 -> tr = zlen X2 ->
  ustep (mk pc0 0 t (X1 ++ X2) (cr :: tr :: S) C M) = Ok (Next (mk (pc0 + 1) 0 t (pc0 :: cr :: X2) S C M)).
Proof.
  intros H0 H2 Htr. start H0. change (Z.land Forejump 63) with 36. cbn -[tpush trackto advance zlen].
  erewrite trackto_cut; [|cbn [track set_stack repad VMU.mk]; reflexivity|exact Htr]. cbn [bind].
  tpu. adv (pc0 + 1) H2. fin.
Qed.

Lemma ustep_forejump_back pc0 t np T S C' C M M0 w3 :
  code_at p pc0 = Some Forejump -> code_at p (Z.abs np) = Some w3 -> unwind C' M = Some M0 ->
  ustep (mk pc0 BackBit t (zlen C :: np :: T) S (C' ++ C) M) = Ok (Next (bk np t T S C M0)).
Proof.
  intros H0 H3 Hu. start H0. change (Z.land Forejump 63) with 36. cbn -[brk uncapture_to zlen length].
  erewrite uncapture_to_unwind with (C' := C'); [|reflexivity|exact Hu|cbn [crawl set_track repad VMU.mk]; rewrite app_length; lia].
  cbn [bind]. fail_to H3; fin.
Qed.

Lemma ustep_backjump pc0 t X1 np X2 tr S C' C M M0 w3 :
  code_at p pc0 = Some Backjump -> code_at p (Z.abs np) = Some w3 -> tr = zlen (np :: X2) ->
  unwind C' M = Some M0 ->
  ustep (mk pc0 0 t (X1 ++ np :: X2) (zlen C :: tr :: S) (C' ++ C) M) = Ok (Next (bk np t X2 S C M0)).
Proof.
  intros H0 H3 Htr Hu. start H0. change (Z.land Backjump 63) with 35. cbn -[brk trackto uncapture_to zlen length].
  erewrite trackto_cut; [|cbn [track set_stack repad VMU.mk]; reflexivity|exact Htr]. cbn [bind].
  erewrite uncapture_to_unwind with (C' := C'); [|reflexivity|exact Hu|].
  2:{ cbn [crawl set_track set_stack repad VMU.mk]. rewrite app_length. lia. }
  cbn [bind]. pose proof (zlen_cons np X2) as Hz. pose proof (zlen_nonneg X1) as Hz1. fail_to H3; fin.
Qed.

Lemma ustep_getmark pc0 t x T S C M w2 :
  code_at p pc0 = Some Getmark -> code_at p (pc0 + 1) = Some w2 ->
  ustep (mk pc0 0 t T (x :: S) C M) = Ok (Next (mk (pc0 + 1) 0 x (pc0 :: x :: T) S C M)).
Proof.
  intros H0 H2. start H0. change (Z.land Getmark 63) with 33. cbn -[tpush advance].
  tpu. adv (pc0 + 1) H2. fin.
Qed.

Lemma ustep_getmark_back pc0 t x np T S C M w3 :
  code_at p pc0 = Some Getmark -> code_at p (Z.abs np) = Some w3 ->
  ustep (mk pc0 BackBit t (x :: np :: T) S C M) = Ok (Next (bk np t T (x :: S) C M)).
Proof.
  intros H0 H3. start H0. change (Z.land Getmark 63) with 33. cbn -[spush brk].
  spu. fail_to H3; fin.
Qed.

Lemma ustep_testref_ok pc0 t g T S C M w2 :
  code_at p pc0 = Some Testref -> code_at p (pc0 + 1) = Some g -> code_at p (pc0 + 2) = Some w2 ->
  vm_is_matched g M = Some true ->
  ustep (mk pc0 0 t T S C M) = Ok (Next (mk (pc0 + 2) 0 t T S C M)).
Proof.
  intros H0 H1 H2 Hm. start H0. change (Z.land Testref 63) with 37. cbn -[opnd vm_is_matched brk advance].
  opn (pc0 + 1) H1. cbn [bind]. rewrite Hm. adv (pc0 + 2) H2. fin.
Qed.

Lemma ustep_testref_fail pc0 t g np T S C M w3 :
  code_at p pc0 = Some Testref -> code_at p (pc0 + 1) = Some g -> code_at p (Z.abs np) = Some w3 ->
  vm_is_matched g M = Some false ->
  ustep (mk pc0 0 t (np :: T) S C M) = Ok (Next (bk np t T S C M)).
Proof.
  intros H0 H1 H3 Hm. start H0. change (Z.land Testref 63) with 37. cbn -[opnd vm_is_matched brk advance].
  opn (pc0 + 1) H1. cbn [bind]. rewrite Hm. fail_to H3; fin.
Qed.

End Ops6.

Section Root6.
Variable e : env.
Variable p : program.
Hypothesis tc_nonneg : 0 <= trackcount p.
Notation rsteps := (VMUOps2.rsteps e p).

Ltac lift L := intros; apply rsteps_one; intro r; unfold bkr, mkr; cbn [app]; eapply L; eassumption.

Lemma rs_setjump pc0 t T S C M w2 :
  code_at p pc0 = Some Setjump -> code_at p (pc0 + 1) = Some w2 ->
  rsteps (mkr pc0 0 t T S C M) (mkr (pc0 + 1) 0 t (pc0 :: T) (zlen C :: zlen T + 1 :: S) C M).
Proof.
  intros H0 H2. apply rsteps_one. intro r. unfold mkr. cbn [app].
  erewrite ustep_setjump by eassumption. rewrite zlen_app. reflexivity.
Qed.

Lemma rs_setjump_back pc0 t np T x y S C M w3 :
  code_at p pc0 = Some Setjump -> code_at p (Z.abs np) = Some w3 ->
  rsteps (mkr pc0 BackBit t (np :: T) (x :: y :: S) C M) (bkr np t T S C M).
Proof. lift ustep_setjump_back. Qed.

Lemma rs_forejump pc0 t T' T cr S C M w2 :
  code_at p pc0 = Some Forejump -> code_at p (pc0 + 1) = Some w2 ->
  rsteps (mkr pc0 0 t (T' ++ T) (cr :: zlen T + 1 :: S) C M) (mkr (pc0 + 1) 0 t (pc0 :: cr :: T) S C M).
Proof.
  intros H0 H2. apply rsteps_one. intro r. unfold mkr. rewrite <- app_assoc. cbn [app].
  eapply ustep_forejump; try eassumption. rewrite zlen_app. reflexivity.
Qed.

Lemma rs_forejump_back pc0 t np T S C' C M M0 w3 :
  code_at p pc0 = Some Forejump -> code_at p (Z.abs np) = Some w3 -> unwind C' M = Some M0 ->
  rsteps (mkr pc0 BackBit t (zlen C :: np :: T) S (C' ++ C) M) (bkr np t T S C M0).
Proof. lift ustep_forejump_back. Qed.

Lemma rs_backjump pc0 t T' np T S C' C M M0 w3 :
  code_at p pc0 = Some Backjump -> code_at p (Z.abs np) = Some w3 -> unwind C' M = Some M0 ->
  rsteps (mkr pc0 0 t (T' ++ np :: T) (zlen C :: zlen (np :: T) + 1 :: S) (C' ++ C) M) (bkr np t T S C M0).
Proof.
  intros H0 H3 Hu. apply rsteps_one. intro r. unfold bkr, mkr. rewrite <- app_assoc. cbn [app].
  eapply ustep_backjump; try eassumption. rewrite !zlen_cons, zlen_app. change (zlen [r]) with 1. lia.
Qed.

Lemma rs_getmark pc0 t x T S C M w2 :
  code_at p pc0 = Some Getmark -> code_at p (pc0 + 1) = Some w2 ->
  rsteps (mkr pc0 0 t T (x :: S) C M) (mkr (pc0 + 1) 0 x (pc0 :: x :: T) S C M).
Proof. lift ustep_getmark. Qed.

Lemma rs_getmark_back pc0 t x np T S C M w3 :
  code_at p pc0 = Some Getmark -> code_at p (Z.abs np) = Some w3 ->
  rsteps (mkr pc0 BackBit t (x :: np :: T) S C M) (bkr np t T (x :: S) C M).
Proof. lift ustep_getmark_back. Qed.

Lemma rs_testref_ok pc0 t g T S C M w2 :
  code_at p pc0 = Some Testref -> code_at p (pc0 + 1) = Some g -> code_at p (pc0 + 2) = Some w2 ->
  vm_is_matched g M = Some true ->
  rsteps (mkr pc0 0 t T S C M) (mkr (pc0 + 2) 0 t T S C M).
Proof. lift ustep_testref_ok. Qed.

Lemma rs_testref_fail pc0 t g np T S C M w3 :
  code_at p pc0 = Some Testref -> code_at p (pc0 + 1) = Some g -> code_at p (Z.abs np) = Some w3 ->
  vm_is_matched g M = Some false ->
  rsteps (mkr pc0 0 t (np :: T) S C M) (bkr np t T S C M).
Proof. lift ustep_testref_fail. Qed.

End Root6.
