(* C12, part C: buffers, the replacement cache, and the invariant of the shared state under every atomic action. *)
From Verif Require Import Base.Prelude Model.Pool Proofs.PoolStackProofs Proofs.PoolRunnerProofs.

(* ---------- small list facts ---------- *)

Lemma nth_upd_nth : forall {A} (l : list A) n i x d,
  nth i (upd_nth n x l) d = if (Nat.eqb i n && Nat.ltb n (length l))%bool then x else nth i l d.
Proof.
  induction l as [|y l IH]; intros n i x d.
  - cbn. destruct n, i; cbn; rewrite ?Bool.andb_false_r; reflexivity.
  - destruct n, i; cbn [upd_nth nth length]; try reflexivity.
    rewrite IH. reflexivity.
Qed.
Lemma upd_nth_length : forall {A} (l : list A) n x, length (upd_nth n x l) = length l.
Proof. induction l; destruct n; cbn; auto. Qed.

Lemma remove_nth_incl : forall {A} (l : list A) n x, In x (remove_nth n l) -> In x l.
Proof.
  induction l as [|y l IH]; intros n x H; [destruct n; exact H|].
  destruct n; cbn in *; [auto|]. destruct H; [auto|]. right; eapply IH; eauto.
Qed.
Lemma take_spec : forall {A} pk (l : list A) x rest,
  take pk l = Some (x, rest) -> In x l /\ (forall y, In y rest -> In y l).
Proof.
  intros A pk l x rest H. unfold take in H. destruct pk as [i|]; [|discriminate].
  destruct (nth_error l i) eqn:N; [|discriminate]. inversion H; subst.
  split; [eapply nth_error_In; eauto|]. intros y; apply remove_nth_incl.
Qed.

Lemma filter_idx_incl : forall {A} f (l : list A) i x, In x (filter_idx f i l) -> In x l.
Proof.
  induction l as [|y l IH]; intros i x H; cbn in *; [auto|].
  destruct (f i); cbn in H; [destruct H; auto|]; right; eapply IH; eauto.
Qed.

Lemma zlist_eqb_eq : forall a b, zlist_eqb a b = true <-> a = b.
Proof.
  induction a as [|x a IH]; destruct b as [|y b]; cbn; split; intros H; try discriminate; auto.
  - apply andb_prop in H. destruct H as [H1 H2]. apply Z.eqb_eq in H1. apply IH in H2. congruence.
  - inversion H; subst. rewrite Z.eqb_refl. apply IH. reflexivity.
Qed.

(* ---------- buffers ---------- *)

Lemma pool_index_from_spec : forall sizes i needed maxsz idx,
  pool_index_from i sizes needed maxsz = Some idx ->
  (i <= idx)%nat /\ needed <= nth (idx - i) sizes 0 /\ (idx - i < length sizes)%nat.
Proof.
  induction sizes as [|c rest IH]; intros i needed maxsz idx H; cbn in H; [discriminate|].
  destruct (Z.leb_spec needed c).
  - destruct ((0 <? maxsz) && (maxsz <? c)); [discriminate|]. inversion H; subst.
    rewrite Nat.sub_diag. cbn. repeat split; lia.
  - apply IH in H. destruct H as (H1 & H2 & H3).
    replace (idx - i)%nat with (S (idx - S i)) by lia. cbn. repeat split; try lia.
Qed.

(* size-class selection never yields a class smaller than what was asked for *)
Lemma pool_index_spec : forall sizes needed maxsz idx,
  pool_index sizes needed maxsz = Some idx -> needed <= nth idx sizes 0 /\ (idx < length sizes)%nat.
Proof.
  intros sizes needed maxsz idx H. unfold pool_index in H.
  destruct (maxsz =? 0); [discriminate|].
  apply pool_index_from_spec in H. rewrite Nat.sub_0_r in H. tauto.
Qed.

(* the Max...Length options: 0 disables pooling, a positive value excludes the classes above it *)
Lemma pool_index_disabled : forall sizes needed, pool_index sizes needed 0 = None.
Proof. reflexivity. Qed.
Lemma pool_index_from_max : forall sizes i needed maxsz idx,
  0 < maxsz -> pool_index_from i sizes needed maxsz = Some idx -> nth (idx - i) sizes 0 <= maxsz.
Proof.
  induction sizes as [|c rest IH]; intros i needed maxsz idx M H; cbn in H; [discriminate|].
  destruct (Z.leb_spec needed c).
  - destruct (Z.ltb_spec 0 maxsz); [|lia]. cbn in H. destruct (Z.ltb_spec maxsz c); [discriminate|].
    inversion H; subst. rewrite Nat.sub_diag. cbn. lia.
  - pose proof (pool_index_from_spec _ _ _ _ _ H) as (H1 & _).
    apply IH in H; auto. replace (idx - i)%nat with (S (idx - S i)) by lia. exact H.
Qed.
Lemma pool_index_max : forall sizes needed maxsz idx,
  0 < maxsz -> pool_index sizes needed maxsz = Some idx -> nth idx sizes 0 <= maxsz.
Proof.
  intros sizes needed maxsz idx M H. unfold pool_index in H. destruct (maxsz =? 0); [discriminate|].
  apply pool_index_from_max in H; auto. rewrite Nat.sub_0_r in H. exact H.
Qed.

Lemma read_write : forall (out rest : list Z), firstn (length out) ((out ++ rest) ++ repeat 0 (length out)) = out.
Proof.
  intros. rewrite <- app_assoc. rewrite firstn_app, Nat.sub_diag, firstn_all. cbn. apply app_nil_r.
Qed.

(* buffers_transparent: whatever the buffer held before and whatever its capacity, the decoded text is the text *)
Lemma write_read_buf : forall b out,
  zlen out <= b_cap b ->
  exists b1, write_buf b out = Some b1 /\ read_buf b1 (length out) = out /\ b_id b1 = b_id b /\ b_cap b1 = b_cap b.
Proof.
  intros b out H. unfold write_buf. destruct (Z.ltb_spec (b_cap b) (zlen out)); [lia|].
  eexists; split; [reflexivity|]. unfold read_buf; cbn. split; [apply read_write|auto].
Qed.

Section WithEnv.
Variable E : env.

Definition env_wf : Prop :=
  (forall re, cfg_wf (e_cfg E re)) /\
  (forall re, interp_wf (e_cfg E re) (e_interp E re)) /\
  (forall s, zlen (e_decode E s) <= zlen s).

Lemma decode_into_spec : forall b s,
  env_wf -> zlen s <= b_cap b ->
  exists b1, decode_into E b s = Some (b1, e_decode E s) /\ b_id b1 = b_id b /\ b_cap b1 = b_cap b.
Proof.
  intros b s (_ & _ & D) H. unfold decode_into.
  destruct (write_read_buf b (e_decode E s)) as (b1 & W & R & I & C); [specialize (D s); lia|].
  rewrite W, R. eauto.
Qed.

(* ---------- the replacement cache ---------- *)

Definition cache_ok (re : nat) (c : list (list Z * rdata)) : Prop :=
  Forall (fun kd => e_parse_repl E re (fst kd) = Ok (snd kd)) c /\         (* cache_coherent *)
  NoDup (map fst c) /\                                                      (* no duplicate keys *)
  (0 < cfg_cache_max (e_cfg E re) -> zlen c <= cfg_cache_max (e_cfg E re)). (* lru_capacity *)

Definition coh (re : nat) (key : list Z) (o : option rdata) : Prop :=
  match o with None => True | Some d => e_parse_repl E re key = Ok d end.

Lemma cache_find_coh : forall re key c d,
  Forall (fun kd => e_parse_repl E re (fst kd) = Ok (snd kd)) c -> cache_find key c = Some d ->
  e_parse_repl E re key = Ok d.
Proof.
  induction c as [|[k d0] c IH]; intros d F H; cbn in H; [discriminate|].
  inversion F; subst. destruct (zlist_eqb key k) eqn:K.
  - apply zlist_eqb_eq in K. inversion H; subst. assumption.
  - apply IH; auto.
Qed.
Lemma cache_find_none : forall key c, cache_find key c = None -> ~ In key (map fst c).
Proof.
  induction c as [|[k d0] c IH]; intros H; cbn in *; [tauto|].
  destruct (zlist_eqb key k) eqn:K; [discriminate|]. intros [X|X].
  - subst. assert (zlist_eqb key key = true) by (apply zlist_eqb_eq; reflexivity). congruence.
  - apply IH; auto.
Qed.
Lemma cache_remove_incl : forall key c x, In x (cache_remove key c) -> In x c.
Proof.
  induction c as [|[k d0] c IH]; intros x H; cbn in *; [auto|].
  destruct (zlist_eqb key k); [auto|]. destruct H; auto.
Qed.
Lemma cache_remove_keys : forall key c x, In x (map fst (cache_remove key c)) -> In x (map fst c).
Proof.
  induction c as [|[k d0] c IH]; intros x H; cbn in *; [auto|].
  destruct (zlist_eqb key k); [auto|]. cbn in H. destruct H; auto.
Qed.
Lemma cache_remove_nodup : forall key c, NoDup (map fst c) ->
  NoDup (map fst (cache_remove key c)) /\ ~ In key (map fst (cache_remove key c)).
Proof.
  induction c as [|[k d0] c IH]; intros N; cbn in *; [split; [constructor|tauto]|].
  inversion N; subst. destruct (zlist_eqb key k) eqn:K.
  - apply zlist_eqb_eq in K; subst. auto.
  - destruct (IH H2) as [I1 I2]. cbn. split.
    + constructor; auto. intros X; apply H1. eapply cache_remove_keys; eauto.
    + intros [X|X]; [|tauto]. subst.
      assert (zlist_eqb key key = true) by (apply zlist_eqb_eq; reflexivity). congruence.
Qed.
Lemma cache_remove_len : forall key c d, cache_find key c = Some d -> S (length (cache_remove key c)) = length c.
Proof.
  induction c as [|[k d0] c IH]; intros d H; cbn in *; [discriminate|].
  destruct (zlist_eqb key k); [reflexivity|]. cbn. erewrite IH; eauto.
Qed.

Lemma removelast_incl : forall {A} (l : list A) x, In x (removelast l) -> In x l.
Proof.
  induction l as [|y l IH]; intros x H; [auto|]. cbn in H. destruct l; [contradiction|].
  destruct H; [left; auto|right; auto].
Qed.
Lemma removelast_nodup : forall {A} (l : list A), NoDup l -> NoDup (removelast l).
Proof.
  induction l as [|y l IH]; intros N; [constructor|]. cbn. destruct l; [constructor|].
  inversion N; subst. constructor; auto. intros X; apply H1. apply removelast_incl; auto.
Qed.
Lemma removelast_map : forall {A B} (f : A -> B) l, map f (removelast l) = removelast (map f l).
Proof. induction l as [|y l IH]; [reflexivity|]. cbn. destruct l; [reflexivity|]. cbn in *. rewrite IH. reflexivity. Qed.
Lemma removelast_len : forall {A} (l : list A), l <> [] -> S (length (removelast l)) = length l.
Proof.
  induction l as [|y l IH]; intros H; [congruence|]. cbn. destruct l; [reflexivity|]. cbn in *. rewrite IH; congruence.
Qed.

(* cache_coherent_preserved / lru_capacity for get *)
Lemma cache_get_ok : forall re key c,
  cache_ok re c -> cache_ok re (fst (cache_get key c)) /\ coh re key (snd (cache_get key c)).
Proof.
  intros re key c (F & N & L). unfold cache_get. destruct (cache_find key c) as [d|] eqn:Fd; cbn [fst snd].
  - pose proof (cache_find_coh re key c d F Fd) as P. split; [|exact P].
    destruct (cache_remove_nodup key c N) as [N1 N2].
    split; [|split].
    + constructor; [exact P|]. apply Forall_forall. intros x X. eapply Forall_forall in F; eauto.
      eapply cache_remove_incl; eauto.
    + cbn. constructor; auto.
    + intros M. specialize (L M). unfold zlen in *. cbn [length]. rewrite (cache_remove_len key c d Fd). exact L.
  - split; [repeat split; auto|exact I].
Qed.

(* cache_coherent_preserved / lru_capacity for add, including the eviction of the oldest entry *)
Lemma cache_add_ok : forall re key d c,
  cache_ok re c -> e_parse_repl E re key = Ok d ->
  cache_ok re (cache_add (cfg_cache_max (e_cfg E re)) key d c).
Proof.
  intros re key d c (F & N & L) P. unfold cache_add.
  set (mx := cfg_cache_max (e_cfg E re)) in *.
  destruct (cache_find key c) as [d0|] eqn:Fd.
  - destruct (cache_remove_nodup key c N) as [N1 N2].
    split; [|split].
    + constructor; [exact P|]. apply Forall_forall. intros x X. eapply Forall_forall in F; eauto.
      eapply cache_remove_incl; eauto.
    + cbn. constructor; auto.
    + intros M. specialize (L M). unfold zlen in *. cbn [length]. rewrite (cache_remove_len key c d0 Fd). exact L.
  - pose proof (cache_find_none key c Fd) as NI.
    assert (F1 : Forall (fun kd => e_parse_repl E re (fst kd) = Ok (snd kd)) ((key, d) :: c)) by (constructor; auto).
    assert (N1 : NoDup (map fst ((key, d) :: c))) by (cbn; constructor; auto).
    destruct ((0 <? mx) && (mx <? zlen ((key, d) :: c))) eqn:B.
    + apply andb_prop in B. destruct B as [B1 B2]. apply Z.ltb_lt in B1, B2.
      split; [|split].
      * apply Forall_forall. intros x X. eapply Forall_forall in F1; eauto. apply removelast_incl; auto.
      * rewrite removelast_map. apply removelast_nodup; auto.
      * intros _. specialize (L B1). unfold zlen in *.
        pose proof (removelast_len ((key, d) :: c) ltac:(discriminate)) as RL. cbn [length] in *. lia.
    + split; [exact F1|split; [exact N1|]]. intros M.
      apply Bool.andb_false_iff in B. destruct B as [B|B]; [apply Z.ltb_ge in B; lia|apply Z.ltb_ge in B; exact B].
Qed.

(* cache_transparent: with a coherent cache the data used by Replace is what a fresh parse gives *)
Lemma cache_transparent_get : forall re key c d,
  cache_ok re c -> snd (cache_get key c) = Some d -> e_parse_repl E re key = Ok d.
Proof.
  intros re key c d H G. destruct (cache_get_ok re key c H) as [_ C]. rewrite G in C. exact C.
Qed.

(* ---------- the shared state ---------- *)

Definition rs_ok (re : nat) (rs : re_state) : Prop :=
  Forall (runner_ok (e_cfg E re)) (rs_pool rs) /\ cache_ok re (rs_cache rs).
(* every pooled buffer has exactly the capacity of its class *)
Definition bp_ok (bp : bufpools) : Prop :=
  forall idx b, In b (nth idx (bp_pools bp) []) -> b_cap b = nth idx (bp_sizes bp) 0.
Definition gstate_ok (g : gstate) : Prop :=
  (forall re, rs_ok re (get_rs g re)) /\ bp_ok (g_rune g) /\ bp_ok (g_byte g).

Lemma rs_empty_ok : forall re, rs_ok re rs_empty.
Proof.
  intros re. split; [constructor|]. split; [constructor|]. split; [constructor|]. cbn. intros; lia.
Qed.

Lemma get_set_rs : forall g re rs re',
  get_rs (set_rs g re rs) re' = if (Nat.eqb re' re && Nat.ltb re (length (g_res g)))%bool then rs else get_rs g re'.
Proof. intros. unfold get_rs, set_rs; cbn. apply nth_upd_nth. Qed.

Lemma set_rs_ok : forall g re rs, gstate_ok g -> rs_ok re rs -> gstate_ok (set_rs g re rs).
Proof.
  intros g re rs (A & B & C) H. split; [|split; [exact B|exact C]].
  intros re'. rewrite get_set_rs. destruct (Nat.eqb_spec re' re); cbn [andb].
  - subst. destruct (Nat.ltb re (length (g_res g))); auto.
  - auto.
Qed.
Lemma bump_next_ok : forall g, gstate_ok g -> gstate_ok (bump_next g).
Proof. intros g H; exact H. Qed.
Lemma get_bp_ok : forall g bk, gstate_ok g -> bp_ok (get_bp g bk).
Proof. intros g [] (A & B & C); auto. Qed.
Lemma set_bp_ok : forall g bk bp, gstate_ok g -> bp_ok bp -> gstate_ok (set_bp g bk bp).
Proof. intros g [] bp (A & B & C) H; (split; [exact A|split]); auto. Qed.

Lemma gstate0_ok : forall nre rs bs, gstate_ok (gstate0 nre rs bs).
Proof.
  intros. split; [|split].
  - intros re. unfold get_rs, gstate0; cbn.
    destruct (nth_in_or_default re (repeat rs_empty nre) rs_empty) as [H|H].
    + apply repeat_spec in H. rewrite H. apply rs_empty_ok.
    + rewrite H. apply rs_empty_ok.
  - intros idx b H. cbn in H.
    destruct (nth_in_or_default idx (repeat (@nil buffer) (length rs)) []) as [X|X].
    + apply repeat_spec in X. rewrite X in H. contradiction.
    + rewrite X in H. contradiction.
  - intros idx b H. cbn in H.
    destruct (nth_in_or_default idx (repeat (@nil buffer) (length bs)) []) as [X|X].
    + apply repeat_spec in X. rewrite X in H. contradiction.
    + rewrite X in H. contradiction.
Qed.

(* getRunner: whatever the pool hands back satisfies runner_ok *)
Lemma act_get_runner_ok : forall g re pk,
  gstate_ok g ->
  gstate_ok (fst (act_get_runner g re pk)) /\ runner_ok (e_cfg E re) (snd (act_get_runner g re pk)).
Proof.
  intros g re pk G. unfold act_get_runner.
  destruct (take pk (rs_pool (get_rs g re))) as [[r rest]|] eqn:T; cbn [fst snd].
  - pose proof G as (A & B & C). destruct (A re) as [P Q]. apply take_spec in T. destruct T as [T1 T2].
    split.
    + apply set_rs_ok; [exact G|]. split; [|exact Q]. cbn.
      apply Forall_forall. intros x X. eapply Forall_forall in P; eauto.
    + eapply Forall_forall in P; eauto.
  - split; [apply bump_next_ok; auto|apply fresh_runner_ok].
Qed.
Lemma act_put_runner_ok : forall g re r,
  gstate_ok g -> runner_ok (e_cfg E re) r -> gstate_ok (act_put_runner g re r).
Proof.
  intros g re r G R. unfold act_put_runner. apply set_rs_ok; auto.
  destruct G as (A & _). destruct (A re) as [P Q]. split; [constructor; auto|exact Q].
Qed.

Lemma bp_upd_ok : forall bp idx l,
  bp_ok bp -> (forall b, In b l -> b_cap b = nth idx (bp_sizes bp) 0) ->
  bp_ok {| bp_sizes := bp_sizes bp; bp_pools := upd_nth idx l (bp_pools bp) |}.
Proof.
  intros bp idx l H L idx' b X. cbn in *. rewrite nth_upd_nth in X.
  destruct (Nat.eqb_spec idx' idx); cbn [andb] in X.
  - subst. destruct (Nat.ltb idx (length (bp_pools bp))); auto.
  - auto.
Qed.

(* a buffer handed out is never shorter than needed, whether fresh, recycled, or unpooled *)
Lemma act_get_buf_ok : forall g bk needed maxsz pk,
  gstate_ok g ->
  let '(g1, b, pooled) := act_get_buf g bk needed maxsz pk in
  gstate_ok g1 /\ needed <= b_cap b.
Proof.
  intros g bk needed maxsz pk G. unfold act_get_buf.
  pose proof (get_bp_ok g bk G) as BP.
  destruct (pool_index (bp_sizes (get_bp g bk)) needed maxsz) as [idx|] eqn:PI.
  - apply pool_index_spec in PI. destruct PI as [PI1 PI2].
    destruct (take pk (nth idx (bp_pools (get_bp g bk)) [])) as [[b rest]|] eqn:T.
    + apply take_spec in T. destruct T as [T1 T2].
      assert (G1 : gstate_ok (set_bp g bk {| bp_sizes := bp_sizes (get_bp g bk);
                                              bp_pools := upd_nth idx rest (bp_pools (get_bp g bk)) |})).
      { apply set_bp_ok; auto. apply bp_upd_ok; auto. }
      destruct (Z.leb_spec needed (b_cap b)); cbn; split; auto; lia.
    + cbn. split; [apply bump_next_ok; auto|lia].
  - cbn. split; [apply bump_next_ok; auto|lia].
Qed.
(* the capacity check of get never fails on a pooled buffer: nothing is dropped *)
Lemma act_get_buf_no_drop : forall g bk needed maxsz pk idx b rest,
  gstate_ok g -> pool_index (bp_sizes (get_bp g bk)) needed maxsz = Some idx ->
  take pk (nth idx (bp_pools (get_bp g bk)) []) = Some (b, rest) -> needed <= b_cap b.
Proof.
  intros g bk needed maxsz pk idx b rest G PI T.
  pose proof (get_bp_ok g bk G) as BP. apply pool_index_spec in PI. apply take_spec in T.
  destruct T as [T1 _]. rewrite (BP idx b T1). tauto.
Qed.
(* put files a buffer under the class whose size equals its capacity, or drops it *)
Lemma act_put_buf_ok : forall g bk b, gstate_ok g -> gstate_ok (act_put_buf g bk b).
Proof.
  intros g bk b G. unfold act_put_buf. pose proof (get_bp_ok g bk G) as BP.
  destruct (pool_index (bp_sizes (get_bp g bk)) (b_cap b) (-1)) as [idx|]; [|auto].
  destruct (Z.eqb_spec (b_cap b) (nth idx (bp_sizes (get_bp g bk)) 0)); [|auto].
  apply set_bp_ok; auto. apply bp_upd_ok; auto.
  intros b' [X|X]; [subst; auto|auto].
Qed.

Lemma act_cache_get_ok : forall g re key,
  gstate_ok g -> gstate_ok (fst (act_cache_get g re key)) /\ coh re key (snd (act_cache_get g re key)).
Proof.
  intros g re key G. unfold act_cache_get.
  pose proof G as (A & B & C). destruct (A re) as [P Q].
  pose proof (cache_get_ok re key (rs_cache (get_rs g re)) Q) as [X Y].
  destruct (cache_get key (rs_cache (get_rs g re))) as [c o]; cbn [fst snd] in *.
  split; [|exact Y]. apply set_rs_ok; [exact G|]. split; auto.
Qed.
Lemma act_cache_add_ok : forall g re key d,
  gstate_ok g -> e_parse_repl E re key = Ok d -> gstate_ok (act_cache_add (e_cfg E re) g re key d).
Proof.
  intros g re key d G H. unfold act_cache_add. pose proof G as (A & _). destruct (A re) as [P Q].
  apply set_rs_ok; auto. split; [exact P|]. cbn. apply cache_add_ok; auto.
Qed.

(* a garbage collection only removes pooled objects *)
Lemma nth_map_default : forall {A B} (f : A -> B) l i d d', f d = d' -> nth i (map f l) d' = f (nth i l d).
Proof. intros A B f l i d d' H. rewrite <- H. apply map_nth. Qed.

Lemma gc_ok : forall f g, gstate_ok g -> gstate_ok (gc f g).
Proof.
  intros f g (A & B & C). split; [|split].
  - intros re. unfold get_rs, gc; cbn [g_res].
    rewrite (nth_map_default _ _ _ rs_empty) by reflexivity.
    destruct (A re) as [P Q]. split; [|exact Q]. cbn [rs_pool].
    apply Forall_forall. intros x X. apply filter_idx_incl in X. eapply Forall_forall in P; eauto.
  - intros idx b H. unfold gc, gc_bp in H; cbn [g_rune bp_pools bp_sizes] in *.
    rewrite (nth_map_default _ _ _ (@nil buffer)) in H by reflexivity. apply filter_idx_incl in H. auto.
  - intros idx b H. unfold gc, gc_bp in H; cbn [g_byte bp_pools bp_sizes] in *.
    rewrite (nth_map_default _ _ _ (@nil buffer)) in H by reflexivity. apply filter_idx_incl in H. auto.
Qed.

End WithEnv.
