(* C02, the link between the writer and the spec level: the in-use vector that syntax.Write
   computes from the full program (captureSlotsInUse, Model/Writer.slots_in_use) keeps every group
   whose capture stack the search reads.  Hence the quick program is the program of a tree obtained
   by erasing only unread plain captures (EraseProofs E2), and that erasure preserves matches
   (EraseProofs E1):  quick_keep_unobs, write_quick_sound. *)
From Verif Require Import Base.Prelude Model.Tree Model.Spec Model.VM Model.Writer Gen.CodeGen.
From Verif Require Import Proofs.SpecProofs Proofs.MaskProofs Proofs.EraseProofs.
From Coq Require Import ZifyBool.
Ltac Zify.zify_post_hook ::= Z.div_mod_to_equations.

(* ------------------------------------------------------------------------------------------ *)
(* one step of captureSlotsInUse                                                               *)

Definition smark (acc : list bool) (g : Z) : list bool :=
  if (0 <=? g) && (g <? zlen acc) then list_set acc (Z.to_nat g) true else acc.

Definition istep (op : Z) (rest : list Z) (acc : list bool) : list bool :=
  let o := Z.land op 63 in
  if (o =? Ref) || (o =? Testref) then smark acc (nth 0 rest (-1))
  else if o =? Capturemark then
    (if negb (nth 1 rest (-1) =? -1) then smark (smark acc (nth 0 rest (-1))) (nth 1 rest (-1)) else acc)
  else acc.

Definition is_special (op : Z) : bool :=
  let o := Z.land op 63 in (o =? Ref) || (o =? Testref) || (o =? Capturemark).

Lemma el_siu_step f op rest acc :
  slots_in_use_aux (S f) (op :: rest) acc =
  if opcode_size op <=? 0 then istep op rest acc
  else slots_in_use_aux f (skipn (Z.to_nat (opcode_size op)) (op :: rest)) (istep op rest acc).
Proof. reflexivity. Qed.

Lemma el_siu_nil f acc : slots_in_use_aux f [] acc = acc.
Proof. destruct f; reflexivity. Qed.

Lemma el_zlen_args1 (args : list Z) : 2 = 1 + zlen args -> exists x, args = [x].
Proof.
  unfold zlen. destruct args as [|x [|y args]]; cbn [length]; intros H; try lia. exists x. reflexivity.
Qed.
Lemma el_zlen_args2 (args : list Z) : 3 = 1 + zlen args -> exists x y, args = [x; y].
Proof.
  unfold zlen. destruct args as [|x [|y [|z args]]]; cbn [length]; intros H; try lia. exists x, y. reflexivity.
Qed.

(* the step looks only at the instruction's own operands *)
Lemma el_istep_args op args rest acc :
  opcode_size op = 1 + zlen args -> istep op (args ++ rest) acc = istep op args acc.
Proof.
  intros Hsz. unfold istep, opcode_size in *. cbv zeta.
  destruct ((Z.land op 63 =? Ref) || (Z.land op 63 =? Testref)) eqn:E1.
  - assert (Hs : zassoc (Z.land op 63) opcode_size_tbl 0 = 2).
    { apply orb_prop in E1. destruct E1 as [E|E]; apply Z.eqb_eq in E; rewrite E; reflexivity. }
    rewrite Hs in Hsz. destruct (el_zlen_args1 args Hsz) as [x Hx]. subst args. reflexivity.
  - destruct (Z.land op 63 =? Capturemark) eqn:E2; [|reflexivity].
    assert (Hs : zassoc (Z.land op 63) opcode_size_tbl 0 = 3).
    { apply Z.eqb_eq in E2. rewrite E2. reflexivity. }
    rewrite Hs in Hsz. destruct (el_zlen_args2 args Hsz) as [x [y Hx]]. subst args. reflexivity.
Qed.

Lemma el_istep_plain op args acc : is_special op = false -> istep op args acc = acc.
Proof.
  unfold is_special, istep. cbv zeta. intros H.
  apply orb_false_elim in H. destruct H as [H1 H2]. rewrite H1, H2. reflexivity.
Qed.

(* ------------------------------------------------------------------------------------------ *)
(* the walk over a well-formed instruction sequence, as a relation                             *)

Inductive Marks : list Z -> list bool -> list bool -> Prop :=
| M_nil acc : Marks [] acc acc
| M_cons op args rest acc acc' :
    opcode_size op = 1 + zlen args -> Marks rest (istep op args acc) acc' ->
    Marks (op :: args ++ rest) acc acc'.

Lemma el_Marks_app c1 c2 a b c : Marks c1 a b -> Marks c2 b c -> Marks (c1 ++ c2) a c.
Proof.
  intros H1 H2. induction H1 as [acc|op args rest acc acc' Hsz H1 IH]; [exact H2|].
  cbn [app]. rewrite <- app_assoc. apply M_cons; [exact Hsz|]. apply IH. exact H2.
Qed.

Lemma el_Marks_run c acc acc' : Marks c acc acc' ->
  forall fuel, (length c <= fuel)%nat -> slots_in_use_aux fuel c acc = acc'.
Proof.
  intros H. induction H as [acc|op args rest acc acc' Hsz H IH]; intros fuel Hf.
  - apply el_siu_nil.
  - destruct fuel as [|f]; [cbn [length] in Hf; lia|].
    rewrite el_siu_step. rewrite Hsz.
    assert (Hz : 0 <= zlen args) by (unfold zlen; lia).
    replace (1 + zlen args <=? 0) with false by lia.
    replace (Z.to_nat (1 + zlen args)) with (S (length args)) by (unfold zlen; lia).
    cbn [skipn]. rewrite skipn_app, skipn_all, Nat.sub_diag. cbn [app skipn].
    rewrite (el_istep_args op args rest acc Hsz). apply IH.
    cbn [length] in Hf. rewrite app_length in Hf. lia.
Qed.

(* ------------------------------------------------------------------------------------------ *)
(* marks only ever set bits                                                                    *)

Definition ext (acc acc' : list bool) : Prop :=
  length acc' = length acc /\ forall i, nth i acc false = true -> nth i acc' false = true.

Lemma el_ext_refl acc : ext acc acc.
Proof. split; [reflexivity|]. intros i H. exact H. Qed.

Lemma el_ext_trans a b c : ext a b -> ext b c -> ext a c.
Proof. intros [L1 N1] [L2 N2]. split; [congruence|]. intros i H. apply N2, N1, H. Qed.

Lemma el_list_set_length {A} (l : list A) n x : length (list_set l n x) = length l.
Proof.
  revert n. induction l as [|h t IH]; intros n; [reflexivity|].
  destruct n; cbn [list_set length]; [reflexivity|]. rewrite IH. reflexivity.
Qed.

Lemma el_list_set_keeps l n i : nth i l false = true -> nth i (list_set l n true) false = true.
Proof.
  revert n i. induction l as [|h t IH]; intros n i H; [destruct i; discriminate H|].
  destruct n; cbn [list_set].
  - destruct i; [reflexivity|exact H].
  - destruct i; [exact H|]. cbn [nth] in *. apply IH. exact H.
Qed.

Lemma el_list_set_hit l n : (n < length l)%nat -> nth n (list_set l n true) false = true.
Proof.
  revert n. induction l as [|h t IH]; intros n H; [cbn [length] in H; lia|].
  destruct n; cbn [list_set nth]; [reflexivity|]. apply IH. cbn [length] in H. lia.
Qed.

Lemma el_smark_ext acc g : ext acc (smark acc g).
Proof.
  unfold smark. destruct ((0 <=? g) && (g <? zlen acc)); [|apply el_ext_refl].
  split; [apply el_list_set_length|]. intros i H. apply el_list_set_keeps. exact H.
Qed.

Lemma el_smark_hit acc g : 0 <= g < zlen acc -> nth (Z.to_nat g) (smark acc g) false = true.
Proof.
  intros H. unfold smark. replace ((0 <=? g) && (g <? zlen acc)) with true by lia.
  apply el_list_set_hit. unfold zlen in H. lia.
Qed.

Lemma el_ext_zlen a b : ext a b -> zlen b = zlen a.
Proof. intros [L _]. unfold zlen. rewrite L. reflexivity. Qed.

(* ------------------------------------------------------------------------------------------ *)
(* "this code walks fine from any accumulator, and (when b) marks slot cg"                     *)

Definition GoodG (cg : Z) (c : list Z) (b : bool) : Prop :=
  forall acc, exists acc',
    Marks c acc acc' /\ ext acc acc' /\
    (b = true -> 0 <= cg < zlen acc -> nth (Z.to_nat cg) acc' false = true).

Section Good.
Variable cg : Z.

Lemma G_nil : GoodG cg [] false.
Proof. intros acc. exists acc. split; [constructor|]. split; [apply el_ext_refl|]. intros H. discriminate H. Qed.

Lemma G_weaken c b b' : GoodG cg c b -> (b' = true -> b = true) -> GoodG cg c b'.
Proof.
  intros H Hb acc. destruct (H acc) as [acc' [HM [He Hn]]]. exists acc'.
  split; [exact HM|]. split; [exact He|]. intros Hb'. apply Hn. apply Hb. exact Hb'.
Qed.

Lemma G_app c1 c2 b1 b2 : GoodG cg c1 b1 -> GoodG cg c2 b2 -> GoodG cg (c1 ++ c2) (b1 || b2).
Proof.
  intros H1 H2 acc. destruct (H1 acc) as [acc1 [HM1 [He1 Hn1]]].
  destruct (H2 acc1) as [acc2 [HM2 [He2 Hn2]]]. exists acc2.
  split; [exact (el_Marks_app _ _ _ _ _ HM1 HM2)|]. split; [exact (el_ext_trans _ _ _ He1 He2)|].
  intros Hb Hr. apply orb_prop in Hb. destruct Hb as [Hb|Hb].
  - apply (proj2 He2). apply Hn1; assumption.
  - apply Hn2; [exact Hb|]. rewrite (el_ext_zlen _ _ He1). exact Hr.
Qed.

Lemma G_app_l c1 c2 b : GoodG cg c1 false -> GoodG cg c2 b -> GoodG cg (c1 ++ c2) b.
Proof. intros H1 H2. exact (G_app c1 c2 false b H1 H2). Qed.

Lemma G_app_r c1 c2 b : GoodG cg c1 b -> GoodG cg c2 false -> GoodG cg (c1 ++ c2) b.
Proof. intros H1 H2. apply (G_weaken _ (b || false)); [exact (G_app c1 c2 b false H1 H2)|].
  intros Hb. rewrite Hb. reflexivity. Qed.

Lemma G_instr op args rest b :
  opcode_size op = 1 + zlen args -> is_special op = false ->
  GoodG cg rest b -> GoodG cg (op :: args ++ rest) b.
Proof.
  intros Hsz Hsp H acc. destruct (H acc) as [acc' [HM [He Hn]]]. exists acc'.
  split; [|split; [exact He|exact Hn]].
  apply M_cons; [exact Hsz|]. rewrite el_istep_plain by exact Hsp. exact HM.
Qed.

Lemma G_p1 op rest b : opcode_size op = 1 -> is_special op = false ->
  GoodG cg rest b -> GoodG cg (op :: rest) b.
Proof. intros Hsz. exact (G_instr op [] rest b Hsz). Qed.
Lemma G_p2 op x rest b : opcode_size op = 2 -> is_special op = false ->
  GoodG cg rest b -> GoodG cg (op :: x :: rest) b.
Proof. intros Hsz. exact (G_instr op [x] rest b Hsz). Qed.
Lemma G_p3 op x y rest b : opcode_size op = 3 -> is_special op = false ->
  GoodG cg rest b -> GoodG cg (op :: x :: y :: rest) b.
Proof. intros Hsz. exact (G_instr op [x; y] rest b Hsz). Qed.

(* Ref / Testref x : marks x *)
Lemma G_ref op x rest b :
  (Z.land op 63 =? Ref) || (Z.land op 63 =? Testref) = true ->
  GoodG cg rest b -> GoodG cg (op :: x :: rest) ((x =? cg) || b).
Proof.
  intros Ho H acc.
  assert (Hsz : opcode_size op = 1 + zlen [x]).
  { unfold opcode_size. apply orb_prop in Ho. destruct Ho as [E|E]; apply Z.eqb_eq in E; rewrite E; reflexivity. }
  assert (Hst : istep op [x] acc = smark acc x).
  { unfold istep. cbv zeta. rewrite Ho. reflexivity. }
  destruct (H (smark acc x)) as [acc' [HM [He Hn]]]. exists acc'.
  split; [|split].
  - apply (M_cons op [x] rest acc acc' Hsz). rewrite Hst. exact HM.
  - exact (el_ext_trans _ _ _ (el_smark_ext acc x) He).
  - intros Hb Hr. apply orb_prop in Hb. destruct Hb as [Hb|Hb].
    + apply Z.eqb_eq in Hb. subst x. apply (proj2 He). apply el_smark_hit. exact Hr.
    + apply Hn; [exact Hb|]. rewrite (el_ext_zlen _ _ (el_smark_ext acc x)). exact Hr.
Qed.

(* Capturemark x y with y <> -1 : marks x and y *)
Lemma G_capmark_bal x y rest b : y <> -1 ->
  GoodG cg rest b -> GoodG cg (Capturemark :: x :: y :: rest) ((y =? cg) || b).
Proof.
  intros Hy H acc.
  assert (Hsz : opcode_size Capturemark = 1 + zlen [x; y]) by reflexivity.
  assert (Hst : istep Capturemark [x; y] acc = smark (smark acc x) y).
  { unfold istep. cbv zeta. change (Z.land Capturemark 63) with Capturemark.
    change ((Capturemark =? Ref) || (Capturemark =? Testref)) with false.
    change (Capturemark =? Capturemark) with true. cbn [nth].
    replace (negb (y =? -1)) with true by lia. reflexivity. }
  destruct (H (smark (smark acc x) y)) as [acc' [HM [He Hn]]]. exists acc'.
  pose proof (el_ext_trans _ _ _ (el_smark_ext acc x) (el_smark_ext (smark acc x) y)) as He0.
  split; [|split].
  - apply (M_cons Capturemark [x; y] rest acc acc' Hsz). rewrite Hst. exact HM.
  - exact (el_ext_trans _ _ _ He0 He).
  - intros Hb Hr. apply orb_prop in Hb. destruct Hb as [Hb|Hb].
    + apply Z.eqb_eq in Hb. subst y. apply (proj2 He). apply el_smark_hit.
      rewrite (el_ext_zlen _ _ (el_smark_ext acc x)). exact Hr.
    + apply Hn; [exact Hb|]. rewrite (el_ext_zlen _ _ He0). exact Hr.
Qed.

(* Capturemark x (-1) : marks nothing *)
Lemma G_capmark_plain x rest b :
  GoodG cg rest b -> GoodG cg (Capturemark :: x :: -1 :: rest) b.
Proof.
  intros H acc. destruct (H acc) as [acc' [HM [He Hn]]]. exists acc'.
  split; [|split; [exact He|exact Hn]].
  apply (M_cons Capturemark [x; -1] rest acc acc'); [reflexivity|exact HM].
Qed.

End Good.

(* ------------------------------------------------------------------------------------------ *)
(* sizes of the opcodes the writer emits                                                       *)

Lemma el_char_op k o :
  opcode_size (char_op k + bits_of o) = 2 /\ is_special (char_op k + bits_of o) = false.
Proof. unfold bits_of. destruct k, (is_rtl o), (is_ci o); vm_compute; split; reflexivity. Qed.

Lemma el_rep_op k o :
  opcode_size (rep_op k + bits_of o) = 3 /\ is_special (rep_op k + bits_of o) = false.
Proof. unfold bits_of. destruct k, (is_rtl o), (is_ci o); vm_compute; split; reflexivity. Qed.

Lemma el_loop_op k l o :
  opcode_size (loop_op k l + bits_of o) = 3 /\ is_special (loop_op k l + bits_of o) = false.
Proof. unfold bits_of. destruct k, l, (is_rtl o), (is_ci o); vm_compute; split; reflexivity. Qed.

Lemma el_multi_op o :
  opcode_size (Multi + bits_of o) = 2 /\ is_special (Multi + bits_of o) = false.
Proof. unfold bits_of. destruct (is_rtl o), (is_ci o); vm_compute; split; reflexivity. Qed.

Lemma el_ref_op o :
  (Z.land (Ref + bits_of o) 63 =? Ref) || (Z.land (Ref + bits_of o) 63 =? Testref) = true.
Proof. unfold bits_of. destruct (is_rtl o), (is_ci o); vm_compute; reflexivity. Qed.

Lemma el_anchor_op an :
  opcode_size (anchor_code an) = 1 /\ is_special (anchor_code an) = false.
Proof. destruct an; vm_compute; split; reflexivity. Qed.

Lemma el_map_capnum_m1 c : map_capnum c (-1) = -1.
Proof. reflexivity. Qed.

(* ------------------------------------------------------------------------------------------ *)
(* the code of a tree walks fine and marks the slot of every group the tree reads               *)

Section Link.
Variable cm : option (list (Z * Z)).
Variable g : Z.
Notation cf := (full_cfg cm).
Notation cg := (map_capnum (full_cfg cm) g).

Ltac child IH Hb nm :=
  match goal with
  | |- context [emit cf ?r ?a' ?tb] =>
      pose proof (IH Hb a' tb) as nm;
      let cr := fresh "cr" in let t1 := fresh "t1" in
      destruct (emit cf r a' tb) as [cr t1]; cbn [fst] in nm
  end.

Ltac p1 := apply G_p1; [reflexivity|reflexivity|].
Ltac p2 := apply G_p2; [reflexivity|reflexivity|].
Ltac p3 := apply G_p3; [reflexivity|reflexivity|].

Theorem el_emit_good : forall t, bal_ok cm t = true ->
  forall a tbl, GoodG cg (fst (emit cf t a tbl)) (reads g t).
Proof.
  induction t as [kd o ch|kd lk o ch m n|o str|o g'|an| | | |o l HF|o l HF|lazy o m n r IHr|o g' u r IHr
                 |r IHr|o r IHr|o r IHr|r IHr|o g' yes no IHy IHn|o cnd yes no IHc IHy IHn]
    using node_ind'; intros Hb a tbl; cbn [reads]; cbn [bal_ok] in Hb.
  - (* NChar *)
    cbn [emit fst]. apply G_p2; [apply el_char_op|apply el_char_op|apply G_nil].
  - (* NCharLoop *)
    cbn [emit fst]. apply G_app_l.
    + destruct (0 <? m); [|apply G_nil]. apply G_p3; [apply el_rep_op|apply el_rep_op|apply G_nil].
    + destruct (m <? n); [|apply G_nil]. apply G_p3; [apply el_loop_op|apply el_loop_op|apply G_nil].
  - (* NMulti *)
    cbn [emit]. destruct (string_code str tbl) as [i tbl']. cbn [fst].
    apply G_p2; [apply el_multi_op|apply el_multi_op|apply G_nil].
  - (* NRef *)
    cbn [emit fst].
    apply (G_weaken cg _ ((map_capnum cf g' =? cg) || false)).
    + apply G_ref; [apply el_ref_op|apply G_nil].
    + intros E. apply Z.eqb_eq in E. subst g'. rewrite Z.eqb_refl. reflexivity.
  - cbn [emit fst]. apply G_p1; [apply el_anchor_op|apply el_anchor_op|apply G_nil].
  - cbn [emit fst]. p1. apply G_nil.
  - cbn [emit fst]. apply G_nil.
  - cbn [emit fst]. p1. apply G_nil.
  - (* NConcat *)
    rewrite wr_emit_concat_eq. revert a tbl.
    induction HF as [|x l Hx HF IH]; intros a tbl; [apply G_nil|].
    apply er_forallb_cons in Hb. destruct Hb as [Hbx Hbl].
    cbn [emit_seq existsb].
    pose proof (Hx Hbx a tbl) as Gx. destruct (emit cf x a tbl) as [cx t1]. cbn [fst] in Gx.
    pose proof (IH Hbl (a + zlen cx) t1) as Gl. destruct (emit_seq cf l (a + zlen cx) t1) as [cr t2].
    cbn [fst] in *. apply G_app; assumption.
  - (* NAlternate *)
    rewrite wr_emit_alternate_eq.
    generalize (a + csize cf (NAlternate o l)) as lend. intros lend. revert a tbl.
    induction HF as [|x l Hx HF IH]; intros a tbl; [apply G_nil|].
    apply er_forallb_cons in Hb. destruct Hb as [Hbx Hbl].
    destruct l as [|y l].
    + cbn [emit_alt existsb]. apply (G_weaken cg _ (reads g x)); [exact (Hx Hbx a tbl)|].
      intros E. apply orb_prop in E. destruct E as [E|E]; [exact E|discriminate E].
    + rewrite wr_emit_alt_cons2.
      pose proof (Hx Hbx (a + 2) tbl) as Gx. destruct (emit cf x (a + 2) tbl) as [cx t1]. cbn [fst] in Gx.
      cbv zeta.
      pose proof (IH Hbl (a + 2 + zlen cx + 2) t1) as Gl.
      destruct (emit_alt cf lend (y :: l) (a + 2 + zlen cx + 2) t1) as [cr t2]. cbn [fst] in *.
      change (existsb (reads g) (x :: y :: l)) with (reads g x || existsb (reads g) (y :: l)).
      cbn [app]. p2. apply G_app; [exact Gx|]. p2. exact Gl.
  - (* NLoop *)
    cbn [emit]. cbv zeta. child IHr Hb Gr.
    apply G_app_l.
    { destruct (counted m n), (m =? 0).
      - p2. apply G_nil.
      - p2. apply G_nil.
      - p1. apply G_nil.
      - p1. apply G_nil. }
    apply G_app_l.
    { destruct (m =? 0); [|apply G_nil]. p2. apply G_nil. }
    apply G_app_r; [exact Gr|].
    destruct (counted m n), lazy.
    + p3. apply G_nil.
    + p3. apply G_nil.
    + p2. apply G_nil.
    + p2. apply G_nil.
  - (* NCapture *)
    apply andb_prop in Hb. destruct Hb as [Hbu Hbr].
    cbn [emit]. rewrite er_emit_capture_full. child IHr Hbr Gr.
    cbn [app]. p1.
    destruct (u =? -1) eqn:Eu.
    + assert (u = -1) by lia. subst u. rewrite el_map_capnum_m1. cbn [negb andb orb].
      apply G_app_r; [exact Gr|]. apply G_capmark_plain. apply G_nil.
    + cbn [orb] in Hbu. cbn [negb andb].
      apply (G_weaken cg _ (reads g r || ((map_capnum cf u =? cg) || false))).
      * apply G_app; [exact Gr|]. apply G_capmark_bal; [lia|apply G_nil].
      * intros E. apply orb_prop in E. destruct E as [E|E].
        -- apply Z.eqb_eq in E. subst u. rewrite Z.eqb_refl. apply orb_true_r.
        -- rewrite E. reflexivity.
  - (* NGroup *) cbn [emit]. exact (IHr Hb a tbl).
  - (* NPosLook *)
    cbn [emit]. child IHr Hb Gr. cbn [app]. p1. p1. apply G_app_r; [exact Gr|]. p1. p1. apply G_nil.
  - (* NNegLook *)
    cbn [emit]. child IHr Hb Gr. cbn [app]. p1. p2. apply G_app_r; [exact Gr|]. p1. p1. apply G_nil.
  - (* NAtomic *)
    cbn [emit]. child IHr Hb Gr. cbn [app]. p1. apply G_app_r; [exact Gr|]. p1. apply G_nil.
  - (* NBackRefCond *)
    apply andb_prop in Hb. destruct Hb as [Hby Hbn].
    cbn [emit]. child IHy Hby Gy.
    assert (Gn : forall a' tb, GoodG cg (fst (match no with Some x => emit cf x a' tb | None => ([], tb) end))
                                     (opt_b (reads g) no)).
    { intros a' tb. destruct no as [x|]; cbn [opt_b opt_all opt_ball] in *; [exact (IHn Hbn a' tb)|apply G_nil]. }
    match goal with |- context [match no with Some x => emit cf x ?a' ?tb | None => _ end] =>
      specialize (Gn a' tb); destruct (match no with Some x => emit cf x a' tb | None => ([], tb) end) as [cn t2]
    end.
    cbn [fst] in *. cbn [app]. p1. p2.
    apply (G_weaken cg _ ((map_capnum cf g' =? cg) || (reads g yes || opt_b (reads g) no))).
    + apply G_ref; [reflexivity|]. p1. apply G_app; [exact Gy|]. p2. p1. exact Gn.
    + intros E. destruct (g =? g') eqn:Eg.
      * apply Z.eqb_eq in Eg. subst g'. rewrite Z.eqb_refl. reflexivity.
      * cbn [orb] in E. rewrite E. apply orb_true_r.
  - (* NExprCond *)
    apply andb_prop in Hb. destruct Hb as [Hb Hbn]. apply andb_prop in Hb. destruct Hb as [Hbc Hby].
    cbn [emit]. child IHc Hbc Gc. cbv zeta. child IHy Hby Gy.
    assert (Gn : forall a' tb, GoodG cg (fst (match no with Some x => emit cf x a' tb | None => ([], tb) end))
                                     (opt_b (reads g) no)).
    { intros a' tb. destruct no as [x|]; cbn [opt_b opt_all opt_ball] in *; [exact (IHn Hbn a' tb)|apply G_nil]. }
    match goal with |- context [match no with Some x => emit cf x ?a' ?tb | None => _ end] =>
      specialize (Gn a' tb); destruct (match no with Some x => emit cf x a' tb | None => ([], tb) end) as [cn t3]
    end.
    cbn [fst] in *. cbn [app]. p1. p1. p2.
    rewrite <- orb_assoc.
    apply G_app; [exact Gc|]. p1. p1. apply G_app; [exact Gy|]. p2. p1. p1. exact Gn.
Qed.

End Link.

(* ------------------------------------------------------------------------------------------ *)
(* the whole program, and captureSlotsInUse on it                                              *)

Lemma el_compile_good cm g root : bal_ok cm root = true ->
  GoodG (map_capnum (full_cfg cm) g) (fst (compile (full_cfg cm) root)) (reads g root).
Proof.
  intros Hb. unfold compile.
  pose proof (el_emit_good cm g root Hb 2 []) as Gr.
  destruct (emit (full_cfg cm) root 2 []) as [cr tbl]. cbn [fst] in *.
  cbn [app]. apply G_p2; [reflexivity|reflexivity|].
  apply G_app_r; [exact Gr|]. apply G_p1; [reflexivity|reflexivity|apply G_nil].
Qed.

Definition siu_init (capsize : Z) : list bool :=
  if 0 <? capsize then true :: repeat false (Z.to_nat capsize - 1) else [].

Lemma el_slots_in_use_eq code capsize : slots_in_use code capsize = slots_in_use_aux (length code) code (siu_init capsize).
Proof. reflexivity. Qed.

(* the in-use vector of the full program: same length as the initial vector, slot 0 set when
   there is one, and the slot of every read group set when it is in range *)
Lemma el_slots_in_use_spec cm root capsize : bal_ok cm root = true ->
  let q := slots_in_use (fst (write_full cm root)) capsize in
  ext (siu_init capsize) q /\
  forall g, reads g root = true ->
    0 <= map_capnum (full_cfg cm) g < zlen q -> nth (Z.to_nat (map_capnum (full_cfg cm) g)) q false = true.
Proof.
  intros Hb q.
  assert (Hq : forall g, exists acc',
             q = acc' /\ ext (siu_init capsize) acc' /\
             (reads g root = true -> 0 <= map_capnum (full_cfg cm) g < zlen (siu_init capsize) ->
              nth (Z.to_nat (map_capnum (full_cfg cm) g)) acc' false = true)).
  { intros g. destruct (el_compile_good cm g root Hb (siu_init capsize)) as [acc' [HM [He Hn]]].
    exists acc'. split; [|split; [exact He|exact Hn]].
    unfold q. rewrite el_slots_in_use_eq.
    apply (el_Marks_run _ _ _ HM). apply Nat.le_refl. }
  split.
  - destruct (Hq 0) as [acc' [E [He _]]]. rewrite E. exact He.
  - intros g Hr Hrange. destruct (Hq g) as [acc' [E [He Hn]]]. rewrite E in *.
    apply Hn; [exact Hr|]. rewrite <- (el_ext_zlen _ _ He). exact Hrange.
Qed.

(* THE LINK: with the in-use vector of the full program, the writer's keep-test erases no group
   that the search reads.  Side conditions: balancing captures are mapped (bal_ok, e.g. from
   capmap_ok) and every group the tree reads is mapped to a non-negative slot. *)
Theorem quick_keep_unobs cm capsize root :
  bal_ok cm root = true ->
  (forall g, reads g root = true -> 0 <= map_capnum (full_cfg cm) g) ->
  unobs (quick_keep cm (slots_in_use (fst (write_full cm root)) capsize)) root.
Proof.
  intros Hb Hpos g Hk.
  destruct (reads g root) eqn:Er; [exfalso|reflexivity].
  destruct (el_slots_in_use_spec cm root capsize Hb) as [_ Hn].
  set (q := slots_in_use (fst (write_full cm root)) capsize) in *.
  pose proof (Hpos g Er) as H0. specialize (Hn g Er).
  unfold quick_keep, emit_capture in Hk. cbn [quick quick_cfg] in Hk.
  rewrite el_map_capnum_m1, er_map_capnum in Hk. cbn [negb Z.eqb] in Hk.
  change (-1 =? -1) with true in Hk. cbn [negb] in Hk.
  destruct (zlen q <=? map_capnum (full_cfg cm) g) eqn:E.
  - replace (0 <=? map_capnum (full_cfg cm) g) with true in Hk by lia. discriminate Hk.
  - rewrite Hn in Hk by lia.
    replace (0 <=? map_capnum (full_cfg cm) g) with true in Hk by lia. discriminate Hk.
Qed.

(* group(s) in slot 0 — the whole match — are always kept *)
Theorem quick_keep_slot0 cm capsize root g :
  bal_ok cm root = true -> map_capnum (full_cfg cm) g = 0 ->
  quick_keep cm (slots_in_use (fst (write_full cm root)) capsize) g = true.
Proof.
  intros Hb H0.
  destruct (el_slots_in_use_spec cm root capsize Hb) as [[HL HN] _].
  set (q := slots_in_use (fst (write_full cm root)) capsize) in *.
  unfold quick_keep, emit_capture. cbn [quick quick_cfg].
  rewrite el_map_capnum_m1, er_map_capnum, H0. change (-1 =? -1) with true. cbn [negb].
  change (0 <=? 0) with true. cbn [andb Z.to_nat].
  unfold siu_init in HL, HN. destruct (0 <? capsize).
  - rewrite (HN 0%nat eq_refl). apply orb_true_r.
  - cbn [length] in HL. unfold zlen. rewrite HL. reflexivity.
Qed.

(* syntax.Write's quick program, end to end: it is the full program of a tree obtained from the
   original by erasing plain captures in such a way that the leftmost priority-ordered search
   gives the same answer — same success/failure, same final position, same capture stacks of all
   kept groups, among them every group that lives in slot 0. *)
Theorem write_quick_sound cm capsize root prog :
  bal_ok cm root = true ->
  (forall g, reads g root = true -> 0 <= map_capnum (full_cfg cm) g) ->
  write_quick cm capsize root = Some prog ->
  exists keep,
    prog = fst (write_full cm (erase keep root)) /\
    (forall g, map_capnum (full_cfg cm) g = 0 -> keep g = true) /\
    forall e fuel rtl start prevlen,
      rrel (opt_agree keep) (find e fuel root rtl start prevlen)
                            (find e fuel (erase keep root) rtl start prevlen).
Proof.
  intros Hb Hpos Hw.
  exists (quick_keep cm (slots_in_use (fst (write_full cm root)) capsize)).
  split; [|split].
  - unfold write_quick in Hw. cbv zeta in Hw.
    destruct (existsb negb _); [|discriminate Hw]. injection Hw as Hw. subst prog.
    unfold write_full.
    exact (f_equal fst (erase_compile cm _ root Hb)).
  - intros g H0. apply quick_keep_slot0; assumption.
  - intros e fuel rtl start prevlen. apply erase_find_rel.
    apply quick_keep_unobs; assumption.
Qed.

(* the same with the relation spelled out *)
Theorem write_quick_sound_spelled cm capsize root prog :
  bal_ok cm root = true ->
  (forall g, reads g root = true -> 0 <= map_capnum {| capmap := cm; quick := None |} g) ->
  write_quick cm capsize root = Some prog ->
  exists keep,
    prog = fst (write_full cm (erase keep root)) /\
    (forall g, map_capnum {| capmap := cm; quick := None |} g = 0 -> keep g = true) /\
    forall e fuel rtl start prevlen,
      let r1 := find e fuel root rtl start prevlen in
      let r2 := find e fuel (erase keep root) rtl start prevlen in
      (forall s1, r1 = Ok (Some s1) -> exists s2, r2 = Ok (Some s2) /\ agree keep s1 s2) /\
      (forall s2, r2 = Ok (Some s2) -> exists s1, r1 = Ok (Some s1) /\ agree keep s1 s2) /\
      (r1 = Ok None <-> r2 = Ok None) /\
      (r1 = Fuel <-> r2 = Fuel).
Proof.
  intros Hb Hpos Hw. destruct (write_quick_sound cm capsize root prog Hb Hpos Hw) as [keep [Hp [H0 Hrel]]].
  exists keep. split; [exact Hp|]. split; [exact H0|].
  intros e fuel rtl start prevlen r1 r2. apply er_rrel_opt_spelled. apply Hrel.
Qed.
