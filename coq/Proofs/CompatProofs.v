(* C06: the compat adapter's iteration around regexp2's search equals Go's allMatches loop around
   ANY single-match function M that the search bridges to. *)
From Verif Require Import Base.Prelude Model.Iter Proofs.IterProofs.
From Coq Require Import ZifyBool.

Section CompatProofs.
  Variable len : Z.                           (* runes *)
  Variable attempt : Z -> Z -> option mt.
  Variable off : Z -> Z.                      (* rune index -> byte offset *)
  Variable M : Z -> option (list Z).          (* Go: doExecute at byte position *)
  Variable width : Z -> Z.                    (* Go: step(pos) width *)
  Variable end_ : Z.                          (* bytes *)
  Variable num_subexp : Z.

  Hypothesis Hlen : 0 <= len.
  Hypothesis Hfw : forward false len attempt.
  Hypothesis HnoG : no_G attempt.

  (* group 0 is the match itself and there are 1+numSubexp groups *)
  Definition groups_ok (m : mt) : Prop :=
    (exists tl, m_groups m = Some (m_index m, m_length m) :: tl) /\
    Z.of_nat (length (m_groups m)) = 1 + num_subexp.
  Hypothesis Hgroups : forall ts p m, 0 <= p <= len -> attempt ts p = Some m -> groups_ok m.

  (* the byte offsets of the rune boundaries *)
  Hypothesis Hoff0 : off 0 = 0.
  Hypothesis Hoff_mono : forall i j, 0 <= i -> i < j -> j <= len -> off i < off j.
  Hypothesis Hoff_end : off len = end_.
  (* Go's step: the width of the rune starting at a boundary, 0 at the end of the text *)
  Hypothesis Hwidth : forall i, 0 <= i < len -> width (off i) = off (i + 1) - off i.
  Hypothesis Hwidth_end : width (off len) <= 0.

  Notation mi := (match_indexes off).
  (* regexp2's fresh search from rune index i *)
  Definition S (i : Z) : option mt := scan_p false len attempt i (-1).

  (* bridge: at every rune boundary, Go's single-match function is regexp2's fresh search, in bytes *)
  Definition bridge : Prop :=
    forall i, 0 <= i <= len -> M (off i) = option_map mi (S i).
  Hypothesis Hbridge : bridge.

  Notation chain := (chain false len attempt).
  Notation wfm := (wfm false len).
  Notation next_p := (next_p false len attempt).
  Notation dist := (dist false len).
  Notation first_hit := (first_hit false attempt).
  Notation edge := (fun m : mt => m_index m + m_length m).
  Notation acc_list := (acc_list).

  Lemma off_le i j : 0 <= i -> i <= j -> j <= len -> off i <= off j.
  Proof.
    intros H1 H2 H3. destruct (Z.eq_dec i j) as [->|Hne]; [lia|].
    pose proof (Hoff_mono i j). lia.
  Qed.
  Lemma off_nonneg i : 0 <= i <= len -> 0 <= off i.
  Proof. intros H. rewrite <- Hoff0. apply off_le; lia. Qed.
  Lemma off_inj i j : 0 <= i <= len -> 0 <= j <= len -> off i = off j -> i = j.
  Proof.
    intros Hi Hj He. destruct (Z.lt_trichotomy i j) as [H|[H|H]]; [|exact H|].
    - pose proof (Hoff_mono i j). lia.
    - pose proof (Hoff_mono j i). lia.
  Qed.
  Lemma len_le_end : len <= end_.
  Proof.
    rewrite <- Hoff_end.
    assert (forall k : nat, Z.of_nat k <= len -> Z.of_nat k <= off (Z.of_nat k)) as H.
    { induction k as [|k IH]; intros Hk.
      - cbn. rewrite Hoff0. lia.
      - pose proof (Hoff_mono (Z.of_nat k) (Z.of_nat (Datatypes.S k))). lia. }
    specialize (H (Z.to_nat len)). rewrite Z2Nat.id in H by lia. apply H. lia.
  Qed.

  Lemma S_unfold i : S i = first_hit (dist i) i i.
  Proof. reflexivity. Qed.

  Lemma wfm_ltr m : wfm m -> 0 <= m_index m /\ 0 <= m_length m /\ m_textpos m = m_index m + m_length m /\ m_index m + m_length m <= len.
  Proof. intros [Hr (Hl & Ht & Hd)]. unfold m_start in *. cbn in Hr, Hd. destruct Hd as [Hd1 Hd2]. repeat split; lia. Qed.

  (* a fresh search returns a match at or after i *)
  Lemma S_some i m : 0 <= i <= len -> S i = Some m -> wfm m /\ i <= m_index m /\ attempted len attempt m.
  Proof.
    intros Hi H. pose proof H as H'. unfold S in H.
    apply (scan_p_wf false len attempt Hfw) in H; [|exact Hi]. destruct H as [Hw Hd].
    split; [exact Hw|]. split.
    - change (bump false) with 1 in Hd. change (m_start false m) with (m_index m) in Hd. change (-1 =? 0) with false in Hd. cbv beta iota in Hd. lia.
    - eapply scan_p_attempted; eauto.
  Qed.

  (* leftmost coherence: searching from anywhere between i and the match found from i finds the same match *)
  Lemma S_coh_step i m : 0 <= i <= len -> S i = Some m -> i < m_index m -> S (i + 1) = Some m.
  Proof.
    intros Hi H Hlt. destruct (S_some _ _ Hi H) as (Hw & _ & _).
    destruct (wfm_ltr _ Hw) as (_ & Hl0 & _ & Hle).
    rewrite S_unfold in *.
    assert (dist i = Datatypes.S (dist (i + 1))) as Hd. { unfold IterProofs.dist. lia. }
    rewrite Hd in H. cbn [IterProofs.first_hit] in H.
    destruct (attempt i i) as [m0|] eqn:Ea.
    - inv H. pose proof (Hfw _ _ _ Hi Ea) as Hs. unfold shaped in Hs. cbn in Hs. lia.
    - unfold bump in H. cbn in H. rewrite <- H. apply first_hit_noG. exact HnoG.
  Qed.

  Lemma S_coh : forall (k : nat) i m, 0 <= i <= len -> S i = Some m -> i + Z.of_nat k <= m_index m ->
    S (i + Z.of_nat k) = Some m.
  Proof.
    induction k as [|k IH]; intros i m Hi H Hk.
    - replace (i + Z.of_nat 0) with i by lia. exact H.
    - replace (i + Z.of_nat (Datatypes.S k)) with ((i + 1) + Z.of_nat k) by lia.
      destruct (S_some _ _ Hi H) as (Hw & _ & _). destruct (wfm_ltr _ Hw) as (_ & Hl0 & _ & Hle).
      apply IH; [lia | apply S_coh_step; [exact Hi | exact H | lia] | lia].
  Qed.

  Lemma S_coh' i j m : 0 <= i <= len -> S i = Some m -> i <= j <= m_index m -> S j = Some m.
  Proof.
    intros Hi H Hj. replace j with (i + Z.of_nat (Z.to_nat (j - i))) by lia.
    apply S_coh; [exact Hi | exact H | lia].
  Qed.

  (* what FindNextMatch computes, in terms of fresh searches *)
  Lemma next_p_S m : wfm m ->
    next_p m = if m_length m =? 0
               then (if m_index m =? len then None else S (m_index m + 1))
               else S (m_index m + m_length m).
  Proof.
    intros Hw. destruct (wfm_ltr _ Hw) as (Hi & Hl & Ht & Hle).
    unfold IterProofs.next_p, scan_p, S, scan_p. cbn [stoppos bump].
    destruct (m_length m =? 0) eqn:El.
    - assert (m_textpos m = m_index m) as -> by lia.
      destruct (m_index m =? len); [reflexivity|].
      assert (-1 =? 0 = false) as -> by lia. apply first_hit_noG. exact HnoG.
    - assert (-1 =? 0 = false) as -> by lia. rewrite Ht. reflexivity.
  Qed.

  (* shape of the index list of a match *)
  Lemma mi_length m : length (mi m) = (2 * length (m_groups m))%nat.
  Proof.
    unfold match_indexes. induction (m_groups m) as [|g gs IH]; [reflexivity|].
    cbn [flat_map]. rewrite app_length, IH. destruct g as [[i l]|]; cbn; lia.
  Qed.

  Lemma mi_shape m : groups_ok m ->
    exists tl, mi m = off (m_index m) :: off (m_index m + m_length m) :: tl.
  Proof.
    intros [[tl Hg] _]. unfold match_indexes. rewrite Hg. cbn [flat_map capture_index].
    eexists. cbn [app]. f_equal. f_equal. lia.
  Qed.

  Lemma pad_mi m : groups_ok m -> Go.pad num_subexp (mi m) = mi m.
  Proof.
    intros [_ Hn]. unfold Go.pad, zlen. rewrite mi_length.
    replace (Z.to_nat ((1 + num_subexp) * 2 - Z.of_nat (2 * length (m_groups m)))) with O by lia.
    reflexivity.
  Qed.

  Definition offm (pe : Z) : Z := if pe <? 0 then -1 else off pe.

  Notation go_loop := (Go.all_matches_loop M width end_ num_subexp).

  (* one turn of Go's loop at a rune boundary where the search finds m *)
  Lemma go_turn f i cnt pme N m :
    0 <= i <= len -> S i = Some m -> cnt < N ->
    go_loop (Datatypes.S f) (off i) cnt pme N =
      let m0 := off (m_index m) in
      let m1 := off (m_index m + m_length m) in
      let accept := if m1 =? off i then negb (m0 =? pme) else true in
      let pos' := if m1 =? off i
                  then (let w := width (off i) in if w >? 0 then off i + w else end_ + 1)
                  else m1 in
      if accept then do rest <- go_loop f pos' (cnt + 1) m1 N ; Ok (mi m :: rest)
      else go_loop f pos' cnt m1 N.
  Proof.
    intros Hi HS Hc. destruct (S_some _ _ Hi HS) as (Hw & Hge & (ts & p & Hp & Ha)).
    pose proof (Hgroups _ _ _ Hp Ha) as Hg.
    cbn [Go.all_matches_loop].
    assert (off i <= end_) as Hoe. { rewrite <- Hoff_end. apply off_le; lia. }
    assert ((cnt <? N) && (off i <=? end_) = true) as -> by lia.
    rewrite (Hbridge i Hi), HS. cbn [option_map].
    rewrite (pad_mi m Hg).
    destruct (mi_shape m Hg) as [tl Hm]. rewrite Hm.
    change (znth (off (m_index m) :: off (m_index m + m_length m) :: tl) 0) with (Some (off (m_index m))).
    change (znth (off (m_index m) :: off (m_index m + m_length m) :: tl) 1) with (Some (off (m_index m + m_length m))).
    reflexivity.
  Qed.

  Lemma chain_nil_inv ms : chain None ms -> ms = [].
  Proof. intros H. inversion H. reflexivity. Qed.

  (* the simulation: Go's loop from byte position off(i) delivers exactly what the adapter's walk
     of the FindNextMatch chain from S(i) accepts *)
  Lemma go_sim : forall ms fuel i pe cnt N,
    0 <= i <= len -> -1 <= pe <= i -> 0 <= cnt <= N ->
    chain (S i) ms ->
    (2 * length ms + 1 < fuel)%nat ->
    go_loop fuel (off i) cnt (offm pe) N = Ok (map mi (acc_list edge ms pe (N - cnt))).
  Proof.
    induction ms as [|m ms IH]; intros fuel i pe cnt N Hi Hpe Hcnt Hc Hf.
    - apply chain_inv_nil in Hc.
      assert (acc_list edge [] pe (N - cnt) = []) as ->. { cbn. destruct (N - cnt =? 0); reflexivity. }
      destruct fuel as [|f]; [lia|]. cbn [Go.all_matches_loop map].
      destruct ((cnt <? N) && (off i <=? end_)); [|reflexivity].
      rewrite (Hbridge i Hi), Hc. reflexivity.
    - apply chain_inv_cons in Hc. destruct Hc as (HS & Hw & Hch).
      destruct (S_some _ _ Hi HS) as (_ & Hge & _).
      destruct (wfm_ltr _ Hw) as (Hi0 & Hl0 & Htp & Hle).
      cbn [IterProofs.acc_list].
      destruct (N - cnt =? 0) eqn:En.
      { (* limit reached *)
        destruct fuel as [|f]; [lia|]. cbn [Go.all_matches_loop map].
        assert ((cnt <? N) && (off i <=? end_) = false) as -> by lia. reflexivity. }
      assert (cnt < N) as Hlt by lia.
      destruct fuel as [|f]; [lia|].
      rewrite (go_turn f i cnt (offm pe) N m Hi HS Hlt). cbv zeta.
      rewrite (next_p_S _ Hw) in Hch.
      assert (N - cnt >? 0 = true) as -> by lia.
      destruct (m_length m =? 0) eqn:El.
      + (* empty match at j *)
        assert (m_length m = 0) as Hl by lia.
        replace (m_index m + m_length m) with (m_index m) in * by lia.
        destruct (Z.eq_dec (m_index m) i) as [Hji|Hji].
        * (* found right at the search position *)
          rewrite Hji in Hch. rewrite !Hji. rewrite Z.eqb_refl.
          assert ((off i =? offm pe) = (i =? pe)) as Hacc.
          { unfold offm. destruct (pe <? 0) eqn:Ep.
            - pose proof (off_nonneg i Hi). lia.
            - destruct (Z.eq_dec i pe) as [->|Hne]; [lia|].
              assert (off i <> off pe). { intros He. apply off_inj in He; lia. } lia. }
          unfold accept. rewrite El. cbn [negb orb]. rewrite Hacc. rewrite ?Hji.
          (* where Go continues *)
          destruct (i =? len) eqn:Eil.
          -- (* at the end of the text: both stop *)
             assert (i = len) as Hil by lia.
             apply chain_nil_inv in Hch. rewrite Hch. rewrite !Hil.
             assert (width (off len) >? 0 = false) as -> by (pose proof Hwidth_end; lia).
             assert (forall c p, go_loop f (end_ + 1) c p N = Ok []) as Hstop.
             { intros c p. destruct f; cbn [Go.all_matches_loop];
                 (assert ((c <? N) && (end_ + 1 <=? end_) = false) as -> by lia); reflexivity. }
             destruct (negb (len =? pe)).
             ++ rewrite Hstop. cbn [bind map]. rewrite acc_list_0 || idtac.
                cbn [IterProofs.acc_list]. destruct (N - cnt - 1 =? 0); reflexivity.
             ++ rewrite Hstop. cbn [IterProofs.acc_list]. destruct (N - cnt =? 0); reflexivity.
          -- assert (i < len) as Hil by lia.
             rewrite (Hwidth i) by lia.
             assert (off (i + 1) - off i >? 0 = true) as ->.
             { pose proof (Hoff_mono i (i + 1)). lia. }
             replace (off i + (off (i + 1) - off i)) with (off (i + 1)) by lia.
             assert (off i = offm i) as Hoi. { unfold offm. assert (i <? 0 = false) as -> by lia. reflexivity. }
             destruct (negb (i =? pe)) eqn:Eacc.
             ++ rewrite Hoi. rewrite (IH f (i + 1) i (cnt + 1) N); [| lia | lia | lia | exact Hch | cbn [length] in Hf; lia].
                cbn [bind map]. replace (N - (cnt + 1)) with (N - cnt - 1) by lia. reflexivity.
             ++ assert (pe = i) by lia. subst pe.
                rewrite Hoi. rewrite (IH f (i + 1) i cnt N); [| lia | lia | lia | exact Hch | cbn [length] in Hf; lia].
                reflexivity.
        * (* found further on: delivered now, found again (and rejected) from its own position *)
          assert (i < m_index m) as Hlt2 by lia.
          assert (off (m_index m) =? off i = false) as ->.
          { pose proof (Hoff_mono i (m_index m)). lia. }
          unfold accept. rewrite El. cbn [negb orb].
          assert (m_index m =? pe = false) as -> by lia. cbn [negb].
          set (j := m_index m) in *.
          assert (0 <= j <= len) as Hj by lia.
          assert (S j = Some m) as HSj. { eapply S_coh'; [exact Hi | exact HS | lia]. }
          assert (off j = offm j) as Hoj. { unfold offm. assert (j <? 0 = false) as -> by lia. reflexivity. }
          (* second turn *)
          destruct (cnt + 1 <? N) eqn:Ec2.
          2:{ (* limit reached after this delivery *)
              assert (N - cnt - 1 = 0) as -> by lia. rewrite acc_list_0.
              destruct f as [|f']; [cbn [length] in Hf; lia|]. cbn [Go.all_matches_loop].
              assert ((cnt + 1 <? N) && (off j <=? end_) = false) as -> by lia. reflexivity. }
          destruct f as [|f']; [cbn [length] in Hf; lia|].
          rewrite (go_turn f' j (cnt + 1) (off j) N m Hj HSj) by lia. cbv zeta.
          replace (m_index m + m_length m) with j by (unfold j; lia). fold j.
          rewrite !Z.eqb_refl. cbn [negb].
          destruct (j =? len) eqn:Ejl.
          -- assert (j = len) by lia.
             assert (ms = []) as ->. { apply chain_nil_inv. exact Hch. }
             replace (off j) with (off len) by (f_equal; lia).
             assert (width (off len) >? 0 = false) as -> by (pose proof Hwidth_end; lia).
             destruct f'; cbn [Go.all_matches_loop];
               (assert ((cnt + 1 <? N) && (end_ + 1 <=? end_) = false) as -> by lia);
               cbn [bind map IterProofs.acc_list]; destruct (N - cnt - 1 =? 0); reflexivity.
          -- rewrite (Hwidth j) by lia.
             assert (off (j + 1) - off j >? 0 = true) as ->.
             { pose proof (Hoff_mono j (j + 1)). lia. }
             replace (off j + (off (j + 1) - off j)) with (off (j + 1)) by lia.
             rewrite Hoj. rewrite (IH f' (j + 1) j (cnt + 1) N); [| lia | lia | lia | exact Hch | cbn [length] in Hf; lia].
             cbn [bind map]. replace (N - (cnt + 1)) with (N - cnt - 1) by lia. reflexivity.
      + (* non-empty match *)
        assert (0 < m_length m) as Hl by lia.
        assert (off (m_index m + m_length m) =? off i = false) as ->.
        { pose proof (Hoff_mono i (m_index m + m_length m)). lia. }
        unfold accept. rewrite El. cbn [negb orb].
        set (e := m_index m + m_length m) in *.
        assert (off e = offm e) as Hoe. { unfold offm. assert (e <? 0 = false) as -> by lia. reflexivity. }
        assert (go_loop f (off e) (cnt + 1) (offm e) N = Ok (map mi (acc_list edge ms e (N - (cnt + 1))))) as IHe.
        { apply IH; [lia | lia | lia | exact Hch | cbn [length] in Hf; lia]. }
        rewrite <- Hoe in IHe. rewrite IHe.
        cbn [bind map]. replace (N - (cnt + 1)) with (N - cnt - 1) by lia. reflexivity.
  Qed.

  (* ------------ the adapter side ------------ *)

  (* the string entry points start from the prefilter's candidate; that this does not change the
     first match is C03's statement, taken here as a hypothesis on the candidate *)
  Definition cand_ok (cand : option Z) : Prop :=
    match cand with
    | None => S 0 = None
    | Some r => let r := if r <? 0 then 0 else r in 0 <= r <= len /\ S r = S 0
    end.

  Lemma find_string_match_ok cand : cand_ok cand ->
    find_string_match false len attempt (dflt_fuel len) cand = Ok (S 0).
  Proof.
    unfold cand_ok, find_string_match. destruct cand as [r|].
    - intros [Hr Hs]. rewrite (run_ok false len attempt) by exact Hr. unfold S in Hs. rewrite Hs. reflexivity.
    - intros H. rewrite H. reflexivity.
  Qed.

  Lemma chain_S0 : exists ms, chain (S 0) ms /\ (length ms <= Datatypes.S (Z.to_nat len))%nat /\
    iteration false len attempt (dflt_fuel len) (dflt_fuel len) 0 = Ok ms.
  Proof.
    destruct (iteration_ok false len attempt Hfw 0) as (ms & Hi & Hc & Hl); [lia|].
    exists ms. repeat split; assumption.
  Qed.

  Lemma chain_groups ms : chain (S 0) ms -> Forall groups_ok ms.
  Proof.
    intros Hc. apply (chain_attempted false len attempt) in Hc.
    - eapply Forall_impl; [|exact Hc]. intros m (ts & p & Hp & Ha). eapply Hgroups; eauto.
    - intros m Hm. eapply scan_p_attempted; [ | exact Hm]. lia.
  Qed.

  Lemma go_all_from_chain ms N : chain (S 0) ms -> 0 <= N ->
    (length ms <= Datatypes.S (Z.to_nat len))%nat ->
    Go.all_matches M width end_ num_subexp (Go.dflt_fuel end_) N = Ok (map mi (acc_list edge ms (-1) N)).
  Proof.
    intros Hc HN Hl. unfold Go.all_matches.
    replace 0 with (off 0) at 1 by exact Hoff0.
    change (-1) with (offm (-1)) at 1.
    rewrite (go_sim ms); [| lia | lia | lia | exact Hc |].
    - replace (N - 0) with N by lia. reflexivity.
    - pose proof len_le_end. unfold Go.dflt_fuel. lia.
  Qed.

  Lemma acc_unlimited ms pe n : n < 0 -> (length ms <= Datatypes.S (Z.to_nat len))%nat ->
    acc_list edge ms pe (end_ + 1) = acc_list edge ms pe n.
  Proof.
    intros Hn Hl. pose proof len_le_end.
    rewrite (acc_list_big edge ms pe (end_ + 1)) by lia.
    clear Hl. revert pe. induction ms as [|m ms IH]; intros pe; cbn [IterProofs.acc_list].
    - assert (n =? 0 = false) as -> by lia. reflexivity.
    - assert (n =? 0 = false) as -> by lia. assert (n >? 0 = false) as -> by lia. cbn.
      destruct (accept m pe); [f_equal|]; apply IH.
  Qed.

  (* compat_find_all_eq_go, Submatch-index form (forEachStringMatch) *)
  Lemma compat_find_all_submatch_eq cand n : cand_ok cand ->
    compat_find_all_string_submatch_index false len attempt off (dflt_fuel len) (dflt_fuel len) cand n
    = Go.find_all_submatch_index M width end_ num_subexp (Go.dflt_fuel end_) n.
  Proof.
    intros Hcand. destruct chain_S0 as (ms & Hc & Hl & _).
    unfold compat_find_all_string_submatch_index, Go.find_all_submatch_index, for_each_string_match.
    pose proof len_le_end as Hle.
    destruct (n =? 0) eqn:En.
    - assert (n = 0) as -> by lia. cbn [Z.ltb Z.compare].
      rewrite (go_all_from_chain ms 0 Hc) by (try lia; exact Hl). rewrite acc_list_0. reflexivity.
    - rewrite (find_string_match_ok cand Hcand). cbn [bind].
      rewrite (for_each_loop_chain false len attempt ms) by (try exact Hc; unfold dflt_fuel; lia).
      cbn [bind]. destruct (n <? 0) eqn:Eneg.
      + rewrite (go_all_from_chain ms (end_ + 1) Hc) by (try lia; exact Hl). cbn [bind].
        rewrite (acc_unlimited ms (-1) n) by (try lia; exact Hl). reflexivity.
      + rewrite (go_all_from_chain ms n Hc) by (try lia; exact Hl). reflexivity.
  Qed.

  Lemma slice_of_list_map {A B} (f : A -> B) l : slice_of_list (map f l) = option_map (map f) (slice_of_list l).
  Proof. destruct l; reflexivity. Qed.

  Lemma edge_textpos ms : Forall wfm ms -> Forall (fun m => m_textpos m = m_index m + m_length m) ms.
  Proof. intros H. eapply Forall_impl; [|exact H]. intros m Hw. destruct (wfm_ltr _ Hw) as (_ & _ & Ht & _). exact Ht. Qed.

  (* what the regexp2 find-all loop accepts, from the chain *)
  Lemma find_all_loop_S0 ms n : chain (S 0) ms -> (length ms <= Datatypes.S (Z.to_nat len))%nat ->
    find_all_loop false len attempt (dflt_fuel len) (dflt_fuel len) 0 (-1) (-1) n = Ok (acc_list edge ms (-1) n).
  Proof.
    intros Hc Hl.
    rewrite (find_all_loop_chain false len attempt ms) by (try exact Hc; unfold dflt_fuel; lia).
    f_equal. apply acc_list_ext. apply edge_textpos. eapply chain_wf; eauto.
  Qed.

  Lemma mi_pair m : groups_ok m -> (nth 0 (mi m) 0, nth 1 (mi m) 0) = (off (m_index m), off (m_index m + m_length m)).
  Proof. intros Hg. destruct (mi_shape m Hg) as [tl ->]. reflexivity. Qed.

  Lemma acc_list_incl e : forall ms pe n (P : mt -> Prop), Forall P ms -> Forall P (acc_list e ms pe n).
  Proof.
    induction ms as [|m ms IH]; intros pe n P H; cbn [IterProofs.acc_list].
    - destruct (n =? 0); constructor.
    - inv H. destruct (n =? 0); [constructor|]. destruct (accept m pe); [constructor; [assumption|]|]; apply IH; assumption.
  Qed.

  (* compat_find_all_eq_go, Index form through FindAllRunesIndex (FindAllIndex / FindAll) *)
  Lemma compat_find_all_index_eq n :
    compat_find_all_index false len attempt off (dflt_fuel len) (dflt_fuel len) n
    = Go.find_all_index M width end_ num_subexp (Go.dflt_fuel end_) n.
  Proof.
    destruct chain_S0 as (ms & Hc & Hl & _).
    pose proof (chain_groups ms Hc) as Hg. pose proof len_le_end as Hle.
    unfold compat_find_all_index, find_all_runes_index, Go.find_all_index, find_all_runes_index_from.
    destruct (n =? 0) eqn:En.
    - assert (n = 0) as -> by lia. cbn [bind Z.ltb Z.compare].
      rewrite (go_all_from_chain ms 0 Hc) by (try lia; exact Hl). rewrite acc_list_0. reflexivity.
    - cbn [bind]. rewrite (find_all_loop_S0 ms n Hc Hl). cbn [bind].
      assert (forall l, Forall groups_ok l ->
                map (fun a => (nth 0 a 0, nth 1 a 0)) (map mi l)
                = map (fun p => (off (fst p), off (snd p))) (map (fun m => (m_index m, m_index m + m_length m)) l)) as Hmap.
      { induction l as [|x l IHl]; intros Hf; [reflexivity|]. inv Hf. cbn [map]. rewrite mi_pair by assumption.
        cbn [fst snd]. f_equal. apply IHl. assumption. }
      destruct (n <? 0) eqn:Eneg.
      + rewrite (go_all_from_chain ms (end_ + 1) Hc) by (try lia; exact Hl). cbn [bind].
        rewrite (acc_unlimited ms (-1) n) by (try lia; exact Hl).
        rewrite Hmap by (apply acc_list_incl; exact Hg).
        destruct (acc_list edge ms (-1) n); reflexivity.
      + rewrite (go_all_from_chain ms n Hc) by (try lia; exact Hl). cbn [bind].
        rewrite Hmap by (apply acc_list_incl; exact Hg).
        destruct (acc_list edge ms (-1) n); reflexivity.
  Qed.

  (* compat FindAllStringIndex: regexp2.FindAllStringIndex with the byte mapper, from the prefilter candidate *)
  Lemma compat_find_all_string_index_eq cand n : cand_ok cand ->
    compat_find_all_string_index false len attempt (dflt_fuel len) (dflt_fuel len) cand off n
    = Go.find_all_index M width end_ num_subexp (Go.dflt_fuel end_) n.
  Proof.
    intros Hcand. destruct chain_S0 as (ms & Hc & Hl & _).
    pose proof (chain_groups ms Hc) as Hg.
    rewrite <- compat_find_all_index_eq.
    unfold compat_find_all_string_index, find_all_string_index, compat_find_all_index, find_all_runes_index, find_all_runes_index_from.
    destruct (n =? 0) eqn:En; [reflexivity|].
    cbn [bind]. rewrite (find_all_loop_S0 ms n Hc Hl). cbn [bind].
    assert (forall l : list mt, slice_of_list (map (fun m => (off (m_index m), off (m_index m + m_length m))) l)
            = match slice_of_list (map (fun m => (m_index m, m_index m + m_length m)) l) with
              | None => None | Some l0 => Some (map (fun p => (off (fst p), off (snd p))) l0) end) as Hsl.
    { intros l. destruct l as [|x l]; [reflexivity|]. cbn [map slice_of_list fst snd]. rewrite map_map. reflexivity. }
    unfold cand_ok in Hcand. destruct cand as [r|].
    - destruct Hcand as [Hr HS].
      rewrite (find_all_loop_chain false len attempt ms) by (try exact Hr; try (unfold dflt_fuel; lia); unfold S in HS; rewrite HS; exact Hc).
      cbn [bind]. rewrite (acc_list_ext m_textpos edge) by (apply edge_textpos; eapply chain_wf; eauto).
      apply f_equal. apply Hsl.
    - (* prefilter rejected: there is no match at all *)
      rewrite Hcand in Hc. apply chain_nil_inv in Hc. subst ms.
      cbn [IterProofs.acc_list]. destruct (n =? 0); reflexivity.
  Qed.

  (* single-match methods *)
  Lemma compat_find_submatch_eq cand : cand_ok cand ->
    compat_find_string_submatch_index false len attempt off (dflt_fuel len) cand
    = Ok (Go.find_submatch_index M num_subexp).
  Proof.
    intros Hcand. unfold compat_find_string_submatch_index, Go.find_submatch_index.
    rewrite (find_string_match_ok cand Hcand). cbn [bind].
    replace (M 0) with (M (off 0)) by (rewrite Hoff0; reflexivity). rewrite (Hbridge 0) by lia.
    destruct (S 0) as [m|] eqn:E; [|reflexivity]. cbn [option_map].
    destruct (S_some 0 m) as (_ & _ & (ts & p & Hp & Ha)); [lia | exact E |].
    rewrite (pad_mi m); [reflexivity | eapply Hgroups; eauto].
  Qed.

  Lemma compat_find_index_eq cand : cand_ok cand ->
    compat_find_string_index false len attempt off (dflt_fuel len) cand
    = Ok (Go.find_index M).
  Proof.
    intros Hcand. unfold compat_find_string_index, Go.find_index.
    rewrite (find_string_match_ok cand Hcand). cbn [bind].
    replace (M 0) with (M (off 0)) by (rewrite Hoff0; reflexivity). rewrite (Hbridge 0) by lia.
    destruct (S 0) as [m|] eqn:E; [|reflexivity]. cbn [option_map].
    destruct (S_some 0 m) as (_ & _ & (ts & p & Hp & Ha)); [lia | exact E |].
    destruct (mi_shape m) as [tl Hm]; [eapply Hgroups; eauto|]. rewrite Hm. cbn [firstn capture_index].
    replace (off (m_index m) + (off (m_index m + m_length m) - off (m_index m))) with (off (m_index m + m_length m)) by lia. reflexivity.
  Qed.

End CompatProofs.

(* compat_shapes: −1 pairs exactly for groups without a capture, byte pairs otherwise *)
Section Shapes.
  Variable off : Z -> Z.
  Hypothesis Hoff_nonneg : forall i, 0 <= off i.

  Lemma match_indexes_shape m :
    length (match_indexes off m) = (2 * length (m_groups m))%nat /\
    forall k g, nth_error (m_groups m) k = Some g ->
      let a := nth (2 * k) (match_indexes off m) 0 in
      let b := nth (2 * k + 1) (match_indexes off m) 0 in
      match g with
      | None => a = -1 /\ b = -1
      | Some (i, l) => a = off i /\ b = off (i + l) /\ a <> -1
      end.
  Proof.
    unfold match_indexes. induction (m_groups m) as [|g0 gs IH].
    - split; [reflexivity|]. intros k g H. destruct k; discriminate.
    - destruct IH as [IHl IHn]. split.
      + cbn [flat_map]. rewrite app_length, IHl. destruct g0 as [[i l]|]; cbn; lia.
      + intros k g H. destruct k as [|k].
        * cbn in H. inv H. destruct g as [[i l]|]; cbn.
          -- pose proof (Hoff_nonneg i). repeat split; lia.
          -- split; reflexivity.
        * cbn [nth_error] in H. specialize (IHn k g H).
          replace (2 * Datatypes.S k)%nat with (Datatypes.S (Datatypes.S (2 * k))) by lia.
          replace (Datatypes.S (Datatypes.S (2 * k)) + 1)%nat with (Datatypes.S (Datatypes.S (2 * k + 1))) by lia.
          cbn [flat_map]. destruct g0 as [[i0 l0]|]; cbn [capture_index app nth]; exact IHn.
  Qed.
End Shapes.

(* the hypotheses of the C06 theorems, collected *)
Section Hyps.
  Variable len : Z.
  Variable attempt : Z -> Z -> option mt.
  Variable off : Z -> Z.
  Variable M : Z -> option (list Z).
  Variable width : Z -> Z.
  Variable end_ num_subexp : Z.

  Definition hyps : Prop :=
    0 <= len /\ forward false len attempt /\ no_G attempt /\
    (forall ts p m, 0 <= p <= len -> attempt ts p = Some m -> groups_ok num_subexp m) /\
    off 0 = 0 /\ (forall i j, 0 <= i -> i < j -> j <= len -> off i < off j) /\ off len = end_ /\
    (forall i, 0 <= i < len -> width (off i) = off (i + 1) - off i) /\ width (off len) <= 0 /\
    bridge len attempt off M.
End Hyps.

Lemma h_find_all_submatch :
  forall len attempt off M width end_ num_subexp,
    hyps len attempt off M width end_ num_subexp ->
  forall cand n, cand_ok len attempt cand ->
    compat_find_all_string_submatch_index false len attempt off (dflt_fuel len) (dflt_fuel len) cand n
    = Go.find_all_submatch_index M width end_ num_subexp (Go.dflt_fuel end_) n.
Proof.
  intros len attempt off M width end_ num_subexp (H1 & H2 & H3 & H4 & H5 & H6 & H7 & H8 & H9 & H10) cand n Hc.
  eapply compat_find_all_submatch_eq; eassumption.
Qed.

Lemma h_find_all_index :
  forall len attempt off M width end_ num_subexp,
    hyps len attempt off M width end_ num_subexp ->
  forall n,
    compat_find_all_index false len attempt off (dflt_fuel len) (dflt_fuel len) n
    = Go.find_all_index M width end_ num_subexp (Go.dflt_fuel end_) n.
Proof.
  intros len attempt off M width end_ num_subexp (H1 & H2 & H3 & H4 & H5 & H6 & H7 & H8 & H9 & H10) n.
  eapply compat_find_all_index_eq; eassumption.
Qed.

Lemma h_find_all_string_index :
  forall len attempt off M width end_ num_subexp,
    hyps len attempt off M width end_ num_subexp ->
  forall cand n, cand_ok len attempt cand ->
    compat_find_all_string_index false len attempt (dflt_fuel len) (dflt_fuel len) cand off n
    = Go.find_all_index M width end_ num_subexp (Go.dflt_fuel end_) n.
Proof.
  intros len attempt off M width end_ num_subexp (H1 & H2 & H3 & H4 & H5 & H6 & H7 & H8 & H9 & H10) cand n Hc.
  eapply compat_find_all_string_index_eq; eassumption.
Qed.

Lemma h_find_single :
  forall len attempt off M width end_ num_subexp,
    hyps len attempt off M width end_ num_subexp ->
  forall cand, cand_ok len attempt cand ->
    compat_find_string_submatch_index false len attempt off (dflt_fuel len) cand = Ok (Go.find_submatch_index M num_subexp) /\
    compat_find_string_index false len attempt off (dflt_fuel len) cand = Ok (Go.find_index M).
Proof.
  intros len attempt off M width end_ num_subexp (H1 & H2 & H3 & H4 & H5 & H6 & H7 & H8 & H9 & H10) cand Hc.
  split.
  - eapply compat_find_submatch_eq; eassumption.
  - eapply compat_find_index_eq; eassumption.
Qed.

Lemma h_summary :
  forall len attempt off M width end_ num_subexp,
    hyps len attempt off M width end_ num_subexp ->
  forall cand n, cand_ok len attempt cand ->
    compat_find_all_string_submatch_index false len attempt off (dflt_fuel len) (dflt_fuel len) cand n
      = Go.find_all_submatch_index M width end_ num_subexp (Go.dflt_fuel end_) n /\
    compat_find_all_index false len attempt off (dflt_fuel len) (dflt_fuel len) n
      = Go.find_all_index M width end_ num_subexp (Go.dflt_fuel end_) n /\
    compat_find_all_string_index false len attempt (dflt_fuel len) (dflt_fuel len) cand off n
      = Go.find_all_index M width end_ num_subexp (Go.dflt_fuel end_) n.
Proof.
  intros len attempt off M width end_ num_subexp H cand n Hc. split; [|split].
  - apply h_find_all_submatch; assumption.
  - apply h_find_all_index; assumption.
  - apply h_find_all_string_index; assumption.
Qed.
