(* C04, part 7: soundness of findFixedDistanceSets (Analysis2.raw_fixed / fixed_distance_raw):
   at every successful attempt at p of a left-to-right pattern, for every published (set, distance d)
   the character at p + d exists and belongs to the set. *)
From Coq Require Import ZifyBool.
From Verif Require Import Base.Prelude Model.Tree Model.Spec Model.CharClass Model.Analysis Model.Analysis2
     Proofs.SpecProofs Proofs.CharClassRanges Proofs.CharClassProofs Proofs.MaskProofs
     Proofs.AnalysisReach Proofs.AnalysisProofs Proofs.AnalysisPrefix Proofs.Analysis2Cls Proofs.Analysis2Ffcc.

Definition rf_ok {A B} (p : bool * A * B) : bool := fst (fst p).
Definition rf_res {A B} (p : bool * A * B) : A := snd (fst p).
Definition rf_dist {A B} (p : bool * A * B) : B := snd p.

(* ---- the map `combined` ---- *)
Fixpoint clook (k : Z) (cm : list (Z * cls * Z)) : option (cls * Z) :=
  match cm with
  | [] => None
  | (k', s, c) :: cm' => if k =? k' then Some (s, c) else clook k cm'
  end.
Definition ckeys (cm : list (Z * cls * Z)) : list Z := map (fun en => fst (fst en)) cm.

Lemma nodup_snoc (l : list Z) d : NoDup l -> ~ In d l -> NoDup (l ++ [d]).
Proof.
  induction l as [|a l IH]; intros H Hn; cbn [app]; [constructor; [intros []|constructor]|].
  inversion H; subst. constructor.
  - intros Hin. apply in_app_or in Hin. destruct Hin as [Hin|[<-|[]]]; [contradiction|]. apply Hn. left. reflexivity.
  - apply IH; [assumption|]. intros Hin. apply Hn. right. exact Hin.
Qed.

Lemma if_elim {A} (P : A -> Prop) (b : bool) x y : (b = true -> P x) -> (b = false -> P y) -> P (if b then x else y).
Proof. destruct b; auto. Qed.

Lemma nodup_app (l1 l2 : list Z) :
  NoDup l1 -> NoDup l2 -> (forall d, In d l1 -> In d l2 -> False) -> NoDup (l1 ++ l2).
Proof.
  induction l1 as [|a l1 IH]; intros H1 H2 Hd; cbn [app]; [exact H2|].
  inversion H1; subst. constructor.
  - intros Hin. apply in_app_or in Hin. destruct Hin as [Hin|Hin]; [contradiction|].
    apply (Hd a); [left; reflexivity|exact Hin].
  - apply IH; [assumption|assumption|]. intros d Hi1 Hi2. apply (Hd d); [right; exact Hi1|exact Hi2].
Qed.

Lemma clook_in cm : NoDup (ckeys cm) -> forall k s c, In (k, s, c) cm -> clook k cm = Some (s, c).
Proof.
  induction cm as [|[[k' s'] c'] cm IH]; intros Hnd k s c Hin; [destruct Hin|].
  cbn [ckeys map fst] in Hnd. inversion Hnd as [|? ? Hni Hnd']; subst. cbn [clook].
  destruct Hin as [Heq|Hin].
  - injection Heq as -> -> ->. rewrite Z.eqb_refl. reflexivity.
  - destruct (k =? k') eqn:E.
    + exfalso. assert (k = k') by lia. subst k'. apply Hni.
      apply (in_map (fun en => fst (fst en))) in Hin. exact Hin.
    + apply IH; assumption.
Qed.

Lemma clook_some_in cm : forall k s c, clook k cm = Some (s, c) -> In (k, s, c) cm.
Proof.
  induction cm as [|[[k' s'] c'] cm IH]; intros k s c H; cbn [clook] in H; [discriminate H|].
  destruct (k =? k') eqn:E.
  - injection H as -> ->. assert (k = k') by lia. subst k'. left. reflexivity.
  - right. apply IH. exact H.
Qed.

Lemma clook_none_keys cm k : clook k cm = None -> ~ In k (ckeys cm).
Proof.
  induction cm as [|[[k' s'] c'] cm IH]; cbn [clook ckeys map fst]; [intros _ []|].
  destruct (k =? k') eqn:E; [discriminate|]. intros H [Heq|Hin]; [lia|]. apply IH; assumption.
Qed.

(* first entry of a result list at distance k *)
Fixpoint lfind (k : Z) (loc : list (cls * Z)) : option cls :=
  match loc with
  | [] => None
  | (s, d) :: loc' => if k =? d then Some s else lfind k loc'
  end.

Lemma lfind_some k loc s : lfind k loc = Some s -> In (s, k) loc.
Proof.
  induction loc as [|[s' d] loc IH]; cbn [lfind]; [discriminate|].
  destruct (k =? d) eqn:E.
  - intros H. injection H as ->. assert (k = d) by lia. subst d. left. reflexivity.
  - intros H. right. apply IH. exact H.
Qed.

Lemma lfind_none k loc : lfind k loc = None -> ~ In k (map snd loc).
Proof.
  induction loc as [|[s' d] loc IH]; cbn [lfind map snd]; [intros _ []|].
  destruct (k =? d) eqn:E; [discriminate|]. intros H [Heq|Hin]; [lia|]. apply IH; assumption.
Qed.

Lemma lfind_in_nodup loc : NoDup (map snd loc) -> forall s k, In (s, k) loc -> lfind k loc = Some s.
Proof.
  induction loc as [|[s' d] loc IH]; intros Hnd s k Hin; [destruct Hin|].
  cbn [map snd] in Hnd. inversion Hnd as [|? ? Hni Hnd']; subst. cbn [lfind].
  destruct Hin as [Heq|Hin].
  - injection Heq as -> ->. rewrite Z.eqb_refl. reflexivity.
  - destruct (k =? d) eqn:E.
    + exfalso. assert (k = d) by lia. subst d. apply Hni. apply (in_map snd) in Hin. exact Hin.
    + apply IH; assumption.
Qed.


Section Loops.
Variable cat_in : Z -> Z -> bool.
Variable sets : list cls.
Variable th : bool.
Notation RF := (raw_fixed cat_in sets th).

Fixpoint rf_cat (l : list node) (res : list (cls * Z)) (dist : Z) : bool * list (cls * Z) * Z :=
  match l with
  | [] => (true, res, dist)
  | x :: l' => let '(ok, res', dist') := RF x res dist in
               if ok then rf_cat l' res' dist' else (false, res', dist')
  end.

Definition comb_fold (loc : list (cls * Z)) (cm : list (Z * cls * Z)) : list (Z * cls * Z) :=
  fold_left (fun cm sd => comb_add cat_in cm (snd sd) (fst sd)) loc cm.

Fixpoint rf_alt (l : list node) (allsame : bool) (same : Z) (cm : list (Z * cls * Z))
  : option (bool * Z * list (Z * cls * Z)) :=
  match l with
  | [] => Some (allsame, same, cm)
  | x :: l' =>
      let '(ok, loc, ld) := if allsame then RF x [] 0 else (false, [], 0) in
      let allsame1 := allsame && ok in
      match loc with
      | [] => None
      | _ =>
          let '(allsame2, same2) :=
            if allsame1 then (if same =? -1 then (true, ld) else if same =? ld then (true, same) else (false, same))
            else (false, same) in
          rf_alt l' allsame2 same2 (comb_fold loc cm)
      end
  end.

Lemma rf_concat_eq o l res dist :
  RF (NConcat o l) res dist = if is_rtl o then (false, res, dist) else rf_cat l res dist.
Proof. reflexivity. Qed.

Lemma rf_alternate_eq o l res dist :
  RF (NAlternate o l) res dist =
  if is_rtl o then (false, res, dist)
  else if th then
    match rf_alt l true (-1) [] with
    | None => (false, res, dist)
    | Some (allsame, same, cm) =>
        let '(res', allsame') := comb_publish cm (zlen l) dist res allsame in
        if allsame' then (true, res', dist + same) else (false, res', dist)
    end
  else (false, res, dist).
Proof. reflexivity. Qed.

Lemma rf_cat_cons x l res dist :
  rf_cat (x :: l) res dist =
  let p := RF x res dist in if rf_ok p then rf_cat l (rf_res p) (rf_dist p) else (false, rf_res p, rf_dist p).
Proof. cbn [rf_cat]. destruct (RF x res dist) as [[ok r] d]. reflexivity. Qed.

Definition merge1 (o : option (cls * Z)) (s : cls) : option (cls * Z) :=
  match o with
  | None => Some (cls_copy s, 1)
  | Some (s', c') => if is_mergeable s' && is_mergeable s then Some (add_set cat_in s' s, c' + 1) else Some (s', c')
  end.

Lemma clook_comb_add cm d s k :
  clook k (comb_add cat_in cm d s) = if k =? d then merge1 (clook d cm) s else clook k cm.
Proof.
  induction cm as [|[[k' s'] c'] cm IH]; cbn [comb_add clook merge1].
  - destruct (k =? d); reflexivity.
  - destruct (d =? k') eqn:E.
    + assert (d = k') by lia. subst k'. unfold merge1.
      destruct (is_mergeable s' && is_mergeable s); cbn [clook]; destruct (k =? d); reflexivity.
    + cbn [clook]. destruct (k =? k') eqn:E2.
      * destruct (k =? d) eqn:E3; [lia|reflexivity].
      * exact IH.
Qed.

Lemma ckeys_comb_add cm d s :
  ckeys (comb_add cat_in cm d s) = if existsb (Z.eqb d) (ckeys cm) then ckeys cm else ckeys cm ++ [d].
Proof.
  induction cm as [|[[k' s'] c'] cm IH]; cbn [comb_add ckeys map existsb fst]; [reflexivity|].
  destruct (d =? k') eqn:E; cbn [orb].
  - destruct (is_mergeable s' && is_mergeable s); reflexivity.
  - cbn [map fst]. fold (ckeys cm). fold (ckeys (comb_add cat_in cm d s)). rewrite IH.
    destruct (existsb (Z.eqb d) (ckeys cm)); reflexivity.
Qed.

Lemma ckeys_comb_add_nodup cm d s : NoDup (ckeys cm) -> NoDup (ckeys (comb_add cat_in cm d s)).
Proof.
  intros H. rewrite ckeys_comb_add. destruct (existsb (Z.eqb d) (ckeys cm)) eqn:E; [exact H|].
  apply nodup_snoc; [exact H|]. intros Hin.
  assert (existsb (Z.eqb d) (ckeys cm) = true); [|congruence].
  apply existsb_exists. exists d. split; [exact Hin|apply Z.eqb_refl].
Qed.

Lemma clook_fold loc : forall cm, NoDup (map snd loc) -> forall k,
  clook k (comb_fold loc cm) = match lfind k loc with Some s => merge1 (clook k cm) s | None => clook k cm end.
Proof.
  unfold comb_fold. induction loc as [|[s d] loc IH]; intros cm Hnd k; cbn [fold_left lfind fst snd]; [reflexivity|].
  cbn [map snd] in Hnd. inversion Hnd as [|? ? Hni Hnd']; subst.
  rewrite IH by exact Hnd'. rewrite clook_comb_add.
  destruct (k =? d) eqn:E.
  - assert (k = d) by lia. subst d.
    destruct (lfind k loc) eqn:El; [|reflexivity].
    exfalso. apply Hni. apply lfind_some in El. apply (in_map snd) in El. exact El.
  - reflexivity.
Qed.

Lemma ckeys_fold_nodup loc : forall cm, NoDup (ckeys cm) -> NoDup (ckeys (comb_fold loc cm)).
Proof.
  unfold comb_fold. induction loc as [|[s d] loc IH]; intros cm H; cbn [fold_left]; [exact H|].
  apply IH. apply ckeys_comb_add_nodup. exact H.
Qed.

End Loops.

(* ------------------------------------------------------------------------------------------ *)
(* syntactic facts: new entries are appended, have distinct distances inside [dist, dist')      *)

Lemma zlen_snoc {A} (l : list A) x : zlen (l ++ [x]) = zlen l + 1.
Proof. unfold zlen. rewrite app_length. cbn [length]. lia. Qed.

Lemma comb_publish_spec n dist : forall cm res allsame, NoDup (ckeys cm) ->
  exists new, fst (comb_publish cm n dist res allsame) = res ++ new /\
    NoDup (map snd new) /\
    (forall S d, In (S, d) new -> exists k, d = k + dist /\ In (k, S, n) cm) /\
    (snd (comb_publish cm n dist res allsame) = true -> allsame = true).
Proof.
  induction cm as [|[[k S] c] cm IH]; intros res allsame Hnd; cbn [comb_publish].
  - exists []. rewrite app_nil_r. cbn [fst snd map]. split; [reflexivity|]. split; [constructor|]. split; [intros ? ? []|auto].
  - cbn [ckeys map fst] in Hnd. inversion Hnd as [|? ? Hni Hnd']; subst.
    destruct (MAX_FIXED_RESULTS <=? zlen res).
    + exists []. rewrite app_nil_r. cbn [fst snd map]. split; [reflexivity|]. split; [constructor|].
      split; [intros ? ? []|discriminate].
    + destruct (IH (if c =? n then res ++ [(S, k + dist)] else res) allsame Hnd') as [new [E [Hn [Hall Has]]]].
      destruct (c =? n) eqn:Ec.
      * exists ((S, k + dist) :: new). rewrite E. rewrite <- app_assoc. split; [reflexivity|].
        split.
        { cbn [map snd]. constructor; [|exact Hn]. intros Hin. apply in_map_iff in Hin.
          destruct Hin as [[S' d'] [Hd' Hin]]. cbn [snd] in Hd'. subst d'.
          destruct (Hall _ _ Hin) as [k' [Hk' Hin']]. assert (k' = k) by lia. subst k'.
          apply Hni. apply (in_map (fun en => fst (fst en))) in Hin'. exact Hin'. }
        split; [|exact Has].
        intros S' d' [Heq|Hin].
        { injection Heq as <- <-. exists k. split; [reflexivity|]. left. assert (c = n) by lia. subst c. reflexivity. }
        destruct (Hall _ _ Hin) as [k' [Hk' Hin']]. exists k'. split; [exact Hk'|right; exact Hin'].
      * exists new. split; [exact E|]. split; [exact Hn|]. split; [|exact Has].
        intros S' d' Hin. destruct (Hall _ _ Hin) as [k' [Hk' Hin']]. exists k'. split; [exact Hk'|right; exact Hin'].
Qed.

Lemma rf_push_spec S : forall k dist,
  NoDup (map snd (rf_push S k dist)) /\
  forall S' d, In (S', d) (rf_push S k dist) -> S' = S /\ dist <= d < dist + Z.of_nat k.
Proof.
  induction k as [|k IH]; intros dist; cbn [rf_push map snd].
  - split; [constructor|intros ? ? []].
  - destruct (IH (dist + 1)) as [Hn Hall]. split.
    + constructor; [|exact Hn]. intros Hin. apply in_map_iff in Hin. destruct Hin as [[S' d'] [Hd' Hin]].
      cbn [snd] in Hd'. subst d'. destruct (Hall _ _ Hin). lia.
    + intros S' d [Heq|Hin]; [injection Heq as <- <-; split; [reflexivity|lia]|].
      destruct (Hall _ _ Hin). split; [assumption|lia].
Qed.


Section Syn.
Variable cat_in : Z -> Z -> bool.
Variable sets : list cls.
Variable th : bool.
Hypothesis Hgood : sets_good cat_in sets.
Notation RF := (raw_fixed cat_in sets th).
Notation gcls := (gcls cat_in).
Notation acc_ok := (acc_ok cat_in).
Notation cmem := (cmem cat_in).

Definition sub_mem (a b : cls) : Prop := forall z, valid_rune z -> cmem a z = true -> cmem b z = true.

Definition locof (x : node) : list (cls * Z) := rf_res (RF x [] 0).
Definition okof (x : node) : bool := rf_ok (RF x [] 0).
Definition ldof (x : node) : Z := rf_dist (RF x [] 0).

Definition syn_shape (p : bool * list (cls * Z) * Z) (res : list (cls * Z)) (dist : Z) : Prop :=
  exists new, rf_res p = res ++ new /\ NoDup (map snd new) /\
    (forall S d, In (S, d) new -> gcls S /\ dist <= d /\ (rf_ok p = true -> d < rf_dist p)) /\
    (rf_ok p = true -> dist <= rf_dist p).

Definition syn_at (x : node) : Prop := forall res dist, 0 <= dist -> syn_shape (RF x res dist) res dist.

Lemma syn_loc x : syn_at x ->
  NoDup (map snd (locof x)) /\
  (forall S d, In (S, d) (locof x) -> gcls S /\ 0 <= d /\ (okof x = true -> d < ldof x)) /\
  (okof x = true -> 0 <= ldof x).
Proof.
  intros H. destruct (H [] 0 ltac:(lia)) as [new [E [Hnd [Hall Hd]]]]. cbn [app] in E.
  unfold locof, okof, ldof. rewrite E. auto.
Qed.

(* the counts of `combined` after the children in [done] *)
Definition cinv (done : list node) (cm : list (Z * cls * Z)) : Prop :=
  NoDup (ckeys cm) /\
  forall k S c, clook k cm = Some (S, c) ->
    acc_ok S /\ c <= zlen done /\ (exists x, In x done /\ In k (map snd (locof x))) /\
    (c = zlen done -> forall x, In x done -> exists Sx, In (Sx, k) (locof x) /\ sub_mem Sx S).

Lemma sub_mem_refl a : sub_mem a a.
Proof. intros z _ H. exact H. Qed.
Lemma sub_mem_trans a b c : sub_mem a b -> sub_mem b c -> sub_mem a c.
Proof. intros H1 H2 z Hz H. apply H2; [exact Hz|]. apply H1; assumption. Qed.

Lemma cinv_step done cm x :
  cinv done cm -> NoDup (map snd (locof x)) -> (forall S d, In (S, d) (locof x) -> gcls S) ->
  cinv (done ++ [x]) (comb_fold cat_in (locof x) cm).
Proof.
  intros [Hnd Hall] Hndx Hgx. split; [apply ckeys_fold_nodup; exact Hnd|].
  intros k S c Hl. rewrite clook_fold in Hl by exact Hndx. rewrite zlen_snoc.
  assert (Hzl : 0 <= zlen done) by (unfold zlen; lia).
  destruct (lfind k (locof x)) as [Sx|] eqn:Ef.
  - pose proof (lfind_some _ _ _ Ef) as Hin. pose proof (Hgx _ _ Hin) as Hg.
    assert (Hwit : exists x0, In x0 (done ++ [x]) /\ In k (map snd (locof x0))).
    { exists x. split; [apply in_or_app; right; left; reflexivity|]. apply (in_map snd) in Hin. exact Hin. }
    destruct (clook k cm) as [[S0 c0]|] eqn:Ec; cbn [merge1] in Hl.
    + destruct (Hall k S0 c0 Ec) as (A0 & Hc0 & _ & Hfull).
      destruct (is_mergeable S0 && is_mergeable Sx) eqn:Em.
      * injection Hl as <- <-. apply andb_true_iff in Em. destruct Em as [E1 E2].
        destruct (a2_add_set cat_in S0 Sx A0 E1 Hg E2) as [A1 B1].
        split; [exact A1|]. split; [lia|]. split; [exact Hwit|].
        intros Hc x0 Hx0. assert (Hc0' : c0 = zlen done) by lia.
        apply in_app_or in Hx0. destruct Hx0 as [Hx0|[<-|[]]].
        -- destruct (Hfull Hc0' x0 Hx0) as [Sy [Hy1 Hy2]]. exists Sy. split; [exact Hy1|].
           intros z Hz Hm. rewrite B1 by exact Hz. rewrite (Hy2 z Hz Hm). reflexivity.
        -- exists Sx. split; [exact Hin|]. intros z Hz Hm. rewrite B1 by exact Hz. rewrite Hm. apply orb_true_r.
      * injection Hl as <- <-. split; [exact A0|]. split; [lia|]. split; [exact Hwit|]. intros Hc. lia.
    + injection Hl as <- <-. split; [apply a2_copy_acc; exact Hg|]. split; [lia|]. split; [exact Hwit|].
      intros Hc x0 Hx0. assert (Hd0 : zlen done = 0) by lia.
      assert (done = []) by (destruct done; [reflexivity|unfold zlen in Hd0; cbn [length] in Hd0; lia]). subst done.
      cbn [app] in Hx0. destruct Hx0 as [<-|[]]. exists Sx. split; [exact Hin|].
      intros z Hz Hm. rewrite a2_copy_mem by exact Hg. exact Hm.
  - destruct (Hall k S c Hl) as (A0 & Hc0 & [x0 [Hx0 Hk0]] & _).
    split; [exact A0|]. split; [lia|]. split; [exists x0; split; [apply in_or_app; left; exact Hx0|exact Hk0]|].
    intros Hc. lia.
Qed.

(* allSameSize / sameDistance after the children in [done] *)
Definition jinv (done : list node) (allsame : bool) (same : Z) : Prop :=
  (done = [] -> same = -1) /\
  (done <> [] -> allsame = true -> 0 <= same /\ forall x, In x done -> okof x = true /\ ldof x = same).

Lemma rf_alt_inv : forall l done allsame same cm as' same' cm',
  Forall syn_at l -> cinv done cm -> jinv done allsame same ->
  rf_alt cat_in sets th l allsame same cm = Some (as', same', cm') ->
  cinv (done ++ l) cm' /\ jinv (done ++ l) as' same'.
Proof.
  induction l as [|x l IH]; intros done allsame same cm as' same' cm' Hsyn Hc Hj H; cbn [rf_alt] in H.
  - injection H as <- <- <-. rewrite app_nil_r. split; assumption.
  - inversion Hsyn as [|? ? Hx Hl]; subst.
    destruct (syn_loc x Hx) as (Hnd & Hall & Hld).
    destruct allsame; [|discriminate H].
    unfold locof, okof, ldof in *. destruct (RF x [] 0) as [[ok loc] ld] eqn:ER. cbn [rf_ok rf_res rf_dist fst snd] in *.
    destruct loc as [|e0 loc0] eqn:Eloc; [discriminate H|]. rewrite <- Eloc in *. clear Eloc e0 loc0.
    cbn [andb] in H.
    assert (Hstep : cinv (done ++ [x]) (comb_fold cat_in loc cm)).
    { pose proof (cinv_step done cm x Hc) as Hs. unfold locof in Hs. rewrite ER in Hs. cbn [rf_res fst snd] in Hs.
      apply Hs; [exact Hnd|]. intros S d Hin. apply (Hall S d Hin). }
    replace (done ++ x :: l) with ((done ++ [x]) ++ l) by (rewrite <- app_assoc; reflexivity).
    assert (Hne : done ++ [x] <> []) by (destruct done; discriminate).
    assert (Hokx : okof x = ok /\ ldof x = ld) by (unfold okof, ldof; rewrite ER; split; reflexivity).
    destruct ok.
    + destruct (same =? -1) eqn:E1.
      * eapply IH; [exact Hl|exact Hstep| |exact H].
        split; [intros Hx0; congruence|]. intros _ _. split; [apply Hld; reflexivity|].
        destruct Hj as [Hj1 Hj2]. destruct done as [|d0 done'].
        -- cbn [app]. intros x0 [<-|[]]. exact Hokx.
        -- exfalso. destruct (Hj2 ltac:(discriminate) eq_refl) as [H0 _]. lia.
      * destruct (same =? ld) eqn:E2.
        -- eapply IH; [exact Hl|exact Hstep| |exact H].
           split; [intros Hx0; congruence|]. intros _ _.
           destruct Hj as [Hj1 Hj2]. destruct done as [|d0 done']; [specialize (Hj1 eq_refl); lia|].
           destruct (Hj2 ltac:(discriminate) eq_refl) as [H0 Hall0]. split; [exact H0|].
           intros x0 Hx0. apply in_app_or in Hx0. destruct Hx0 as [Hx0|[<-|[]]]; [apply Hall0; exact Hx0|].
           destruct Hokx as [-> ->]. split; [reflexivity|lia].
        -- eapply IH; [exact Hl|exact Hstep| |exact H].
           split; [intros Hx0; congruence|]. intros _ Hf. discriminate Hf.
    + eapply IH; [exact Hl|exact Hstep| |exact H].
      split; [intros Hx0; congruence|]. intros _ Hf. discriminate Hf.
Qed.

(* ---- the leaf loops ---- *)
Lemma rf_multi_spec : forall str have dist,
  let p := rf_multi cat_in str have dist in
  dist <= snd p /\ (snd (fst p) = true -> snd p = dist + zlen str) /\ NoDup (map snd (fst (fst p))) /\
  forall S d, In (S, d) (fst (fst p)) ->
    dist <= d < snd p /\ d - dist < zlen str /\ S = add_char cat_in empty_cls (nth (Z.to_nat (d - dist)) str 0).
Proof.
  induction str as [|c str IH]; intros have dist; cbn [rf_multi].
  - cbn [fst snd map]. split; [lia|]. split; [intros _; unfold zlen; cbn; lia|]. split; [constructor|intros ? ? []].
  - destruct (have <? MAX_FIXED_RESULTS).
    + specialize (IH (have + 1) (dist + 1)). cbv zeta in IH.
      destruct (rf_multi cat_in str (have + 1) (dist + 1)) as [[l ok] d'] eqn:ER. cbn [fst snd] in *.
      destruct IH as (H1 & H2 & H3 & H4).
      assert (Hz : zlen (c :: str) = 1 + zlen str) by (unfold zlen; cbn [length]; lia).
      split; [lia|]. split; [intros Hok; rewrite (H2 Hok), Hz; lia|]. split.
      * cbn [map snd]. constructor; [|exact H3]. intros Hin. apply in_map_iff in Hin.
        destruct Hin as [[S' d0] [Hd0 Hin]]. cbn [snd] in Hd0. subst d0. destruct (H4 _ _ Hin) as [? _]. lia.
      * intros S d [Heq|Hin].
        -- injection Heq as <- <-. split; [lia|]. split; [unfold zlen; cbn [length]; lia|].
           replace (dist - dist) with 0 by lia. reflexivity.
        -- destruct (H4 _ _ Hin) as (A & B & C). split; [lia|]. split; [lia|].
           replace (Z.to_nat (d - dist)) with (Datatypes.S (Z.to_nat (d - (dist + 1)))) by lia. exact C.
    + cbn [fst snd map]. split; [lia|]. split; [discriminate|]. split; [constructor|intros ? ? []].
Qed.

Lemma one_cls_good c : rune_ok c = true -> gcls (add_char cat_in empty_cls c).
Proof.
  intros Hc. destruct (a2_add_char cat_in empty_cls c (a2_empty_acc cat_in) eq_refl (a2_rune_ok cat_in c Hc)) as [[A _] _].
  exact A.
Qed.

Lemma one_cls_mem c x : rune_ok c = true -> valid_rune x -> cmem (add_char cat_in empty_cls c) x = (x =? c).
Proof.
  intros Hc Hx. destruct (a2_add_char cat_in empty_cls c (a2_empty_acc cat_in) eq_refl (a2_rune_ok cat_in c Hc)) as [_ B].
  rewrite B by exact Hx. reflexivity.
Qed.

Lemma acc_gcls S : acc_ok S -> gcls S.
Proof. intros [H _]. exact H. Qed.

(* nothing is added *)
Lemma syn_nothing x : (forall res dist, rf_res (RF x res dist) = res /\ (rf_ok (RF x res dist) = true -> dist <= rf_dist (RF x res dist))) -> syn_at x.
Proof.
  intros H res dist Hd. destruct (H res dist) as [E1 E2]. exists []. rewrite app_nil_r.
  split; [exact E1|]. split; [constructor|]. split; [intros ? ? []|exact E2].
Qed.


Lemma syn_none res dist (b : bool) (d' : Z) : (b = true -> dist <= d') -> syn_shape (b, res, d') res dist.
Proof.
  intros H. exists []. rewrite app_nil_r. cbn [rf_ok rf_res rf_dist fst snd map].
  split; [reflexivity|]. split; [constructor|]. split; [intros ? ? []|exact H].
Qed.

Lemma syn_one res dist S (b : bool) : gcls S -> syn_shape (b, res ++ [(S, dist)], dist + 1) res dist.
Proof.
  intros Hg. exists [(S, dist)]. cbn [rf_ok rf_res rf_dist fst snd map].
  split; [reflexivity|]. split; [constructor; [intros []|constructor]|].
  split; [|intros _; lia]. intros S' d [Heq|[]]. injection Heq as <- <-. split; [exact Hg|]. split; intros; lia.
Qed.

Lemma syn_push res dist S k (b : bool) : gcls S -> 0 <= k ->
  syn_shape (b, res ++ rf_push S (Z.to_nat k) dist, dist + k) res dist.
Proof.
  intros Hg Hk. exists (rf_push S (Z.to_nat k) dist). cbn [rf_ok rf_res rf_dist fst snd].
  destruct (rf_push_spec S (Z.to_nat k) dist) as [Hn Hall].
  split; [reflexivity|]. split; [exact Hn|]. split; [|intros _; lia].
  intros S' d Hin. destruct (Hall _ _ Hin) as [-> Hd]. split; [exact Hg|]. split; intros; lia.
Qed.

Lemma syn_forget p res dist : syn_shape p res dist -> syn_shape (false, rf_res p, rf_dist p) res dist.
Proof.
  intros [new [E [Hn [Hall Hd]]]]. exists new. cbn [rf_ok rf_res rf_dist fst snd].
  split; [exact E|]. split; [exact Hn|]. split; [|discriminate].
  intros S d Hin. destruct (Hall _ _ Hin) as (A & B & _). split; [exact A|]. split; [exact B|discriminate].
Qed.

Lemma syn_seq p1 p2 res dist :
  syn_shape p1 res dist -> (rf_ok p1 = true -> syn_shape p2 (rf_res p1) (rf_dist p1)) ->
  syn_shape (if rf_ok p1 then p2 else (false, rf_res p1, rf_dist p1)) res dist.
Proof.
  intros H1 H2. destruct (rf_ok p1) eqn:E1; [|apply syn_forget; exact H1].
  destruct H1 as [n1 [Ea [Hn1 [Hall1 Hd1]]]]. destruct (H2 eq_refl) as [n2 [Eb [Hn2 [Hall2 Hd2]]]].
  specialize (Hd1 E1). exists (n1 ++ n2). split; [rewrite Eb, Ea, app_assoc; reflexivity|].
  split.
  - rewrite map_app. apply nodup_app; [exact Hn1|exact Hn2|].
    intros d Hi1 Hi2. apply in_map_iff in Hi1. destruct Hi1 as [[S1 d1] [<- Hi1]].
    apply in_map_iff in Hi2. destruct Hi2 as [[S2 d2] [Hd Hi2]]. cbn [snd] in *. subst d2.
    destruct (Hall1 _ _ Hi1) as (_ & _ & C1). destruct (Hall2 _ _ Hi2) as (_ & B2 & _). specialize (C1 E1). lia.
  - split.
    + intros S d Hin. apply in_app_or in Hin. destruct Hin as [Hin|Hin].
      * destruct (Hall1 _ _ Hin) as (A & B & C). split; [exact A|]. split; [exact B|].
        intros Hok. specialize (C E1). specialize (Hd2 Hok). lia.
      * destruct (Hall2 _ _ Hin) as (A & B & C). split; [exact A|]. split; [lia|exact C].
    + intros Hok. specialize (Hd2 Hok). lia.
Qed.

Lemma rf_iters_nonneg want have : 0 <= rf_iters want have.
Proof. unfold rf_iters. lia. Qed.

Definition syn_ok (t : node) : Prop := shape_ok false t = true -> lits_ok t = true -> syn_at t.

Lemma syn_cat : forall l, Forall syn_ok l -> forallb (shape_ok false) l = true -> forallb lits_ok l = true ->
  forall res dist, 0 <= dist -> syn_shape (rf_cat cat_in sets th l res dist) res dist.
Proof.
  induction l as [|x l IH]; intros Hf Hs Hl res dist Hd.
  - cbn [rf_cat]. apply syn_none. intros _. lia.
  - rewrite rf_cat_cons. cbv zeta. cbn [forallb] in Hs, Hl.
    apply andb_true_iff in Hs. destruct Hs as [Hsx Hsl]. apply andb_true_iff in Hl. destruct Hl as [Hlx Hll].
    inversion Hf as [|? ? Px Pl]; subst.
    apply syn_seq; [apply (Px Hsx Hlx); exact Hd|].
    intros Hok. destruct (Px Hsx Hlx res dist Hd) as [_ [_ [_ [_ Hdd]]]]. apply IH; auto. specialize (Hdd Hok). lia.
Qed.

Lemma syn_all : forall t, syn_ok t.
Proof.
  induction t using node_ind'; unfold syn_ok; intros Hs Hl res dist Hd.
  - (* NChar *)
    cbn [shape_ok] in Hs. apply eqb_prop in Hs. destruct k; cbn [raw_fixed lits_ok] in *; rewrite Hs.
    + destruct (zlen res <? MAX_FIXED_RESULTS); [apply syn_one; apply one_cls_good; exact Hl|apply syn_none; discriminate].
    + apply syn_none. intros _. lia.
    + destruct (zlen res <? MAX_FIXED_RESULTS); [apply syn_one; apply Hgood|apply syn_none; discriminate].
  - (* NCharLoop *)
    cbn [shape_ok] in Hs. apply andb_true_iff in Hs. destruct Hs as [Hs Hmn].
    apply andb_true_iff in Hs. destruct Hs as [Hs Hm0]. apply eqb_prop in Hs.
    destruct k; cbn [raw_fixed lits_ok] in *; rewrite Hs.
    + destruct (0 <? m); [|apply syn_none; discriminate].
      apply syn_push; [apply one_cls_good; exact Hl|apply rf_iters_nonneg].
    + destruct (m =? n); [|apply syn_none; discriminate]. apply syn_none. intros _. lia.
    + destruct (0 <? m); [|apply syn_none; discriminate].
      apply syn_push; [apply Hgood|apply rf_iters_nonneg].
  - (* NMulti *)
    cbn [shape_ok raw_fixed lits_ok] in *. apply eqb_prop in Hs. rewrite Hs.
    pose proof (rf_multi_spec s (zlen res) dist) as Hm. cbv zeta in Hm.
    destruct (rf_multi cat_in s (zlen res) dist) as [[l ok] d'] eqn:ER. cbn [fst snd] in Hm.
    destruct Hm as (H1 & H2 & H3 & H4).
    exists l. cbn [rf_ok rf_res rf_dist fst snd]. split; [reflexivity|]. split; [exact H3|]. split; [|intros _; exact H1].
    intros S d Hin. destruct (H4 _ _ Hin) as (A & B & C). split; [|split; intros; lia].
    subst S. apply one_cls_good. destruct s as [|c0 s0]; [discriminate Hl|]. rewrite forallb_forall in Hl.
    apply Hl. apply nth_In. unfold zlen in B. lia.
  - (* NRef *) cbn [raw_fixed]. apply syn_none. discriminate.
  - (* NAnchor *) cbn [raw_fixed]. apply syn_none. intros _. lia.
  - (* NNothing *) cbn [raw_fixed]. apply syn_none. discriminate.
  - (* NEmpty *) cbn [raw_fixed]. apply syn_none. intros _. lia.
  - (* NBump *) cbn [raw_fixed]. apply syn_none. intros _. lia.
  - (* NConcat *)
    rewrite rf_concat_eq. destruct (is_rtl o); [apply syn_none; discriminate|].
    cbn [shape_ok lits_ok] in *. apply syn_cat; assumption.
  - (* NAlternate *)
    rewrite rf_alternate_eq. destruct (is_rtl o); [apply syn_none; discriminate|].
    apply (if_elim (fun p => syn_shape p res dist)); intros Eth; [|apply syn_none; discriminate].
    pose proof (an_alt_forallb false l Hs) as Hfa. cbn [lits_ok] in Hl.
    assert (Hne : l <> []) by (destruct l; [discriminate Hs|discriminate]).
    assert (Hsyn : Forall syn_at l).
    { rewrite Forall_forall in *. intros x Hx. rewrite forallb_forall in Hfa, Hl. apply H; auto. }
    destruct (rf_alt cat_in sets th l true (-1) []) as [[[allsame same] cm]|] eqn:EA; [|apply syn_none; discriminate].
    assert (Hc0 : cinv [] []).
    { split; [constructor|]. intros k S c Hk. discriminate Hk. }
    assert (Hj0 : jinv [] true (-1)).
    { split; [reflexivity|]. intros Hx. congruence. }
    destruct (rf_alt_inv l [] true (-1) [] allsame same cm Hsyn Hc0 Hj0 EA) as [[Hnd Hcm] [_ Hj]]. cbn [app] in *.
    destruct (comb_publish_spec (zlen l) dist cm res allsame Hnd) as [new [E [Hn [Hall Has]]]].
    destruct (comb_publish cm (zlen l) dist res allsame) as [res' as'] eqn:EP. cbn [fst snd] in *.
    assert (Hbase : forall S d, In (S, d) new -> gcls S /\ dist <= d /\ (as' = true -> d < dist + same)).
    { intros S d Hin. destruct (Hall _ _ Hin) as [k [-> Hink]].
      pose proof (clook_in cm Hnd _ _ _ Hink) as Hlk. destruct (Hcm _ _ _ Hlk) as (A & _ & [x [Hx Hkx]] & _).
      assert (Hsx : syn_at x) by (rewrite Forall_forall in Hsyn; apply Hsyn; exact Hx).
      destruct (syn_loc x Hsx) as (_ & Hlx & _).
      apply in_map_iff in Hkx. destruct Hkx as [[Sx kx] [Hkk Hinx]]. cbn [snd] in Hkk. subst kx.
      destruct (Hlx _ _ Hinx) as (_ & Hk0 & Hklt).
      split; [apply acc_gcls; exact A|]. split; [lia|].
      intros Ha. destruct (Hj Hne (Has Ha)) as [_ Hallx]. destruct (Hallx x Hx) as [Hox Hdx].
      specialize (Hklt Hox). lia. }
    destruct as'.
    + exists new. cbn [rf_ok rf_res rf_dist fst snd]. split; [exact E|]. split; [exact Hn|]. split.
      * intros S d Hin. destruct (Hbase _ _ Hin) as (A & B & C). split; [exact A|]. split; [exact B|]. intros _. apply C. reflexivity.
      * intros _. destruct (Hj Hne (Has eq_refl)) as [H0 _]. lia.
    + exists new. cbn [rf_ok rf_res rf_dist fst snd]. split; [exact E|]. split; [exact Hn|]. split; [|discriminate].
      intros S d Hin. destruct (Hbase _ _ Hin) as (A & B & C). split; [exact A|]. split; [exact B|discriminate].
  - (* NLoop *)
    cbn [raw_fixed shape_ok lits_ok] in *. apply andb_true_iff in Hs. destruct Hs as [Hmn Hsr].
    destruct (is_rtl o); [apply syn_none; discriminate|].
    destruct (0 <? m); [|apply syn_none; discriminate].
    pose proof (syn_forget _ _ _ (IHt Hsr Hl res dist Hd)) as Hf.
    destruct (raw_fixed cat_in sets th t res dist) as [[ok r] d']. exact Hf.
  - (* NCapture *)
    cbn [raw_fixed shape_ok lits_ok] in *. destruct (is_rtl o); [apply syn_none; discriminate|]. apply IHt; assumption.
  - (* NGroup *) cbn [raw_fixed shape_ok lits_ok] in *. apply IHt; assumption.
  - (* NPosLook *) cbn [raw_fixed]. destruct (is_rtl o); apply syn_none; [discriminate|intros _; lia].
  - (* NNegLook *) cbn [raw_fixed]. destruct (is_rtl o); apply syn_none; [discriminate|intros _; lia].
  - (* NAtomic *) cbn [raw_fixed shape_ok lits_ok] in *. apply IHt; assumption.
  - (* NBackRefCond *) cbn [raw_fixed]. apply syn_none. discriminate.
  - (* NExprCond *) cbn [raw_fixed]. apply syn_none. discriminate.
Qed.

(* ------------------------------------------------------------------------------------------ *)
(* soundness against the reference semantics                                                   *)

Variable e : env.
Hypothesis Hagree : forall id x, set_in e id x = cmem (set_cls sets id) x.
Hypothesis Hvalid : forall i, valid_rune (char_at e i).
(* the input is shorter than MaxInt32 runes: a loop {m,} with m = MaxInt32 cannot match *)
Hypothesis Hshort : tlen e < INF.

Definition sem_shape (p : bool * list (cls * Z) * Z) (res : list (cls * Z)) (dist : Z) (s y : st) : Prop :=
  forall new, rf_res p = res ++ new ->
    (forall S d, In (S, d) new ->
       pos s + (d - dist) < pos y /\ cmem S (char_at e (pos s + (d - dist))) = true) /\
    (rf_ok p = true -> pos y = pos s + (rf_dist p - dist)).

Definition GT (t : node) (s y : st) : Prop :=
  shape_ok false t = true -> no_ci_lit t = true -> lits_ok t = true -> inb e s -> caps_nonneg (caps s) ->
  forall res dist, 0 <= dist -> sem_shape (RF t res dist) res dist s y.

Definition GS (l : list node) (s y : st) : Prop :=
  forallb (shape_ok false) l = true -> forallb no_ci_lit l = true -> forallb lits_ok l = true ->
  inb e s -> caps_nonneg (caps s) ->
  forall res dist, 0 <= dist -> sem_shape (rf_cat cat_in sets th l res dist) res dist s y.

Lemma sem_none res dist (b : bool) d' s y :
  (b = true -> pos y = pos s + (d' - dist)) -> sem_shape (b, res, d') res dist s y.
Proof.
  intros H new E. cbn [rf_ok rf_res rf_dist fst snd] in *.
  assert (new = []) by (apply (app_inv_head res); rewrite app_nil_r; symmetry; exact E). subst new.
  split; [intros ? ? []|exact H].
Qed.

Lemma sem_forget p res dist s y : sem_shape p res dist s y -> sem_shape (false, rf_res p, rf_dist p) res dist s y.
Proof.
  intros H new E. cbn [rf_ok rf_res rf_dist fst snd] in *. destruct (H new E) as [A _]. split; [exact A|discriminate].
Qed.

(* later position, same facts *)
Lemma sem_weaken p res dist s y y' : pos y <= pos y' -> sem_shape p res dist s y ->
  sem_shape (false, rf_res p, rf_dist p) res dist s y'.
Proof.
  intros Hle H new E. cbn [rf_ok rf_res rf_dist fst snd] in *. destruct (H new E) as [A _].
  split; [|discriminate]. intros S d Hin. destruct (A S d Hin). split; [lia|assumption].
Qed.

Lemma sem_seq p1 p2 res dist s s1 y :
  syn_shape p1 res dist -> pos s <= pos s1 -> pos s1 <= pos y ->
  sem_shape p1 res dist s s1 ->
  (rf_ok p1 = true -> syn_shape p2 (rf_res p1) (rf_dist p1) /\ sem_shape p2 (rf_res p1) (rf_dist p1) s1 y) ->
  sem_shape (if rf_ok p1 then p2 else (false, rf_res p1, rf_dist p1)) res dist s y.
Proof.
  intros [n1 [Ea [_ [_ Hd1]]]] H01 H1y H1 H2.
  destruct (rf_ok p1) eqn:E1.
  - destruct (H2 eq_refl) as [[n2 [Eb _]] H2s]. intros new E. rewrite Eb, Ea, <- app_assoc in E.
    apply app_inv_head in E. subst new.
    destruct (H1 n1 Ea) as [A1 B1]. destruct (H2s n2 Eb) as [A2 B2]. specialize (B1 E1).
    split.
    + intros S d Hin. apply in_app_or in Hin. destruct Hin as [Hin|Hin].
      * destruct (A1 S d Hin). split; [lia|assumption].
      * destruct (A2 S d Hin) as [X Y]. replace (pos s + (d - dist)) with (pos s1 + (d - rf_dist p1)) by lia.
        split; assumption.
    + intros Hok. rewrite (B2 Hok). lia.
  - apply (sem_weaken p1 res dist s s1 y H1y H1).
Qed.

Lemma run_len_nth k c o : is_rtl o = false -> forall maxn p i,
  0 <= i < run_len e k c o maxn p -> char_test e k c (char_at e (p + i)) = true.
Proof.
  intros Ho. induction maxn as [|m IH]; intros p i Hi; cbn [run_len] in Hi; [lia|].
  unfold avail, next_char, dir in Hi. rewrite Ho in Hi.
  destruct ((0 <? tlen e - p) && char_test e k c (char_at e p)) eqn:E; [|lia].
  apply andb_true_iff in E. destruct E as [_ Hc].
  destruct (Z.eq_dec i 0) as [->|Hn]; [replace (p + 0) with p by lia; exact Hc|].
  replace (p + i) with (p + 1 + (i - 1)) by lia. apply IH. lia.
Qed.

Lemma fixed_all :
  (forall t s y, Reach e t s y -> GT t s y) /\
  (forall l s y, ReachSeq e l s y -> GS l s y) /\
  (forall r limit s count y, ReachIter e r limit s count y -> True).
Proof.
  apply Reach_mutind.
  - (* R_char *)
    intros k o c s Hc Hs Hn Hl Hb Hcn res dist Hd.
    cbn [shape_ok] in Hs. apply eqb_prop in Hs.
    apply andb_true_iff in Hc. destruct Hc as [Hav Hch].
    unfold next_char, dir in *. rewrite Hs in *. cbn [pos with_pos].
    destruct k; cbn [raw_fixed lits_ok char_test] in *; rewrite Hs.
    + destruct (zlen res <? MAX_FIXED_RESULTS); [|apply sem_none; discriminate].
      intros new E. cbn [rf_ok rf_res rf_dist fst snd] in *. apply app_inv_head in E. subst new.
      split; [|intros _; cbn [pos with_pos]; lia].
      intros S d [Heq|[]]. injection Heq as <- <-. replace (pos s + (dist - dist)) with (pos s) by lia.
      cbn [pos with_pos]. split; [lia|]. rewrite one_cls_mem by (try exact Hl; apply Hvalid). exact Hch.
    + apply sem_none. intros _. cbn [pos with_pos]. lia.
    + destruct (zlen res <? MAX_FIXED_RESULTS); [|apply sem_none; discriminate].
      intros new E. cbn [rf_ok rf_res rf_dist fst snd] in *. apply app_inv_head in E. subst new.
      split; [|intros _; cbn [pos with_pos]; lia].
      intros S d [Heq|[]]. injection Heq as <- <-. replace (pos s + (dist - dist)) with (pos s) by lia.
      cbn [pos with_pos]. split; [lia|]. rewrite <- Hagree. exact Hch.
  - (* R_charloop *)
    intros k l o c m n s y Hin Hs Hn Hl Hb Hcn res dist Hd.
    cbn [shape_ok] in Hs. apply andb_true_iff in Hs. destruct Hs as [Hs Hmn].
    apply andb_true_iff in Hs. destruct Hs as [Hs Hm0]. apply eqb_prop in Hs.
    pose proof (an_charloop_in e _ _ _ _ _ _ _ _ Hin) as [j0 [Hy0 [_ [Hav0 _]]]].
    apply an_charloop_in2 in Hin. destruct Hin as [j [maxn [Hy [Hj Hjn]]]].
    assert (j0 = j).
    { rewrite Hy in Hy0. unfold with_pos in Hy0. injection Hy0. unfold dir. rewrite Hs. lia. }
    subst j0 y.
    assert (Hjav : j <= Z.max 0 (tlen e - pos s)) by (unfold avail in Hav0; rewrite Hs in Hav0; exact Hav0).
    unfold dir in *. rewrite Hs in *. cbn [pos with_pos].
    assert (Hpy : pos s + 1 * j = pos s + j) by lia. rewrite Hpy.
    destruct k; cbn [raw_fixed lits_ok] in *; rewrite Hs.
    + destruct (0 <? m) eqn:Em; [|apply sem_none; discriminate].
      set (kk := rf_iters (Z.min MAX_LOOP_EXPANSION m) (zlen res)).
      assert (Hkk : 0 <= kk <= Z.min MAX_LOOP_EXPANSION m) by (subst kk; unfold rf_iters, MAX_LOOP_EXPANSION, MAX_FIXED_RESULTS; lia).
      intros new E. cbn [rf_ok rf_res rf_dist fst snd] in *. apply app_inv_head in E. subst new.
      destruct (rf_push_spec (add_char cat_in empty_cls c) (Z.to_nat kk) dist) as [_ Hall].
      split.
      * intros S d Hin. destruct (Hall _ _ Hin) as [-> Hdd]. cbn [pos with_pos]. split; [lia|].
        rewrite one_cls_mem by (try exact Hl; apply Hvalid).
        apply (run_len_nth COne c o Hs maxn (pos s) (d - dist)). lia.
      * intros Hok. apply andb_true_iff in Hok. destruct Hok as [H1 H2]. cbn [pos with_pos].
        assert (Hn2 : n <> INF) by (unfold MAX_LOOP_EXPANSION, INF in *; lia). specialize (Hjn Hn2). lia.
    + destruct (m =? n) eqn:Emn; [|apply sem_none; discriminate].
      apply sem_none. intros _. cbn [pos with_pos].
      destruct (Z.eq_dec n INF) as [Hinf|Hn2]; [|specialize (Hjn Hn2); lia].
      exfalso. unfold inb in Hb. lia.
    + destruct (0 <? m) eqn:Em; [|apply sem_none; discriminate].
      set (kk := rf_iters (Z.min MAX_LOOP_EXPANSION m) (zlen res)).
      assert (Hkk : 0 <= kk <= Z.min MAX_LOOP_EXPANSION m) by (subst kk; unfold rf_iters, MAX_LOOP_EXPANSION, MAX_FIXED_RESULTS; lia).
      intros new E. cbn [rf_ok rf_res rf_dist fst snd] in *. apply app_inv_head in E. subst new.
      destruct (rf_push_spec (set_cls sets c) (Z.to_nat kk) dist) as [_ Hall].
      split.
      * intros S d Hin. destruct (Hall _ _ Hin) as [-> Hdd]. cbn [pos with_pos]. split; [lia|].
        rewrite <- Hagree.
        apply (run_len_nth CSet c o Hs maxn (pos s) (d - dist)). lia.
      * intros Hok. apply andb_true_iff in Hok. destruct Hok as [H1 H2]. cbn [pos with_pos].
        assert (Hn2 : n <> INF) by (unfold MAX_LOOP_EXPANSION, INF in *; lia). specialize (Hjn Hn2). lia.
  - (* R_multi *)
    intros o str s y Hin Hs Hn Hl Hb Hcn res dist Hd. cbn [shape_ok no_ci_lit lits_ok raw_fixed] in *.
    apply eqb_prop in Hs. apply negb_true_iff in Hn. rewrite Hs.
    apply an_multi_in in Hin. destruct Hin as [-> [Hav Hm]]. rewrite Hn, Hs in Hm. unfold dir. rewrite Hs.
    pose proof (rf_multi_spec str (zlen res) dist) as Hsp. cbv zeta in Hsp.
    destruct (rf_multi cat_in str (zlen res) dist) as [[l ok] d'] eqn:ER. cbn [fst snd] in Hsp.
    destruct Hsp as (H1 & H2 & H3 & H4).
    intros new E. cbn [rf_ok rf_res rf_dist fst snd] in *. apply app_inv_head in E. subst new.
    cbn [pos with_pos]. split; [|intros Hok; rewrite (H2 Hok); lia].
    intros S d Hin. destruct (H4 _ _ Hin) as (A & B & C). split; [lia|]. subst S.
    assert (Hi : (Z.to_nat (d - dist) < length str)%nat) by (unfold zlen in B; lia).
    pose proof (str_match_nth e cat_in sets Hagree Hvalid str (pos s) (Z.to_nat (d - dist)) Hm Hi) as Hnth.
    replace (pos s + Z.of_nat (Z.to_nat (d - dist))) with (pos s + (d - dist)) in Hnth by lia.
    assert (Hr : rune_ok (nth (Z.to_nat (d - dist)) str 0) = true).
    { destruct str as [|c0 s0]; [discriminate Hl|]. rewrite forallb_forall in Hl. apply Hl. apply nth_In. exact Hi. }
    rewrite one_cls_mem by (try exact Hr; apply Hvalid). rewrite Hnth. apply Z.eqb_refl.
  - (* R_ref *) intros o g s y _ _ _ _ _ _ res dist _. cbn [raw_fixed]. apply sem_none. discriminate.
  - (* R_anchor *) intros a s _ _ _ _ _ _ res dist _. cbn [raw_fixed]. apply sem_none. intros _. lia.
  - (* R_empty *) intros s _ _ _ _ _ res dist _. cbn [raw_fixed]. apply sem_none. intros _. lia.
  - (* R_bump *) intros s _ _ _ _ _ res dist _. cbn [raw_fixed]. apply sem_none. intros _. lia.
  - (* R_concat *)
    intros o l s y _ IH Hs Hn Hl Hb Hcn res dist Hd. rewrite rf_concat_eq.
    destruct (is_rtl o); [apply sem_none; discriminate|]. cbn [shape_ok no_ci_lit lits_ok] in *. apply IH; assumption.
  - (* R_alt *)
    intros o l x s y Hin Hr IH Hs Hn Hl Hb Hcn res dist Hd. rewrite rf_alternate_eq.
    destruct (is_rtl o); [apply sem_none; discriminate|].
    apply (if_elim (fun p => sem_shape p res dist s y)); intros Eth; [|apply sem_none; discriminate].
    pose proof (an_alt_forallb false l Hs) as Hfa. cbn [no_ci_lit lits_ok] in Hn, Hl.
    assert (Hne : l <> []) by (destruct l; [destruct Hin|discriminate]).
    assert (Hsyn : Forall syn_at l).
    { rewrite Forall_forall. intros x0 Hx0. rewrite forallb_forall in Hfa, Hl. apply syn_all; auto. }
    destruct (rf_alt cat_in sets th l true (-1) []) as [[[allsame same] cm]|] eqn:EA; [|apply sem_none; discriminate].
    assert (Hc0 : cinv [] []).
    { split; [constructor|]. intros k S c Hk. discriminate Hk. }
    assert (Hj0 : jinv [] true (-1)).
    { split; [reflexivity|]. intros Hx. congruence. }
    destruct (rf_alt_inv l [] true (-1) [] allsame same cm Hsyn Hc0 Hj0 EA) as [[Hnd Hcm] [_ Hj]]. cbn [app] in *.
    destruct (comb_publish_spec (zlen l) dist cm res allsame Hnd) as [new0 [E0 [_ [Hall Has]]]].
    destruct (comb_publish cm (zlen l) dist res allsame) as [res' as'] eqn:EP. cbn [fst snd] in *.
    (* what the branch taken says *)
    assert (Hx : shape_ok false x = true /\ no_ci_lit x = true /\ lits_ok x = true).
    { rewrite forallb_forall in Hfa, Hn, Hl. auto. }
    destruct Hx as (Hsx & Hnx & Hlx).
    specialize (IH Hsx Hnx Hlx Hb Hcn [] 0 ltac:(lia) (locof x) eq_refl). destruct IH as [IA IB].
    assert (Hbase : forall S d, In (S, d) new0 ->
              pos s + (d - dist) < pos y /\ cmem S (char_at e (pos s + (d - dist))) = true).
    { intros S d Hind. destruct (Hall _ _ Hind) as [k [-> Hink]].
      pose proof (clook_in cm Hnd _ _ _ Hink) as Hlk. destruct (Hcm _ _ _ Hlk) as (_ & _ & _ & Hfull).
      destruct (Hfull eq_refl x Hin) as [Sx [Hsx1 Hsx2]].
      destruct (IA _ _ Hsx1) as [P1 P2]. replace (k + dist - dist) with (k - 0) by lia.
      split; [exact P1|]. apply Hsx2; [apply Hvalid|exact P2]. }
    assert (Hpos : as' = true -> pos y = pos s + same).
    { intros Ha. destruct (Hj Hne (Has Ha)) as [_ Hallx]. destruct (Hallx x Hin) as [Hox Hdx].
      unfold okof, ldof in *. rewrite (IB Hox), Hdx. lia. }
    destruct as'; intros new E; cbn [rf_ok rf_res rf_dist fst snd] in *; rewrite E0 in E; apply app_inv_head in E; subst new.
    + split; [exact Hbase|]. intros _. rewrite (Hpos eq_refl). lia.
    + split; [exact Hbase|discriminate].
  - (* R_loop0 *)
    intros lazy o m n r s y Hm0 _ _ Hs Hn Hl Hb Hcn res dist Hd. subst m. cbn [raw_fixed].
    destruct (is_rtl o); apply sem_none; discriminate.
  - (* R_loop1 *)
    intros lazy o m n r s s1 y Hm0 Hr1 IH1 Hr2 _ Hs Hn Hl Hb Hcn res dist Hd.
    cbn [raw_fixed shape_ok no_ci_lit lits_ok] in *. apply andb_true_iff in Hs. destruct Hs as [Hmn Hsr].
    destruct (is_rtl o); [apply sem_none; discriminate|].
    destruct (0 <? m); [|apply sem_none; discriminate].
    assert (Hlim : 0 <= loop_limit m n) by (unfold loop_limit, INF; destruct (n =? 2147483647); lia).
    destruct (an_fwd e r s s1 Hr1 Hsr Hb Hcn) as [Hb1 Hf1].
    pose proof (an_reach_caps e _ _ _ Hr1 Hcn) as Hcn1.
    destruct (an_fwd_iter e r _ s1 _ y Hr2 Hsr Hlim Hb1 Hcn1) as [_ Hf2].
    pose proof (sem_weaken _ res dist s s1 y Hf2 (IH1 Hsr Hn Hl Hb Hcn res dist Hd)) as Hw.
    destruct (raw_fixed cat_in sets th r res dist) as [[ok rr] d']. exact Hw.
  - (* R_capture *)
    intros o g r s s1 _ IH Hs Hn Hl Hb Hcn res dist Hd. cbn [raw_fixed shape_ok no_ci_lit lits_ok] in *.
    destruct (is_rtl o); [apply sem_none; discriminate|]. exact (IH Hs Hn Hl Hb Hcn res dist Hd).
  - (* R_balance *)
    intros o g u r s s1 top rest _ _ IH _ Hs Hn Hl Hb Hcn res dist Hd. cbn [raw_fixed shape_ok no_ci_lit lits_ok] in *.
    destruct (is_rtl o); [apply sem_none; discriminate|]. exact (IH Hs Hn Hl Hb Hcn res dist Hd).
  - (* R_group *)
    intros r s y _ IH Hs Hn Hl Hb Hcn res dist Hd. cbn [raw_fixed shape_ok no_ci_lit lits_ok] in *.
    exact (IH Hs Hn Hl Hb Hcn res dist Hd).
  - (* R_poslook *)
    intros o r s s1 _ _ _ _ _ _ _ res dist _. cbn [raw_fixed]. destruct (is_rtl o); apply sem_none; [discriminate|].
    intros _. cbn [pos with_pos]. lia.
  - (* R_neglook *)
    intros o r s _ _ _ _ _ res dist _. cbn [raw_fixed]. destruct (is_rtl o); apply sem_none; [discriminate|]. intros _. lia.
  - (* R_atomic *)
    intros r s y _ IH Hs Hn Hl Hb Hcn res dist Hd. cbn [raw_fixed shape_ok no_ci_lit lits_ok] in *.
    exact (IH Hs Hn Hl Hb Hcn res dist Hd).
  - intros; intros ? ? ? ? ? res dist ?; cbn [raw_fixed]; apply sem_none; discriminate.
  - intros; intros ? ? ? ? ? res dist ?; cbn [raw_fixed]; apply sem_none; discriminate.
  - intros; intros ? ? ? ? ? res dist ?; cbn [raw_fixed]; apply sem_none; discriminate.
  - intros; intros ? ? ? ? ? res dist ?; cbn [raw_fixed]; apply sem_none; discriminate.
  - intros; intros ? ? ? ? ? res dist ?; cbn [raw_fixed]; apply sem_none; discriminate.
  - intros; intros ? ? ? ? ? res dist ?; cbn [raw_fixed]; apply sem_none; discriminate.
  - (* RS_nil *)
    intros s _ _ _ _ _ res dist _. cbn [rf_cat]. apply sem_none. intros _. lia.
  - (* RS_cons *)
    intros x l s s1 y Hr1 IH1 Hr2 IH2 Hs Hn Hl Hb Hcn res dist Hd. rewrite rf_cat_cons. cbv zeta.
    cbn [forallb] in Hs, Hn, Hl.
    apply andb_true_iff in Hs. destruct Hs as [Hsx Hsl].
    apply andb_true_iff in Hn. destruct Hn as [Hnx Hnl].
    apply andb_true_iff in Hl. destruct Hl as [Hlx Hll].
    destruct (an_fwd e x s s1 Hr1 Hsx Hb Hcn) as [Hb1 Hf1].
    pose proof (an_reach_caps e _ _ _ Hr1 Hcn) as Hcn1.
    destruct (an_fwd_seq e l s1 y Hr2 Hsl Hb1 Hcn1) as [_ Hf2].
    pose proof (syn_all x Hsx Hlx res dist Hd) as Hsyn1.
    apply (sem_seq _ _ res dist s s1 y Hsyn1 Hf1 Hf2 (IH1 Hsx Hnx Hlx Hb Hcn res dist Hd)).
    intros Hok. destruct Hsyn1 as [_ [_ [_ [_ Hdd]]]]. specialize (Hdd Hok).
    split.
    + apply syn_cat; [|assumption|assumption|lia]. rewrite Forall_forall. intros z _. apply syn_all.
    + apply IH2; try assumption. lia.
  - (* RI_stop *) intros; exact I.
  - (* RI_more *) intros; exact I.
Qed.

(* every entry tryFindRawFixedSets collects on the root holds at every successful attempt *)
Theorem a2_raw_fixed_sound fuel root p s' :
  shape_ok false root = true -> no_ci_lit root = true -> lits_ok root = true -> 0 <= p <= tlen e ->
  attempt e fuel root p = Ok (Some s') ->
  forall S d, In (S, d) (rf_res (RF root [] 0)) ->
    0 <= d /\ p + d < tlen e /\ cmem S (char_at e (p + d)) = true.
Proof.
  intros Hs Hn Hl Hp Ha S d Hin. pose proof (attempt_reach e _ _ _ _ Ha) as Hr.
  assert (Hb : inb e {| pos := p; caps := [] |}) by exact Hp.
  destruct (proj1 fixed_all _ _ _ Hr Hs Hn Hl Hb an_caps_nonneg_nil [] 0 ltac:(lia) _ eq_refl) as [A _].
  destruct (A S d Hin) as [P1 P2]. cbn [pos] in *. replace (d - 0) with d in * by lia.
  destruct (an_fwd e root _ _ Hr Hs Hb an_caps_nonneg_nil) as [Hy _]. unfold inb in Hy.
  destruct (syn_loc root (syn_all root Hs Hl)) as (_ & Hall & _). destruct (Hall S d Hin) as (_ & H0 & _).
  split; [exact H0|]. split; [lia|exact P2].
Qed.

(* findFixedDistanceSets (before the Chars / Range decoration, which keeps Set and Distance): at every
   successful attempt at p, the character at p + distance exists and is in the set *)
Theorem a2_fixed_distance_raw_sound fuel root p s' :
  shape_ok false root = true -> no_ci_lit root = true -> lits_ok root = true -> 0 <= p <= tlen e ->
  attempt e fuel root p = Ok (Some s') ->
  forall S d, In (S, d) (fixed_distance_raw cat_in sets th root) ->
    0 <= d /\ p + d < tlen e /\ char_in cat_in S (char_at e (p + d)) = true.
Proof.
  intros Hs Hn Hl Hp Ha S d Hin. unfold fixed_distance_raw in Hin.
  pose proof (a2_raw_fixed_sound fuel root p s' Hs Hn Hl Hp Ha) as Hraw. unfold rf_res in Hraw.
  destruct (RF root [] 0) as [[ok res] dd]. cbn [fst snd] in Hraw.
  destruct (filter (fun sd : cls * Z => negb (anything (fst sd))) res) as [|f0 fl] eqn:Ef.
  - destruct (find_first_char_class cat_in sets root) as [c|] eqn:Ec; [|destruct Hin].
    destruct (anything c); [destruct Hin|]. destruct Hin as [Heq|[]]. injection Heq as <- <-.
    destruct (a2_first_char_class_sound e cat_in sets Hgood Hagree Hvalid false fuel root p s' c Hs Hn Hl Hp Ec Ha) as [[P1 _] P2].
    replace (p + 0) with p by lia. split; [lia|]. split; [exact P1|exact P2].
  - rewrite <- Ef in Hin. apply filter_In in Hin. destruct Hin as [Hin _]. apply Hraw. exact Hin.
Qed.

Theorem a2_fixed_distance_sets_sound fuel root p s' :
  shape_ok false root = true -> no_ci_lit root = true -> lits_ok root = true -> 0 <= p <= tlen e ->
  attempt e fuel root p = Ok (Some s') ->
  forall f, In f (find_fixed_distance_sets cat_in sets th root) ->
    0 <= fs_dist f /\ p + fs_dist f < tlen e /\ char_in cat_in (fs_set f) (char_at e (p + fs_dist f)) = true.
Proof.
  intros Hs Hn Hl Hp Ha f Hin. unfold find_fixed_distance_sets in Hin. apply in_map_iff in Hin.
  destruct Hin as [[S d] [<- Hin]].
  assert (E : fs_set (fd_decorate cat_in (S, d)) = S /\ fs_dist (fd_decorate cat_in (S, d)) = d).
  { unfold fd_decorate. cbn [fst snd]. destruct (get_if_one_range S) as [[a b]|]; [destruct (1 <? b - a)|]; split; reflexivity. }
  destruct E as [-> ->]. exact (a2_fixed_distance_raw_sound fuel root p s' Hs Hn Hl Hp Ha S d Hin).
Qed.

End Syn.
