(* compile_correct with balancing captures: the node NCapture o g u r with u <> -1, i.e. (?<g-u>r) and,
   for g = -1, (?<-u>r).   Code:  Setmark ; [r] ; Capturemark g u.
   For every result q of r (in priority order):
     - group u unset at q: Capturemark fails (isMatched), the reference semantics has no result for q;
     - otherwise transferCapture pops u (balanceMatch appends a marker: bd_caps_rel_balance) and, when
       g <> -1, records balance_span (mark, position, popped capture) for g (bo_do_transfer);
       backtracking into the frame undoes both (crawl g :: u) and restores the mark.
   Side conditions: 0 <= u < capsize, g = -1 or 0 <= g < capsize (groups_ok2). *)
From Verif Require Import Base.Prelude Model.Tree Model.Spec Model.VM Model.Writer Gen.RunnerGen
  Proofs.SpecProofs Proofs.SpecBoundsProofs Proofs.MaskProofs
  Proofs.VMU Proofs.VMUOps Proofs.VMUOps2 Proofs.VMUOps6 Proofs.VMUOps3 Proofs.CompileBase Proofs.CompileDefs
  Proofs.CompileBalDen Proofs.CompileBalOps Proofs.CompileBalBase Proofs.CompileBalDefs.
From Coq Require Import Relations ZifyBool.

Lemma c2_map_capnum0 g : map_capnum cfg0 g = g.
Proof. unfold map_capnum. cbn [capmap cfg0]. destruct (g =? -1) eqn:E; lia. Qed.

Lemma c2_emit_capture_bal o g u r a tbl :
  emit cfg0 (NCapture o g u r) a tbl =
  (let '(cr, t1) := emit cfg0 r (a + 1) tbl in ([Setmark] ++ cr ++ [Capturemark; g; u], t1)).
Proof. cbn [emit]. unfold emit_capture. cbn [quick cfg0]. rewrite !c2_map_capnum0. reflexivity. Qed.

Section CC.
Variable e : env.
Variable p : program.
Hypothesis tc_nonneg : 0 <= trackcount p.

Notation rsteps := (VMUOps2.rsteps e p).
Notation leadsg2 := (CompileBalBase.leadsg2 e p).
Notation has_code := (CompileBase.has_code p).
Notation track_ok := (CompileBase.track_ok p).
Notation caps_rel2 := (CompileBalDen.caps_rel2 p).
Notation code_ex := (CompileDefs.code_ex p).
Notation tbl_ok := (CompileDefs.tbl_ok p).
Notation ok_node2 := (CompileBalDefs.ok_node2 e p).
Notation ok_at2 := (CompileBalDefs.ok_at2 e p).

Lemma c2_sem_capture_bal f o g u r s : u <> -1 ->
  sem e (S f) (NCapture o g u r) s =
  bindr (sem e f r s) (fun s' =>
    match cap_get u (caps s') with
    | [] => Ok []
    | top :: _ =>
        Ok [{| pos := pos s';
               caps := if g =? -1 then cap_pop u (caps s')
                       else cap_push g (balance_span (pos s) (pos s') top) (cap_pop u (caps s')) |}]
    end).
Proof. intros Hu. cbn [sem]. replace (u =? -1) with false by lia. reflexivity. Qed.

Lemma c2_add_match_at M g x y : zlen M = capsize p -> 0 <= g < capsize p ->
  add_match g x y M = Some (mc_set g (nth (Z.to_nat g) M [] ++ [x; y]) M).
Proof. intros Hl Hg. unfold add_match. rewrite (bd_mc_get p M g Hl Hg). reflexivity. Qed.

Lemma c2_capture_bal f o g u r : ok_node2 f r -> supported2 r = true -> u <> -1 ->
  0 <= u < capsize p -> (g = -1 \/ 0 <= g < capsize p) ->
  ok_node2 (S f) (NCapture o g u r).
Proof.
  intros Hokr Hsr Hu1 Hu Hg s res Hsem Hst a tbl T S C M Hc Hex Hk Hr Htb.
  rewrite c2_sem_capture_bal in Hsem by exact Hu1. apply sp_bindr_ok in Hsem. destruct Hsem as [la [Hla Hb]].
  rewrite c2_emit_capture_bal in Hc, Htb.
  pose proof (emit_length cfg0 r (a + 1) tbl) as Lr.
  destruct (emit cfg0 r (a + 1) tbl) as [cr t1] eqn:Er. cbn [fst snd] in Lr, Hc, Htb.
  replace (csize cfg0 (NCapture o g u r)) with (1 + csize cfg0 r + 3) in * by reflexivity.
  apply has_code_cons in Hc. destruct Hc as [H0 Hc].
  apply has_code_app in Hc. destruct Hc as [Hcr Hc]. rewrite Lr in Hc.
  apply has_code_cons in Hc. destruct Hc as [Hm0 Hc]. apply has_code_cons in Hc. destruct Hc as [Hm1 Hc].
  apply has_code_cons in Hc. destruct Hc as [Hm2 _].
  set (m := a + 1 + csize cfg0 r) in *.
  replace (a + (1 + csize cfg0 r + 3)) with (m + 3) in * by (unfold m; lia).
  pose proof (code_at_nonneg p _ _ H0) as Ha. pose proof (code_at_nonneg p _ _ Hm0) as Hm.
  replace (m + 1 + 1) with (m + 2) in Hm2 by lia.
  destruct Hex as [wx Hwx].
  assert (Hex1 : code_ex (a + 1)).
  { eapply cc_code_ex_start; [exact Hcr|]. rewrite Lr. exists Capturemark. exact Hm0. }
  destruct Hex1 as [w1 Hw1].
  eapply leadsg2_pre. { eapply rs_setmark; try exact tc_nonneg; eassumption. }
  rewrite <- (app_nil_r res).
  eapply leadsg2_app with (T1 := [a]) (Cx := []) (Sf1 := pos s :: S) (M1 := M); [|reflexivity|].
  - cbn [app].
    eapply leadsg2_bindl with (m := m) (Ss1 := pos s :: S); [|exact Hb|].
    + apply (Hokr s la Hla Hst (a + 1) tbl (a :: T) (pos s :: S) C M).
      * rewrite Er. exact Hcr.
      * exists Capturemark. exact Hm0.
      * eapply track_ok_cons. rewrite Z.abs_eq by lia. exact H0.
      * exact Hr.
      * rewrite Er. exact Htb.
    + intros q rq T' C' M' Hin Hq Hcq Hu' Hkq.
      assert (Hstq : st_ok e q) by (eapply c2_res_ok_in; eassumption).
      pose proof (bd_matched p (caps q) M' u Hcq Hu) as Hmt. unfold is_matched in Hmt.
      destruct Hkq as (np' & T3 & HT3 & w3 & Hw3).
      cbv beta in Hq. destruct (cap_get u (caps q)) as [|[s2 l2] rest] eqn:Eu.
      * (* group u unset: no result *)
        injection Hq as <-.
        eapply leadsg2_fail; [exact HT3|]. rewrite HT3.
        eapply rs_capturemark_bal_unset; try exact tc_nonneg; eassumption.
      * injection Hq as <-.
        destruct Hstq as [Hpq Hcsq]. destruct Hst as [Hps _].
        destruct (bd_caps_index_length e p (caps q) M' u s2 l2 rest Hcq Hu Hcsq Eu) as (Hix & Hln & Hi2 & Hl2 & Hil2).
        destruct (bd_caps_rel_balance p (caps q) M' u (s2, l2) rest Hcq Hu Eu) as (x & y & Hbal & Hrel1).
        cbv zeta in Hbal, Hrel1.
        set (M1 := mc_set u (nth (Z.to_nat u) M' [] ++ [x; y]) M') in *.
        assert (HlM : zlen M' = capsize p) by (destruct Hcq as [HlM _]; exact HlM).
        assert (Hzu : znth M' u = Some (nth (Z.to_nat u) M' [])) by (apply cc_znth_nth; lia).
        assert (Hrm1 : remove_match u M1 = Some M') by (apply cc_remove_match_set; exact Hzu).
        assert (Htk : forall X, track_ok ([m; pos s] ++ X)).
        { intros X. cbn [app]. eapply track_ok_cons. rewrite Z.abs_eq by lia. exact Hm0. }
        destruct Hg as [Hg|Hg].
        -- (* (?<-u>...) : pop only *)
           subst g. change (-1 =? -1) with true. cbv iota.
           exists [m; pos s], [u], M1. cbn [pos caps].
           split; [exact Hrel1|].
           split. { cbn [unwind]. rewrite Hrm1. reflexivity. }
           split; [apply Htk|].
           split. { cbn [app]. eapply rs_capturemark_bal_pop; try exact tc_nonneg; eassumption. }
           intros np T'' t HT. cbn [app] in HT. injection HT as <- <-.
           rewrite bkr_pos by exact Hm.
           eapply leadsg2_fail; [exact HT3|].
           rewrite HT3. eapply rs_capturemark_bal_pop_back; try exact tc_nonneg; eassumption.
        -- replace (g =? -1) with false by lia.
           set (iv := balance_span (pos s) (pos q) (s2, l2)).
           assert (Hiv : sb_iv_ok e iv).
           { apply sb_balance_span_ok; try assumption. repeat split; cbn [fst snd]; assumption. }
           destruct Hiv as (Hiv1 & Hiv2 & _).
           assert (HlM1 : zlen M1 = capsize p) by (destruct Hrel1 as [H1 _]; exact H1).
           set (M2 := mc_set g (nth (Z.to_nat g) M1 [] ++ [fst iv; snd iv]) M1).
           assert (Hzg : znth M1 g = Some (nth (Z.to_nat g) M1 [])) by (apply cc_znth_nth; lia).
           assert (Hrm2 : remove_match g M2 = Some M1) by (apply cc_remove_match_set; exact Hzg).
           exists [m; pos s], [g; u], M2. cbn [pos caps].
           split. { apply (bd_caps_rel_push p _ M1 g iv); assumption. }
           split. { cbn [unwind]. rewrite Hrm2, Hrm1. reflexivity. }
           split; [apply Htk|].
           split. { cbn [app]. eapply rs_capturemark_bal with (s2 := s2) (l2 := l2) (M1 := M1); try exact tc_nonneg; try eassumption; try lia.
                    apply c2_add_match_at; assumption. }
           intros np T'' t HT. cbn [app] in HT. injection HT as <- <-.
           rewrite bkr_pos by exact Hm.
           eapply leadsg2_fail; [exact HT3|].
           rewrite HT3. eapply rs_capturemark_bal_back; try exact tc_nonneg; try eassumption; lia.
  - intros np T' t HT. cbn [app] in HT. injection HT as <- <-.
    rewrite bkr_pos by exact Ha. destruct Hk as (np' & T3 & -> & w3 & Hw3).
    eapply leadsg2_fail; [reflexivity|].
    eapply rs_mark_back; try exact tc_nonneg; try eassumption. left. reflexivity.
Qed.

End CC.
