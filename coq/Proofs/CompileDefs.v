(* compile_correct, part 1: the constructor set covered ([supported]), side conditions, the length
   of the emitted code, capture-array facts, and the per-node proof obligation [ok_node].
   Writer configuration: cfg0 = {| capmap := None; quick := None |} (identity slot map, full code). *)
From Verif Require Import Base.Prelude Model.Tree Model.Spec Model.VM Model.Writer Gen.RunnerGen
  Proofs.SpecProofs Proofs.SpecBoundsProofs Proofs.MaskProofs
  Proofs.VMU Proofs.VMUOps Proofs.VMUOps2 Proofs.VMUOps6 Proofs.VMUOps3 Proofs.CompileBase.
From Coq Require Import Relations ZifyBool.

Definition cfg0 : wcfg := {| capmap := None; quick := None |}.

(* ---------- the constructor set covered ---------- *)
Fixpoint supported (t : node) : bool :=
  match t with
  | NChar _ _ _ | NAnchor _ | NNothing | NEmpty | NBump => true
  | NCharLoop _ _ _ _ m n => (0 <=? m) && (m <=? n) && (n <=? INF)
  | NMulti _ _ | NRef _ _ => true
  | NConcat _ l => (fix go (l : list node) : bool := match l with [] => true | x :: l' => supported x && go l' end) l
  | NAlternate _ l =>
      match l with [] => false | _ => true end &&
      (fix go (l : list node) : bool := match l with [] => true | x :: l' => supported x && go l' end) l
  | NCapture _ g u r => (u =? -1) && supported r
  | NGroup r | NAtomic r | NPosLook _ r | NNegLook _ r => supported r
  | NLoop _ _ m n r => (0 <=? m) && (n <=? INF) && supported r
  | NBackRefCond _ _ yes no => supported yes && match no with Some x => supported x | None => true end
  | NExprCond _ c yes no => supported c && supported yes && match no with Some x => supported x | None => true end
  end.

Definition supported_list (l : list node) : bool :=
  (fix go (l : list node) : bool := match l with [] => true | x :: l' => supported x && go l' end) l.

(* every group number used is a slot of the program *)
Definition grp_ok_node (cs : Z) (t : node) : Prop :=
  match t with
  | NCapture _ g _ _ => 0 <= g < cs
  | NRef _ g => 0 <= g < cs
  | NBackRefCond _ g _ _ => 0 <= g < cs
  | _ => True
  end.
Definition groups_ok (cs : Z) (t : node) : Prop := sb_all (grp_ok_node cs) t.

(* ---------- length of the emitted code ---------- *)
Lemma emit_seq_length c l : Forall (fun t => forall a tbl, zlen (fst (emit c t a tbl)) = csize c t) l ->
  forall a tbl, zlen (fst (emit_seq c l a tbl)) = csize_seq c l.
Proof.
  induction 1 as [|x l Hx Hl IH]; intros a tbl; cbn [emit_seq csize_seq]; [reflexivity|].
  specialize (Hx a tbl). destruct (emit c x a tbl) as [cx t1]. cbn [fst] in Hx.
  specialize (IH (a + zlen cx) t1). destruct (emit_seq c l (a + zlen cx) t1) as [cr t2]. cbn [fst] in *.
  rewrite zlen_app. lia.
Qed.

Lemma emit_alt_length c lend l : Forall (fun t => forall a tbl, zlen (fst (emit c t a tbl)) = csize c t) l ->
  forall a tbl, zlen (fst (emit_alt c lend l a tbl)) = csize_alt c l.
Proof.
  induction 1 as [|x l Hx Hl IH]; intros a tbl; [reflexivity|].
  destruct l as [|y l'].
  - cbn [emit_alt csize_alt]. apply Hx.
  - rewrite wr_emit_alt_cons2, wr_csize_alt_cons2.
    specialize (Hx (a + 2) tbl). destruct (emit c x (a + 2) tbl) as [cx t1]. cbn [fst] in Hx.
    cbv zeta. specialize (IH (a + 2 + zlen cx + 2) t1).
    destruct (emit_alt c lend (y :: l') (a + 2 + zlen cx + 2) t1) as [cr t2]. cbn [fst] in *.
    rewrite !zlen_app, !zlen_cons, zlen_nil. lia.
Qed.

Lemma emit_length c : forall t a tbl, zlen (fst (emit c t a tbl)) = csize c t.
Proof.
  induction t using node_ind'; intros aa tbl.
  - reflexivity.
  - cbn [emit csize fst]. destruct (0 <? m), (m <? n); reflexivity.
  - cbn [emit csize]. destruct (string_code s tbl). reflexivity.
  - reflexivity.
  - reflexivity.
  - reflexivity.
  - reflexivity.
  - reflexivity.
  - rewrite wr_emit_concat_eq, wr_csize_concat_eq. apply emit_seq_length. assumption.
  - rewrite wr_emit_alternate_eq, wr_csize_alternate_eq. apply emit_alt_length. assumption.
  - cbn [emit csize].
    match goal with |- context [emit c t ?x tbl] => specialize (IHt x tbl); destruct (emit c t x tbl) as [cr t1] end.
    cbn [fst] in *. rewrite !zlen_app, IHt.
    destruct (counted m n), (m =? 0); rewrite ?zlen_cons, ?zlen_nil; lia.
  - cbn [emit csize]. destruct (emit_capture c g u).
    + specialize (IHt (aa + 1) tbl). destruct (emit c t (aa + 1) tbl) as [cr t1]. cbn [fst] in *.
      rewrite !zlen_app, IHt, !zlen_cons, zlen_nil. lia.
    + apply IHt.
  - cbn [emit csize]. apply IHt.
  - cbn [emit csize]. specialize (IHt (aa + 2) tbl). destruct (emit c t (aa + 2) tbl) as [cr t1]. cbn [fst] in *.
    rewrite !zlen_app, IHt, !zlen_cons, zlen_nil. lia.
  - cbn [emit csize]. specialize (IHt (aa + 3) tbl). destruct (emit c t (aa + 3) tbl) as [cr t1]. cbn [fst] in *.
    rewrite !zlen_app, IHt, !zlen_cons, zlen_nil. lia.
  - cbn [emit csize]. specialize (IHt (aa + 1) tbl). destruct (emit c t (aa + 1) tbl) as [cr t1]. cbn [fst] in *.
    rewrite !zlen_app, IHt, !zlen_cons, zlen_nil. lia.
  - cbn [emit csize]. specialize (IHt (aa + 6) tbl). destruct (emit c t (aa + 6) tbl) as [cy t1]. cbn [fst] in *.
    destruct no as [x|]; cbn [opt_all] in *.
    + match goal with |- context [emit c x ?y t1] => specialize (H y t1); destruct (emit c x y t1) as [cn t2] end.
      cbn [fst] in *. rewrite !zlen_app, IHt, H, !zlen_cons, zlen_nil. lia.
    + cbn [fst]. rewrite !zlen_app, IHt, !zlen_cons, zlen_nil. lia.
  - cbn [emit csize]. specialize (IHt1 (aa + 4) tbl). destruct (emit c t1 (aa + 4) tbl) as [cc t1']. cbn [fst] in *.
    match goal with |- context [emit c t2 ?y t1'] => specialize (IHt2 y t1'); destruct (emit c t2 y t1') as [cy t2'] end.
    cbn [fst] in *.
    destruct no as [x|]; cbn [opt_all] in *.
    + match goal with |- context [emit c x ?y t2'] => specialize (H y t2'); destruct (emit c x y t2') as [cn t3] end.
      cbn [fst] in *. rewrite !zlen_app, IHt1, IHt2, H, !zlen_cons, zlen_nil. lia.
    + cbn [fst]. rewrite !zlen_app, IHt1, IHt2, !zlen_cons, zlen_nil. lia.
Qed.

(* ---------- the string table only grows ---------- *)
Definition tbl_ext (tbl tbl' : list (list Z)) : Prop := exists ext, tbl' = tbl ++ ext.
Lemma tbl_ext_refl tbl : tbl_ext tbl tbl.
Proof. exists []. rewrite app_nil_r. reflexivity. Qed.
Lemma tbl_ext_trans a b c : tbl_ext a b -> tbl_ext b c -> tbl_ext a c.
Proof. intros [x ->] [y ->]. exists (x ++ y). rewrite app_assoc. reflexivity. Qed.

Lemma emit_seq_tbl_ext c l : Forall (fun t => forall a tbl, tbl_ext tbl (snd (emit c t a tbl))) l ->
  forall a tbl, tbl_ext tbl (snd (emit_seq c l a tbl)).
Proof.
  induction 1 as [|x l Hx Hl IH]; intros a tbl; cbn [emit_seq]; [apply tbl_ext_refl|].
  specialize (Hx a tbl). destruct (emit c x a tbl) as [cx t1]. cbn [snd] in Hx.
  specialize (IH (a + zlen cx) t1). destruct (emit_seq c l (a + zlen cx) t1) as [cr t2]. cbn [snd] in *.
  eapply tbl_ext_trans; eassumption.
Qed.

Lemma emit_alt_tbl_ext c lend l : Forall (fun t => forall a tbl, tbl_ext tbl (snd (emit c t a tbl))) l ->
  forall a tbl, tbl_ext tbl (snd (emit_alt c lend l a tbl)).
Proof.
  induction 1 as [|x l Hx Hl IH]; intros a tbl; [apply tbl_ext_refl|].
  destruct l as [|y l'].
  - cbn [emit_alt]. apply Hx.
  - rewrite wr_emit_alt_cons2.
    specialize (Hx (a + 2) tbl). destruct (emit c x (a + 2) tbl) as [cx t1]. cbn [snd] in Hx.
    cbv zeta. specialize (IH (a + 2 + zlen cx + 2) t1).
    destruct (emit_alt c lend (y :: l') (a + 2 + zlen cx + 2) t1) as [cr t2]. cbn [snd] in *.
    eapply tbl_ext_trans; eassumption.
Qed.

Lemma emit_tbl_ext c : forall t a tbl, tbl_ext tbl (snd (emit c t a tbl)).
Proof.
  induction t using node_ind'; intros aa tbl; try (cbn [emit snd]; apply tbl_ext_refl).
  - cbn [emit]. unfold string_code. destruct (str_index s tbl 0); cbn [snd].
    + apply tbl_ext_refl.
    + exists [s]. reflexivity.
  - rewrite wr_emit_concat_eq. apply emit_seq_tbl_ext. assumption.
  - rewrite wr_emit_alternate_eq. apply emit_alt_tbl_ext. assumption.
  - cbn [emit].
    match goal with |- context [emit c t ?x tbl] => specialize (IHt x tbl); destruct (emit c t x tbl) as [cr t1] end.
    exact IHt.
  - cbn [emit]. destruct (emit_capture c g u).
    + specialize (IHt (aa + 1) tbl). destruct (emit c t (aa + 1) tbl) as [cr t1]. exact IHt.
    + apply IHt.
  - cbn [emit]. apply IHt.
  - cbn [emit]. specialize (IHt (aa + 2) tbl). destruct (emit c t (aa + 2) tbl) as [cr t1]. exact IHt.
  - cbn [emit]. specialize (IHt (aa + 3) tbl). destruct (emit c t (aa + 3) tbl) as [cr t1]. exact IHt.
  - cbn [emit]. specialize (IHt (aa + 1) tbl). destruct (emit c t (aa + 1) tbl) as [cr t1]. exact IHt.
  - cbn [emit]. specialize (IHt (aa + 6) tbl). destruct (emit c t (aa + 6) tbl) as [cy t1]. cbn [snd] in *.
    destruct no as [x|]; cbn [opt_all] in *.
    + match goal with |- context [emit c x ?y t1] => specialize (H y t1); destruct (emit c x y t1) as [cn t2] end.
      cbn [snd] in *. eapply tbl_ext_trans; eassumption.
    + exact IHt.
  - cbn [emit]. specialize (IHt1 (aa + 4) tbl). destruct (emit c t1 (aa + 4) tbl) as [cc t1']. cbn [snd] in *.
    match goal with |- context [emit c t2 ?y t1'] => specialize (IHt2 y t1'); destruct (emit c t2 y t1') as [cy t2'] end.
    cbn [snd] in *.
    destruct no as [x|]; cbn [opt_all] in *.
    + match goal with |- context [emit c x ?y t2'] => specialize (H y t2'); destruct (emit c x y t2') as [cn t3] end.
      cbn [snd] in *. eapply tbl_ext_trans; [eassumption|]. eapply tbl_ext_trans; eassumption.
    + eapply tbl_ext_trans; eassumption.
Qed.

(* ---------- list_set / capture-array facts ---------- *)
Lemma cc_list_set_length {A} (l : list A) n x : length (list_set l n x) = length l.
Proof. revert n; induction l as [|h l IH]; intros [|n]; cbn [list_set length]; try reflexivity. rewrite IH. reflexivity. Qed.
Lemma cc_nth_list_set_same {A} (l : list A) n x d : (n < length l)%nat -> nth n (list_set l n x) d = x.
Proof. revert n; induction l as [|h l IH]; intros [|n] H; cbn [list_set nth length] in *; try lia; [reflexivity|]. apply IH. lia. Qed.
Lemma cc_nth_list_set_other {A} (l : list A) n m x d : n <> m -> nth m (list_set l n x) d = nth m l d.
Proof.
  revert n m; induction l as [|h l IH]; intros [|n] [|m] H; cbn [list_set nth]; try reflexivity; try congruence.
  apply IH. congruence.
Qed.
Lemma cc_list_set_set {A} (l : list A) n x y : list_set (list_set l n x) n y = list_set l n y.
Proof. revert n; induction l as [|h l IH]; intros [|n]; cbn [list_set]; try reflexivity. rewrite IH. reflexivity. Qed.
Lemma cc_list_set_id {A} (l : list A) n d : list_set l n (nth n l d) = l.
Proof. revert n; induction l as [|h l IH]; intros [|n]; cbn [list_set nth]; try reflexivity. rewrite IH. reflexivity. Qed.

Lemma cc_znth_nth {A} (l : list A) g d : 0 <= g < zlen l -> znth l g = Some (nth (Z.to_nat g) l d).
Proof.
  intros H. unfold znth. replace (g <? 0) with false by lia. apply nth_error_nth'. unfold zlen in H. lia.
Qed.
Lemma cc_znth_some_nth {A} (l : list A) g d x : znth l g = Some x -> nth (Z.to_nat g) l d = x /\ 0 <= g < zlen l.
Proof.
  unfold znth. destruct (g <? 0) eqn:E; [discriminate|]. intros H. split.
  - apply nth_error_nth. exact H.
  - assert (Hl : (Z.to_nat g < length l)%nat) by (apply nth_error_Some; congruence). unfold zlen. lia.
Qed.

Lemma cc_flat_app a b : flat (a ++ b) = flat a ++ flat b.
Proof. induction a as [|[i n] a IH]; cbn [flat app]; [reflexivity|]. rewrite IH. reflexivity. Qed.

Lemma cc_remove_match_set M g arr x y :
  znth M g = Some arr -> remove_match g (mc_set g (arr ++ [x; y]) M) = Some M.
Proof.
  intros H. pose proof (cc_znth_some_nth M g [] arr H) as [Hn Hg].
  unfold remove_match, mc_get, mc_set.
  assert (Hl : (Z.to_nat g < length M)%nat) by (unfold zlen in Hg; lia).
  rewrite (cc_znth_nth _ g []) by (unfold zlen; rewrite cc_list_set_length; unfold zlen in Hg; lia).
  rewrite cc_nth_list_set_same by exact Hl.
  rewrite zlen_app. replace (zlen arr + zlen [x; y] <? 2) with false by (pose proof (zlen_nonneg arr); cbn; lia).
  rewrite cc_list_set_set. f_equal.
  rewrite app_length. cbn [length]. replace (length arr + 2 - 2)%nat with (length arr + 0)%nat by lia.
  rewrite firstn_app_2. cbn [firstn]. rewrite app_nil_r. rewrite <- Hn. apply cc_list_set_id.
Qed.

(* ---------- properties of [supported] / [groups_ok] ---------- *)
Lemma cc_supported_list_forall l : supported_list l = true -> Forall (fun t => supported t = true) l.
Proof.
  induction l as [|x l IH]; cbn [supported_list]; intros H; [constructor|].
  apply andb_prop in H. destruct H as [Hx Hl]. constructor; [exact Hx|apply IH; exact Hl].
Qed.

Lemma cc_groups_list cs l : sb_all_list (grp_ok_node cs) l -> Forall (groups_ok cs) l.
Proof.
  induction l as [|x l IH]; intros H; [constructor|]. destruct H as [Hx Hl]. constructor; [exact Hx|apply IH; exact Hl].
Qed.

Lemma cc_supported_min_ok : forall t, supported t = true -> loops_min_ok t.
Proof.
  unfold loops_min_ok.
  induction t using node_ind'; intros Hs; cbn [supported] in Hs; try discriminate Hs;
    cbn [sb_all sb_min_ok]; try (split; exact I); try (split; [lia|exact I]).
  - split; [exact I|]. change (supported_list l = true) in Hs. apply cc_supported_list_forall in Hs.
    induction H as [|x l Hx Hl IH]; [exact I|]. inversion Hs; subst. split; [apply Hx; assumption|apply IH; assumption].
  - split; [exact I|]. apply andb_prop in Hs. destruct Hs as [_ Hs].
    change (supported_list l = true) in Hs. apply cc_supported_list_forall in Hs.
    induction H as [|x l Hx Hl IH]; [exact I|]. inversion Hs; subst. split; [apply Hx; assumption|apply IH; assumption].
  - apply andb_prop in Hs. destruct Hs as [_ Hs]. split; [exact I|apply IHt; exact Hs].
  - apply andb_prop in Hs. destruct Hs as [_ Hs]. split; [exact I|apply IHt; exact Hs].
  - split; [exact I|apply IHt; exact Hs].
  - split; [exact I|apply IHt; exact Hs].
  - split; [exact I|apply IHt; exact Hs].
  - split; [exact I|apply IHt; exact Hs].
  - apply andb_prop in Hs. destruct Hs as [Hy Hn]. split; [exact I|]. split; [apply IHt; exact Hy|].
    destruct no as [x|]; [apply H; exact Hn|exact I].
  - apply andb_prop in Hs. destruct Hs as [Hs Hn]. apply andb_prop in Hs. destruct Hs as [Hc Hy].
    split; [exact I|]. split; [apply IHt1; exact Hc|]. split; [apply IHt2; exact Hy|].
    destruct no as [x|]; [apply H; exact Hn|exact I].
Qed.

Section CC.
Variable e : env.
Variable p : program.
Hypothesis tc_nonneg : 0 <= trackcount p.

Notation rsteps := (VMUOps2.rsteps e p).
Notation leadsg := (CompileBase.leadsg e p).
Notation has_code := (CompileBase.has_code p).
Notation track_ok := (CompileBase.track_ok p).
Notation caps_rel := (CompileBase.caps_rel p).

Definition code_ex (a : Z) : Prop := exists w, code_at p a = Some w.

Lemma cc_code_ex_start a ws : has_code a ws -> code_ex (a + zlen ws) -> code_ex a.
Proof.
  intros H Hx. destruct ws as [|w ws].
  - rewrite zlen_nil, Z.add_0_r in Hx. exact Hx.
  - apply has_code_cons in H. destruct H as [H _]. exists w. exact H.
Qed.

Lemma cc_caps_rel_push c M g iv : caps_rel c M -> 0 <= g < capsize p ->
  caps_rel (cap_push g iv c) (mc_set g (nth (Z.to_nat g) M [] ++ [fst iv; snd iv]) M).
Proof.
  intros [Hl Hc] Hg. split.
  - unfold mc_set, zlen. rewrite cc_list_set_length. exact Hl.
  - intros g' Hg'. unfold mc_set, cap_push. destruct (Z.eq_dec g' g) as [->|Hne].
    + rewrite cc_nth_list_set_same by (unfold zlen in Hl; lia).
      rewrite sb_cap_get_set_same. cbn [rev]. rewrite cc_flat_app. rewrite Hc by exact Hg.
      destruct iv as [i n]. reflexivity.
    + rewrite cc_nth_list_set_other by lia. rewrite sb_cap_get_set_other by exact Hne. apply Hc. exact Hg'.
Qed.

(* the program's string table contains the writer's table *)
Definition tbl_ok (tbl : list (list Z)) : Prop :=
  forall i str, znth tbl i = Some str -> znth (strings p) i = Some str.

Lemma tbl_ok_ext tbl tbl' : tbl_ext tbl tbl' -> tbl_ok tbl' -> tbl_ok tbl.
Proof.
  intros [ext ->] H i str Hi. apply H. unfold znth in *. destruct (i <? 0); [discriminate|].
  rewrite nth_error_app1; [exact Hi|]. apply nth_error_Some. congruence.
Qed.

(* what has to be shown for one node at one fuel level *)
Definition ok_node (f : nat) (t : node) : Prop :=
  forall s res, sem e f t s = Ok res -> st_ok e s ->
  forall a tbl T S C M, has_code a (fst (emit cfg0 t a tbl)) -> code_ex (a + csize cfg0 t) ->
    track_ok T -> caps_rel (caps s) M -> tbl_ok (snd (emit cfg0 t a tbl)) ->
    leadsg (a + csize cfg0 t) T S S C M (mkr a 0 (pos s) T S C M) res.

Definition ok_at (f : nat) : Prop :=
  forall t, supported t = true -> groups_ok (capsize p) t -> ok_node f t.

(* ---------- results stay inside the text ---------- *)
Lemma cc_res_ok f t s res : supported t = true -> sem e f t s = Ok res -> st_ok e s -> Forall (st_ok e) res.
Proof. intros Hs H Hst. eapply sb_sem_in_bounds; [apply cc_supported_min_ok; exact Hs|exact H|exact Hst]. Qed.

Lemma cc_res_ok_in f t s res q : supported t = true -> sem e f t s = Ok res -> st_ok e s -> In q res -> st_ok e q.
Proof. intros Hs H Hst Hin. pose proof (cc_res_ok f t s res Hs H Hst) as F. rewrite Forall_forall in F. apply F. exact Hin. Qed.

End CC.
