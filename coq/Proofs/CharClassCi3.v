(* IgnoreCase, general class-level statement (end): addLowercase and the closure theorem.

   Two kinds of code-point members are handled:
     - members of good_dom (the good part of the finite table), as before;
     - "big" members (only when the flag B holds; B -> outside_ok simple_fold): members of a run that
       covers at least U+0080..U+FFFF+1, in a class that also names 'i' or 'I'.  These come from
       complement-shaped ranges such as [b-\x{10FFFF}].  Most of their runes lie outside the table;
       what is used about them is the closed fact lc_big_facts about lcTable (the lower-case image of
       a rune >= U+0080 stays in U+0080..U+10000, except U+0130 -> 'i') and outside_ok (SimpleFold
       orbits of runes outside the table stay outside the table). *)
From Coq Require Import FMapPositive ZifyBool.
From Verif Require Import Base.Prelude Model.CharClass Model.FoldD
  Proofs.CharClassRanges Proofs.CharClassProofs Proofs.CharClassFold Proofs.CharClassFoldThm
  Proofs.CharClassCi Proofs.CharClassCi2.

(* SimpleFold outside the finite table: every orbit closes within orbit_fuel steps and never enters
   the table (nor leaves the code-point range).  True of unicode.SimpleFold because the table is closed
   under it; checked on every code point against the running toolchain by leg c16-class-0. *)
Definition outside_ok (simple_fold : Z -> Z) : Prop :=
  forall x, valid_rune x -> ~ In x dom_t ->
    exists l, case_equivalences simple_fold orbit_fuel x = Ok l /\
              forall y, In y l -> valid_rune y /\ ~ In y dom_t.

(* all of ASCII and all of pair_dom are admissible members under IgnoreCase; exactly three runes of
   the table are not *)
Lemma bad_points_ok :
  bad_pts = [215; 304; 7838] /\
  forallb (fun x => zmem x good_dom) (ascii_dom ++ pair_dom) = true.
Proof.
  split; [vm_compute; reflexivity|].
  change ((fun g => forallb (fun x => zmem x g) (ascii_dom ++ pair_dom)) good_dom = true).
  vm_compute. reflexivity.
Qed.

Lemma ascii_good x : 0 <= x < 128 -> In x good_dom.
Proof.
  intros H. pose proof (proj2 bad_points_ok) as G. rewrite forallb_forall in G.
  apply zmem_In. apply G. apply in_or_app. left. apply in_ascii_dom. exact H.
Qed.

Lemma pair_good x : In x pair_dom -> In x good_dom.
Proof.
  intros H. pose proof (proj2 bad_points_ok) as G. rewrite forallb_forall in G.
  apply zmem_In. apply G. apply in_or_app. right. exact H.
Qed.

(* the runes lo .. hi *)
Definition span_pts (lo hi : Z) : list Z := map (fun i => lo + Z.of_nat i) (seq 0 (Z.to_nat (hi - lo + 1))).

Lemma span_pts_In lo hi x : lo <= x <= hi -> In x (span_pts lo hi).
Proof.
  intros H. unfold span_pts. apply in_map_iff. exists (Z.to_nat (x - lo)). split; [lia|]. apply in_seq. lia.
Qed.

(* lcTable on runes from U+0080 on: the image stays inside U+0080..U+10000, except U+0130 -> 'i' *)
Definition lc_big_ok : bool :=
  forallb (fun e : Z * Z * Z * Z =>
             let '(lmin, lmax, op, data) := e in
             forallb (fun x => (x <? 128) || ((x =? 304) && (op_apply op data x =? 105)) ||
                               ((128 <=? op_apply op data x) && (op_apply op data x <=? 65536)))
                     (span_pts lmin lmax)) lc_table.
Lemma lc_big_true : lc_big_ok = true.
Proof. vm_compute. reflexivity. Qed.

Lemma lc_big_facts e x : In e lc_table -> entry_covers e x -> 128 <= x ->
  (x = 304 /\ entry_op e x = 105) \/ 128 <= entry_op e x <= 65536.
Proof.
  intros He Hc Hx. pose proof lc_big_true as H. unfold lc_big_ok in H. rewrite forallb_forall in H.
  specialize (H e He). destruct e as [[[lmin lmax] op] data]. cbn [entry_covers entry_op] in *.
  rewrite forallb_forall in H. specialize (H x (span_pts_In lmin lmax x Hc)). lia.
Qed.

Lemma i_in_orb_I : In 73 dom_t /\ In 105 (orb 73).
Proof. split; apply zmem_In; vm_compute; reflexivity. Qed.

Lemma dom_bounds x : In x dom_t -> 0 <= x < max_rune - 1.
Proof. intros H. destruct (rel_facts x H) as (_ & _ & Bd & _). exact Bd. Qed.

Lemma dom_valid z : In z dom_t -> valid_rune z.
Proof. intros H. pose proof (dom_bounds z H). unfold valid_rune. lia. Qed.

Lemma orb_in_dom x y : In x dom_t -> In y (orb x) -> In y dom_t.
Proof. intros Hx Hy. destruct (rel_facts x Hx) as (F & _). apply (F y Hy). Qed.

Lemma dom_dec x : In x dom_t \/ ~ In x dom_t.
Proof.
  destruct (zmem x dom_t) eqn:E; [left; apply zmem_In; exact E|].
  right. intros H. apply zmem_In in H. congruence.
Qed.

Lemma mem_valid rs y : wf_ranges rs -> mem rs y = true -> valid_rune y.
Proof.
  intros Hw Hy. apply mem_true_iff in Hy. destruct Hy as [r [Hr Hy]].
  unfold wf_ranges in Hw. rewrite Forall_forall in Hw. destruct (Hw r Hr) as (W1 & W2 & W3).
  unfold valid_rune. lia.
Qed.

Section Closure.
  Variable cat_in : Z -> Z -> bool.
  Variable simple_fold to_lower : Z -> Z.
  Hypothesis agree : forall x, In x dom_t -> simple_fold x = fold_t x /\ to_lower x = lower_t x.
  (* B: big members are admitted *)
  Variable B : Prop.
  Hypothesis Hout : B -> outside_ok simple_fold.

  Definition lower_single (r : Z * Z) : Z * Z :=
    if fst r =? snd r then (to_lower (fst r), to_lower (fst r)) else r.
  Definition is_multi (r : Z * Z) : bool := negb (fst r =? snd r).

  (* the ranges addLowercase hands to canonicalize *)
  Definition lowered (R : list (Z * Z)) : list (Z * Z) :=
    map lower_single R ++ flat_map (fun r => lowercase_range (fst r) (snd r)) (filter is_multi R).

  (* the admissible code-point members, as a predicate on the membership function of a class *)
  Definition okp (L : Z -> bool) : Prop :=
    forall x, L x = true ->
      In x good_dom \/
      (B /\ valid_rune x /\ (forall y, 128 <= y <= Z.max x 65536 -> L y = true) /\ (L 105 = true \/ L 73 = true)).

  Lemma okp_good (L : Z -> bool) : (forall x, L x = true -> In x good_dom) -> okp L.
  Proof. intros H x Hx. left. apply H. exact Hx. Qed.

  Lemma okp_ext (L L' : Z -> bool) : (forall x, L x = L' x) -> okp L -> okp L'.
  Proof.
    intros E H x Hx. rewrite <- E in Hx. destruct (H x Hx) as [G|(G1 & G2 & G3 & G4)]; [left; exact G|].
    right. split; [exact G1|]. split; [exact G2|]. split; [intros y Hy; rewrite <- E; apply G3; exact Hy|].
    rewrite <- !E. exact G4.
  Qed.

  (* ---------------------------------------------------------------- the equivalences, whatever the runes *)
  Definition ceq (x : Z) : list Z :=
    match case_equivalences simple_fold orbit_fuel x with Ok l => l | _ => [] end.

  Lemma ceq_dom x : In x dom_t -> x :: ceq x = orb x.
  Proof.
    intros H. destruct (case_equivalences_agree cat_in simple_fold to_lower agree x H) as (l & Hl & Ho).
    unfold ceq. rewrite Hl. exact Ho.
  Qed.

  Lemma equivalences_of_range_gen : forall n lo,
    (forall x, lo <= x < lo + Z.of_nat n -> exists l, case_equivalences simple_fold orbit_fuel x = Ok l) ->
    exists L, equivalences_of_range simple_fold orbit_fuel lo n = Ok (map (fun x : Z => (x, x)) L) /\
              forall z, In z L <-> exists x, lo <= x < lo + Z.of_nat n /\ In z (ceq x).
  Proof.
    induction n as [|n IH]; intros lo Hd.
    - exists []. split; [reflexivity|]. intros z. split; [intros []|intros [x [H _]]; lia].
    - destruct (Hd lo ltac:(lia)) as (l & Hl).
      destruct (IH (lo + 1) ltac:(intros x Hx; apply Hd; lia)) as (L & HL & HLs).
      assert (Hc : ceq lo = l) by (unfold ceq; rewrite Hl; reflexivity).
      exists (l ++ L). split.
      + cbn [equivalences_of_range]. rewrite Hl. cbn [bind]. rewrite HL. cbn [bind]. rewrite map_app. reflexivity.
      + intros z. rewrite in_app_iff. rewrite HLs. split.
        * intros [H|[x [Hx Hz]]].
          -- exists lo. split; [lia|]. rewrite Hc. exact H.
          -- exists x. split; [lia|exact Hz].
        * intros [x [Hx Hz]]. destruct (x =? lo) eqn:E.
          -- assert (x = lo) by lia. subst x. left. rewrite Hc in Hz. exact Hz.
          -- right. exists x. split; [lia|exact Hz].
  Qed.

  Lemma equivalences_of_ranges_gen : forall rs,
    (forall x, mem rs x = true -> exists l, case_equivalences simple_fold orbit_fuel x = Ok l) ->
    exists L, equivalences_of_ranges simple_fold orbit_fuel rs = Ok (map (fun x : Z => (x, x)) L) /\
              forall z, In z L <-> exists x, mem rs x = true /\ In z (ceq x).
  Proof.
    induction rs as [|[a b] t IH]; intros Hd.
    - exists []. split; [reflexivity|]. intros z. split; [intros []|intros [x [H _]]; discriminate].
    - assert (Hr : forall x, a <= x <= b <-> in_range (a, b) x = true) by (intros x; unfold in_range; cbn; lia).
      destruct (equivalences_of_range_gen (Z.to_nat (b - a + 1)) a) as (L1 & H1 & H1s).
      { intros x Hx. apply Hd. rewrite mem_cons. apply orb_true_iff. left. apply Hr. lia. }
      destruct IH as (L2 & H2 & H2s).
      { intros x Hx. apply Hd. rewrite mem_cons. rewrite Hx. apply orb_true_r. }
      exists (L1 ++ L2). split.
      + cbn [equivalences_of_ranges]. rewrite H1. cbn [bind]. rewrite H2. cbn [bind]. rewrite map_app. reflexivity.
      + intros z. rewrite in_app_iff, H1s, H2s. split.
        * intros [[x [Hx Hz]]|[x [Hx Hz]]]; exists x; (split; [|exact Hz]); rewrite mem_cons.
          -- apply orb_true_iff. left. apply Hr. lia.
          -- rewrite Hx. apply orb_true_r.
        * intros [x [Hx Hz]]. rewrite mem_cons in Hx. apply orb_prop in Hx. destruct Hx as [Hx|Hx].
          -- left. exists x. split; [apply Hr in Hx; lia|exact Hz].
          -- right. exists x. split; auto.
  Qed.

  (* a rune of the table, or (B) a code point outside it: its orbit is enumerated, and stays on its side *)
  Lemma ceq_ok x : valid_rune x -> In x dom_t \/ B ->
    (exists l, case_equivalences simple_fold orbit_fuel x = Ok l) /\
    forall z, In z (ceq x) -> valid_rune z /\
              ((In x dom_t /\ In z dom_t /\ In z (tl (orb x))) \/ (B /\ ~ In x dom_t /\ ~ In z dom_t)).
  Proof.
    intros Hv Hx. destruct (dom_dec x) as [Hd|Hn].
    - destruct (case_equivalences_agree cat_in simple_fold to_lower agree x Hd) as (l & Hl & Ho).
      split; [exists l; exact Hl|]. intros z Hz. unfold ceq in Hz. rewrite Hl in Hz.
      assert (Hzo : In z (tl (orb x))) by (rewrite <- Ho; exact Hz).
      assert (Hzd : In z dom_t) by (apply (orb_in_dom x z Hd); rewrite <- Ho; right; exact Hz).
      split; [apply dom_valid; exact Hzd|]. left. auto.
    - destruct Hx as [Hx|HB]; [contradiction|].
      destruct (Hout HB x Hv Hn) as (l & Hl & Hls).
      split; [exists l; exact Hl|]. intros z Hz. unfold ceq in Hz. rewrite Hl in Hz.
      destruct (Hls z Hz) as [Z1 Z2]. split; [exact Z1|]. right. auto.
  Qed.

  (* ---------------------------------------------------------------- canonicalize when nothing flips *)
  Lemma canon_neg' c : neg c = true -> canonicalize cat_in c = set_ranges c (merged (ranges c)).
  Proof.
    intros Hn. rewrite canonicalize_unfold. destruct (ranges c) as [|r t] eqn:Er.
    - destruct c; cbn in *; subst; reflexivity.
    - rewrite <- Er.
      set (c0 := set_ranges c (merged (ranges c))). assert (H0 : neg c0 = true) by exact Hn.
      unfold normal_form_1. rewrite H0. cbn [negb andb].
      unfold normal_form_2. rewrite H0. cbn [negb andb].
      unfold normal_form_3. rewrite H0. reflexivity.
  Qed.

  Lemma canon_plain c : wf_ranges (ranges c) ->
    (neg c = true \/ forall y, mem (ranges c) y = true -> In y dom_t) ->
    canonicalize cat_in c = set_ranges c (merged (ranges c)).
  Proof.
    intros Hw [Hn|Hb]; [apply canon_neg'; exact Hn|].
    apply (canonicalize_bounded cat_in simple_fold to_lower agree c Hw).
    intros y Hy. apply (dom_bounds y). apply Hb. exact Hy.
  Qed.

  Section OneClass.
    Variable R : list (Z * Z).
    Hypothesis Hw : wf_ranges R.
    Hypothesis Hg : okp (mem R).
    Hypothesis Hs : forall x, In (x, x) R -> In x good_dom.

    Lemma in_R_mem r x : In r R -> fst r <= x <= snd r -> mem R x = true.
    Proof. intros Hr Hx. apply (proj2 (mem_true_iff R x)). exists r. auto. Qed.

    (* the lcTable image of a member covered by a table entry: sound, and inside the code points *)
    Lemma member_op e x : mem R x = true -> In e lc_table -> entry_covers e x ->
      0 <= entry_op e x <= max_rune /\
      exists x', mem R x' = true /\ (entry_op e x = x' \/ (In x' dom_t /\ In (entry_op e x) (orb x'))).
    Proof.
      intros Hx He Hc.
      assert (Good : In x good_dom ->
                     0 <= entry_op e x <= max_rune /\
                     exists x', mem R x' = true /\ (entry_op e x = x' \/ (In x' dom_t /\ In (entry_op e x) (orb x')))).
      { intros G. destruct (proj1 (good_dom_In x) G) as [Hd Hgood].
        destruct (good_pt_facts x Hgood) as (_ & _ & Ho). specialize (Ho e He Hc).
        pose proof (dom_bounds _ (orb_in_dom x _ Hd Ho)) as Bd.
        split; [lia|]. exists x. split; [exact Hx|]. right. auto. }
      destruct (Hg x Hx) as [G|(HB & Hv & Hcov & Hi)]; [exact (Good G)|].
      destruct (x <? 128) eqn:E; [apply Good; apply ascii_good; unfold valid_rune in Hv; lia|].
      destruct (lc_big_facts e x He Hc ltac:(lia)) as [[-> Hop]|Hop].
      - rewrite Hop. split; [unfold max_rune; lia|]. destruct Hi as [Hi|Hi].
        + exists 105. split; [exact Hi|]. left. reflexivity.
        + exists 73. split; [exact Hi|]. right. exact i_in_orb_I.
      - split; [unfold max_rune; lia|]. exists (entry_op e x). split; [|left; reflexivity].
        apply Hcov. lia.
    Qed.

    (* every emitted range: shape, well-formedness, soundness *)
    Lemma lowered_range_facts p q : In (p, q) (lowered R) ->
      wf_range (p, q) /\
      forall y, p <= y <= q -> exists x, mem R x = true /\ (y = x \/ (In x dom_t /\ In y (orb x))).
    Proof.
      unfold lowered. intros Hin. apply in_app_or in Hin. destruct Hin as [Hin|Hin].
      - apply in_map_iff in Hin. destruct Hin as [[a b] [Hf Hr]]. unfold lower_single in Hf; cbn [fst snd] in Hf.
        pose proof Hw as Hw'. unfold wf_ranges in Hw'. rewrite Forall_forall in Hw'. destruct (Hw' _ Hr) as (W1 & W2 & W3); cbn [fst snd] in *.
        destruct (a =? b) eqn:E.
        + assert (a = b) by lia. subst b. injection Hf as <- <-.
          destruct (proj1 (good_dom_In a) (Hs a Hr)) as [Hd Hgood].
          destruct (good_pt_facts a Hgood) as (_ & Hl & _).
          rewrite (proj2 (agree a Hd)).
          pose proof (dom_bounds _ (orb_in_dom a _ Hd Hl)) as Hb.
          split; [unfold wf_range; cbn [fst snd]; lia|].
          intros y Hy. assert (y = lower_t a) by lia. subst y. exists a. split; [|right; auto].
          apply (in_R_mem (a, a)); [exact Hr|cbn; lia].
        + injection Hf as <- <-. split; [unfold wf_range; cbn [fst snd]; lia|].
          intros y Hy. exists y. split; [apply (in_R_mem (a, b)); [exact Hr|cbn; lia]|left; reflexivity].
      - apply in_flat_map in Hin. destruct Hin as [[a b] [Hr Hin]]. apply filter_In in Hr. destruct Hr as [Hr Hm].
        unfold is_multi in Hm; cbn [fst snd] in Hm, Hin.
        pose proof Hw as Hw'. unfold wf_ranges in Hw'. rewrite Forall_forall in Hw'. destruct (Hw' _ Hr) as (W1 & W2 & W3); cbn [fst snd] in *.
        destruct (lowercase_range_shape a b p q W2 Hin) as (e & mn & mx & He & C1 & C2 & B1 & B2 & B3 & -> & ->).
        assert (Hcov : forall x, mn <= x <= mx -> entry_covers e x).
        { intros x Hx. destruct e as [[[lmin lmax] op] data]. cbn [entry_covers] in *. lia. }
        assert (Hpt : forall x, mn <= x <= mx ->
                  0 <= entry_op e x <= max_rune /\
                  exists x', mem R x' = true /\ (entry_op e x = x' \/ (In x' dom_t /\ In (entry_op e x) (orb x')))).
        { intros x Hx. apply member_op; [apply (in_R_mem (a, b)); [exact Hr|cbn; lia]|exact He|apply Hcov; exact Hx]. }
        destruct (Hpt mn ltac:(lia)) as [Bp _]. destruct (Hpt mx ltac:(lia)) as [Bq _].
        assert (Hmono : entry_op e mn <= entry_op e mx).
        { destruct e as [[[lmin lmax] op] data]. cbn [entry_op]. apply op_monotone; lia. }
        split; [unfold wf_range; cbn [fst snd]; lia|].
        intros y Hy.
        assert (Hint : (mn <= y <= mx) \/ exists x, mn <= x <= mx /\ y = entry_op e x).
        { destruct e as [[[lmin lmax] op] data]. cbn [entry_op] in *. apply op_interval; lia. }
        destruct Hint as [Hin'|[x [Hx ->]]].
        + exists y. split; [apply (in_R_mem (a, b)); [exact Hr|cbn; lia]|left; reflexivity].
        + apply (Hpt x Hx).
    Qed.

    Lemma lowered_wf : wf_ranges (lowered R).
    Proof. unfold wf_ranges. apply Forall_forall. intros [p q] H. apply (lowered_range_facts p q H). Qed.

    Lemma lowered_sound y : mem (lowered R) y = true ->
      exists x, mem R x = true /\ (y = x \/ (In x dom_t /\ In y (orb x))).
    Proof.
      intros H. apply mem_true_iff in H. destruct H as [[p q] [Hin Hy]]. cbn [fst snd] in Hy.
      apply (lowered_range_facts p q Hin). exact Hy.
    Qed.

    Lemma lowered_dom_or_B y : mem (lowered R) y = true -> In y dom_t \/ B.
    Proof.
      intros H. destruct (lowered_sound y H) as (x & Hx & [->|[Hd Hy]]).
      - destruct (Hg x Hx) as [G|(HB & _)]; [left; exact (proj1 (proj1 (good_dom_In x) G))|right; exact HB].
      - left. apply (orb_in_dom x y Hd Hy).
    Qed.

    Lemma lowered_in_dom y : (forall x, mem R x = true -> In x good_dom) -> mem (lowered R) y = true -> In y dom_t.
    Proof.
      intros Hall H. destruct (lowered_sound y H) as (x & Hx & Hy).
      pose proof (proj1 (proj1 (good_dom_In x) (Hall x Hx))) as Hd.
      destruct Hy as [->|[_ Hy]]; [exact Hd|]. apply (orb_in_dom x y Hd Hy).
    Qed.

    Lemma lowered_covers x : mem R x = true -> In x dom_t ->
      exists y, mem (lowered R) y = true /\ In y dom_t /\ In x (orb y).
    Proof.
      intros H Hd.
      apply mem_true_iff in H. destruct H as [[a b] [Hr Hx]]. cbn [fst snd] in Hx.
      destruct (a =? b) eqn:E.
      - assert (a = b) by lia. subst b. assert (x = a) by lia. subst x.
        destruct (proj1 (good_dom_In a) (Hs a Hr)) as [_ Hgood].
        destruct (good_pt_facts a Hgood) as (_ & Hl & _).
        exists (lower_t a). split; [|split].
        + unfold lowered. rewrite mem_app. apply orb_true_iff. left. apply mem_true_iff.
          exists (lower_t a, lower_t a). split; [|cbn; lia].
          apply in_map_iff. exists (a, a). split; [|exact Hr].
          unfold lower_single; cbn [fst snd]. rewrite Z.eqb_refl. rewrite (proj2 (agree a Hd)). reflexivity.
        + apply (orb_in_dom a _ Hd Hl).
        + destruct (rel_facts a Hd) as (F & _). apply (F _ Hl).
      - exists x. split; [|split; [exact Hd|apply orb_refl]].
        unfold lowered. rewrite mem_app. apply orb_true_iff. left. apply mem_true_iff.
        exists (a, b). split; [|cbn; lia].
        apply in_map_iff. exists (a, b). split; [|exact Hr]. unfold lower_single; cbn [fst snd]. rewrite E. reflexivity.
    Qed.
  End OneClass.

  Lemma add_lowercase_unfold c : anything c = false ->
    add_lowercase cat_in to_lower c = canonicalize cat_in (set_ranges c (lowered (ranges c))).
  Proof.
    intros Ha. unfold add_lowercase. rewrite Ha. unfold lowered, lower_single, is_multi. reflexivity.
  Qed.

  (* case_equiv_closed, general form: any class whose members are admissible (okp), whose single
     members are good, and on which canonicalize does not flip (marked negated, or every member good);
     the subtracted class is expanded by the recursive call and passed through *)
  Theorem ci_closure_gen c sb' :
    anything c = false -> wf_ranges (ranges c) ->
    okp (mem (ranges c)) -> (forall x, In (x, x) (ranges c) -> In x good_dom) ->
    (neg c = true \/ forall x, mem (ranges c) x = true -> In x good_dom) ->
    match sub c with
    | None => sb' = None
    | Some s => exists s', add_case_equivalences cat_in simple_fold orbit_fuel s = Ok s' /\ sb' = Some s'
    end ->
    exists c',
      add_case_equivalences cat_in simple_fold orbit_fuel (add_lowercase cat_in to_lower c) = Ok c' /\
      neg c' = neg c /\ cats c' = cats c /\ sub c' = sb' /\ anything c' = false /\ ascii c' = ascii c /\
      canonical_ranges (ranges c') /\ wf_ranges (ranges c') /\
      (forall z, In z dom_t ->
         mem (ranges c') z = existsb (fun x => mem (ranges c) x) (orbit simple_fold orbit_fuel z)) /\
      (forall y, mem (ranges c') y = true -> In y dom_t \/ B).
  Proof.
    intros Ha Hw Hg Hs Hflip Hsub. set (R := ranges c) in *.
    pose proof (lowered_wf R Hw Hg Hs) as Lw.
    rewrite (add_lowercase_unfold c Ha). fold R.
    assert (Hall1 : (forall x, mem R x = true -> In x good_dom) -> forall y, mem (lowered R) y = true -> In y dom_t).
    { intros Hall y Hy. apply (lowered_in_dom R Hw Hg Hs y Hall Hy). }
    rewrite (canon_plain (set_ranges c (lowered R))); cbn [ranges set_ranges neg]; auto.
    2:{ destruct Hflip as [Hn|Hall]; [left; exact Hn|right; exact (Hall1 Hall)]. }
    set (R1 := merged (lowered R)).
    assert (M1 : forall y, mem R1 y = mem (lowered R) y) by (intros y; apply merged_mem; exact Lw).
    assert (W1 : wf_ranges R1) by (apply merged_wf; exact Lw).
    assert (D1 : forall y, mem R1 y = true -> In y dom_t \/ B).
    { intros y Hy. rewrite M1 in Hy. apply (lowered_dom_or_B R Hw Hg Hs y Hy). }
    destruct (equivalences_of_ranges_gen R1) as (T & HT & HTs).
    { intros x Hx. apply (ceq_ok x (mem_valid R1 x W1 Hx) (D1 x Hx)). }
    destruct c as [rs cs sb ng an asc]. cbn [ranges sub anything neg cats ascii] in *. subst an.
    unfold set_ranges; cbn [ranges cats sub neg anything ascii]. cbn [add_case_equivalences].
    assert (Hsb : match sb with
                  | Some s => do s' <- add_case_equivalences cat_in simple_fold orbit_fuel s ; Ok (Some s')
                  | None => Ok None
                  end = Ok sb').
    { destruct sb as [s|]; [destruct Hsub as (s' & H1 & ->); rewrite H1; reflexivity|subst sb'; reflexivity]. }
    rewrite Hsb. cbn [bind]. rewrite HT. cbn [bind].
    set (c2 := Cls (R1 ++ map (fun x : Z => (x, x)) T) cs sb' ng false asc).
    assert (InT : forall z, In z T -> valid_rune z /\ (In z dom_t \/ B)).
    { intros z Hz. apply HTs in Hz. destruct Hz as (x & Hx & Hz).
      destruct (proj2 (ceq_ok x (mem_valid R1 x W1 Hx) (D1 x Hx)) z Hz) as [Zv [(_ & Zd & _)|(HB & _)]]; auto. }
    assert (W2 : wf_ranges (ranges c2)).
    { cbn [ranges c2]. apply wf_ranges_app; [exact W1|]. unfold wf_ranges. apply Forall_forall. intros r Hr.
      apply in_map_iff in Hr. destruct Hr as [z [<- Hz]]. destruct (InT z Hz) as [Zv _]. unfold valid_rune in Zv.
      unfold wf_range; cbn [fst snd]. lia. }
    assert (D2 : forall y, mem (ranges c2) y = true -> In y dom_t \/ B).
    { intros y Hy. cbn [ranges c2] in Hy. rewrite mem_app in Hy. apply orb_prop in Hy. destruct Hy as [Hy|Hy].
      - apply D1. exact Hy.
      - apply mem_singles in Hy. apply (InT y Hy). }
    rewrite (canon_plain c2 W2).
    2:{ destruct Hflip as [Hn|Hall]; [left; exact Hn|right].
        intros y Hy. cbn [ranges c2] in Hy. rewrite mem_app in Hy. apply orb_prop in Hy. destruct Hy as [Hy|Hy].
        - rewrite M1 in Hy. apply (Hall1 Hall y Hy).
        - apply mem_singles in Hy. apply HTs in Hy. destruct Hy as (x & Hx & Hz).
          assert (Hxd : In x dom_t) by (rewrite M1 in Hx; apply (Hall1 Hall x Hx)).
          apply (orb_in_dom x y Hxd). rewrite <- (ceq_dom x Hxd). right. exact Hz. }
    eexists. split; [reflexivity|]. unfold set_ranges; cbn [neg cats sub anything ascii ranges c2].
    repeat (split; [reflexivity|]).
    split; [apply merged_canonical; exact W2|]. split; [apply merged_wf; exact W2|].
    split.
    - intros z Hz. rewrite merged_mem by exact W2. cbn [ranges c2]. rewrite mem_app.
      rewrite (orbit_agree cat_in simple_fold to_lower agree z Hz).
      apply eq_true_iff_eq. rewrite orb_true_iff, existsb_exists. split.
      + (* member of the result -> some orbit member of z is an original member *)
        intros H.
        assert (Hy : exists y, mem R1 y = true /\ In y dom_t /\ In z (orb y)).
        { destruct H as [H|H]; [exists z; split; [exact H|split; [exact Hz|apply orb_refl]]|].
          apply mem_singles in H. apply HTs in H. destruct H as (y & Hy & Hzy). exists y. split; [exact Hy|].
          destruct (proj2 (ceq_ok y (mem_valid R1 y W1 Hy) (D1 y Hy)) z Hzy) as [_ [(Yd & _ & Zo)|(_ & _ & Zn)]]; [|contradiction].
          split; [exact Yd|]. rewrite orb_unfold. right. rewrite orb_unfold in Zo. exact Zo. }
        destruct Hy as (y & Hy & Hyd & Hzy). rewrite M1 in Hy.
        destruct (lowered_sound R Hw Hg Hs y Hy) as (x & Hx & Hyx).
        assert (Hxd : In x dom_t /\ In y (orb x)).
        { destruct Hyx as [->|[Hxd Hyx]]; [split; [exact Hyd|apply orb_refl]|auto]. }
        destruct Hxd as [Hxd Hyx'].
        destruct (rel_facts x Hxd) as (F & _). destruct (F y Hyx') as (_ & _ & Ftr).
        pose proof (Ftr z Hzy) as Hzx.
        exists x. split; [|exact Hx]. apply (F z Hzx).
      + intros (x & Hxz & Hx).
        destruct (rel_facts z Hz) as (Fz & _). destruct (Fz x Hxz) as (Hxd & Hzx & _).
        destruct (lowered_covers R Hs x Hx Hxd) as (y & Hy & Hyd & Hxy).
        destruct (rel_facts y Hyd) as (Fy & _). destruct (Fy x Hxy) as (_ & _ & Ftr).
        pose proof (Ftr z Hzx) as Hzy.
        rewrite <- M1 in Hy.
        rewrite orb_unfold in Hzy. destruct Hzy as [<-|Hzy]; [left; exact Hy|].
        right. apply mem_singles. apply HTs. exists y. split; [exact Hy|].
        pose proof (ceq_dom y Hyd) as Hc. rewrite orb_unfold in Hc. injection Hc as Hc. rewrite Hc. exact Hzy.
    - intros y Hy. rewrite merged_mem in Hy by exact W2. apply D2. exact Hy.
  Qed.

End Closure.

(* the statement over the good part of the table alone (no big members: B := False) *)
Section ClosureGood.
  Variable cat_in : Z -> Z -> bool.
  Variable simple_fold to_lower : Z -> Z.
  Hypothesis agree : forall x, In x dom_t -> simple_fold x = fold_t x /\ to_lower x = lower_t x.

  Theorem ci_closure c :
    anything c = false -> sub c = None -> wf_ranges (ranges c) ->
    (forall x, mem (ranges c) x = true -> In x good_dom) ->
    exists c',
      add_case_equivalences cat_in simple_fold orbit_fuel (add_lowercase cat_in to_lower c) = Ok c' /\
      neg c' = neg c /\ cats c' = cats c /\ sub c' = None /\ anything c' = false /\ ascii c' = ascii c /\
      canonical_ranges (ranges c') /\ wf_ranges (ranges c') /\
      forall z, In z dom_t ->
        mem (ranges c') z = existsb (fun x => mem (ranges c) x) (orbit simple_fold orbit_fuel z).
  Proof.
    intros Ha Hs Hw Hg.
    destruct (ci_closure_gen cat_in simple_fold to_lower agree False (fun f => match f with end) c None)
      as (c' & H1 & H2 & H3 & H4 & H5 & H6 & H7 & H8 & H9 & _); auto.
    - apply okp_good. exact Hg.
    - intros x Hx. apply Hg. apply mem_true_iff. exists (x, x). split; [exact Hx|cbn; lia].
    - rewrite Hs. reflexivity.
    - exists c'. repeat (split; [assumption|]). exact H9.
  Qed.
End ClosureGood.
