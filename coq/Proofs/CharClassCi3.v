(* IgnoreCase, general class-level statement (end): addLowercase and the closure theorem. *)
From Coq Require Import FMapPositive ZifyBool.
From Verif Require Import Base.Prelude Model.CharClass Model.FoldD
  Proofs.CharClassRanges Proofs.CharClassProofs Proofs.CharClassFold Proofs.CharClassFoldThm
  Proofs.CharClassCi Proofs.CharClassCi2.

Section Closure.
  Variable cat_in : Z -> Z -> bool.
  Variable simple_fold to_lower : Z -> Z.
  Hypothesis agree : forall x, In x dom_t -> simple_fold x = fold_t x /\ to_lower x = lower_t x.

  Definition lower_single (r : Z * Z) : Z * Z :=
    if fst r =? snd r then (to_lower (fst r), to_lower (fst r)) else r.
  Definition is_multi (r : Z * Z) : bool := negb (fst r =? snd r).

  (* the ranges addLowercase hands to canonicalize *)
  Definition lowered (R : list (Z * Z)) : list (Z * Z) :=
    map lower_single R ++ flat_map (fun r => lowercase_range (fst r) (snd r)) (filter is_multi R).

  Lemma dom_bounds x : In x dom_t -> 0 <= x < max_rune - 1.
  Proof. intros H. destruct (rel_facts x H) as (_ & _ & B & _). exact B. Qed.

  Lemma orb_in_dom x y : In x dom_t -> In y (orb x) -> In y dom_t.
  Proof. intros Hx Hy. destruct (rel_facts x Hx) as (F & _). apply (F y Hy). Qed.

  Section OneClass.
    Variable R : list (Z * Z).
    Hypothesis Hw : wf_ranges R.
    Hypothesis Hg : forall x, mem R x = true -> In x good_dom.

    Lemma member_good x r : In r R -> fst r <= x <= snd r -> In x dom_t /\ good_pt x = true.
    Proof. intros Hr Hx. apply (proj1 (good_dom_In x)). apply Hg. apply (proj2 (mem_true_iff R x)). exists r. auto. Qed.

    (* every emitted range: shape, well-formedness, soundness *)
    Lemma lowered_range_facts p q : In (p, q) (lowered R) ->
      wf_range (p, q) /\
      forall y, p <= y <= q -> exists x, mem R x = true /\ In y (orb x).
    Proof.
      unfold lowered. intros Hin. apply in_app_or in Hin. destruct Hin as [Hin|Hin].
      - apply in_map_iff in Hin. destruct Hin as [[a b] [Hf Hr]]. unfold lower_single in Hf; cbn [fst snd] in Hf.
        unfold wf_ranges in Hw. rewrite Forall_forall in Hw. destruct (Hw _ Hr) as (W1 & W2 & W3); cbn [fst snd] in *.
        destruct (a =? b) eqn:E.
        + assert (a = b) by lia. subst b. injection Hf as <- <-.
          destruct (member_good a (a, a) Hr ltac:(cbn; lia)) as [Hd Hgood].
          destruct (good_pt_facts a Hgood) as (_ & Hl & _).
          rewrite (proj2 (agree a Hd)).
          pose proof (dom_bounds _ (orb_in_dom a _ Hd Hl)) as Hb.
          split; [unfold wf_range; cbn [fst snd]; lia|].
          intros y Hy. assert (y = lower_t a) by lia. subst y. exists a. split; [|exact Hl].
          apply mem_true_iff. exists (a, a). split; [exact Hr|cbn; lia].
        + injection Hf as <- <-. split; [unfold wf_range; cbn [fst snd]; lia|].
          intros y Hy. exists y. split; [apply mem_true_iff; exists (a, b); split; [exact Hr|cbn; lia]|apply orb_refl].
      - apply in_flat_map in Hin. destruct Hin as [[a b] [Hr Hin]]. apply filter_In in Hr. destruct Hr as [Hr Hm].
        unfold is_multi in Hm; cbn [fst snd] in Hm, Hin.
        unfold wf_ranges in Hw. rewrite Forall_forall in Hw. destruct (Hw _ Hr) as (W1 & W2 & W3); cbn [fst snd] in *.
        destruct (lowercase_range_shape a b p q W2 Hin) as ([[[lmin lmax] op] data] & mn & mx & He & C1 & C2 & B1 & B2 & B3 & -> & ->).
        cbn [entry_covers entry_op] in *.
        assert (Hpt : forall x, mn <= x <= mx -> In x dom_t /\ In (op_apply op data x) (orb x)).
        { intros x Hx. destruct (member_good x (a, b) Hr ltac:(cbn; lia)) as [Hd Hgood].
          destruct (good_pt_facts x Hgood) as (_ & _ & Ho). split; [exact Hd|].
          apply (Ho (lmin, lmax, op, data) He). cbn. lia. }
        destruct (Hpt mn ltac:(lia)) as [Dmn Omn]. destruct (Hpt mx ltac:(lia)) as [Dmx Omx].
        pose proof (dom_bounds _ Dmn) as Bmn.
        pose proof (dom_bounds _ (orb_in_dom mn _ Dmn Omn)) as Bp.
        pose proof (dom_bounds _ (orb_in_dom mx _ Dmx Omx)) as Bq.
        pose proof (op_monotone op data mn mx ltac:(lia) B2) as Hmono.
        split; [unfold wf_range; cbn [fst snd]; lia|].
        intros y Hy. destruct (op_interval op data mn mx y ltac:(lia) B2 Hy) as [Hin'|[x [Hx ->]]].
        + exists y. split; [apply mem_true_iff; exists (a, b); split; [exact Hr|cbn; lia]|apply orb_refl].
        + exists x. split; [apply mem_true_iff; exists (a, b); split; [exact Hr|cbn; lia]|apply (Hpt x Hx)].
    Qed.

    Lemma lowered_wf : wf_ranges (lowered R).
    Proof. unfold wf_ranges. apply Forall_forall. intros [p q] H. apply (lowered_range_facts p q H). Qed.

    Lemma lowered_sound y : mem (lowered R) y = true -> exists x, mem R x = true /\ In y (orb x).
    Proof.
      intros H. apply mem_true_iff in H. destruct H as [[p q] [Hin Hy]]. cbn [fst snd] in Hy.
      apply (lowered_range_facts p q Hin). exact Hy.
    Qed.

    Lemma lowered_in_dom y : mem (lowered R) y = true -> In y dom_t.
    Proof.
      intros H. destruct (lowered_sound y H) as (x & Hx & Hy).
      apply (orb_in_dom x y); [|exact Hy]. exact (proj1 (proj1 (good_dom_In x) (Hg x Hx))).
    Qed.

    Lemma lowered_covers x : mem R x = true -> exists y, mem (lowered R) y = true /\ In x (orb y).
    Proof.
      intros H. destruct (proj1 (good_dom_In x) (Hg x H)) as [Hd Hgood].
      apply mem_true_iff in H. destruct H as [[a b] [Hr Hx]]. cbn [fst snd] in Hx.
      destruct (a =? b) eqn:E.
      - assert (a = b) by lia. subst b. assert (x = a) by lia. subst x.
        destruct (good_pt_facts a Hgood) as (_ & Hl & _).
        exists (lower_t a). split.
        + unfold lowered. rewrite mem_app. apply orb_true_iff. left. apply mem_true_iff.
          exists (lower_t a, lower_t a). split; [|cbn; lia].
          apply in_map_iff. exists (a, a). split; [|exact Hr].
          unfold lower_single; cbn [fst snd]. rewrite Z.eqb_refl. rewrite (proj2 (agree a Hd)). reflexivity.
        + destruct (rel_facts a Hd) as (F & _). apply (F _ Hl).
      - exists x. split; [|apply orb_refl].
        unfold lowered. rewrite mem_app. apply orb_true_iff. left. apply mem_true_iff.
        exists (a, b). split; [|cbn; lia].
        apply in_map_iff. exists (a, b). split; [|exact Hr]. unfold lower_single; cbn [fst snd]. rewrite E. reflexivity.
    Qed.
  End OneClass.

  Lemma add_lowercase_unfold c : anything c = false ->
    add_lowercase cat_in to_lower c = canonicalize cat_in (set_ranges c (lowered (ranges c))).
  Proof.
    intros Ha. unfold add_lowercase. rewrite Ha. unfold lowered, lower_single, is_multi. reflexivity.
  Qed.

  (* case_equiv_closed, general form: any class over the good part of the table; the subtracted
     class is expanded by the recursive call and passed through *)
  Theorem ci_closure_sub c sb' :
    anything c = false -> wf_ranges (ranges c) ->
    (forall x, mem (ranges c) x = true -> In x good_dom) ->
    match sub c with
    | None => sb' = None
    | Some s => exists s', add_case_equivalences cat_in simple_fold orbit_fuel s = Ok s' /\ sb' = Some s'
    end ->
    exists c',
      add_case_equivalences cat_in simple_fold orbit_fuel (add_lowercase cat_in to_lower c) = Ok c' /\
      neg c' = neg c /\ cats c' = cats c /\ sub c' = sb' /\ anything c' = false /\ ascii c' = ascii c /\
      canonical_ranges (ranges c') /\ wf_ranges (ranges c') /\
      forall z, In z dom_t ->
        mem (ranges c') z = existsb (fun x => mem (ranges c) x) (orbit simple_fold orbit_fuel z).
  Proof.
    intros Ha Hw Hg Hsub. set (R := ranges c) in *.
    pose proof (lowered_wf R Hw Hg) as Lw.
    rewrite (add_lowercase_unfold c Ha). fold R.
    assert (Hb1 : forall y, mem (lowered R) y = true -> y < max_rune - 1).
    { intros y Hy. apply (dom_bounds y). apply (lowered_in_dom R Hw Hg y Hy). }
    rewrite (canonicalize_bounded cat_in simple_fold to_lower agree (set_ranges c (lowered R))) by (cbn [ranges set_ranges]; auto).
    cbn [ranges set_ranges]. set (R1 := merged (lowered R)).
    assert (M1 : forall y, mem R1 y = mem (lowered R) y) by (intros y; apply merged_mem; exact Lw).
    assert (W1 : wf_ranges R1) by (apply merged_wf; exact Lw).
    destruct (equivalences_of_ranges_spec cat_in simple_fold to_lower agree R1) as (T & HT & HTs).
    { intros x Hx. rewrite M1 in Hx. apply (lowered_in_dom R Hw Hg x Hx). }
    destruct c as [rs cs sb ng an asc]. cbn [ranges sub anything neg cats ascii] in *. subst an.
    unfold set_ranges; cbn [ranges cats sub neg anything ascii]. cbn [add_case_equivalences].
    assert (Hsb : match sb with
                  | Some s => do s' <- add_case_equivalences cat_in simple_fold orbit_fuel s ; Ok (Some s')
                  | None => Ok None
                  end = Ok sb').
    { destruct sb as [s|]; [destruct Hsub as (s' & H1 & ->); rewrite H1; reflexivity|subst sb'; reflexivity]. }
    rewrite Hsb. cbn [bind]. rewrite HT. cbn [bind].
    set (c2 := Cls (R1 ++ map (fun x : Z => (x, x)) T) cs sb' ng false asc).
    assert (InT : forall z, In z T -> In z dom_t).
    { intros z Hz. apply HTs in Hz. destruct Hz as (x & Hx & Hz). rewrite M1 in Hx.
      apply (orb_in_dom x z); [apply (lowered_in_dom R Hw Hg x Hx)|]. rewrite orb_unfold. right.
      rewrite orb_unfold in Hz. exact Hz. }
    assert (W2 : wf_ranges (ranges c2)).
    { cbn [ranges c2]. apply wf_ranges_app; [exact W1|]. unfold wf_ranges. apply Forall_forall. intros r Hr.
      apply in_map_iff in Hr. destruct Hr as [z [<- Hz]]. pose proof (dom_bounds z (InT z Hz)).
      unfold wf_range; cbn [fst snd]. lia. }
    assert (Hb2 : forall y, mem (ranges c2) y = true -> y < max_rune - 1).
    { intros y Hy. cbn [ranges c2] in Hy. rewrite mem_app in Hy. apply orb_prop in Hy. destruct Hy as [Hy|Hy].
      - rewrite M1 in Hy. apply Hb1. exact Hy.
      - apply mem_singles in Hy. apply (dom_bounds y (InT y Hy)). }
    rewrite (canonicalize_bounded cat_in simple_fold to_lower agree c2 W2 Hb2).
    eexists. split; [reflexivity|]. unfold set_ranges; cbn [neg cats sub anything ascii ranges c2].
    repeat (split; [reflexivity|]).
    split; [apply merged_canonical; exact W2|]. split; [apply merged_wf; exact W2|].
    intros z Hz. rewrite merged_mem by exact W2. cbn [ranges c2]. rewrite mem_app.
    rewrite (orbit_agree cat_in simple_fold to_lower agree z Hz).
    apply eq_true_iff_eq. rewrite orb_true_iff, existsb_exists. split.
    - (* member of the result -> some orbit member of z is an original member *)
      intros H.
      assert (Hy : exists y, mem R1 y = true /\ In z (orb y)).
      { destruct H as [H|H]; [exists z; split; [exact H|apply orb_refl]|].
        apply mem_singles in H. apply HTs in H. destruct H as (y & Hy & Hzy). exists y. split; [exact Hy|].
        rewrite orb_unfold. right. exact Hzy. }
      destruct Hy as (y & Hy & Hzy). rewrite M1 in Hy.
      destruct (lowered_sound R Hw Hg y Hy) as (x & Hx & Hyx).
      destruct (proj1 (good_dom_In x) (Hg x Hx)) as [Hxd _].
      destruct (rel_facts x Hxd) as (F & _). destruct (F y Hyx) as (_ & _ & Ftr).
      pose proof (Ftr z Hzy) as Hzx.
      exists x. split; [|exact Hx]. apply (F z Hzx).
    - intros (x & Hxz & Hx).
      destruct (rel_facts z Hz) as (Fz & _). destruct (Fz x Hxz) as (Hxd & Hzx & _).
      destruct (lowered_covers R Hg x Hx) as (y & Hy & Hxy).
      pose proof (lowered_in_dom R Hw Hg y Hy) as Hyd.
      destruct (rel_facts y Hyd) as (Fy & _). destruct (Fy x Hxy) as (_ & _ & Ftr).
      pose proof (Ftr z Hzx) as Hzy.
      rewrite <- M1 in Hy.
      rewrite orb_unfold in Hzy. destruct Hzy as [<-|Hzy]; [left; exact Hy|].
      right. apply mem_singles. apply HTs. exists y. split; [exact Hy|]. rewrite orb_unfold. exact Hzy.
  Qed.

  Theorem ci_closure c :
    anything c = false -> sub c = None -> wf_ranges (ranges c) ->
    (forall x, mem (ranges c) x = true -> In x good_dom) ->
    exists c',
      add_case_equivalences cat_in simple_fold orbit_fuel (add_lowercase cat_in to_lower c) = Ok c' /\
      neg c' = neg c /\ cats c' = cats c /\ sub c' = None /\ anything c' = false /\ ascii c' = ascii c /\
      canonical_ranges (ranges c') /\ wf_ranges (ranges c') /\
      forall z, In z dom_t ->
        mem (ranges c') z = existsb (fun x => mem (ranges c) x) (orbit simple_fold orbit_fuel z).
  Proof.
    intros Ha Hs Hw Hg. apply ci_closure_sub; auto. rewrite Hs. reflexivity.
  Qed.

End Closure.
