(* Proofs about Model/Escape.v : Unescape (Escape s) = s for every string of valid scalars. *)
From Verif Require Import Base.Prelude Gen.EscapeGen Model.Escape.
From Coq Require Import ZifyBool.
Ltac Zify.zify_post_hook ::= Z.div_mod_to_equations.

Lemma hex_digit_hex_char d : 0 <= d < 16 -> hex_digit (hex_char d) = d.
Proof.
  intros H. unfold hex_digit, hex_char.
  destruct (d <? 10) eqn:E.
  - replace ((48 <=? 48 + d) && (48 + d <=? 57)) with true by lia. lia.
  - replace ((48 <=? 97 + (d - 10)) && (97 + (d - 10) <=? 57)) with false by lia.
    replace ((97 <=? 97 + (d - 10)) && (97 + (d - 10) <=? 102)) with true by lia. lia.
Qed.

Lemma hex_char_range d : 0 <= d < 16 ->
  (48 <= hex_char d <= 57) \/ (97 <= hex_char d <= 102).
Proof. intros H. unfold hex_char. destruct (d <? 10) eqn:E; lia. Qed.

Lemma to_hex_aux_acc fuel : forall n acc, to_hex_aux fuel n acc = to_hex_aux fuel n [] ++ acc.
Proof.
  induction fuel as [|f IH]; intros n acc; cbn [to_hex_aux]; [reflexivity|].
  destruct (n <? 16); [reflexivity|].
  rewrite IH. rewrite (IH (n / 16) [hex_char (n mod 16)]). rewrite <- app_assoc. reflexivity.
Qed.

Lemma to_hex_aux_step f n :
  to_hex_aux (S f) n [] =
  if n <? 16 then [hex_char n] else to_hex_aux f (n / 16) [] ++ [hex_char (n mod 16)].
Proof. cbn [to_hex_aux]. destruct (n <? 16); [reflexivity|]. apply to_hex_aux_acc. Qed.

(* the braced-hex scanner reads back what to_hex printed *)
Lemma scan_brace_to_hex f : forall n tail has,
  0 <= n <= 1114111 -> n < 16 ^ Z.of_nat (S f) ->
  scan_hex_brace 0 has (to_hex_aux (S f) n [] ++ tail) = scan_hex_brace n true tail.
Proof.
  induction f as [|f IH]; intros n tail has Hn Hlt; rewrite to_hex_aux_step;
    destruct (n <? 16) eqn:E.
  1,3: cbn [app scan_hex_brace];
      pose proof (hex_char_range n ltac:(lia)) as Hr;
      replace (hex_char n =? 125) with false by lia;
      rewrite hex_digit_hex_char by lia;
      replace (n <? 0) with false by lia;
      replace (0 * 16 + n) with n by lia;
      replace (1114111 <? n) with false by lia; reflexivity.
  - exfalso. change (16 ^ Z.of_nat 1) with 16 in Hlt. lia.
  - rewrite <- app_assoc. cbn [app].
    assert (Hf : n / 16 < 16 ^ Z.of_nat (S f)).
    { rewrite (Nat2Z.inj_succ (S f)), Z.pow_succ_r in Hlt by lia.
      apply Z.div_lt_upper_bound; lia. }
    rewrite IH by lia.
    cbn [scan_hex_brace].
    pose proof (hex_char_range (n mod 16) ltac:(lia)) as Hr.
    replace (hex_char (n mod 16) =? 125) with false by lia.
    rewrite hex_digit_hex_char by lia.
    replace (n mod 16 <? 0) with false by lia.
    replace (n / 16 * 16 + n mod 16) with n by lia.
    replace (1114111 <? n) with false by lia. reflexivity.
Qed.

Section Proofs.
Variable is_print : Z -> bool.
Variable is_word_char : Z -> bool.
(* the only fact about the oracles that is needed: the metacharacters are not word characters *)
Hypothesis meta_not_word : forall c, In c meta -> is_word_char c = false.

Definition is_raw (r : Z) : bool := is_print r && negb (zmem r meta).

(* None of the metacharacters collides with an escape letter or an octal digit.  This is a
   proof obligation on the *generated* [meta]: adding e.g. 'n' to it breaks the property. *)
Definition meta_char_ok (c : Z) : bool :=
  negb ((48 <=? c) && (c <=? 55)) &&
  negb (zmem c [120; 117; 97; 98; 101; 102; 110; 114; 116; 118; 99]).

Lemma meta_ok : forallb meta_char_ok meta = true.
Proof. vm_compute. reflexivity. Qed.

Lemma backslash_in_meta : zmem 92 meta = true.
Proof. vm_compute. reflexivity. Qed.

Lemma zmem_In x l : zmem x l = true -> In x l.
Proof.
  unfold zmem. rewrite existsb_exists. intros [y [Hy Heq]].
  apply Z.eqb_eq in Heq. subst. exact Hy.
Qed.

Lemma scan_meta r rest : zmem r meta = true ->
  scan_char_escape is_word_char (r :: rest) = Ok (r, rest).
Proof.
  intros Hm. pose proof (zmem_In _ _ Hm) as Hin.
  pose proof meta_ok as Hok. rewrite forallb_forall in Hok. specialize (Hok r Hin).
  unfold meta_char_ok in Hok. apply andb_prop in Hok. destruct Hok as [H1 H2].
  unfold scan_char_escape.
  apply negb_true_iff in H1. rewrite H1.
  apply negb_true_iff in H2. cbn [zmem existsb] in H2.
  repeat (apply orb_false_elim in H2; let Ha := fresh "Ha" in destruct H2 as [Ha H2]).
  rewrite Ha, Ha0, Ha1, Ha2, Ha3, Ha4, Ha5, Ha6, Ha7, Ha8, Ha9.
  rewrite (meta_not_word r Hin). reflexivity.
Qed.

Definition valid_rune (r : Z) : Prop := 0 <= r <= 1114111.

Lemma to_hex_1 r : 0 <= r < 16 -> to_hex r = [hex_char r].
Proof. intros H. unfold to_hex. rewrite to_hex_aux_step. replace (r <? 16) with true by lia. reflexivity. Qed.

Lemma to_hex_2 r : 16 <= r < 256 -> to_hex r = [hex_char (r / 16); hex_char (r mod 16)].
Proof.
  intros H. unfold to_hex. rewrite to_hex_aux_step. replace (r <? 16) with false by lia.
  rewrite to_hex_aux_step. replace (r / 16 <? 16) with true by lia. reflexivity.
Qed.

Lemma to_hex_3 r : 256 <= r < 4096 ->
  to_hex r = [hex_char (r / 256); hex_char (r / 16 mod 16); hex_char (r mod 16)].
Proof.
  intros H. unfold to_hex. rewrite to_hex_aux_step. replace (r <? 16) with false by lia.
  rewrite to_hex_aux_step. replace (r / 16 <? 16) with false by lia.
  rewrite to_hex_aux_step. replace (r / 16 / 16 <? 16) with true by lia.
  replace (r / 16 / 16) with (r / 256) by lia. reflexivity.
Qed.

Lemma to_hex_4 r : 4096 <= r < 65536 ->
  to_hex r = [hex_char (r / 4096); hex_char (r / 256 mod 16); hex_char (r / 16 mod 16); hex_char (r mod 16)].
Proof.
  intros H. unfold to_hex. rewrite to_hex_aux_step. replace (r <? 16) with false by lia.
  rewrite to_hex_aux_step. replace (r / 16 <? 16) with false by lia.
  rewrite to_hex_aux_step. replace (r / 16 / 16 <? 16) with false by lia.
  rewrite to_hex_aux_step. replace (r / 16 / 16 / 16 <? 16) with true by lia.
  replace (r / 16 / 16 / 16) with (r / 4096) by lia.
  replace (r / 16 / 16 mod 16) with (r / 256 mod 16) by lia. reflexivity.
Qed.

Lemma scan_hex_digits2 d1 d0 rest : 0 <= d1 < 16 -> 0 <= d0 < 16 ->
  scan_char_escape is_word_char (120 :: hex_char d1 :: hex_char d0 :: rest) = Ok (d1 * 16 + d0, rest).
Proof.
  intros H1 H0. unfold scan_char_escape. cbn -[hex_char hex_digit Z.mul Z.add].
  pose proof (hex_char_range d1 H1) as Hr.
  replace (hex_char d1 =? 123) with false by lia.
  unfold scan_hex. cbn [length Nat.leb scan_hex_loop].
  rewrite !hex_digit_hex_char by lia.
  replace (d1 <? 0) with false by lia. replace (d0 <? 0) with false by lia.
  first [reflexivity | f_equal; f_equal; lia | f_equal; lia].
Qed.

Lemma scan_hex_digits4 d3 d2 d1 d0 rest :
  0 <= d3 < 16 -> 0 <= d2 < 16 -> 0 <= d1 < 16 -> 0 <= d0 < 16 ->
  scan_char_escape is_word_char (117 :: hex_char d3 :: hex_char d2 :: hex_char d1 :: hex_char d0 :: rest)
  = Ok (((d3 * 16 + d2) * 16 + d1) * 16 + d0, rest).
Proof.
  intros H3 H2 H1 H0. unfold scan_char_escape. cbn -[hex_char hex_digit Z.mul Z.add].
  unfold scan_hex. cbn [length Nat.leb scan_hex_loop].
  rewrite !hex_digit_hex_char by lia.
  replace (d3 <? 0) with false by lia. replace (d2 <? 0) with false by lia.
  replace (d1 <? 0) with false by lia. replace (d0 <? 0) with false by lia.
  first [reflexivity | f_equal; f_equal; lia | f_equal; lia].
Qed.

(* every rune that Escape rewrites becomes a backslash followed by a body that the
   character-escape scanner maps back to the rune *)
Lemma escape_rune_inv r : valid_rune r ->
  (escape_rune is_print r = [r] /\ r <> 92) \/
  (exists body, escape_rune is_print r = 92 :: body /\ body <> [] /\
                forall rest, scan_char_escape is_word_char (body ++ rest) = Ok (r, rest)).
Proof.
  intros Hv. unfold valid_rune in Hv. unfold escape_rune.
  destruct (is_print r) eqn:Ep.
  - destruct (zmem r meta) eqn:Em.
    + right. exists [r]. split; [reflexivity|]. split; [discriminate|].
      intros rest. cbn [app]. apply scan_meta. exact Em.
    + left. split; [reflexivity|]. intros ->. rewrite backslash_in_meta in Em. discriminate.
  - destruct (65535 <? r) eqn:Ebmp.
    { left. replace (r =? 7) with false by lia. replace (r =? 12) with false by lia.
      replace (r =? 10) with false by lia. replace (r =? 13) with false by lia.
      replace (r =? 9) with false by lia. replace (r =? 11) with false by lia.
      replace (r <? 256) with false by lia. split; [reflexivity | lia]. }
    right.
    destruct (r =? 7) eqn:E7. { assert (r = 7) by lia; subst. exists [97]. repeat split; try discriminate. }
    destruct (r =? 12) eqn:E12. { assert (r = 12) by lia; subst. exists [102]. repeat split; try discriminate. }
    destruct (r =? 10) eqn:E10. { assert (r = 10) by lia; subst. exists [110]. repeat split; try discriminate. }
    destruct (r =? 13) eqn:E13. { assert (r = 13) by lia; subst. exists [114]. repeat split; try discriminate. }
    destruct (r =? 9) eqn:E9. { assert (r = 9) by lia; subst. exists [116]. repeat split; try discriminate. }
    destruct (r =? 11) eqn:E11. { assert (r = 11) by lia; subst. exists [118]. repeat split; try discriminate. }
    destruct (r <? 256) eqn:E256.
    + destruct (r <? 16) eqn:E16.
      * rewrite to_hex_1 by lia.
        exists [120; 48; hex_char r]. split; [reflexivity|]. split; [discriminate|].
        intros rest. cbn [app]. change 48 with (hex_char 0).
        rewrite scan_hex_digits2 by lia. first [reflexivity | f_equal; f_equal; lia | f_equal; lia].
      * rewrite to_hex_2 by lia.
        exists [120; hex_char (r / 16); hex_char (r mod 16)]. split; [reflexivity|]. split; [discriminate|].
        intros rest. cbn [app]. rewrite scan_hex_digits2 by lia. first [reflexivity | f_equal; f_equal; lia | f_equal; lia].
    + destruct (r <? 4096) eqn:E4096.
      * rewrite to_hex_3 by lia. cbn [length Nat.sub repeat app].
        exists [117; 48; hex_char (r / 256); hex_char (r / 16 mod 16); hex_char (r mod 16)].
        split; [reflexivity|]. split; [discriminate|].
        intros rest. cbn [app]. change 48 with (hex_char 0).
        rewrite scan_hex_digits4 by lia. first [reflexivity | f_equal; f_equal; lia | f_equal; lia].
      * rewrite to_hex_4 by lia. cbn [length Nat.sub repeat app].
        exists [117; hex_char (r / 4096); hex_char (r / 256 mod 16); hex_char (r / 16 mod 16); hex_char (r mod 16)].
        split; [reflexivity|]. split; [discriminate|].
        intros rest. cbn [app].
        rewrite scan_hex_digits4 by lia. first [reflexivity | f_equal; f_equal; lia | f_equal; lia].
Qed.

Definition no_surrogate (r : Z) : Prop := ~ (55296 <= r <= 57343).

Lemma write_rune_valid r : valid_rune r -> no_surrogate r -> write_rune r = r.
Proof.
  unfold valid_rune, no_surrogate, write_rune. intros H1 H2.
  replace ((r <? 0) || (1114111 <? r) || ((55296 <=? r) && (r <=? 57343))) with false by lia.
  reflexivity.
Qed.

(* main induction: what Unescape sees after splitting at the first backslash *)
Lemma unescape_escape_split s :
  Forall (fun r => valid_rune r /\ no_surrogate r) s ->
  forall fuel, (length (escape is_print s) < fuel)%nat ->
  match split_backslash (escape is_print s) with
  | (pre, None) => pre = s
  | (pre, Some p) => exists rest, unescape_loop is_word_char fuel p = Ok rest /\ pre ++ rest = s
  end.
Proof.
  induction s as [|r s IH]; intros Hall fuel Hfuel.
  - reflexivity.
  - inversion Hall as [|x l [Hv Hs] Hall']; subst.
    unfold escape in *. cbn [flat_map] in *.
    destruct (escape_rune_inv r Hv) as [[Hraw Hne] | [body [Hesc [Hnonempty Hscan]]]].
    + rewrite Hraw in *. cbn [app split_backslash length] in *.
      replace (r =? 92) with false by lia.
      specialize (IH Hall' fuel ltac:(lia)).
      destruct (split_backslash (flat_map (escape_rune is_print) s)) as [pre [p|]].
      * destruct IH as [rest [Hrun Heq]]. exists rest. split; [exact Hrun|]. cbn [app]. f_equal. exact Heq.
      * f_equal. exact IH.
    + rewrite Hesc in *. cbn [app split_backslash length] in *.
      exists (r :: s). split; [|reflexivity].
      destruct fuel as [|f]; [lia|]. cbn [unescape_loop].
      assert (Hlen : (length (flat_map (escape_rune is_print) s) < f)%nat).
      { pose proof (app_length body (flat_map (escape_rune is_print) s)) as Hal.
        destruct body; [congruence|]. cbn [length] in *. lia. }
      destruct (body ++ flat_map (escape_rune is_print) s) eqn:Ebody.
      { destruct body; [congruence | discriminate]. }
      rewrite <- Ebody. rewrite Hscan. cbn [bind].
      specialize (IH Hall' f Hlen).
      destruct (split_backslash (flat_map (escape_rune is_print) s)) as [pre [p|]].
      * destruct IH as [rest [Hrun Heq]]. rewrite Hrun. cbn [bind].
        rewrite write_rune_valid by assumption. rewrite Heq. reflexivity.
      * rewrite write_rune_valid by assumption. rewrite IH. reflexivity.
Qed.

Theorem unescape_escape s :
  Forall (fun r => valid_rune r /\ no_surrogate r) s ->
  unescape is_word_char (escape is_print s) = Ok s.
Proof.
  intros Hall. unfold unescape.
  pose proof (unescape_escape_split s Hall (S (length (escape is_print s))) ltac:(lia)) as H.
  destruct (split_backslash (escape is_print s)) as [pre [p|]] eqn:Es.
  - destruct H as [rest [Hrun Heq]]. rewrite Hrun. cbn [bind]. rewrite Heq. reflexivity.
  - (* no backslash at all: Escape changed nothing *)
    subst pre. f_equal.
    clear Hall. revert Es. generalize (escape is_print s) as e. intros e.
    revert s. induction e as [|c e IH]; intros s Es; cbn [split_backslash] in Es.
    + inversion Es. reflexivity.
    + destruct (c =? 92); [discriminate|].
      destruct (split_backslash e) as [a b] eqn:Ee. inversion Es; subst. f_equal. apply (IH a). reflexivity.
Qed.

End Proofs.
