(* [caps_rel2 / leadsg2 / ok_node2] version of Proofs/CompileMulti.v for compile_correct2 (balancing captures,
   see Proofs/CompileBal.v): the same lemmas and proofs over the marker-aware capture relation of
   Proofs/CompileBalDen.v.  Lemma names: cc_X -> c2_X. *)
(* compile_correct, stage 3b: literal strings NMulti.  The program's string table must contain the
   table the writer built ([tbl_ok], part of the per-node obligation). *)
From Verif Require Import Base.Prelude Model.Tree Model.Spec Model.VM Model.Writer Gen.RunnerGen
  Proofs.SpecProofs Proofs.SpecBoundsProofs Proofs.MaskProofs
  Proofs.VMU Proofs.VMUOps Proofs.VMUOps2 Proofs.VMUOps6 Proofs.VMUOps5 Proofs.CompileBase Proofs.CompileDefs Proofs.CompileBalDen Proofs.CompileBalBase Proofs.CompileBalDefs.
From Coq Require Import Relations ZifyBool.

Section CC.
Variable e : env.
Variable p : program.
Hypothesis tc_nonneg : 0 <= trackcount p.

Notation rsteps := (VMUOps2.rsteps e p).
Notation leadsg2 := (CompileBalBase.leadsg2 e p).
Notation has_code := (CompileBase.has_code p).
Notation track_ok := (CompileBase.track_ok p).
Notation caps_rel2 := (CompileBalDen.caps_rel2 p).
Notation code_ex := (CompileDefs.code_ex p).
Notation tbl_ok := (CompileDefs.tbl_ok p).
Notation ok_node2 := (CompileBalDefs.ok_node2 e p).

Lemma c2_multi f o str : ok_node2 (S f) (NMulti o str).
Proof.
  intros s res Hsem Hst a tbl T S C M Hc Hex Hk Hr Htb.
  cbn [sem] in Hsem. injection Hsem as <-.
  cbn [emit csize] in Hc, Hex, Htb |- *.
  destruct (string_code str tbl) as [i tbl'] eqn:Es. cbn [fst snd] in Hc, Htb.
  apply string_code_spec in Es. apply Htb in Es.
  apply has_code_cons in Hc. destruct Hc as [H0 Hc]. apply has_code_cons in Hc. destruct Hc as [H1 _].
  destruct Hex as [w2 H2]. destruct Hst as [Hp _].
  assert (Hres : sem_multi e o str s =
                 if multi_cond e o str (pos s) then [with_pos s (pos s + dir o * zlen str)] else []).
  { unfold sem_multi, multi_cond. cbv zeta. destruct (avail e o (pos s) <? zlen str); reflexivity. }
  rewrite Hres. destruct (multi_cond e o str (pos s)) eqn:Ec.
  - apply leadsg2_leaf; [exact Hk|exact Hr|]. cbn [pos with_pos].
    eapply rs_multi_ok; try exact tc_nonneg; eassumption.
  - destruct Hk as (np & T' & -> & w3 & H3).
    eapply leadsg2_fail; [reflexivity|].
    eapply rs_multi_fail; try exact tc_nonneg; eassumption.
Qed.

End CC.
