(* Proofs about Model/Iter.v: C07 (ordering, bound, fresh search, find-all as filtered iteration)
   and C06 (adapter iteration = Go's allMatches around any single-match function). *)
From Verif Require Import Base.Prelude Model.Iter.
From Coq Require Import ZifyBool.

Ltac inv H := inversion H; subst; clear H.

(* n<0: everything; otherwise the first n *)
Definition takeZ {A} (n : Z) (l : list A) : list A :=
  if n <? 0 then l else firstn (Z.to_nat n) l.

Lemma takeZ_nil {A} n : @takeZ A n [] = [].
Proof. unfold takeZ. destruct (n <? 0); [reflexivity | apply firstn_nil]. Qed.

Lemma takeZ_0 {A} (l : list A) : takeZ 0 l = [].
Proof. reflexivity. Qed.

Lemma takeZ_cons {A} n (x : A) l : n <> 0 ->
  takeZ n (x :: l) = x :: takeZ (if n >? 0 then n - 1 else n) l.
Proof.
  intros Hn. unfold takeZ.
  destruct (n <? 0) eqn:E.
  - assert (n >? 0 = false) as -> by lia. rewrite E. reflexivity.
  - assert (n >? 0 = true) as -> by lia. assert (n - 1 <? 0 = false) as -> by lia.
    replace (Z.to_nat n) with (S (Z.to_nat (n - 1))) by lia. reflexivity.
Qed.

Lemma takeZ_all {A} n (l : list A) : Z.of_nat (length l) <= n -> takeZ n l = l.
Proof.
  intros H. unfold takeZ. destruct (n <? 0); [reflexivity |].
  apply firstn_all2. lia.
Qed.

Lemma takeZ_length {A} n (l : list A) : (length (takeZ n l) <= length l)%nat.
Proof. unfold takeZ. destruct (n <? 0); [lia | rewrite firstn_length; lia]. Qed.

Section IterProofs.
  Variable rtl : bool.
  Variable len : Z.
  Variable attempt : Z -> Z -> option mt.
  Hypothesis Hlen : 0 <= len.

  Notation stoppos := (stoppos rtl len).
  Notation bump := (bump rtl).
  Notation scan_loop := (scan_loop rtl len attempt).
  Notation scan := (scan rtl len attempt).
  Notation run := (re_run rtl len attempt).
  Notation find_next_match := (find_next_match rtl len attempt).
  Notation find_runes_match_starting_at := (find_runes_match_starting_at rtl len attempt).
  Notation search_from := (search_from rtl len attempt).
  Notation iterate_from := (iterate_from rtl len attempt).
  Notation iteration := (iteration rtl len attempt).
  Notation dflt := (dflt_fuel len).

  (* the edge of a match at which its attempt began: RuneIndex left-to-right, the END right-to-left *)
  Definition m_start (m : mt) : Z := if rtl then m_index m + m_length m else m_index m.

  (* shape of a match produced by an attempt at position p *)
  Definition shaped (p : Z) (m : mt) : Prop :=
    0 <= m_length m /\ 0 <= m_textpos m <= len /\
    if rtl then m_index m + m_length m = p /\ m_textpos m = m_index m
    else m_index m = p /\ m_textpos m = m_index m + m_length m.

  (* the hypothesis on the matcher: an attempt at an in-range position returns a match that
     begins there and extends in scan direction, inside the text *)
  Definition forward : Prop :=
    forall ts p m, 0 <= p <= len -> attempt ts p = Some m -> shaped p m.

  Definition wfm (m : mt) : Prop := 0 <= m_start m <= len /\ shaped (m_start m) m.

  Hypothesis Hfw : forward.

  Lemma shaped_wfm p m : 0 <= p <= len -> shaped p m -> wfm m.
  Proof.
    unfold wfm, shaped, m_start. intros Hp (Hl & Ht & Hd). destruct rtl.
    - destruct Hd as [H1 H2]. rewrite H1. repeat split; lia.
    - destruct Hd as [H1 H2]. rewrite H1. repeat split; lia.
  Qed.

  Lemma shaped_start p m : shaped p m -> m_start m = p.
  Proof. unfold shaped, m_start. destruct rtl; intuition lia. Qed.

  (* distance from pos to stoppos, in scan steps *)
  Definition dist (pos : Z) : nat := Z.to_nat (if rtl then pos else len - pos).

  (* pure form of the scan loop: first successful attempt among pos, pos+bump, ... (k+1 positions) *)
  Fixpoint first_hit (k : nat) (ts pos : Z) : option mt :=
    match attempt ts pos with
    | Some m => Some m
    | None => match k with O => None | S k' => first_hit k' ts (pos + bump) end
    end.

  Lemma scan_loop_ok : forall fuel ts pos, 0 <= pos <= len -> (dist pos < fuel)%nat ->
    scan_loop fuel ts pos = Ok (first_hit (dist pos) ts pos).
  Proof.
    induction fuel as [|f IH]; intros ts pos Hp Hf; [lia|].
    cbn [Iter.scan_loop].
    destruct (dist pos) as [|k] eqn:Ed.
    - cbn [first_hit]. destruct (attempt ts pos); [reflexivity|].
      assert (pos =? stoppos = true) as ->; [|reflexivity].
      unfold dist, Iter.stoppos in *. destruct rtl; lia.
    - cbn [first_hit]. destruct (attempt ts pos); [reflexivity|].
      assert (pos =? stoppos = false) as ->.
      { unfold dist, Iter.stoppos in *. destruct rtl; lia. }
      assert (dist (pos + bump) = k) as Hk.
      { unfold dist, Iter.bump in *. destruct rtl; lia. }
      rewrite IH.
      + rewrite Hk. reflexivity.
      + unfold dist, Iter.bump in *. destruct rtl; lia.
      + lia.
  Qed.

  Lemma first_hit_some : forall k ts pos m, first_hit k ts pos = Some m ->
    exists j, (j <= k)%nat /\ attempt ts (pos + bump * Z.of_nat j) = Some m /\
              forall i, (i < j)%nat -> attempt ts (pos + bump * Z.of_nat i) = None.
  Proof.
    induction k as [|k IH]; intros ts pos m H; cbn [first_hit] in H.
    - destruct (attempt ts pos) eqn:E; [|discriminate]. inv H.
      exists O. replace (pos + bump * Z.of_nat 0) with pos by lia. repeat split; [lia | assumption | intros; lia].
    - destruct (attempt ts pos) eqn:E.
      + inv H. exists O. replace (pos + bump * Z.of_nat 0) with pos by lia. repeat split; [lia | assumption | intros; lia].
      + apply IH in H. destruct H as (j & Hj & Ha & Hn). exists (S j). repeat split.
        * lia.
        * replace (pos + bump * Z.of_nat (S j)) with (pos + bump + bump * Z.of_nat j) by lia. exact Ha.
        * intros i Hi. destruct i as [|i].
          -- replace (pos + bump * Z.of_nat 0) with pos by lia. exact E.
          -- replace (pos + bump * Z.of_nat (S i)) with (pos + bump + bump * Z.of_nat i) by lia. apply Hn. lia.
  Qed.

  Lemma first_hit_none : forall k ts pos, first_hit k ts pos = None ->
    forall i, (i <= k)%nat -> attempt ts (pos + bump * Z.of_nat i) = None.
  Proof.
    induction k as [|k IH]; intros ts pos H i Hi; cbn [first_hit] in H.
    - destruct (attempt ts pos) eqn:E; [discriminate|]. assert (i = O) by lia. subst.
      replace (pos + bump * Z.of_nat 0) with pos by lia. exact E.
    - destruct (attempt ts pos) eqn:E; [discriminate|]. destruct i as [|i].
      + replace (pos + bump * Z.of_nat 0) with pos by lia. exact E.
      + replace (pos + bump * Z.of_nat (S i)) with (pos + bump + bump * Z.of_nat i) by lia. apply IH; [exact H | lia].
  Qed.

  (* a hit of the scan from pos is a well-formed match whose start edge lies at or beyond pos *)
  Lemma first_hit_wf : forall ts pos m, 0 <= pos <= len -> first_hit (dist pos) ts pos = Some m ->
    wfm m /\ 0 <= bump * (m_start m - pos).
  Proof.
    intros ts pos m Hp H. apply first_hit_some in H. destruct H as (j & Hj & Ha & _).
    assert (0 <= pos + bump * Z.of_nat j <= len) as Hr.
    { unfold dist, Iter.bump in *. destruct rtl; lia. }
    pose proof (Hfw _ _ _ Hr Ha) as Hs. split.
    - eapply shaped_wfm; eauto.
    - rewrite (shaped_start _ _ Hs). unfold Iter.bump. destruct rtl; lia.
  Qed.

  (* pure form of scan / FindNextMatch *)
  Definition scan_p (ts prevlen : Z) : option mt :=
    if prevlen =? 0 then
      if ts =? stoppos then None else first_hit (dist (ts + bump)) ts (ts + bump)
    else first_hit (dist ts) ts ts.
  Definition next_p (m : mt) : option mt := scan_p (m_textpos m) (m_length m).

  Lemma dflt_gt pos : 0 <= pos <= len -> (dist pos < dflt)%nat.
  Proof. unfold dist, dflt_fuel. destruct rtl; lia. Qed.

  Lemma scan_ok ts prevlen : 0 <= ts <= len -> scan dflt ts prevlen = Ok (scan_p ts prevlen).
  Proof.
    intros Ht. unfold Iter.scan, scan_p. destruct (prevlen =? 0).
    - destruct (ts =? stoppos) eqn:E; [reflexivity|].
      assert (0 <= ts + bump <= len) as Hr. { unfold Iter.stoppos, Iter.bump in *. destruct rtl; lia. }
      apply scan_loop_ok; [exact Hr | apply dflt_gt; exact Hr].
    - apply scan_loop_ok; [exact Ht | apply dflt_gt; exact Ht].
  Qed.

  Lemma run_ok ts prevlen : 0 <= ts <= len -> run dflt ts prevlen = Ok (scan_p ts prevlen).
  Proof. intros Ht. unfold Iter.re_run. assert (ts <? 0 = false) as -> by lia. apply scan_ok; exact Ht. Qed.

  Lemma wfm_textpos m : wfm m -> 0 <= m_textpos m <= len.
  Proof. unfold wfm, shaped. intuition. Qed.

  Lemma find_next_ok m : wfm m -> find_next_match dflt m = Ok (next_p m).
  Proof. intros H. apply run_ok. apply wfm_textpos; exact H. Qed.

  Lemma scan_p_wf ts prevlen m' : 0 <= ts <= len -> scan_p ts prevlen = Some m' ->
    wfm m' /\ (if prevlen =? 0 then 1 else 0) <= bump * (m_start m' - ts).
  Proof.
    intros Ht. unfold scan_p. destruct (prevlen =? 0).
    - destruct (ts =? stoppos) eqn:E; [discriminate|]. intros H.
      assert (0 <= ts + bump <= len) as Hr. { unfold Iter.stoppos, Iter.bump in *. destruct rtl; lia. }
      apply first_hit_wf in H; [|exact Hr]. destruct H as [Hw Hd]. split; [exact Hw|].
      unfold Iter.bump in *. destruct rtl; lia.
    - intros H. apply first_hit_wf in H; [|exact Ht]. exact H.
  Qed.

  (* ---------------- C07: next_advances ---------------- *)

  (* textpos is the start edge moved by the length in scan direction *)
  Lemma wfm_edge m : wfm m -> m_textpos m = m_start m + bump * m_length m /\ 0 <= m_length m.
  Proof. unfold wfm, shaped, m_start, Iter.bump. destruct rtl; intuition lia. Qed.

  Lemma next_advances_gen m m' : wfm m -> next_p m = Some m' ->
    wfm m' /\
    0 <= bump * (m_start m' - m_textpos m) /\          (* begins at or beyond the previous advancing edge: no overlap *)
    0 < bump * (m_start m' - m_start m) /\             (* start edges strictly advance *)
    (m_length m = 0 -> 1 <= bump * (m_start m' - m_start m)).
  Proof.
    intros Hw Hn. unfold next_p in Hn.
    pose proof (wfm_textpos _ Hw) as Ht.
    apply scan_p_wf in Hn; [|exact Ht]. destruct Hn as [Hw' Hd].
    destruct (wfm_edge _ Hw) as [He Hl].
    split; [exact Hw'|].
    unfold Iter.bump in *. destruct rtl; destruct (m_length m =? 0) eqn:E; repeat split; intros; lia.
  Qed.

  (* remaining distance of the start edge to the far end: the termination measure *)
  Definition remaining (m : mt) : nat := dist (m_start m).

  Lemma next_remaining m m' : wfm m -> next_p m = Some m' -> (remaining m' < remaining m)%nat.
  Proof.
    intros Hw Hn. destruct (next_advances_gen _ _ Hw Hn) as (Hw' & _ & Hs & _).
    destruct Hw as [Hr _]. destruct Hw' as [Hr' _].
    unfold remaining, dist, Iter.bump in *. destruct rtl; lia.
  Qed.

  (* ---------------- the iteration as a chain ---------------- *)

  Inductive chain : option mt -> list mt -> Prop :=
  | chain_nil : chain None []
  | chain_cons m ms : wfm m -> chain (next_p m) ms -> chain (Some m) (m :: ms).

  Lemma iterate_chain : forall fuel cur,
    (match cur with None => True | Some m => wfm m /\ (remaining m < fuel)%nat end) ->
    exists ms, iterate_from fuel dflt cur = Ok ms /\ chain cur ms /\
               (length ms <= match cur with None => 0 | Some m => S (remaining m) end)%nat.
  Proof.
    induction fuel as [|f IH]; intros cur Hc.
    - destruct cur as [m|]; [lia|]. exists []. cbn. repeat split; [constructor | lia].
    - destruct cur as [m|].
      + destruct Hc as [Hw Hr]. cbn [Iter.iterate_from]. rewrite (find_next_ok _ Hw). cbn [bind].
        destruct (IH (next_p m)) as (ms & Hi & Hch & Hl).
        { destruct (next_p m) as [m'|] eqn:En; [|exact I].
          pose proof (next_advances_gen _ _ Hw En) as (Hw' & _).
          pose proof (next_remaining _ _ Hw En). split; [exact Hw' | lia]. }
        exists (m :: ms). rewrite Hi. cbn [bind]. repeat split.
        * constructor; assumption.
        * cbn [length]. destruct (next_p m) as [m'|] eqn:En.
          -- pose proof (next_remaining _ _ Hw En). lia.
          -- lia.
      + exists []. cbn. repeat split; [constructor | lia].
  Qed.

  Lemma remaining_le m : wfm m -> (remaining m <= Z.to_nat len)%nat.
  Proof. intros [Hr _]. unfold remaining, dist. destruct rtl; lia. Qed.

  (* iteration_bound: with fuel len+2 the iteration from any in-range start completes, and has
     at most len+1 elements *)
  Lemma iteration_ok startAt : 0 <= startAt <= len ->
    exists ms, iteration dflt dflt startAt = Ok ms /\ chain (scan_p startAt (-1)) ms /\
               (length ms <= S (Z.to_nat len))%nat.
  Proof.
    intros Hs. unfold Iter.iteration, Iter.find_runes_match_starting_at.
    rewrite (run_ok _ _ Hs). cbn [bind].
    destruct (iterate_chain dflt (scan_p startAt (-1))) as (ms & Hi & Hc & Hl).
    { destruct (scan_p startAt (-1)) as [m|] eqn:E; [|exact I].
      apply scan_p_wf in E; [|exact Hs]. destruct E as [Hw _]. split; [exact Hw|].
      pose proof (remaining_le _ Hw). unfold dflt_fuel. lia. }
    exists ms. repeat split; [exact Hi | exact Hc |].
    destruct (scan_p startAt (-1)) as [m|] eqn:E; [|lia].
    apply scan_p_wf in E; [|exact Hs]. destruct E as [Hw _]. pose proof (remaining_le _ Hw). lia.
  Qed.

  (* consecutive elements of a chain *)
  Inductive consecutive : list mt -> mt -> mt -> Prop :=
  | consec_here a b l : consecutive (a :: b :: l) a b
  | consec_later x l a b : consecutive l a b -> consecutive (x :: l) a b.

  Lemma chain_consecutive : forall ms cur a b, chain cur ms -> consecutive ms a b -> wfm a /\ next_p a = Some b.
  Proof.
    induction ms as [|x ms IH]; intros cur a b Hc Hq; [inv Hq|].
    inv Hc. inv Hq.
    - match goal with H : chain (next_p a) (b :: _) |- _ => inv H end. split; [assumption | congruence].
    - eapply IH; eauto.
  Qed.

  Lemma chain_wf : forall ms cur, chain cur ms -> Forall wfm ms.
  Proof. induction ms; intros cur H; inv H; constructor; eauto. Qed.

  (* ---------------- C07: next_is_fresh_search ---------------- *)

  Lemma next_is_fresh fuel m : 0 <= m_textpos m ->
    find_next_match fuel m =
      if m_length m =? 0 then
        if m_textpos m =? stoppos then Ok None
        else search_from fuel (m_textpos m) (m_textpos m + bump)
      else search_from fuel (m_textpos m) (m_textpos m).
  Proof.
    intros H. unfold Iter.find_next_match, Iter.re_run, Iter.scan, Iter.search_from.
    assert (m_textpos m <? 0 = false) as -> by lia. reflexivity.
  Qed.

  Definition no_G : Prop := forall ts ts' p, attempt ts p = attempt ts' p.

  Lemma scan_loop_noG : no_G -> forall fuel ts ts' pos, scan_loop fuel ts pos = scan_loop fuel ts' pos.
  Proof.
    intros HG. induction fuel as [|f IH]; intros ts ts' pos; [reflexivity|].
    cbn [Iter.scan_loop]. rewrite (HG ts ts' pos). destruct (attempt ts' pos); [reflexivity|].
    destruct (pos =? stoppos); [reflexivity | apply IH].
  Qed.

  Lemma search_from_noG : no_G -> forall fuel ts pos, 0 <= pos ->
    search_from fuel ts pos = find_runes_match_starting_at fuel pos.
  Proof.
    intros HG fuel ts pos Hp. unfold Iter.search_from, Iter.find_runes_match_starting_at, Iter.re_run, Iter.scan.
    assert (pos <? 0 = false) as -> by lia. cbn. apply scan_loop_noG; exact HG.
  Qed.

  (* ---------------- the find-all loops as functions of the iteration list ---------------- *)

  Definition accept (m : mt) (prevEnd : Z) : bool :=
    negb (m_length m =? 0) || negb (m_index m =? prevEnd).

  (* walk the iteration: accepted matches, at most n of them when n>0; [edge] = what prevEnd becomes *)
  Fixpoint acc_list (edge : mt -> Z) (ms : list mt) (prevEnd n : Z) : list mt :=
    if n =? 0 then [] else
    match ms with
    | [] => []
    | m :: ms' =>
      if accept m prevEnd then m :: acc_list edge ms' (edge m) (if n >? 0 then n - 1 else n)
      else acc_list edge ms' prevEnd n
    end.

  Lemma acc_list_0 edge ms pe : acc_list edge ms pe 0 = [].
  Proof. destruct ms; reflexivity. Qed.

  Notation find_all_loop := (find_all_loop rtl len attempt).

  Lemma find_all_loop_chain : forall ms fuel startAt prevlen pe n,
    0 <= startAt <= len ->
    chain (scan_p startAt prevlen) ms ->
    (length ms < fuel)%nat ->
    find_all_loop fuel dflt startAt prevlen pe n = Ok (acc_list m_textpos ms pe n).
  Proof.
    induction ms as [|m ms IH]; intros fuel startAt prevlen pe n Hs Hc Hf.
    - destruct fuel as [|f]; [cbn in Hf; lia|]. cbn [Iter.find_all_loop acc_list].
      destruct (n =? 0); [reflexivity|]. rewrite (scan_ok _ _ Hs). cbn [bind].
      remember (scan_p startAt prevlen) as cur eqn:Ec. inv Hc. reflexivity.
    - destruct fuel as [|f]; [cbn in Hf; lia|]. cbn [Iter.find_all_loop acc_list].
      destruct (n =? 0); [reflexivity|]. rewrite (scan_ok _ _ Hs). cbn [bind].
      remember (scan_p startAt prevlen) as cur eqn:Ec. inv Hc.
      match goal with Hw : wfm m |- _ => pose proof (wfm_textpos _ Hw) as Ht end.
      fold (accept m pe). destruct (accept m pe).
      + rewrite (IH f (m_textpos m) (m_length m)); [reflexivity | exact Ht | assumption | cbn in Hf; lia].
      + apply IH; [exact Ht | assumption | cbn in Hf; lia].
  Qed.

  (* adjacency of an empty match to its predecessor in the iteration: it sits on the predecessor's advancing edge *)
  Definition adj_empty (prev : option mt) (m : mt) : bool :=
    match prev with
    | None => false
    | Some p => (m_length m =? 0) && (m_index m =? m_textpos p)
    end.

  Fixpoint filter_adj (prev : option mt) (ms : list mt) : list mt :=
    match ms with
    | [] => []
    | m :: ms' => if adj_empty prev m then filter_adj (Some m) ms' else m :: filter_adj (Some m) ms'
    end.

  Lemma wfm_empty m : wfm m -> m_length m = 0 -> m_textpos m = m_index m.
  Proof. unfold wfm, shaped. destruct rtl; intuition lia. Qed.
  Lemma wfm_index m : wfm m -> 0 <= m_index m.
  Proof. unfold wfm, shaped, m_start. destruct rtl; intuition lia. Qed.

  Lemma acc_list_filter : forall ms prev pe n,
    Forall wfm ms ->
    (forall m, hd_error ms = Some m -> m_length m = 0 -> (m_index m =? pe) = adj_empty prev m) ->
    acc_list m_textpos ms pe n = takeZ n (filter_adj prev ms).
  Proof.
    induction ms as [|m ms IH]; intros prev pe n Hw Hinv.
    - cbn [acc_list filter_adj]. rewrite takeZ_nil. destruct (n =? 0); reflexivity.
    - inv Hw. cbn [acc_list filter_adj].
      destruct (n =? 0) eqn:En.
      { assert (n = 0) by lia. subst. rewrite takeZ_0. reflexivity. }
      assert (accept m pe = negb (adj_empty prev m)) as Hacc.
      { unfold accept. destruct (m_length m =? 0) eqn:El.
        - rewrite (Hinv m eq_refl) by lia. reflexivity.
        - cbn. unfold adj_empty. destruct prev; [rewrite El|]; reflexivity. }
      rewrite Hacc. destruct (adj_empty prev m) eqn:Ea; cbn [negb].
      + (* skipped: empty, so textpos = index = pe *)
        apply IH; [assumption|]. intros m2 Hh Hl2.
        assert (m_length m = 0 /\ m_index m = pe) as [Hl0 Hip].
        { unfold adj_empty in Ea. destruct prev; [|discriminate].
          assert (m_length m = 0) by lia. split; [assumption|].
          specialize (Hinv m eq_refl H). unfold adj_empty in Hinv. rewrite Ea in Hinv. cbn in Hinv. lia. }
        unfold adj_empty. rewrite (wfm_empty _ H1 Hl0). assert (m_length m2 =? 0 = true) as -> by lia. cbn. rewrite Hip. reflexivity.
      + rewrite takeZ_cons by lia. f_equal.
        apply IH; [assumption|]. intros m2 Hh Hl2. unfold adj_empty. assert (m_length m2 =? 0 = true) as -> by lia. reflexivity.
  Qed.

  Lemma acc_list_filter_top ms n : Forall wfm ms ->
    acc_list m_textpos ms (-1) n = takeZ n (filter_adj None ms).
  Proof.
    intros Hw. apply acc_list_filter; [exact Hw|].
    intros m Hh _. destruct ms as [|x ms]; inv Hh. inv Hw. cbn. pose proof (wfm_index _ H1). lia.
  Qed.

  (* find_all_is_filtered_iteration *)
  Lemma find_all_runes_index_ok n :
    exists ms, iteration dflt dflt (if rtl then len else 0) = Ok ms /\
      find_all_runes_index rtl len attempt dflt dflt n =
        Ok (if n =? 0 then None
            else slice_of_list (map (fun m => (m_index m, m_index m + m_length m)) (takeZ n (filter_adj None ms)))).
  Proof.
    assert (0 <= (if rtl then len else 0) <= len) as Hs by (destruct rtl; lia).
    destruct (iteration_ok _ Hs) as (ms & Hi & Hc & Hl).
    exists ms. split; [exact Hi|].
    unfold Iter.find_all_runes_index. destruct (n =? 0); [reflexivity|].
    unfold Iter.find_all_runes_index_from.
    rewrite (find_all_loop_chain ms); [| exact Hs | exact Hc | unfold dflt_fuel; lia ].
    cbn [bind]. rewrite acc_list_filter_top by (eapply chain_wf; eauto). reflexivity.
  Qed.

  (* the same for the makeIndex-parametrised loop used by FindAllStringIndex, from any start *)
  Lemma find_all_from_ok mk startAt n : 0 <= startAt <= len ->
    exists ms, iteration dflt dflt startAt = Ok ms /\
      find_all_runes_index_from rtl len attempt dflt dflt mk startAt n =
        Ok (slice_of_list (map (fun m => mk (m_index m) (m_length m)) (takeZ n (filter_adj None ms)))).
  Proof.
    intros Hs. destruct (iteration_ok _ Hs) as (ms & Hi & Hc & Hl).
    exists ms. split; [exact Hi|].
    unfold Iter.find_all_runes_index_from.
    rewrite (find_all_loop_chain ms); [| exact Hs | exact Hc | unfold dflt_fuel; lia ].
    cbn [bind]. rewrite acc_list_filter_top by (eapply chain_wf; eauto). reflexivity.
  Qed.

  (* every match of the iteration is the result of some in-range attempt *)
  Definition attempted (m : mt) : Prop := exists ts p, 0 <= p <= len /\ attempt ts p = Some m.

  Lemma first_hit_attempted ts pos m : 0 <= pos <= len -> first_hit (dist pos) ts pos = Some m -> attempted m.
  Proof.
    intros Hp H. apply first_hit_some in H. destruct H as (j & Hj & Ha & _).
    exists ts, (pos + bump * Z.of_nat j). split; [|exact Ha].
    unfold dist, Iter.bump in *. destruct rtl; lia.
  Qed.

  Lemma scan_p_attempted ts prevlen m : 0 <= ts <= len -> scan_p ts prevlen = Some m -> attempted m.
  Proof.
    intros Ht. unfold scan_p. destruct (prevlen =? 0).
    - destruct (ts =? stoppos) eqn:E; [discriminate|]. apply first_hit_attempted.
      unfold Iter.stoppos, Iter.bump in *. destruct rtl; lia.
    - apply first_hit_attempted. exact Ht.
  Qed.

  Lemma chain_attempted : forall ms cur, chain cur ms ->
    (forall m, cur = Some m -> attempted m) -> Forall attempted ms.
  Proof.
    induction ms as [|x ms IH]; intros cur Hc Hcur; [constructor|].
    inv Hc. constructor; [apply Hcur; reflexivity|].
    eapply IH; [eassumption|]. intros m' Hm'. eapply scan_p_attempted; [|exact Hm'].
    apply wfm_textpos. assumption.
  Qed.

  Lemma first_hit_noG : no_G -> forall k ts ts' pos, first_hit k ts pos = first_hit k ts' pos.
  Proof.
    intros HG. induction k as [|k IH]; intros ts ts' pos; cbn [first_hit]; rewrite (HG ts ts' pos).
    - reflexivity.
    - destruct (attempt ts' pos); [reflexivity | apply IH].
  Qed.

  Lemma acc_list_big edge : forall ms pe n, Z.of_nat (length ms) <= n ->
    acc_list edge ms pe n = acc_list edge ms pe (-1).
  Proof.
    induction ms as [|m ms IH]; intros pe n Hn.
    - cbn [acc_list]. destruct (n =? 0); reflexivity.
    - cbn [length] in Hn. cbn [acc_list].
      assert (n =? 0 = false) as -> by lia. assert (-1 =? 0 = false) as -> by lia.
      assert (n >? 0 = true) as -> by lia. assert (-1 >? 0 = false) as -> by lia.
      destruct (accept m pe).
      + f_equal. apply IH. lia.
      + apply IH. lia.
  Qed.

  Lemma acc_list_ext e1 e2 : forall ms pe n, Forall (fun m => e1 m = e2 m) ms ->
    acc_list e1 ms pe n = acc_list e2 ms pe n.
  Proof.
    induction ms as [|m ms IH]; intros pe n H; [reflexivity|]. inv H.
    cbn [acc_list]. destruct (n =? 0); [reflexivity|]. destruct (accept m pe).
    - f_equal. rewrite H2. apply IH; assumption.
    - apply IH; assumption.
  Qed.

  Lemma acc_list_length edge : forall ms pe n, (length (acc_list edge ms pe n) <= length ms)%nat.
  Proof.
    induction ms as [|m ms IH]; intros pe n; cbn [acc_list].
    - destruct (n =? 0); cbn; lia.
    - destruct (n =? 0); [cbn; lia|]. destruct (accept m pe); cbn [length].
      + specialize (IH (edge m) (if n >? 0 then n - 1 else n)). lia.
      + specialize (IH pe n). lia.
  Qed.

  (* compat's forEachStringMatch walks the same chain *)
  Notation for_each_loop := (for_each_loop rtl len attempt).

  Lemma for_each_loop_chain : forall ms fuel cur pe n,
    chain cur ms -> (length ms < fuel)%nat ->
    for_each_loop fuel dflt cur pe n = Ok (acc_list (fun m => m_index m + m_length m) ms pe n).
  Proof.
    induction ms as [|m ms IH]; intros fuel cur pe n Hc Hf.
    - inv Hc. destruct fuel; cbn [Iter.for_each_loop acc_list]; destruct (n =? 0); reflexivity.
    - inv Hc. destruct fuel as [|f]; [cbn in Hf; lia|]. cbn [Iter.for_each_loop acc_list].
      destruct (n =? 0) eqn:En; [reflexivity|].
      fold (accept m pe). destruct (accept m pe).
      + destruct ((n >? 0) && ((if n >? 0 then n - 1 else n) =? 0)) eqn:Eb.
        * assert ((if n >? 0 then n - 1 else n) = 0) as -> by lia. rewrite acc_list_0. reflexivity.
        * rewrite find_next_ok by assumption. cbn [bind].
          rewrite (IH f (next_p m)); [reflexivity | assumption | cbn in Hf; lia].
      + rewrite find_next_ok by assumption. cbn [bind].
        apply IH; [assumption | cbn in Hf; lia].
  Qed.

  Lemma chain_inv_nil cur : chain cur [] -> cur = None.
  Proof. intros H. inversion H. reflexivity. Qed.
  Lemma chain_inv_cons cur m ms : chain cur (m :: ms) -> cur = Some m /\ wfm m /\ chain (next_p m) ms.
  Proof. intros H. inversion H as [|m0 ms0 Hw Hc]; subst. split; [reflexivity|]. split; assumption. Qed.

End IterProofs.

(* direction-specific reading of "b follows a": left-to-right start indexes strictly increase and
   b begins at or after a's end; right-to-left END positions strictly decrease and b ends at or
   before a's start; after an empty match the next match is not the same empty match *)
Definition follows (rtl : bool) (a b : mt) : Prop :=
  (if rtl
   then m_index b + m_length b < m_index a + m_length a /\ m_index b + m_length b <= m_index a
   else m_index a < m_index b /\ m_index a + m_length a <= m_index b)
  /\ (m_length a = 0 -> ~ (m_index b = m_index a /\ m_length b = 0)).


Lemma next_advances_follows :
  forall rtl len attempt, forward rtl len attempt ->
  forall m, wfm rtl len m ->
    find_next_match rtl len attempt (dflt_fuel len) m = Ok (next_p rtl len attempt m) /\
    forall m', next_p rtl len attempt m = Some m' -> wfm rtl len m' /\ follows rtl m m'.
Proof.
  intros rtl len attempt Hfw m Hw. split.
  - apply find_next_ok; exact Hw.
  - intros m' Hn. destruct (next_advances_gen rtl len attempt Hfw m m' Hw Hn) as (Hw' & H1 & H2 & H3).
    split; [exact Hw'|].
    destruct Hw as [_ (Hl & _ & Hd)]. destruct Hw' as [_ (Hl' & _ & Hd')].
    unfold follows, m_start, bump in *. destruct rtl; (split; [lia | intros Hz; specialize (H3 Hz); lia]).
Qed.

Lemma iteration_bound_and_order :
  forall rtl len attempt, forward rtl len attempt ->
  forall start, 0 <= start <= len ->
  exists ms, iteration rtl len attempt (dflt_fuel len) (dflt_fuel len) start = Ok ms /\
             Z.of_nat (length ms) <= len + 1 /\
             Forall (wfm rtl len) ms /\
             forall a b, consecutive ms a b -> follows rtl a b.
Proof.
  intros rtl len attempt Hfw start Hs.
  destruct (iteration_ok rtl len attempt Hfw start Hs) as (ms & Hi & Hc & Hl).
  exists ms. split; [exact Hi|]. split; [lia|]. split; [eapply chain_wf; eauto|].
  intros a b Hab. destruct (chain_consecutive rtl len attempt ms _ a b Hc Hab) as [Hw Hn].
  destruct (next_advances_follows rtl len attempt Hfw a Hw) as [_ H]. apply (H b Hn).
Qed.

(* ---------------- a concrete matcher for the non-vacuity examples: a* on "baaab" ---------------- *)
Definition ex_text : list Z := [98; 97; 97; 97; 98].
Fixpoint count_a (l : list Z) : Z :=
  match l with
  | 97 :: l' => 1 + count_a l'
  | _ => 0
  end.
(* greedy a* anchored at p, scanning right / scanning left *)
Definition ex_ltr (_ p : Z) : option mt :=
  let k := count_a (skipn (Z.to_nat p) ex_text) in Some (MkM p k (p + k) [Some (p, k)]).
Definition ex_rtl (_ p : Z) : option mt :=
  let k := count_a (rev (firstn (Z.to_nat p) ex_text)) in Some (MkM (p - k) k (p - k) [Some (p - k, k)]).

Lemma ex_ltr_forward : forward false 5 ex_ltr.
Proof.
  intros ts p m Hp H.
  assert (p = 0 \/ p = 1 \/ p = 2 \/ p = 3 \/ p = 4 \/ p = 5) as Hc by lia.
  destruct Hc as [->|[->|[->|[->|[->| ->]]]]]; vm_compute in H; inversion H; subst; vm_compute; intuition discriminate.
Qed.
Lemma ex_rtl_forward : forward true 5 ex_rtl.
Proof.
  intros ts p m Hp H.
  assert (p = 0 \/ p = 1 \/ p = 2 \/ p = 3 \/ p = 4 \/ p = 5) as Hc by lia.
  destruct Hc as [->|[->|[->|[->|[->| ->]]]]]; vm_compute in H; inversion H; subst; vm_compute; intuition discriminate.
Qed.


(* the same, without mentioning the pure form of FindNextMatch *)
Lemma next_advances_stmt :
  forall rtl len attempt, forward rtl len attempt ->
  forall m, wfm rtl len m ->
  exists r, find_next_match rtl len attempt (dflt_fuel len) m = Ok r /\
            forall m', r = Some m' -> wfm rtl len m' /\ follows rtl m m'.
Proof.
  intros rtl len attempt Hfw m Hw. destruct (next_advances_follows rtl len attempt Hfw m Hw) as [H1 H2].
  exists (next_p rtl len attempt m). split; assumption.
Qed.
