(* C05, proofs part 4: what canBeMadeAtomic's comparison of a loop with ONE successor node (tree.go:939-1005,
   Model/FinalOpt.fo_verdict) means.  [PQ n a]: the state a is one at which the loop n may have stopped early:
   the next character passes the loop's test, and when the loop's minimum is positive so does the previous one.
     verdict 1 ("true")        : the successor has no result from such a state;
     verdict 2 ("look further"): the successor is a nullable loop that matches the empty string there and always
                                 matches somewhere (stay, total), or a \b that fails there (dead), or a \B (an
                                 anchor: stays or fails). *)
From Verif Require Import Base.Prelude Model.Tree Model.Spec Model.Rewrite Model.ParseLit Model.CharClass Model.Parser
  Model.FinalOpt
  Proofs.SpecProofs Proofs.SpecBoundsProofs Proofs.RewriteProofs
  Proofs.CharClassRanges Proofs.CharClassProofs Proofs.CharClassElab Proofs.CharClassOverlap
  Proofs.FinalOptDen Proofs.FinalOptK Proofs.FinalOptLink.
From Coq Require Import ZifyBool.

Section Leaf.
Variable cat_in : Z -> Z -> bool.
Variables isw isew : Z -> bool.
Variable sid : cls -> Z.
Variable e : env.
Variable sets : list cls.

(* the environment interprets the set ids of the tree as class membership, its word tests are the oracles the
   code consulted, and three facts about those oracles (syntax.IsWordChar is the "W" category, a decimal digit is
   a word character, the ECMAScript \w characters are ECMAScript word characters; white space is neither digit
   nor word character: Proofs/CharClassOverlap.space_facts) *)
Record env_ok : Prop := {
  eo_set : forall c, In c sets -> forall x, set_in e (sid c) x = char_in cat_in c x;
  eo_word : forall x, is_word e x = isw x;
  eo_eword : forall x, is_eword e x = isew x;
  eo_catword : forall x, cat_in cat_word x = isw x;
  eo_nd_word : forall x, cat_in cat_Nd x = true -> isw x = true;
  eo_ecma : forall x, mem ecma_word_ranges x = true -> isew x = true;
  eo_space : space_facts cat_in
}.
Hypothesis Henv : env_ok.

Notation den := (den e).
Notation sok := (st_ok e).
Notation tr := (tr sid).

(* every set of the tree is one the environment knows *)
Fixpoint sets_in (x : rnode) : Prop :=
  match x with
  | RN _ _ _ _ _ _ st kids =>
      match st with Some c => In c sets | None => True end /\
      (fix go (ks : list rnode) : Prop := match ks with [] => True | k :: r => sets_in k /\ go r end) kids
  end.
Lemma sets_in_here x c : sets_in x -> n_set x = Some c -> In c sets.
Proof. destruct x as [t o ch m n str st kids]. cbn. intros [H _] ->. exact H. Qed.
Lemma sets_in_kid x k : sets_in x -> In k (n_kids x) -> sets_in k.
Proof.
  destruct x as [t o ch m n str st kids]. cbn [sets_in n_kids]. intros [_ H].
  induction kids as [|k0 kids IH]; intros Hin; [destruct Hin|].
  destruct H as [H0 H1]. destruct Hin as [<-|Hin]; [exact H0 | apply IH; assumption].
Qed.

(* the single-character test of a node of the One / Notone / Set families, on the raw node *)
Definition rtest (n : rnode) (x : Z) : bool :=
  let t := n_t n in
  if is_one_family t then x =? n_ch n
  else if is_notone_family t then negb (x =? n_ch n)
  else match n_set n with Some c => char_in cat_in c x | None => false end.

Definition PQ (n : rnode) (a : st) : Prop :=
  pos a < tlen e /\ rtest n (char_at e (pos a)) = true /\
  (0 < n_m n -> 0 < pos a /\ rtest n (char_at e (pos a - 1)) = true).

(* the next character passes the loop's test: any state at all *)
Definition NQ (n : rnode) (a : st) : Prop := pos a < tlen e /\ rtest n (char_at e (pos a)) = true.

Lemma PQ_pos n a b : pos a = pos b -> PQ n a -> PQ n b.
Proof. unfold PQ. intros ->. tauto. Qed.

Definition fam (t : Z) : bool := is_one_family t || is_notone_family t || is_set_family t.
Definition ltr (o : Z) : Prop := is_rtl o = false.

Lemma useRTL_is_rtl o : useRTL o = is_rtl o.
Proof. reflexivity. Qed.

Lemma fam_cases t : fam t = true ->
  t = 3 \/ t = 4 \/ t = 5 \/ t = 6 \/ t = 7 \/ t = 8 \/ t = 9 \/ t = 10 \/ t = 11 \/ t = 43 \/ t = 44 \/ t = 45.
Proof.
  unfold fam, is_one_family, is_notone_family, is_set_family, T_One, T_Oneloop, T_Onelazy, T_Oneloopatomic,
    T_Notone, T_Notoneloop, T_Notonelazy, T_Notoneloopatomic, T_Set, T_Setloop, T_Setlazy, T_Setloopatomic. lia.
Qed.

Lemma fam_leaf s : fam (n_t s) = true -> fo_wf s = true -> n_kids s = [].
Proof.
  intros Hf Hwf. pose proof (fo_wf_arity s Hwf) as Ha.
  destruct (fam_cases _ Hf) as [E|[E|[E|[E|[E|[E|[E|[E|[E|[E|[E|E]]]]]]]]]]]; rewrite E in Ha;
    cbn in Ha; destruct (n_kids s); try reflexivity; discriminate.
Qed.

Lemma fam_set s : is_set_family (n_t s) = true -> fo_wf s = true -> sets_in s ->
  exists cs, n_set s = Some cs /\ In cs sets /\ cls_okb cs = true.
Proof.
  intros E Hwf Hs. rewrite fo_wf_unfold in Hwf. rewrite E in Hwf. destruct (n_set s) as [cs|] eqn:Es.
  - exists cs. split; [reflexivity|]. split; [exact (sets_in_here s cs Hs Es)|].
    repeat (apply andb_prop in Hwf; destruct Hwf as [Hwf ?]). assumption.
  - rewrite !andb_false_r in Hwf. cbn in Hwf. discriminate.
Qed.

(* the semantic test of a family node is the raw test *)
Lemma fam_kind s : fam (n_t s) = true -> fo_wf s = true -> sets_in s ->
  exists k c, (forall x, char_test e k c x = rtest s x) /\
    ((n_t s = 9 \/ n_t s = 10 \/ n_t s = 11) /\ tr s = NChar k (n_o s) c \/
     exists l, lk_of (n_t s) = Some (k, l) /\ tr s = NCharLoop k l (n_o s) c (n_m s) (n_n s)).
Proof.
  intros Hf Hwf Hs.
  pose proof (fun E => fam_set s E Hwf Hs) as Hset.
  rewrite tr_unfold. cbv zeta. unfold rtest.
  destruct (fam_cases _ Hf) as [E|[E|[E|[E|[E|[E|[E|[E|[E|[E|[E|E]]]]]]]]]]]; rewrite E in *; cbn in Hset |- *.
  - exists COne, (n_ch s). split; [reflexivity|]. right. exists LGreedy. split; reflexivity.
  - exists CNotone, (n_ch s). split; [reflexivity|]. right. exists LGreedy. split; reflexivity.
  - destruct (Hset eq_refl) as [cs [Es [Hin _]]]. rewrite Es. exists CSet, (sid cs).
    split; [intros x; apply (eo_set Henv cs Hin)|]. right. exists LGreedy. split; reflexivity.
  - exists COne, (n_ch s). split; [reflexivity|]. right. exists LLazy. split; reflexivity.
  - exists CNotone, (n_ch s). split; [reflexivity|]. right. exists LLazy. split; reflexivity.
  - destruct (Hset eq_refl) as [cs [Es [Hin _]]]. rewrite Es. exists CSet, (sid cs).
    split; [intros x; apply (eo_set Henv cs Hin)|]. right. exists LLazy. split; reflexivity.
  - exists COne, (n_ch s). split; [reflexivity|]. left. split; [tauto|reflexivity].
  - exists CNotone, (n_ch s). split; [reflexivity|]. left. split; [tauto|reflexivity].
  - destruct (Hset eq_refl) as [cs [Es [Hin _]]]. rewrite Es. exists CSet, (sid cs).
    split; [intros x; apply (eo_set Henv cs Hin)|]. left. split; [tauto|reflexivity].
  - exists COne, (n_ch s). split; [reflexivity|]. right. exists LAtomic. split; reflexivity.
  - exists CNotone, (n_ch s). split; [reflexivity|]. right. exists LAtomic. split; reflexivity.
  - destruct (Hset eq_refl) as [cs [Es [Hin _]]]. rewrite Es. exists CSet, (sid cs).
    split; [intros x; apply (eo_set Henv cs Hin)|]. right. exists LAtomic. split; reflexivity.
Qed.

(* ---- left-to-right nodes *)
Lemma ltr_avail o p : ltr o -> avail e o p = tlen e - p.
Proof. unfold ltr, avail. intros ->. reflexivity. Qed.
Lemma ltr_next o p : ltr o -> next_char e o p = char_at e p.
Proof. unfold ltr, next_char. intros ->. reflexivity. Qed.
Lemma ltr_dir o : ltr o -> dir o = 1.
Proof. unfold ltr, dir. intros ->. reflexivity. Qed.

Lemma run_len_first_fails k c o n p : char_test e k c (next_char e o p) = false -> run_len e k c o n p = 0.
Proof. intros H. destruct n; cbn [run_len]; [reflexivity|]. rewrite H, andb_false_r. reflexivity. Qed.

(* a single character, or a loop that must iterate, whose test rejects the next character *)
Lemma dead_fam s : fam (n_t s) = true -> fo_wf s = true -> sets_in s -> ltr (n_o s) ->
  ((n_t s = 9 \/ n_t s = 10 \/ n_t s = 11) \/ 0 < n_m s) ->
  forall a, rtest s (char_at e (pos a)) = false -> den (tr s) a = [].
Proof.
  intros Hf Hwf Hs Hl Hm a Hr.
  destruct (fam_kind s Hf Hwf Hs) as (k & c & Ht & [[Hsing Etr] | [l [El Etr]]]); rewrite Etr.
  - rewrite fd_den_char, (ltr_next _ _ Hl), Ht, Hr, andb_false_r. reflexivity.
  - assert (Hm' : 0 < n_m s).
    { destruct Hm as [Hs'|Hm]; [|exact Hm]. exfalso. unfold lk_of in El.
      destruct Hs' as [E|[E|E]]; rewrite E in El; cbn in El; discriminate. }
    rewrite fd_den_charloop. unfold sem_charloop.
    rewrite run_len_first_fails by (rewrite (ltr_next _ _ Hl), Ht; exact Hr).
    replace (0 <? n_m s) with true by lia. reflexivity.
Qed.

(* a nullable loop whose test rejects the next character matches the empty string there *)
Lemma stay_fam0 s kl : lk_of (n_t s) = Some kl -> fam (n_t s) = true -> fo_wf s = true -> sets_in s -> ltr (n_o s) -> n_m s = 0 ->
  forall a, rtest s (char_at e (pos a)) = false -> den (tr s) a = [a].
Proof.
  intros El0 Hf Hwf Hs Hl Hm a Hr.
  destruct (fam_kind s Hf Hwf Hs) as (k & c & Ht & [[Hsing Etr] | [l [El Etr]]]).
  - exfalso. unfold lk_of in El0. destruct Hsing as [E|[E|E]]; rewrite E in El0; cbn in El0; discriminate.
  - rewrite Etr, fd_den_charloop. unfold sem_charloop.
    rewrite run_len_first_fails by (rewrite (ltr_next _ _ Hl), Ht; exact Hr).
    rewrite Hm. change (0 <? 0) with false. cbv iota. rewrite (ltr_dir _ Hl).
    assert (Hmk : with_pos a (pos a + 1 * 0) = a) by (replace (pos a + 1 * 0) with (pos a) by lia; apply with_pos_same).
    destruct l; [change (count_down 0 0) with [0] | change (count_up 0 0) with [0] | ]; cbn [map]; rewrite Hmk; reflexivity.
Qed.

Lemma total_fam0 s kl : lk_of (n_t s) = Some kl -> fam (n_t s) = true -> fo_wf s = true -> sets_in s -> n_m s = 0 ->
  forall a, den (tr s) a <> [].
Proof.
  intros El0 Hf Hwf Hs Hm a.
  destruct (fam_kind s Hf Hwf Hs) as (k & c & Ht & [[Hsing Etr] | [l [El Etr]]]).
  - exfalso. unfold lk_of in El0. destruct Hsing as [E|[E|E]]; rewrite E in El0; cbn in El0; discriminate.
  - rewrite Etr, Hm. apply (always_matches_charloop0 e k l (n_o s) c (n_n s) a). apply fd_den_evals.
Qed.

(* ---- literals *)
Lemma tr_multi s : n_t s = 12 -> tr s = NMulti (n_o s) (n_str s).
Proof. intros H. rewrite tr_unfold. cbv zeta. rewrite H. reflexivity. Qed.

Lemma is_ci_useI o : is_ci o = useI o.
Proof. reflexivity. Qed.

Lemma dead_multi s c0 rest : n_t s = 12 -> fo_wf s = true -> ltr (n_o s) -> n_str s = c0 :: rest ->
  forall a, (char_at e (pos a) =? c0) = false -> den (tr s) a = [].
Proof.
  intros Ht Hwf Hl Hstr a Hc. rewrite (tr_multi s Ht), fd_den_multi. unfold sem_multi.
  destruct (avail e (n_o s) (pos a) <? zlen (n_str s)); [reflexivity|].
  unfold ltr in Hl. rewrite Hl.
  assert (Hci : is_ci (n_o s) = false).
  { rewrite fo_wf_unfold, Ht in Hwf. cbn in Hwf. rewrite is_ci_useI.
    repeat (apply andb_prop in Hwf; destruct Hwf as [Hwf ?]).
    match goal with H : negb (fo_is_nil _) && negb (useI _) = true |- _ => apply andb_prop in H; destruct H as [_ H] end.
    destruct (useI (n_o s)); [discriminate|reflexivity]. }
  rewrite Hci, Hstr. cbn [str_match_at]. replace (c0 =? char_at e (pos a)) with false by lia. reflexivity.
Qed.

(* ---- anchors *)
Lemma tr_anchor s a : n_t s = anchor_code a -> tr s = NAnchor a.
Proof. intros H. rewrite tr_unfold. cbv zeta. rewrite H. destruct a; reflexivity. Qed.

Lemma stay_anchor a s : den (NAnchor a) s = [s] \/ den (NAnchor a) s = [].
Proof. rewrite fd_den_anchor. destruct (anchor_ok e a (pos s)); auto. Qed.

Lemma dead_end n a : NQ n a -> den (NAnchor AEnd) a = [].
Proof. intros (Hp & _). rewrite fd_den_anchor. cbn [anchor_ok]. replace (tlen e <=? pos a) with false by lia. reflexivity. Qed.

Lemma dead_eol n a : rtest n 10 = false -> NQ n a -> den (NAnchor AEol) a = [].
Proof.
  intros H10 (Hp & Ht). rewrite fd_den_anchor. cbn [anchor_ok].
  replace (tlen e <=? pos a) with false by lia.
  destruct (char_at e (pos a) =? 10) eqn:E; [|reflexivity].
  assert (char_at e (pos a) = 10) as E' by lia. rewrite E' in Ht. congruence.
Qed.

Lemma dead_endz n a : rtest n 10 = false -> NQ n a -> den (NAnchor AEndZ) a = [].
Proof.
  intros H10 (Hp & Ht). rewrite fd_den_anchor. cbn [anchor_ok].
  destruct (1 <? tlen e - pos a) eqn:E1; [reflexivity|].
  destruct (endz_strict e); [replace (tlen e - pos a <=? 0) with false by lia; reflexivity|].
  replace (tlen e - pos a =? 1) with true by lia.
  destruct (char_at e (pos a) =? 10) eqn:E; [|reflexivity].
  assert (char_at e (pos a) = 10) as E' by lia. rewrite E' in Ht. congruence.
Qed.

(* a \b between two characters the loop accepts, when every such character is a word character *)
Lemma dead_boundary n a (w : Z -> bool) an :
  (an = ABoundary /\ w = is_word e) \/ (an = AECMABoundary /\ w = is_eword e) ->
  0 < n_m n -> (forall x, rtest n x = true -> w x = true) ->
  PQ n a -> den (NAnchor an) a = [].
Proof.
  intros Han Hm Hw (Hp & Ht & Hprev). destruct (Hprev Hm) as [Hp0 Htp].
  rewrite fd_den_anchor.
  assert (Hb : is_boundary e w (pos a) = false).
  { unfold is_boundary. replace (0 <? pos a) with true by lia. replace (pos a <? tlen e) with true by lia.
    rewrite (Hw _ Ht), (Hw _ Htp). reflexivity. }
  destruct Han as [[-> ->]|[-> ->]]; cbn [anchor_ok]; rewrite Hb; reflexivity.
Qed.

(* ---- the raw test, per family *)
Ltac fam_unfold := unfold fam, is_one_family, is_notone_family, is_set_family, is_oneloop_family, is_notoneloop_family,
  is_setloop_family, T_One, T_Oneloop, T_Onelazy, T_Oneloopatomic, T_Notone, T_Notoneloop, T_Notonelazy, T_Notoneloopatomic,
  T_Set, T_Setloop, T_Setlazy, T_Setloopatomic in *.

Lemma rtest_one s x : is_one_family (n_t s) = true -> rtest s x = (x =? n_ch s).
Proof. unfold rtest. intros ->. reflexivity. Qed.
Lemma rtest_notone s x : is_notone_family (n_t s) = true -> rtest s x = negb (x =? n_ch s).
Proof.
  unfold rtest. intros H. rewrite H. replace (is_one_family (n_t s)) with false; [reflexivity|].
  fam_unfold. lia.
Qed.
Lemma rtest_set s x : is_set_family (n_t s) = true -> rtest s x = match n_set s with Some c => char_in cat_in c x | None => false end.
Proof.
  unfold rtest. intros H. replace (is_one_family (n_t s)) with false by (fam_unfold; lia).
  replace (is_notone_family (n_t s)) with false by (fam_unfold; lia). reflexivity.
Qed.

Lemma fo_any_true l : fo_any l = Ok true -> exists c k, In (c, k) l /\ c = true /\ k tt = Ok true.
Proof.
  induction l as [|[c k] l IH]; cbn [fo_any]; intros H; [discriminate|].
  destruct c.
  - destruct (k tt) as [b| | |] eqn:Ek; cbn [bind] in H; try discriminate.
    destruct b.
    + exists true, k. split; [left; reflexivity|]. split; [reflexivity|exact Ek].
    + destruct (IH H) as (c' & k' & Hin & Hc & Hk). exists c', k'. split; [right; exact Hin|]. split; assumption.
  - destruct (IH H) as (c' & k' & Hin & Hc & Hk). exists c', k'. split; [right; exact Hin|]. split; assumption.
Qed.

Lemma two_inv (yes skip : list (bool * (unit -> res bool))) v :
  (do y <- fo_any yes ; if y then Ok 1 else do k <- fo_any skip ; Ok (if k then 2 else 0)) = Ok v ->
  (v = 1 /\ fo_any yes = Ok true) \/ (v = 2 /\ fo_any skip = Ok true) \/ v = 0.
Proof.
  destruct (fo_any yes) as [y| | |]; cbn [bind]; try discriminate. destruct y.
  - intros H. injection H as <-. left. split; reflexivity.
  - destruct (fo_any skip) as [k| | |]; cbn [bind]; try discriminate. destruct k; intros H; injection H as <-.
    + right. left. split; reflexivity.
    + right. right. reflexivity.
Qed.

Lemma fo_not_in_true st x : fo_not_in cat_in st x tt = Ok true -> exists c, st = Some c /\ char_in cat_in c x = false.
Proof.
  unfold fo_not_in, fo_char_in. destruct st as [c|]; cbn [bind]; [|discriminate].
  intros H. exists c. split; [reflexivity|]. destruct (char_in cat_in c x); [discriminate|reflexivity].
Qed.
Lemma fo_no_overlap_true a b : fo_no_overlap cat_in a b tt = Ok true ->
  exists x y, a = Some x /\ b = Some y /\ may_overlap cat_in x y = false.
Proof.
  unfold fo_no_overlap. destruct a as [x|], b as [y|]; try discriminate.
  intros H. exists x, y. split; [reflexivity|]. split; [reflexivity|]. destruct (may_overlap cat_in x y); [discriminate|reflexivity].
Qed.
Lemma fo_str0_true s (k : Z -> bool) : fo_str0 s k tt = Ok true -> exists c0 r, n_str s = c0 :: r /\ k c0 = true.
Proof. unfold fo_str0. destruct (n_str s) as [|c0 r]; [discriminate|]. intros H. exists c0, r. split; [reflexivity|congruence]. Qed.

Lemma overlap_disjoint x y : cls_okb x = true -> cls_okb y = true -> may_overlap cat_in x y = false ->
  forall ch, char_in cat_in x ch = true -> char_in cat_in y ch = false.
Proof.
  intros Hx Hy H ch H1. unfold cls_okb in *. apply andb_prop in Hx. apply andb_prop in Hy. destruct Hx as [Bx Cx], Hy as [By Cy].
  destruct (char_in cat_in y ch) eqn:E; [|reflexivity]. exfalso.
  apply (may_overlap_sound_plain cat_in x y (eo_space Henv) (cls_canonicalb_ok _ Cx) (cls_canonicalb_ok _ Cy)
           (no_bitmaps_ok cat_in _ (cls_no_bitmap_ok _ Bx)) (no_bitmaps_ok cat_in _ (cls_no_bitmap_ok _ By)) H ch).
  split; assumption.
Qed.

(* ---- what the successor does at the states where the loop may have stopped early *)
Definition dead_at (n : rnode) (x : node) : Prop := forall a, sok a -> PQ n a -> den x a = [].
Definition dead_nq (n : rnode) (x : node) : Prop := forall a, NQ n a -> den x a = [].
Lemma dead_nq_at n x : dead_nq n x -> dead_at n x.
Proof. intros H a _ (Hp & Ht & _). apply H. split; assumption. Qed.
Definition stay_at (n : rnode) (x : node) : Prop := forall a, sok a -> PQ n a -> den x a = [a] \/ den x a = [].
Definition total_at (n : rnode) (x : node) : Prop :=
  (forall a, sok a -> PQ n a -> den x a = [a]) /\ (forall a, den x a <> []).

Lemma dead_excl n s : fam (n_t s) = true -> fo_wf s = true -> sets_in s -> ltr (n_o s) ->
  ((n_t s = 9 \/ n_t s = 10 \/ n_t s = 11) \/ 0 < n_m s) ->
  (forall x, rtest n x = true -> rtest s x = false) -> dead_nq n (tr s).
Proof. intros Hf Hwf Hs Hl Hm Hex a (Hp & Ht). apply dead_fam; auto. Qed.

Lemma total_excl n s : fam (n_t s) = true -> fo_wf s = true -> sets_in s -> ltr (n_o s) ->
  (n_t s <> 9 /\ n_t s <> 10 /\ n_t s <> 11) -> n_m s = 0 ->
  (forall x, rtest n x = true -> rtest s x = false) -> total_at n (tr s).
Proof.
  intros Hf Hwf Hs Hl Hnt Hm Hex.
  assert (exists kl, lk_of (n_t s) = Some kl) as [kl Hkl].
  { destruct (fam_cases _ Hf) as [E|[E|[E|[E|[E|[E|[E|[E|[E|[E|[E|E]]]]]]]]]]]; rewrite E; cbn; try (eexists; reflexivity); lia. }
  split.
  - intros a _ (Hp & Ht & _). apply (stay_fam0 s kl); auto.
  - apply (total_fam0 s kl); auto.
Qed.

Definition nb_t (t : Z) : bool := (t =? T_Nonboundary) || (t =? T_NonECMABoundary).

Definition verdict_spec (n s : rnode) (v : Z) : Prop :=
  (v = 1 -> dead_nq n (tr s)) /\
  (v = 2 -> if nb_t (n_t s) then stay_at n (tr s) else (dead_at n (tr s) \/ total_at n (tr s))).

Lemma stay_at_anchor n s an : n_t s = anchor_code an -> stay_at n (tr s).
Proof. intros H a _ _. rewrite (tr_anchor s an H). apply stay_anchor. Qed.

Section Verdict.
Variables n s : rnode.
Hypothesis Hwfn : fo_wf n = true.
Hypothesis Hwfs : fo_wf s = true.
Hypothesis Hsn : sets_in n.
Hypothesis Hss : sets_in s.
Hypothesis Hoeq : n_o n = n_o s.
Hypothesis Hltr : ltr (n_o n).

Let Hltrs : ltr (n_o s).
Proof. rewrite <- Hoeq. exact Hltr. Qed.

Ltac in_cases H := cbn [In] in H; repeat (destruct H as [H|H]; [let E1 := fresh "Ec" in let E2 := fresh "Ek" in injection H as E1 E2; subst|]); [..|destruct H].
Ltac s_one := rewrite (rtest_one s) by (fam_unfold; lia).
Ltac s_notone := rewrite (rtest_notone s) by (fam_unfold; lia).
Ltac s_set := rewrite (rtest_set s) by (fam_unfold; lia).
Ltac dexcl := apply dead_excl; [fam_unfold; lia | exact Hwfs | exact Hss | exact Hltrs | fam_unfold; lia | ].
Ltac texcl := right; apply total_excl; [fam_unfold; lia | exact Hwfs | exact Hss | exact Hltrs | fam_unfold; lia | lia | ].

Lemma dead_anchor_end : n_t s = T_End -> dead_nq n (tr s).
Proof. intros H a Hq. rewrite (tr_anchor s AEnd H). exact (dead_end n a Hq). Qed.
Lemma dead_anchor_eol : n_t s = T_Eol -> rtest n 10 = false -> dead_nq n (tr s).
Proof. intros H H10 a Hq. rewrite (tr_anchor s AEol H). exact (dead_eol n a H10 Hq). Qed.
Lemma dead_anchor_endz : n_t s = T_EndZ -> rtest n 10 = false -> dead_nq n (tr s).
Proof. intros H H10 a Hq. rewrite (tr_anchor s AEndZ H). exact (dead_endz n a H10 Hq). Qed.
Lemma dead_anchor_b : n_t s = T_Boundary -> 0 < n_m n -> (forall x, rtest n x = true -> isw x = true) -> dead_at n (tr s).
Proof.
  intros H Hm Hw a _ Hq. rewrite (tr_anchor s ABoundary H).
  apply (dead_boundary n a (is_word e) ABoundary); auto.
  intros x Hx. rewrite (eo_word Henv). apply Hw. exact Hx.
Qed.
Lemma dead_anchor_eb : n_t s = T_ECMABoundary -> 0 < n_m n -> (forall x, rtest n x = true -> isew x = true) -> dead_at n (tr s).
Proof.
  intros H Hm Hw a _ Hq. rewrite (tr_anchor s AECMABoundary H).
  apply (dead_boundary n a (is_eword e) AECMABoundary); auto.
  intros x Hx. rewrite (eo_eword Henv). apply Hw. exact Hx.
Qed.

Lemma dead_multi_excl c0 r : n_t s = T_Multi -> n_str s = c0 :: r -> (forall x, rtest n x = true -> (x =? c0) = false) -> dead_nq n (tr s).
Proof. intros Ht Hstr Hex a (Hp & Hq). apply (dead_multi s c0 r); auto. Qed.

Lemma verdict_one al v :
  (n_t n =? T_Oneloop) || ((n_t n =? T_Onelazy) && al) = true ->
  fo_verdict cat_in isw isew n s al = Ok v -> verdict_spec n s v.
Proof.
  intros E1 H. unfold fo_verdict in H. rewrite E1 in H.
  assert (Hrn : forall x, rtest n x = (x =? n_ch n)) by (intros x; apply rtest_one; fam_unfold; unfold T_Oneloop, T_Onelazy in E1; lia).
  apply two_inv in H. destruct H as [[-> Hy] | [[-> Hk] | -> ]]; split; intros Hv; try discriminate.
  - clear Hv. apply fo_any_true in Hy. destruct Hy as (c & k & Hin & Hc & Hk).
    in_cases Hin.
    + dexcl. intros x Hx. rewrite Hrn in Hx. s_one. unfold T_One in *. lia.
    + dexcl. intros x Hx. rewrite Hrn in Hx. s_notone. unfold T_Notone in *. lia.
    + apply fo_not_in_true in Hk. destruct Hk as (cs & Es & Hcs).
      dexcl. intros x Hx. rewrite Hrn in Hx. s_set. rewrite Es. replace x with (n_ch n) by lia. exact Hcs.
    + dexcl. intros x Hx. rewrite Hrn in Hx. s_one. lia.
    + dexcl. intros x Hx. rewrite Hrn in Hx. s_notone. lia.
    + apply fo_not_in_true in Hk. destruct Hk as (cs & Es & Hcs).
      dexcl. intros x Hx. rewrite Hrn in Hx. s_set. rewrite Es. replace x with (n_ch n) by lia. exact Hcs.
    + apply fo_str0_true in Hk. destruct Hk as (c0 & r & Hstr & Hc0).
      apply (dead_multi_excl c0 r); [unfold T_Multi in *; lia | exact Hstr|]. intros x Hx. rewrite Hrn in Hx. lia.
    + apply dead_anchor_end. lia.
    + apply dead_anchor_endz; [lia|]. rewrite Hrn. lia.
    + apply dead_anchor_eol; [lia|]. rewrite Hrn. lia.
  - clear Hv. apply fo_any_true in Hk. destruct Hk as (c & k & Hin & Hc & Hk).
    in_cases Hin.
    + replace (nb_t (n_t s)) with false by (unfold nb_t, T_Nonboundary, T_NonECMABoundary; fam_unfold; lia).
      texcl. intros x Hx. rewrite Hrn in Hx. s_one. lia.
    + replace (nb_t (n_t s)) with false by (unfold nb_t, T_Nonboundary, T_NonECMABoundary; fam_unfold; lia).
      texcl. intros x Hx. rewrite Hrn in Hx. s_notone. lia.
    + replace (nb_t (n_t s)) with false by (unfold nb_t, T_Nonboundary, T_NonECMABoundary; fam_unfold; lia).
      apply fo_not_in_true in Hk. destruct Hk as (cs & Es & Hcs).
      texcl. intros x Hx. rewrite Hrn in Hx. s_set. rewrite Es. replace x with (n_ch n) by lia. exact Hcs.
    + replace (nb_t (n_t s)) with false by (unfold nb_t, T_Nonboundary, T_NonECMABoundary, T_Boundary in *; lia).
      left. apply dead_anchor_b; [lia|lia|]. intros x Hx. rewrite Hrn in Hx. replace x with (n_ch n) by lia. lia.
    + replace (nb_t (n_t s)) with true by (unfold nb_t; lia).
      apply (stay_at_anchor n s ANonboundary). unfold T_Nonboundary in *. cbn. lia.
    + replace (nb_t (n_t s)) with false by (unfold nb_t, T_Nonboundary, T_NonECMABoundary, T_ECMABoundary in *; lia).
      left. apply dead_anchor_eb; [lia|lia|]. intros x Hx. rewrite Hrn in Hx. replace x with (n_ch n) by lia. lia.
    + replace (nb_t (n_t s)) with true by (unfold nb_t; lia).
      apply (stay_at_anchor n s ANonECMABoundary). unfold T_NonECMABoundary in *. cbn. lia.
Qed.

Lemma verdict_notone al v :
  (n_t n =? T_Notoneloop) || ((n_t n =? T_Notonelazy) && al) = true ->
  fo_verdict cat_in isw isew n s al = Ok v -> verdict_spec n s v.
Proof.
  intros E2 H. unfold fo_verdict in H.
  replace ((n_t n =? T_Oneloop) || ((n_t n =? T_Onelazy) && al)) with false in H
    by (unfold T_Oneloop, T_Onelazy, T_Notoneloop, T_Notonelazy in *; lia).
  rewrite E2 in H.
  assert (Hrn : forall x, rtest n x = negb (x =? n_ch n)) by (intros x; apply rtest_notone; fam_unfold; unfold T_Notoneloop, T_Notonelazy in E2; lia).
  apply two_inv in H. destruct H as [[-> Hy] | [[-> Hk] | -> ]]; split; intros Hv; try discriminate.
  - clear Hv. apply fo_any_true in Hy. destruct Hy as (c & k & Hin & Hc & Hk).
    in_cases Hin.
    + dexcl. intros x Hx. rewrite Hrn in Hx. s_one. unfold T_One in *. lia.
    + dexcl. intros x Hx. rewrite Hrn in Hx. s_one. lia.
    + apply fo_str0_true in Hk. destruct Hk as (c0 & r & Hstr & Hc0).
      apply (dead_multi_excl c0 r); [unfold T_Multi in *; lia | exact Hstr|]. intros x Hx. rewrite Hrn in Hx. lia.
    + apply dead_anchor_end. lia.
  - clear Hv. apply fo_any_true in Hk. destruct Hk as (c & k & Hin & Hc & Hk).
    in_cases Hin.
    replace (nb_t (n_t s)) with false by (unfold nb_t, T_Nonboundary, T_NonECMABoundary; fam_unfold; lia).
    texcl. intros x Hx. rewrite Hrn in Hx. s_one. lia.
Qed.

Lemma oset_equals_some ns a : oset_equals ns (Some a) = true -> exists c, ns = Some c /\ cls_equals false c a = true.
Proof. destruct ns as [c|]; cbn; [|discriminate]. intros H. exists c. split; [reflexivity|exact H]. Qed.

Lemma okb_char_plain c x : cls_okb c = true -> char_in cat_in c x = plain_in cat_in c x.
Proof.
  intros H. unfold cls_okb in H. apply andb_prop in H. destruct H as [B C].
  exact (proj2 (lookup_agree cat_in c (cls_canonicalb_ok _ C) (no_bitmaps_ok cat_in _ (cls_no_bitmap_ok _ B)) x)).
Qed.

Lemma verdict_set al v :
  (n_t n =? T_Setloop) || ((n_t n =? T_Setlazy) && al) = true ->
  fo_verdict cat_in isw isew n s al = Ok v -> verdict_spec n s v.
Proof.
  intros E3 H. unfold fo_verdict in H.
  replace ((n_t n =? T_Oneloop) || ((n_t n =? T_Onelazy) && al)) with false in H
    by (unfold T_Oneloop, T_Onelazy, T_Setloop, T_Setlazy in *; lia).
  replace ((n_t n =? T_Notoneloop) || ((n_t n =? T_Notonelazy) && al)) with false in H
    by (unfold T_Notoneloop, T_Notonelazy, T_Setloop, T_Setlazy in *; lia).
  rewrite E3 in H. cbv zeta in H.
  assert (Hnf : is_set_family (n_t n) = true) by (fam_unfold; unfold T_Setloop, T_Setlazy in E3; lia).
  destruct (fam_set n Hnf Hwfn Hsn) as (cn & Ecn & _ & Hokn).
  assert (Hrn : forall x, rtest n x = char_in cat_in cn x) by (intros x; rewrite (rtest_set n x Hnf), Ecn; reflexivity).
  rewrite Ecn in H.
  apply two_inv in H. destruct H as [[-> Hy] | [[-> Hk] | -> ]]; split; intros Hv; try discriminate.
  - clear Hv. apply fo_any_true in Hy. destruct Hy as (c & k & Hin & Hc & Hk).
    in_cases Hin.
    + apply fo_not_in_true in Hk. destruct Hk as (c1 & E1 & Hn1). injection E1 as <-.
      dexcl. intros x Hx. rewrite Hrn in Hx. s_one.
      destruct (x =? n_ch s) eqn:Ex; [|reflexivity]. replace x with (n_ch s) in Hx by lia. congruence.
    + apply fo_no_overlap_true in Hk. destruct Hk as (c1 & cs & E1 & Es & Hov). injection E1 as <-.
      assert (Hsf : is_set_family (n_t s) = true) by (fam_unfold; unfold T_Set in *; lia).
      destruct (fam_set s Hsf Hwfs Hss) as (cs' & Es' & _ & Hoks). rewrite Es in Es'. injection Es' as <-.
      dexcl. intros x Hx. rewrite Hrn in Hx. s_set. rewrite Es. exact (overlap_disjoint cn cs Hokn Hoks Hov x Hx).
    + apply fo_not_in_true in Hk. destruct Hk as (c1 & E1 & Hn1). injection E1 as <-.
      dexcl. intros x Hx. rewrite Hrn in Hx. s_one.
      destruct (x =? n_ch s) eqn:Ex; [|reflexivity]. replace x with (n_ch s) in Hx by lia. congruence.
    + apply fo_no_overlap_true in Hk. destruct Hk as (c1 & cs & E1 & Es & Hov). injection E1 as <-.
      assert (Hsf : is_set_family (n_t s) = true) by (fam_unfold; lia).
      destruct (fam_set s Hsf Hwfs Hss) as (cs' & Es' & _ & Hoks). rewrite Es in Es'. injection Es' as <-.
      dexcl. intros x Hx. rewrite Hrn in Hx. s_set. rewrite Es. exact (overlap_disjoint cn cs Hokn Hoks Hov x Hx).
    + destruct (n_str s) as [|c0 r] eqn:Hstr; [discriminate|].
      apply fo_not_in_true in Hk. destruct Hk as (c1 & E1 & Hn1). injection E1 as <-.
      apply (dead_multi_excl c0 r); [unfold T_Multi in *; lia | exact Hstr|]. intros x Hx. rewrite Hrn in Hx.
      destruct (x =? c0) eqn:Ex; [|reflexivity]. replace x with c0 in Hx by lia. congruence.
    + apply dead_anchor_end. lia.
    + apply fo_not_in_true in Hk. destruct Hk as (c1 & E1 & Hn1). injection E1 as <-.
      apply dead_anchor_endz; [lia|]. rewrite Hrn. exact Hn1.
    + apply fo_not_in_true in Hk. destruct Hk as (c1 & E1 & Hn1). injection E1 as <-.
      apply dead_anchor_eol; [lia|]. rewrite Hrn. exact Hn1.
  - clear Hv. apply fo_any_true in Hk. destruct Hk as (c & k & Hin & Hc & Hk).
    in_cases Hin.
    + replace (nb_t (n_t s)) with false by (unfold nb_t, T_Nonboundary, T_NonECMABoundary; fam_unfold; lia).
      apply fo_not_in_true in Hk. destruct Hk as (c1 & E1 & Hn1). injection E1 as <-.
      texcl. intros x Hx. rewrite Hrn in Hx. s_one.
      destruct (x =? n_ch s) eqn:Ex; [|reflexivity]. replace x with (n_ch s) in Hx by lia. congruence.
    + replace (nb_t (n_t s)) with false by (unfold nb_t, T_Nonboundary, T_NonECMABoundary; fam_unfold; lia).
      apply fo_no_overlap_true in Hk. destruct Hk as (cs & c1 & Es & E1 & Hov). injection E1 as <-.
      assert (Hsf : is_set_family (n_t s) = true) by (fam_unfold; lia).
      destruct (fam_set s Hsf Hwfs Hss) as (cs' & Es' & _ & Hoks). rewrite Es in Es'. injection Es' as <-.
      texcl. intros x Hx. rewrite Hrn in Hx. s_set. rewrite Es.
      destruct (char_in cat_in cs x) eqn:Ecs; [|reflexivity].
      rewrite (overlap_disjoint cs cn Hoks Hokn Hov x Ecs) in Hx. discriminate.
    + replace (nb_t (n_t s)) with false by (unfold nb_t, T_Nonboundary, T_NonECMABoundary, T_Boundary in *; lia).
      left. apply dead_anchor_b; [lia|lia|]. intros x Hx. rewrite Hrn, (okb_char_plain cn x Hokn) in Hx.
      assert (Heq : cls_equals false cn word_class || cls_equals false cn digit_class = true) by lia.
      apply orb_prop in Heq. destruct Heq as [Heq|Heq].
      * rewrite (cls_equals_plain cat_in _ _ Heq x), plain_word, (eo_catword Henv) in Hx. exact Hx.
      * rewrite (cls_equals_plain cat_in _ _ Heq x), plain_digit in Hx. apply (eo_nd_word Henv). exact Hx.
    + replace (nb_t (n_t s)) with true by (unfold nb_t; lia).
      apply (stay_at_anchor n s ANonboundary). unfold T_Nonboundary in *. cbn. lia.
    + replace (nb_t (n_t s)) with false by (unfold nb_t, T_Nonboundary, T_NonECMABoundary, T_ECMABoundary in *; lia).
      left. apply dead_anchor_eb; [lia|lia|]. intros x Hx. rewrite Hrn, (okb_char_plain cn x Hokn) in Hx.
      assert (Heq : cls_equals false cn ecma_word_class || cls_equals false cn ecma_digit_class = true) by lia.
      apply orb_prop in Heq. destruct Heq as [Heq|Heq].
      * rewrite (cls_equals_plain cat_in _ _ Heq x) in Hx. unfold ecma_word_class in Hx. rewrite plain_ranges in Hx. apply (eo_ecma Henv). exact Hx.
      * rewrite (cls_equals_plain cat_in _ _ Heq x) in Hx. unfold ecma_digit_class in Hx. rewrite plain_ranges in Hx.
        apply (eo_ecma Henv). apply ecma_digit_word. exact Hx.
    + replace (nb_t (n_t s)) with true by (unfold nb_t; lia).
      apply (stay_at_anchor n s ANonECMABoundary). unfold T_NonECMABoundary in *. cbn. lia.
Qed.

Lemma verdict_sound al v : fo_verdict cat_in isw isew n s al = Ok v -> verdict_spec n s v.
Proof.
  intros H.
  destruct ((n_t n =? T_Oneloop) || ((n_t n =? T_Onelazy) && al)) eqn:E1; [exact (verdict_one al v E1 H)|].
  destruct ((n_t n =? T_Notoneloop) || ((n_t n =? T_Notonelazy) && al)) eqn:E2; [exact (verdict_notone al v E2 H)|].
  destruct ((n_t n =? T_Setloop) || ((n_t n =? T_Setlazy) && al)) eqn:E3; [exact (verdict_set al v E3 H)|].
  unfold fo_verdict in H. rewrite E1, E2, E3 in H. injection H as <-. split; intros Hv; discriminate.
Qed.

End Verdict.

End Leaf.
