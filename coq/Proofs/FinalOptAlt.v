(* C05, proofs part 6b: reduceAtomic's treatment of an alternation directly inside an atomic group (tree.go:612-707,
   Model/FinalOpt.fo_trim / fo_key / fo_reorder): the branches after an Empty branch are dropped (same FIRST result),
   the branches that start with a literal character are regrouped by that character inside each range of such
   branches (EVERY result kept: from a given state only the branches whose first character is the next character
   of the text can match at all, and their relative order is kept). *)
From Verif Require Import Base.Prelude Gen.ParseLitGen Model.Tree Model.Spec Model.Rewrite Model.ParseLit Model.CharClass Model.Parser
  Model.FinalOpt
  Proofs.SpecProofs Proofs.SpecBoundsProofs Proofs.SpecTermProofs Proofs.RewriteProofs
  Proofs.FinalOptDen Proofs.FinalOptK Proofs.FinalOptLink Proofs.FinalOptLeaf Proofs.FinalOptWalk Proofs.FinalOptAtomic.
From Coq Require Import ZifyBool Permutation.

(* ---- lists *)
Lemma fa_partition_filter {A} (f : A -> bool) l : partition f l = (filter f l, filter (fun x => negb (f x)) l).
Proof.
  induction l as [|a l IH]; cbn [partition filter]; [reflexivity|]. rewrite IH. destruct (f a); reflexivity.
Qed.
Lemma fa_filter_perm {A} (f : A -> bool) l : Permutation (filter f l ++ filter (fun x => negb (f x)) l) l.
Proof.
  induction l as [|a l IH]; cbn [filter]; [constructor|]. destruct (f a); cbn [negb app].
  - constructor. exact IH.
  - eapply Permutation_trans; [apply Permutation_sym, Permutation_middle|]. constructor. exact IH.
Qed.
Lemma fa_filter_sub {A} (f g : A -> bool) l : (forall x, f x = true -> g x = true) -> filter f (filter g l) = filter f l.
Proof.
  intros H. induction l as [|a l IH]; cbn [filter]; [reflexivity|].
  destruct (g a) eqn:Eg; cbn [filter]; [rewrite IH; reflexivity|].
  destruct (f a) eqn:Ef; [rewrite (H a Ef) in Eg; discriminate | exact IH].
Qed.
Lemma fa_filter_excl {A} (f g : A -> bool) l : (forall x, f x = true -> g x = false) -> filter f (filter g l) = [].
Proof.
  intros H. induction l as [|a l IH]; cbn [filter]; [reflexivity|].
  destruct (g a) eqn:Eg; cbn [filter]; [|exact IH].
  destruct (f a) eqn:Ef; [rewrite (H a Ef) in Eg; discriminate | exact IH].
Qed.
Lemma fa_filter_all {A} (f : A -> bool) l : Forall (fun x => f x = true) l -> filter f l = l.
Proof. induction 1 as [|a l Ha _ IH]; cbn [filter]; [reflexivity|]. rewrite Ha, IH. reflexivity. Qed.
Lemma fa_flat_map_map {A B C} (g : A -> B) (f : B -> list C) l : flat_map f (map g l) = flat_map (fun x => f (g x)) l.
Proof. induction l as [|a l IH]; cbn [map flat_map]; [reflexivity|]. rewrite IH. reflexivity. Qed.

(* ---- the keyed branches *)
Definition kf (d : Z) (p : Z * rnode) : bool := fst p =? d.

Lemma span_eq_spec c l :
  l = fst (fo_span_eq c l) ++ snd (fo_span_eq c l) /\ Forall (fun p => kf c p = true) (fst (fo_span_eq c l)) /\
  (forall x r, snd (fo_span_eq c l) = x :: r -> kf c x = false).
Proof.
  induction l as [|[c' x] l IH]; cbn [fo_span_eq].
  - cbn. split; [reflexivity|]. split; [constructor|]. intros; discriminate.
  - destruct (c' =? c) eqn:Ec.
    + destruct (fo_span_eq c l) as [a b]. cbn [fst snd] in *. destruct IH as (H1 & H2 & H3).
      split; [cbn [app]; rewrite <- H1; reflexivity|]. split; [constructor; [exact Ec | exact H2] | exact H3].
    + cbn [fst snd app]. split; [reflexivity|]. split; [constructor|]. intros y r E. injection E as <- _. exact Ec.
Qed.

Lemma reorder_run_S f r :
  fo_reorder_run (S f) r =
  match r with
  | [] => ([], false)
  | (c, _) :: _ =>
      match snd (fo_span_eq c r) with
      | [] => (fst (fo_span_eq c r), false)
      | x :: r'' =>
          (fst (fo_span_eq c r) ++ filter (kf c) r'' ++ fst (fo_reorder_run f (x :: filter (fun p => negb (kf c p)) r'')),
           negb (fo_is_nil (filter (kf c) r'')) || snd (fo_reorder_run f (x :: filter (fun p => negb (kf c p)) r'')))
      end
  end.
Proof.
  cbn [fo_reorder_run]. destruct r as [|[c y] r0]; [reflexivity|].
  destruct (fo_span_eq c ((c, y) :: r0)) as [s r']. cbn [fst snd]. destruct r' as [|x r'']; [reflexivity|].
  change (fun p : Z * rnode => fst p =? c) with (kf c). rewrite fa_partition_filter.
  destruct (fo_reorder_run f (x :: filter (fun p => negb (kf c p)) r'')) as [rest b]. reflexivity.
Qed.

Lemma reorder_run_filter : forall f r d, filter (kf d) (fst (fo_reorder_run f r)) = filter (kf d) r.
Proof.
  induction f as [|f IH]; intros r d; [reflexivity|]. rewrite reorder_run_S.
  destruct r as [|[c y] r0]; [reflexivity|].
  destruct (span_eq_spec c ((c, y) :: r0)) as (Hr & Hs & Hx).
  destruct (snd (fo_span_eq c ((c, y) :: r0))) as [|x r''] eqn:Er'.
  - cbn [fst]. rewrite Hr at 2. rewrite app_nil_r. reflexivity.
  - cbn [fst]. rewrite Hr at 2. rewrite !filter_app, IH. f_equal.
    specialize (Hx x r'' eq_refl).
    destruct (d =? c) eqn:Edc.
    + assert (d = c) by lia. subst d.
      rewrite (fa_filter_sub (kf c) (kf c)) by auto.
      cbn [filter]. rewrite Hx.
      rewrite (fa_filter_excl (kf c) (fun p => negb (kf c p))) by (intros p ->; reflexivity).
      rewrite app_nil_r. reflexivity.
    + rewrite (fa_filter_excl (kf d) (kf c)) by (intros p Hp; unfold kf in *; lia).
      cbn [app filter].
      rewrite (fa_filter_sub (kf d) (fun p => negb (kf c p))) by (intros p Hp; unfold kf in *; lia).
      reflexivity.
Qed.

Lemma reorder_run_perm : forall f r, Permutation (fst (fo_reorder_run f r)) r.
Proof.
  induction f as [|f IH]; intros r; [apply Permutation_refl|]. rewrite reorder_run_S.
  destruct r as [|[c y] r0]; [constructor|].
  destruct (span_eq_spec c ((c, y) :: r0)) as (Hr & _ & _).
  destruct (snd (fo_span_eq c ((c, y) :: r0))) as [|x r''] eqn:Er'.
  - cbn [fst]. rewrite Hr at 2. rewrite app_nil_r. apply Permutation_refl.
  - cbn [fst]. rewrite Hr at 2. apply Permutation_app_head.
    eapply Permutation_trans; [apply Permutation_app_head; apply IH|].
    eapply Permutation_trans; [apply Permutation_sym, Permutation_middle|]. constructor. apply fa_filter_perm.
Qed.

Lemma take_run_spec l :
  l = map (fun p : Z * rnode => (Some (fst p), snd p)) (fst (fo_take_run l)) ++ snd (fo_take_run l) /\
  (forall k x r, snd (fo_take_run l) = (k, x) :: r -> k = None).
Proof.
  induction l as [|[[c|] x] l IH]; cbn [fo_take_run].
  - cbn. split; [reflexivity | intros; discriminate].
  - destruct (fo_take_run l) as [a b]. cbn [fst snd map app] in *. destruct IH as [H1 H2]. split; [rewrite <- H1; reflexivity | exact H2].
  - cbn [fst snd map app]. split; [reflexivity|]. intros k y r E. injection E as <- _ _. reflexivity.
Qed.

Section Alt.
Variable cat_in : Z -> Z -> bool.
Variables isw isew : Z -> bool.
Variable sid : cls -> Z.
Variable e : env.
Variable sets : list cls.
Hypothesis Henv : env_ok cat_in isw isew sid e sets.

Notation den := (den e).
Notation tr := (tr sid).
Notation node_ok := (node_ok sets).

Lemma refines_den_a t t' : (forall s, den t s = den t' s) -> rw_refines e t t'.
Proof. intros H s l Hl. apply fd_evals_den in Hl. apply fd_evals_den. rewrite <- H. exact Hl. Qed.

Lemma tr_empty_a x : n_t x = T_Empty -> tr x = NEmpty.
Proof. intros H. rewrite tr_unfold. cbv zeta. rewrite H. reflexivity. Qed.

(* an alternation keeps its shape facts with any two or more branches *)
Lemma node_ok_set_kids_alt x ks : node_ok x -> n_t x = T_Alternate -> (2 <= length ks)%nat -> Forall node_ok ks -> node_ok (set_kids x ks).
Proof.
  intros [Hwf Hs] Ht Hlen Hks. destruct x as [t o ch m n str st kids]. cbn [set_kids n_kids n_t] in *. subst t. split.
  - rewrite fo_wf_unfold in Hwf |- *. cbn [n_t n_kids n_set n_m n_n n_str n_o] in *.
    repeat (apply andb_prop in Hwf; destruct Hwf as [Hwf ?]).
    repeat (apply andb_true_intro; split); try assumption.
    + change (Nat.leb 2 (length ks) = true). apply Nat.leb_le. exact Hlen.
    + apply forallb_forall. intros k Hk. rewrite Forall_forall in Hks. exact (proj1 (Hks k Hk)).
  - cbn [FinalOptLeaf.sets_in] in Hs |- *. destruct Hs as [Hs0' _]. split; [exact Hs0'|].
    clear -Hks. induction Hks as [|k ks [_ Hk] _ IH]; [exact I | split; [exact Hk | exact IH]].
Qed.

(* ---- 631-636: the branches after an Empty that is neither the first nor the last branch *)
Lemma trim_from_spec r :
  fo_trim_from r = r \/
  exists pre E post, r = pre ++ E :: post /\ n_t E = T_Empty /\ post <> [] /\ fo_trim_from r = pre ++ [E].
Proof.
  induction r as [|x r IH]; [left; reflexivity|]. cbn [fo_trim_from].
  destruct ((n_t x =? T_Empty) && negb (fo_is_nil r)) eqn:E1.
  - right. exists [], x, r. apply andb_prop in E1. destruct E1 as [E1 E2].
    split; [reflexivity|]. split; [lia|]. split; [destruct r; [cbn in E2; discriminate E2 | intros E; discriminate E] | reflexivity].
  - destruct IH as [-> | (pre & E & post & -> & H1 & H2 & H3)]; [left; reflexivity|].
    right. exists (x :: pre), E, post. rewrite H3. repeat split; assumption.
Qed.

Lemma trim_hrefines o l : rw_hrefines e (NAlternate o (map tr l)) (NAlternate o (map tr (fo_trim l))).
Proof.
  destruct l as [|b0 r]; [apply rw_hrefines_refl|]. cbn [fo_trim].
  destruct (trim_from_spec r) as [-> | (pre & E & post & -> & Ht & _ & ->)]; [apply rw_hrefines_refl|].
  cbn [map]. rewrite !map_app. cbn [map]. rewrite (tr_empty_a E Ht).
  apply (trim_after_empty e o (tr b0 :: map tr pre) (map tr post)).
Qed.

Lemma trim_ok l : Forall node_ok l -> (2 <= length l)%nat -> Forall node_ok (fo_trim l) /\ (2 <= length (fo_trim l))%nat.
Proof.
  intros Hl Hlen. destruct l as [|b0 r]; [cbn in Hlen; lia|]. cbn [fo_trim]. inversion Hl as [|? ? Hb0 Hr]; subst.
  destruct (trim_from_spec r) as [-> | (pre & E & post & -> & _ & _ & ->)]; [split; assumption|].
  apply Forall_app in Hr. destruct Hr as [Hpre HE]. inversion HE; subst. split.
  - constructor; [exact Hb0|]. apply Forall_app. split; [exact Hpre | constructor; [assumption|constructor]].
  - cbn [length]. rewrite app_length. cbn. lia.
Qed.

(* ---- findBranchOneOrMultiStart / FirstCharOfOneOrMulti: a branch with key c has no result from a state whose
   next character is not c *)
Definition key_spec (c : Z) (x : rnode) : Prop := forall a, (char_at e (pos a) =? c) = false -> den (tr x) a = [].

Lemma lead_dead b c : node_ok b -> (n_t b = T_One \/ n_t b = T_Multi) -> useRTL (n_o b) = false ->
  fo_first_char b = Ok c -> key_spec c b.
Proof.
  intros [Hwf Hs] Ht Hl Hc a Ha. unfold fo_first_char in Hc. destruct Ht as [Ht|Ht].
  - assert (H1 : is_one_family (n_t b) = true) by (rewrite Ht; reflexivity). rewrite H1 in Hc. injection Hc as <-.
    apply (dead_fam cat_in isw isew sid e sets Henv b); try assumption.
    + unfold fam. rewrite H1. reflexivity.
    + left. left. unfold T_One in Ht. exact Ht.
    + rewrite (rtest_one cat_in b _ H1). exact Ha.
  - assert (H1 : is_one_family (n_t b) = false) by (rewrite Ht; reflexivity). rewrite H1 in Hc.
    destruct (n_str b) as [|c0 rest] eqn:Estr; [discriminate|]. injection Hc as <-.
    apply (dead_multi sid e b c0 rest); assumption.
Qed.

Lemma key_ok strict x c y : Z.testbit strict 3 = true -> node_ok x -> fo_key strict x = Ok (Some c, y) -> y = x /\ key_spec c x.
Proof.
  intros Hs3 Hok H. unfold fo_key, fo_fbs in H. rewrite Hs3 in H. cbn [andb] in H.
  assert (Hlead : forall b, (if (n_t b =? T_One) || (n_t b =? T_Multi) then Some b else None) = Some b ->
            n_t b = T_One \/ n_t b = T_Multi) by (intros b Hb; destruct ((n_t b =? T_One) || (n_t b =? T_Multi)) eqn:E; [lia|discriminate]).
  destruct (n_t x =? T_Concatenate) eqn:Econ.
  - destruct (n_kids x) as [|b ks] eqn:Ek; [discriminate|]. cbn [bind] in H.
    destruct ((n_t b =? T_One) || (n_t b =? T_Multi)) eqn:Elead; [|injection H as ? ?; discriminate].
    destruct (useRTL (n_o b)) eqn:Er; [injection H as ? ?; discriminate|].
    destruct (fo_first_char b) as [c1| | |] eqn:Ec; cbn [bind] in H; try discriminate.
    injection H as <- <-. split; [reflexivity|].
    assert (Hb : node_ok b) by (apply (node_ok_kid sets x); [exact Hok | rewrite Ek; left; reflexivity]).
    pose proof (lead_dead b c1 Hb ltac:(lia) Er Ec) as Hd.
    intros a Ha. rewrite (tr_concat sid x) by lia. rewrite Ek. cbn [map]. rewrite fd_den_concat. cbn [den_seq].
    rewrite (Hd a Ha). reflexivity.
  - cbn [bind] in H.
    destruct ((n_t x =? T_One) || (n_t x =? T_Multi)) eqn:Elead; [|injection H as ? ?; discriminate].
    destruct (useRTL (n_o x)) eqn:Er; [injection H as ? ?; discriminate|].
    destruct (fo_first_char x) as [c1| | |] eqn:Ec; cbn [bind] in H; try discriminate.
    injection H as <- <-. split; [reflexivity|]. apply (lead_dead x c1 Hok ltac:(lia) Er Ec).
Qed.

Definition okkey (p : option Z * rnode) : Prop := match fst p with Some c => key_spec c (snd p) | None => True end.

Lemma keyed_ok strict l keyed : Z.testbit strict 3 = true -> Forall node_ok l ->
  fo_map_res (fo_key strict) l = Ok keyed -> map snd keyed = l /\ Forall okkey keyed.
Proof.
  intros Hs3 Hl H. apply fo_map_res_Forall2 in H. induction H as [|x p l keyed Hx _ IH]; [split; constructor|].
  inversion Hl as [|? ? Hx0 Hl0]; subst. destruct (IH Hl0) as [H1 H2].
  assert (Hp : snd p = x /\ okkey p).
  { destruct p as [[c|] y].
    - destruct (key_ok strict x c y Hs3 Hx0 Hx) as [-> Hk]. split; [reflexivity | exact Hk].
    - split; [|exact I]. unfold fo_key in Hx. destruct (fo_fbs x) as [s| | |]; cbn [bind] in Hx; try discriminate.
      destruct s as [b|]; [|injection Hx as <-; reflexivity].
      destruct (Z.testbit strict 3 && useRTL (n_o b)); [injection Hx as <-; reflexivity|].
      destruct (fo_first_char b); cbn [bind] in Hx; discriminate. }
  destruct Hp as [Hp1 Hp2]. split; [cbn [map]; rewrite Hp1, H1; reflexivity | constructor; assumption].
Qed.

(* from a state, only the branches keyed by the next character count *)
Lemma flat_filter (L : list (Z * rnode)) s : Forall (fun p => key_spec (fst p) (snd p)) L ->
  flat_map (fun p => den (tr (snd p)) s) L = flat_map (fun p => den (tr (snd p)) s) (filter (kf (char_at e (pos s))) L).
Proof.
  induction 1 as [|p L Hp _ IH]; [reflexivity|]. cbn [flat_map filter].
  destruct (kf (char_at e (pos s)) p) eqn:Ek.
  - cbn [flat_map]. rewrite IH. reflexivity.
  - rewrite (Hp s) by (unfold kf in Ek; lia). exact IH.
Qed.

Lemma reorder_run_den f (r : list (Z * rnode)) s : Forall (fun p => key_spec (fst p) (snd p)) r ->
  flat_map (fun p => den (tr (snd p)) s) (fst (fo_reorder_run f r)) = flat_map (fun p => den (tr (snd p)) s) r.
Proof.
  intros Hr. rewrite (flat_filter r s Hr), flat_filter, reorder_run_filter; [reflexivity|].
  eapply Permutation_Forall; [apply Permutation_sym, reorder_run_perm | exact Hr].
Qed.

Lemma fo_reorder_S f l :
  fo_reorder (S f) l =
  match l with
  | [] => ([], false)
  | (None, x) :: r => (x :: fst (fo_reorder f r), snd (fo_reorder f r))
  | (Some _, _) :: _ =>
      let run := fst (fo_take_run l) in
      let rest := snd (fo_take_run l) in
      let rr := if 3 <=? zlen run then fo_reorder_run (S (length run)) run else (run, false) in
      match rest with
      | [] => (map snd (fst rr), snd rr)
      | (_, x) :: rest' => (map snd (fst rr) ++ x :: fst (fo_reorder f rest'), snd rr || snd (fo_reorder f rest'))
      end
  end.
Proof.
  cbn [fo_reorder]. destruct l as [|[[c|] x] r]; [reflexivity| |].
  - destruct (fo_take_run ((Some c, x) :: r)) as [run rest]. cbn [fst snd]. cbv zeta.
    destruct (if 3 <=? zlen run then fo_reorder_run (S (length run)) run else (run, false)) as [run' b1]. cbn [fst snd].
    destruct rest as [|[k y] rest']; [reflexivity|]. destruct (fo_reorder f rest') as [r' b2]. reflexivity.
  - destruct (fo_reorder f r) as [r' b]. reflexivity.
Qed.

Lemma reorder_sound : forall f l, Forall okkey l ->
  Permutation (fst (fo_reorder f l)) (map snd l) /\
  forall s, flat_map (fun x => den (tr x) s) (fst (fo_reorder f l)) = flat_map (fun x => den (tr x) s) (map snd l).
Proof.
  induction f as [|f IH]; intros l Hl; [split; [apply Permutation_refl | reflexivity]|].
  rewrite fo_reorder_S. destruct l as [|[[c|] x] r].
  - split; [constructor | reflexivity].
  - cbv zeta. destruct (take_run_spec ((Some c, x) :: r)) as [Hsplit Hnone].
    set (run := fst (fo_take_run ((Some c, x) :: r))) in *. set (rest := snd (fo_take_run ((Some c, x) :: r))) in *.
    rewrite Hsplit in Hl. apply Forall_app in Hl. destruct Hl as [Hrun Hrest].
    assert (Hrun' : Forall (fun p => key_spec (fst p) (snd p)) run).
    { clear -Hrun. induction run as [|p run IHr]; [constructor|]. cbn [map] in Hrun. inversion Hrun; subst. constructor; [assumption | apply IHr; assumption]. }
    set (rr := if 3 <=? zlen run then fo_reorder_run (S (length run)) run else (run, false)).
    assert (Hrr : Permutation (fst rr) run /\ forall s, flat_map (fun p => den (tr (snd p)) s) (fst rr) = flat_map (fun p => den (tr (snd p)) s) run).
    { unfold rr. destruct (3 <=? zlen run); [|split; [apply Permutation_refl | reflexivity]].
      split; [apply reorder_run_perm | intros s; apply reorder_run_den; exact Hrun']. }
    destruct Hrr as [Hp Hd].
    assert (Hmap : map snd (map (fun p : Z * rnode => (Some (fst p), snd p)) run) = map snd run) by (rewrite map_map; reflexivity).
    rewrite Hsplit, map_app, Hmap.
    destruct rest as [|[k y] rest'] eqn:Erest.
    + cbn [fst map]. rewrite app_nil_r. split; [apply Permutation_map; exact Hp|].
      intros s. rewrite !fa_flat_map_map. apply Hd.
    + cbn [fst map snd]. pose proof (Forall_inv_tail Hrest) as Hrest'. destruct (IH rest' Hrest') as [Hp2 Hd2]. split.
      * apply Permutation_app; [apply Permutation_map; exact Hp | constructor; exact Hp2].
      * intros s. rewrite !flat_map_app. cbn [flat_map]. rewrite Hd2, !fa_flat_map_map, Hd. reflexivity.
  - cbn [fst map snd]. pose proof (Forall_inv_tail Hl) as Hr. destruct (IH r Hr) as [Hp Hd]. split; [constructor; exact Hp|].
    intros s. cbn [flat_map]. rewrite Hd. reflexivity.
Qed.

(* ---- 612-707 as a whole, up to the re-reduction of the reordered alternation *)
Theorem atomic_alt_sound strict child keyed f : Z.testbit strict 3 = true -> node_ok child -> n_t child = T_Alternate ->
  fo_map_res (fo_key strict) (fo_trim (n_kids child)) = Ok keyed ->
  node_ok (set_kids child (fst (fo_reorder f keyed))) /\
  rw_hrefines e (tr child) (tr (set_kids child (fst (fo_reorder f keyed)))).
Proof.
  intros Hs3 Hok Ht Hkeyed.
  assert (Hkids : Forall node_ok (n_kids child)) by (rewrite Forall_forall; intros k Hk; apply (node_ok_kid sets child); assumption).
  assert (Hlen : (2 <= length (n_kids child))%nat).
  { pose proof (fo_wf_arity child (proj1 Hok)) as Har. rewrite Ht in Har. cbn in Har. apply Nat.leb_le. exact Har. }
  destruct (trim_ok _ Hkids Hlen) as [Htk Htl].
  destruct (keyed_ok strict _ keyed Hs3 Htk Hkeyed) as [Hsnd Hkeys].
  destruct (reorder_sound f keyed Hkeys) as [Hp Hd]. rewrite Hsnd in Hp, Hd.
  assert (Hbrs : Forall node_ok (fst (fo_reorder f keyed))) by (eapply Permutation_Forall; [apply Permutation_sym; exact Hp | exact Htk]).
  assert (Hbl : (2 <= length (fst (fo_reorder f keyed)))%nat) by (rewrite (Permutation_length Hp); exact Htl).
  split; [apply node_ok_set_kids_alt; assumption|].
  destruct (set_kids_fields child (fst (fo_reorder f keyed))) as (Ht' & Ho' & _ & _ & _ & _ & _ & Hk2).
  rewrite (tr_alt sid child Ht), (tr_alt sid (set_kids child _)) by (rewrite Ht'; exact Ht). rewrite Ho', Hk2.
  eapply rw_hrefines_trans; [apply trim_hrefines|].
  apply rw_refines_hrefines. apply refines_den_a. intros s.
  rewrite !fd_den_alt, !fa_flat_map_map. symmetry. apply Hd.
Qed.

End Alt.
