(* char_in_denote under IgnoreCase: assembly over the bracket-expression syntax, for the order of
   scanCharSet after fix dd13520 (fold case on the members as written, then restore the negate flag and
   canonicalize; the tree pass expands the finished class once more). *)
From Coq Require Import FMapPositive ZifyBool.
From Verif Require Import Base.Prelude Model.CharClass Model.FoldD
  Proofs.CharClassRanges Proofs.CharClassProofs Proofs.CharClassElab
  Proofs.CharClassFold Proofs.CharClassFoldThm Proofs.CharClassCi Proofs.CharClassCi2 Proofs.CharClassCi3
  Proofs.CharClassCi4 Proofs.CharClassCi5.

Section CiDenote.
  Variable cat_in : Z -> Z -> bool.
  Variable simple_fold to_lower : Z -> Z.
  Hypothesis agree : forall x, In x dom_t -> simple_fold x = fold_t x /\ to_lower x = lower_t x.
  Variable B : Prop.
  Hypothesis Hout : B -> outside_ok simple_fold.
  Variable o : opts.
  Hypothesis Hci : o_ci o = true.

  Notation den := (denote cat_in simple_fold orbit_fuel).
  Notation litd := (lit_den cat_in simple_fold orbit_fuel o).
  Notation catd := (cat_den cat_in simple_fold orbit_fuel o).
  Notation ace := (add_case_equivalences cat_in simple_fold orbit_fuel).
  Notation fin' := (fin B).

  (* code-point members allowed under IgnoreCase lie in the good part of the table *)
  Lemma litd_good it x : wf_item it -> ci_item_ok o it -> litd it x = true -> In x good_dom.
  Proof.
    intros Hw Hok H. unfold lit_den in H.
    destruct it as [a b|ng|ng|ng|ng name|ng k]; cbn [item_lit_exp] in H; cbn in Hok.
    - cbn in H. rewrite orb_false_r in H. apply Hok. lia.
    - destruct (o_ecma o || o_re2 o) eqn:E; [|discriminate]. rewrite (Hok eq_refl) in H.
      cbn [existsb] in H. rewrite den_neg_if in H. cbn [denote] in H. rewrite xorb_false_l, orb_false_r in H.
      apply good_ecma_digit. unfold mem, in_range, ecma_digit_ranges; cbn [existsb fst snd]. rewrite orb_false_r. exact H.
    - destruct (o_ecma o) eqn:Ee.
      + cbn [orb] in Hok. rewrite (Hok eq_refl) in H. cbn [existsb] in H.
        rewrite den_neg_if, den_ranges_exp, xorb_false_l, orb_false_r in H. apply good_ecma_space. exact H.
      + cbn [orb] in Hok. destruct (o_re2 o) eqn:Er; [|discriminate]. rewrite (Hok eq_refl) in H. cbn [existsb] in H.
        rewrite den_neg_if, den_ranges_exp, xorb_false_l, orb_false_r in H. apply good_re2_space. exact H.
    - destruct (o_ecma o || o_re2 o) eqn:E; [|discriminate]. rewrite (Hok eq_refl) in H.
      cbn [existsb] in H. rewrite den_neg_if, den_ranges_exp, xorb_false_l, orb_false_r in H. apply good_ecma_word. exact H.
    - discriminate.
    - subst ng. cbn in Hw. cbn [existsb] in H.
      rewrite den_neg_if, den_ranges_exp, xorb_false_l, orb_false_r in H. apply (good_posix k Hw). exact H.
  Qed.

  Lemma litd_range a b x : litd (IRange a b) x = (a <=? x) && (x <=? b).
  Proof. unfold lit_den. cbn. apply orb_false_r. Qed.

  (* the code-point members of one bracket level are admissible *)
  Lemma litd_okp items : Forall wf_item items -> Forall (ci_item_okx B o items) items ->
    okp B (fun x => existsb (fun it => litd it x) items).
  Proof.
    intros Hw Hok x Hx. apply existsb_exists in Hx. destruct Hx as [it [Hit Hx]].
    rewrite Forall_forall in Hw, Hok. specialize (Hw it Hit). specialize (Hok it Hit).
    destruct it as [a b|ng|ng|ng|ng name|ng k];
      try (left; apply (litd_good _ x Hw Hok Hx)).
    cbn [ci_item_okx] in Hok. rewrite litd_range in Hx. destruct Hok as [Hok|(HB & Ha & Hb & a' & b' & Hin & Hi)].
    - left. apply Hok. lia.
    - right. cbn [wf_item] in Hw. split; [exact HB|]. split; [unfold valid_rune; lia|]. split.
      + intros y Hy. apply existsb_exists. exists (IRange a b). split; [exact Hit|]. rewrite litd_range. lia.
      + destruct Hi as [Hi|Hi]; [right|left]; apply existsb_exists; exists (IRange a' b');
          (split; [exact Hin|rewrite litd_range; lia]).
  Qed.

  Lemma fine_init : fine cat_in (Cls [] [] None true false None) (fun _ => false) (fun _ => false).
  Proof. split; [intros _; split; reflexivity|intros H; discriminate]. Qed.

  (* a single member [x, x] of a canonical admissible range list is a good rune *)
  Lemma single_good R x : canonical_ranges R -> okp B (mem R) -> In (x, x) R -> In x good_dom.
  Proof.
    intros Hc Hg Hin. destruct (canonical_gap R (x, x) Hc Hin) as (_ & G1 & G2). cbn [fst snd] in G1, G2.
    assert (Hx : mem R x = true) by (apply mem_true_iff; exists (x, x); split; [exact Hin|cbn; lia]).
    destruct (Hg x Hx) as [G|(_ & Hv & Hcov & _)]; [exact G|].
    destruct (x <? 128) eqn:E; [apply ascii_good; unfold valid_rune in Hv; lia|]. exfalso.
    destruct (x <? 65536) eqn:E2.
    - rewrite (Hcov (x + 1)) in G1 by lia. discriminate.
    - rewrite (Hcov (x - 1)) in G2 by lia. discriminate.
  Qed.

  (* what one bracket level builds.  sbc is the finished subtracted class (if any), sbsem what it means. *)
  Lemma scan_level ng items (sbc : option cls) (sbsem : Z -> bool) :
    Forall wf_item items -> Forall (ci_item_okx B o items) items ->
    match sbc with
    | Some sc => fin' sc /\ forall z, In z dom_t -> plain_in cat_in sc z = sbsem z
    | None => forall z, sbsem z = false
    end ->
    let c0 := fold_left (elab_item cat_in o) items (Cls [] [] None true false None) in
    let c1 := match sbc with Some sc => add_subtraction c0 sc | None => c0 end in
    exists c2, ace (add_lowercase cat_in to_lower c1) = Ok c2 /\
      fin' (canonicalize cat_in (set_neg c2 ng)) /\
      forall z, In z dom_t ->
        plain_in cat_in (canonicalize cat_in (set_neg c2 ng)) z =
        xorb ng (den (CUnion (CFold (CUnion (flat_map (item_lit_exp o) items)) :: flat_map (item_cat_exp o) items)) z)
        && negb (sbsem z).
  Proof.
    intros Hw Hok Hsb c0 c1.
    assert (Hnr : Forall (ci_item_nr o) items).
    { apply Forall_forall. intros it Hit. rewrite Forall_forall in Hok. apply (ci_item_okx_nr B o items it). auto. }
    assert (Hg : Forall (item_guard o) items).
    { apply Forall_forall. intros it Hit. rewrite Forall_forall in Hnr. apply ci_item_nr_guard. auto. }
    destruct (items_step cat_in simple_fold orbit_fuel o items _ scan_inv_init Hw Hg) as [Hinv _].
    pose proof (fine_items cat_in simple_fold to_lower agree o Hci items _ _ _ scan_inv_init fine_init Hw Hnr) as Hf.
    fold c0 in Hinv, Hf. destruct Hinv as (I1 & I2 & I3 & I4 & I5 & I6). destruct Hf as [F1 F2].
    assert (HL : forall x, (false || existsb (fun it => litd it x) items) =
                           den (CUnion (flat_map (item_lit_exp o) items)) x)
      by (intros x; cbn [orb denote]; rewrite existsb_flat_map; reflexivity).
    assert (HK : forall x, (false || existsb (fun it => catd it x) items) =
                           existsb (fun e => den e x) (flat_map (item_cat_exp o) items))
      by (intros x; cbn [orb]; rewrite existsb_flat_map; reflexivity).
    (* the shape of c1 *)
    assert (R1 : ranges c1 = ranges c0) by (unfold c1; destruct sbc; reflexivity).
    assert (K1 : cats c1 = cats c0) by (unfold c1; destruct sbc; reflexivity).
    assert (N1 : neg c1 = true) by (unfold c1; destruct sbc; exact I1).
    assert (A1 : anything c1 = anything c0) by (unfold c1; destruct sbc; reflexivity).
    assert (B1 : ascii c1 = None) by (unfold c1; destruct sbc; exact I3).
    assert (S1 : sub c1 = sbc) by (unfold c1; destruct sbc; [reflexivity|exact I2]).
    (* the subtracted class goes through addCaseEquivalences once more *)
    assert (Hsub : exists sb', match sbc with
                               | None => sb' = None
                               | Some s => exists s', ace s = Ok s' /\ sb' = Some s'
                               end /\
                               match sb' with Some s => fin' s | None => True end /\
                               forall z, In z dom_t -> opt_in cat_in sb' z = sbsem z).
    { destruct sbc as [sc|].
      - destruct Hsb as [Fs Ps]. destruct (ace_fin cat_in simple_fold to_lower agree B Hout sc Fs) as (s' & E' & F' & P').
        exists (Some s'). split; [exists s'; auto|]. split; [exact F'|].
        intros z Hz. cbn [opt_in]. rewrite (P' z Hz). apply Ps. exact Hz.
      - exists None. split; [reflexivity|]. split; [exact I|]. intros z _. cbn. symmetry. apply Hsb. }
    destruct Hsub as (sb' & Hace & Fsb & Psb).
    destruct (anything c0) eqn:Ea.
    - (* X and not-X among the categories: the class is "anything" *)
      assert (Hl : add_lowercase cat_in to_lower c1 = c1) by (unfold add_lowercase; rewrite A1; reflexivity).
      rewrite Hl.
      destruct c1 as [rs cs sb ngc an asc] eqn:Ec1. cbn [ranges cats neg anything ascii sub] in *. subst rs cs ngc an asc sb.
      set (c2 := Cls (ranges c0) (cats c0) sb' true true None).
      assert (E2 : ace (Cls (ranges c0) (cats c0) sbc true true None) = Ok c2).
      { cbn [add_case_equivalences]. destruct sbc as [sc|].
        - destruct Hace as (s' & E' & ->). rewrite E'. reflexivity.
        - subst sb'. reflexivity. }
      exists c2. split; [exact E2|].
      set (c3 := set_neg c2 ng).
      assert (Hw3 : wf_ranges (ranges c3)) by exact I4.
      destruct (canonicalize_same_set cat_in c3 Hw3) as (T1 & T2 & T3 & T4 & T5).
      split.
      + apply fin_intro.
        * apply (canon_level cat_in simple_fold to_lower agree B); [exact Hw3|reflexivity|left; reflexivity].
        * rewrite T1. exact Fsb.
      + intros z Hz. pose proof (dom_valid z Hz) as Hv.
        rewrite plain_in_top. rewrite (T5 z Hv). unfold sub_in. rewrite T1. cbn [sub c3 c2 set_neg].
        change (match sb' with Some s => plain_in cat_in s z | None => false end) with (opt_in cat_in sb' z).
        rewrite (Psb z Hz). f_equal.
        rewrite top_in_body. cbn [neg c3 c2 set_neg]. f_equal.
        change (body cat_in c3 z) with (body cat_in c0 z).
        rewrite (any_inv_body cat_in c0 z I6 Ea Hv).
        cbn [denote existsb]. rewrite <- HK. rewrite (F2 eq_refl z). rewrite orb_true_r. reflexivity.
    - destruct (F1 eq_refl) as [G1 G2].
      assert (Hokp : okp B (mem (ranges c1))).
      { rewrite R1. eapply okp_ext; [|exact (litd_okp items Hw Hok)].
        intros x. rewrite G1. reflexivity. }
      destruct (ci_closure_gen cat_in simple_fold to_lower agree B Hout c1 sb')
        as (c2 & Hc2 & M1 & M2 & M3 & M4 & M5 & M6 & M7 & M8 & M9).
      { exact A1. }
      { rewrite R1. exact I4. }
      { exact Hokp. }
      { intros x Hx. apply (single_good (ranges c1) x); [rewrite R1; exact I5|exact Hokp|exact Hx]. }
      { left. exact N1. }
      { rewrite S1. exact Hace. }
      exists c2. split; [exact Hc2|].
      set (c3 := set_neg c2 ng).
      assert (Hw3 : wf_ranges (ranges c3)) by exact M7.
      destruct (canonicalize_same_set cat_in c3 Hw3) as (T1 & T2 & T3 & T4 & T5).
      assert (Hcl : closed_t (ranges c2)).
      { intros x Hx y Hy. pose proof (orb_in_dom x y Hx Hy) as Hyd.
        rewrite (M8 y Hyd), (M8 x Hx).
        rewrite (orbit_agree cat_in simple_fold to_lower agree y Hyd), (orbit_agree cat_in simple_fold to_lower agree x Hx).
        destruct (rel_facts x Hx) as (Fx & _). destruct (Fx y Hy) as (_ & Hxy & Hsub).
        destruct (rel_facts y Hyd) as (Fy & _). destruct (Fy x Hxy) as (_ & _ & Hsub').
        apply eq_true_iff_eq. rewrite !existsb_exists. split; intros (w & W1 & W2); exists w; auto. }
      split.
      + apply fin_intro.
        * apply (canon_level cat_in simple_fold to_lower agree B); [exact Hw3|cbn [ascii c3 set_neg]; rewrite M5; exact B1|right; split; [exact Hcl|exact M9]].
        * rewrite T1. cbn [sub c3 set_neg]. rewrite M3. exact Fsb.
      + intros z Hz. pose proof (dom_valid z Hz) as Hv.
        rewrite plain_in_top. rewrite (T5 z Hv). unfold sub_in. rewrite T1. cbn [sub c3 set_neg]. rewrite M3.
        change (match sb' with Some s => plain_in cat_in s z | None => false end) with (opt_in cat_in sb' z).
        rewrite (Psb z Hz). f_equal.
        unfold top_in. cbn [neg cats ranges c3 set_neg]. rewrite M2, K1, (M8 z Hz), G2. f_equal.
        cbn [denote existsb]. rewrite <- HK. f_equal.
        apply existsb_ext'. intros x. rewrite R1, G1. apply HL.
  Qed.

  (* a finished class and what it means *)
  Definition done (s : csyn) (c : cls) : Prop :=
    fin' c /\ forall z, In z dom_t -> plain_in cat_in c z = den (sem o s) z.

  Theorem scan_ci s : wf_syn s -> ci_syn_okx B o s ->
    exists c, scan_char_set cat_in simple_fold to_lower orbit_fuel o s = Ok c /\ done s c.
  Proof.
    induction s as [ng items | ng items s' IH] using csyn_induction; intros Hw Hok;
      cbn in Hw, Hok; destruct Hw as [Hw Hw']; destruct Hok as [Hok Hok'].
    - destruct (scan_level ng items None (fun _ => false) Hw Hok (fun _ => eq_refl)) as (c2 & E2 & F2 & P2).
      cbn zeta in E2. cbn [scan_char_set bind]. rewrite Hci. rewrite E2. cbn [bind].
      eexists. split; [reflexivity|]. split; [exact F2|].
      intros z Hz. rewrite (P2 z Hz). rewrite sem_unfold. cbn zeta. rewrite Hci. rewrite den_neg_if.
      cbn [negb]. rewrite andb_true_r. reflexivity.
    - destruct (IH Hw' Hok') as (sc & Esc & Fsc & Psc).
      destruct (scan_level ng items (Some sc) (den (sem o s')) Hw Hok (conj Fsc Psc)) as (c2 & E2 & F2 & P2).
      cbn zeta in E2. cbn [scan_char_set]. rewrite Esc. cbn [bind]. rewrite Hci. rewrite E2. cbn [bind].
      eexists. split; [reflexivity|]. split; [exact F2|].
      intros z Hz. rewrite (P2 z Hz). rewrite sem_unfold. cbn zeta. rewrite Hci. cbn [denote]. rewrite den_neg_if.
      reflexivity.
  Qed.

  (* the tree pass: addCaseEquivalences on the finished class *)
  Theorem elab_ci s : wf_syn s -> ci_syn_okx B o s ->
    exists c, elab cat_in simple_fold to_lower orbit_fuel s o = Ok c /\ done s c.
  Proof.
    intros Hw Hok. destruct (scan_ci s Hw Hok) as (c & Ec & Fc & Pc).
    destruct (ace_fin cat_in simple_fold to_lower agree B Hout c Fc) as (c' & Ec' & Fc' & Pc').
    exists c'. split; [unfold elab; rewrite Ec; cbn [bind]; rewrite Hci; exact Ec'|].
    split; [exact Fc'|]. intros z Hz. rewrite (Pc' z Hz). apply Pc. exact Hz.
  Qed.

  (* char_in_denote under IgnoreCase, on the runes of the table *)
  Theorem char_in_denote_cix s c z :
    wf_syn s -> ci_syn_okx B o s -> In z dom_t ->
    elab cat_in simple_fold to_lower orbit_fuel s o = Ok c ->
    char_in cat_in c z = den (sem o s) z.
  Proof.
    intros Hw Hok Hz He. destruct (elab_ci s Hw Hok) as (c' & Hc' & D1 & D3). rewrite Hc' in He. injection He as <-.
    destruct (fin_canonical B c' D1) as [C1 C2].
    destruct (lookup_agree cat_in c' C1 (no_bitmaps_ok cat_in c' C2) z) as [_ L]. rewrite L. apply D3. exact Hz.
  Qed.

  Theorem elab_canonical_cix s c :
    wf_syn s -> ci_syn_okx B o s ->
    elab cat_in simple_fold to_lower orbit_fuel s o = Ok c -> canonical c /\ no_bitmaps c.
  Proof.
    intros Hw Hok He. destruct (elab_ci s Hw Hok) as (c' & Hc' & D1 & _). rewrite Hc' in He. injection He as <-.
    apply (fin_canonical B c' D1).
  Qed.

End CiDenote.

(* ---- the two instances *)
(* members in the good part of the table only: nothing is assumed about SimpleFold outside the table *)
Theorem char_in_denote_ci (cat_in : Z -> Z -> bool) (simple_fold to_lower : Z -> Z)
  (agree : forall x, In x dom_t -> simple_fold x = fold_t x /\ to_lower x = lower_t x)
  (o : opts) (Hci : o_ci o = true) s c z :
  wf_syn s -> ci_syn_ok o s -> In z dom_t ->
  elab cat_in simple_fold to_lower orbit_fuel s o = Ok c ->
  char_in cat_in c z = denote cat_in simple_fold orbit_fuel (sem o s) z.
Proof.
  intros Hw Hok. apply (char_in_denote_cix cat_in simple_fold to_lower agree False (fun f => match f with end) o Hci);
    [exact Hw|apply ci_syn_ok_x; exact Hok].
Qed.

(* the extended domain: complement-shaped ranges admitted *)
Definition ci_syn_ok_ext (o : opts) (s : csyn) : Prop := ci_syn_okx True o s.

Lemma ci_syn_ok_ext_of o s : ci_syn_ok o s -> ci_syn_ok_ext o s.
Proof. apply ci_syn_ok_x. Qed.

Theorem char_in_denote_ci_ext (cat_in : Z -> Z -> bool) (simple_fold to_lower : Z -> Z)
  (agree : forall x, In x dom_t -> simple_fold x = fold_t x /\ to_lower x = lower_t x)
  (Hout : outside_ok simple_fold)
  (o : opts) (Hci : o_ci o = true) s c z :
  wf_syn s -> ci_syn_ok_ext o s -> In z dom_t ->
  elab cat_in simple_fold to_lower orbit_fuel s o = Ok c ->
  char_in cat_in c z = denote cat_in simple_fold orbit_fuel (sem o s) z.
Proof.
  apply (char_in_denote_cix cat_in simple_fold to_lower agree True (fun _ => Hout) o Hci).
Qed.

Theorem elab_canonical_ci_ext (cat_in : Z -> Z -> bool) (simple_fold to_lower : Z -> Z)
  (agree : forall x, In x dom_t -> simple_fold x = fold_t x /\ to_lower x = lower_t x)
  (Hout : outside_ok simple_fold)
  (o : opts) (Hci : o_ci o = true) s c :
  wf_syn s -> ci_syn_ok_ext o s ->
  elab cat_in simple_fold to_lower orbit_fuel s o = Ok c -> canonical c /\ no_bitmaps c.
Proof.
  apply (elab_canonical_cix cat_in simple_fold to_lower agree True (fun _ => Hout) o Hci).
Qed.

(* the table itself as oracle satisfies outside_ok: outside the table fold_t is the identity (fold_t_outside) *)
Lemma outside_ok_fold_t : outside_ok fold_t.
Proof.
  intros x Hv Hn. exists []. split; [|intros y []].
  unfold case_equivalences. change orbit_fuel with (S 7). cbn [fold_orbit].
  rewrite (fold_t_outside x Hn), Z.eqb_refl. reflexivity.
Qed.
