(* MayOverlap is sound: when it answers false the two sets share no rune. *)
From Verif Require Import Base.Prelude Model.CharClass Proofs.CharClassRanges Proofs.CharClassProofs.
From Coq Require Import ZifyBool.

Lemma ranges_eqb_eq a : forall b, ranges_eqb a b = true -> a = b.
Proof.
  induction a as [|[x y] a IH]; intros [|[u v] b]; cbn; try discriminate; [reflexivity|].
  intros H. apply andb_prop in H. destruct H as [H1 H2]. apply andb_prop in H1. destruct H1 as [H0 H1].
  rewrite (IH b H2). f_equal. f_equal; lia.
Qed.

Lemma cats_eqb_eq a : forall b, cats_eqb a b = true -> a = b.
Proof.
  induction a as [|[x y] a IH]; intros [|[u v] b]; cbn; try discriminate; [reflexivity|].
  intros H. apply andb_prop in H. destruct H as [H1 H2]. apply andb_prop in H1. destruct H1 as [H0 H1].
  rewrite (IH b H2). apply Bool.eqb_prop in H0. f_equal. f_equal; [exact H0|lia].
Qed.

Section Overlap.
  Variable cat_in : Z -> Z -> bool.

  Lemma cls_equals_plain a : forall b, cls_equals false a b = true ->
    forall ch, plain_in cat_in a ch = plain_in cat_in b ch.
  Proof.
    induction a as [rs cs ng an asc | rs cs s ng an asc IH] using cls_induction;
      intros [rs2 cs2 sb2 ng2 an2 asc2] H ch; cbn [cls_equals orb] in H;
      repeat (apply andb_prop in H; let H' := fresh "E" in destruct H as [H H']).
    - destruct sb2; [discriminate|].
      apply Bool.eqb_prop in H. apply ranges_eqb_eq in E1. apply cats_eqb_eq in E0. subst. reflexivity.
    - destruct sb2 as [s2|]; [|discriminate].
      apply Bool.eqb_prop in H. apply ranges_eqb_eq in E1. apply cats_eqb_eq in E0. subst.
      cbn [plain_in]. rewrite (IH s2 E ch). reflexivity.
  Qed.

  Lemma cls_equals_ignore a b : cls_equals true a b = true ->
    forall ch, plain_in cat_in a ch = xorb (xorb (neg a) (neg b)) (top_in cat_in b ch) && negb (sub_in cat_in b ch).
  Proof.
    destruct a as [rs cs sb ng an asc], b as [rs2 cs2 sb2 ng2 an2 asc2]. intros H ch. cbn [cls_equals orb] in H.
    repeat (apply andb_prop in H; let H' := fresh "E" in destruct H as [H H']).
    apply ranges_eqb_eq in E1. apply cats_eqb_eq in E0. subst.
    cbn [plain_in]. unfold top_in, sub_in; cbn [neg ranges cats sub].
    assert (Hs : match sb with Some s => plain_in cat_in s ch | None => false end =
                 match sb2 with Some s => plain_in cat_in s ch | None => false end).
    { destruct sb as [s|], sb2 as [s2|]; try discriminate; [|reflexivity]. apply cls_equals_plain; auto. }
    rewrite Hs. destruct ng, ng2, (mem rs2 ch || cats_in cat_in cs2 ch); reflexivity.
  Qed.

  Lemma any_in_span_false s1 : forall n lo, any_in_span cat_in s1 lo n = false ->
    forall ch, lo <= ch < lo + Z.of_nat n -> char_in cat_in s1 ch = false.
  Proof.
    induction n as [|n IH]; intros lo H ch Hc; [lia|].
    cbn [any_in_span] in H. destruct (char_in cat_in s1 lo) eqn:E; [discriminate|].
    destruct (ch =? lo) eqn:E2; [assert (ch = lo) by lia; subst; exact E|].
    apply (IH (lo + 1) H). lia.
  Qed.

  Lemma overlap_by_enumeration_false s1 rs : overlap_by_enumeration cat_in s1 rs = false ->
    forall ch, mem rs ch = true -> char_in cat_in s1 ch = false.
  Proof.
    induction rs as [|[a b] t IH]; intros H ch Hm; [discriminate|].
    cbn [overlap_by_enumeration] in H.
    destruct (any_in_span cat_in s1 a (Z.to_nat (b - a + 1))) eqn:E; [discriminate|].
    rewrite mem_cons in Hm. apply orb_prop in Hm. destruct Hm as [Hm|Hm]; [|apply IH; auto].
    unfold in_range in Hm; cbn [fst snd] in Hm.
    apply (any_in_span_false s1 _ _ E). lia.
  Qed.

  (* the Unicode facts behind knownDistinctSets (checked against the running Go toolchain by the
     harness): white space, and the ECMAScript \s characters, are neither decimal digits nor word
     characters *)
  Definition space_facts : Prop :=
    forall ch, cat_in cat_space ch = true \/ mem ecma_space_ranges ch = true ->
               cat_in cat_Nd ch = false /\ cat_in cat_word ch = false /\ mem ecma_word_ranges ch = false.

  Lemma plain_space ch : plain_in cat_in space_class ch = cat_in cat_space ch.
  Proof. cbn. unfold cat_accepts; cbn. destruct (cat_in cat_space ch); reflexivity. Qed.
  Lemma plain_word ch : plain_in cat_in word_class ch = cat_in cat_word ch.
  Proof. cbn. unfold cat_accepts; cbn. destruct (cat_in cat_word ch); reflexivity. Qed.
  Lemma plain_digit ch : plain_in cat_in digit_class ch = cat_in cat_Nd ch.
  Proof. cbn. unfold cat_accepts; cbn. destruct (cat_in cat_Nd ch); reflexivity. Qed.
  Lemma plain_ranges rs ch : plain_in cat_in (ranges_cls rs) ch = mem rs ch.
  Proof. cbn. destruct (mem rs ch); reflexivity. Qed.

  Lemma ecma_digit_word ch : mem ecma_digit_ranges ch = true -> mem ecma_word_ranges ch = true.
  Proof. unfold mem, in_range, ecma_digit_ranges, ecma_word_ranges; cbn [existsb fst snd]. lia. Qed.

  Lemma known_distinct_sound s1 s2 : space_facts -> known_distinct_sets s1 s2 = true ->
    forall ch, plain_in cat_in s1 ch = true -> plain_in cat_in s2 ch = true -> False.
  Proof.
    intros Hf H ch H1 H2. unfold known_distinct_sets in H. apply andb_prop in H. destruct H as [Ha Hb].
    assert (Hs : cat_in cat_space ch = true \/ mem ecma_space_ranges ch = true).
    { apply orb_prop in Ha. destruct Ha as [Ha|Ha].
      - left. rewrite (cls_equals_plain _ _ Ha ch) in H1. rewrite plain_space in H1. exact H1.
      - right. rewrite (cls_equals_plain _ _ Ha ch) in H1. unfold ecma_space_class in H1. rewrite plain_ranges in H1. exact H1. }
    destruct (Hf ch Hs) as (F1 & F2 & F3).
    apply orb_prop in Hb. destruct Hb as [Hb|Hb]; [apply orb_prop in Hb; destruct Hb as [Hb|Hb]; [apply orb_prop in Hb; destruct Hb as [Hb|Hb]|]|];
      rewrite (cls_equals_plain _ _ Hb ch) in H2.
    - rewrite plain_digit in H2. congruence.
    - rewrite plain_word in H2. congruence.
    - unfold ecma_digit_class in H2. rewrite plain_ranges in H2. apply ecma_digit_word in H2. congruence.
    - unfold ecma_word_class in H2. rewrite plain_ranges in H2. congruence.
  Qed.

  Lemma plain_no_sub_no_cats c ch : no_sub c = true -> no_cats c = true -> neg c = false ->
    plain_in cat_in c ch = mem (ranges c) ch.
  Proof.
    destruct c as [rs cs sb ng an asc]. unfold no_sub, no_cats; cbn [sub cats neg ranges].
    destruct sb; [discriminate|]. destruct cs; [|discriminate]. intros _ _ ->. cbn.
    destruct (mem rs ch); reflexivity.
  Qed.

  Theorem may_overlap_sound_plain s1 s2 :
    space_facts ->
    canonical s1 -> canonical s2 -> bitmaps_ok cat_in s1 -> bitmaps_ok cat_in s2 ->
    may_overlap cat_in s1 s2 = false ->
    forall ch, ~ (char_in cat_in s1 ch = true /\ char_in cat_in s2 ch = true).
  Proof.
    intros Hf C1 C2 B1 B2 H ch [H1 H2].
    destruct (lookup_agree cat_in s1 C1 B1 ch) as [_ L1]. destruct (lookup_agree cat_in s2 C2 B2 ch) as [_ L2].
    unfold may_overlap in H.
    destruct (cls_equals false s1 s2); [discriminate|].
    destruct (anything s1 || anything s2); [discriminate|].
    destruct (Bool.eqb (neg s1) (neg s2)) eqn:En; cbn [negb] in H.
    - destruct (neg s1) eqn:N1; [discriminate|].
      assert (N2 : neg s2 = false) by (destruct (neg s2); [discriminate|reflexivity]).
      destruct (known_distinct_sets s1 s2 || known_distinct_sets s2 s1) eqn:Ek.
      + rewrite L1 in H1. rewrite L2 in H2. apply orb_prop in Ek. destruct Ek as [Ek|Ek].
        * exact (known_distinct_sound s1 s2 Hf Ek ch H1 H2).
        * exact (known_distinct_sound s2 s1 Hf Ek ch H2 H1).
      + destruct (no_sub s2 && no_cats s2) eqn:E2.
        * apply andb_prop in E2. destruct E2 as [E2a E2b].
          rewrite L2 in H2. rewrite (plain_no_sub_no_cats s2 ch E2a E2b N2) in H2.
          rewrite (overlap_by_enumeration_false s1 _ H ch H2) in H1. discriminate.
        * destruct (no_sub s1 && no_cats s1) eqn:E1; [|discriminate].
          apply andb_prop in E1. destruct E1 as [E1a E1b].
          rewrite L1 in H1. rewrite (plain_no_sub_no_cats s1 ch E1a E1b N1) in H1.
          rewrite (overlap_by_enumeration_false s2 _ H ch H1) in H2. discriminate.
    - apply negb_false_iff in H.
      rewrite L1 in H1. rewrite L2 in H2.
      rewrite (cls_equals_ignore s1 s2 H ch) in H1. rewrite plain_in_top in H2.
      destruct (neg s1), (neg s2); try discriminate; cbn [xorb] in H1;
        destruct (top_in cat_in s2 ch), (sub_in cat_in s2 ch); discriminate.
  Qed.

End Overlap.
