(* C05, proofs part 8: the whole post-pass Model/FinalOpt.fo_final_optimize (lite, strict) keeps the first result
   of the root from every state inside the text; hence the search finds the same match. *)
From Verif Require Import Base.Prelude Gen.ParseLitGen Model.Tree Model.Spec Model.Rewrite Model.ParseLit Model.CharClass Model.Parser
  Model.FinalOpt
  Proofs.SpecProofs Proofs.SpecBoundsProofs Proofs.SpecTermProofs Proofs.RewriteProofs
  Proofs.FinalOptDen Proofs.FinalOptK Proofs.FinalOptLink Proofs.FinalOptLeaf Proofs.FinalOptWalk Proofs.FinalOptAtomic
  Proofs.FinalOptEnd.
From Coq Require Import ZifyBool.

Section Main.
Variable cat_in : Z -> Z -> bool.
Variables isw isew : Z -> bool.
Variable sid : cls -> Z.
Variable e : env.
Variable sets : list cls.
Hypothesis Henv : env_ok cat_in isw isew sid e sets.

Notation den := (den e).
Notation tr := (tr sid).
Notation node_ok := (node_ok sets).

(* ---- replacing the children of a node by children with the same results *)
Lemma Forall2_refines_map l l' : Forall2 (fun k k' => rw_refines e (tr k) (tr k')) l l' ->
  Forall2 (rw_refines e) (map tr l) (map tr l').
Proof. induction 1; cbn [map]; constructor; assumption. Qed.

Lemma kids_refines x ks' : node_ok x -> Forall2 (fun k k' => rw_refines e (tr k) (tr k')) (n_kids x) ks' ->
  rw_refines e (tr x) (tr (set_kids x ks')).
Proof.
  intros Hok HF.
  destruct (set_kids_fields x ks') as (Ht' & Ho' & Hch' & Hm' & Hn' & Hstr' & Hset' & Hk').
  pose proof (fo_wf_arity x (proj1 Hok)) as Har.
  destruct (n_t x =? T_Concatenate) eqn:Ec.
  { rewrite (tr_concat sid x) by (unfold T_Concatenate in *; lia).
    rewrite (tr_concat sid (set_kids x ks')) by (rewrite Ht'; unfold T_Concatenate in *; lia).
    rewrite Ho', Hk'. apply concat_congr. apply Forall2_refines_map. exact HF. }
  destruct (n_t x =? T_Alternate) eqn:Ea.
  { rewrite (tr_alt sid x) by (unfold T_Alternate in *; lia).
    rewrite (tr_alt sid (set_kids x ks')) by (rewrite Ht'; unfold T_Alternate in *; lia).
    rewrite Ho', Hk'. apply alt_congr. apply Forall2_refines_map. exact HF. }
  destruct ((n_t x =? 26) || (n_t x =? 27) || (n_t x =? 28) || (n_t x =? 30) || (n_t x =? 31) || (n_t x =? 32)) eqn:E1.
  { destruct (kids_one x ltac:(lia) (proj1 Hok)) as [k Ek]. rewrite Ek in HF.
    inversion HF as [|? k' ? l' Hk Hr]; subst. inversion Hr; subst.
    destruct (n_t x =? 26) eqn:E26.
    { rewrite (tr_loop sid x k) by (first [exact Ek | unfold T_Loop; lia]).
      rewrite (tr_loop sid (set_kids x [k']) k') by (first [exact Hk' | rewrite Ht'; unfold T_Loop; lia]).
      rewrite Ho', Hm', Hn'. apply loop_refines. exact Hk. }
    destruct (n_t x =? 27) eqn:E27.
    { rewrite (tr_lazyloop sid x k) by (first [exact Ek | unfold T_Lazyloop; lia]).
      rewrite (tr_lazyloop sid (set_kids x [k']) k') by (first [exact Hk' | rewrite Ht'; unfold T_Lazyloop; lia]).
      rewrite Ho', Hm', Hn'. apply loop_refines. exact Hk. }
    destruct (n_t x =? 28) eqn:E28.
    { rewrite (tr_capture sid x k) by (first [exact Ek | unfold T_Capture; lia]).
      rewrite (tr_capture sid (set_kids x [k']) k') by (first [exact Hk' | rewrite Ht'; unfold T_Capture; lia]).
      rewrite Ho', Hm', Hn'. apply capture_refines. exact Hk. }
    destruct (n_t x =? 30) eqn:E30.
    { rewrite (tr_poslook sid x k) by (first [exact Ek | unfold T_PosLook; lia]).
      rewrite (tr_poslook sid (set_kids x [k']) k') by (first [exact Hk' | rewrite Ht'; unfold T_PosLook; lia]).
      rewrite Ho'. apply poslook_refines. exact Hk. }
    destruct (n_t x =? 31) eqn:E31.
    { rewrite (tr_neglook sid x k) by (first [exact Ek | unfold T_NegLook; lia]).
      rewrite (tr_neglook sid (set_kids x [k']) k') by (first [exact Hk' | rewrite Ht'; unfold T_NegLook; lia]).
      rewrite Ho'. apply neglook_refines. exact Hk. }
    rewrite (tr_atomic sid x k) by (first [exact Ek | unfold T_Atomic; lia]).
    rewrite (tr_atomic sid (set_kids x [k']) k') by (first [exact Hk' | rewrite Ht'; unfold T_Atomic; lia]).
    apply atomic_refines. exact Hk. }
  destruct (n_t x =? 33) eqn:E33.
  { destruct (kids_two x ltac:(lia) (proj1 Hok)) as (y & nn & Ek). rewrite Ek in HF.
    inversion HF as [|? y' ? l1 Hy Hr]; subst. inversion Hr as [|? nn' ? l2 Hnn Hr2]; subst. inversion Hr2; subst.
    rewrite (tr_backref_cond sid x y nn) by (first [exact Ek | unfold T_BackRefCond; lia]).
    rewrite (tr_backref_cond sid (set_kids x [y'; nn']) y' nn') by (first [exact Hk' | rewrite Ht'; unfold T_BackRefCond; lia]).
    rewrite Ho', Hm'. apply backref_cond_refines; assumption. }
  destruct (n_t x =? 34) eqn:E34.
  { destruct (kids_three x ltac:(lia) (proj1 Hok)) as (c0 & y & nn & Ek). rewrite Ek in HF.
    inversion HF as [|? c0' ? l0 Hc Hr0]; subst. inversion Hr0 as [|? y' ? l1 Hy Hr]; subst.
    inversion Hr as [|? nn' ? l2 Hnn Hr2]; subst. inversion Hr2; subst.
    rewrite (tr_expr_cond sid x c0 y nn) by (first [exact Ek | unfold T_ExprCond; lia]).
    rewrite (tr_expr_cond sid (set_kids x [c0'; y'; nn']) c0' y' nn') by (first [exact Hk' | rewrite Ht'; unfold T_ExprCond; lia]).
    rewrite Ho'. apply expr_cond_refines; assumption. }
  (* a leaf *)
  assert (Hk0 : n_kids x = []).
  { unfold fo_arity_ok in Har. destruct (fo_is_leaf_t (n_t x)).
    - destruct (n_kids x); [reflexivity|discriminate].
    - exfalso. rewrite E1, E33, E34 in Har. unfold T_Alternate, T_Concatenate in *. lia. }
  rewrite Hk0 in HF. inversion HF; subst. rewrite <- Hk0, set_kids_same. apply rw_refines_refl.
Qed.

Section Gates.
Variable g strict : Z.
Hypothesis Hg16 : fo_gate g 16 = true.
Hypothesis Hs0 : Z.testbit strict 0 = true.
Hypothesis Hs1 : Z.testbit strict 1 = true.
Hypothesis Hs2 : Z.testbit strict 2 = true.
Hypothesis Hs3 : Z.testbit strict 3 = true.

(* ---- the second reduction of the gate-31 tree (fo_rr) keeps every result *)
Theorem rr_sound : forall f mode ptype x x',
  fo_rr cat_in isw isew f g strict true mode ptype x = Ok x' -> node_ok x ->
  node_ok x' /\ rw_refines e (tr x) (tr x').
Proof.
  induction f as [|f IH]; intros mode ptype x x' H Hok; [discriminate|].
  cbn [fo_rr] in H.
  destruct (fo_map_res (fo_rr cat_in isw isew f g strict true mode (n_t x)) (n_kids x)) as [kids'| | |] eqn:Ek; cbn [bind] in H; try discriminate.
  apply fo_map_res_Forall2 in Ek.
  assert (Hkids : Forall node_ok (n_kids x)).
  { rewrite Forall_forall. intros k Hk. exact (node_ok_kid sets x k Hok Hk). }
  assert (Hall : Forall2 (fun k k' => node_ok k' /\ rw_refines e (tr k) (tr k')) (n_kids x) kids').
  { clear -Ek Hkids IH. induction Ek as [|k k' l l' Hk _ IHl]; [constructor|].
    inversion Hkids as [|? ? Hka Hkb]; subst. constructor; [exact (IH _ _ _ _ Hk Hka) | apply IHl; assumption]. }
  assert (Hk'ok : Forall node_ok kids') by (clear -Hall; induction Hall as [|? ? ? ? [HA _] _ IHl]; constructor; assumption).
  assert (Hk'r : Forall2 (fun k k' => rw_refines e (tr k) (tr k')) (n_kids x) kids') by (clear -Hall; induction Hall as [|? ? ? ? [_ HB] _ IHl]; constructor; assumption).
  assert (Hlen : length kids' = length (n_kids x)) by (symmetry; eapply fo_Forall2_length; exact Ek).
  assert (Hok2 : node_ok (set_kids x kids')) by (apply node_ok_set_kids; assumption).
  pose proof (kids_refines x kids' Hok Hk'r) as Hr.
  destruct (fo_heads_eqb kids' (n_kids x) && negb (fo_has_gated_branch (n_t x))).
  - injection H as <-. split; assumption.
  - destruct (proj2 (ee_red_sound cat_in isw isew sid e sets Henv g strict Hg16 Hs0 Hs1 Hs2 Hs3 (S (S f))) _ _ _ _ H Hok2) as [Hx' Hr'].
    split; [exact Hx' | eapply rw_refines_trans; [exact Hr | exact Hr']].
Qed.

(* ---- finalOptimize's passes, then the whole post-pass *)
Definition same_head (root root' : rnode) : Prop :=
  forall s, st_ok e s -> hd_list (den (tr root) s) = hd_list (den (tr root') s).

Lemma same_head_refl a : same_head a a.
Proof. intros s _. reflexivity. Qed.
Lemma same_head_trans a b c : same_head a b -> same_head b c -> same_head a c.
Proof. intros H1 H2 s Hs. rewrite (H1 s Hs). apply H2. exact Hs. Qed.
Lemma same_head_refines a b : rw_refines e (tr a) (tr b) -> same_head a b.
Proof. intros H s _. rewrite refines_den in H. rewrite H. reflexivity. Qed.
Lemma same_head_hrefines a b : rw_hrefines e (tr a) (tr b) -> same_head a b.
Proof. intros H s _. rewrite hrefines_den in H. apply H. Qed.

Lemma Forall2_refl_refines l : Forall2 (fun k k' => rw_refines e (tr k) (tr k')) l l.
Proof. induction l; constructor; [apply rw_refines_refl | assumption]. Qed.

Theorem final_passes_sound f root root' :
  fo_final_passes cat_in isw isew f g strict true root = Ok root' -> node_ok root ->
  node_ok root' /\ same_head root root'.
Proof.
  intros H Hok. unfold fo_final_passes in H.
  destruct (useRTL (n_o root)); [injection H as <-; split; [exact Hok | apply same_head_refl]|].
  (* automatic atomic loops *)
  assert (H1 : exists r1, (if fo_gate g 1 then Ok root else fo_fa cat_in isw isew f strict root []) = Ok r1 /\
                          node_ok r1 /\ same_head root r1).
  { destruct (fo_gate g 1).
    - exists root. split; [reflexivity|]. split; [exact Hok | apply same_head_refl].
    - destruct (fo_fa cat_in isw isew f strict root []) as [r1| | |] eqn:E1; cbn [bind] in H; try discriminate.
      exists r1. split; [reflexivity|].
      destruct (fa_sound cat_in isw isew sid e sets Henv strict Hs0 Hs1 Hs2 f root [] r1 E1 Hok (Forall_nil _)) as [Hr1 HHK].
      split; [exact Hr1|]. intros s Hs. apply (HK_kid_den e _ _ (HHK (kid) (KT_kid e)) s Hs). }
  destruct H1 as (r1 & E1 & Hr1 & Hh1). rewrite E1 in H. cbn [bind] in H.
  (* ending backtracking *)
  destruct (fo_ee cat_in isw isew f g strict true false r1) as [r2| | |] eqn:E2; cbn [bind] in H; try discriminate.
  destruct (proj1 (ee_red_sound cat_in isw isew sid e sets Henv g strict Hg16 Hs0 Hs1 Hs2 Hs3 f) _ _ _ E2 Hr1) as (Hr2 & Hh2 & _).
  (* the marker *)
  destruct (n_kids r2) as [|k ks] eqn:Ek2; [discriminate|].
  destruct (fo_bump f g k true false) as [[k' mk]| | |] eqn:E3; cbn [bind] in H; try discriminate.
  injection H as <-. cbn [fst].
  assert (Hk : node_ok k) by (apply (node_ok_kid sets r2); [exact Hr2 | rewrite Ek2; left; reflexivity]).
  assert (Hks : Forall node_ok ks).
  { rewrite Forall_forall. intros r Hr. apply (node_ok_kid sets r2); [exact Hr2 | rewrite Ek2; right; exact Hr]. }
  destruct (bump_sound sid e sets f g k true false k' mk E3 Hk) as (Hk' & Hrk & _).
  split.
  - apply node_ok_set_kids; [exact Hr2 | rewrite Ek2; reflexivity | constructor; assumption].
  - eapply same_head_trans; [exact Hh1|]. eapply same_head_trans; [apply same_head_hrefines; exact Hh2|].
    apply same_head_refines. apply kids_refines; [exact Hr2|]. rewrite Ek2. constructor; [exact Hrk | apply Forall2_refl_refines].
Qed.

Theorem final_optimize_sound f cl root root' :
  fo_final_optimize cat_in isw isew f g strict true cl root = Ok root' -> node_ok root ->
  node_ok root' /\ same_head root root'.
Proof.
  intros H Hok. unfold fo_final_optimize in H.
  assert (H0 : exists r0, (if fo_gate g 2 && fo_gate g 8 && fo_gate g 16 then Ok root
                           else do kids' <- fo_map_res (fo_rr cat_in isw isew f g strict true (if cl then 2 else 1) (n_t root)) (n_kids root) ;
                                Ok (set_kids root kids')) = Ok r0 /\ node_ok r0 /\ rw_refines e (tr root) (tr r0)).
  { destruct (fo_gate g 2 && fo_gate g 8 && fo_gate g 16).
    - exists root. split; [reflexivity|]. split; [exact Hok | apply rw_refines_refl].
    - destruct (fo_map_res (fo_rr cat_in isw isew f g strict true (if cl then 2 else 1) (n_t root)) (n_kids root)) as [kids'| | |] eqn:Ek;
        cbn [bind] in H; try discriminate.
      exists (set_kids root kids'). split; [reflexivity|].
      apply fo_map_res_Forall2 in Ek.
      assert (Hkids : Forall node_ok (n_kids root)).
      { rewrite Forall_forall. intros k Hk. exact (node_ok_kid sets root k Hok Hk). }
      assert (Hall : Forall2 (fun k k' => node_ok k' /\ rw_refines e (tr k) (tr k')) (n_kids root) kids').
      { clear -Ek Hkids Hg16 Hs0 Hs1 Hs2 Hs3 Henv. induction Ek as [|k k' l l' Hk _ IHl]; [constructor|].
        inversion Hkids as [|? ? Hka Hkb]; subst. constructor; [exact (rr_sound _ _ _ _ _ Hk Hka) | apply IHl; assumption]. }
      assert (Hk'ok : Forall node_ok kids') by (clear -Hall; induction Hall as [|? ? ? ? [HA _] _ IHl]; constructor; assumption).
      assert (Hk'r : Forall2 (fun k k' => rw_refines e (tr k) (tr k')) (n_kids root) kids') by (clear -Hall; induction Hall as [|? ? ? ? [_ HB] _ IHl]; constructor; assumption).
      assert (Hlen : length kids' = length (n_kids root)) by (symmetry; eapply fo_Forall2_length; exact Ek).
      split; [apply node_ok_set_kids; assumption | apply kids_refines; assumption]. }
  destruct H0 as (r0 & E0 & Hr0 & Hrf). rewrite E0 in H. cbn [bind] in H.
  destruct (final_passes_sound f r0 root' H Hr0) as [Hok' Hh].
  split; [exact Hok'|]. eapply same_head_trans; [apply same_head_refines; exact Hrf | exact Hh].
Qed.

End Gates.
(* ---- the search *)
Definition init_st (p : Z) : st := {| pos := p; caps := [] |}.
Definition first_of (l : list st) : option st := match l with [] => None | s :: _ => Some s end.

Lemma attempt_den f root p r : attempt e f root p = Ok r -> r = first_of (den root (init_st p)).
Proof.
  unfold attempt. destruct (Spec.sem e f root {| pos := p; caps := [] |}) as [l| | |] eqn:E; cbn [bind]; try discriminate.
  intros H. injection H as <-. assert (Hl : den root (init_st p) = l) by (apply fd_evals_den; exists f; exact E).
  rewrite Hl. reflexivity.
Qed.
Lemma attempt_total root p f : (term_fuel_any root <= f)%nat -> attempt e f root p = Ok (first_of (den root (init_st p))).
Proof.
  intros Hf. unfold attempt. destruct (spec_sem_total_any e root f Hf {| pos := p; caps := [] |}) as [l Hl].
  rewrite Hl. cbn [bind]. assert (Hd : den root (init_st p) = l) by (apply fd_evals_den; exists f; exact Hl).
  rewrite Hd. reflexivity.
Qed.
Lemma first_of_hd (l l' : list st) : hd_list l = hd_list l' -> first_of l = first_of l'.
Proof. destruct l, l'; cbn; congruence. Qed.

Theorem find_same_head root root' (rtl : bool) :
  (forall p, 0 <= p <= tlen e -> hd_list (den root (init_st p)) = hd_list (den root' (init_st p))) ->
  forall f start prevlen r, 0 <= start <= tlen e ->
    find e f root rtl start prevlen = Ok r ->
    exists f', find e f' root' rtl start prevlen = Ok r.
Proof.
  intros Hh f start prevlen r Hst H. exists (term_fuel_any root').
  unfold find in *.
  destruct ((prevlen =? 0) && (start =? (if rtl then 0 else tlen e))) eqn:E0; [exact H|].
  set (p0 := if prevlen =? 0 then if rtl then start - 1 else start + 1 else start) in *.
  assert (Hp0 : 0 <= p0 <= tlen e) by (unfold p0; destruct (prevlen =? 0), rtl; cbn [andb] in E0; lia).
  clearbody p0. revert p0 Hp0 H.
  induction (S (Z.to_nat (tlen e))) as [|n IH]; intros p Hp H; cbn [scan_from] in *; [exact H|].
  destruct (attempt e f root p) as [a| | |] eqn:Ea; cbn [bind] in H; try discriminate.
  apply attempt_den in Ea. rewrite (attempt_total root' p _ (Nat.le_refl _)). cbn [bind].
  rewrite <- (first_of_hd _ _ (Hh p Hp)), <- Ea.
  destruct a as [sa|]; [exact H|].
  destruct (if rtl then p <=? 0 else tlen e <=? p) eqn:Eend; [exact H|].
  apply IH; [destruct rtl; lia | exact H].
Qed.

End Main.
