(* Proofs about Model/Parser.v, part 4: the capture pre-scan (countCaptures + assignNameSlots) never
   faults and never runs out of fuel. *)
From Coq Require Import ZifyBool.
From Verif Require Import Base.Prelude Gen.ParseLitGen Model.Escape Model.ParseLit Model.GroupMap Model.CharClass
  Model.Parser Proofs.ParseLitProofs Proofs.GMBase Proofs.ParserScan Proofs.ParserTree Proofs.ParserMain.

(* ---------------------------------------------------------------- the capture tables *)
(* what keeps assignNameSlots / assignOrderedNameSlots from indexing out of range *)
Record cinv (mco : bool) (c : cstate) : Prop := mkCinv {
  ci_auto : 1 <= c_autocap c;
  ci_nonneg : Forall (fun k => 0 <= k) (c_caps c);
  ci_names : c_capnames c <> None -> c_capnamelist c <> [];
  ci_mco : mco = true ->
           c_capcount c = c_autocap c /\ c_captop c <= c_autocap c /\
           (forall k, In k (c_caps c) <-> 0 <= k < c_autocap c) /\
           (forall s v, aget s (names_of c) = Some v -> 0 <= v < c_autocap c) }.

Lemma cinv_init mco : cinv mco c_init.
Proof.
  constructor; cbn.
  - lia.
  - constructor; [lia | constructor].
  - congruence.
  - intros _. split; [reflexivity|]. split; [lia|]. split.
    + intros k. split; [intros [H|[]]; lia | intros H; left; lia].
    + intros s v H. discriminate.
Qed.

Lemma caps_insert_nonneg i l : 0 <= i -> Forall (fun k => 0 <= k) l -> Forall (fun k => 0 <= k) (caps_insert i l).
Proof.
  intros Hi H. rewrite Forall_forall in *. intros y Hy. apply caps_insert_In in Hy. destruct Hy as [->|Hy]; auto.
Qed.

Lemma note_slot_caps_In i c k : In k (c_caps (note_slot i c)) <-> k = i \/ In k (c_caps c).
Proof.
  unfold note_slot. destruct (zmem i (c_caps c)) eqn:E.
  - apply zmem_In in E. split; [auto | intros [->|H]; auto].
  - cbn. apply caps_insert_In.
Qed.

(* a plain "(" outside MaintainCaptureOrder / an explicit number *)
Lemma note_slot_cinv_plain i c : cinv false c -> 0 <= i -> cinv false (note_slot i c).
Proof.
  intros [A N M _] Hi. unfold note_slot. destruct (zmem i (c_caps c)); [constructor; auto; discriminate|].
  constructor; cbn; auto; [apply caps_insert_nonneg; assumption | discriminate].
Qed.

(* consumeAutocap + noteCaptureSlot of the consumed number *)
Lemma note_auto_cinv mco c : cinv mco c -> cinv mco (note_auto c).
Proof.
  intros [A N M D]. unfold note_auto.
  set (k := c_autocap c).
  set (c1 := mkC (k + 1) (c_caps c) (c_capcount c) (c_captop c) (c_capnames c) (c_capnamelist c)).
  assert (F : c_autocap (note_slot k c1) = k + 1 /\ c_capnames (note_slot k c1) = c_capnames c /\
              c_capnamelist (note_slot k c1) = c_capnamelist c).
  { unfold note_slot. destruct (zmem k (c_caps c1)); cbn; auto. }
  destruct F as [F1 [F2 F3]].
  constructor.
  - rewrite F1. lia.
  - unfold note_slot. destruct (zmem k (c_caps c1)); cbn; [exact N | apply caps_insert_nonneg; [subst k; lia | exact N]].
  - rewrite F2, F3. exact M.
  - intros Hm. destruct (D Hm) as [D1 [D2 [D3 D4]]]. rewrite F1.
    assert (NI : zmem k (c_caps c1) = false).
    { apply zmem_false. cbn. intros H. apply D3 in H. subst k. lia. }
    unfold note_slot. rewrite NI. cbn.
    split; [subst k; lia|].
    split; [destruct (c_captop c <=? k); [destruct (k =? maxint32); lia | lia]|].
    split.
    + intros k0. split.
      * intros H. apply caps_insert_In in H. destruct H as [->|H]; [subst k; lia | apply D3 in H; subst k; lia].
      * intros H. apply caps_insert_In. destruct (Z.eq_dec k0 k) as [->|Hne]; [left; reflexivity | right; apply D3; subst k; lia].
    + unfold names_of in *. cbn. intros s v H. specialize (D4 s v H). subst k. lia.
Qed.

Lemma aget_aset_cases' x s v m w : aget x (aset s v m) = Some w -> (x = s /\ w = v) \/ aget x m = Some w.
Proof.
  induction m as [|[k v'] m IH]; cbn [aset aget].
  - destruct (zlist_eqb x s) eqn:E; [|discriminate]. intros H. inversion H. left. split; [apply zlist_eqb_eq; exact E | reflexivity].
  - destruct (zlist_eqb s k) eqn:Esk; cbn [aget].
    + destruct (zlist_eqb x k) eqn:Exk.
      * intros H. inversion H. left. apply zlist_eqb_eq in Esk, Exk. subst. auto.
      * auto.
    + destruct (zlist_eqb x k); auto.
Qed.

Lemma note_name_cinv mco ecma s c : cinv mco c ->
  match note_name mco ecma s c with Ok c' => cinv mco c' | Err _ => True | _ => False end.
Proof.
  intros Hc. pose proof Hc as [A N M D]. unfold note_name.
  destruct (aget s (names_of c)) as [v|] eqn:Eg.
  - destruct ecma; [exact I|].
    constructor; cbn; auto.
    intros _. apply M. unfold names_of in Eg. destruct (c_capnames c); [discriminate | discriminate].
  - destruct mco.
    + (* the name takes the next automatic number *)
      set (slot := c_autocap c).
      set (c1 := mkC (slot + 1) (c_caps c) (c_capcount c) (c_captop c) (Some (aset s slot (names_of c))) (c_capnamelist c)).
      destruct (D eq_refl) as [D1 [D2 [D3 D4]]].
      assert (NI : zmem slot (c_caps c1) = false).
      { apply zmem_false. cbn. intros H. apply D3 in H. subst slot. lia. }
      unfold note_slot. rewrite NI. cbn.
      constructor; cbn.
      * subst slot. lia.
      * apply caps_insert_nonneg; [subst slot; lia | exact N].
      * intros _ H. apply app_eq_nil in H. destruct H; discriminate.
      * intros _.
        split; [subst slot; lia|].
        split; [destruct (c_captop c <=? slot); [destruct (slot =? maxint32); lia | lia]|].
        split.
        -- intros k. split.
           ++ intros H. apply caps_insert_In in H. destruct H as [->|H]; [subst slot; lia | apply D3 in H; subst slot; lia].
           ++ intros H. apply caps_insert_In. destruct (Z.eq_dec k slot) as [->|Hne]; [left; reflexivity | right; apply D3; subst slot; lia].
        -- unfold names_of. cbn. intros s0 v H. apply aget_aset_cases' in H. destruct H as [[_ ->]|H]; [subst slot; lia|].
           specialize (D4 s0 v H). subst slot. lia.
    + constructor; cbn; auto.
      * intros _ H. apply app_eq_nil in H. destruct H; discriminate.
      * discriminate.
Qed.

(* ---------------------------------------------------------------- assignNameSlots *)
Lemma next_free_ge fuel caps : forall a, a <= next_free fuel caps a.
Proof.
  induction fuel as [|f IH]; intros a; cbn [next_free]; [lia|].
  destruct (zmem a caps); [specialize (IH (a + 1)); lia | lia].
Qed.

Lemma note_slot_nonneg i c : 0 <= i -> Forall (fun k => 0 <= k) (c_caps c) -> Forall (fun k => 0 <= k) (c_caps (note_slot i c)).
Proof.
  intros Hi N. unfold note_slot. destruct (zmem i (c_caps c)); cbn; [exact N | apply caps_insert_nonneg; assumption].
Qed.

Lemma note_slot_same i c :
  (c_autocap (note_slot i c) = c_autocap c) /\ (c_capnames (note_slot i c) = c_capnames c) /\ (c_capnamelist (note_slot i c) = c_capnamelist c).
Proof. unfold note_slot. destruct (zmem i (c_caps c)); cbn; auto. Qed.

Lemma assign_names_keeps names : forall c, 1 <= c_autocap c -> Forall (fun k => 0 <= k) (c_caps c) ->
  1 <= c_autocap (assign_names names c) /\ Forall (fun k => 0 <= k) (c_caps (assign_names names c)) /\
  c_capnamelist (assign_names names c) = c_capnamelist c /\
  (c_capnames c <> None -> c_capnames (assign_names names c) <> None).
Proof.
  induction names as [|s r IH]; intros c A N; cbn [assign_names]; [auto|]. lazy zeta.
  pose proof (next_free_ge (S (length (c_caps c))) (c_caps c) (c_autocap c)) as Ha.
  set (a := next_free (S (length (c_caps c))) (c_caps c) (c_autocap c)) in *. clearbody a.
  set (c1 := mkC a (c_caps c) (c_capcount c) (c_captop c) (Some (aset s a (names_of c))) (c_capnamelist c)).
  destruct (note_slot_same a c1) as [S1 [S2 S3]].
  pose proof (note_slot_nonneg a c1 ltac:(lia) N) as S4.
  match goal with |- context [assign_names r ?cc] => destruct (IH cc) as [I1 [I2 [I3 I4]]] end.
  - cbn. lia.
  - cbn. exact S4.
  - split; [exact I1|]. split; [exact I2|]. split.
    + rewrite I3. cbn. rewrite S3. reflexivity.
    + intros _. apply I4. cbn. rewrite S2. discriminate.
Qed.

Lemma merge_names_ok js : forall rest next m,
  Forall (fun k => 0 <= k) js -> (rest = [] -> next = -1) -> exists r, merge_names js rest next m = Ok r.
Proof.
  induction js as [|j js IH]; intros rest next m Hj Hr; cbn [merge_names]; [eauto|].
  inversion Hj; subst.
  destruct (next =? j) eqn:E.
  - destruct rest as [|s rest']; [specialize (Hr eq_refl); lia|].
    destruct (IH rest' (match rest' with [] => -1 | s' :: _ => aget0 s' m end) m) as [[l m'] El]; [assumption | intros ->; reflexivity |].
    rewrite El. cbn [bind]. eauto.
  - destruct (IH rest next (aset (itoa j) j m)) as [[l m'] El]; [assumption | exact Hr |].
    rewrite El. cbn [bind]. eauto.
Qed.

Lemma zrange_nonneg n : Forall (fun k => 0 <= k) (zrange n).
Proof. rewrite Forall_forall. intros k H. apply zrange_In in H. lia. Qed.

Lemma assign_default_ok c : cinv false c -> exists t, assign_default c = Ok t.
Proof.
  intros [A N M _]. unfold assign_default.
  set (c' := match c_capnames c with Some _ => assign_names (c_capnamelist c) c | None => c end).
  assert (K : 1 <= c_autocap c' /\ Forall (fun k => 0 <= k) (c_caps c') /\ (c_capnames c' <> None -> c_capnamelist c' <> [])).
  { subst c'. destruct (c_capnames c) eqn:En; [|auto].
    destruct (assign_names_keeps (c_capnamelist c) c A N) as [K1 [K2 [K3 K4]]]. split; [exact K1|]. split; [exact K2|].
    intros _. rewrite K3. apply M. discriminate. }
  destruct K as [K1 [K2 K3]].
  assert (JS : Forall (fun k => 0 <= k) (match capnumlist_of c' with Some l => l | None => zrange (c_capcount c') end)).
  { unfold capnumlist_of. destruct (c_capcount c' <? c_captop c'); [exact K2 | apply zrange_nonneg]. }
  destruct (c_capnames c') as [m|] eqn:En.
  - destruct (c_capnamelist c') as [|s l] eqn:El; [exfalso; apply K3; [discriminate | reflexivity]|].
    assert (G : exists r, merge_names (match capnumlist_of c' with Some l0 => l0 | None => zrange (c_capcount c') end) (s :: l) (aget0 s m) m = Ok r)
      by (apply merge_names_ok; [exact JS | discriminate]).
    destruct G as [[l' m'] G].
    destruct (capnumlist_of c'); cbn [bind]; rewrite G; cbn [bind]; eauto.
  - destruct (capnumlist_of c') as [nl|] eqn:Enl; [|eauto].
    cbn [bind].
    destruct (merge_names_ok nl [] (-1) [] JS ltac:(reflexivity)) as [[l' m'] G]. rewrite G. cbn [bind]. eauto.
Qed.

Lemma set_nth_length {A} (i : nat) (v : A) l l' : set_nth i v l = Some l' -> length l' = length l.
Proof.
  revert l l'. induction i as [|i IH]; intros l l' H; destruct l as [|x r]; cbn [set_nth] in H; try discriminate.
  - inversion H. reflexivity.
  - destruct (set_nth i v r) eqn:E; [|discriminate]. inversion H. cbn. f_equal. eapply IH. exact E.
Qed.

Lemma place_names_ok names (m : nmap) : forall l,
  (forall s, 0 <= aget0 s m < Z.of_nat (length l)) -> exists l', place_names names None m l = Ok l'.
Proof.
  induction names as [|s r IH]; intros l H; cbn [place_names]; [eauto|].
  specialize (H s) as Hs.
  unfold zset_nth. destruct (aget0 s m <? 0) eqn:E; [lia|].
  destruct (set_nth_some l (Z.to_nat (aget0 s m)) s ltac:(lia)) as [l' El]. rewrite El.
  apply IH. intros s0. rewrite (set_nth_length _ _ _ _ El). apply H.
Qed.

Lemma assign_ordered_ok ecma c : cinv true c -> exists t, assign_ordered ecma c = Ok t.
Proof.
  intros [A N M D]. destruct (D eq_refl) as [D1 [D2 [D3 D4]]]. unfold assign_ordered.
  assert (NL : capnumlist_of c = None).
  { unfold capnumlist_of. destruct (c_capcount c <? c_captop c) eqn:E; [lia | reflexivity]. }
  rewrite NL.
  destruct (c_capnames c) as [m|] eqn:En.
  - destruct (place_names_ok (c_capnamelist c) m (repeat [] (Z.to_nat (c_capcount c)))) as [l1 E1].
    { intros s. rewrite repeat_length. unfold aget0. destruct (aget s m) as [v|] eqn:Ea; [|lia].
      assert (H : aget s (names_of c) = Some v) by (unfold names_of; rewrite En; exact Ea).
      specialize (D4 s v H). lia. }
    rewrite E1. cbn [bind]. destruct (fill_ordered ecma (zrange (c_capcount c)) l1 m). eauto.
  - destruct (negb ecma && (c_capcount c =? c_captop c)); [eauto|].
    destruct (place_names_ok (c_capnamelist c) [] (repeat [] (Z.to_nat (c_capcount c)))) as [l1 E1].
    { intros s. rewrite repeat_length. cbn. lia. }
    rewrite E1. cbn [bind]. destruct (fill_ordered ecma (zrange (c_capcount c)) l1 []). eauto.
Qed.

(* ---------------------------------------------------------------- countCaptures *)
Section Pre.
Variable is_word_char : Z -> bool.
Variable to_lower : Z -> Z.
Variable simple_fold : Z -> Z.
Variable participates : Z -> bool.
Variable cat_in : Z -> Z -> bool.
Variable cat_name : list Z -> Z.

Local Notation prescan_named := (prescan_named is_word_char).
Local Notation prescan_pyname := (prescan_pyname is_word_char).
Local Notation prescan_open := (prescan_open is_word_char).
Local Notation prescan_step := (prescan_step is_word_char to_lower simple_fold cat_in cat_name).
Local Notation prescan_loop := (prescan_loop is_word_char to_lower simple_fold cat_in cat_name).
Local Notation count_captures := (count_captures is_word_char to_lower simple_fold cat_in cat_name).
Local Notation scan_backslash_full := (scan_backslash_full is_word_char to_lower simple_fold cat_in cat_name).
Local Notation cs_scan := (cs_scan is_word_char cat_name).

(* one turn of the pre-scan: the tables stay well formed and the cursor moves right *)
Definition step_res (mco : bool) (r : pr (cst * list Z)) (n : nat) : Prop :=
  match r with
  | POk (st', q) => cinv mco (cs_c st') /\ (length q <= n)%nat
  | PE _ _ | PO => True
  | PC _ | PF => False
  end.

Lemma note_name_pr_ok mco o s c : cinv mco c ->
  match note_name_pr mco o s c with POk c' => cinv mco c' | PE _ _ => True | _ => False end.
Proof.
  intros H. unfold note_name_pr. pose proof (note_name_cinv mco (useE o) s c H) as N.
  destruct (note_name mco (useE o) s c); auto.
Qed.

Lemma prescan_named_ok mco st1 p3 : cinv mco (cs_c st1) -> p3 <> [] ->
  step_res mco (prescan_named mco st1 p3) (length p3).
Proof.
  intros Hc Hp. unfold Parser.prescan_named. destruct p3 as [|ch2 p4]; [congruence|].
  destruct (useE (cs_o st1)).
  { destruct ((ch2 =? 61) || (ch2 =? 33) || (ch2 =? 48)); [cbn [step_res pbind cs_c set_cs_ign set_cs_c]; split; [exact Hc | cbn [length] in *; lia] | exact I]. }
  destruct (negb (ch2 =? 48) && is_word_char ch2); [|cbn [step_res pbind cs_c set_cs_ign set_cs_c]; split; [exact Hc | cbn [length] in *; lia]].
  destruct ((49 <=? ch2) && (ch2 <=? 57)).
  - pose proof (decimal_adv (ch2 :: p4)) as D. pose proof (decimal_nonneg (ch2 :: p4)) as NN.
    destruct (decimal (ch2 :: p4)) as [[dec q]|e q| | |]; cbn [pbind padv step_res] in *; try contradiction; try exact I.
    specialize (NN dec q eq_refl).
    destruct mco.
    + pose proof (note_name_pr_ok true (cs_o st1) (itoa dec) (cs_c st1) Hc) as N.
      destruct (note_name_pr true (cs_o st1) (itoa dec) (cs_c st1)); cbn [pbind step_res]; try contradiction; try exact I.
      cbn [step_res pbind cs_c set_cs_ign set_cs_c]. split; [exact N | exact D].
    + cbn [step_res pbind cs_c set_cs_ign set_cs_c]. split; [apply note_slot_cinv_plain; assumption | exact D].
  - pose proof (scan_word_len' is_word_char to_lower (ch2 :: p4)) as W.
    destruct (scan_word is_word_char (ch2 :: p4)) as [nm q]. cbn [snd] in W.
    pose proof (note_name_pr_ok mco (cs_o st1) nm (cs_c st1) Hc) as N.
    destruct (note_name_pr mco (cs_o st1) nm (cs_c st1)); cbn [pbind step_res]; try contradiction; try exact I.
    cbn [step_res pbind cs_c set_cs_ign set_cs_c]. split; [exact N | exact W].
Qed.

Lemma prescan_pyname_ok mco st1 p3 : cinv mco (cs_c st1) -> p3 <> [] ->
  step_res mco (prescan_pyname mco st1 p3) (length p3).
Proof.
  intros Hc Hp. unfold Parser.prescan_pyname. destruct p3 as [|ch2 p4]; [congruence|].
  destruct (is_word_char ch2); [|cbn [step_res pbind cs_c set_cs_ign set_cs_c]; split; [exact Hc | cbn [length] in *; lia]].
  destruct (useE (cs_o st1)); [exact I|].
  pose proof (scan_word_len' is_word_char to_lower (ch2 :: p4)) as W.
  destruct (scan_word is_word_char (ch2 :: p4)) as [nm q]. cbn [snd] in W.
  pose proof (note_name_pr_ok mco (cs_o st1) nm (cs_c st1) Hc) as N.
  destruct (note_name_pr mco (cs_o st1) nm (cs_c st1)); cbn [pbind step_res]; try contradiction; try exact I.
  cbn [step_res pbind cs_c set_cs_ign set_cs_c]. split; [exact N | exact W].
Qed.

Lemma step_res_weaken mco r n m : step_res mco r n -> (n <= m)%nat -> step_res mco r m.
Proof. destruct r as [[st q]|e q| | |]; cbn; auto. intros [H1 H2] L. split; [exact H1 | cbn [length] in *; lia]. Qed.

Lemma longer_nonempty (p : list Z) n : longer p n = true -> skipn n p <> [].
Proof.
  unfold longer. intros H E. apply Nat.ltb_lt in H. apply (f_equal (@length Z)) in E. rewrite skipn_length in E. cbn in E. lia.
Qed.

Lemma prescan_open_ok mco st ch p1 : cinv mco (cs_c st) -> ch = 40 ->
  step_res mco (prescan_open mco st (ch :: p1) p1) (length p1).
Proof.
  intros Hc Hch. unfold Parser.prescan_open. cbn [cs_c cs_o cs_os cs_ign].
  destruct (starts_qhash p1) eqn:Eq.
  { pose proof (blank_strict (useX (cs_o st)) ch p1) as B.
    unfold scan_blank_full. 
    assert (BS : padv0 (blank (useX (cs_o st)) BNorm (ch :: p1)) (length p1)).
    { apply B. right. right. rewrite Eq. subst ch. reflexivity. }
    destruct (blank (useX (cs_o st)) BNorm (ch :: p1)) as [q|e q| | |]; cbn [ignore_err0 pbind step_res padv0] in *; try contradiction; try exact I;
      (split; [exact Hc | exact BS]). }
  destruct (hd_is p1 63).
  2:{ destruct (negb (useN (cs_o st)) && negb (cs_ign st)); cbn [step_res pbind cs_c set_cs_ign set_cs_c]; (split; [|cbn [length] in *; lia]); [apply note_auto_cinv; exact Hc | exact Hc]. }
  pose proof (tl_len p1) as T1. pose proof (tl_len (tl p1)) as T2.
  destruct (longer (tl p1) 1 && (hd_is (tl p1) 60 || hd_is (tl p1) 39)) eqn:En.
  { eapply step_res_weaken; [apply prescan_named_ok; [exact Hc|] | cbn [length] in *; lia].
    apply andb_prop in En. destruct En as [En _]. apply (longer_nonempty _ 1) in En. exact En. }
  destruct (useRE2 (cs_o st) && longer (tl p1) 2 && hd_is (tl p1) 80 && nth_is 1 (tl p1) 60) eqn:Ep.
  { pose proof (skipn_le 2 (tl p1)) as SK.
    eapply step_res_weaken; [apply prescan_pyname_ok; [exact Hc|] | cbn [length] in *; lia].
    apply andb_prop in Ep. destruct Ep as [Ep _]. apply andb_prop in Ep. destruct Ep as [Ep _]. apply andb_prop in Ep. destruct Ep as [_ Ep].
    apply (longer_nonempty _ 2) in Ep. exact Ep. }
  destruct (scan_options_text (cs_o st) (tl p1)) as [o2 q] eqn:Eo.
  pose proof (scan_options_text_len _ _ _ _ Eo) as Lo. pose proof (tl_len q) as Tq.
  cbn [cs_c cs_os cs_o cs_ign].
  destruct (hd_is q 41); [cbn [step_res pbind cs_c set_cs_ign set_cs_c]; split; [exact Hc | cbn [length] in *; lia]|].
  destruct (hd_is q 40); cbn [step_res pbind cs_c set_cs_ign set_cs_c]; (split; [exact Hc | cbn [length] in *; lia]).
Qed.

Lemma ignore_err_badv (r : pr (bres * list Z)) n so : badv r n so -> padv0 (ignore_err r) n /\ (forall c q, ignore_err r <> PE c q).
Proof.
  destruct r as [[b q]|e q| | |]; cbn; intros H; try contradiction; (split; [|intros; discriminate]); try exact I; try lia.
Qed.

Lemma ignore_err_padv {A} (r : pr (A * list Z)) n : padv r n -> padv0 (ignore_err r) n /\ (forall c q, ignore_err r <> PE c q).
Proof.
  destruct r as [[b q]|e q| | |]; cbn; intros H; try contradiction; (split; [|intros; discriminate]); try exact I; try lia.
Qed.

Lemma prescan_step_ok mco st ch p1 : cinv mco (cs_c st) ->
  step_res mco (prescan_step mco st ch p1) (length p1).
Proof.
  intros Hc. unfold Parser.prescan_step.
  destruct (ch =? 92).
  { destruct p1 as [|c p2]; [cbn [step_res pbind cs_c set_cs_ign set_cs_c]; split; [exact Hc | cbn [length] in *; lia]|].
    pose proof (scan_backslash_full_badv is_word_char to_lower simple_fold participates cat_in cat_name true (captab_pre (cs_c st)) (cs_o st) (c :: p2)) as B.
    apply ignore_err_badv in B. destruct B as [B1 B2].
    destruct (ignore_err (scan_backslash_full true (captab_pre (cs_c st)) (cs_o st) (c :: p2))) as [q|e q| | |];
      cbn [pbind step_res padv0] in *; try contradiction; try exact I. split; [exact Hc | exact B1]. }
  destruct (ch =? 35) eqn:E35.
  { destruct (useX (cs_o st)) eqn:Ex; [|cbn [step_res pbind cs_c set_cs_ign set_cs_c]; split; [exact Hc | cbn [length] in *; lia]].
    unfold scan_blank_full. rewrite Ex.
    assert (BS : padv0 (blank true BNorm (ch :: p1)) (length p1)).
    { apply blank_strict. right. left. rewrite E35. reflexivity. }
    destruct (blank true BNorm (ch :: p1)) as [q|e q| | |]; cbn [ignore_err0 pbind step_res padv0] in *; try contradiction; try exact I;
      (split; [exact Hc | exact BS]). }
  destruct (ch =? 91).
  { pose proof (cs_scan_adv is_word_char to_lower simple_fold participates cat_in cat_name (S (length p1)) true (cs_o st) p1 ltac:(lia)) as C.
    apply ignore_err_padv in C. destruct C as [C1 C2].
    destruct (ignore_err (cs_scan (S (length p1)) true (cs_o st) p1)) as [q|e q| | |];
      cbn [pbind step_res padv0] in *; try contradiction; try exact I. split; [exact Hc | exact C1]. }
  destruct (ch =? 41).
  { destruct (cs_os st); cbn [step_res pbind cs_c set_cs_ign set_cs_c]; (split; [exact Hc | cbn [length] in *; lia]). }
  destruct (ch =? 40) eqn:E40.
  { apply prescan_open_ok; [exact Hc | cbn [length] in *; lia]. }
  cbn [step_res pbind cs_c set_cs_ign set_cs_c]. split; [exact Hc | cbn [length] in *; lia].
Qed.

Lemma prescan_loop_ok mco fuel : forall st p, cinv mco (cs_c st) -> (length p < fuel)%nat ->
  match prescan_loop fuel mco st p with
  | POk st' => cinv mco (cs_c st')
  | PE _ _ | PO => True
  | _ => False
  end.
Proof.
  induction fuel as [|f IH]; intros st p Hc Hf; [lia|].
  cbn [Parser.prescan_loop]. destruct p as [|ch p1]; [exact Hc|].
  pose proof (prescan_step_ok mco st ch p1 Hc) as S.
  destruct (prescan_step mco st ch p1) as [[st' q]|e q| | |]; cbn [pbind step_res] in *; try contradiction; try exact I.
  destruct S as [S1 S2]. apply IH; [exact S1 | cbn [length] in Hf; lia].
Qed.

Lemma count_captures_ok mco o p : psafe (count_captures mco o p).
Proof.
  unfold Parser.count_captures.
  pose proof (prescan_loop_ok mco (S (length p)) (mkCS c_init o [] false) p (cinv_init mco) ltac:(lia)) as L.
  destruct (prescan_loop (S (length p)) mco (mkCS c_init o [] false) p) as [st| | | |]; cbn [pbind psafe]; try contradiction; try exact I.
  destruct mco.
  - destruct (assign_ordered_ok (useE o) (cs_c st) L) as [t E]. rewrite E. exact I.
  - destruct (assign_default_ok (cs_c st) L) as [t E]. rewrite E. exact I.
Qed.

End Pre.
