(* C04, part 10: soundness of findRequiredLandmarkChain (Analysis2.find_landmark_chain):
   every match of a left-to-right pattern starts with a run of leading-loop-set characters, after which the
   landmarks occur in order, each as [leading whitespace run] core [trailing whitespace run]. *)
From Coq Require Import ZifyBool.
From Verif Require Import Base.Prelude Model.CharClass Base.Utf8 Model.Tree Model.Spec Model.Analysis Model.Analysis2
     Proofs.SpecProofs Proofs.AnalysisReach Proofs.AnalysisProofs Proofs.AnalysisPrefix Proofs.Analysis2Lal
     Proofs.Analysis2Prefixes.

Section Chain.
Variable e : env.
Variable cat_in : Z -> Z -> bool.
Variable sets : list cls.
Hypothesis Hshort : tlen e < INF.

(* text[a..b) lies in the whitespace set (a = b when the alternative has none) *)
Definition ws_run (ws : option Z) (a b : Z) : Prop :=
  match ws with
  | Some id => a <= b /\ forall i, a <= i < b -> set_in e id (char_at e i) = true
  | None => a = b
  end.

(* the alternative occupies [s, t): leading whitespace [s, c), core [c, en), trailing whitespace [en, t) *)
Definition alt_at (a : lm_alt) (s c en t : Z) : Prop :=
  ws_run (la_lead a) s c /\ (la_req_before a = true -> s < c) /\
  match la_set a with
  | None => la_lit a <> [] /\ en = c + zlen (la_lit a) /\
            forall i, 0 <= i < zlen (la_lit a) -> char_at e (c + i) = nth (Z.to_nat i) (la_lit a) 0
  | Some id => la_lit a = [] /\ 0 < la_min a /\ la_min a <= en - c <= la_max a /\
               forall i, c <= i < en -> set_in e id (char_at e i) = true
  end /\
  ws_run (la_trail a) en t /\ (la_req_after a = true -> en < t) /\ 0 <= s /\ t <= tlen e.

(* the landmarks occur in order from position [from] on *)
Fixpoint chain_from (lms : list (list lm_alt)) (from : Z) : Prop :=
  match lms with
  | [] => True
  | alts :: rest => exists a s c en t, In a alts /\ from <= s /\ alt_at a s c en t /\ chain_from rest t
  end.

(* ... the first one starting exactly at [s] *)
Definition chain_first (lms : list (list lm_alt)) (s : Z) : Prop :=
  match lms with
  | [] => True
  | alts :: rest => exists a c en t, In a alts /\ alt_at a s c en t /\ chain_from rest t
  end.

Lemma chain_first_from lms s from : from <= s -> chain_first lms s -> chain_from lms from.
Proof.
  destruct lms as [|alts rest]; [auto|]. cbn [chain_first chain_from]. intros Hle [a [c [en [t H]]]].
  exists a, s, c, en, t. tauto.
Qed.

Lemma chain_from_weaken lms from from' : from' <= from -> chain_from lms from -> chain_from lms from'.
Proof.
  destruct lms as [|alts rest]; [auto|]. cbn [chain_from]. intros Hle [a [s [c [en [t H]]]]].
  exists a, s, c, en, t. split; [tauto|]. split; [lia|tauto].
Qed.

(* Atomic / Capture / Group wrappers *)
Lemma ch_unwrap_t : forall t sa sb, Reach e t sa sb -> exists sb', Reach e (unwrap_t t) sa sb' /\ pos sb' = pos sb.
Proof.
  induction t; intros sa sb H; cbn [unwrap_t]; try (exists sb; split; [exact H|reflexivity]).
  - destruct (an_reach_capture_inv e _ _ _ _ _ _ H) as [s1 [H1 Hp]].
    destruct (IHt _ _ H1) as [y' [H2 Hp2]]. exists y'. split; [exact H2|lia].
  - apply lal_inv_group in H. exact (IHt _ _ H).
  - apply an_reach_atomic_inv in H. exact (IHt _ _ H).
Qed.

Lemma ch_unwrap_t_shape d : forall t, shape_ok d t = true -> shape_ok d (unwrap_t t) = true.
Proof. induction t; cbn [unwrap_t shape_ok]; auto. Qed.
Lemma ch_unwrap_t_noci : forall t, no_ci_lit t = true -> no_ci_lit (unwrap_t t) = true.
Proof. induction t; cbn [unwrap_t no_ci_lit]; auto. Qed.
Lemma ch_unwrap_t_lits : forall t, lits_ok t = true -> lits_ok (unwrap_t t) = true.
Proof. induction t; cbn [unwrap_t lits_ok]; auto. Qed.

(* a set loop read left to right: a run of set characters *)
Lemma ch_setloop lk o id m n sa sb :
  Reach e (NCharLoop CSet lk o id m n) sa sb -> shape_ok false (NCharLoop CSet lk o id m n) = true -> inb e sa ->
  exists j, pos sb = pos sa + j /\ 0 <= m <= j /\ (n <> INF -> j <= n) /\ pos sa + j <= tlen e /\
            forall i, pos sa <= i < pos sa + j -> set_in e id (char_at e i) = true.
Proof.
  intros H Hs Hb. apply lal_inv_charloop in H. cbn [shape_ok] in Hs. apply andb_true_iff in Hs. destruct Hs as [Hs Hmn].
  apply andb_true_iff in Hs. destruct Hs as [Hs Hm0]. apply eqb_prop in Hs.
  pose proof (an_charloop_in e _ _ _ _ _ _ _ _ H) as [j0 [Hy0 [_ [Hav0 _]]]].
  apply an_charloop_in2 in H. destruct H as [j [maxn [Hy [Hj Hjn]]]].
  assert (j0 = j).
  { rewrite Hy in Hy0. unfold with_pos in Hy0. injection Hy0. unfold dir. rewrite Hs. lia. }
  subst j0 sb. unfold avail, dir in *. rewrite Hs in *. unfold inb in Hb. exists j. cbn [pos with_pos].
  split; [lia|]. split; [lia|]. split; [intros Hn; specialize (Hjn Hn); lia|]. split; [lia|].
  intros i Hi. destruct (lal_run_nth e CSet id o Hs maxn (pos sa) (i - pos sa) ltac:(lia)) as [Hc _].
  replace (pos sa + (i - pos sa)) with i in Hc by lia. exact Hc.
Qed.

(* whitespaceLoop *)
Lemma ch_whitespace k id m sa sb :
  whitespace_loop sets k = Some (id, m) -> Reach e k sa sb -> shape_ok false k = true -> inb e sa ->
  ws_run (Some id) (pos sa) (pos sb) /\ (0 <? m = true -> pos sa < pos sb) /\ pos sb <= tlen e.
Proof.
  unfold whitespace_loop. intros Hw Hr Hs Hb.
  destruct (ch_unwrap_t k sa sb Hr) as [sb' [Hr' Hp]]. pose proof (ch_unwrap_t_shape false k Hs) as Hs'.
  destruct (unwrap_t k) as [|ck lk o c m0 n| | | | | | | | | | | | | | | |]; try discriminate Hw.
  destruct ck; try discriminate Hw.
  destruct ((n =? INF) && _); [|discriminate Hw]. injection Hw as <- <-.
  destruct (ch_setloop lk o c m0 n sa sb' Hr' Hs' Hb) as [j [Hj [Hm [_ [Hle Hrun]]]]].
  rewrite <- Hp, Hj. cbn [ws_run]. split; [split; [lia|exact Hrun]|]. split; [lia|lia].
Qed.

(* the core of a landmark alternative *)
Lemma ch_core k lit st mn mx sa sb :
  lm_core cat_in sets k = Some (lit, st, mn, mx) -> Reach e k sa sb -> shape_ok false k = true -> no_ci_lit k = true ->
  lits_ok k = true -> inb e sa ->
  pos sb <= tlen e /\
  match st with
  | None => lit <> [] /\ pos sb = pos sa + zlen lit /\
            forall i, 0 <= i < zlen lit -> char_at e (pos sa + i) = nth (Z.to_nat i) lit 0
  | Some id => lit = [] /\ 0 < mn /\ mn <= pos sb - pos sa <= mx /\
               forall i, pos sa <= i < pos sb -> set_in e id (char_at e i) = true
  end.
Proof.
  unfold lm_core. intros Hc Hr Hs Hn Hl Hb.
  destruct (ch_unwrap_t k sa sb Hr) as [sb' [Hr' Hp]]. pose proof (ch_unwrap_t_shape false k Hs) as Hs'.
  pose proof (ch_unwrap_t_noci k Hn) as Hn'. pose proof (ch_unwrap_t_lits k Hl) as Hl'. rewrite <- Hp. clear Hr Hs Hn Hl Hp.
  destruct (unwrap_t k) as [ck o c|ck lk o c m n|o str| | | | | | | | | | | | | | |]; try discriminate Hc.
  - (* NChar *)
    apply lal_inv_char in Hr'. destruct Hr' as [-> Hch]. cbn [shape_ok] in Hs'. apply eqb_prop in Hs'.
    apply andb_true_iff in Hch. destruct Hch as [Hav Hch]. unfold avail, next_char, dir in *. rewrite Hs' in *.
    unfold inb in Hb. cbn [pos with_pos].
    destruct ck; try discriminate Hc.
    + injection Hc as <- <- <- <-. split; [lia|]. split; [discriminate|]. split; [reflexivity|].
      intros i Hi. unfold zlen in Hi. cbn [length] in Hi. assert (i = 0) by lia. subst i.
      replace (pos sa + 0) with (pos sa) by lia. cbn [char_test nth Z.to_nat] in *. lia.
    + destruct (get_set_chars cat_in (set_cls sets c) 8); [discriminate Hc|].
      destruct (neg (set_cls sets c)); [discriminate Hc|]. injection Hc as <- <- <- <-.
      split; [lia|]. split; [reflexivity|]. split; [lia|]. split; [lia|].
      intros i Hi. assert (i = pos sa) by lia. subst i. exact Hch.
  - (* NCharLoop *)
    destruct ck; try discriminate Hc.
    destruct ((0 <? m) && negb (n =? INF)) eqn:Emn; [|discriminate Hc].
    destruct (get_set_chars cat_in (set_cls sets c) 8); [discriminate Hc|].
    destruct (neg (set_cls sets c)); [discriminate Hc|]. injection Hc as <- <- <- <-.
    destruct (ch_setloop lk o c m n sa sb' Hr' Hs' Hb) as [j [Hj [Hm [Hjn [Hle Hrun]]]]].
    rewrite Hj. split; [lia|]. split; [reflexivity|]. split; [lia|]. split; [specialize (Hjn ltac:(lia)); lia|].
    intros i Hi. apply Hrun. lia.
  - (* NMulti *)
    injection Hc as <- <- <- <-. apply lal_inv_multi in Hr'. apply an_multi_in in Hr'. destruct Hr' as [-> [Hav Hm]].
    cbn [shape_ok no_ci_lit] in Hs', Hn'. apply eqb_prop in Hs'. apply negb_true_iff in Hn'.
    rewrite Hn', Hs' in Hm. unfold avail, dir in *. rewrite Hs' in *. unfold inb in Hb. cbn [pos with_pos].
    split; [lia|]. split; [cbn [lits_ok] in Hl'; destruct str; [discriminate Hl'|discriminate]|].
    split; [lia|]. intros i Hi.
    symmetry. rewrite (pfx_str_match_nth e str (pos sa) (Z.to_nat i) Hm) by (unfold zlen in Hi; lia).
    f_equal. lia.
Qed.



(* the children an alternative is made of *)
Lemma ch_kids t sa sb :
  Reach e t sa sb -> shape_ok false t = true -> no_ci_lit t = true -> lits_ok t = true ->
  let nd := unwrap_t t in
  let kids := match nd with NConcat _ l => l | _ => [nd] end in
  exists sb', ReachSeq e kids sa sb' /\ pos sb' = pos sb /\
    forallb (shape_ok false) kids = true /\ forallb no_ci_lit kids = true /\ forallb lits_ok kids = true.
Proof.
  intros Hr Hs Hn Hl. cbv zeta. destruct (ch_unwrap_t t sa sb Hr) as [sb' [Hr' Hp]].
  pose proof (ch_unwrap_t_shape false t Hs) as Hs'. pose proof (ch_unwrap_t_noci t Hn) as Hn'.
  pose proof (ch_unwrap_t_lits t Hl) as Hl'.
  destruct (unwrap_t t) eqn:Eu;
    try (exists sb'; split; [eapply RS_cons; [exact Hr'|apply RS_nil]|]; split; [exact Hp|];
         cbn [forallb]; rewrite Hs', Hn', Hl'; auto).
  apply an_reach_concat_inv in Hr'. exists sb'. cbn [shape_ok no_ci_lit lits_ok] in *. auto.
Qed.

Lemma ch_seq_fwd l sa sb : ReachSeq e l sa sb -> forallb (shape_ok false) l = true -> inb e sa -> caps_nonneg (caps sa) ->
  inb e sb /\ pos sa <= pos sb.
Proof. intros. eapply an_fwd_seq; eassumption. Qed.

Lemma ch_extract_alt t a sa sb :
  extract_alt cat_in sets t = Some a -> Reach e t sa sb ->
  shape_ok false t = true -> no_ci_lit t = true -> lits_ok t = true -> inb e sa -> caps_nonneg (caps sa) ->
  exists c en, alt_at a (pos sa) c en (pos sb).
Proof.
  unfold extract_alt. intros He Hr Hs Hn Hl Hb Hcn.
  destruct (ch_kids t sa sb Hr Hs Hn Hl) as [sbk [Hseq [Hpk [Hsk [Hnk Hlk]]]]]. cbv zeta in Hseq, Hsk, Hnk, Hlk.
  set (kids := match unwrap_t t with NConcat _ l => l | _ => [unwrap_t t] end) in *.
  rewrite <- Hpk. clear Hpk Hr.
  (* leading whitespace *)
  assert (Hlead : exists lead kids1 s1,
            (match kids with
             | x :: r => match whitespace_loop sets x with Some w => (Some w, r) | None => (None, kids) end
             | [] => (None, kids)
             end) = (lead, kids1) /\
            ReachSeq e kids1 s1 sbk /\ inb e s1 /\ caps_nonneg (caps s1) /\ pos sa <= pos s1 /\
            forallb (shape_ok false) kids1 = true /\ forallb no_ci_lit kids1 = true /\ forallb lits_ok kids1 = true /\
            ws_run (match lead with Some (i, _) => Some i | None => None end) (pos sa) (pos s1) /\
            (match lead with Some (_, m) => 0 <? m | None => false end = true -> pos sa < pos s1)).
  { destruct kids as [|x r] eqn:Ek.
    - exists None, [], sa.
      split; [reflexivity|]. split; [exact Hseq|]. split; [exact Hb|]. split; [exact Hcn|]. split; [lia|].
      split; [reflexivity|]. split; [reflexivity|]. split; [reflexivity|]. split; [reflexivity|discriminate].
    - destruct (whitespace_loop sets x) as [[i m]|] eqn:Ew.
      + destruct (an_reachseq_cons_inv e _ _ _ _ Hseq) as [s1 [H1 H2]].
        cbn [forallb] in Hsk, Hnk, Hlk. apply andb_true_iff in Hsk. destruct Hsk as [Hsx Hsr].
        apply andb_true_iff in Hnk. destruct Hnk as [Hnx Hnr]. apply andb_true_iff in Hlk. destruct Hlk as [Hlx Hlr].
        destruct (ch_whitespace x i m sa s1 Ew H1 Hsx Hb) as [W1 [W2 W3]].
        destruct (an_fwd e x sa s1 H1 Hsx Hb Hcn) as [Hb1 Hf1].
        exists (Some (i, m)), r, s1.
        split; [reflexivity|]. split; [exact H2|]. split; [exact Hb1|].
        split; [exact (an_reach_caps e _ _ _ H1 Hcn)|]. split; [exact Hf1|].
        split; [exact Hsr|]. split; [exact Hnr|]. split; [exact Hlr|]. split; [exact W1|exact W2].
      + exists None, (x :: r), sa.
        split; [reflexivity|]. split; [exact Hseq|]. split; [exact Hb|]. split; [exact Hcn|]. split; [lia|].
        split; [exact Hsk|]. split; [exact Hnk|]. split; [exact Hlk|]. split; [reflexivity|discriminate]. }
  destruct Hlead as [lead [kids1 [s1 [El [Hseq1 [Hb1 [Hcn1 [Hle1 [Hsk1 [Hnk1 [Hlk1 [Hws1 Hreq1]]]]]]]]]]]].
  rewrite El in He. clear El.
  destruct kids1 as [|c kids2]; [discriminate He|].
  destruct (lm_core cat_in sets c) as [[[[lit st] mn] mx]|] eqn:Ec; [|discriminate He].
  destruct (an_reachseq_cons_inv e _ _ _ _ Hseq1) as [s2 [Hc Hseq2]].
  cbn [forallb] in Hsk1, Hnk1, Hlk1. apply andb_true_iff in Hsk1. destruct Hsk1 as [Hsc Hsk2].
  apply andb_true_iff in Hnk1. destruct Hnk1 as [Hnc Hnk2]. apply andb_true_iff in Hlk1. destruct Hlk1 as [Hlc Hlk2].
  destruct (ch_core c lit st mn mx s1 s2 Ec Hc Hsc Hnc Hlc Hb1) as [Hle2 Hcore].
  destruct (an_fwd e c s1 s2 Hc Hsc Hb1 Hcn1) as [Hb2 Hf2].
  pose proof (an_reach_caps e _ _ _ Hc Hcn1) as Hcn2.
  (* trailing whitespace *)
  assert (Htrail : exists trail kids3,
            (match kids2 with
             | x :: r => match whitespace_loop sets x with Some w => (Some w, r) | None => (None, kids2) end
             | [] => (None, kids2)
             end) = (trail, kids3) /\
            (kids3 = [] ->
             ws_run (match trail with Some (i, _) => Some i | None => None end) (pos s2) (pos sbk) /\
             (match trail with Some (_, m) => 0 <? m | None => false end = true -> pos s2 < pos sbk) /\
             pos sbk <= tlen e)).
  { destruct kids2 as [|x r] eqn:Ek.
    - exists None, []. split; [reflexivity|]. intros _. apply an_reachseq_nil_inv in Hseq2. subst sbk.
      cbn [ws_run]. unfold inb in Hb2. split; [reflexivity|]. split; [discriminate|lia].
    - destruct (whitespace_loop sets x) as [[i m]|] eqn:Ew.
      + exists (Some (i, m)), r. split; [reflexivity|]. intros ->.
        destruct (an_reachseq_cons_inv e _ _ _ _ Hseq2) as [s3 [H1 H2]]. apply an_reachseq_nil_inv in H2. subst s3.
        cbn [forallb] in Hsk2. apply andb_true_iff in Hsk2. destruct Hsk2 as [Hsx _].
        destruct (ch_whitespace x i m s2 sbk Ew H1 Hsx Hb2) as [W1 [W2 W3]]. auto.
      + exists None, (x :: r). split; [reflexivity|]. discriminate. }
  destruct Htrail as [trail [kids3 [Et Htr]]]. rewrite Et in He. clear Et.
  destruct kids3 as [|k3 kr]; [|discriminate He]. destruct (Htr eq_refl) as [Hws3 [Hreq3 Hle3]].
  injection He as <-. exists (pos s1), (pos s2). unfold alt_at. cbn [la_lead la_trail la_set la_lit la_min la_max la_req_before la_req_after].
  unfold inb in Hb. split; [exact Hws1|]. split; [exact Hreq1|]. split; [|split; [exact Hws3|split; [exact Hreq3|lia]]].
  destruct st as [id|].
  - destruct Hcore as (A & B & C & D). auto.
  - destruct Hcore as (A & B & C). split; [exact A|]. split; [exact B|exact C].
Qed.

Lemma ch_all_some_in (l : list node) (f : node -> option lm_alt) r x :
  all_some (map f l) = Some r -> In x l -> exists a, f x = Some a /\ In a r.
Proof.
  revert r. induction l as [|y l IH]; intros r H Hin; [destruct Hin|]. cbn [map all_some] in H.
  destruct (f y) as [a|] eqn:Ef; [|discriminate H]. destruct (all_some (map f l)) as [r'|]; [|discriminate H].
  injection H as <-. destruct Hin as [<-|Hin].
  - exists a. split; [exact Ef|left; reflexivity].
  - destruct (IH r' eq_refl Hin) as [a' [H1 H2]]. exists a'. split; [exact H1|right; exact H2].
Qed.

(* extractRequiredLandmark: the child is matched by one of the alternatives *)
Lemma ch_extract_landmark x alts sa sb :
  extract_landmark cat_in sets x = Some alts -> Reach e x sa sb ->
  shape_ok false x = true -> no_ci_lit x = true -> lits_ok x = true -> inb e sa -> caps_nonneg (caps sa) ->
  exists a c en, In a alts /\ alt_at a (pos sa) c en (pos sb).
Proof.
  unfold extract_landmark. intros He Hr Hs Hn Hl Hb Hcn.
  destruct (ch_unwrap_t x sa sb Hr) as [sb' [Hr' Hp]]. pose proof (ch_unwrap_t_shape false x Hs) as Hs'.
  pose proof (ch_unwrap_t_noci x Hn) as Hn'. pose proof (ch_unwrap_t_lits x Hl) as Hl'. rewrite <- Hp.
  destruct (unwrap_t x) as [| | | | | | | | |o l| | | | | | | |] eqn:Eu; cbv beta iota in He;
    try (destruct (extract_alt cat_in sets _) as [aa|] eqn:Ea; [|discriminate He]; injection He as <-;
         destruct (ch_extract_alt _ aa sa sb' Ea Hr' Hs' Hn' Hl' Hb Hcn) as [cc [ee HH]];
         exists aa, cc, ee; split; [left; reflexivity|exact HH]).
  (* NAlternate *)
  destruct (all_some (map (extract_alt cat_in sets) l)) as [[|a0 r]|] eqn:Eall; try discriminate He.
  injection He as <-. destruct (an_reach_alt_inv e _ _ _ _ Hr') as [b [Hin Hrb]].
  destruct (ch_all_some_in l _ _ b Eall Hin) as [a [Ea Hina]].
  pose proof (an_alt_forallb false l Hs') as Hfa. cbn [no_ci_lit lits_ok] in Hn', Hl'.
  rewrite forallb_forall in Hfa, Hn', Hl'.
  destruct (ch_extract_alt b a sa sb' Ea Hrb (Hfa b Hin) (Hn' b Hin) (Hl' b Hin) Hb Hcn) as [c [en H]].
  exists a, c, en. split; [exact Hina|exact H].
Qed.

Lemma ch_zero_width x sa sb : is_zero_width_gap x = true -> Reach e x sa sb -> pos sb = pos sa.
Proof.
  unfold is_zero_width_gap. intros Hz Hr. destruct (ch_unwrap_t x sa sb Hr) as [sb' [Hr' Hp]]. rewrite <- Hp.
  destruct (unwrap_t x); try discriminate Hz.
  - apply an_reach_anchor_inv in Hr'. destruct Hr' as [-> _]. reflexivity.
  - apply lal_inv_empty in Hr'. subst. reflexivity.
  - apply lal_inv_bump in Hr'. subst. reflexivity.
Qed.

(* the collection loop: landmarks in order; before the first one only zero-width children are skipped *)
Lemma ch_collect : forall l acc lms sa sb,
  lm_collect cat_in sets l acc = Some lms -> ReachSeq e l sa sb ->
  forallb (shape_ok false) l = true -> forallb no_ci_lit l = true -> forallb lits_ok l = true ->
  inb e sa -> caps_nonneg (caps sa) ->
  exists new, lms = acc ++ new /\
    (acc = [] -> chain_first new (pos sa)) /\ (acc <> [] -> chain_from new (pos sa)).
Proof.
  induction l as [|x l IH]; intros acc lms sa sb Hc Hr Hs Hn Hl Hb Hcn; cbn [lm_collect] in Hc.
  - injection Hc as <-. exists []. rewrite app_nil_r. split; [reflexivity|]. split; intros _; exact I.
  - destruct (an_reachseq_cons_inv e _ _ _ _ Hr) as [s1 [H1 H2]].
    cbn [forallb] in Hs, Hn, Hl. apply andb_true_iff in Hs. destruct Hs as [Hsx Hsl].
    apply andb_true_iff in Hn. destruct Hn as [Hnx Hnl]. apply andb_true_iff in Hl. destruct Hl as [Hlx Hll].
    destruct (an_fwd e x sa s1 H1 Hsx Hb Hcn) as [Hb1 Hf1].
    pose proof (an_reach_caps e _ _ _ H1 Hcn) as Hcn1.
    destruct (extract_landmark cat_in sets x) as [alts|] eqn:Ex.
    + destruct (IH _ _ _ _ Hc H2 Hsl Hnl Hll Hb1 Hcn1) as [new [E [_ Hch]]].
      destruct (ch_extract_landmark x alts sa s1 Ex H1 Hsx Hnx Hlx Hb Hcn) as [a [c [en [Hin Hat]]]].
      exists (alts :: new). rewrite E, <- app_assoc. split; [reflexivity|].
      assert (Hrest : chain_from new (pos s1)) by (apply Hch; destruct acc; discriminate).
      split; intros _.
      * cbn [chain_first]. exists a, c, en, (pos s1). auto.
      * cbn [chain_from]. exists a, (pos sa), c, en, (pos s1). split; [exact Hin|]. split; [lia|]. auto.
    + destruct acc as [|a0 acc'].
      * destruct (is_zero_width_gap x) eqn:Ez; [|discriminate Hc].
        destruct (IH _ _ _ _ Hc H2 Hsl Hnl Hll Hb1 Hcn1) as [new [E [Hch _]]].
        exists new. split; [exact E|]. split; [|intros Hf; congruence].
        intros _. rewrite <- (ch_zero_width x sa s1 Ez H1). apply Hch. reflexivity.
      * destruct (IH _ _ _ _ Hc H2 Hsl Hnl Hll Hb1 Hcn1) as [new [E [_ Hch]]].
        exists new. split; [exact E|]. split; [intros Hf; discriminate Hf|].
        intros _. apply (chain_from_weaken new (pos s1)); [exact Hf1|]. apply Hch. discriminate.
Qed.

(* findRequiredLandmarkChain found (leading loop set, landmarks): every successful attempt at p reads a run
   of loop-set characters p .. s1-1, and from s1 on the landmarks occur in order, the first one starting at s1 *)
Theorem a2_landmark_chain_sound fuel root p s' loop lms :
  shape_ok false root = true -> no_ci_lit root = true -> lits_ok root = true -> 0 <= p <= tlen e ->
  find_landmark_chain cat_in sets root = Some (loop, lms) ->
  attempt e fuel root p = Ok (Some s') ->
  exists s1, p <= s1 <= tlen e /\
    (forall i, p <= i < s1 -> set_in e loop (char_at e i) = true) /\
    chain_first lms s1 /\ (2 <= length lms)%nat.
Proof.
  intros Hs Hn Hl Hp Hf Ha. pose proof (attempt_reach e _ _ _ _ Ha) as Hr.
  set (s0 := {| pos := p; caps := [] |}) in *.
  assert (Hb0 : inb e s0) by exact Hp.
  unfold find_landmark_chain in Hf.
  destruct (match root with NCapture o _ _ _ | NConcat o _ => is_rtl o | _ => false end); [discriminate Hf|].
  destruct (ch_unwrap_t root s0 s' Hr) as [y1 [Hr1 _]].
  pose proof (ch_unwrap_t_shape false root Hs) as Hs1. pose proof (ch_unwrap_t_noci root Hn) as Hn1.
  pose proof (ch_unwrap_t_lits root Hl) as Hl1.
  destruct (unwrap_t root) as [| | | | | | | |o l| | | | | | | | |] eqn:Eu; try discriminate Hf.
  destruct (zlen l <? 4); [discriminate Hf|].
  destruct l as [|first rest]; [discriminate Hf|].
  apply an_reach_concat_inv in Hr1. destruct (an_reachseq_cons_inv e _ _ _ _ Hr1) as [s1 [Hf1 Hrest]].
  cbn [shape_ok no_ci_lit lits_ok forallb] in Hs1, Hn1, Hl1.
  apply andb_true_iff in Hs1. destruct Hs1 as [Hsf Hsr]. apply andb_true_iff in Hn1. destruct Hn1 as [Hnf Hnr].
  apply andb_true_iff in Hl1. destruct Hl1 as [Hlf Hlr].
  destruct (ch_unwrap_t first s0 s1 Hf1) as [s1' [Hl1 Hp1]].
  pose proof (ch_unwrap_t_shape false first Hsf) as Hsl.
  destruct (is_set_loop_inf (unwrap_t first)) as [lp|] eqn:El; [|discriminate Hf].
  destruct (unwrap_t first) as [|k lk o' c m n| | | | | | | | | | | | | | | |] eqn:Euf; try discriminate El.
  destruct k; try discriminate El. cbn [is_set_loop_inf] in El.
  destruct (n =? INF); [|discriminate El]. injection El as ->.
  destruct (ch_setloop lk o' lp m n s0 s1' Hl1 Hsl Hb0) as [j [Hj [Hm [_ [Hle Hrun]]]]].
  destruct (lm_collect cat_in sets rest []) as [lms0|] eqn:Ec; [|discriminate Hf].
  destruct (zlen lms0 <? 2) eqn:E2; [discriminate Hf|]. injection Hf as <- <-.
  destruct (an_fwd e first s0 s1 Hf1 Hsf Hb0 an_caps_nonneg_nil) as [Hb1 Hfw].
  pose proof (an_reach_caps e _ _ _ Hf1 an_caps_nonneg_nil) as Hcn1.
  destruct (ch_collect rest [] lms0 s1 y1 Ec Hrest Hsr Hnr Hlr Hb1 Hcn1) as [new [E [Hch _]]].
  cbn [app] in E. subst new. exists (pos s1). unfold inb in Hb1. cbn [pos s0] in *.
  split; [lia|]. split; [intros i Hi; apply Hrun; lia|]. split; [apply Hch; reflexivity|].
  unfold zlen in E2. lia.
Qed.

End Chain.
