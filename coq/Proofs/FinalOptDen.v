(* C05, proofs part 1: the reference semantics as a total FUNCTION.
   Spec.sem terminates on every tree with enough fuel (SpecTermProofs.spec_sem_total_any) and is monotone in
   the fuel (RewriteProofs.rw_sem_mono), so  den e t s  = "the priority-ordered list of all results of t from s"
   is a function; it satisfies one equation per constructor (fd_den_...), loops through the total iteration
   function iterD.  Everything about the rewrites is then equational reasoning on lists. *)
From Verif Require Import Base.Prelude Model.Tree Model.Spec Model.Rewrite
  Proofs.SpecProofs Proofs.SpecTermProofs Proofs.RewriteProofs.
From Coq Require Import ZifyBool.

Section Den.
Variable e : env.

Definition den (t : node) (s : st) : list st :=
  match sem e (term_fuel_any t) t s with Ok l => l | _ => [] end.

Lemma fd_den_evals t s : rw_evals e t s (den t s).
Proof.
  unfold den. destruct (spec_sem_total_any e t (term_fuel_any t) (Nat.le_refl _) s) as [l Hl].
  rewrite Hl. exists (term_fuel_any t). exact Hl.
Qed.

Lemma fd_evals_den t s l : rw_evals e t s l <-> den t s = l.
Proof.
  split.
  - intros H. exact (rw_evals_det e t s _ _ (fd_den_evals t s) H).
  - intros <-. apply fd_den_evals.
Qed.

(* ---- leaves *)
Lemma fd_den_leaf t s r : leaf_result e t s = Some r -> den t s = r.
Proof. intros H. apply fd_evals_den. apply (evals_leaf e t s r r H). reflexivity. Qed.

Lemma fd_den_char k o c s :
  den (NChar k o c) s = if (0 <? avail e o (pos s)) && char_test e k c (next_char e o (pos s))
                        then [with_pos s (pos s + dir o)] else [].
Proof. apply fd_den_leaf. reflexivity. Qed.
Lemma fd_den_charloop k l o c m n s : den (NCharLoop k l o c m n) s = sem_charloop e k l o c m n s.
Proof. apply fd_den_leaf. reflexivity. Qed.
Lemma fd_den_multi o str s : den (NMulti o str) s = sem_multi e o str s.
Proof. apply fd_den_leaf. reflexivity. Qed.
Lemma fd_den_ref o g s : den (NRef o g) s = sem_ref e o g s.
Proof. apply fd_den_leaf. reflexivity. Qed.
Lemma fd_den_anchor a s : den (NAnchor a) s = if anchor_ok e a (pos s) then [s] else [].
Proof. apply fd_den_leaf. reflexivity. Qed.
Lemma fd_den_nothing s : den NNothing s = [].
Proof. apply fd_den_leaf. reflexivity. Qed.
Lemma fd_den_empty s : den NEmpty s = [s].
Proof. apply fd_den_leaf. reflexivity. Qed.
Lemma fd_den_bump s : den NBump s = [s].
Proof. apply fd_den_leaf. reflexivity. Qed.

(* ---- concatenation: the rest of a concatenation as a function *)
Fixpoint den_seq (l : list node) (s : st) : list st :=
  match l with
  | [] => [s]
  | x :: l' => flat_map (den_seq l') (den x s)
  end.

Lemma fd_Forall2_fun {A B} (f : A -> B) (l : list A) : Forall2 (fun a b => f a = b) l (map f l).
Proof. induction l; constructor; auto. Qed.
Lemma fd_Forall2_fun_inv {A B} (f : A -> B) (l : list A) zs : Forall2 (fun a b => f a = b) l zs -> zs = map f l.
Proof. induction 1; cbn; congruence. Qed.
Lemma fd_concat_map {A B} (f : A -> list B) l : concat (map f l) = flat_map f l.
Proof. symmetry. apply flat_map_concat_map. Qed.

Lemma fd_den_concat o l s : den (NConcat o l) s = den_seq l s.
Proof.
  revert s. induction l as [|x l IH]; intros s.
  - apply fd_evals_den. apply evals_concat_nil. reflexivity.
  - apply fd_evals_den. apply evals_concat_cons.
    exists (den x s), (map (den (NConcat o l)) (den x s)).
    split; [apply fd_den_evals|]. split.
    + eapply Forall2_impl'; [|apply fd_Forall2_fun]. intros a b <-. apply fd_den_evals.
    + cbn [den_seq]. rewrite fd_concat_map. apply flat_map_ext. intros a. symmetry. apply IH.
Qed.

Lemma fd_flat_map_flat_map {A B C} (f : A -> list B) (g : B -> list C) (l : list A) :
  flat_map g (flat_map f l) = flat_map (fun a => flat_map g (f a)) l.
Proof. induction l as [|a l IH]; cbn [flat_map]; [reflexivity|]. rewrite flat_map_app, IH. reflexivity. Qed.

Lemma fd_den_seq_app l1 l2 s : den_seq (l1 ++ l2) s = flat_map (den_seq l2) (den_seq l1 s).
Proof.
  revert s. induction l1 as [|x l1 IH]; intros s; cbn [den_seq app].
  - cbn. rewrite app_nil_r. reflexivity.
  - rewrite fd_flat_map_flat_map. apply flat_map_ext. intros a. apply IH.
Qed.

(* ---- alternation *)
Lemma fd_den_alt o l s : den (NAlternate o l) s = flat_map (fun x => den x s) l.
Proof.
  induction l as [|x l IH].
  - apply fd_evals_den. apply evals_alt_nil. reflexivity.
  - apply fd_evals_den. apply evals_alt_cons. exists (den x s), (den (NAlternate o l) s).
    split; [apply fd_den_evals|]. split; [apply fd_den_evals|]. cbn [flat_map]. rewrite IH. reflexivity.
Qed.

(* ---- the one-child constructs *)
Lemma fd_den_atomic r s : den (NAtomic r) s = hd_list (den r s).
Proof. apply fd_evals_den. apply evals_atomic. exists (den r s). split; [apply fd_den_evals|reflexivity]. Qed.
Lemma fd_den_group r s : den (NGroup r) s = den r s.
Proof. apply fd_evals_den. apply evals_group. apply fd_den_evals. Qed.
Lemma fd_den_poslook o r s : den (NPosLook o r) s = map (fun s' => with_pos s' (pos s)) (hd_list (den r s)).
Proof. apply fd_evals_den. apply evals_poslook. exists (den r s). split; [apply fd_den_evals|reflexivity]. Qed.
Lemma fd_den_neglook o r s : den (NNegLook o r) s = match hd_list (den r s) with [] => [s] | _ => [] end.
Proof. apply fd_evals_den. apply evals_neglook. exists (den r s). split; [apply fd_den_evals|reflexivity]. Qed.
Lemma fd_den_capture o g u r s : den (NCapture o g u r) s = flat_map (capture_close g u s) (den r s).
Proof. apply fd_evals_den. apply evals_capture. exists (den r s). split; [apply fd_den_evals|reflexivity]. Qed.

Definition den_opt (n : option node) (s : st) : list st :=
  match n with Some n' => den n' s | None => [s] end.

Lemma fd_den_backref_cond o g y n s :
  den (NBackRefCond o g y n) s = if is_matched g (caps s) then den y s else den_opt n s.
Proof.
  apply fd_evals_den. apply evals_backref_cond. destruct (is_matched g (caps s)); [apply fd_den_evals|].
  destruct n; cbn [den_opt]; [apply fd_den_evals|reflexivity].
Qed.
Lemma fd_den_expr_cond o c y n s :
  den (NExprCond o c y n) s =
  match den c s with
  | s' :: _ => den y (with_pos s' (pos s))
  | [] => den_opt n s
  end.
Proof.
  apply fd_evals_den. apply evals_expr_cond. exists (den c s). split; [apply fd_den_evals|].
  destruct (den c s); [|apply fd_den_evals]. destruct n; cbn [den_opt]; [apply fd_den_evals|reflexivity].
Qed.

(* ---- loops: the iteration of Spec.iter over a total body, as a function *)
Definition iter_fuel (limit count : Z) : nat := Z.to_nat (Z.max 0 (limit - count) + Z.max 0 (- count) + 1).

Definition iterD (body : st -> list st) (lazy : bool) (limit : Z) (s : st) (mark count : Z) : list st :=
  match iter (iter_fuel limit count) (fun a => Ok (body a)) lazy limit s mark count with Ok l => l | _ => [] end.

Lemma fd_iter_total body lazy limit : forall f s mark count,
  (iter_fuel limit count <= f)%nat ->
  exists l, iter f (fun a => Ok (body a)) lazy limit s mark count = Ok l.
Proof.
  intros f s mark count Hf.
  apply (tm_iter_count_total (fun a => Ok (body a))); [intros a; eexists; reflexivity|].
  unfold iter_fuel in Hf. lia.
Qed.

Lemma fd_iter_stable body lazy limit f s mark count :
  (iter_fuel limit count <= f)%nat ->
  iter f (fun a => Ok (body a)) lazy limit s mark count = Ok (iterD body lazy limit s mark count).
Proof.
  intros Hf. unfold iterD.
  destruct (fd_iter_total body lazy limit (iter_fuel limit count) s mark count (Nat.le_refl _)) as [l Hl].
  rewrite Hl. apply (rle_iter _ _ lazy limit (fun a => rle_refl _) _ _ Hf). exact Hl.
Qed.

Definition iter_again (body : st -> list st) (lazy : bool) (limit : Z) (s : st) (count : Z) : list st :=
  flat_map (fun s' => iterD body lazy limit s' (pos s) (count + 1)) (body s).

(* the unfolding of Spec.iter *)
Lemma fd_iterD_eq body lazy limit s mark count :
  iterD body lazy limit s mark count =
  if lazy then
    if count <? 0 then iter_again body lazy limit s count
    else s :: (if (count <? limit) && negb (pos s =? mark) then iter_again body lazy limit s count else [])
  else
    if (limit <=? count) || ((pos s =? mark) && (0 <=? count)) then [s]
    else iter_again body lazy limit s count ++ (if 0 <=? count then [s] else []).
Proof.
  assert (Hag : (count < 0 \/ count < limit) -> forall f, (iter_fuel limit count <= S f)%nat ->
            bindr (Ok (body s)) (fun s' => iter f (fun a => Ok (body a)) lazy limit s' (pos s) (count + 1)) =
            Ok (iter_again body lazy limit s count)).
  { intros Hc f Hf. unfold bindr. cbn [bind]. unfold iter_again.
    rewrite <- (bindl_pure (body s)). apply bindl_ext. intros a.
    apply fd_iter_stable. unfold iter_fuel in *. lia. }
  pose proof (fd_iter_stable body lazy limit (S (iter_fuel limit count)) s mark count ltac:(lia)) as H.
  rewrite iter_S in H. cbv zeta in H.
  destruct lazy.
  - destruct (count <? 0) eqn:Ec.
    + rewrite Hag in H by lia. congruence.
    + destruct ((count <? limit) && negb (pos s =? mark)) eqn:E2.
      * rewrite Hag in H by lia. cbn in H. congruence.
      * cbn in H. congruence.
  - destruct ((limit <=? count) || (pos s =? mark) && (0 <=? count)) eqn:E1.
    + congruence.
    + rewrite Hag in H by lia. cbn in H. congruence.
Qed.

Definition loop_limit (m n : Z) : Z := if n =? INF then INF else n - m.

Lemma fd_iter_ext (body body' : st -> res (list st)) lazy limit : (forall a, body a = body' a) ->
  forall f s mark count, iter f body lazy limit s mark count = iter f body' lazy limit s mark count.
Proof.
  intros Hb. induction f as [|f IH]; intros s mark count; [reflexivity|].
  rewrite !iter_S. cbv zeta. rewrite Hb.
  assert (Hag : bindr (body' s) (fun s' => iter f body lazy limit s' (pos s) (count + 1)) =
                bindr (body' s) (fun s' => iter f body' lazy limit s' (pos s) (count + 1))).
  { apply bindr_ext. intros a. apply IH. }
  rewrite Hag. reflexivity.
Qed.

Lemma fd_den_loop lazy o m n r s :
  den (NLoop lazy o m n r) s =
  if m =? 0 then iterD (den r) lazy (loop_limit m n) s (-1) 0
  else flat_map (fun s' => iterD (den r) lazy (loop_limit m n) s' (pos s) (1 - m)) (den r s).
Proof.
  apply fd_evals_den.
  set (F := Nat.max (term_fuel_any r) (Nat.max (iter_fuel (loop_limit m n) 0) (iter_fuel (loop_limit m n) (1 - m)))).
  exists (S F). rewrite tm_sem_loop. fold (loop_limit m n).
  assert (Hbody : forall a, sem e F r a = Ok (den r a)).
  { intros a. destruct (fd_den_evals r a) as [f Hf].
    destruct (spec_sem_total_any e r F ltac:(unfold F; lia) a) as [l Hl].
    rewrite Hl. f_equal. apply (rw_evals_det e r a); [exists F; exact Hl | exists f; exact Hf]. }
  assert (Hit : forall a mark count, (iter_fuel (loop_limit m n) count <= F)%nat ->
            iter F (sem e F r) lazy (loop_limit m n) a mark count = Ok (iterD (den r) lazy (loop_limit m n) a mark count)).
  { intros a mark count Hc. rewrite (fd_iter_ext _ (fun a0 => Ok (den r a0)) lazy (loop_limit m n) Hbody).
    apply fd_iter_stable. exact Hc. }
  destruct (m =? 0).
  - apply Hit. unfold F. lia.
  - rewrite Hbody. unfold bindr. cbn [bind]. rewrite <- (bindl_pure (den r s)). apply bindl_ext.
    intros a. apply Hit. unfold F. lia.
Qed.

End Den.
