(* C13 — the backtracking stack limit: proofs over Model/VM.v.
   Part 1 (this section of the file): the capacity invariant [cap_ok]
     tcap <= limit (when a limit is set), |track| <= tcap, |stack| <= scap
   holds initially and is preserved by every interpreter step, hence by run / exec_at / scan / find. *)
From Verif Require Import Base.Prelude Model.Tree Model.Spec Model.VM Gen.RunnerGen.
From Coq Require Import ZifyBool.

(* ---------- list-length facts ---------- *)
Lemma vml_zlen_nil {A} : zlen (@nil A) = 0.
Proof. reflexivity. Qed.
Lemma vml_zlen_cons {A} (x : A) l : zlen (x :: l) = zlen l + 1.
Proof. unfold zlen. cbn [length]. lia. Qed.
Lemma vml_zlen_app {A} (a b : list A) : zlen (a ++ b) = zlen a + zlen b.
Proof. unfold zlen. rewrite app_length. lia. Qed.
Lemma vml_zlen_nonneg {A} (l : list A) : 0 <= zlen l.
Proof. unfold zlen. lia. Qed.
Lemma vml_zlen_skipn_le {A} n (l : list A) : zlen (skipn n l) <= zlen l.
Proof. unfold zlen. rewrite skipn_length. lia. Qed.
Lemma vml_zlen_rev {A} (l : list A) : zlen (rev l) = zlen l.
Proof. unfold zlen. rewrite rev_length. reflexivity. Qed.
Lemma vml_zlen_rev_swap {A} (l : list A) x y r : rev l = x :: r -> zlen (rev (y :: r)) = zlen l.
Proof.
  intros H. rewrite vml_zlen_rev, vml_zlen_cons, <- (vml_zlen_rev l), H, vml_zlen_cons. reflexivity.
Qed.

(* the reduction used everywhere: record projections, setters and [bind] only *)
Ltac vm_cbn :=
  cbn [pc mode tp track tcap stack scap crawl mcaps
       set_pc set_tp set_track set_stack set_caps set_tcap set_scap bind].
Ltac vm_cbn_in H :=
  cbn [pc mode tp track tcap stack scap crawl mcaps
       set_pc set_tp set_track set_stack set_caps set_tcap set_scap bind] in H.

(* destruct the innermost scrutinee of some match/if of the goal *)
Ltac vm_case :=
  match goal with
  | |- context [match ?x with _ => _ end] =>
      lazymatch x with
      | context [match _ with _ => _ end] => fail
      | _ => destruct x eqn:?
      end
  end.

Definition cap_ok (limit : Z) (s : vm) : Prop :=
  (0 <= limit -> tcap s <= limit) /\ zlen (track s) <= tcap s /\ zlen (stack s) <= scap s.

Definition out_ok (limit : Z) (o : outcome) : Prop :=
  match o with
  | Next s | Done s => cap_ok limit s
  | _ => True
  end.

Ltac vml_lens :=
  repeat match goal with
         | |- context [zlen (skipn ?k ?l)] =>
             lazymatch goal with
             | _ : zlen (skipn k l) <= zlen l |- _ => fail
             | _ => pose proof (vml_zlen_skipn_le k l)
             end
         end;
  repeat match goal with
         | H : rev ?l = ?x :: ?r |- context [zlen (rev (?y :: ?r))] =>
             rewrite (vml_zlen_rev_swap l x y r H)
         end;
  rewrite ?vml_zlen_app in *; rewrite ?vml_zlen_cons in *;
  change (zlen (@nil Z)) with 0 in *.

Ltac cap_solve :=
  unfold cap_ok in *;
  cbn [pc mode tp track tcap stack scap crawl mcaps
       set_pc set_tp set_track set_stack set_caps set_tcap set_scap] in *;
  repeat match goal with
         | H : _ /\ _ |- _ => destruct H
         end;
  vml_lens; lia.

Section Limit.
Variable e : env.
Variable p : program.
Variable limit : Z.

Lemma cap_ok_init t : 0 <= trackcount p -> cap_ok limit (init_vm p limit t).
Proof.
  intros Htc. unfold cap_ok, init_vm. vm_cbn. change (zlen (@nil Z)) with 0.
  unfold G_tracksize_mul, G_tracksize_min, G_stacksize_mul, G_stacksize_min.
  destruct ((0 <=? limit) && (limit <? Z.max (trackcount p * 8) 64)) eqn:E; lia.
Qed.

(* without the side condition on trackcount as well: the minimum sizes are positive *)
Lemma cap_ok_init_any t : cap_ok limit (init_vm p limit t).
Proof.
  unfold cap_ok, init_vm. vm_cbn. change (zlen (@nil Z)) with 0.
  unfold G_tracksize_mul, G_tracksize_min, G_stacksize_mul, G_stacksize_min.
  destruct ((0 <=? limit) && (limit <? Z.max (trackcount p * 8) 64)) eqn:E; lia.
Qed.

Lemma cap_ok_tpush s ws s' : tpush s ws = Ok s' -> cap_ok limit s -> cap_ok limit s'.
Proof.
  unfold tpush. intros H C. destruct (tcap s <? zlen (track s) + zlen ws) eqn:E; [discriminate|].
  injection H as <-. cap_solve.
Qed.

Lemma cap_ok_spush s ws s' : spush s ws = Ok s' -> cap_ok limit s -> cap_ok limit s'.
Proof.
  unfold spush. intros H C. destruct (scap s <? zlen (stack s) + zlen ws) eqn:E; [discriminate|].
  injection H as <-. cap_solve.
Qed.

Lemma cap_ok_ensure s s' : ensure_storage p limit s = Ok s' -> cap_ok limit s -> cap_ok limit s'.
Proof.
  unfold ensure_storage. intros H C.
  set (need := trackcount p * G_ensure_factor) in *.
  pose proof (vml_zlen_nonneg (stack s)). pose proof (vml_zlen_nonneg (track s)).
  repeat (vm_cbn_in H; match type of H with
          | context [match ?x with _ => _ end] =>
              lazymatch x with
              | context [match _ with _ => _ end] => fail
              | _ => destruct x eqn:?
              end
          end); vm_cbn_in H; try discriminate; injection H as <-; cap_solve.
Qed.

Lemma cap_ok_goto s n s' : goto p limit s n = Ok s' -> cap_ok limit s -> cap_ok limit s'.
Proof.
  unfold goto. intros H C.
  destruct (n <=? pc s).
  - destruct (ensure_storage p limit s) as [s1| | |] eqn:E; cbn [bind] in H; try discriminate.
    apply cap_ok_ensure in E; [|assumption].
    destruct (code_at p n); [|discriminate]. injection H as <-. cap_solve.
  - cbn [bind] in H. destruct (code_at p n); [|discriminate]. injection H as <-. cap_solve.
Qed.

Lemma cap_ok_advance s i s' : advance p s i = Ok s' -> cap_ok limit s -> cap_ok limit s'.
Proof.
  unfold advance. intros H C. destruct (code_at p (pc s + i + 1)); [|discriminate].
  injection H as <-. cap_solve.
Qed.

Lemma cap_ok_backtrack s s' : backtrack p limit s = Ok s' -> cap_ok limit s -> cap_ok limit s'.
Proof.
  unfold backtrack. intros H C. destruct (track s) as [|np t] eqn:Et; [discriminate|].
  assert (C1 : cap_ok limit (set_track s t)) by (unfold cap_ok in C; rewrite Et in C; cap_solve).
  destruct (if np <? 0 then (- np, Back2Bit) else (np, BackBit)) as [newpos m].
  destruct (code_at p newpos); [|discriminate].
  destruct (newpos <? pc s).
  - destruct (ensure_storage p limit (set_track s t)) as [s1| | |] eqn:E; cbn [bind] in H; try discriminate.
    apply cap_ok_ensure in E; [|assumption]. injection H as <-. cap_solve.
  - cbn [bind] in H. injection H as <-. cap_solve.
Qed.

Lemma cap_ok_trackto s n s' : trackto s n = Ok s' -> cap_ok limit s -> cap_ok limit s'.
Proof.
  unfold trackto. intros H C. destruct ((n <? 0) || (zlen (track s) <? n)); [discriminate|].
  injection H as <-. cap_solve.
Qed.

Lemma cap_ok_set_caps s c m : cap_ok limit s -> cap_ok limit (set_caps s c m).
Proof. intros C. cap_solve. Qed.
Lemma cap_ok_set_tp s t : cap_ok limit s -> cap_ok limit (set_tp s t).
Proof. intros C. cap_solve. Qed.

Lemma cap_ok_uncapture s s' : uncapture s = Ok s' -> cap_ok limit s -> cap_ok limit s'.
Proof.
  unfold uncapture. intros H C. destruct (crawl s); [discriminate|].
  destruct (remove_match z (mcaps s)); [|discriminate]. injection H as <-. cap_solve.
Qed.

Lemma cap_ok_uncapture_to f : forall s t s', uncapture_to f s t = Ok s' -> cap_ok limit s -> cap_ok limit s'.
Proof.
  induction f as [|f IH]; intros s t s' H C; cbn [uncapture_to] in H; [discriminate|].
  destruct (zlen (crawl s) =? t); [injection H as <-; assumption|].
  destruct (uncapture s) as [s1| | |] eqn:E; cbn [bind] in H; try discriminate.
  eapply IH; [exact H|]. eapply cap_ok_uncapture; eassumption.
Qed.

Lemma cap_ok_do_capture s a x t s' : do_capture s a x t = Ok s' -> cap_ok limit s -> cap_ok limit s'.
Proof.
  unfold do_capture. intros H C. destruct (if t <? x then (t, x) else (x, t)) as [u v].
  destruct (add_match a u (v - u) (mcaps s)); [|discriminate]. injection H as <-. cap_solve.
Qed.

Lemma cap_ok_do_transfer s a b x t s' : do_transfer s a b x t = Ok s' -> cap_ok limit s -> cap_ok limit s'.
Proof.
  unfold do_transfer. intros H C.
  repeat match type of H with
         | context [match ?x with _ => _ end] =>
             lazymatch x with
             | context [match _ with _ => _ end] => fail
             | _ => destruct x eqn:?
             end
         end; try discriminate; injection H as <-; cap_solve.
Qed.

(* the three ways a step ends *)
Lemma out_ok_cont_advance s i o : cont (advance p s i) = Ok o -> cap_ok limit s -> out_ok limit o.
Proof.
  unfold cont. intros H C. destruct (advance p s i) as [s1| | |] eqn:E; cbn [bind] in H; try discriminate.
  injection H as <-. cbn [out_ok]. eapply cap_ok_advance; eassumption.
Qed.
Lemma out_ok_cont_goto s a o : cont (goto p limit s a) = Ok o -> cap_ok limit s -> out_ok limit o.
Proof.
  unfold cont. intros H C. destruct (goto p limit s a) as [s1| | |] eqn:E; cbn [bind] in H; try discriminate.
  injection H as <-. cbn [out_ok]. eapply cap_ok_goto; eassumption.
Qed.
Lemma out_ok_brk s o : brk p limit s = Ok o -> cap_ok limit s -> out_ok limit o.
Proof.
  unfold brk. intros H C. destruct (backtrack p limit s) as [s1| | |] eqn:E; cbn [bind] in H; try discriminate.
  injection H as <-. cbn [out_ok]. eapply cap_ok_backtrack; eassumption.
Qed.

(* ---------- one interpreter step ---------- *)
Ltac vm_case_in H :=
  match type of H with
  | context [match ?x with _ => _ end] =>
      lazymatch x with
      | context [match _ with _ => _ end] => fail
      | context [bind _ _] => fail
      | _ => destruct x eqn:?
      end
  | context [bind ?x _] =>
      lazymatch x with
      | context [match _ with _ => _ end] => fail
      | context [bind _ _] => fail
      | _ => destruct x eqn:?
      end
  end.

Ltac cap_leaf :=
  first
    [ discriminate
    | match goal with
      | H : cont (advance _ _ _) = Ok _ |- _ => eapply out_ok_cont_advance; [exact H|]
      | H : cont (goto _ _ _ _) = Ok _ |- _ => eapply out_ok_cont_goto; [exact H|]
      | H : brk _ _ _ = Ok _ |- _ => eapply out_ok_brk; [exact H|]
      | H : Ok _ = Ok _ |- _ => injection H as <-; cbn [out_ok]
      end ];
  try match goal with
      | E : uncapture_to _ _ _ = Ok ?s |- cap_ok _ ?s => eapply cap_ok_uncapture_to; [exact E|]
      end;
  repeat match goal with H : context [Z.land _ _] |- _ => clear H end;
  cap_solve.

(* every branch of [step]: the state handed to goto / advance / backtrack (or returned by Stop) is
   obtained from s by pops, in-capacity pushes and capacity-neutral updates *)
Lemma step_cap_ok s o : step e p limit s = Ok o -> cap_ok limit s -> out_ok limit o.
Proof.
  destruct s as [pc0 md tp0 tr tc st sc cr mc].
  unfold step. unfold tpush, spush, opnd, trackto, uncapture, do_capture, do_transfer.
  vm_cbn.
  intros H C.
  repeat (vm_cbn_in H; vm_case_in H).
  all: vm_cbn_in H.
  all: cap_leaf.
Qed.

Lemma step_cap_ok' s s' :
  step e p limit s = Ok (Next s') \/ step e p limit s = Ok (Done s') -> cap_ok limit s -> cap_ok limit s'.
Proof. intros [H|H] C; apply (step_cap_ok _ _ H C). Qed.

Lemma run_steps_cap_ok k : forall s s' b,
  run_steps e p limit k s = Ok (s', b) -> cap_ok limit s -> cap_ok limit s'.
Proof.
  induction k as [|k IH]; intros s s' b H C; cbn [run_steps] in H.
  - injection H as <- <-. exact C.
  - destruct (step e p limit s) as [o| | |] eqn:E; try discriminate.
    pose proof (step_cap_ok _ _ E C) as Co.
    destruct o as [s1|s1|c|w]; try discriminate.
    + eapply IH; [exact H|exact Co].
    + injection H as <- <-. exact Co.
Qed.

Lemma run_cap_ok fuel : forall s s', run e p limit fuel s = Ok s' -> cap_ok limit s -> cap_ok limit s'.
Proof.
  induction fuel as [|f IH]; intros s s' H C; cbn [run] in H; [discriminate|].
  destruct (run_steps e p limit 1000 s) as [[s1 b]| | |] eqn:E; cbn [bind] in H; try discriminate.
  pose proof (run_steps_cap_ok _ _ _ _ E C) as C1. cbn [fst snd] in H.
  destruct b; [injection H as <-; exact C1|]. eapply IH; eassumption.
Qed.

Lemma exec_at_cap_ok fuel t s' : exec_at e p limit fuel t = Ok s' -> cap_ok limit s'.
Proof.
  unfold exec_at. intros H.
  destruct (goto p limit (init_vm p limit t) 0) as [s0| | |] eqn:E; cbn [bind] in H; try discriminate.
  eapply run_cap_ok; [exact H|]. eapply cap_ok_goto; [exact E|]. apply cap_ok_init_any.
Qed.

Lemma scan_cap_ok fuel n : forall rtl s t s',
  vm_scan_from e p limit fuel n rtl s t = Ok (Some s') -> cap_ok limit s -> cap_ok limit s'.
Proof.
  induction n as [|n IH]; intros rtl s t s' H C; cbn [vm_scan_from] in H; [discriminate|].
  match type of H with context [goto p limit ?x 0] => set (s0 := x) in *; assert (C0 : cap_ok limit s0) end.
  { subst s0. unfold cap_ok in *. vm_cbn. change (zlen (@nil Z)) with 0.
    pose proof (vml_zlen_nonneg (track s)). pose proof (vml_zlen_nonneg (stack s)). lia. }
  destruct (goto p limit s0 0) as [s1| | |] eqn:E1; cbn [bind] in H; try discriminate.
  destruct (run e p limit fuel s1) as [s2| | |] eqn:E2; cbn [bind] in H; try discriminate.
  assert (C2 : cap_ok limit s2).
  { eapply run_cap_ok; [exact E2|]. eapply cap_ok_goto; eassumption. }
  destruct (matched0 s2); [injection H as <-; exact C2|].
  destruct (if rtl then t <=? 0 else tlen e <=? t); [discriminate|].
  eapply IH; eassumption.
Qed.

Lemma find_cap_ok fuel rtl start prevlen s' :
  vm_find e p limit fuel rtl start prevlen = Ok (Some s') -> cap_ok limit s'.
Proof.
  unfold vm_find. intros H.
  destruct ((prevlen =? 0) && (start =? (if rtl then 0 else tlen e))); [discriminate|].
  eapply scan_cap_ok; [exact H|]. apply cap_ok_init_any.
Qed.

End Limit.

(* The allocated backtracking stack never exceeds the limit: at every state the interpreter goes
   through (every prefix of the step sequence), in particular in the state a match call returns. *)
Theorem vml_track_never_exceeds_limit :
  forall e p limit,
    (forall t, cap_ok limit (init_vm p limit t)) /\
    (forall s s', step e p limit s = Ok (Next s') \/ step e p limit s = Ok (Done s') ->
                  cap_ok limit s -> cap_ok limit s') /\
    (forall fuel rtl start prevlen s',
        vm_find e p limit fuel rtl start prevlen = Ok (Some s') ->
        (0 <= limit -> tcap s' <= limit) /\ zlen (track s') <= tcap s').
Proof.
  intros e p limit. split; [|split].
  - apply cap_ok_init_any.
  - apply step_cap_ok'.
  - intros fuel rtl start prevlen s' H. apply find_cap_ok in H. unfold cap_ok in H. tauto.
Qed.
