(* C11, ownership: every entry point returns to a pool only objects it took from a pool and still holds, each
   once (predicate [lin]); hence under every schedule no goroutine ever Puts an object it does not hold. *)
From Verif Require Import Base.Prelude Model.Pool Proofs.PoolStackProofs Proofs.PoolRunnerProofs
  Proofs.PoolStateProofs Proofs.PoolSimProofs Proofs.PoolProofs.

(* ---------- identities are never changed by local computation ---------- *)

Lemma init_match_id : forall cfg info r, r_id (init_match cfg info r) = r_id r.
Proof. intros. unfold init_match. destruct (r_crawl r); reflexivity. Qed.
Lemma start_watch_id : forall dl r, r_id (start_watch dl r) = r_id r.
Proof. intros. unfold start_watch. destruct (r_ignore r); reflexivity. Qed.
Lemma tidy_keep_id : forall r i l, r_id (tidy_keep r i l) = r_id r.
Proof. reflexivity. Qed.
Lemma post_exec_id : forall r tl sl j, r_id (post_exec r tl sl j) = r_id r.
Proof. reflexivity. Qed.

Lemma scan_id : forall cfg interp dl r a, r_id (fst (scan cfg interp dl r a)) = r_id r.
Proof.
  intros. unfold scan.
  set (r2 := init_match cfg (sa_info a) (scan_header cfg r a)).
  assert (H2 : r_id r2 = r_id r) by (unfold r2; rewrite init_match_id; reflexivity).
  destruct ((sa_prevlen a =? 0) && (r_textpos r2 =? (if cfg_rtl cfg then 0 else r_textend (scan_header cfg r a)))).
  { cbn [fst]. rewrite tidy_keep_id. exact H2. }
  set (r3 := if sa_prevlen a =? 0 then set_textpos r2 (r_textpos r2 + (if cfg_rtl cfg then -1 else 1)) else r2).
  assert (H3 : r_id r3 = r_id r) by (unfold r3; destruct (sa_prevlen a =? 0); exact H2).
  set (r4 := start_watch (dl) r3).
  assert (H4 : r_id r4 = r_id r) by (unfold r4; rewrite start_watch_id; exact H3).
  destruct (view_of r4 (sa_quick a)) as [v|]; [|cbn [fst]; exact H4].
  destruct (r_track r4) as [tk|]; [|cbn [fst]; exact H4].
  destruct (r_stack r4) as [st|]; [|cbn [fst]; exact H4].
  destruct (run_segs (cfg_limit cfg) (v_tc v) (sk_len tk) (sk_len st) (tr_segs (interp v))) as [[tl sl] status].
  destruct status; cbn [fst]; try (rewrite post_exec_id; exact H4).
  destruct (tr_term (interp v)); cbn [fst]; try (rewrite ?tidy_keep_id, post_exec_id; exact H4).
  unfold tidy_match. destruct (sa_quick a); cbn [fst]; [rewrite tidy_keep_id|]; cbn; exact H4.
Qed.

Section Own.
Variable E : env.

Lemma do_scan_id : forall re r a, r_id (fst (do_scan E re r a)) = r_id r.
Proof. intros. unfold do_scan. apply scan_id. Qed.

Lemma find_all_loop_id : forall fuel re r text s p n pe acc,
  r_id (fst (find_all_loop E fuel re r text s p n pe acc)) = r_id r.
Proof.
  induction fuel as [|f IH]; intros; cbn [find_all_loop]; [reflexivity|].
  destruct (n =? 0); [reflexivity|].
  match goal with |- context [do_scan E re r ?a] => pose proof (do_scan_id re r a) as D; destruct (do_scan E re r a) as [r1 sr] end.
  cbn [fst] in D. destruct sr as [m| | | |]; cbn [fst]; try exact D.
  destruct (e_fa_emit E pe m); rewrite IH; exact D.
Qed.

Lemma replace_loop_id : forall fuel re r text m count acc,
  r_id (fst (fst (replace_loop E fuel re r text m count acc))) = r_id r.
Proof.
  induction fuel as [|f IH]; intros; cbn [replace_loop]; [reflexivity|].
  destruct (count - 1 =? 0); [reflexivity|].
  match goal with |- context [do_scan E re r ?a] => pose proof (do_scan_id re r a) as D; destruct (do_scan E re r a) as [r1 sr] end.
  cbn [fst] in D. destruct sr as [m1| | | |]; cbn [fst]; try exact D.
  rewrite IH; exact D.
Qed.

Lemma decode_into_id : forall b s b1 t, decode_into E b s = Some (b1, t) -> b_id b1 = b_id b.
Proof.
  intros b s b1 t H. unfold decode_into, write_buf in H.
  destruct (b_cap b <? zlen (e_decode E s)); [discriminate|]. inversion H; reflexivity.
Qed.
Lemma out_buffer_id : forall b out, b_id (out_buffer E b out) = b_id b.
Proof. intros. unfold out_buffer. destruct (e_blen E out <=? b_cap b); reflexivity. Qed.
Lemma switch_id : forall (c : bool) r, r_id (if c then set_code r Quick else r) = r_id r.
Proof. intros [] r; reflexivity. Qed.

(* ---------- the ownership discipline of a program ---------- *)

(* [lin P own p]: started holding [own], p only Puts what it holds, and holds a set satisfying P when it returns *)
Inductive lin {A : Type} (P : list nat -> Prop) : list nat -> prog A -> Prop :=
| lin_ret : forall own a, P own -> lin P own (Ret a)
| lin_getr : forall own re k, (forall r, lin P (r_id r :: own) (k r)) -> lin P own (GetRunner re k)
| lin_putr : forall own re r k,
    owns (r_id r) own = true -> lin P (remove_id (r_id r) own) k -> lin P own (PutRunner re r k)
| lin_getb : forall own bk n m k,
    (forall (b : buffer) (pooled : bool), lin P (if pooled then b_id b :: own else own) (k b pooled)) ->
    lin P own (GetBuf bk n m k)
| lin_putb : forall own bk b k,
    owns (b_id b) own = true -> lin P (remove_id (b_id b) own) k -> lin P own (PutBuf bk b k)
| lin_cget : forall own re key k, (forall o, lin P own (k o)) -> lin P own (CacheGet re key k)
| lin_cadd : forall own re key d k, lin P own k -> lin P own (CacheAdd re key d k).

Lemma lin_weaken : forall {A} (P Q : list nat -> Prop) own (p : prog A),
  lin P own p -> (forall o, P o -> Q o) -> lin Q own p.
Proof. intros A P Q own p H PQ. induction H; constructor; auto. Qed.

Lemma lin_bind : forall {A B} (P Q : list nat -> Prop) own (p : prog A) (f : A -> prog B),
  lin P own p -> (forall o a, P o -> lin Q o (f a)) -> lin Q own (pbind p f).
Proof. intros A B P Q own p f H F. induction H; cbn [pbind]; try (constructor; auto; fail). apply F; assumption. Qed.

Lemma owns_head : forall x l, owns x (x :: l) = true.
Proof. intros. unfold owns. cbn. rewrite Nat.eqb_refl. reflexivity. Qed.
Lemma owns_cons : forall x y l, owns x l = true -> owns x (y :: l) = true.
Proof. intros x y l H. unfold owns in *. cbn. rewrite H. apply Bool.orb_true_r. Qed.
Lemma remove_head : forall x l, remove_id x (x :: l) = l.
Proof. intros. cbn. rewrite Nat.eqb_refl. reflexivity. Qed.
(* returning x then y out of [y; x] ++ l, whether or not the two identities coincide *)
Lemma remove_two : forall x y l,
  owns x (y :: x :: l) = true /\ owns y (remove_id x (y :: x :: l)) = true /\
  remove_id y (remove_id x (y :: x :: l)) = l.
Proof.
  intros x y l. split; [apply owns_cons, owns_head|].
  cbn [remove_id]. destruct (Nat.eqb_spec x y) as [->|N].
  - split; [apply owns_head|apply remove_head].
  - rewrite Nat.eqb_refl. split; [apply owns_head|apply remove_head].
Qed.

(* the common tail of matchStringAt / FindAllStringIndex / replaceRunner*: putRunner, then the rune buffer *)
Lemma lin_done : forall own re r b (pooled : bool) (v : result) r' b',
  r_id r' = r_id r -> b_id b' = b_id b ->
  lin (eq own) (if pooled then b_id b :: r_id r :: own else r_id r :: own)
      (PutRunner re (put_reset r') (put_buf_if pooled RuneBuf b' (Ret v))).
Proof.
  intros own re r b pooled v r' b' IR IB. destruct pooled; cbn [put_buf_if].
  - destruct (remove_two (r_id r) (b_id b) own) as (O1 & O2 & O3).
    apply lin_putr; rewrite put_reset_id, IR; [exact O1|].
    apply lin_putb; rewrite IB; [exact O2|]. apply lin_ret. symmetry; exact O3.
  - apply lin_putr; rewrite put_reset_id, IR; [apply owns_head|]. rewrite remove_head. apply lin_ret. reflexivity.
Qed.

Definition any_own : list nat -> Prop := fun _ => True.

Lemma lin_p_run : forall own re quick ts prevlen text info,
  lin (eq own) own (p_run E re quick ts prevlen text info).
Proof.
  intros. unfold p_run. apply lin_getr. intros r.
  match goal with |- context [do_scan E re ?r0 ?a] => pose proof (do_scan_id re r0 a) as D; destruct (do_scan E re r0 a) as [r2 sr] end.
  cbn [fst] in D. rewrite switch_id in D.
  apply lin_putr; rewrite put_reset_id, D; [apply owns_head|]. rewrite remove_head. apply lin_ret. reflexivity.
Qed.

Lemma lin_p_find_string : forall own re s a v, lin (eq own) own (p_find_string E re s a v).
Proof.
  intros. unfold p_find_string. destruct (e_str_start E re s a v) as [[x|]| | |]; try (apply lin_ret; reflexivity).
  apply lin_p_run.
Qed.

Lemma lin_p_match_string_at : forall own re s startAt, lin any_own own (p_match_string_at E re s startAt).
Proof.
  intros. unfold p_match_string_at. apply lin_getr. intros r. apply lin_getb. intros b pooled.
  destruct (decode_into E b s) as [[b1 input]|] eqn:D; [|apply lin_ret; exact I].
  apply decode_into_id in D.
  match goal with |- context [do_scan E re ?r0 ?a] => pose proof (do_scan_id re r0 a) as S; destruct (do_scan E re r0 a) as [r2 sr] end.
  cbn [fst] in S. rewrite switch_id in S.
  eapply lin_weaken; [apply (lin_done own re r b pooled); assumption|]. intros; exact I.
Qed.

Lemma lin_p_find_all_string : forall own fuel re s n, lin any_own own (p_find_all_string E fuel re s n).
Proof.
  intros. unfold p_find_all_string. destruct (n =? 0); [apply lin_ret; exact I|].
  destruct (e_fa_start E re s) as [[startAt|]| | |]; try (apply lin_ret; exact I).
  apply lin_getr. intros r. apply lin_getb. intros b pooled.
  destruct (decode_into E b s) as [[b1 input]|] eqn:D; [|apply lin_ret; exact I].
  apply decode_into_id in D.
  match goal with |- context [find_all_loop E fuel re ?r0 ?t ?a ?p ?c ?d ?e] =>
    pose proof (find_all_loop_id fuel re r0 t a p c d e) as S; destruct (find_all_loop E fuel re r0 t a p c d e) as [r2 out] end.
  cbn [fst] in S. rewrite switch_id in S.
  eapply lin_weaken; [apply (lin_done own re r b pooled); assumption|]. intros; exact I.
Qed.

Lemma lin_p_find_all_runes : forall own fuel re t n, lin any_own own (p_find_all_runes E fuel re t n).
Proof.
  intros. unfold p_find_all_runes. destruct (n =? 0); [apply lin_ret; exact I|].
  apply lin_getr. intros r.
  match goal with |- context [find_all_loop E fuel re ?r0 ?t ?a ?p ?c ?d ?e] =>
    pose proof (find_all_loop_id fuel re r0 t a p c d e) as S; destruct (find_all_loop E fuel re r0 t a p c d e) as [r2 out] end.
  cbn [fst] in S. rewrite switch_id in S.
  apply lin_putr; rewrite put_reset_id, S; [apply owns_head|]. rewrite remove_head. apply lin_ret. exact I.
Qed.

Lemma lin_p_replace_runner : forall own fuel re data s startAt count,
  lin any_own own (p_replace_runner E fuel re data s startAt count).
Proof.
  intros. unfold p_replace_runner. destruct (zlen s <? startAt); [apply lin_ret; exact I|].
  apply lin_getr. intros r. apply lin_getb. intros b pooled.
  destruct (decode_into E b s) as [[b1 text]|] eqn:D; [|apply lin_ret; exact I].
  apply decode_into_id in D.
  assert (DONE : forall r' (v : result), r_id r' = r_id r ->
            lin any_own (if pooled then b_id b :: r_id r :: own else r_id r :: own)
                (PutRunner re (put_reset r') (put_buf_if pooled RuneBuf b1 (Ret v)))).
  { intros r' v IR. eapply lin_weaken; [apply (lin_done own re r b pooled); assumption|]. intros; exact I. }
  destruct ((0 <=? startAt) && (e_rune_start E s startAt <? 0)); [apply DONE; reflexivity|].
  match goal with |- context [do_scan E re r ?a] => pose proof (do_scan_id re r a) as S; destruct (do_scan E re r a) as [r1 sr] end.
  cbn [fst] in S.
  destruct sr as [m| | | |]; try (apply DONE; exact S).
  apply lin_getb. intros ob opooled.
  pose proof (replace_loop_id fuel re r1 text m count []) as L.
  destruct (replace_loop E fuel re r1 text m count []) as [[r2 ms] st]. cbn [fst] in L.
  destruct opooled; cbn [put_buf_if].
  - apply lin_putb; rewrite out_buffer_id; [apply owns_head|]. rewrite remove_head. apply DONE. congruence.
  - apply DONE. congruence.
Qed.

Lemma lin_res : forall {A B} (P : list nat -> Prop) own (x : res A) (f : A -> prog (res B)),
  P own -> (forall a, lin P own (f a)) ->
  lin P own (match x with Ok a => f a | Err c => Ret (Err c) | Crash w => Ret (Crash w) | Fuel => Ret Fuel end).
Proof. intros A B P own [a|c|w|] f H F; auto using lin_ret. Qed.

Lemma lin_next_loop_replf : forall fuel own re text m count acc,
  lin (eq own) own (next_loop_replf E fuel re text m count acc).
Proof.
  induction fuel as [|f IH]; intros; cbn [next_loop_replf]; [apply lin_ret; reflexivity|].
  destruct (count - 1 =? 0); [apply lin_ret; reflexivity|].
  eapply lin_bind; [apply lin_p_run|]. intros o x <-. destruct x as [[m1|]|c|w|]; auto using lin_ret.
Qed.
Lemma lin_split_loop : forall fuel own re text m count acc,
  lin (eq own) own (split_loop E fuel re text m count acc).
Proof.
  induction fuel as [|f IH]; intros; cbn [split_loop]; [apply lin_ret; reflexivity|].
  eapply lin_bind; [apply lin_p_run|]. intros o x <-. destruct x as [[m1|]|c|w|]; auto using lin_ret.
  destruct (0 <? count - 1); auto using lin_ret.
Qed.

Lemma lin_p_replace_tail : forall own fuel re data ev s startAt count,
  lin any_own own (p_replace_tail E fuel re data ev s startAt count).
Proof.
  intros. unfold p_replace_tail. destruct (count <? -1); [apply lin_ret; exact I|].
  destruct (count =? 0); [apply lin_ret; exact I|].
  destruct data as [d|]; [apply lin_p_replace_runner|].
  eapply lin_bind; [apply lin_p_find_string|]. intros o x <-.
  destruct x as [[m|]|c|w|]; try (apply lin_ret; exact I).
  eapply lin_bind; [apply lin_next_loop_replf|]. intros o y <-.
  destruct y as [ms|c|w|]; apply lin_ret; exact I.
Qed.

Lemma lin_p_replace : forall own fuel re s repl a c, lin any_own own (p_replace E fuel re s repl a c).
Proof.
  intros. unfold p_replace, p_replacer_data.
  assert (K : forall x : res rdata, lin any_own own
            (match x with Ok d => p_replace_tail E fuel re (Some d) O s a c
                        | Err c0 => Ret (Err c0) | Crash w => Ret (Crash w) | Fuel => Ret Fuel end)).
  { intros [d|x|w|]; try (apply lin_ret; exact I). apply lin_p_replace_tail. }
  destruct (should_cache (e_cfg E re) repl); [|apply K].
  apply lin_cget. intros [d|]; [exact (K (Ok d))|].
  destruct (e_parse_repl E re repl) as [d|x|w|] eqn:P; try (apply lin_ret; exact I).
  apply lin_cadd. exact (K (Ok d)).
Qed.

Lemma lin_p_split : forall own fuel re s count, lin any_own own (p_split E fuel re s count).
Proof.
  intros. unfold p_split. destruct (count <? -1); [apply lin_ret; exact I|].
  destruct (count =? 0); [apply lin_ret; exact I|]. destruct (count =? 1); [apply lin_ret; exact I|].
  eapply lin_bind; [apply lin_p_find_string|]. intros o x <-.
  destruct x as [[m|]|c|w|]; try (apply lin_ret; exact I).
  eapply lin_bind; [apply lin_split_loop|]. intros o y <-.
  destruct y as [ms|c|w|]; apply lin_ret; exact I.
Qed.

Lemma lin_bind_ret : forall {A} own (p : prog A) (f : A -> result),
  lin (eq own) own p -> lin any_own own (pbind p (fun x => Ret (f x))).
Proof. intros A own p f H. eapply lin_bind; [exact H|]. intros; apply lin_ret; exact I. Qed.

(* every public entry point, whatever the goroutine already holds when it starts *)
Theorem entry_lin : forall own fuel o, lin any_own own (entry E fuel o).
Proof.
  intros own fuel o. destruct o; cbn [entry].
  - unfold p_match_string. destruct (e_ms_cand E re s); [apply lin_p_match_string_at|apply lin_ret; exact I].
  - apply lin_bind_ret, lin_p_run.
  - apply lin_bind_ret, lin_p_find_string.
  - apply lin_bind_ret, lin_p_find_string.
  - apply lin_bind_ret, lin_p_run.
  - apply lin_bind_ret, lin_p_run.
  - destruct prev as [[[t pos] len]|]; [apply lin_bind_ret, lin_p_run|apply lin_ret; exact I].
  - apply lin_p_find_all_string.
  - apply lin_p_find_all_runes.
  - apply lin_p_replace.
  - apply lin_p_replace_tail.
  - apply lin_p_split.
Qed.

(* ---------- no goroutine ever Puts an object it does not hold ---------- *)

Definition tlin (t : thread) : Prop :=
  match t_cur t with None => True | Some p => lin any_own (t_owned t) p end.

Lemma tstep_lin : forall fuel g t pk, tlin t ->
  snd (tstep E fuel g t pk) = false /\ tlin (snd (fst (tstep E fuel g t pk))).
Proof.
  intros fuel g t pk H. unfold tlin, tstep in *.
  destruct (t_cur t) as [p|] eqn:TC.
  - destruct p as [v|re k|re r k|bk n m k|bk b k|re key k|re key d k]; inversion H; subst.
    + cbn. auto.
    + destruct (act_get_runner g re pk) as [g1 r]. cbn. auto.
    + match goal with X : owns _ _ = true |- _ => rewrite X end. cbn. auto.
    + destruct (act_get_buf g bk n m pk) as [[g1 b] pooled]. cbn. auto.
    + match goal with X : owns _ _ = true |- _ => rewrite X end. cbn. auto.
    + destruct (act_cache_get g re key) as [g1 o]. cbn. auto.
    + cbn. auto.
  - destruct (t_rest t) as [|o rest]; cbn; [rewrite TC; auto|]. split; [reflexivity|apply entry_lin].
Qed.

Lemma Forall_upd_nth : forall {A} (P : A -> Prop) l i y, Forall P l -> P y -> Forall P (upd_nth i y l).
Proof.
  intros A P l. induction l as [|x l IH]; intros i y H Py; [destruct i; constructor|].
  inversion H; subst. destruct i; cbn [upd_nth]; constructor; auto.
Qed.

Lemma cstep_lin : forall fuel c i pk,
  c_fault c = false -> Forall tlin (c_threads c) ->
  c_fault (cstep E fuel c i pk) = false /\ Forall tlin (c_threads (cstep E fuel c i pk)).
Proof.
  intros fuel c i pk F T. unfold cstep. destruct (nth_error (c_threads c) i) as [t|] eqn:N; [|auto].
  assert (TL : tlin t). { eapply Forall_forall in T; [exact T|]. eapply nth_error_In; eauto. }
  pose proof (tstep_lin fuel (c_g c) t pk TL) as [B L].
  destruct (tstep E fuel (c_g c) t pk) as [[g1 t1] bad]; cbn [fst snd] in *. subst bad.
  cbn [c_fault c_threads]. rewrite F. split; [reflexivity|]. apply Forall_upd_nth; auto.
Qed.

Theorem no_ownership_fault : forall fuel g opss sched,
  c_fault (run_sched E fuel {| c_g := g; c_threads := map spawn opss; c_fault := false |} sched) = false.
Proof.
  intros fuel g opss sched.
  assert (G : forall c, c_fault c = false -> Forall tlin (c_threads c) -> c_fault (run_sched E fuel c sched) = false).
  { induction sched as [|[i pk] s IH]; intros c F T; cbn [run_sched]; [exact F|].
    destruct (cstep_lin fuel c i pk F T) as [F1 T1]. apply IH; assumption. }
  apply G; [reflexivity|]. cbn [c_threads]. apply Forall_forall. intros t X.
  apply in_map_iff in X. destruct X as (ops & <- & _). exact I.
Qed.

End Own.
