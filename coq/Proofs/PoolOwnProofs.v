(* C11, ownership: every entry point returns to a pool only objects it took from a pool and still holds, each
   once (predicate [lin]); hence under every schedule no goroutine ever Puts an object it does not hold. *)
From Verif Require Import Base.Prelude Model.Pool Proofs.PoolStackProofs Proofs.PoolRunnerProofs
  Proofs.PoolStateProofs Proofs.PoolSimProofs Proofs.PoolProofs.

(* ---------- identities are never changed by local computation ---------- *)

Lemma init_match_id : forall cfg info r, r_id (init_match cfg info r) = r_id r.
Proof. intros. unfold init_match. destruct (r_crawl r); reflexivity. Qed.
Lemma start_watch_id : forall dl r, r_id (start_watch dl r) = r_id r.
Proof. intros. unfold start_watch. destruct (r_ignore r); reflexivity. Qed.
Lemma tidy_keep_id : forall r i l, r_id (tidy_keep r i l) = r_id r.
Proof. reflexivity. Qed.
Lemma post_exec_id : forall r tl sl j, r_id (post_exec r tl sl j) = r_id r.
Proof. reflexivity. Qed.

Lemma scan_id : forall cfg interp dl r a, r_id (fst (scan cfg interp dl r a)) = r_id r.
Proof.
  intros. unfold scan.
  set (r2 := init_match cfg (sa_info a) (scan_header cfg r a)).
  assert (H2 : r_id r2 = r_id r) by (unfold r2; rewrite init_match_id; reflexivity).
  destruct ((sa_prevlen a =? 0) && (r_textpos r2 =? (if cfg_rtl cfg then 0 else r_textend (scan_header cfg r a)))).
  { cbn [fst]. rewrite tidy_keep_id. exact H2. }
  set (r3 := if sa_prevlen a =? 0 then set_textpos r2 (r_textpos r2 + (if cfg_rtl cfg then -1 else 1)) else r2).
  assert (H3 : r_id r3 = r_id r) by (unfold r3; destruct (sa_prevlen a =? 0); exact H2).
  set (r4 := start_watch (dl) r3).
  assert (H4 : r_id r4 = r_id r) by (unfold r4; rewrite start_watch_id; exact H3).
  destruct (view_of r4 (sa_quick a)) as [v|]; [|cbn [fst]; exact H4].
  destruct (r_track r4) as [tk|]; [|cbn [fst]; exact H4].
  destruct (r_stack r4) as [st|]; [|cbn [fst]; exact H4].
  destruct (run_segs (cfg_limit cfg) (v_tc v) (sk_len tk) (sk_len st) (tr_segs (interp v))) as [[tl sl] status].
  destruct status; cbn [fst]; try (rewrite post_exec_id; exact H4).
  destruct (tr_term (interp v)); cbn [fst]; try (rewrite ?tidy_keep_id, post_exec_id; exact H4).
  unfold tidy_match. destruct (sa_quick a); cbn [fst]; [rewrite tidy_keep_id|]; cbn; exact H4.
Qed.

Section Own.
Variable E : env.

Lemma do_scan_id : forall re r a, r_id (fst (do_scan E re r a)) = r_id r.
Proof. intros. unfold do_scan. apply scan_id. Qed.

Lemma find_all_loop_id : forall fuel re r text s p n pe acc,
  r_id (fst (find_all_loop E fuel re r text s p n pe acc)) = r_id r.
Proof.
  induction fuel as [|f IH]; intros; cbn [find_all_loop]; [reflexivity|].
  destruct (n =? 0); [reflexivity|].
  match goal with |- context [do_scan E re r ?a] => pose proof (do_scan_id re r a) as D; destruct (do_scan E re r a) as [r1 sr] end.
  cbn [fst] in D. destruct sr as [m| | | |]; cbn [fst]; try exact D.
  destruct (e_fa_emit E pe m); rewrite IH; exact D.
Qed.

Lemma replace_loop_id : forall fuel re r text m count acc,
  r_id (fst (fst (replace_loop E fuel re r text m count acc))) = r_id r.
Proof.
  induction fuel as [|f IH]; intros; cbn [replace_loop]; [reflexivity|].
  destruct (count - 1 =? 0); [reflexivity|].
  match goal with |- context [do_scan E re r ?a] => pose proof (do_scan_id re r a) as D; destruct (do_scan E re r a) as [r1 sr] end.
  cbn [fst] in D. destruct sr as [m1| | | |]; cbn [fst]; try exact D.
  rewrite IH; exact D.
Qed.

Lemma decode_into_id : forall b s b1 t, decode_into E b s = Some (b1, t) -> b_id b1 = b_id b.
Proof.
  intros b s b1 t H. unfold decode_into, write_buf in H.
  destruct (b_cap b <? zlen (e_decode E s)); [discriminate|]. inversion H; reflexivity.
Qed.
Lemma out_buffer_id : forall b out, b_id (out_buffer E b out) = b_id b.
Proof. intros. unfold out_buffer. destruct (e_blen E out <=? b_cap b); reflexivity. Qed.
Lemma switch_id : forall (c : bool) r, r_id (if c then set_code r Quick else r) = r_id r.
Proof. intros [] r; reflexivity. Qed.

(* ---------- the ownership discipline of a program ---------- *)

(* [lin P own p]: started holding [own], p only Puts what it holds, and holds a set satisfying P when it returns *)
Inductive lin {A : Type} (P : list nat -> Prop) : list nat -> prog A -> Prop :=
| lin_ret : forall own a, P own -> lin P own (Ret a)
| lin_getr : forall own re k, (forall r, lin P (r_id r :: own) (k r)) -> lin P own (GetRunner re k)
| lin_putr : forall own re r k,
    owns (r_id r) own = true -> lin P (remove_id (r_id r) own) k -> lin P own (PutRunner re r k)
| lin_getb : forall own bk n m k,
    (forall (b : buffer) (pooled : bool), lin P (if pooled then b_id b :: own else own) (k b pooled)) ->
    lin P own (GetBuf bk n m k)
| lin_putb : forall own bk b k,
    owns (b_id b) own = true -> lin P (remove_id (b_id b) own) k -> lin P own (PutBuf bk b k)
| lin_cget : forall own re key k, (forall o, lin P own (k o)) -> lin P own (CacheGet re key k)
| lin_cadd : forall own re key d k, lin P own k -> lin P own (CacheAdd re key d k).

Lemma lin_weaken : forall {A} (P Q : list nat -> Prop) own (p : prog A),
  lin P own p -> (forall o, P o -> Q o) -> lin Q own p.
Proof. intros A P Q own p H PQ. induction H; constructor; auto. Qed.

Lemma lin_bind : forall {A B} (P Q : list nat -> Prop) own (p : prog A) (f : A -> prog B),
  lin P own p -> (forall o a, P o -> lin Q o (f a)) -> lin Q own (pbind p f).
Proof. intros A B P Q own p f H F. induction H; cbn [pbind]; try (constructor; auto; fail). apply F; assumption. Qed.

Lemma owns_head : forall x l, owns x (x :: l) = true.
Proof. intros. unfold owns. cbn. rewrite Nat.eqb_refl. reflexivity. Qed.
Lemma owns_cons : forall x y l, owns x l = true -> owns x (y :: l) = true.
Proof. intros x y l H. unfold owns in *. cbn. rewrite H. apply Bool.orb_true_r. Qed.
Lemma remove_head : forall x l, remove_id x (x :: l) = l.
Proof. intros. cbn. rewrite Nat.eqb_refl. reflexivity. Qed.
(* returning x then y out of [y; x] ++ l, whether or not the two identities coincide *)
Lemma remove_two : forall x y l,
  owns x (y :: x :: l) = true /\ owns y (remove_id x (y :: x :: l)) = true /\
  remove_id y (remove_id x (y :: x :: l)) = l.
Proof.
  intros x y l. split; [apply owns_cons, owns_head|].
  cbn [remove_id]. destruct (Nat.eqb_spec x y) as [->|N].
  - split; [apply owns_head|apply remove_head].
  - rewrite Nat.eqb_refl. split; [apply owns_head|apply remove_head].
Qed.

(* the common tail of matchStringAt / FindAllStringIndex / replaceRunner*: putRunner, then the rune buffer *)
Lemma lin_done : forall own re r b (pooled : bool) (v : result) r' b',
  r_id r' = r_id r -> b_id b' = b_id b ->
  lin (eq own) (if pooled then b_id b :: r_id r :: own else r_id r :: own)
      (PutRunner re (put_reset r') (put_buf_if pooled RuneBuf b' (Ret v))).
Proof.
  intros own re r b pooled v r' b' IR IB. destruct pooled; cbn [put_buf_if].
  - destruct (remove_two (r_id r) (b_id b) own) as (O1 & O2 & O3).
    apply lin_putr; rewrite put_reset_id, IR; [exact O1|].
    apply lin_putb; rewrite IB; [exact O2|]. apply lin_ret. symmetry; exact O3.
  - apply lin_putr; rewrite put_reset_id, IR; [apply owns_head|]. rewrite remove_head. apply lin_ret. reflexivity.
Qed.

Definition any_own : list nat -> Prop := fun _ => True.

Lemma lin_p_run : forall own re quick ts prevlen text info,
  lin (eq own) own (p_run E re quick ts prevlen text info).
Proof.
  intros. unfold p_run. apply lin_getr. intros r.
  match goal with |- context [do_scan E re ?r0 ?a] => pose proof (do_scan_id re r0 a) as D; destruct (do_scan E re r0 a) as [r2 sr] end.
  cbn [fst] in D. rewrite switch_id in D.
  apply lin_putr; rewrite put_reset_id, D; [apply owns_head|]. rewrite remove_head. apply lin_ret. reflexivity.
Qed.

Lemma lin_p_find_string : forall own re s a v, lin (eq own) own (p_find_string E re s a v).
Proof.
  intros. unfold p_find_string. destruct (e_str_start E re s a v) as [[x|]| | |]; try (apply lin_ret; reflexivity).
  apply lin_p_run.
Qed.

Lemma lin_p_match_string_at : forall own re s startAt, lin any_own own (p_match_string_at E re s startAt).
Proof.
  intros. unfold p_match_string_at. apply lin_getr. intros r. apply lin_getb. intros b pooled.
  destruct (decode_into E b s) as [[b1 input]|] eqn:D; [|apply lin_ret; exact I].
  apply decode_into_id in D.
  match goal with |- context [do_scan E re ?r0 ?a] => pose proof (do_scan_id re r0 a) as S; destruct (do_scan E re r0 a) as [r2 sr] end.
  cbn [fst] in S. rewrite switch_id in S.
  eapply lin_weaken; [apply (lin_done own re r b pooled); assumption|]. intros; exact I.
Qed.

Lemma lin_p_find_all_string : forall own fuel re s n, lin any_own own (p_find_all_string E fuel re s n).
Proof.
  intros. unfold p_find_all_string. destruct (n =? 0); [apply lin_ret; exact I|].
  destruct (e_fa_start E re s) as [[startAt|]| | |]; try (apply lin_ret; exact I).
  apply lin_getr. intros r. apply lin_getb. intros b pooled.
  destruct (decode_into E b s) as [[b1 input]|] eqn:D; [|apply lin_ret; exact I].
  apply decode_into_id in D.
  match goal with |- context [find_all_loop E fuel re ?r0 ?t ?a ?p ?c ?d ?e] =>
    pose proof (find_all_loop_id fuel re r0 t a p c d e) as S; destruct (find_all_loop E fuel re r0 t a p c d e) as [r2 out] end.
  cbn [fst] in S. rewrite switch_id in S.
  eapply lin_weaken; [apply (lin_done own re r b pooled); assumption|]. intros; exact I.
Qed.

Lemma lin_p_find_all_runes : forall own fuel re t n, lin any_own own (p_find_all_runes E fuel re t n).
Proof.
  intros. unfold p_find_all_runes. destruct (n =? 0); [apply lin_ret; exact I|].
  apply lin_getr. intros r.
  match goal with |- context [find_all_loop E fuel re ?r0 ?t ?a ?p ?c ?d ?e] =>
    pose proof (find_all_loop_id fuel re r0 t a p c d e) as S; destruct (find_all_loop E fuel re r0 t a p c d e) as [r2 out] end.
  cbn [fst] in S. rewrite switch_id in S.
  apply lin_putr; rewrite put_reset_id, S; [apply owns_head|]. rewrite remove_head. apply lin_ret. exact I.
Qed.

Lemma lin_p_replace_runner : forall own fuel re data s startAt count,
  lin any_own own (p_replace_runner E fuel re data s startAt count).
Proof.
  intros. unfold p_replace_runner. destruct (zlen s <? startAt); [apply lin_ret; exact I|].
  apply lin_getr. intros r. apply lin_getb. intros b pooled.
  destruct (decode_into E b s) as [[b1 text]|] eqn:D; [|apply lin_ret; exact I].
  apply decode_into_id in D.
  assert (DONE : forall r' (v : result), r_id r' = r_id r ->
            lin any_own (if pooled then b_id b :: r_id r :: own else r_id r :: own)
                (PutRunner re (put_reset r') (put_buf_if pooled RuneBuf b1 (Ret v)))).
  { intros r' v IR. eapply lin_weaken; [apply (lin_done own re r b pooled); assumption|]. intros; exact I. }
  destruct ((0 <=? startAt) && (e_rune_start E s startAt <? 0)); [apply DONE; reflexivity|].
  match goal with |- context [do_scan E re r ?a] => pose proof (do_scan_id re r a) as S; destruct (do_scan E re r a) as [r1 sr] end.
  cbn [fst] in S.
  destruct sr as [m| | | |]; try (apply DONE; exact S).
  apply lin_getb. intros ob opooled.
  pose proof (replace_loop_id fuel re r1 text m count []) as L.
  destruct (replace_loop E fuel re r1 text m count []) as [[r2 ms] st]. cbn [fst] in L.
  destruct opooled; cbn [put_buf_if].
  - apply lin_putb; rewrite out_buffer_id; [apply owns_head|]. rewrite remove_head. apply DONE. congruence.
  - apply DONE. congruence.
Qed.

Lemma lin_res : forall {A B} (P : list nat -> Prop) own (x : res A) (f : A -> prog (res B)),
  P own -> (forall a, lin P own (f a)) ->
  lin P own (match x with Ok a => f a | Err c => Ret (Err c) | Crash w => Ret (Crash w) | Fuel => Ret Fuel end).
Proof. intros A B P own [a|c|w|] f H F; auto using lin_ret. Qed.

Lemma lin_next_loop_replf : forall fuel own re text m count acc,
  lin (eq own) own (next_loop_replf E fuel re text m count acc).
Proof.
  induction fuel as [|f IH]; intros; cbn [next_loop_replf]; [apply lin_ret; reflexivity|].
  destruct (count - 1 =? 0); [apply lin_ret; reflexivity|].
  eapply lin_bind; [apply lin_p_run|]. intros o x <-. destruct x as [[m1|]|c|w|]; auto using lin_ret.
Qed.
Lemma lin_split_loop : forall fuel own re text m count acc,
  lin (eq own) own (split_loop E fuel re text m count acc).
Proof.
  induction fuel as [|f IH]; intros; cbn [split_loop]; [apply lin_ret; reflexivity|].
  eapply lin_bind; [apply lin_p_run|]. intros o x <-. destruct x as [[m1|]|c|w|]; auto using lin_ret.
  destruct (0 <? count - 1); auto using lin_ret.
Qed.

Lemma lin_p_replace_tail : forall own fuel re data ev s startAt count,
  lin any_own own (p_replace_tail E fuel re data ev s startAt count).
Proof.
  intros. unfold p_replace_tail. destruct (count <? -1); [apply lin_ret; exact I|].
  destruct (count =? 0); [apply lin_ret; exact I|].
  destruct data as [d|]; [apply lin_p_replace_runner|].
  eapply lin_bind; [apply lin_p_find_string|]. intros o x <-.
  destruct x as [[m|]|c|w|]; try (apply lin_ret; exact I).
  eapply lin_bind; [apply lin_next_loop_replf|]. intros o y <-.
  destruct y as [ms|c|w|]; apply lin_ret; exact I.
Qed.

Lemma lin_p_replace : forall own fuel re s repl a c, lin any_own own (p_replace E fuel re s repl a c).
Proof.
  intros. unfold p_replace, p_replacer_data.
  assert (K : forall x : res rdata, lin any_own own
            (match x with Ok d => p_replace_tail E fuel re (Some d) O s a c
                        | Err c0 => Ret (Err c0) | Crash w => Ret (Crash w) | Fuel => Ret Fuel end)).
  { intros [d|x|w|]; try (apply lin_ret; exact I). apply lin_p_replace_tail. }
  destruct (should_cache (e_cfg E re) repl); [|apply K].
  apply lin_cget. intros [d|]; [exact (K (Ok d))|].
  destruct (e_parse_repl E re repl) as [d|x|w|] eqn:P; try (apply lin_ret; exact I).
  apply lin_cadd. exact (K (Ok d)).
Qed.

Lemma lin_p_split : forall own fuel re s count, lin any_own own (p_split E fuel re s count).
Proof.
  intros. unfold p_split. destruct (count <? -1); [apply lin_ret; exact I|].
  destruct (count =? 0); [apply lin_ret; exact I|]. destruct (count =? 1); [apply lin_ret; exact I|].
  eapply lin_bind; [apply lin_p_find_string|]. intros o x <-.
  destruct x as [[m|]|c|w|]; try (apply lin_ret; exact I).
  eapply lin_bind; [apply lin_split_loop|]. intros o y <-.
  destruct y as [ms|c|w|]; apply lin_ret; exact I.
Qed.

Lemma lin_bind_ret : forall {A} own (p : prog A) (f : A -> result),
  lin (eq own) own p -> lin any_own own (pbind p (fun x => Ret (f x))).
Proof. intros A own p f H. eapply lin_bind; [exact H|]. intros; apply lin_ret; exact I. Qed.

(* every public entry point, whatever the goroutine already holds when it starts *)
Theorem entry_lin : forall own fuel o, lin any_own own (entry E fuel o).
Proof.
  intros own fuel o. destruct o; cbn [entry].
  - unfold p_match_string. destruct (e_ms_cand E re s); [apply lin_p_match_string_at|apply lin_ret; exact I].
  - apply lin_bind_ret, lin_p_run.
  - apply lin_bind_ret, lin_p_find_string.
  - apply lin_bind_ret, lin_p_find_string.
  - apply lin_bind_ret, lin_p_run.
  - apply lin_bind_ret, lin_p_run.
  - destruct prev as [[[t pos] len]|]; [apply lin_bind_ret, lin_p_run|apply lin_ret; exact I].
  - apply lin_p_find_all_string.
  - apply lin_p_find_all_runes.
  - apply lin_p_replace.
  - apply lin_p_replace_tail.
  - apply lin_p_split.
Qed.

(* ---------- no goroutine ever Puts an object it does not hold ---------- *)

Definition tlin (t : thread) : Prop :=
  match t_cur t with None => True | Some p => lin any_own (t_owned t) p end.

Lemma tstep_lin : forall fuel g t pk, tlin t ->
  snd (tstep E fuel g t pk) = false /\ tlin (snd (fst (tstep E fuel g t pk))).
Proof.
  intros fuel g t pk H. unfold tlin, tstep in *.
  destruct (t_cur t) as [p|] eqn:TC.
  - destruct p as [v|re k|re r k|bk n m k|bk b k|re key k|re key d k]; inversion H; subst.
    + cbn. auto.
    + destruct (act_get_runner g re pk) as [g1 r]. cbn. auto.
    + match goal with X : owns _ _ = true |- _ => rewrite X end. cbn. auto.
    + destruct (act_get_buf g bk n m pk) as [[g1 b] pooled]. cbn. auto.
    + match goal with X : owns _ _ = true |- _ => rewrite X end. cbn. auto.
    + destruct (act_cache_get g re key) as [g1 o]. cbn. auto.
    + cbn. auto.
  - destruct (t_rest t) as [|o rest]; cbn; [rewrite TC; auto|]. split; [reflexivity|apply entry_lin].
Qed.

Lemma Forall_upd_nth : forall {A} (P : A -> Prop) l i y, Forall P l -> P y -> Forall P (upd_nth i y l).
Proof.
  intros A P l. induction l as [|x l IH]; intros i y H Py; [destruct i; constructor|].
  inversion H; subst. destruct i; cbn [upd_nth]; constructor; auto.
Qed.

Lemma cstep_lin : forall fuel c i pk,
  c_fault c = false -> Forall tlin (c_threads c) ->
  c_fault (cstep E fuel c i pk) = false /\ Forall tlin (c_threads (cstep E fuel c i pk)).
Proof.
  intros fuel c i pk F T. unfold cstep. destruct (nth_error (c_threads c) i) as [t|] eqn:N; [|auto].
  assert (TL : tlin t). { eapply Forall_forall in T; [exact T|]. eapply nth_error_In; eauto. }
  pose proof (tstep_lin fuel (c_g c) t pk TL) as [B L].
  destruct (tstep E fuel (c_g c) t pk) as [[g1 t1] bad]; cbn [fst snd] in *. subst bad.
  cbn [c_fault c_threads]. rewrite F. split; [reflexivity|]. apply Forall_upd_nth; auto.
Qed.

Theorem no_ownership_fault : forall fuel g opss sched,
  c_fault (run_sched E fuel {| c_g := g; c_threads := map spawn opss; c_fault := false |} sched) = false.
Proof.
  intros fuel g opss sched.
  assert (G : forall c, c_fault c = false -> Forall tlin (c_threads c) -> c_fault (run_sched E fuel c sched) = false).
  { induction sched as [|[i pk] s IH]; intros c F T; cbn [run_sched]; [exact F|].
    destruct (cstep_lin fuel c i pk F T) as [F1 T1]. apply IH; assumption. }
  apply G; [reflexivity|]. cbn [c_threads]. apply Forall_forall. intros t X.
  apply in_map_iff in X. destruct X as (ops & <- & _). exact I.
Qed.

End Own.

(* ---------- an object is in a pool xor held by exactly one goroutine ---------- *)

Fixpoint cnt (x : nat) (l : list nat) : nat :=
  match l with [] => O | y :: l' => ((if Nat.eqb x y then 1 else 0) + cnt x l')%nat end.
Definition one (x y : nat) : nat := if Nat.eqb x y then 1%nat else 0%nat.

Lemma cnt_app : forall x l1 l2, cnt x (l1 ++ l2) = (cnt x l1 + cnt x l2)%nat.
Proof. induction l1; intros; cbn; [reflexivity|]. rewrite IHl1. lia. Qed.

Lemma cnt_flat_map_upd : forall {A} (f : A -> list nat) x l i y z,
  nth_error l i = Some z ->
  (cnt x (flat_map f (upd_nth i y l)) + cnt x (f z) = cnt x (flat_map f l) + cnt x (f y))%nat.
Proof.
  intros A f x l. induction l as [|a l IH]; intros i y z H; [destruct i; discriminate|].
  destruct i; cbn in *.
  - inversion H; subst. rewrite !cnt_app. lia.
  - rewrite !cnt_app. specialize (IH i y z H). lia.
Qed.
Lemma upd_nth_out : forall {A} (l : list A) i y, nth_error l i = None -> upd_nth i y l = l.
Proof. induction l as [|a l IH]; intros i y H; [destruct i; reflexivity|]. destruct i; cbn in *; [discriminate|]. f_equal; auto. Qed.
Lemma nth_error_nth' : forall {A} (l : list A) i d z, nth_error l i = Some z -> nth i l d = z.
Proof. induction l; destruct i; cbn; intros; try discriminate; [congruence|eauto]. Qed.
Lemma nth_error_none_nth : forall {A} (l : list A) i d, nth_error l i = None -> nth i l d = d.
Proof. induction l; destruct i; cbn; intros; try discriminate; auto. Qed.

Lemma cnt_remove_nth : forall {A} (f : A -> nat) x l i z,
  nth_error l i = Some z -> (cnt x (map f (remove_nth i l)) + one x (f z) = cnt x (map f l))%nat.
Proof.
  intros A f x l. induction l as [|a l IH]; intros i z H; [destruct i; discriminate|].
  destruct i; cbn in *.
  - inversion H; subst. unfold one. lia.
  - specialize (IH i z H). lia.
Qed.
Lemma cnt_remove_id : forall x y l, owns y l = true -> (cnt x (remove_id y l) + one x y = cnt x l)%nat.
Proof.
  intros x y l. induction l as [|a l IH]; intros H; [discriminate|].
  unfold owns in H. cbn in H. cbn [remove_id]. destruct (Nat.eqb_spec y a) as [->|N].
  - cbn. unfold one. lia.
  - cbn in H. specialize (IH H). cbn. lia.
Qed.

Definition runner_ids (g : gstate) : list nat := flat_map (fun rs => map r_id (rs_pool rs)) (g_res g).
Definition buf_ids (bp : bufpools) : list nat := flat_map (map b_id) (bp_pools bp).
Definition pool_ids (g : gstate) : list nat := runner_ids g ++ buf_ids (g_rune g) ++ buf_ids (g_byte g).
Definition held (ts : list thread) : list nat := flat_map t_owned ts.

(* every identity occurs at most once among the pools and the goroutines' holdings, and is older than g_next *)
Definition uniq (g : gstate) (ts : list thread) : Prop :=
  forall x, (cnt x (pool_ids g) + cnt x (held ts) <= 1)%nat /\
            ((1 <= cnt x (pool_ids g) + cnt x (held ts))%nat -> (x < g_next g)%nat).

(* effect of each atomic action on the identities in the pools: [taken x] / [given x] are 0 or 1 *)
Lemma get_runner_ids : forall g re pk,
  let '(g1, r) := act_get_runner g re pk in
  (g_next g1 = g_next g /\ forall x, (cnt x (pool_ids g1) + one x (r_id r) = cnt x (pool_ids g))%nat) \/
  (g_next g1 = S (g_next g) /\ r_id r = g_next g /\ pool_ids g1 = pool_ids g).
Proof.
  intros g re pk. unfold act_get_runner.
  destruct (take pk (rs_pool (get_rs g re))) as [[r rest]|] eqn:T; [left|right; auto].
  split; [reflexivity|]. intros x. unfold take in T. destruct pk as [i|]; [|discriminate].
  destruct (nth_error (rs_pool (get_rs g re)) i) as [r0|] eqn:N; [|discriminate]. inversion T; subst r0 rest. clear T.
  unfold pool_ids, runner_ids, set_rs; cbn [g_res g_rune g_byte]. rewrite !cnt_app.
  destruct (nth_error (g_res g) re) as [rs|] eqn:NR.
  - pose proof (cnt_flat_map_upd (fun rs => map r_id (rs_pool rs)) x (g_res g) re
                  {| rs_pool := remove_nth i (rs_pool (get_rs g re)); rs_cache := rs_cache (get_rs g re) |} rs NR) as U.
    cbn [rs_pool] in U.
    assert (GR : get_rs g re = rs) by (unfold get_rs; eapply nth_error_nth'; eauto).
    rewrite GR in *. pose proof (cnt_remove_nth r_id x (rs_pool rs) i r N). lia.
  - exfalso. unfold get_rs in N. rewrite (nth_error_none_nth _ _ _ NR) in N. destruct i; discriminate.
Qed.

Lemma put_runner_ids : forall g re r x,
  g_next (act_put_runner g re r) = g_next g /\
  (cnt x (pool_ids (act_put_runner g re r)) <= cnt x (pool_ids g) + one x (r_id r))%nat.
Proof.
  intros g re r x. unfold act_put_runner. split; [reflexivity|].
  unfold pool_ids, runner_ids, set_rs; cbn [g_res g_rune g_byte]. rewrite !cnt_app.
  destruct (nth_error (g_res g) re) as [rs|] eqn:NR.
  - pose proof (cnt_flat_map_upd (fun rs => map r_id (rs_pool rs)) x (g_res g) re
                  {| rs_pool := r :: rs_pool (get_rs g re); rs_cache := rs_cache (get_rs g re) |} rs NR) as U.
    cbn [rs_pool map cnt] in U.
    assert (GR : get_rs g re = rs) by (unfold get_rs; eapply nth_error_nth'; eauto).
    rewrite GR in *. unfold one. lia.
  - rewrite (upd_nth_out _ _ _ NR). lia.
Qed.

Lemma cache_ids : forall g re rs',
  rs_pool rs' = rs_pool (get_rs g re) -> pool_ids (set_rs g re rs') = pool_ids g /\ g_next (set_rs g re rs') = g_next g.
Proof.
  intros g re rs' H. split; [|reflexivity]. unfold pool_ids, runner_ids, set_rs; cbn [g_res g_rune g_byte]. f_equal.
  unfold get_rs in H. revert re H. generalize (g_res g). induction l as [|a l IH]; intros re H; [destruct re; reflexivity|].
  destruct re; cbn in *; [rewrite H; reflexivity|]. f_equal. apply IH; assumption.
Qed.

Lemma set_bp_ids : forall g bk bp x,
  (cnt x (pool_ids (set_bp g bk bp)) + cnt x (buf_ids (get_bp g bk)) = cnt x (pool_ids g) + cnt x (buf_ids bp))%nat /\
  g_next (set_bp g bk bp) = g_next g.
Proof.
  intros g [] bp x; unfold pool_ids, runner_ids, set_bp, get_bp; cbn [g_res g_rune g_byte g_next]; rewrite !cnt_app;
    (split; [lia|reflexivity]).
Qed.

Lemma buf_ids_upd : forall bp idx l x z,
  nth_error (bp_pools bp) idx = Some z ->
  (cnt x (buf_ids {| bp_sizes := bp_sizes bp; bp_pools := upd_nth idx l (bp_pools bp) |}) + cnt x (map b_id z)
   = cnt x (buf_ids bp) + cnt x (map b_id l))%nat.
Proof. intros. unfold buf_ids; cbn [bp_pools]. apply cnt_flat_map_upd; assumption. Qed.

Lemma get_buf_ids : forall g bk n m pk,
  let '(g1, b, pooled) := act_get_buf g bk n m pk in
  (g_next g1 = g_next g /\ forall x, (cnt x (pool_ids g1) + one x (b_id b) = cnt x (pool_ids g))%nat) \/
  (g_next g1 = S (g_next g) /\ b_id b = g_next g /\ forall x, (cnt x (pool_ids g1) <= cnt x (pool_ids g))%nat).
Proof.
  intros g bk n m pk. unfold act_get_buf.
  destruct (pool_index (bp_sizes (get_bp g bk)) n m) as [idx|]; [|right; cbn; auto].
  destruct (take pk (nth idx (bp_pools (get_bp g bk)) [])) as [[b rest]|] eqn:T; [|right; cbn; auto].
  unfold take in T. destruct pk as [i|]; [|discriminate].
  destruct (nth_error (nth idx (bp_pools (get_bp g bk)) []) i) as [b0|] eqn:N; [|discriminate]. inversion T; subst b0 rest. clear T.
  destruct (nth_error (bp_pools (get_bp g bk)) idx) as [z|] eqn:NZ.
  2:{ exfalso. rewrite (nth_error_none_nth _ _ _ NZ) in N. destruct i; discriminate. }
  rewrite (nth_error_nth' _ _ [] _ NZ) in *.
  set (bp1 := {| bp_sizes := bp_sizes (get_bp g bk); bp_pools := upd_nth idx (remove_nth i z) (bp_pools (get_bp g bk)) |}).
  assert (C : forall x, (cnt x (pool_ids (set_bp g bk bp1)) + one x (b_id b) = cnt x (pool_ids g))%nat).
  { intros x. destruct (set_bp_ids g bk bp1 x) as [S1 _].
    pose proof (buf_ids_upd (get_bp g bk) idx (remove_nth i z) x z NZ) as U. fold bp1 in U.
    pose proof (cnt_remove_nth b_id x z i b N). lia. }
  destruct (n <=? b_cap b).
  - left. split; [destruct bk; reflexivity|exact C].
  - right. split; [destruct bk; reflexivity|]. split; [destruct bk; reflexivity|].
    intros x. specialize (C x). subst bp1.
    match goal with |- context [pool_ids (bump_next ?g0)] => change (pool_ids (bump_next g0)) with (pool_ids g0) end. lia.
Qed.

Lemma put_buf_ids : forall g bk b x,
  g_next (act_put_buf g bk b) = g_next g /\
  (cnt x (pool_ids (act_put_buf g bk b)) <= cnt x (pool_ids g) + one x (b_id b))%nat.
Proof.
  intros g bk b x. unfold act_put_buf.
  destruct (pool_index (bp_sizes (get_bp g bk)) (b_cap b) (-1)) as [idx|]; [|split; [reflexivity|lia]].
  destruct (b_cap b =? nth idx (bp_sizes (get_bp g bk)) 0); [|split; [reflexivity|lia]].
  set (bp1 := {| bp_sizes := bp_sizes (get_bp g bk);
                 bp_pools := upd_nth idx (b :: nth idx (bp_pools (get_bp g bk)) []) (bp_pools (get_bp g bk)) |}).
  destruct (set_bp_ids g bk bp1 x) as [S1 S2]. split; [exact S2|].
  destruct (nth_error (bp_pools (get_bp g bk)) idx) as [z|] eqn:NZ.
  - pose proof (buf_ids_upd (get_bp g bk) idx (b :: nth idx (bp_pools (get_bp g bk)) []) x z NZ) as U. fold bp1 in U.
    rewrite (nth_error_nth' _ _ [] _ NZ) in U. cbn [map cnt] in U. unfold one. lia.
  - assert (bp1 = get_bp g bk).
    { unfold bp1. rewrite (upd_nth_out _ _ _ NZ). destruct (get_bp g bk); reflexivity. }
    assert (H1 : cnt x (buf_ids bp1) = cnt x (buf_ids (get_bp g bk))) by (rewrite H; reflexivity). lia.
Qed.

Lemma held_upd : forall ts i t t1 x,
  nth_error ts i = Some t ->
  (cnt x (held (upd_nth i t1 ts)) + cnt x (t_owned t) = cnt x (held ts) + cnt x (t_owned t1))%nat.
Proof. intros. unfold held. apply cnt_flat_map_upd; assumption. Qed.

Lemma one_refl : forall x, one x x = 1%nat.
Proof. intros. unfold one. rewrite Nat.eqb_refl. reflexivity. Qed.
Lemma one_le : forall x y, (one x y <= 1)%nat.
Proof. intros. unfold one. destruct (Nat.eqb x y); lia. Qed.
Lemma one_neq : forall x y, x <> y -> one x y = 0%nat.
Proof. intros x y H. unfold one. destruct (Nat.eqb_spec x y); [contradiction|reflexivity]. Qed.

(* a brand-new identity occurs nowhere *)
Lemma uniq_fresh : forall g ts, uniq g ts -> (cnt (g_next g) (pool_ids g) + cnt (g_next g) (held ts) = 0)%nat.
Proof. intros g ts U. destruct (U (g_next g)) as [A B]. destruct (cnt (g_next g) (pool_ids g) + cnt (g_next g) (held ts))%nat eqn:Z; [reflexivity|]. assert (g_next g < g_next g)%nat by (apply B; lia). lia. Qed.

Section Own2.
Variable E : env.

Lemma cstep_uniq : forall fuel c i pk,
  Forall tlin (c_threads c) -> uniq (c_g c) (c_threads c) ->
  uniq (c_g (cstep E fuel c i pk)) (c_threads (cstep E fuel c i pk)).
Proof.
  intros fuel c i pk TL U. unfold cstep. destruct (nth_error (c_threads c) i) as [t|] eqn:N; [|exact U].
  assert (L : tlin t). { eapply Forall_forall in TL; [exact TL|]. eapply nth_error_In; eauto. }
  pose proof (fun t1 x => held_upd (c_threads c) i t t1 x N) as HU.
  pose proof (uniq_fresh _ _ U) as FR.
  unfold tstep. unfold tlin in L. destruct (t_cur t) as [p|] eqn:TC.
  2:{ destruct (t_rest t) as [|o rest]; cbn [c_g c_threads fst snd].
      - intros x. specialize (HU t x). destruct (U x). split; intros; [lia|]. apply H0. lia.
      - intros x. specialize (HU {| t_cur := Some (entry E fuel o); t_rest := rest; t_done := t_done t; t_owned := t_owned t |} x).
        cbn [t_owned] in HU. destruct (U x). split; intros; [lia|]. apply H0. lia. }
  destruct p as [v|re k|re r k|bk n m k|bk b k|re key k|re key d k]; inversion L; subst.
  - cbn [c_g c_threads fst snd]. intros x.
    specialize (HU {| t_cur := None; t_rest := t_rest t; t_done := v :: t_done t; t_owned := t_owned t |} x).
    cbn [t_owned] in HU. destruct (U x). split; intros; [lia|]. apply H0. lia.
  - pose proof (get_runner_ids (c_g c) re pk) as G.
    destruct (act_get_runner (c_g c) re pk) as [g1 r]. cbn [c_g c_threads fst snd]. intros x.
    specialize (HU {| t_cur := Some (k r); t_rest := t_rest t; t_done := t_done t; t_owned := r_id r :: t_owned t |} x).
    cbn [t_owned cnt] in HU. fold (one x (r_id r)) in HU. destruct (U x) as [U1 U2].
    destruct G as [[G1 G2]|(G1 & G2 & G3)].
    + specialize (G2 x). rewrite G1. split; intros; [lia|]. apply U2. lia.
    + rewrite G3, G1, G2 in *. destruct (Nat.eq_dec x (g_next (c_g c))) as [->|NE].
      * rewrite one_refl in HU. split; intros; lia.
      * rewrite (one_neq _ _ NE) in HU. split; intros; [lia|]. assert (x < g_next (c_g c))%nat by (apply U2; lia). lia.
  - match goal with X : owns _ _ = true |- _ => rewrite X; pose proof (fun x => cnt_remove_id x _ _ X) as RM end.
    cbn [c_g c_threads fst snd]. intros x.
    destruct (put_runner_ids (c_g c) re r x) as [P1 P2]. rewrite P1.
    specialize (HU {| t_cur := Some k; t_rest := t_rest t; t_done := t_done t; t_owned := remove_id (r_id r) (t_owned t) |} x).
    cbn [t_owned] in HU. specialize (RM x). destruct (U x) as [U1 U2]. split; intros; [lia|]. apply U2. lia.
  - pose proof (get_buf_ids (c_g c) bk n m pk) as G.
    destruct (act_get_buf (c_g c) bk n m pk) as [[g1 b] pooled]. cbn [c_g c_threads fst snd]. intros x.
    specialize (HU {| t_cur := Some (k b pooled); t_rest := t_rest t; t_done := t_done t;
                      t_owned := if pooled then b_id b :: t_owned t else t_owned t |} x).
    cbn [t_owned] in HU. destruct (U x) as [U1 U2].
    destruct G as [[G1 G2]|(G1 & G2 & G3)].
    + specialize (G2 x). rewrite G1. pose proof (one_le x (b_id b)).
      destruct pooled; cbn [cnt] in HU; fold (one x (b_id b)) in HU; (split; intros; [lia|]; apply U2; lia).
    + specialize (G3 x). rewrite G1. rewrite G2 in *. destruct (Nat.eq_dec x (g_next (c_g c))) as [->|NE].
      * destruct pooled; cbn [cnt] in HU; fold (one (g_next (c_g c)) (g_next (c_g c))) in HU; rewrite ?one_refl in HU;
          (split; intros; lia).
      * destruct pooled; cbn [cnt] in HU; fold (one x (g_next (c_g c))) in HU; rewrite ?(one_neq _ _ NE) in HU;
          (split; intros; [lia|]; assert (x < g_next (c_g c))%nat by (apply U2; lia); lia).
  - match goal with X : owns _ _ = true |- _ => rewrite X; pose proof (fun x => cnt_remove_id x _ _ X) as RM end.
    cbn [c_g c_threads fst snd]. intros x.
    destruct (put_buf_ids (c_g c) bk b x) as [P1 P2]. rewrite P1.
    specialize (HU {| t_cur := Some k; t_rest := t_rest t; t_done := t_done t; t_owned := remove_id (b_id b) (t_owned t) |} x).
    cbn [t_owned] in HU. specialize (RM x). destruct (U x) as [U1 U2]. split; intros; [lia|]. apply U2. lia.
  - unfold act_cache_get. destruct (cache_get key (rs_cache (get_rs (c_g c) re))) as [cc oo].
    cbn [c_g c_threads fst snd]. intros x.
    destruct (cache_ids (c_g c) re {| rs_pool := rs_pool (get_rs (c_g c) re); rs_cache := cc |} eq_refl) as [C1 C2].
    rewrite C1, C2.
    specialize (HU {| t_cur := Some (k oo); t_rest := t_rest t; t_done := t_done t; t_owned := t_owned t |} x).
    cbn [t_owned] in HU. destruct (U x). split; intros; [lia|]. apply H0. lia.
  - unfold act_cache_add. cbn [c_g c_threads fst snd]. intros x.
    destruct (cache_ids (c_g c) re {| rs_pool := rs_pool (get_rs (c_g c) re);
                 rs_cache := cache_add (cfg_cache_max (e_cfg E re)) key d (rs_cache (get_rs (c_g c) re)) |} eq_refl) as [C1 C2].
    rewrite C1, C2.
    specialize (HU {| t_cur := Some k; t_rest := t_rest t; t_done := t_done t; t_owned := t_owned t |} x).
    cbn [t_owned] in HU. destruct (U x). split; intros; [lia|]. apply H0. lia.
Qed.

Lemma held_spawn : forall opss, held (map spawn opss) = [].
Proof. induction opss; cbn; auto. Qed.

Lemma gstate0_ids : forall nre rs bs, pool_ids (gstate0 nre rs bs) = [].
Proof.
  intros. unfold pool_ids, runner_ids, buf_ids, gstate0; cbn.
  assert (A : forall n, flat_map (fun rs0 : re_state => map r_id (rs_pool rs0)) (repeat rs_empty n) = []) by (induction n; cbn; auto).
  assert (B : forall n, flat_map (map b_id) (repeat (@nil buffer) n) = []) by (induction n; cbn; auto).
  rewrite A, !B. reflexivity.
Qed.

(* ownership invariant under every schedule *)
Theorem ownership_invariant : forall fuel nre rsizes bsizes opss sched,
  let c := run_sched E fuel {| c_g := gstate0 nre rsizes bsizes; c_threads := map spawn opss; c_fault := false |} sched in
  c_fault c = false /\
  forall x, (cnt x (pool_ids (c_g c)) + cnt x (held (c_threads c)) <= 1)%nat.
Proof.
  intros fuel nre rsizes bsizes opss sched.
  assert (G : forall c, c_fault c = false -> Forall tlin (c_threads c) -> uniq (c_g c) (c_threads c) ->
              c_fault (run_sched E fuel c sched) = false /\ uniq (c_g (run_sched E fuel c sched)) (c_threads (run_sched E fuel c sched))).
  { induction sched as [|[i pk] s IH]; intros c F T U; cbn [run_sched]; [auto|].
    destruct (cstep_lin E fuel c i pk F T) as [F1 T1]. apply IH; auto. apply cstep_uniq; auto. }
  cbn zeta. destruct (G {| c_g := gstate0 nre rsizes bsizes; c_threads := map spawn opss; c_fault := false |}) as [F U].
  - reflexivity.
  - cbn [c_threads]. apply Forall_forall. intros t X. apply in_map_iff in X. destruct X as (ops & <- & _). exact I.
  - cbn [c_g c_threads]. intros x. rewrite gstate0_ids, held_spawn. cbn. split; intros; lia.
  - split; [exact F|]. intros x. apply U.
Qed.

End Own2.
