(* C05, proofs part 5: canBeMadeAtomic (Model/FinalOpt.fo_cbma) is sound.
   [CK c K]: K is a possible continuation of the position whose parents are the frames c (what follows it up to
   the end of the enclosing atomic scope).  If fo_cbma n sub c .. = true (strict bits 0-2 set) then
     either  every such continuation, preceded by the successor sub, is DEAD at the states where the loop n may
             have stopped early (KD),
     or      no \B was stepped over and every such continuation, preceded by sub, never fails (KT). *)
From Verif Require Import Base.Prelude Model.Tree Model.Spec Model.Rewrite Model.ParseLit Model.CharClass Model.Parser
  Model.FinalOpt
  Proofs.SpecProofs Proofs.SpecBoundsProofs Proofs.RewriteProofs
  Proofs.FinalOptDen Proofs.FinalOptK Proofs.FinalOptLink Proofs.FinalOptLeaf.
From Coq Require Import ZifyBool.

Section Walk.
Variable cat_in : Z -> Z -> bool.
Variables isw isew : Z -> bool.
Variable sid : cls -> Z.
Variable e : env.
Variable sets : list cls.
Hypothesis Henv : env_ok cat_in isw isew sid e sets.
Variable strict : Z.
Hypothesis Hs0 : Z.testbit strict 0 = true.
Hypothesis Hs1 : Z.testbit strict 1 = true.
Hypothesis Hs2 : Z.testbit strict 2 = true.

Notation den := (den e).
Notation sok := (st_ok e).
Notation tr := (tr sid).
Notation PQ := (PQ cat_in e).
Notation sets_in := (sets_in sets).
Notation kb := (kb e).
Notation kseq := (kseq e).
Notation KD := (KD e).
Notation KT := (KT e).

Definition node_ok (x : rnode) : Prop := fo_wf x = true /\ sets_in x.
Definition ctx_ok (c : list frame) : Prop := Forall (fun fr => Forall node_ok (f_rights fr)) c.

Lemma node_ok_kid x k : node_ok x -> In k (n_kids x) -> node_ok k.
Proof. intros [H1 H2] Hin. split; [exact (fo_wf_kid x k H1 Hin) | exact (sets_in_kid sets x k H2 Hin)]. Qed.

Lemma node_ok_okp x : node_ok x -> okp e (tr x).
Proof. intros [H _]. apply okp_lmo. apply fo_wf_lmo. exact H. Qed.

(* ---- the continuations of a position *)
Fixpoint CK (c : list frame) (K : kont) : Prop :=
  match c with
  | [] => KT K
  | fr :: c' =>
      let t := f_t fr in
      if t =? T_Concatenate then exists K', CK c' K' /\ forall a, K a = kseq (map tr (f_rights fr)) K' a
      else if t =? T_Capture then
        exists K' g u s0, sok s0 /\ (f_bal fr = false -> u = -1) /\ CK c' K' /\ forall a, K a = kcap g u s0 K' a
      else if t =? T_Alternate then exists K', CK c' K' /\ forall a, K a = K' a
      else if (t =? T_Atomic) && negb (f_desc fr) then KT K
      else True
  end.

Definition Dc (n : rnode) (c : list frame) (x : node) : Prop := forall K, CK c K -> KD (PQ n) (kb x K).
Definition Tc (c : list frame) (x : node) : Prop := forall K, CK c K -> KT (kb x K).

Lemma s0_ok : sok {| pos := 0; caps := [] |}.
Proof. apply sb_init_ok. unfold tlen, zlen. lia. Qed.

Lemma KT_kempty_false : KT (fun _ => []) -> False.
Proof. intros H. apply (H _ s0_ok). reflexivity. Qed.

Lemma flat_map_nil_fun {A B} (l : list A) : flat_map (fun _ : A => @nil B) l = [].
Proof. induction l; cbn; auto. Qed.

Lemma kb_kempty x a : kb x (fun _ => []) a = [].
Proof. unfold kb, FinalOptK.kb. apply flat_map_nil_fun. Qed.

Lemma KD_ext P K K' : (forall a, K a = K' a) -> KD P K' -> KD P K.
Proof. intros H HK s Hs Hp. rewrite H. apply HK; assumption. Qed.
Lemma KT_ext K K' : (forall a, K a = K' a) -> KT K' -> KT K.
Proof. intros H HK s Hs. rewrite H. apply HK; assumption. Qed.
Lemma kb_ext x K K' a : (forall b, K b = K' b) -> kb x K a = kb x K' a.
Proof. intros H. unfold kb, FinalOptK.kb. apply flat_map_ext. exact H. Qed.

(* dead successor: dead whatever follows *)
Lemma dead_Dc n c x : dead_at cat_in e n x -> Dc n c x.
Proof. intros H K _ a Ha Hp. unfold kb, FinalOptK.kb. rewrite (H a Ha Hp). reflexivity. Qed.

Lemma kb_nonempty x K a : okp e x -> sok a -> den x a <> [] -> KT K -> kb x K a <> [].
Proof.
  intros Hok Ha Hne HK. unfold kb, FinalOptK.kb. specialize (Hok a Ha).
  destruct (den x a) as [|b l]; [contradiction|]. cbn [flat_map]. inversion Hok as [|? ? Hb _]; subst.
  specialize (HK b Hb). destruct (K b); [contradiction|discriminate].
Qed.

(* ---- the descent to the node guaranteed to follow (895-905) *)
Lemma descend_sound n : forall sub c s ctx1,
  fo_descend sub c = (s, ctx1) -> node_ok sub -> ctx_ok c ->
  node_ok s /\ ctx_ok ctx1 /\
  (Dc n ctx1 (tr s) -> Dc n c (tr sub)) /\ (Tc ctx1 (tr s) -> Tc c (tr sub)).
Proof.
  induction sub as [t o ch m nn str st kids IHk] using rnode_ind'. intros c s ctx1 Hd Hok Hc.
  cbn [fo_descend] in Hd.
  destruct kids as [|k ks]; [injection Hd as <- <-; split; [exact Hok|]; split; [exact Hc|]; split; auto|].
  set (sub := RN t o ch m nn str st (k :: ks)) in *.
  destruct ((t =? T_Concatenate) || (t =? T_Capture) || (t =? T_Atomic) || (t =? T_PosLook) && negb (useRTL o)
            || ((t =? T_Loop) || (t =? T_Lazyloop)) && (0 <? m)) eqn:Econd;
    [|injection Hd as <- <-; split; [exact Hok|]; split; [exact Hc|]; split; auto].
  inversion IHk as [|? ? IHk0 _]; subst.
  assert (Hokk : node_ok k) by (apply (node_ok_kid sub); [exact Hok | left; reflexivity]).
  assert (Hokks : Forall node_ok ks).
  { rewrite Forall_forall. intros r Hr. apply (node_ok_kid sub); [exact Hok | right; exact Hr]. }
  set (fr := mkF t ((t =? T_Capture) && negb (nn =? -1)) true ks) in *.
  assert (Hc' : ctx_ok (fr :: c)) by (constructor; [exact Hokks | exact Hc]).
  destruct (IHk0 (fr :: c) s ctx1 Hd Hokk Hc') as (Hs & Hc1 & HD & HT).
  split; [exact Hs|]. split; [exact Hc1|].
  pose proof (fo_wf_arity sub (proj1 Hok)) as Har. cbn [n_t n_kids sub length] in Har.
  unfold T_Concatenate, T_Capture, T_Atomic, T_PosLook, T_Loop, T_Lazyloop in Econd.
  destruct (t =? 25) eqn:E25.
  { (* Concatenate *)
    assert (Etr : tr sub = NConcat o (tr k :: map tr ks)) by (rewrite tr_concat; [reflexivity | unfold sub; cbn [n_t]; unfold T_Concatenate; lia]).
    assert (Hkb : forall K a, kb (tr sub) K a = kb (tr k) (kseq (map tr ks) K) a).
    { intros K a. rewrite Etr. unfold kb, FinalOptK.kb. rewrite fd_den_concat. cbn [FinalOptDen.den_seq].
      rewrite fd_flat_map_flat_map. reflexivity. }
    assert (HCK : forall K, CK c K -> CK (fr :: c) (kseq (map tr ks) K)).
    { intros K HK. cbn [CK f_t fr]. replace (t =? T_Concatenate) with true by (unfold T_Concatenate; lia).
      exists K. split; [exact HK|]. intros a. reflexivity. }
    split.
    - intros H1 K HK. eapply KD_ext; [intros a; apply Hkb|]. apply (HD H1). apply HCK. exact HK.
    - intros H1 K HK. eapply KT_ext; [intros a; apply Hkb|]. apply (HT H1). apply HCK. exact HK. }
  destruct (t =? 28) eqn:E28.
  { (* Capture *)
    assert (Hks : ks = []) by (replace t with 28 in Har by lia; cbn in Har; destruct ks; [reflexivity|discriminate]).
    subst ks.
    assert (Etr : tr sub = NCapture o m nn (tr k)) by (apply tr_capture; [unfold sub; cbn [n_t]; unfold T_Capture; lia | reflexivity]).
    assert (Hkb : forall K a, kb (tr sub) K a = kb (tr k) (kcap m nn a K) a).
    { intros K a. rewrite Etr. unfold kb, FinalOptK.kb, kcap. rewrite fd_den_capture, fd_flat_map_flat_map. reflexivity. }
    assert (HCK : forall K a, sok a -> CK c K -> CK (fr :: c) (kcap m nn a K)).
    { intros K a Ha HK. cbn [CK f_t fr]. replace (t =? T_Concatenate) with false by (unfold T_Concatenate; lia).
      replace (t =? T_Capture) with true by (unfold T_Capture; lia).
      exists K, m, nn, a. split; [exact Ha|]. split; [|split; [exact HK|intros b; reflexivity]].
      unfold fr. cbn [f_bal]. unfold T_Capture. intros Hb. lia. }
    split.
    - intros H1 K HK a Ha Hp. rewrite Hkb. apply (HD H1 _ (HCK K a Ha HK)); assumption.
    - intros H1 K HK a Ha. rewrite Hkb. apply (HT H1 _ (HCK K a Ha HK)); assumption. }
  (* the frames the walk does not come back through: any continuation *)
  assert (HCKany : forall K1, CK (fr :: c) K1).
  { intros K1. cbn [CK f_t fr f_desc]. replace (t =? T_Concatenate) with false by (unfold T_Concatenate; lia).
    replace (t =? T_Capture) with false by (unfold T_Capture; lia).
    assert (t = 32 \/ t = 30 \/ t = 26 \/ t = 27) as Ht by lia.
    unfold T_Alternate, T_Atomic. destruct Ht as [-> | [-> | [-> | -> ]]]; cbn; exact I. }
  assert (Hks : ks = []).
  { assert (t = 32 \/ t = 30 \/ t = 26 \/ t = 27) as Ht by lia.
    destruct Ht as [-> | [-> | [-> | -> ]]]; cbn in Har; destruct ks; try reflexivity; discriminate. }
  subst ks.
  split; [|intros H1; exfalso; apply KT_kempty_false; eapply KT_ext; [intros a; symmetry; apply (kb_kempty (tr k))|];
           apply (HT H1 _ (HCKany _))].
  intros H1 K HK a Ha Hp.
  assert (Hk0 : den (tr k) a = []).
  { pose proof (HD H1 kid (HCKany _) a Ha Hp) as H0. unfold kb, FinalOptK.kb, kid in H0.
    rewrite flat_map_single in H0. exact H0. }
  unfold kb, FinalOptK.kb.
  assert (t = 32 \/ t = 30 \/ t = 26 \/ t = 27) as Ht by lia.
  destruct Ht as [Et|[Et|[Et|Et]]].
  - rewrite (tr_atomic sid sub k) by (unfold sub; cbn [n_t n_kids]; unfold T_Atomic; auto). rewrite fd_den_atomic, Hk0. reflexivity.
  - rewrite (tr_poslook sid sub k) by (unfold sub; cbn [n_t n_kids]; unfold T_PosLook; auto). rewrite fd_den_poslook, Hk0. reflexivity.
  - rewrite (tr_loop sid sub k) by (unfold sub; cbn [n_t n_kids]; unfold T_Loop; auto). rewrite fd_den_loop. cbn [n_m sub].
    replace (m =? 0) with false by lia. rewrite Hk0. reflexivity.
  - rewrite (tr_lazyloop sid sub k) by (unfold sub; cbn [n_t n_kids]; unfold T_Lazyloop; auto). rewrite fd_den_loop. cbn [n_m sub].
    replace (m =? 0) with false by lia. rewrite Hk0. reflexivity.
Qed.

(* ---- fo_cbma, one step (the two local loops of Model/FinalOpt.fo_cbma by name) *)
Definition fo_branches (g : rnode -> list rnode -> res bool) : list rnode -> res bool :=
  fix branches (ks : list rnode) : res bool :=
    match ks with
    | [] => Ok true
    | k :: ks' => do b <- g k ks' ; if b then branches ks' else Ok false
    end.

Definition fo_up (g : rnode -> list frame -> res bool) (st : Z) (seen1 : bool) : list frame -> res bool :=
  fix up (c : list frame) : res bool :=
    match c with
    | [] => Ok (negb (Z.testbit st 0 && seen1))
    | fr :: c' =>
        let pt := f_t fr in
        if pt =? T_Atomic then (if seen1 || (Z.testbit st 2 && f_desc fr) then Ok false else up c')
        else if pt =? T_Alternate then up c'
        else if pt =? T_Capture then (if Z.testbit st 1 && f_bal fr then Ok false else up c')
        else if pt =? T_Concatenate then
          match f_rights fr with
          | [] => up c'
          | nx :: rs => g nx (mkF T_Concatenate false (f_desc fr) rs :: c')
          end
        else Ok false
    end.

Lemma fo_cbma_S f n sub ctx iter al seen :
  fo_cbma cat_in isw isew (S f) strict n sub ctx iter al seen =
  let '(s, ctx1) := fo_descend sub ctx in
  if negb (n_o n =? n_o s) then Ok false
  else if useRTL (n_o n) then Ok false
  else
    let st := n_t s in
    if (st =? T_Alternate) || ((st =? T_ExprCond) && (zlen (n_kids s) =? 3)) then
      fo_branches (fun k ks' => fo_cbma cat_in isw isew f strict n k (mkF st false true ks' :: ctx1) iter false seen) (n_kids s)
    else
      do v <- fo_verdict cat_in isw isew n s al ;
      if v =? 1 then Ok true
      else if v =? 0 then Ok false
      else if negb iter then Ok false
      else
        let seen1 := seen || (st =? T_Nonboundary) || (st =? T_NonECMABoundary) in
        fo_up (fun nx c => fo_cbma cat_in isw isew f strict n nx c iter al seen1) strict seen1 ctx1.
Proof. reflexivity. Qed.

(* ---- soundness *)
Definition cbma_spec (n sub : rnode) (c : list frame) (iter seen : bool) : Prop :=
  Dc n c (tr sub) \/ (iter = true /\ seen = false /\ Tc c (tr sub)).
Definition up_spec (n : rnode) (seen1 : bool) (c : list frame) : Prop :=
  (forall K, CK c K -> KD (PQ n) K) \/ (seen1 = false /\ forall K, CK c K -> KT K).

Lemma kseq_cons_kb x l K a : kseq (x :: l) K a = kb x (kseq l K) a.
Proof. apply kseq_cons. Qed.

Lemma sok_capture_plain g s0 a : sok s0 -> sok a ->
  exists b, capture_close g (-1) s0 a = [b] /\ sok b /\ pos b = pos a.
Proof.
  intros [Hp0 Hc0] [Hpa Hca]. unfold capture_close. cbn. eexists. split; [reflexivity|]. split; [|reflexivity].
  split; cbn [pos caps]; [exact Hpa|]. apply sb_caps_ok_push; [exact Hca|]. apply sb_span_ok; assumption.
Qed.

Section Fuel.
Variable f : nat.
Hypothesis IHf : forall n sub c iter al seen,
  fo_cbma cat_in isw isew f strict n sub c iter al seen = Ok true ->
  node_ok n -> node_ok sub -> ctx_ok c -> cbma_spec n sub c iter seen.

Lemma up_sound n iter al seen1 : node_ok n -> forall c, ctx_ok c ->
  fo_up (fun nx c0 => fo_cbma cat_in isw isew f strict n nx c0 iter al seen1) strict seen1 c = Ok true ->
  iter = true -> up_spec n seen1 c.
Proof.
  intros Hn. induction c as [|fr c' IH]; intros Hc H Hit.
  - cbn [fo_up] in H. rewrite Hs0 in H. cbn [andb] in H.
    right. split; [destruct seen1; [discriminate|reflexivity]|]. intros K HK. exact HK.
  - inversion Hc as [|? ? Hfr Hc']; subst. cbn [fo_up] in H.
    cbv zeta in H. unfold up_spec. cbn [CK]. cbv zeta.
    destruct (f_t fr =? T_Atomic) eqn:Ea.
    { rewrite Hs2 in H. cbn [andb] in H. destruct seen1; [discriminate|]. cbn [orb] in H.
      destruct (f_desc fr) eqn:Ed; [discriminate|].
      right. split; [reflexivity|]. intros K HK.
      replace (f_t fr =? T_Concatenate) with false in HK by (unfold T_Atomic, T_Concatenate in *; lia).
      replace (f_t fr =? T_Capture) with false in HK by (unfold T_Atomic, T_Capture in *; lia).
      replace (f_t fr =? T_Alternate) with false in HK by (unfold T_Atomic, T_Alternate in *; lia).
      cbn [negb andb] in HK. exact HK. }
    destruct (f_t fr =? T_Alternate) eqn:Eal.
    { specialize (IH Hc' H eq_refl).
      replace (f_t fr =? T_Concatenate) with false by (unfold T_Alternate, T_Concatenate in *; lia).
      replace (f_t fr =? T_Capture) with false by (unfold T_Alternate, T_Capture in *; lia).
      destruct IH as [IH|[Hse IH]].
      - left. intros K (K' & HK' & Heq). eapply KD_ext; [exact Heq|]. apply IH. exact HK'.
      - right. split; [exact Hse|]. intros K (K' & HK' & Heq). eapply KT_ext; [exact Heq|]. apply IH. exact HK'. }
    destruct (f_t fr =? T_Capture) eqn:Ecap.
    { rewrite Hs1 in H. cbn [andb] in H. destruct (f_bal fr) eqn:Eb; [discriminate|].
      specialize (IH Hc' H eq_refl).
      replace (f_t fr =? T_Concatenate) with false by (unfold T_Capture, T_Concatenate in *; lia).
      destruct IH as [IH|[Hse IH]].
      - left. intros K (K' & g & u & s0 & Hs0' & Hu & HK' & Heq). eapply KD_ext; [exact Heq|].
        rewrite (Hu eq_refl). intros a Ha Hp. unfold kcap.
        destruct (sok_capture_plain g s0 a Hs0' Ha) as (b & -> & Hb & Hpb). cbn [flat_map].
        rewrite (IH K' HK' b Hb (PQ_pos cat_in e n a b (eq_sym Hpb) Hp)). reflexivity.
      - right. split; [exact Hse|]. intros K (K' & g & u & s0 & Hs0' & Hu & HK' & Heq). eapply KT_ext; [exact Heq|].
        rewrite (Hu eq_refl). intros a Ha. unfold kcap.
        destruct (sok_capture_plain g s0 a Hs0' Ha) as (b & -> & Hb & Hpb). cbn [flat_map].
        specialize (IH K' HK' b Hb). destruct (K' b); [contradiction|discriminate]. }
    destruct (f_t fr =? T_Concatenate) eqn:Ecc; [|discriminate].
    destruct (f_rights fr) as [|nx rs] eqn:Er.
    + specialize (IH Hc' H eq_refl). destruct IH as [IH|[Hse IH]].
      * left. intros K (K' & HK' & Heq). eapply KD_ext; [intros a; rewrite Heq; apply kseq_nil|]. apply IH. exact HK'.
      * right. split; [exact Hse|]. intros K (K' & HK' & Heq). eapply KT_ext; [intros a; rewrite Heq; apply kseq_nil|]. apply IH. exact HK'.
    + inversion Hfr as [|? ? Hnx Hrs]; subst.
      assert (Hc2 : ctx_ok (mkF T_Concatenate false (f_desc fr) rs :: c')) by (constructor; [exact Hrs|exact Hc']).
      pose proof (IHf n nx _ _ al seen1 H Hn Hnx Hc2) as Hsp.
      assert (HCK2 : forall K', CK c' K' -> CK (mkF T_Concatenate false (f_desc fr) rs :: c') (kseq (map tr rs) K')).
      { intros K' HK'. cbn [CK f_t]. replace (T_Concatenate =? T_Concatenate) with true by reflexivity.
        exists K'. split; [exact HK'|]. intros a. reflexivity. }
      destruct Hsp as [HD|(_ & Hse & HT)].
      * left. intros K (K' & HK' & Heq). eapply KD_ext; [intros a; rewrite Heq; cbn [map]; apply kseq_cons_kb|].
        apply HD. apply HCK2. exact HK'.
      * right. split; [exact Hse|]. intros K (K' & HK' & Heq).
        eapply KT_ext; [intros a; rewrite Heq; cbn [map]; apply kseq_cons_kb|]. apply HT. apply HCK2. exact HK'.
Qed.

End Fuel.

Lemma flat_map_nonempty {A B} (g : A -> list B) l x : In x l -> g x <> [] -> flat_map g l <> [].
Proof.
  induction l as [|y l IH]; intros Hin Hg; [destruct Hin|]. cbn [flat_map].
  destruct Hin as [->|Hin]; [destruct (g x); [contradiction|discriminate]|].
  intros E. apply app_eq_nil in E. destruct E as [_ E]. exact (IH Hin Hg E).
Qed.
Lemma flat_map_all_nil {A B} (g : A -> list B) l : (forall x, In x l -> g x = []) -> flat_map g l = [].
Proof.
  induction l as [|y l IH]; intros H; [reflexivity|]. cbn [flat_map]. rewrite (H y (or_introl eq_refl)).
  apply IH. intros x Hx. apply H. right. exact Hx.
Qed.

Lemma CK_opaque t b d rs c K : (t =? T_Concatenate) = false -> (t =? T_Capture) = false -> (t =? T_Alternate) = false ->
  (t =? T_Atomic) = false -> CK (mkF t b d rs :: c) K.
Proof. intros E1 E2 E3 E4. cbn [CK f_t]. rewrite E1, E2, E3, E4. exact I. Qed.

Lemma CK_alt_frame b d rs c K : CK c K -> CK (mkF T_Alternate b d rs :: c) K.
Proof. intros H. cbn [CK f_t]. cbn. exists K. split; [exact H|reflexivity]. Qed.

Theorem cbma_sound : forall f n sub c iter al seen,
  fo_cbma cat_in isw isew f strict n sub c iter al seen = Ok true ->
  node_ok n -> node_ok sub -> ctx_ok c -> cbma_spec n sub c iter seen.
Proof.
  induction f as [|f IHf]; intros n sub c iter al seen H Hn Hsub Hc; [discriminate|].
  rewrite fo_cbma_S in H. destruct (fo_descend sub c) as [s ctx1] eqn:Ed.
  destruct (descend_sound n sub c s ctx1 Ed Hsub Hc) as (Hs & Hc1 & HD & HT).
  destruct (negb (n_o n =? n_o s)) eqn:Eo; [discriminate|].
  destruct (useRTL (n_o n)) eqn:Er; [discriminate|].
  assert (Hoeq : n_o n = n_o s) by lia.
  assert (Hltr : ltr (n_o n)) by exact Er.
  cbv zeta in H.
  assert (Hlift : cbma_spec n s ctx1 iter seen -> cbma_spec n sub c iter seen).
  { intros [H1|(Hi & Hse & H1)]; [left; apply HD; exact H1 | right; split; [exact Hi|]; split; [exact Hse|]; apply HT; exact H1]. }
  apply Hlift. clear Hlift HD HT.
  destruct ((n_t s =? T_Alternate) || (n_t s =? T_ExprCond) && (zlen (n_kids s) =? 3)) eqn:Ealt.
  - (* every branch *)
    assert (Hbr : forall ks, Forall node_ok ks ->
              fo_branches (fun k ks' => fo_cbma cat_in isw isew f strict n k (mkF (n_t s) false true ks' :: ctx1) iter false seen) ks = Ok true ->
              Forall (fun k => exists rs, cbma_spec n k (mkF (n_t s) false true rs :: ctx1) iter seen) ks).
    { induction ks as [|k ks IHks]; intros Hks Hb; [constructor|].
      inversion Hks as [|? ? Hk Hks']; subst. cbn [fo_branches] in Hb.
      destruct (fo_cbma cat_in isw isew f strict n k (mkF (n_t s) false true ks :: ctx1) iter false seen) as [b| | |] eqn:Ek;
        cbn [bind] in Hb; try discriminate.
      destruct b; [|discriminate]. constructor; [|apply IHks; assumption].
      exists ks. apply (IHf _ _ _ _ _ _ Ek Hn Hk). constructor; [exact Hks'|exact Hc1]. }
    assert (Hkids : Forall node_ok (n_kids s)).
    { rewrite Forall_forall. intros k Hk. exact (node_ok_kid s k Hs Hk). }
    specialize (Hbr _ Hkids H).
    destruct (n_t s =? T_Alternate) eqn:Ea.
    + (* Alternate *)
      assert (Etr : tr s = NAlternate (n_o s) (map tr (n_kids s))) by (apply tr_alt; unfold T_Alternate in *; lia).
      assert (Hkb : forall K a, kb (tr s) K a = flat_map (fun k => kb (tr k) K a) (n_kids s)).
      { intros K a. rewrite Etr. unfold kb, FinalOptK.kb. rewrite fd_den_alt, fd_flat_map_flat_map, flat_map_concat_map, map_map,
          <- flat_map_concat_map. reflexivity. }
      replace (n_t s) with T_Alternate in Hbr by (unfold T_Alternate in *; lia).
      assert (Hdec : forall l, Forall (fun k => exists rs, cbma_spec n k (mkF T_Alternate false true rs :: ctx1) iter seen) l ->
                     (forall k, In k l -> forall K, CK ctx1 K -> KD (PQ n) (kb (tr k) K)) \/
                     (iter = true /\ seen = false /\ exists k, In k l /\ forall K, CK ctx1 K -> KT (kb (tr k) K))).
      { clear. induction 1 as [|k ks [rs Hk] _ IHks].
        - left. intros k [].
        - destruct Hk as [HkD|(Hi & Hse & HkT)].
          + destruct IHks as [IHD|(Hi & Hse & k' & Hin & HkT)].
            * left. intros k0 [<-|Hin] K HK; [apply HkD; apply CK_alt_frame; exact HK | exact (IHD k0 Hin K HK)].
            * right. split; [exact Hi|]. split; [exact Hse|]. exists k'. split; [right; exact Hin|exact HkT].
          + right. split; [exact Hi|]. split; [exact Hse|]. exists k. split; [left; reflexivity|].
            intros K HK. apply HkT. apply CK_alt_frame. exact HK. }
      destruct (Hdec _ Hbr) as [HD|(Hi & Hse & k & Hin & HkT)].
      * left. intros K HK a Ha Hp. rewrite Hkb. apply flat_map_all_nil. intros k Hk. exact (HD k Hk K HK a Ha Hp).
      * right. split; [exact Hi|]. split; [exact Hse|]. intros K HK a Ha. rewrite Hkb.
        apply (flat_map_nonempty _ _ k Hin). exact (HkT K HK a Ha).
    + (* expression conditional with both branches *)
      assert (Et : n_t s = T_ExprCond) by (unfold T_Alternate, T_ExprCond in *; lia).
      assert (Hk3 : exists c0 y0 n0, n_kids s = [c0; y0; n0]).
      { assert (zlen (n_kids s) = 3) as Hl by lia. unfold zlen in Hl.
        destruct (n_kids s) as [|c0 [|y0 [|n0 [|? ?]]]]; cbn [length] in Hl; try lia. exists c0, y0, n0. reflexivity. }
      destruct Hk3 as (c0 & y0 & n0 & Ek). rewrite Ek in Hbr.
      assert (Hdead : forall k, In k [c0; y0; n0] -> forall a, sok a -> PQ n a -> den (tr k) a = []).
      { intros k Hk a Ha Hp. rewrite Forall_forall in Hbr. destruct (Hbr k Hk) as [rs [HkD|(_ & _ & HkT)]].
        - assert (HCK : CK (mkF (n_t s) false true rs :: ctx1) kid).
          { rewrite Et. apply CK_opaque; reflexivity. }
          pose proof (HkD kid HCK a Ha Hp) as H0. unfold kb, FinalOptK.kb, kid in H0. rewrite flat_map_single in H0. exact H0.
        - exfalso. apply KT_kempty_false. eapply KT_ext; [intros b; symmetry; apply (kb_kempty (tr k))|].
          apply HkT. rewrite Et. apply CK_opaque; reflexivity. }
      left. intros K HK a Ha Hp. unfold kb, FinalOptK.kb.
      rewrite (tr_expr_cond sid s c0 y0 n0 Et Ek), fd_den_expr_cond.
      rewrite (Hdead c0 (or_introl eq_refl) a Ha Hp). cbn [den_opt].
      rewrite (Hdead n0 (or_intror (or_intror (or_introl eq_refl))) a Ha Hp). reflexivity.
  - (* one successor *)
    destruct (fo_verdict cat_in isw isew n s al) as [v| | |] eqn:Ev; cbn [bind] in H; try discriminate.
    destruct (verdict_sound cat_in isw isew sid e sets Henv n s (proj1 Hn) (proj1 Hs) (proj2 Hn) (proj2 Hs) Hoeq Hltr al v Ev) as [Hv1 Hv2].
    destruct (v =? 1) eqn:E1.
    { left. apply dead_Dc. apply dead_nq_at. apply Hv1. lia. }
    destruct (v =? 0) eqn:E0; [discriminate|].
    destruct (negb iter) eqn:Ei; [discriminate|].
    assert (Hit : iter = true) by (destruct iter; [reflexivity|discriminate]).
    assert (Hv : v = 2).
    { unfold fo_verdict in Ev.
      repeat match type of Ev with context [if ?c then _ else _] => destruct c end;
        try (apply two_inv in Ev; destruct Ev as [[-> _] | [[-> _] | -> ]]; lia); injection Ev as <-; lia. }
    specialize (Hv2 Hv).
    pose proof (up_sound f IHf n iter al _ Hn ctx1 Hc1 H Hit) as Hup.
    unfold nb_t in Hv2.
    destruct ((n_t s =? T_Nonboundary) || (n_t s =? T_NonECMABoundary)) eqn:Enb.
    + (* a \B: only a dead end helps *)
      assert (Eseen : seen || (n_t s =? T_Nonboundary) || (n_t s =? T_NonECMABoundary) = true) by (destruct seen; lia).
      rewrite Eseen in Hup.
      destruct Hup as [HupD|[Habs _]]; [|discriminate].
      left. intros K HK a Ha Hp. unfold kb, FinalOptK.kb.
      destruct (Hv2 a Ha Hp) as [->| ->]; [|reflexivity]. cbn [flat_map]. rewrite (HupD K HK a Ha Hp). reflexivity.
    + assert (Eseen : seen || (n_t s =? T_Nonboundary) || (n_t s =? T_NonECMABoundary) = seen) by (destruct seen; lia).
      rewrite Eseen in Hup.
      destruct Hv2 as [Hdead|[Hst Htot]]; [left; apply dead_Dc; exact Hdead|].
      destruct Hup as [HupD|[Hse HupT]].
      * left. intros K HK a Ha Hp. unfold kb, FinalOptK.kb. rewrite (Hst a Ha Hp). cbn [flat_map].
        rewrite (HupD K HK a Ha Hp). reflexivity.
      * right. split; [exact Hit|]. split; [exact Hse|]. intros K HK a Ha.
        apply kb_nonempty; [apply node_ok_okp; exact Hs | exact Ha | apply Htot | apply HupT; exact HK].
Qed.

(* ---- without iterateNullableSubsequent (FindLastExpressionInLoopForAutoAtomic's question, the lazy loops):
   true means the successor has no result wherever the next character passes the loop's test, from ANY state *)
Notation NQ := (NQ cat_in e).

Lemma descend_dead n : forall sub c s ctx1, fo_descend sub c = (s, ctx1) -> node_ok sub ->
  node_ok s /\ ((forall a, NQ n a -> den (tr s) a = []) -> forall a, NQ n a -> den (tr sub) a = []).
Proof.
  induction sub as [t o ch m nn str st kids IHk] using rnode_ind'. intros c s ctx1 Hd Hok.
  cbn [fo_descend] in Hd.
  destruct kids as [|k ks]; [injection Hd as <- <-; split; [exact Hok|auto]|].
  set (sub := RN t o ch m nn str st (k :: ks)) in *.
  destruct ((t =? T_Concatenate) || (t =? T_Capture) || (t =? T_Atomic) || (t =? T_PosLook) && negb (useRTL o)
            || ((t =? T_Loop) || (t =? T_Lazyloop)) && (0 <? m)) eqn:Econd;
    [|injection Hd as <- <-; split; [exact Hok|auto]].
  inversion IHk as [|? ? IHk0 _]; subst.
  assert (Hokk : node_ok k) by (apply (node_ok_kid sub); [exact Hok | left; reflexivity]).
  destruct (IHk0 _ s ctx1 Hd Hokk) as (Hs & HD).
  split; [exact Hs|]. intros Hdead a Ha. specialize (HD Hdead a Ha).
  pose proof (fo_wf_arity sub (proj1 Hok)) as Har. cbn [n_t n_kids sub length] in Har.
  unfold T_Concatenate, T_Capture, T_Atomic, T_PosLook, T_Loop, T_Lazyloop in Econd.
  destruct (t =? 25) eqn:E25.
  { rewrite (tr_concat sid sub) by (unfold sub; cbn [n_t]; unfold T_Concatenate; lia).
    unfold sub. cbn [n_o n_kids map]. rewrite fd_den_concat. cbn [FinalOptDen.den_seq]. rewrite HD. reflexivity. }
  assert (Hks : ks = []).
  { assert (t = 28 \/ t = 32 \/ t = 30 \/ t = 26 \/ t = 27) as Ht by lia.
    destruct Ht as [-> | [-> | [-> | [-> | -> ]]]]; cbn in Har; destruct ks; try reflexivity; discriminate. }
  subst ks.
  assert (t = 28 \/ t = 32 \/ t = 30 \/ t = 26 \/ t = 27) as Ht by lia.
  destruct Ht as [Et|[Et|[Et|[Et|Et]]]].
  - rewrite (tr_capture sid sub k) by (unfold sub; cbn [n_t n_kids]; unfold T_Capture; auto). rewrite fd_den_capture, HD. reflexivity.
  - rewrite (tr_atomic sid sub k) by (unfold sub; cbn [n_t n_kids]; unfold T_Atomic; auto). rewrite fd_den_atomic, HD. reflexivity.
  - rewrite (tr_poslook sid sub k) by (unfold sub; cbn [n_t n_kids]; unfold T_PosLook; auto). rewrite fd_den_poslook, HD. reflexivity.
  - rewrite (tr_loop sid sub k) by (unfold sub; cbn [n_t n_kids]; unfold T_Loop; auto). rewrite fd_den_loop. cbn [n_m sub].
    replace (m =? 0) with false by lia. rewrite HD. reflexivity.
  - rewrite (tr_lazyloop sid sub k) by (unfold sub; cbn [n_t n_kids]; unfold T_Lazyloop; auto). rewrite fd_den_loop. cbn [n_m sub].
    replace (m =? 0) with false by lia. rewrite HD. reflexivity.
Qed.

Theorem cbma_noiter_dead : forall f n sub c al seen,
  fo_cbma cat_in isw isew f strict n sub c false al seen = Ok true -> node_ok n -> node_ok sub ->
  forall a, NQ n a -> den (tr sub) a = [].
Proof.
  induction f as [|f IHf]; intros n sub c al seen H Hn Hsub; [discriminate|].
  rewrite fo_cbma_S in H. destruct (fo_descend sub c) as [s ctx1] eqn:Ed.
  destruct (descend_dead n sub c s ctx1 Ed Hsub) as (Hs & HD).
  destruct (negb (n_o n =? n_o s)) eqn:Eo; [discriminate|].
  destruct (useRTL (n_o n)) eqn:Er; [discriminate|].
  assert (Hoeq : n_o n = n_o s) by lia.
  assert (Hltr : ltr (n_o n)) by exact Er.
  cbv zeta in H. apply HD. clear HD.
  destruct ((n_t s =? T_Alternate) || (n_t s =? T_ExprCond) && (zlen (n_kids s) =? 3)) eqn:Ealt.
  - assert (Hbr : forall ks, Forall node_ok ks ->
              fo_branches (fun k ks' => fo_cbma cat_in isw isew f strict n k (mkF (n_t s) false true ks' :: ctx1) false false seen) ks = Ok true ->
              forall k, In k ks -> forall a, NQ n a -> den (tr k) a = []).
    { induction ks as [|k ks IHks]; intros Hks Hb k0 Hin; [destruct Hin|].
      inversion Hks as [|? ? Hk Hks']; subst. cbn [fo_branches] in Hb.
      destruct (fo_cbma cat_in isw isew f strict n k (mkF (n_t s) false true ks :: ctx1) false false seen) as [b| | |] eqn:Ek;
        cbn [bind] in Hb; try discriminate.
      destruct b; [|discriminate]. destruct Hin as [<-|Hin]; [exact (IHf _ _ _ _ _ Ek Hn Hk) | exact (IHks Hks' Hb k0 Hin)]. }
    assert (Hkids : Forall node_ok (n_kids s)).
    { rewrite Forall_forall. intros k Hk. exact (node_ok_kid s k Hs Hk). }
    specialize (Hbr _ Hkids H). intros a Ha.
    destruct (n_t s =? T_Alternate) eqn:Ea.
    + rewrite (tr_alt sid s) by (unfold T_Alternate in *; lia). rewrite fd_den_alt, flat_map_concat_map, map_map, <- flat_map_concat_map.
      apply flat_map_all_nil. intros k Hk. exact (Hbr k Hk a Ha).
    + assert (Et : n_t s = T_ExprCond) by (unfold T_Alternate, T_ExprCond in *; lia).
      assert (Hk3 : exists c0 y0 n0, n_kids s = [c0; y0; n0]).
      { assert (zlen (n_kids s) = 3) as Hl by lia. unfold zlen in Hl.
        destruct (n_kids s) as [|c0 [|y0 [|n0 [|? ?]]]]; cbn [length] in Hl; try lia. exists c0, y0, n0. reflexivity. }
      destruct Hk3 as (c0 & y0 & n0 & Ek). rewrite Ek in Hbr.
      rewrite (tr_expr_cond sid s c0 y0 n0 Et Ek), fd_den_expr_cond.
      rewrite (Hbr c0 (or_introl eq_refl) a Ha). cbn [den_opt].
      exact (Hbr n0 (or_intror (or_intror (or_introl eq_refl))) a Ha).
  - destruct (fo_verdict cat_in isw isew n s al) as [v| | |] eqn:Ev; cbn [bind] in H; try discriminate.
    destruct (verdict_sound cat_in isw isew sid e sets Henv n s (proj1 Hn) (proj1 Hs) (proj2 Hn) (proj2 Hs) Hoeq Hltr al v Ev) as [Hv1 _].
    destruct (v =? 1) eqn:E1; [apply Hv1; lia|].
    destruct (v =? 0) eqn:E0; [discriminate|]. cbn [negb] in H. discriminate.
Qed.

End Walk.
