(* Proofs about Model/Parser.v, part 10: every tree the parser builds satisfies the hypotheses of the compile and
   termination theorems.

   [to_node sid]: the parser's RegexNode (Model/Parser.v rnode) as the writer's tree (Model/Tree.v node), through
   Tree.build -- the very function that decodes the harness' tree export -- with set ids chosen by [sid]
   (the harness interns the sets by content; nothing here depends on the choice).

   wfb (Proofs/ParserOkTree.v) -> the conversion succeeds, and the converted tree is supported2, term_ok,
   every group number of a Capture / Ref / BackRefCond satisfies the membership predicate (ren_ok), and dirb
   becomes tm_dir_ok.  With Proofs/ParserOkMain.v (every option word) and Proofs/ParserOkAgree.v (group numbers;
   not ECMAScript) this gives the facts about parsed trees. *)
From Coq Require Import ZifyBool.
From Verif Require Import Base.Prelude Base.Wire Gen.ParseLitGen Model.Escape Model.ParseLit Model.GroupMap Model.CharClass
  Model.Parser Model.Tree Model.Spec Model.VM Model.Writer
  Proofs.ParseLitProofs Proofs.GMBase Proofs.ParserScan Proofs.ParserTree Proofs.ParserMain Proofs.ParserPre Proofs.ParserProofs
  Proofs.SpecProofs Proofs.SpecBoundsProofs Proofs.MaskProofs Proofs.SpecTermProofs
  Proofs.CompileDefs Proofs.CompileBalDefs Proofs.CompileCapmap
  Proofs.ParserOkTree Proofs.ParserOkMain Proofs.ParserOkPre Proofs.ParserOkAgree.

(* ---------------------------------------------------------------- the conversion *)
Section Conv.
Variable sid : cls -> Z.

Definition rhead (t o ch m n : Z) (str : list Z) (st : option cls) (nk : Z) : rawhead :=
  {| rh_t := t; rh_o := o; rh_ch := ch; rh_m := m; rh_n := n; rh_str := str;
     rh_set := match st with Some c => sid c | None => 0 end; rh_nc := nk |}.

Fixpoint to_node (x : rnode) : option node :=
  let 'RN t o ch m n str st kids := x in
  match (fix go (ks : list rnode) : option (list node) :=
           match ks with
           | [] => Some []
           | k :: r => match to_node k, go r with Some a, Some b => Some (a :: b) | _, _ => None end
           end) kids with
  | Some ch' => build (rhead t o ch m n str st (zlen kids)) ch'
  | None => None
  end.

Fixpoint to_nodes (ks : list rnode) : option (list node) :=
  match ks with
  | [] => Some []
  | k :: r => match to_node k, to_nodes r with Some a, Some b => Some (a :: b) | _, _ => None end
  end.

Lemma to_node_eq t o ch m n str st kids :
  to_node (RN t o ch m n str st kids) =
  match to_nodes kids with Some ch' => build (rhead t o ch m n str st (zlen kids)) ch' | None => None end.
Proof.
  cbn [to_node].
  assert (H : (fix go (ks : list rnode) : option (list node) :=
           match ks with
           | [] => Some []
           | k :: r => match to_node k, go r with Some a, Some b => Some (a :: b) | _, _ => None end
           end) kids = to_nodes kids).
  { induction kids as [|k r IH]; [reflexivity|]. cbn [to_nodes]. rewrite <- IH. reflexivity. }
  rewrite H. reflexivity.
Qed.

(* ---------------------------------------------------------------- what the kinds are *)
Lemma kcls_inv t :
  match kcls t with
  | KCharLoop => t = 3 \/ t = 4 \/ t = 5 \/ t = 6 \/ t = 7 \/ t = 8 \/ t = 43 \/ t = 44 \/ t = 45
  | KLeaf => t = 9 \/ t = 10 \/ t = 11 \/ t = 12 \/ t = 13 \/ t = 22 \/ t = 23 \/ 14 <= t <= 21 \/ t = 41 \/ t = 42
  | KConcat => t = 25
  | KAlt => t = 24
  | KLoop => t = 26 \/ t = 27
  | KUnary => t = 28 \/ t = 29 \/ t = 30 \/ t = 31 \/ t = 32
  | KBref => t = 33
  | KEcond => t = 34
  | KBad => True
  end.
Proof.
  unfold kcls, is_charloop, is_leaf0, is_char1, is_anchor_t, is_loop_t, is_unary1,
    is_oneloop_family, is_notoneloop_family, is_setloop_family,
    T_Oneloop, T_Notoneloop, T_Setloop, T_Onelazy, T_Notonelazy, T_Setlazy, T_One, T_Notone, T_Set, T_Multi, T_Ref,
    T_Nothing, T_Empty, T_Alternate, T_Concatenate, T_Loop, T_Lazyloop, T_Capture, T_Group, T_PosLook, T_NegLook, T_Atomic,
    T_BackRefCond, T_ExprCond, T_Oneloopatomic, T_Notoneloopatomic, T_Setloopatomic.
  repeat match goal with |- context [if ?b then _ else _] => destruct b eqn:? end; try exact I; lia.
Qed.

Lemma rtl_same o : is_rtl o = useRTL o.
Proof. reflexivity. Qed.

Section Main.
Variable capin : Z -> bool.

Definition okn (t : node) : Prop :=
  supported2 t = true /\ term_ok t = true /\ ren_ok (fun g => capin g = true) t.
Definition dirn (x : rnode) (t : node) : Prop := forall d, dirb d x = true -> tm_dir_ok d t = true.

Definition conv_ok (x : rnode) : Prop := exists t, to_node x = Some t /\ okn t /\ dirn x t.

Lemma to_nodes_ok kids : Forall (fun k => wfb capin k = true -> conv_ok k) kids -> forallb (wfb capin) kids = true ->
  exists l, to_nodes kids = Some l /\ length l = length kids /\ Forall okn l /\
            (forall d, forallb (dirb d) kids = true -> forallb (tm_dir_ok d) l = true) /\
            Forall2 (fun k t => dirn k t) kids l.
Proof.
  induction 1 as [|k r Hk Hr IH]; intros W.
  - exists []. repeat split; auto.
  - cbn [forallb] in W. apply andb_prop in W. destruct W as [Wk Wr].
    destruct (Hk Wk) as [t [E1 [O1 D1]]]. destruct (IH Wr) as [l [E2 [L2 [O2 [D2 F2]]]]].
    exists (t :: l). cbn [to_nodes]. rewrite E1, E2. repeat split; auto.
    + cbn. lia.
    + intros d H. cbn [forallb] in H |- *. apply andb_prop in H. destruct H as [H1 H2]. rewrite (D1 d H1), (D2 d H2). reflexivity.
Qed.

Lemma supported2_list_forall l : Forall okn l -> supported2_list l = true /\ forallb term_ok l = true /\
  sb_all_list (ren_ok_node (fun g => capin g = true)) l.
Proof.
  induction 1 as [|t l [S [T R]] H IH]; [repeat split; reflexivity|]. destruct IH as [I1 [I2 I3]].
  split; [unfold supported2_list in *; cbn; rewrite S; exact I1|]. split; [cbn; rewrite T, I2; reflexivity|].
  split; [exact R | exact I3].
Qed.


Lemma bounds_sup m n : bounds_ok m n = true -> (0 <=? m) && (m <=? n) && (n <=? INF) = true.
Proof. unfold bounds_ok, pp_inf, INF. auto. Qed.

Ltac okleaf := split; [reflexivity|]; split; [reflexivity|]; cbn; auto.

(* a childless node *)
Lemma conv_nokids t o ch m n str st :
  wfb capin (RN t o ch m n str st []) = true -> (kcls t = KCharLoop \/ kcls t = KLeaf) -> conv_ok (RN t o ch m n str st []).
Proof.
  intros W K. apply wf_iff in W. destruct W as [KN _]. unfold knd in KN.
  pose proof (kcls_inv t) as INV. unfold conv_ok. rewrite to_node_eq. cbn [to_nodes].
  destruct K as [K|K]; rewrite K in KN, INV.
  - cbn [nokids andb] in KN. pose proof (bounds_sup _ _ KN) as BS.
    assert (T0 : (0 <=? m) = true) by (unfold bounds_ok in KN; lia).
    destruct INV as [-> | [-> | [-> | [-> | [-> | [-> | [-> | [-> | ->]]]]]]]]; cbn [build rhead rh_t rh_o rh_ch rh_m rh_n rh_set Z.eqb Pos.eqb];
      (eexists; split; [reflexivity|]; split;
       [split; [exact BS|]; split; [exact T0|]; cbn; auto
       | intros d Hd; rewrite dirb_leaf in Hd; cbn in Hd; exact Hd]).
  - cbn [nokids andb] in KN.
    destruct INV as [-> | [-> | [-> | [-> | [-> | [-> | [-> | [A | [-> | ->]]]]]]]]].
    + eexists. split; [reflexivity|]. split; [okleaf | intros d Hd; rewrite dirb_leaf in Hd; exact Hd].
    + eexists. split; [reflexivity|]. split; [okleaf | intros d Hd; rewrite dirb_leaf in Hd; exact Hd].
    + eexists. split; [reflexivity|]. split; [okleaf | intros d Hd; rewrite dirb_leaf in Hd; exact Hd].
    + eexists. split; [reflexivity|]. split; [okleaf | intros d Hd; rewrite dirb_leaf in Hd; exact Hd].
    + eexists. split; [reflexivity|]. split; [|intros d Hd; rewrite dirb_leaf in Hd; exact Hd].
      split; [reflexivity|]. split; [reflexivity|]. cbn. split; [|exact I]. cbn in KN. unfold gq in KN. cbn in KN. exact KN.
    + eexists. split; [reflexivity|]. split; [okleaf | intros d _; reflexivity].
    + eexists. split; [reflexivity|]. split; [okleaf | intros d _; reflexivity].
    + assert (T : t = 14 \/ t = 15 \/ t = 16 \/ t = 17 \/ t = 18 \/ t = 19 \/ t = 20 \/ t = 21) by lia.
      destruct T as [-> | [-> | [-> | [-> | [-> | [-> | [-> | ->]]]]]]];
        (eexists; split; [reflexivity|]; split; [okleaf | intros d _; reflexivity]).
    + eexists. split; [reflexivity|]. split; [okleaf | intros d _; reflexivity].
    + eexists. split; [reflexivity|]. split; [okleaf | intros d _; reflexivity].
Qed.


Lemma build_list t o ch m n str st nk l : (t = 24 \/ t = 25) ->
  build (rhead t o ch m n str st nk) l = Some (if t =? 25 then NConcat o l else NAlternate o l).
Proof. intros [-> | ->]; destruct l; reflexivity. Qed.

Lemma dirb_kids_list d t o ch m n str st kids : (t = 24 \/ t = 25) -> dirb d (RN t o ch m n str st kids) = forallb (dirb d) kids.
Proof. intros [-> | ->]; rewrite dirb_eq; reflexivity. Qed.

Theorem wf_conv : forall x, wfb capin x = true -> conv_ok x.
Proof.
  induction x as [t o ch m n str st kids IH] using rnode_ind'. intros W.
  pose proof W as W0. apply wf_iff in W. destruct W as [KN WK]. unfold wfl in WK.
  destruct (to_nodes_ok kids IH WK) as [l [EL [LL [OL [DL FL]]]]].
  destruct (supported2_list_forall l OL) as [SL [TL RL]].
  pose proof (kcls_inv t) as INV. unfold knd in KN.
  destruct (kcls t) eqn:K.
  - (* single-character loop *)
    destruct kids; [|cbn in KN; discriminate]. apply conv_nokids; auto.
  - destruct kids; [|cbn in KN; discriminate]. apply conv_nokids; auto.
  - (* Concatenate *)
    subst t. unfold conv_ok. rewrite to_node_eq, EL, build_list by auto. cbn [Z.eqb Pos.eqb].
    eexists. split; [reflexivity|]. split.
    + split; [exact SL|]. split; [exact TL|]. split; [exact I | exact RL].
    + intros d Hd. rewrite dirb_kids_list in Hd by auto. cbn [tm_dir_ok]. apply DL. exact Hd.
  - (* Alternate *)
    subst t. unfold conv_ok. rewrite to_node_eq, EL, build_list by auto. cbn [Z.eqb Pos.eqb].
    eexists. split; [reflexivity|]. split.
    + split.
      * cbn [supported2]. fold (supported2_list l). rewrite SL, andb_true_r.
        destruct l; [|reflexivity]. destruct kids; [cbn in KN; discriminate | discriminate].
      * split; [exact TL|]. split; [exact I | exact RL].
    + intros d Hd. rewrite dirb_kids_list in Hd by auto. cbn [tm_dir_ok]. apply DL. exact Hd.
  - (* Loop / Lazyloop *)
    destruct kids as [|k [|k2 r]]; try discriminate. apply andb_prop in KN. destruct KN as [B DK].
    destruct l as [|tk [|t2 l']]; try discriminate. inversion OL as [|? ? [S1 [T1 R1]] _]; subst.
    inversion FL as [|? ? ? ? D1 _]; subst.
    assert (BS : (0 <=? m) && (n <=? INF) = true) by (unfold bounds_ok, pp_inf, INF in *; lia).
    assert (DT : (tm_dir_ok false tk || tm_dir_ok true tk) = true).
    { apply orb_true_iff in DK. destruct DK as [DK|DK]; [rewrite (D1 _ DK); reflexivity | rewrite (D1 _ DK); apply orb_true_r]. }
    unfold conv_ok. rewrite to_node_eq, EL.
    destruct INV as [-> | ->]; cbn [build rhead rh_t rh_o rh_ch rh_m rh_n rh_set Z.eqb Pos.eqb];
      (eexists; split; [reflexivity|]; split;
       [split; [cbn [supported2]; rewrite BS, S1; reflexivity|]; split; [cbn [term_ok]; rewrite DT, T1; reflexivity|]; cbn; auto
       | intros d Hd; rewrite loop_kid_dir in Hd by reflexivity; cbn [tm_dir_ok]; apply D1; exact Hd]).
  - (* one-child kinds *)
    destruct kids as [|k [|k2 r]]; try discriminate.
    destruct l as [|tk [|t2 l']]; try discriminate. inversion OL as [|? ? [S1 [T1 R1]] _]; subst.
    inversion FL as [|? ? ? ? D1 _]; subst.
    unfold conv_ok. rewrite to_node_eq, EL.
    destruct INV as [-> | [-> | [-> | [-> | ->]]]]; cbn [build rhead rh_t rh_o rh_ch rh_m rh_n rh_set Z.eqb Pos.eqb].
    + (* Capture *)
      eexists. split; [reflexivity|]. split.
      * split; [exact S1|]. split; [exact T1|]. cbn. split; [|exact R1].
        cbn in KN. unfold gq in KN. cbn in KN. destruct (n =? -1); [exact KN|].
        apply andb_prop in KN. destruct KN as [K1 K2]. split; [exact K1|].
        apply orb_true_iff in K2. destruct K2 as [K2|K2]; [left; lia | right; exact K2].
      * intros d Hd. rewrite dirb_unary in Hd by reflexivity. cbn [tm_dir_ok]. apply D1. exact Hd.
    + eexists. split; [reflexivity|]. split; [split; [exact S1|]; split; [exact T1|]; cbn; auto|].
      intros d Hd. rewrite dirb_unary in Hd by reflexivity. cbn [tm_dir_ok]. apply D1. exact Hd.
    + eexists. split; [reflexivity|]. split; [split; [exact S1|]; split; [exact T1|]; cbn; auto | intros d _; reflexivity].
    + eexists. split; [reflexivity|]. split; [split; [exact S1|]; split; [exact T1|]; cbn; auto | intros d _; reflexivity].
    + eexists. split; [reflexivity|]. split; [split; [exact S1|]; split; [exact T1|]; cbn; auto|].
      intros d Hd. rewrite dirb_unary in Hd by reflexivity. cbn [tm_dir_ok]. apply D1. exact Hd.
  - (* back-reference conditional *)
    subst t. unfold conv_ok. rewrite to_node_eq, EL.
    destruct kids as [|k [|k2 [|k3 r]]]; try discriminate; destruct l as [|ta [|tb' [|tc l']]]; try discriminate.
    + inversion OL as [|? ? [S1 [T1 R1]] _]; subst. inversion FL as [|? ? ? ? D1 _]; subst.
      eexists. split; [reflexivity|]. split.
      * split; [cbn; rewrite S1; reflexivity|]. split; [cbn; rewrite T1; reflexivity|]. cbn. cbn in KN. unfold gq in KN. cbn in KN. auto.
      * intros d Hd. rewrite dirb_bref in Hd. cbn [forallb] in Hd. rewrite andb_true_r in Hd. cbn. rewrite (D1 _ Hd). reflexivity.
    + inversion OL as [|? ? [S1 [T1 R1]] OL2]; subst. inversion OL2 as [|? ? [S2 [T2 R2]] _]; subst.
      inversion FL as [|? ? ? ? D1 FL2]; subst. inversion FL2 as [|? ? ? ? D2 _]; subst.
      eexists. split; [reflexivity|]. split.
      * split; [cbn; rewrite S1, S2; reflexivity|]. split; [cbn; rewrite T1, T2; reflexivity|]. cbn. cbn in KN. unfold gq in KN. cbn in KN. auto.
      * intros d Hd. rewrite dirb_bref in Hd. cbn [forallb] in Hd. rewrite andb_true_r in Hd. apply andb_prop in Hd. destruct Hd as [H1 H2].
        cbn. rewrite (D1 _ H1), (D2 _ H2). reflexivity.
  - (* expression conditional *)
    subst t. unfold conv_ok. rewrite to_node_eq, EL.
    destruct kids as [|k [|k2 [|k3 [|k4 r]]]]; try discriminate; destruct l as [|ta [|tb' [|tc [|td l']]]]; try discriminate.
    + inversion OL as [|? ? [S1 [T1 R1]] OL2]; subst. inversion OL2 as [|? ? [S2 [T2 R2]] _]; subst.
      inversion FL as [|? ? ? ? D1 FL2]; subst. inversion FL2 as [|? ? ? ? D2 _]; subst.
      eexists. split; [reflexivity|]. split.
      * split; [cbn; rewrite S1, S2; reflexivity|]. split; [cbn; rewrite T1, T2; reflexivity|]. cbn. auto.
      * intros d Hd. rewrite dirb_econd in Hd. cbn [tl forallb] in Hd. rewrite andb_true_r in Hd. cbn. rewrite (D2 _ Hd). reflexivity.
    + inversion OL as [|? ? [S1 [T1 R1]] OL2]; subst. inversion OL2 as [|? ? [S2 [T2 R2]] OL3]; subst. inversion OL3 as [|? ? [S3 [T3 R3]] _]; subst.
      inversion FL as [|? ? ? ? D1 FL2]; subst. inversion FL2 as [|? ? ? ? D2 FL3]; subst. inversion FL3 as [|? ? ? ? D3 _]; subst.
      eexists. split; [reflexivity|]. split.
      * split; [cbn; rewrite S1, S2, S3; reflexivity|]. split; [cbn; rewrite T1, T2, T3; reflexivity|]. cbn. auto 10.
      * intros d Hd. rewrite dirb_econd in Hd. cbn [tl forallb] in Hd. rewrite andb_true_r in Hd. apply andb_prop in Hd. destruct Hd as [H2 H3].
        cbn. rewrite (D2 _ H2), (D3 _ H3). reflexivity.
  - discriminate.
Qed.

End Main.
End Conv.

(* ================================================================ parsed trees *)
Section Parsed.
Variable is_word_char : Z -> bool.
Variable to_lower : Z -> Z.
Variable simple_fold : Z -> Z.
Variable participates : Z -> bool.
Variable cat_in : Z -> Z -> bool.
Variable cat_name : list Z -> Z.

Local Notation parse := (parse is_word_char to_lower simple_fold participates cat_in cat_name).

(* the root of the converted tree *)
Lemma root_conv sid capin t : n_t t = T_Capture -> n_m t = 0 -> n_n t = -1 -> forall root,
  wfb capin t = true -> to_node sid t = Some root -> exists body, root = NCapture (n_o t) 0 (-1) body.
Proof.
  destruct t as [t o ch m n str st kids]. cbn [n_t n_m n_n n_o]. intros -> -> -> root W E.
  apply wf_iff in W. destruct W as [KN _]. unfold knd in KN. cbn in KN.
  destruct kids as [|k [|k2 r]]; try discriminate.
  rewrite to_node_eq in E. cbn [to_nodes] in E. destruct (to_node sid k) as [tk|]; [|discriminate].
  cbn in E. inversion E; subst. eexists. reflexivity.
Qed.

(* (a), (b): every option word, every oracle *)
Theorem parsed_tree_supported_term o mco_flag p t caps captop :
  parse o mco_flag p = Ok (PR_Tree t caps captop) ->
  forall sid, exists body,
    to_node sid t = Some (NCapture (n_o t) 0 (-1) body) /\
    supported2 (NCapture (n_o t) 0 (-1) body) = true /\ term_ok (NCapture (n_o t) 0 (-1) body) = true.
Proof.
  intros E sid.
  pose proof (parse_tree_shape is_word_char to_lower simple_fold participates cat_in cat_name o mco_flag p t caps captop E) as W.
  destruct (parse_tree_root is_word_char to_lower simple_fold participates cat_in cat_name o mco_flag p t caps captop E) as [R1 [R2 R3]].
  destruct (wf_conv sid (fun _ => true) t W) as [root [ER [[S [T _]] _]]].
  destruct (root_conv sid (fun _ => true) t R1 R2 R3 root W ER) as [body ->].
  exists body. auto.
Qed.

(* (c): not ECMAScript; the word-character oracle agrees with the ASCII table on a dozen characters;
   Captop below MaxInt32 *)
Theorem parsed_tree_groups o mco_flag p t caps captop :
  (forall c, is_word_char c = true -> negb (zmem c [33; 35; 39; 40; 41; 45; 60; 61; 62; 63; 91; 92]) = true) ->
  (forall c, (49 <=? c) && (c <=? 57) = true -> is_word_char c = true) ->
  useE o = false -> captop < maxint32 ->
  parse o mco_flag p = Ok (PR_Tree t caps captop) ->
  forall sid, exists body,
    to_node sid t = Some (NCapture (n_o t) 0 (-1) body) /\
    supported2 (NCapture (n_o t) 0 (-1) body) = true /\ term_ok (NCapture (n_o t) 0 (-1) body) = true /\
    ren_ok (fun g => zmem g caps = true) (NCapture (n_o t) 0 (-1) body).
Proof.
  intros HW HD HE HT E sid.
  pose proof (parse_tree_wf is_word_char to_lower simple_fold participates cat_in cat_name HW HD o mco_flag p t caps captop HE HT E) as W.
  destruct (parse_tree_root is_word_char to_lower simple_fold participates cat_in cat_name o mco_flag p t caps captop E) as [R1 [R2 R3]].
  destruct (wf_conv sid (fun k => zmem k caps) t W) as [root [ER [[S [T R]] _]]].
  destruct (root_conv sid (fun k => zmem k caps) t R1 R2 R3 root W ER) as [body ->].
  exists body. auto.
Qed.

(* the capture table: Parse hands Caps and Captop on; the keys are sorted, hold 0, lie below Captop *)
Theorem parsed_caps_table o mco_flag p t caps captop :
  parse o mco_flag p = Ok (PR_Tree t caps captop) ->
  ssorted caps /\ In 0 caps /\ (forall k, In k caps -> 0 <= k) /\ (captop < maxint32 -> forall k, In k caps -> k < captop).
Proof.
  intros E. unfold Parser.parse in E.
  destruct (negb pl_bounds_ok); [discriminate|].
  destruct (negb (forallb (fun c => 0 <=? c) p)); [discriminate|].
  set (mco := mco_flag || useE o || useRE2 o) in *.
  destruct (count_captures is_word_char to_lower simple_fold cat_in cat_name mco o p) as [tb|e q| | |] eqn:EC; cbn [pbind] in E; try discriminate.
  destruct (scan_regex is_word_char to_lower simple_fold participates cat_in cat_name (captab_main tb) mco o p) as [t0|e q| | |];
    cbn [pbind] in E; try discriminate.
  inversion E; subst.
  destruct (count_captures_table is_word_char to_lower simple_fold participates cat_in cat_name mco o p tb EC) as [[TS TZ TN TB TL TV] _].
  auto.
Qed.

End Parsed.
