(* Proofs about Model/Parser.v, part 10: every tree the parser builds satisfies the hypotheses of the compile and
   termination theorems.

   [to_node sid]: the parser's RegexNode (Model/Parser.v rnode) as the writer's tree (Model/Tree.v node), through
   Tree.build -- the very function that decodes the harness' tree export -- with set ids chosen by [sid]
   (the harness interns the sets by content; nothing here depends on the choice).

   wfb (Proofs/ParserOkTree.v) -> the conversion succeeds, and the converted tree is supported2, term_ok,
   every group number of a Capture / Ref / BackRefCond satisfies the membership predicate (ren_ok), and dirb
   becomes tm_dir_ok.  With Proofs/ParserOkMain.v (shape) and Proofs/ParserOkAgree.v (group numbers), both for every
   option word, this gives the facts about parsed trees. *)
From Coq Require Import ZifyBool.
From Verif Require Import Base.Prelude Base.Wire Gen.ParseLitGen Model.Escape Model.ParseLit Model.GroupMap Model.CharClass
  Model.Parser Model.Tree Model.Spec Model.VM Model.Writer
  Proofs.ParseLitProofs Proofs.GMBase Proofs.ParserScan Proofs.ParserTree Proofs.ParserMain Proofs.ParserPre Proofs.ParserProofs
  Proofs.SpecProofs Proofs.SpecBoundsProofs Proofs.MaskProofs Proofs.SpecTermProofs
  Proofs.CompileDefs Proofs.CompileBalDefs Proofs.CompileCapmap
  Proofs.ParserOkTree Proofs.ParserOkMain Proofs.ParserOkPre Proofs.ParserOkAgree.

(* ---------------------------------------------------------------- the conversion *)
Section Conv.
Variable sid : cls -> Z.

Definition rhead (t o ch m n : Z) (str : list Z) (st : option cls) (nk : Z) : rawhead :=
  {| rh_t := t; rh_o := o; rh_ch := ch; rh_m := m; rh_n := n; rh_str := str;
     rh_set := match st with Some c => sid c | None => 0 end; rh_nc := nk |}.

Fixpoint to_node (x : rnode) : option node :=
  let 'RN t o ch m n str st kids := x in
  match (fix go (ks : list rnode) : option (list node) :=
           match ks with
           | [] => Some []
           | k :: r => match to_node k, go r with Some a, Some b => Some (a :: b) | _, _ => None end
           end) kids with
  | Some ch' => build (rhead t o ch m n str st (zlen kids)) ch'
  | None => None
  end.

Fixpoint to_nodes (ks : list rnode) : option (list node) :=
  match ks with
  | [] => Some []
  | k :: r => match to_node k, to_nodes r with Some a, Some b => Some (a :: b) | _, _ => None end
  end.

Lemma to_node_eq t o ch m n str st kids :
  to_node (RN t o ch m n str st kids) =
  match to_nodes kids with Some ch' => build (rhead t o ch m n str st (zlen kids)) ch' | None => None end.
Proof.
  cbn [to_node].
  assert (H : (fix go (ks : list rnode) : option (list node) :=
           match ks with
           | [] => Some []
           | k :: r => match to_node k, go r with Some a, Some b => Some (a :: b) | _, _ => None end
           end) kids = to_nodes kids).
  { induction kids as [|k r IH]; [reflexivity|]. cbn [to_nodes]. rewrite <- IH. reflexivity. }
  rewrite H. reflexivity.
Qed.

(* ---------------------------------------------------------------- what the kinds are *)
Lemma kcls_inv t :
  match kcls t with
  | KCharLoop => t = 3 \/ t = 4 \/ t = 5 \/ t = 6 \/ t = 7 \/ t = 8 \/ t = 43 \/ t = 44 \/ t = 45
  | KLeaf => t = 9 \/ t = 10 \/ t = 11 \/ t = 12 \/ t = 13 \/ t = 22 \/ t = 23 \/ 14 <= t <= 21 \/ t = 41 \/ t = 42
  | KConcat => t = 25
  | KAlt => t = 24
  | KLoop => t = 26 \/ t = 27
  | KUnary => t = 28 \/ t = 29 \/ t = 30 \/ t = 31 \/ t = 32
  | KBref => t = 33
  | KEcond => t = 34
  | KBad => True
  end.
Proof.
  unfold kcls, is_charloop, is_leaf0, is_char1, is_anchor_t, is_loop_t, is_unary1,
    is_oneloop_family, is_notoneloop_family, is_setloop_family,
    T_Oneloop, T_Notoneloop, T_Setloop, T_Onelazy, T_Notonelazy, T_Setlazy, T_One, T_Notone, T_Set, T_Multi, T_Ref,
    T_Nothing, T_Empty, T_Alternate, T_Concatenate, T_Loop, T_Lazyloop, T_Capture, T_Group, T_PosLook, T_NegLook, T_Atomic,
    T_BackRefCond, T_ExprCond, T_Oneloopatomic, T_Notoneloopatomic, T_Setloopatomic.
  repeat match goal with |- context [if ?b then _ else _] => destruct b eqn:? end; try exact I; lia.
Qed.

Lemma rtl_same o : is_rtl o = useRTL o.
Proof. reflexivity. Qed.

Section Main.
Variable capin : Z -> bool.

Definition okn (t : node) : Prop :=
  supported2 t = true /\ term_ok t = true /\ ren_ok (fun g => capin g = true) t.
Definition dirn (x : rnode) (t : node) : Prop := forall d, dirb d x = true -> tm_dir_ok d t = true.

Definition conv_ok (x : rnode) : Prop := exists t, to_node x = Some t /\ okn t /\ dirn x t.

Lemma to_nodes_ok kids : Forall (fun k => wfb capin k = true -> conv_ok k) kids -> forallb (wfb capin) kids = true ->
  exists l, to_nodes kids = Some l /\ length l = length kids /\ Forall okn l /\
            (forall d, forallb (dirb d) kids = true -> forallb (tm_dir_ok d) l = true) /\
            Forall2 (fun k t => dirn k t) kids l.
Proof.
  induction 1 as [|k r Hk Hr IH]; intros W.
  - exists []. repeat split; auto.
  - cbn [forallb] in W. apply andb_prop in W. destruct W as [Wk Wr].
    destruct (Hk Wk) as [t [E1 [O1 D1]]]. destruct (IH Wr) as [l [E2 [L2 [O2 [D2 F2]]]]].
    exists (t :: l). cbn [to_nodes]. rewrite E1, E2. repeat split; auto.
    + cbn. lia.
    + intros d H. cbn [forallb] in H |- *. apply andb_prop in H. destruct H as [H1 H2]. rewrite (D1 d H1), (D2 d H2). reflexivity.
Qed.

Lemma supported2_list_forall l : Forall okn l -> supported2_list l = true /\ forallb term_ok l = true /\
  sb_all_list (ren_ok_node (fun g => capin g = true)) l.
Proof.
  induction 1 as [|t l [S [T R]] H IH]; [repeat split; reflexivity|]. destruct IH as [I1 [I2 I3]].
  split; [unfold supported2_list in *; cbn; rewrite S; exact I1|]. split; [cbn; rewrite T, I2; reflexivity|].
  split; [exact R | exact I3].
Qed.


Lemma bounds_sup m n : bounds_ok m n = true -> (0 <=? m) && (m <=? n) && (n <=? INF) = true.
Proof. unfold bounds_ok, pp_inf, INF. auto. Qed.

Ltac okleaf := split; [reflexivity|]; split; [reflexivity|]; cbn; auto.

(* a childless node *)
Lemma conv_nokids t o ch m n str st :
  wfb capin (RN t o ch m n str st []) = true -> (kcls t = KCharLoop \/ kcls t = KLeaf) -> conv_ok (RN t o ch m n str st []).
Proof.
  intros W K. apply wf_iff in W. destruct W as [KN _]. unfold knd in KN.
  pose proof (kcls_inv t) as INV. unfold conv_ok. rewrite to_node_eq. cbn [to_nodes].
  destruct K as [K|K]; rewrite K in KN, INV.
  - cbn [nokids andb] in KN. pose proof (bounds_sup _ _ KN) as BS.
    assert (T0 : (0 <=? m) = true) by (unfold bounds_ok in KN; lia).
    destruct INV as [-> | [-> | [-> | [-> | [-> | [-> | [-> | [-> | ->]]]]]]]]; cbn [build rhead rh_t rh_o rh_ch rh_m rh_n rh_set Z.eqb Pos.eqb];
      (eexists; split; [reflexivity|]; split;
       [split; [exact BS|]; split; [exact T0|]; cbn; auto
       | intros d Hd; rewrite dirb_leaf in Hd; cbn in Hd; exact Hd]).
  - cbn [nokids andb] in KN.
    destruct INV as [-> | [-> | [-> | [-> | [-> | [-> | [-> | [A | [-> | ->]]]]]]]]].
    + eexists. split; [reflexivity|]. split; [okleaf | intros d Hd; rewrite dirb_leaf in Hd; exact Hd].
    + eexists. split; [reflexivity|]. split; [okleaf | intros d Hd; rewrite dirb_leaf in Hd; exact Hd].
    + eexists. split; [reflexivity|]. split; [okleaf | intros d Hd; rewrite dirb_leaf in Hd; exact Hd].
    + eexists. split; [reflexivity|]. split; [okleaf | intros d Hd; rewrite dirb_leaf in Hd; exact Hd].
    + eexists. split; [reflexivity|]. split; [|intros d Hd; rewrite dirb_leaf in Hd; exact Hd].
      split; [reflexivity|]. split; [reflexivity|]. cbn. split; [|exact I]. cbn in KN. unfold gq in KN. cbn in KN. exact KN.
    + eexists. split; [reflexivity|]. split; [okleaf | intros d _; reflexivity].
    + eexists. split; [reflexivity|]. split; [okleaf | intros d _; reflexivity].
    + assert (T : t = 14 \/ t = 15 \/ t = 16 \/ t = 17 \/ t = 18 \/ t = 19 \/ t = 20 \/ t = 21) by lia.
      destruct T as [-> | [-> | [-> | [-> | [-> | [-> | [-> | ->]]]]]]];
        (eexists; split; [reflexivity|]; split; [okleaf | intros d _; reflexivity]).
    + eexists. split; [reflexivity|]. split; [okleaf | intros d _; reflexivity].
    + eexists. split; [reflexivity|]. split; [okleaf | intros d _; reflexivity].
Qed.


Lemma build_list t o ch m n str st nk l : (t = 24 \/ t = 25) ->
  build (rhead t o ch m n str st nk) l = Some (if t =? 25 then NConcat o l else NAlternate o l).
Proof. intros [-> | ->]; destruct l; reflexivity. Qed.

Lemma dirb_kids_list d t o ch m n str st kids : (t = 24 \/ t = 25) -> dirb d (RN t o ch m n str st kids) = forallb (dirb d) kids.
Proof. intros [-> | ->]; rewrite dirb_eq; reflexivity. Qed.

Theorem wf_conv : forall x, wfb capin x = true -> conv_ok x.
Proof.
  induction x as [t o ch m n str st kids IH] using rnode_ind'. intros W.
  pose proof W as W0. apply wf_iff in W. destruct W as [KN WK]. unfold wfl in WK.
  destruct (to_nodes_ok kids IH WK) as [l [EL [LL [OL [DL FL]]]]].
  destruct (supported2_list_forall l OL) as [SL [TL RL]].
  pose proof (kcls_inv t) as INV. unfold knd in KN.
  destruct (kcls t) eqn:K.
  - (* single-character loop *)
    destruct kids; [|cbn in KN; discriminate]. apply conv_nokids; auto.
  - destruct kids; [|cbn in KN; discriminate]. apply conv_nokids; auto.
  - (* Concatenate *)
    subst t. unfold conv_ok. rewrite to_node_eq, EL, build_list by auto. cbn [Z.eqb Pos.eqb].
    eexists. split; [reflexivity|]. split.
    + split; [exact SL|]. split; [exact TL|]. split; [exact I | exact RL].
    + intros d Hd. rewrite dirb_kids_list in Hd by auto. cbn [tm_dir_ok]. apply DL. exact Hd.
  - (* Alternate *)
    subst t. unfold conv_ok. rewrite to_node_eq, EL, build_list by auto. cbn [Z.eqb Pos.eqb].
    eexists. split; [reflexivity|]. split.
    + split.
      * cbn [supported2]. fold (supported2_list l). rewrite SL, andb_true_r.
        destruct l; [|reflexivity]. destruct kids; [cbn in KN; discriminate | discriminate].
      * split; [exact TL|]. split; [exact I | exact RL].
    + intros d Hd. rewrite dirb_kids_list in Hd by auto. cbn [tm_dir_ok]. apply DL. exact Hd.
  - (* Loop / Lazyloop *)
    destruct kids as [|k [|k2 r]]; try discriminate. apply andb_prop in KN. destruct KN as [B DK].
    destruct l as [|tk [|t2 l']]; try discriminate. inversion OL as [|? ? [S1 [T1 R1]] _]; subst.
    inversion FL as [|? ? ? ? D1 _]; subst.
    assert (BS : (0 <=? m) && (n <=? INF) = true) by (unfold bounds_ok, pp_inf, INF in *; lia).
    assert (DT : (tm_dir_ok false tk || tm_dir_ok true tk) = true).
    { apply orb_true_iff in DK. destruct DK as [DK|DK]; [rewrite (D1 _ DK); reflexivity | rewrite (D1 _ DK); apply orb_true_r]. }
    unfold conv_ok. rewrite to_node_eq, EL.
    destruct INV as [-> | ->]; cbn [build rhead rh_t rh_o rh_ch rh_m rh_n rh_set Z.eqb Pos.eqb];
      (eexists; split; [reflexivity|]; split;
       [split; [cbn [supported2]; rewrite BS, S1; reflexivity|]; split; [cbn [term_ok]; rewrite DT, T1; reflexivity|]; cbn; auto
       | intros d Hd; rewrite loop_kid_dir in Hd by reflexivity; cbn [tm_dir_ok]; apply D1; exact Hd]).
  - (* one-child kinds *)
    destruct kids as [|k [|k2 r]]; try discriminate.
    destruct l as [|tk [|t2 l']]; try discriminate. inversion OL as [|? ? [S1 [T1 R1]] _]; subst.
    inversion FL as [|? ? ? ? D1 _]; subst.
    unfold conv_ok. rewrite to_node_eq, EL.
    destruct INV as [-> | [-> | [-> | [-> | ->]]]]; cbn [build rhead rh_t rh_o rh_ch rh_m rh_n rh_set Z.eqb Pos.eqb].
    + (* Capture *)
      eexists. split; [reflexivity|]. split.
      * split; [exact S1|]. split; [exact T1|]. cbn. split; [|exact R1].
        cbn in KN. unfold gq in KN. cbn in KN. destruct (n =? -1); [exact KN|].
        apply andb_prop in KN. destruct KN as [K1 K2]. split; [exact K1|].
        apply orb_true_iff in K2. destruct K2 as [K2|K2]; [left; lia | right; exact K2].
      * intros d Hd. rewrite dirb_unary in Hd by reflexivity. cbn [tm_dir_ok]. apply D1. exact Hd.
    + eexists. split; [reflexivity|]. split; [split; [exact S1|]; split; [exact T1|]; cbn; auto|].
      intros d Hd. rewrite dirb_unary in Hd by reflexivity. cbn [tm_dir_ok]. apply D1. exact Hd.
    + eexists. split; [reflexivity|]. split; [split; [exact S1|]; split; [exact T1|]; cbn; auto | intros d _; reflexivity].
    + eexists. split; [reflexivity|]. split; [split; [exact S1|]; split; [exact T1|]; cbn; auto | intros d _; reflexivity].
    + eexists. split; [reflexivity|]. split; [split; [exact S1|]; split; [exact T1|]; cbn; auto|].
      intros d Hd. rewrite dirb_unary in Hd by reflexivity. cbn [tm_dir_ok]. apply D1. exact Hd.
  - (* back-reference conditional *)
    subst t. unfold conv_ok. rewrite to_node_eq, EL.
    destruct kids as [|k [|k2 [|k3 r]]]; try discriminate; destruct l as [|ta [|tb' [|tc l']]]; try discriminate.
    + inversion OL as [|? ? [S1 [T1 R1]] _]; subst. inversion FL as [|? ? ? ? D1 _]; subst.
      eexists. split; [reflexivity|]. split.
      * split; [cbn; rewrite S1; reflexivity|]. split; [cbn; rewrite T1; reflexivity|]. cbn. cbn in KN. unfold gq in KN. cbn in KN. auto.
      * intros d Hd. rewrite dirb_bref in Hd. cbn [forallb] in Hd. rewrite andb_true_r in Hd. cbn. rewrite (D1 _ Hd). reflexivity.
    + inversion OL as [|? ? [S1 [T1 R1]] OL2]; subst. inversion OL2 as [|? ? [S2 [T2 R2]] _]; subst.
      inversion FL as [|? ? ? ? D1 FL2]; subst. inversion FL2 as [|? ? ? ? D2 _]; subst.
      eexists. split; [reflexivity|]. split.
      * split; [cbn; rewrite S1, S2; reflexivity|]. split; [cbn; rewrite T1, T2; reflexivity|]. cbn. cbn in KN. unfold gq in KN. cbn in KN. auto.
      * intros d Hd. rewrite dirb_bref in Hd. cbn [forallb] in Hd. rewrite andb_true_r in Hd. apply andb_prop in Hd. destruct Hd as [H1 H2].
        cbn. rewrite (D1 _ H1), (D2 _ H2). reflexivity.
  - (* expression conditional *)
    subst t. unfold conv_ok. rewrite to_node_eq, EL.
    destruct kids as [|k [|k2 [|k3 [|k4 r]]]]; try discriminate; destruct l as [|ta [|tb' [|tc [|td l']]]]; try discriminate.
    + inversion OL as [|? ? [S1 [T1 R1]] OL2]; subst. inversion OL2 as [|? ? [S2 [T2 R2]] _]; subst.
      inversion FL as [|? ? ? ? D1 FL2]; subst. inversion FL2 as [|? ? ? ? D2 _]; subst.
      eexists. split; [reflexivity|]. split.
      * split; [cbn; rewrite S1, S2; reflexivity|]. split; [cbn; rewrite T1, T2; reflexivity|]. cbn. auto.
      * intros d Hd. rewrite dirb_econd in Hd. cbn [tl forallb] in Hd. rewrite andb_true_r in Hd. cbn. rewrite (D2 _ Hd). reflexivity.
    + inversion OL as [|? ? [S1 [T1 R1]] OL2]; subst. inversion OL2 as [|? ? [S2 [T2 R2]] OL3]; subst. inversion OL3 as [|? ? [S3 [T3 R3]] _]; subst.
      inversion FL as [|? ? ? ? D1 FL2]; subst. inversion FL2 as [|? ? ? ? D2 FL3]; subst. inversion FL3 as [|? ? ? ? D3 _]; subst.
      eexists. split; [reflexivity|]. split.
      * split; [cbn; rewrite S1, S2, S3; reflexivity|]. split; [cbn; rewrite T1, T2, T3; reflexivity|]. cbn. auto 10.
      * intros d Hd. rewrite dirb_econd in Hd. cbn [tl forallb] in Hd. rewrite andb_true_r in Hd. apply andb_prop in Hd. destruct Hd as [H2 H3].
        cbn. rewrite (D2 _ H2), (D3 _ H3). reflexivity.
  - discriminate.
Qed.

End Main.
End Conv.

(* ================================================================ parsed trees *)
Section Parsed.
Variable is_word_char : Z -> bool.
Variable to_lower : Z -> Z.
Variable simple_fold : Z -> Z.
Variable participates : Z -> bool.
Variable cat_in : Z -> Z -> bool.
Variable cat_name : list Z -> Z.

Local Notation parse := (parse is_word_char to_lower simple_fold participates cat_in cat_name).

(* the root of the converted tree *)
Lemma root_conv sid capin t : n_t t = T_Capture -> n_m t = 0 -> n_n t = -1 -> forall root,
  wfb capin t = true -> to_node sid t = Some root -> exists body, root = NCapture (n_o t) 0 (-1) body.
Proof.
  destruct t as [t o ch m n str st kids]. cbn [n_t n_m n_n n_o]. intros -> -> -> root W E.
  apply wf_iff in W. destruct W as [KN _]. unfold knd in KN. cbn in KN.
  destruct kids as [|k [|k2 r]]; try discriminate.
  rewrite to_node_eq in E. cbn [to_nodes] in E. destruct (to_node sid k) as [tk|]; [|discriminate].
  cbn in E. inversion E; subst. eexists. reflexivity.
Qed.

(* (a), (b): every option word, every oracle *)
Theorem parsed_tree_supported_term o mco_flag p t caps captop :
  parse o mco_flag p = Ok (PR_Tree t caps captop) ->
  forall sid, exists body,
    to_node sid t = Some (NCapture (n_o t) 0 (-1) body) /\
    supported2 (NCapture (n_o t) 0 (-1) body) = true /\ term_ok (NCapture (n_o t) 0 (-1) body) = true.
Proof.
  intros E sid.
  pose proof (parse_tree_shape is_word_char to_lower simple_fold participates cat_in cat_name o mco_flag p t caps captop E) as W.
  destruct (parse_tree_root is_word_char to_lower simple_fold participates cat_in cat_name o mco_flag p t caps captop E) as [R1 [R2 R3]].
  destruct (wf_conv sid (fun _ => true) t W) as [root [ER [[S [T _]] _]]].
  destruct (root_conv sid (fun _ => true) t R1 R2 R3 root W ER) as [body ->].
  exists body. auto.
Qed.

(* (c), every option word: the word-character oracle agrees with the ASCII table on a dozen characters;
   Captop below MaxInt32 *)
Theorem parsed_tree_groups o mco_flag p t caps captop :
  (forall c, is_word_char c = true -> negb (zmem c [33; 35; 39; 40; 41; 45; 60; 61; 62; 63; 91; 92]) = true) ->
  (forall c, (49 <=? c) && (c <=? 57) = true -> is_word_char c = true) ->
  captop < maxint32 ->
  parse o mco_flag p = Ok (PR_Tree t caps captop) ->
  forall sid, exists body,
    to_node sid t = Some (NCapture (n_o t) 0 (-1) body) /\
    supported2 (NCapture (n_o t) 0 (-1) body) = true /\ term_ok (NCapture (n_o t) 0 (-1) body) = true /\
    ren_ok (fun g => zmem g caps = true) (NCapture (n_o t) 0 (-1) body).
Proof.
  intros HW HD HT E sid.
  pose proof (parse_tree_wf is_word_char to_lower simple_fold participates cat_in cat_name HW HD o mco_flag p t caps captop HT E) as W.
  destruct (parse_tree_root is_word_char to_lower simple_fold participates cat_in cat_name o mco_flag p t caps captop E) as [R1 [R2 R3]].
  destruct (wf_conv sid (fun k => zmem k caps) t W) as [root [ER [[S [T R]] _]]].
  destruct (root_conv sid (fun k => zmem k caps) t R1 R2 R3 root W ER) as [body ->].
  exists body. auto.
Qed.

(* the capture table: Parse hands Caps and Captop on; the keys are sorted, hold 0, lie below Captop *)
Theorem parsed_caps_table o mco_flag p t caps captop :
  parse o mco_flag p = Ok (PR_Tree t caps captop) ->
  ssorted caps /\ In 0 caps /\ (forall k, In k caps -> 0 <= k) /\ (captop < maxint32 -> forall k, In k caps -> k < captop).
Proof.
  intros E. unfold Parser.parse in E.
  destruct (negb pl_bounds_ok); [discriminate|].
  destruct (negb (forallb (fun c => 0 <=? c) p)); [discriminate|].
  set (mco := mco_flag || useE o || useRE2 o) in *.
  destruct (count_captures is_word_char to_lower simple_fold cat_in cat_name mco o p) as [tb|e q| | |] eqn:EC; cbn [pbind] in E; try discriminate.
  destruct (scan_regex is_word_char to_lower simple_fold participates cat_in cat_name (captab_main tb) mco o p) as [t0|e q| | |];
    cbn [pbind] in E; try discriminate.
  inversion E; subst.
  destruct (count_captures_table is_word_char to_lower simple_fold participates cat_in cat_name mco o p tb EC) as [[TS TZ TN TB TL TV] _].
  auto.
Qed.

End Parsed.

(* ================================================================ renaming group numbers keeps the side conditions *)
Lemma forallb_map_ext {A} (f g : A -> bool) (h : A -> A) l :
  Forall (fun x => f (h x) = g x) l -> forallb f (map h l) = forallb g l.
Proof. induction 1 as [|x l Hx _ IH]; [reflexivity|]. cbn. rewrite Hx, IH. reflexivity. Qed.

Lemma ren_dir_ok mc d : forall t, tm_dir_ok d (ren_with mc t) = tm_dir_ok d t.
Proof.
  induction t using node_ind'; cbn [ren_with tm_dir_ok]; try reflexivity; try assumption.
  - apply forallb_map_ext. exact H.
  - apply forallb_map_ext. exact H.
  - rewrite IHt. destruct no as [x|]; cbn [mask_opt_node tm_opt opt_all] in *; [rewrite H|]; reflexivity.
  - rewrite IHt2. destruct no as [x|]; cbn [mask_opt_node tm_opt opt_all] in *; [rewrite H|]; reflexivity.
Qed.

Lemma ren_term_ok mc : forall t, term_ok (ren_with mc t) = term_ok t.
Proof.
  induction t using node_ind'; cbn [ren_with term_ok]; try reflexivity; try assumption.
  - apply forallb_map_ext. exact H.
  - apply forallb_map_ext. exact H.
  - rewrite !ren_dir_ok, IHt. reflexivity.
  - rewrite IHt. destruct no as [x|]; cbn [mask_opt_node tm_opt opt_all] in *; [rewrite H|]; reflexivity.
  - rewrite IHt1, IHt2. destruct no as [x|]; cbn [mask_opt_node tm_opt opt_all] in *; [rewrite H|]; reflexivity.
Qed.

Lemma ren_fuel_list mc tl l : Forall (fun t => term_fuel_n tl (ren_with mc t) = term_fuel_n tl t) l ->
  tm_fuel_list tl (map (ren_with mc) l) = tm_fuel_list tl l.
Proof.
  induction 1 as [|x l Hx _ IH]; [reflexivity|]. cbn [map tm_fuel_list]. fold (tm_fuel_list tl (map (ren_with mc) l)). fold (tm_fuel_list tl l).
  rewrite Hx, IH. reflexivity.
Qed.

Lemma ren_term_fuel mc tl : forall t, term_fuel_n tl (ren_with mc t) = term_fuel_n tl t.
Proof.
  induction t using node_ind'; cbn [ren_with term_fuel_n]; try reflexivity; try (rewrite IHt; reflexivity).
  - fold (tm_fuel_list tl (map (ren_with mc) l)). fold (tm_fuel_list tl l). rewrite (ren_fuel_list mc tl l H). reflexivity.
  - fold (tm_fuel_list tl (map (ren_with mc) l)). fold (tm_fuel_list tl l). rewrite (ren_fuel_list mc tl l H). reflexivity.
  - rewrite IHt. destruct no as [x|]; cbn [mask_opt_node opt_all] in *; [rewrite H|]; reflexivity.
  - rewrite IHt1, IHt2. destruct no as [x|]; cbn [mask_opt_node opt_all] in *; [rewrite H|]; reflexivity.
Qed.

(* every group number in G is sent to a slot *)
Lemma ren_groups_ok (G : Z -> Prop) mc cs : mc (-1) = -1 -> (forall g, G g -> 0 <= mc g < cs) ->
  forall t, ren_ok G t -> groups_ok2 cs (ren_with mc t).
Proof.
  intros M1 MG. unfold ren_ok, groups_ok2.
  induction t using node_ind'; cbn [ren_with sb_all]; intros R; try (split; [exact I | exact I]).
  - destruct R as [R _]. cbn in R. split; [cbn; apply MG; exact R | exact I].
  - destruct R as [_ R]. split; [exact I|]. induction H as [|x l Hx _ IH]; [exact I|]. destruct R as [R1 R2]. cbn [map]. split; [apply Hx; exact R1 | apply IH; exact R2].
  - destruct R as [_ R]. split; [exact I|]. induction H as [|x l Hx _ IH]; [exact I|]. destruct R as [R1 R2]. cbn [map]. split; [apply Hx; exact R1 | apply IH; exact R2].
  - destruct R as [_ R]. split; [exact I | apply IHt; exact R].
  - destruct R as [R0 R]. split; [|apply IHt; exact R]. cbn in R0 |- *.
    destruct (u =? -1) eqn:EU.
    + assert (u = -1) by lia. subst u. rewrite M1. cbn. apply MG. exact R0.
    + destruct R0 as [RU RG]. pose proof (MG u RU) as MU.
      assert (NU : (mc u =? -1) = false) by lia. rewrite NU. split; [exact MU|].
      destruct RG as [-> | RG]; [left; exact M1 | right; apply MG; exact RG].
  - destruct R as [_ R]. split; [exact I | apply IHt; exact R].
  - destruct R as [_ R]. split; [exact I | apply IHt; exact R].
  - destruct R as [_ R]. split; [exact I | apply IHt; exact R].
  - destruct R as [_ R]. split; [exact I | apply IHt; exact R].
  - destruct R as [R0 [R1 R2]]. cbn in R0. split; [cbn; apply MG; exact R0|]. split; [apply IHt; exact R1|].
    destruct no as [x|]; cbn [mask_opt_node opt_all] in *; [apply H; exact R2 | exact I].
  - destruct R as [_ [R1 [R2 R3]]]. split; [exact I|]. split; [apply IHt1; exact R1|]. split; [apply IHt2; exact R2|].
    destruct no as [x|]; cbn [mask_opt_node opt_all] in *; [apply H; exact R3 | exact I].
Qed.

Lemma ren_ok_mono (G G' : Z -> Prop) : (forall g, G g -> G' g) -> forall t, ren_ok G t -> ren_ok G' t.
Proof.
  intros HG. unfold ren_ok.
  induction t using node_ind'; cbn [sb_all]; intros R; try (destruct R as [R0 R]; split; [cbn in *; auto|]; auto).
  - clear R0. induction H as [|x l Hx _ IH]; [exact I|]. destruct R as [R1 R2]. split; [apply Hx; exact R1 | apply IH; exact R2].
  - clear R0. induction H as [|x l Hx _ IH]; [exact I|]. destruct R as [R1 R2]. split; [apply Hx; exact R1 | apply IH; exact R2].
  - cbn in *. destruct (u =? -1); [auto|]. destruct R0 as [A [B|B]]; auto.
  - destruct R as [R1 R2]. split; [auto|]. destruct no as [x|]; cbn [opt_all] in *; auto.
  - destruct R as [R1 [R2 R3]]. split; [auto|]. split; [auto|]. destruct no as [x|]; cbn [opt_all] in *; auto.
Qed.

(* ================================================================ the writer's slot map *)
(* codeFromTree (writer.go:76-87) from RegexTree.Caps / Captop (GroupMap.compile_maps): sparse numbers are mapped to
   their index in the sorted key list, dense numbers are their own slots *)
Definition caps_map (caps : list Z) (captop : Z) : option (list (Z * Z)) :=
  if zlen caps <? captop then Some (List.combine caps (zrange (zlen caps))) else None.
Definition caps_size (caps : list Z) (captop : Z) : Z := if zlen caps <? captop then zlen caps else captop.

Lemma compile_maps_caps tb : tbl_ok tb ->
  r_caps (compile_maps tb) = caps_map (t_caps tb) (t_captop tb) /\ r_capsize (compile_maps tb) = caps_size (t_caps tb) (t_captop tb).
Proof.
  intros [_ _ _ _ TL _]. unfold compile_maps, caps_map, caps_size. rewrite TL.
  destruct (zlen (t_caps tb) <? t_captop tb) eqn:E; [|split; reflexivity].
  assert (N : (t_captop tb =? zlen (t_caps tb)) = false) by lia. rewrite N. split; reflexivity.
Qed.

Lemma nodup_znodupb l : NoDup l -> znodupb l = true.
Proof.
  induction 1 as [|x l Hx _ IH]; [reflexivity|]. cbn [znodupb]. rewrite IH, andb_true_r.
  destruct (zmem x l) eqn:E; [apply zmem_In in E; contradiction | reflexivity].
Qed.

Lemma zrange_nodup n : NoDup (zrange n).
Proof. unfold zrange. apply FinFun.Injective_map_NoDup; [intros x y H; lia | apply seq_NoDup]. Qed.

Lemma combine_fst_snd (l : list Z) : map fst (List.combine l (zrange (zlen l))) = l /\ map snd (List.combine l (zrange (zlen l))) = zrange (zlen l).
Proof.
  assert (L : length l = length (zrange (zlen l))) by (rewrite zrange_length; unfold zlen; lia).
  revert L. generalize (zrange (zlen l)) as r. induction l as [|x l IH]; intros r L; destruct r as [|y r]; try discriminate; [split; reflexivity|].
  cbn [List.combine map fst snd]. cbn [length] in L. destruct (IH r ltac:(lia)) as [A B]. rewrite A, B. split; reflexivity.
Qed.

Section SlotMap.
Variable caps : list Z.
Variable captop : Z.
Hypothesis CS : ssorted caps.
Hypothesis CZ : In 0 caps.
Hypothesis CN : forall k, In k caps -> 0 <= k.
Hypothesis CB : forall k, In k caps -> k < captop.

Local Notation cm := (caps_map caps captop).
Local Notation cc := {| capmap := caps_map caps captop; quick := None |}.

Lemma caps_map_good : cm_good cm = true.
Proof.
  unfold caps_map. destruct (zlen caps <? captop); [|reflexivity]. unfold cm_good.
  destruct (combine_fst_snd caps) as [F S]. rewrite F, S.
  rewrite (nodup_znodupb caps (ssorted_NoDup _ CS)), (nodup_znodupb _ (zrange_nodup (zlen caps))). cbn [andb].
  destruct (zmem (-1) (zrange (zlen caps))) eqn:E; [|reflexivity]. apply zmem_In in E. apply zrange_In in E. lia.
Qed.

Lemma caps_map_zero : map_capnum cc 0 = 0.
Proof.
  unfold map_capnum. cbn [Z.eqb capmap]. unfold caps_map. destruct (zlen caps <? captop); [|reflexivity].
  destruct (sorted_head_zero caps CS CZ CN) as [r ->]. unfold zlen, zrange. cbn [length]. rewrite Nat2Z.id. cbn [seq map List.combine zassoc Z.eqb]. reflexivity.
Qed.

Lemma caps_map_G root : ren_ok (fun g => zmem g caps = true) root -> ren_ok (cm_G cm) root.
Proof.
  apply ren_ok_mono. intros g H. unfold caps_map. destruct (zlen caps <? captop); [|exact I].
  cbn [cm_G]. rewrite (proj1 (combine_fst_snd caps)). apply zmem_In. exact H.
Qed.

Lemma caps_map_slots g : zmem g caps = true -> 0 <= map_capnum cc g < caps_size caps captop.
Proof.
  intros H. apply zmem_In in H. unfold map_capnum, caps_size. pose proof (CN g H) as N. assert (NG : (g =? -1) = false) by lia. rewrite NG.
  cbn [capmap]. unfold caps_map. destruct (zlen caps <? captop) eqn:E.
  - assert (I : In g (map fst (List.combine caps (zrange (zlen caps))))) by (rewrite (proj1 (combine_fst_snd caps)); exact H).
    apply cm_zassoc_in in I. apply (in_map snd) in I. cbn [snd] in I. rewrite (proj2 (combine_fst_snd caps)) in I. apply zrange_In in I. exact I.
  - split; [exact N | apply CB; exact H].
Qed.

Lemma caps_map_groups root : ren_ok (fun g => zmem g caps = true) root -> groups_ok2 (caps_size caps captop) (ren cc root).
Proof. unfold ren. apply ren_groups_ok; [reflexivity | apply caps_map_slots]. Qed.

End SlotMap.

(* ================================================================ from the tree to the interpreter *)
From Verif Require Import Proofs.CompileSafe.

(* the compile + termination theorems applied to a tree with the side conditions of this file *)
Theorem tree_end_to_end (caps : list Z) (captop : Z) (o : Z) (body : node) :
  ssorted caps -> In 0 caps -> (forall k, In k caps -> 0 <= k) -> (forall k, In k caps -> k < captop) ->
  let root := NCapture o 0 (-1) body in
  let cm := caps_map caps captop in
  let c := {| capmap := cm; quick := None |} in
  supported2 root = true -> term_ok root = true -> ren_ok (fun g => zmem g caps = true) root ->
  forall (e : env) (p : program),
    0 <= trackcount p -> track_count (codes p) <= trackcount p -> tlen e <= INF ->
    codes p = fst (compile c root) -> strings p = snd (compile c root) -> capsize p = caps_size caps captop ->
    Z.of_nat (term_fuel e root) <= INF ->
    forall t0, 0 <= t0 <= tlen e ->
    exists r, attempt e (term_fuel e root) root t0 = Ok r /\
    exists vfuel0 : nat, forall L vfuel, (vfuel0 <= vfuel)%nat ->
      let x := exec_at e p L vfuel t0 in
      ((x = Err E_StackLimit /\ 0 <= L) \/
       (exists s', x = Ok s' /\ pc s' = 2 + csize c root /\ mode s' = 0 /\
          match r with
          | Some q => tp s' = pos q /\ caps_rel_map p cm (Spec.caps q) (mcaps s') /\ matched0 s' = true
          | None => mcaps s' = repeat [] (Z.to_nat (capsize p)) /\ matched0 s' = false
          end)) /\
      (L < 0 -> exists s', x = Ok s').
Proof.
  intros CS CZ CN CB root cm c HS HT HR e p Htc Htk Htl Hcodes Hstr Hcs Hf t0 Ht0.
  assert (G1 : cm_good cm = true) by (apply caps_map_good; assumption).
  assert (G2 : map_capnum c 0 = 0) by (apply caps_map_zero; assumption).
  assert (G3 : ren_ok (cm_G cm) root) by (apply caps_map_G; assumption).
  assert (G4 : groups_ok2 (capsize p) (ren c root)) by (rewrite Hcs; apply caps_map_groups; assumption).
  (* the reference search answers on the tree ... *)
  destruct (spec_attempt_total e root t0 HT Ht0 (term_fuel e root) (Nat.le_refl _)) as [r [Hatt _]].
  exists r. split; [exact Hatt|].
  (* ... and on the renamed tree, whose cfg0 code is the emitted code *)
  set (root' := ren c root).
  assert (ER : root' = NCapture o 0 (-1) (ren c body)).
  { unfold root', ren, root. cbn [ren_with]. rewrite G2. reflexivity. }
  assert (HT' : term_ok root' = true) by (unfold root', ren; rewrite ren_term_ok; exact HT).
  assert (HF' : term_fuel e root' = term_fuel e root) by (unfold root', ren, term_fuel; apply ren_term_fuel).
  assert (HS' : supported2 root' = true) by (unfold root', ren; rewrite cmap_supported2; exact HS).
  destruct (spec_attempt_total e root' t0 HT' Ht0 (term_fuel e root) ltac:(rewrite HF'; apply Nat.le_refl)) as [r' [Hatt' _]].
  pose proof (cmap_compile c eq_refl root) as CC. fold root' in CC.
  assert (G4' : groups_ok2 (capsize p) root') by exact G4.
  rewrite ER in *.
  destruct (compile_exec_total e p Htc Htk Htl (term_fuel e root) o (ren c body) t0 r'
              ltac:(rewrite Hcodes, CC; reflexivity) ltac:(rewrite Hstr, CC; reflexivity) HS' G4' Ht0 Hf Hatt') as [n Hn].
  exists (S n). intros L vfuel Hv x.
  destruct (Hn L vfuel) as [Htri Hunl]. cbv zeta in Htri, Hunl. fold x in Htri, Hunl.
  assert (Hlt : (n < 1000 * vfuel)%nat) by lia.
  split; [|intros HL; exact (Hunl HL Hlt)].
  destruct Htri as [Hlim | [[_ [s' Hx]] | [Hge _]]]; [left; exact Hlim | | lia].
  right. exists s'. split; [exact Hx|].
  exact (compile_correct_capmap_exec_partial e p cm Htc Htl L (term_fuel e root) vfuel o body t0 r s'
           Hcodes Hstr HS G1 G2 G3 G4 Ht0 Hf Hatt Hx).
Qed.

(* ================================================================ from the pattern text *)
(* the per-tree check of leg c10-parse (Extract/Drv10.v nums_okb, same definition) *)
Fixpoint nums_b (caps : list Z) (x : rnode) : bool :=
  match x with
  | RN t _ _ m n _ _ kids =>
      (if t =? T_Capture then (if n =? -1 then zmem m caps else zmem n caps && ((m =? -1) || zmem m caps))
       else if (t =? T_Ref) || (t =? T_BackRefCond) then zmem m caps else true)
      && (fix go (ks : list rnode) : bool := match ks with [] => true | k :: ks' => nums_b caps k && go ks' end) kids
  end.

Lemma nums_b_eq caps t o ch m n str st kids :
  nums_b caps (RN t o ch m n str st kids) =
  (if t =? T_Capture then (if n =? -1 then zmem m caps else zmem n caps && ((m =? -1) || zmem m caps))
   else if (t =? T_Ref) || (t =? T_BackRefCond) then zmem m caps else true) && forallb (nums_b caps) kids.
Proof.
  cbn [nums_b]. reflexivity.
Qed.

(* shape + numbers = the full invariant *)
Lemma shape_nums_wf caps : forall x, wfb (fun _ => true) x = true -> nums_b caps x = true -> wfb (fun k => zmem k caps) x = true.
Proof.
  induction x as [t o ch m n str st kids IH] using rnode_ind'. intros W N.
  rewrite wfb_eq in W |- *. rewrite nums_b_eq in N. apply andb_prop in W. destruct W as [K WK]. apply andb_prop in N. destruct N as [N0 NK].
  apply andb_true_intro. split.
  - unfold knd, gq in *. pose proof (kcls_inv t) as INV. destruct (kcls t) eqn:KC; try exact K.
    + (* leaf *) apply andb_prop in K. destruct K as [K1 _]. rewrite K1. cbn [andb].
      destruct (t =? T_Ref) eqn:ER; [|reflexivity]. assert (t = 13) by (unfold T_Ref in ER; lia). subst t. cbn in N0 |- *. exact N0.
    + (* one child *) destruct kids as [|k [|k2 r]]; try discriminate.
      destruct (t =? T_Capture) eqn:EC; [|reflexivity]. cbn [negb orb]. exact N0.
    + (* BackRefCond *) subst t. cbn in N0 |- *. destruct kids as [|k [|k2 [|k3 r]]]; try discriminate; exact N0.
  - clear K N0. induction IH as [|k r Hk _ IHr]; [reflexivity|]. cbn [forallb] in *.
    apply andb_prop in WK. destruct WK as [W1 W2]. apply andb_prop in NK. destruct NK as [N1 N2].
    rewrite (Hk W1 N1), (IHr W2 N2). reflexivity.
Qed.

(* the full invariant contains the numbers check *)
Lemma wf_nums caps : forall x, wfb (fun k => zmem k caps) x = true -> nums_b caps x = true.
Proof.
  induction x as [t o ch m n str st kids IH] using rnode_ind'. intros W.
  rewrite wfb_eq in W. rewrite nums_b_eq. apply andb_prop in W. destruct W as [K WK]. apply andb_true_intro. split.
  - unfold knd, gq in K. pose proof (kcls_inv t) as INV. destruct (kcls t) eqn:KC; try discriminate;
      try (assert (NT : (t =? T_Capture) = false /\ (t =? T_Ref) = false /\ (t =? T_BackRefCond) = false)
             by (unfold T_Capture, T_Ref, T_BackRefCond; lia); destruct NT as [-> [-> ->]]; reflexivity).
    + apply andb_prop in K. destruct K as [_ K]. destruct (t =? T_Ref) eqn:ER.
      * assert (t = 13) by (unfold T_Ref in ER; lia). subst t. cbn in K |- *. exact K.
      * assert (NT : (t =? T_Capture) = false /\ (t =? T_BackRefCond) = false) by (unfold T_Capture, T_BackRefCond; lia).
        destruct NT as [-> ->]. reflexivity.
    + destruct kids as [|k [|k2 r]]; try discriminate. destruct (t =? T_Capture) eqn:EC.
      * cbn [negb orb] in K. exact K.
      * assert (NT : (t =? T_Ref) = false /\ (t =? T_BackRefCond) = false) by (unfold T_Ref, T_BackRefCond; lia). destruct NT as [-> ->]. reflexivity.
    + subst t. cbn in K |- *. destruct kids as [|k [|k2 [|k3 r]]]; try discriminate; exact K.
  - clear K. induction IH as [|k r Hk _ IHr]; [reflexivity|]. cbn [forallb] in *. apply andb_prop in WK. destruct WK as [W1 W2].
    rewrite (Hk W1), (IHr W2). reflexivity.
Qed.

Section EndToEnd.
Variable is_word_char : Z -> bool.
Variable to_lower : Z -> Z.
Variable simple_fold : Z -> Z.
Variable participates : Z -> bool.
Variable cat_in : Z -> Z -> bool.
Variable cat_name : list Z -> Z.

Local Notation parse := (parse is_word_char to_lower simple_fold participates cat_in cat_name).

(* what is claimed of the program the writer emits for the parsed tree *)
Definition runs_as_spec (caps : list Z) (captop : Z) (root : node) : Prop :=
  let cm := caps_map caps captop in
  let c := {| capmap := cm; quick := None |} in
  forall (e : env) (p : program),
    0 <= trackcount p -> track_count (codes p) <= trackcount p -> tlen e <= INF ->
    codes p = fst (compile c root) -> strings p = snd (compile c root) -> capsize p = caps_size caps captop ->
    Z.of_nat (term_fuel e root) <= INF ->
    forall t0, 0 <= t0 <= tlen e ->
    exists r, attempt e (term_fuel e root) root t0 = Ok r /\
    exists vfuel0 : nat, forall L vfuel, (vfuel0 <= vfuel)%nat ->
      let x := exec_at e p L vfuel t0 in
      ((x = Err E_StackLimit /\ 0 <= L) \/
       (exists s', x = Ok s' /\ pc s' = 2 + csize c root /\ mode s' = 0 /\
          match r with
          | Some q => tp s' = pos q /\ caps_rel_map p cm (Spec.caps q) (mcaps s') /\ matched0 s' = true
          | None => mcaps s' = repeat [] (Z.to_nat (capsize p)) /\ matched0 s' = false
          end)) /\
      (L < 0 -> exists s', x = Ok s').

(* outright: every option word *)
Theorem pattern_text_end_to_end o mco_flag ptxt t caps captop :
  (forall c, is_word_char c = true -> negb (zmem c [33; 35; 39; 40; 41; 45; 60; 61; 62; 63; 91; 92]) = true) ->
  (forall c, (49 <=? c) && (c <=? 57) = true -> is_word_char c = true) ->
  captop < maxint32 ->
  parse o mco_flag ptxt = Ok (PR_Tree t caps captop) ->
  forall sid, exists body,
    to_node sid t = Some (NCapture (n_o t) 0 (-1) body) /\ runs_as_spec caps captop (NCapture (n_o t) 0 (-1) body).
Proof.
  intros HW HD HT E sid.
  destruct (parsed_tree_groups is_word_char to_lower simple_fold participates cat_in cat_name o mco_flag ptxt t caps captop HW HD HT E sid)
    as [body [EN [S [T R]]]].
  destruct (parsed_caps_table is_word_char to_lower simple_fold participates cat_in cat_name o mco_flag ptxt t caps captop E) as [CS [CZ [CN CB]]].
  exists body. split; [exact EN|]. unfold runs_as_spec.
  exact (tree_end_to_end caps captop (n_o t) body CS CZ CN (CB HT) S T R).
Qed.

(* without the oracle ties: the group numbers checked on the tree *)
Theorem pattern_text_end_to_end_checked o mco_flag ptxt t caps captop :
  captop < maxint32 ->
  parse o mco_flag ptxt = Ok (PR_Tree t caps captop) ->
  nums_b caps t = true ->
  forall sid, exists body,
    to_node sid t = Some (NCapture (n_o t) 0 (-1) body) /\ runs_as_spec caps captop (NCapture (n_o t) 0 (-1) body).
Proof.
  intros HT E NB sid.
  pose proof (parse_tree_shape is_word_char to_lower simple_fold participates cat_in cat_name o mco_flag ptxt t caps captop E) as W0.
  pose proof (shape_nums_wf caps t W0 NB) as W.
  destruct (parse_tree_root is_word_char to_lower simple_fold participates cat_in cat_name o mco_flag ptxt t caps captop E) as [R1 [R2 R3]].
  destruct (wf_conv sid (fun k => zmem k caps) t W) as [root [ER [[S [T R]] _]]].
  destruct (root_conv sid (fun k => zmem k caps) t R1 R2 R3 root W ER) as [body ->].
  destruct (parsed_caps_table is_word_char to_lower simple_fold participates cat_in cat_name o mco_flag ptxt t caps captop E) as [CS [CZ [CN CB]]].
  exists body. split; [exact ER|]. unfold runs_as_spec.
  exact (tree_end_to_end caps captop (n_o t) body CS CZ CN (CB HT) S T R).
Qed.

(* the invariants on the parser's own tree *)
Theorem parsed_tree_shape_root o mco_flag p t caps captop :
  parse o mco_flag p = Ok (PR_Tree t caps captop) ->
  wfb (fun _ => true) t = true /\ n_t t = T_Capture /\ n_m t = 0 /\ n_n t = -1.
Proof.
  intros E. split; [exact (parse_tree_shape is_word_char to_lower simple_fold participates cat_in cat_name o mco_flag p t caps captop E)|].
  exact (parse_tree_root is_word_char to_lower simple_fold participates cat_in cat_name o mco_flag p t caps captop E).
Qed.

Theorem parsed_tree_nums o mco_flag p t caps captop :
  (forall c, is_word_char c = true -> negb (zmem c [33; 35; 39; 40; 41; 45; 60; 61; 62; 63; 91; 92]) = true) ->
  (forall c, (49 <=? c) && (c <=? 57) = true -> is_word_char c = true) ->
  captop < maxint32 ->
  parse o mco_flag p = Ok (PR_Tree t caps captop) ->
  wfb (fun k => zmem k caps) t = true /\ nums_b caps t = true.
Proof.
  intros HW HD HT E.
  pose proof (parse_tree_wf is_word_char to_lower simple_fold participates cat_in cat_name HW HD o mco_flag p t caps captop HT E) as W.
  split; [exact W | apply wf_nums; exact W].
Qed.

End EndToEnd.
