(* One lemma per opcode variant: what [ustep] (VM.step with unbounded stacks) does.
   These are obtained by symbolic evaluation of VM.step itself. *)
From Verif Require Import Base.Prelude Model.Tree Model.Spec Model.VM Gen.RunnerGen Proofs.VMU.
From Coq Require Import Relations ZifyBool.

Section Ops.
Variable e : env.
Variable p : program.
Hypothesis tc_nonneg : 0 <= trackcount p.

Notation ustep := (ustep e p).
Notation mk := VMU.mk.

(* the state entered when backtracking pops the frame head [np] *)
Definition bk (np t : Z) (T S C : list Z) (M : list (list Z)) : vm :=
  mk (Z.abs np) (if np <? 0 then Back2Bit else BackBit) t T S C M.

Ltac start H0 :=
  unfold ustep, VMU.ustep, step; cbn [repad VMU.mk pc mode tp track stack crawl mcaps tcap scap]; rewrite H0.

Ltac fin := cbn [bind cont norm VMU.mk repad set_pc set_tp set_track set_stack set_caps set_tcap set_scap pc mode tp track stack crawl mcaps tcap scap app];
            try reflexivity.

(* failing: brk *)
Lemma brk_ok s np T w :
  track s = np :: T -> code_at p (Z.abs np) = Some w ->
  trackcount p * G_ensure_factor <= scap s - zlen (stack s) ->
  trackcount p * G_ensure_factor <= tcap s - zlen T ->
  brk p (-1) s = Ok (Next (set_pc (set_track s T) (Z.abs np) (if np <? 0 then Back2Bit else BackBit))).
Proof. intros. unfold brk. erewrite backtrack_ok by eassumption. reflexivity. Qed.

Ltac pcs := cbn [repad VMU.mk set_pc set_tp set_track set_stack set_caps pc]; lia.
Ltac adv n H := erewrite (advance_at p _ _ n) by (first [exact H | pcs]).
Ltac opn a H := erewrite (opnd_at p _ _ a) by (first [exact H | pcs]).
Ltac gto H := erewrite goto_ok by (first [exact H | room]).
Ltac tpu := rewrite tpush_ok by room; cbn [bind].
Ltac spu := rewrite spush_ok by room; cbn [bind].
Ltac fail_to H3 := (erewrite brk_ok; [| cbn [repad VMU.mk set_pc set_tp set_track set_stack set_caps track]; reflexivity | exact H3 | room | room]).

Lemma ustep_lazybranch pc0 t T S C M L w2 :
  code_at p pc0 = Some Lazybranch -> code_at p (pc0 + 1) = Some L -> code_at p (pc0 + 2) = Some w2 ->
  ustep (mk pc0 0 t T S C M) = Ok (Next (mk (pc0 + 2) 0 t (pc0 :: t :: T) S C M)).
Proof.
  intros H0 H1 H2. start H0. change (Z.land Lazybranch 63) with 23. cbn -[tpush advance].
  tpu. adv (pc0 + 2) H2. fin.
Qed.

Lemma ustep_lazybranch_back pc0 t x T S C M L w2 :
  code_at p pc0 = Some Lazybranch -> code_at p (pc0 + 1) = Some L -> code_at p L = Some w2 ->
  ustep (mk pc0 BackBit t (x :: T) S C M) = Ok (Next (mk L 0 x T S C M)).
Proof.
  intros H0 H1 H2. start H0. change (Z.land Lazybranch 63) with 23. cbn -[goto opnd].
  opn (pc0 + 1) H1. cbn [bind]. gto H2. fin.
Qed.

Lemma ustep_goto pc0 t T S C M L w2 :
  code_at p pc0 = Some Goto -> code_at p (pc0 + 1) = Some L -> code_at p L = Some w2 ->
  ustep (mk pc0 0 t T S C M) = Ok (Next (mk L 0 t T S C M)).
Proof.
  intros H0 H1 H2. start H0. change (Z.land Goto 63) with 38. cbn -[goto opnd].
  opn (pc0 + 1) H1. cbn [bind]. gto H2. fin.
Qed.

Lemma ustep_setmark pc0 t T S C M w2 :
  code_at p pc0 = Some Setmark -> code_at p (pc0 + 1) = Some w2 ->
  ustep (mk pc0 0 t T S C M) = Ok (Next (mk (pc0 + 1) 0 t (pc0 :: T) (t :: S) C M)).
Proof.
  intros H0 H2. start H0. change (Z.land Setmark 63) with 31. cbn -[tpush spush advance].
  spu. tpu. adv (pc0 + 1) H2. fin.
Qed.

Lemma ustep_nullmark pc0 t T S C M w2 :
  code_at p pc0 = Some Nullmark -> code_at p (pc0 + 1) = Some w2 ->
  ustep (mk pc0 0 t T S C M) = Ok (Next (mk (pc0 + 1) 0 t (pc0 :: T) (-1 :: S) C M)).
Proof.
  intros H0 H2. start H0. change (Z.land Nullmark 63) with 30. cbn -[tpush spush advance].
  spu. tpu. adv (pc0 + 1) H2. fin.
Qed.

(* Setmark|Back and Nullmark|Back: pop the mark and keep backtracking *)
Lemma ustep_mark_back pc0 w t np T x S C M w3 :
  code_at p pc0 = Some w -> (w = Setmark \/ w = Nullmark) -> code_at p (Z.abs np) = Some w3 ->
  ustep (mk pc0 BackBit t (np :: T) (x :: S) C M) = Ok (Next (bk np t T S C M)).
Proof.
  intros H0 Hw H3. start H0.
  destruct Hw as [-> | ->]; [change (Z.land Setmark 63) with 31 | change (Z.land Nullmark 63) with 30]; cbn -[brk];
    fail_to H3; fin.
Qed.

Lemma ustep_nothing pc0 t np T S C M w3 :
  code_at p pc0 = Some Nothing -> code_at p (Z.abs np) = Some w3 ->
  ustep (mk pc0 0 t (np :: T) S C M) = Ok (Next (bk np t T S C M)).
Proof.
  intros H0 H3. start H0. change (Z.land Nothing 63) with 22. cbn -[brk].
  fail_to H3; fin.
Qed.

Lemma ustep_stop pc0 t T S C M :
  code_at p pc0 = Some Stop -> ustep (mk pc0 0 t T S C M) = Ok (Done (mk pc0 0 t T S C M)).
Proof. intros H0. start H0. change (Z.land Stop 63) with 40. cbn. reflexivity. Qed.

End Ops.
