(* Per-opcode lemma for Multi (literal string, either direction, optional case folding of the
   text side), by symbolic evaluation of VM.step; root-slot lifting; and the writer's string table. *)
From Verif Require Import Base.Prelude Model.Tree Model.Spec Model.VM Model.Writer Gen.RunnerGen
  Proofs.VMU Proofs.VMUOps Proofs.VMUOps2 Proofs.VMCapacityProofs.
From Coq Require Import Relations ZifyBool.

Section Ops5.
Variable e : env.
Variable p : program.
Hypothesis tc_nonneg : 0 <= trackcount p.

Notation ustep := (VMU.ustep e p).
Notation mk := VMU.mk.

Ltac start H0 :=
  unfold VMU.ustep, step; cbn [repad VMU.mk pc mode tp track stack crawl mcaps tcap scap]; rewrite H0.
Ltac fin := cbn [bind cont norm VMU.mk repad set_pc set_tp set_track set_stack set_caps set_tcap set_scap pc mode tp track stack crawl mcaps tcap scap app];
            try reflexivity.
Ltac pcs := cbn [repad VMU.mk set_pc set_tp set_track set_stack set_caps pc]; lia.
Ltac adv n H := erewrite (advance_at p _ _ n) by (first [exact H | pcs]).
Ltac opn a H := erewrite (opnd_at p _ _ a) by (first [exact H | pcs]).
Ltac fail_to H3 := (erewrite brk_ok; [| cbn [repad VMU.mk set_pc set_tp set_track set_stack set_caps track]; reflexivity | exact H3 | room | room]).

Lemma rtl_of_multi o : rtl_of (Multi + bits_of o) = is_rtl o.
Proof. unfold rtl_of, bits_of. destruct (is_rtl o), (is_ci o); reflexivity. Qed.
Lemma ci_of_multi o : ci_of (Multi + bits_of o) = is_ci o.
Proof. unfold ci_of, bits_of. destruct (is_rtl o), (is_ci o); reflexivity. Qed.

Lemma cmp_str_spec ci : forall str p0, 0 <= p0 -> p0 + zlen str <= tlen e ->
  cmp_str e ci str p0 = Some (str_match_at e ci str p0).
Proof.
  induction str as [|c str IH]; intros p0 H0 Hl; cbn [cmp_str str_match_at]; [reflexivity|].
  rewrite zlen_cons in Hl. pose proof (zlen_nonneg str).
  rewrite text_at_ok by lia.
  destruct (c =? (if ci then lower e (char_at e p0) else char_at e p0)); cbn [andb]; [|reflexivity].
  apply IH; lia.
Qed.

Definition multi_cond (o : Z) (str : list Z) (t : Z) : bool :=
  if avail e o t <? zlen str then false
  else str_match_at e (is_ci o) str (if is_rtl o then t - zlen str else t).

Lemma ustep_multi_ok o i str pc0 t T S C M w2 :
  code_at p pc0 = Some (Multi + bits_of o) -> code_at p (pc0 + 1) = Some i -> code_at p (pc0 + 2) = Some w2 ->
  znth (strings p) i = Some str -> 0 <= t <= tlen e -> multi_cond o str t = true ->
  ustep (mk pc0 0 t T S C M) = Ok (Next (mk (pc0 + 2) 0 (t + dir o * zlen str) T S C M)).
Proof.
  intros H0 H1 H2 Hs Ht Hc.
  set (w := Multi + bits_of o) in *.
  assert (Hw : Z.land w 63 = Multi) by (apply cp_land_bits; cbv; split; congruence).
  assert (Hr : rtl_of w = is_rtl o) by apply rtl_of_multi.
  assert (Hci : ci_of w = is_ci o) by apply ci_of_multi.
  clearbody w. unfold multi_cond in Hc.
  start H0. rewrite Hw. cbn -[opnd fwdchars cmp_str brk advance zlen].
  opn (pc0 + 1) H1. cbn [bind]. rewrite Hs. unfold fwdchars. rewrite Hr, Hci. cbn [tp repad VMU.mk].
  pose proof (zlen_nonneg str) as Hz.
  unfold avail, dir in *. destruct (is_rtl o).
  - destruct (t <? zlen str) eqn:E; [discriminate|].
    rewrite cmp_str_spec by lia. rewrite Hc. adv (pc0 + 2) H2. fin; unfold norm, set_pc, set_tp, repad, VMU.mk; cbn [pc mode tp track stack crawl mcaps]; repeat f_equal; lia.
  - destruct (tlen e - t <? zlen str) eqn:E; [discriminate|].
    rewrite cmp_str_spec by lia. rewrite Hc. adv (pc0 + 2) H2. fin; unfold norm, set_pc, set_tp, repad, VMU.mk; cbn [pc mode tp track stack crawl mcaps]; repeat f_equal; lia.
Qed.

Lemma ustep_multi_fail o i str pc0 t np T S C M w3 :
  code_at p pc0 = Some (Multi + bits_of o) -> code_at p (pc0 + 1) = Some i -> code_at p (Z.abs np) = Some w3 ->
  znth (strings p) i = Some str -> 0 <= t <= tlen e -> multi_cond o str t = false ->
  ustep (mk pc0 0 t (np :: T) S C M) = Ok (Next (bk np t T S C M)).
Proof.
  intros H0 H1 H3 Hs Ht Hc.
  set (w := Multi + bits_of o) in *.
  assert (Hw : Z.land w 63 = Multi) by (apply cp_land_bits; cbv; split; congruence).
  assert (Hr : rtl_of w = is_rtl o) by apply rtl_of_multi.
  assert (Hci : ci_of w = is_ci o) by apply ci_of_multi.
  clearbody w. unfold multi_cond in Hc.
  start H0. rewrite Hw. cbn -[opnd fwdchars cmp_str brk advance zlen].
  opn (pc0 + 1) H1. cbn [bind]. rewrite Hs. unfold fwdchars. rewrite Hr, Hci. cbn [tp repad VMU.mk].
  pose proof (zlen_nonneg str) as Hz.
  unfold avail in *. destruct (is_rtl o).
  - destruct (t <? zlen str) eqn:E; [fail_to H3; fin|].
    rewrite cmp_str_spec by lia. rewrite Hc. fail_to H3; fin.
  - destruct (tlen e - t <? zlen str) eqn:E; [fail_to H3; fin|].
    rewrite cmp_str_spec by lia. rewrite Hc. fail_to H3; fin.
Qed.

End Ops5.

Section Root5.
Variable e : env.
Variable p : program.
Hypothesis tc_nonneg : 0 <= trackcount p.
Notation rsteps := (VMUOps2.rsteps e p).

Ltac lift L := intros; apply rsteps_one; intro r; unfold bkr, mkr; cbn [app]; eapply L; eassumption.

Lemma rs_multi_ok o i str pc0 t T S C M w2 :
  code_at p pc0 = Some (Multi + bits_of o) -> code_at p (pc0 + 1) = Some i -> code_at p (pc0 + 2) = Some w2 ->
  znth (strings p) i = Some str -> 0 <= t <= tlen e -> multi_cond e o str t = true ->
  rsteps (mkr pc0 0 t T S C M) (mkr (pc0 + 2) 0 (t + dir o * zlen str) T S C M).
Proof. lift ustep_multi_ok. Qed.

Lemma rs_multi_fail o i str pc0 t np T S C M w3 :
  code_at p pc0 = Some (Multi + bits_of o) -> code_at p (pc0 + 1) = Some i -> code_at p (Z.abs np) = Some w3 ->
  znth (strings p) i = Some str -> 0 <= t <= tlen e -> multi_cond e o str t = false ->
  rsteps (mkr pc0 0 t (np :: T) S C M) (bkr np t T S C M).
Proof. lift ustep_multi_fail. Qed.

End Root5.

(* ---------- the writer's string table ---------- *)
Lemma zlist_eqb_eq : forall a b, zlist_eqb a b = true -> a = b.
Proof.
  induction a as [|x a IH]; intros [|y b] H; cbn [zlist_eqb] in H; try discriminate; [reflexivity|].
  apply andb_prop in H. destruct H as [H1 H2]. apply Z.eqb_eq in H1. subst y. f_equal. apply IH. exact H2.
Qed.

Lemma str_index_spec s : forall tbl k i, str_index s tbl k = Some i ->
  exists j, i = k + Z.of_nat j /\ nth_error tbl j = Some s.
Proof.
  induction tbl as [|x tbl IH]; intros k i H; cbn [str_index] in H; [discriminate|].
  destruct (zlist_eqb s x) eqn:E.
  - injection H as <-. apply zlist_eqb_eq in E. subst x. exists 0%nat. split; [lia|reflexivity].
  - apply IH in H. destruct H as [j [Hi Hj]]. exists (S j). split; [lia|exact Hj].
Qed.

Lemma string_code_spec s tbl i tbl' : string_code s tbl = (i, tbl') -> znth tbl' i = Some s.
Proof.
  unfold string_code. destruct (str_index s tbl 0) as [i0|] eqn:E; intros H; injection H as <- <-.
  - apply str_index_spec in E. destruct E as [j [-> Hj]]. unfold znth.
    replace (0 + Z.of_nat j <? 0) with false by lia. replace (Z.to_nat (0 + Z.of_nat j)) with j by lia. exact Hj.
  - unfold znth, zlen. replace (Z.of_nat (length tbl) <? 0) with false by lia.
    rewrite Nat2Z.id. rewrite nth_error_app2 by lia. rewrite Nat.sub_diag. reflexivity.
Qed.
